import LeptosModel.Proofs.RViewM
import LeptosModel.Proofs.RViewShow
/-!
# Proofs/RViewMTree — state trees of views whose dynamic parts read signals and memos, `Show` included
-/
namespace Leptos.RView
open Leptos.Reactive

/-- everything of the grammar of the theorems, `Show` included (no component-local state) -/
def View.coreS : View → Bool
  | .text _ => true
  | .unit => true
  | .elem _ _ kid => kid.coreS
  | .seq a b => a.coreS && b.coreS
  | .dynText _ => true
  | .either _ a b => a.coreS && b.coreS
  | .show _ a b => a.coreS && b.coreS
  | .forKeyed _ _ => true
  | .scope _ _ _ => false
  | .forRows _ _ _ _ => false
  | .eb _ => false
  | .res _ _ => false

/-- `m` is the memo of a `Show` over the condition `c` -/
def ShowMemo (K : Nat) (st : St) (m : Nat) (c : Expr) : Prop :=
  K ≤ m ∧ m < st.prog.length ∧ st.prog[m]? = some (.memo (showBody c))

/-- the state `t` is a state of the view `v`; every effect in it satisfies `P`, every `Show` memo `Q` -/
def GoodM (P : EP) (Q : Nat → Expr → Prop) : View → RState → Prop
  | .text s, .text _ s' => s = s'
  | .unit, .unit _ => True
  | .elem tag attrs kid, .elem _ tag' as k => tag = tag' ∧ GoodAttrsP P attrs as ∧ GoodM P Q kid k
  | .seq a b, .seq sa sb => GoodM P Q a sa ∧ GoodM P Q b sb
  | .dynText x, .dynText e x' _ last => x = x' ∧ P e x (fun v => last = v)
  | .either c a b, .either e c' a' b' left inner =>
    c = c' ∧ a = a' ∧ b = b' ∧ P e c (fun v => left = (v != 0)) ∧
      (left = true → GoodM P Q a inner) ∧ (left = false → GoodM P Q b inner)
  | .show c a b, .show e m c' a' b' left inner =>
    c = c' ∧ a = a' ∧ b = b' ∧ P e (.rd true m) (fun v => left = (v != 0)) ∧ Q m c ∧ m < e ∧
      (left = true → GoodM P Q a inner) ∧ (left = false → GoodM P Q b inner)
  | .forKeyed sel lists, .forK e sel' lists' ks _ =>
    sel = sel' ∧ lists = lists' ∧ P e sel (fun v => ks.hashed = listAt lists v) ∧ KOK ks
  -- a `Result` leaf; a boundary: its effect reads the memo `m = s + 1` over the register `s`
  | .res c x, .res e c' x' _ last _ => c = c' ∧ x = x' ∧ P e (resBody c x) (fun v => last = decodeRes v)
  | .eb kid, .errb e m s fb k =>
    m = s + 1 ∧ P e (.rd true m) (fun v => fb.isSome = (v == 0)) ∧ GoodM P Q kid k
  | _, _ => False

theorem GoodM.map {P P' : EP} {Q Q' : Nat → Expr → Prop} : ∀ (v : View) (t : RState), GoodM P Q v t →
    (∀ e x cur, e ∈ effsOf t → P e x cur → P' e x cur) → (∀ m c, Q m c → Q' m c) → GoodM P' Q' v t := by
  intro v
  induction v with
  | text s => intro t h _ _; cases t <;> simp only [GoodM] at h ⊢ <;> exact h
  | unit => intro t h _ _; cases t <;> simp only [GoodM] at h ⊢
  | elem tag attrs kid ih =>
    intro t h hm hq
    cases t <;> simp only [GoodM] at h ⊢
    next n tag' as k =>
      exact ⟨h.1, h.2.1.map (fun e x cur he => hm e x cur (by simp [effsOf, he])),
        ih k h.2.2 (fun e x cur he => hm e x cur (by simp [effsOf, he])) hq⟩
  | seq a b iha ihb =>
    intro t h hm hq
    cases t <;> simp only [GoodM] at h ⊢
    next sa sb =>
      exact ⟨iha sa h.1 (fun e x cur he => hm e x cur (by simp [effsOf, he])) hq,
        ihb sb h.2 (fun e x cur he => hm e x cur (by simp [effsOf, he])) hq⟩
  | dynText x =>
    intro t h hm _
    cases t <;> simp only [GoodM] at h ⊢
    next e x' n last => exact ⟨h.1, hm e _ _ (by simp [effsOf]) h.2⟩
  | either c a b iha ihb =>
    intro t h hm hq
    cases t <;> simp only [GoodM] at h ⊢
    next e c' a' b' left inner =>
      refine ⟨h.1, h.2.1, h.2.2.1, hm e _ _ (by simp [effsOf]) h.2.2.2.1, ?_, ?_⟩
      · intro hl; exact iha inner (h.2.2.2.2.1 hl) (fun e x cur he => hm e x cur (by simp [effsOf, he])) hq
      · intro hl; exact ihb inner (h.2.2.2.2.2 hl) (fun e x cur he => hm e x cur (by simp [effsOf, he])) hq
  | «show» c a b iha ihb =>
    intro t h hm hq
    cases t <;> simp only [GoodM] at h ⊢
    next e m c' a' b' left inner =>
      refine ⟨h.1, h.2.1, h.2.2.1, hm e _ _ (by simp [effsOf]) h.2.2.2.1, hq _ _ h.2.2.2.2.1, h.2.2.2.2.2.1, ?_, ?_⟩
      · intro hl; exact iha inner (h.2.2.2.2.2.2.1 hl) (fun e x cur he => hm e x cur (by simp [effsOf, he])) hq
      · intro hl; exact ihb inner (h.2.2.2.2.2.2.2 hl) (fun e x cur he => hm e x cur (by simp [effsOf, he])) hq
  | forKeyed sel lists =>
    intro t h hm _
    cases t <;> simp only [GoodM] at h ⊢
    next e sel' lists' ks texts => exact ⟨h.1, h.2.1, hm e _ _ (by simp [effsOf]) h.2.2.1, h.2.2.2⟩
  | scope sid d kid _ => intro t h _ _; cases t <;> simp only [GoodM] at h
  | forRows en sel lists row _ => intro t h _ _; cases t <;> simp only [GoodM] at h
  | eb kid ih =>
    intro t h hm hq
    cases t <;> simp only [GoodM] at h ⊢
    next e m s fb k =>
      exact ⟨h.1, hm e _ _ (by simp [effsOf]) h.2.1,
        ih k h.2.2 (fun e x cur he => hm e x cur (by simp [effsOf, he])) hq⟩
  | res c x =>
    intro t h hm _
    cases t <;> simp only [GoodM] at h ⊢
    next e c' x' n last hook => exact ⟨h.1, h.2.1, hm e _ _ (by simp [effsOf]) h.2.2⟩

theorem GoodM.viewOf {P : EP} {Q : Nat → Expr → Prop} : ∀ (v : View) (t : RState), GoodM P Q v t →
    RView.viewOf t = v := by
  intro v
  induction v with
  | text s => intro t h; cases t <;> simp only [GoodM] at h; simp [RView.viewOf, h]
  | unit => intro t h; cases t <;> simp only [GoodM] at h; rfl
  | elem tag attrs kid ih =>
    intro t h; cases t <;> simp only [GoodM] at h
    next n tag' as k => simp only [RView.viewOf, h.1, h.2.1.viewOf, ih k h.2.2]
  | seq a b iha ihb =>
    intro t h; cases t <;> simp only [GoodM] at h
    next sa sb => simp only [RView.viewOf, iha sa h.1, ihb sb h.2]
  | dynText x => intro t h; cases t <;> simp only [GoodM] at h; simp [RView.viewOf, h.1]
  | either c a b _ _ =>
    intro t h; cases t <;> simp only [GoodM] at h
    simp [RView.viewOf, h.1, h.2.1, h.2.2.1]
  | «show» c a b _ _ =>
    intro t h; cases t <;> simp only [GoodM] at h
    simp [RView.viewOf, h.1, h.2.1, h.2.2.1]
  | forKeyed sel lists => intro t h; cases t <;> simp only [GoodM] at h; simp [RView.viewOf, h.1, h.2.1]
  | scope sid d kid _ => intro t h; cases t <;> simp only [GoodM] at h
  | forRows en sel lists row _ => intro t h; cases t <;> simp only [GoodM] at h
  | eb kid ih =>
    intro t h; cases t <;> simp only [GoodM] at h
    next e m s fb k => simp only [RView.viewOf, ih k h.2.2]
  | res c x => intro t h; cases t <;> simp only [GoodM] at h; simp [RView.viewOf, h.1, h.2.1]

theorem GoodM.plain {P : EP} {Q : Nat → Expr → Prop} (v : View) (t : RState) (h : GoodM P Q v t) :
    t.plain = true := by
  cases v <;> cases t <;> first | rfl | simp only [GoodM] at h

theorem GoodM.locals_nil {P : EP} {Q : Nat → Expr → Prop} : ∀ (v : View) (t : RState), GoodM P Q v t →
    t.locals = [] := by
  intro v
  induction v with
  | text s => intro t h; cases t <;> simp only [GoodM] at h; rfl
  | unit => intro t h; cases t <;> simp only [GoodM] at h; rfl
  | elem tag attrs kid ih =>
    intro t h; cases t <;> simp only [GoodM] at h
    next n tag' as k => simp only [RState.locals, ih k h.2.2]
  | seq a b iha ihb =>
    intro t h; cases t <;> simp only [GoodM] at h
    next sa sb => simp only [RState.locals, iha sa h.1, ihb sb h.2, List.append_nil]
  | dynText x => intro t h; cases t <;> simp only [GoodM] at h; rfl
  | either c a b iha ihb =>
    intro t h; cases t <;> simp only [GoodM] at h
    next e c' a' b' left inner =>
      simp only [RState.locals]
      cases hl : left with
      | true => exact iha inner (h.2.2.2.2.1 hl)
      | false => exact ihb inner (h.2.2.2.2.2 hl)
  | «show» c a b iha ihb =>
    intro t h; cases t <;> simp only [GoodM] at h
    next e m c' a' b' left inner =>
      simp only [RState.locals]
      cases hl : left with
      | true => exact iha inner (h.2.2.2.2.2.2.1 hl)
      | false => exact ihb inner (h.2.2.2.2.2.2.2 hl)
  | forKeyed sel lists => intro t h; cases t <;> simp only [GoodM] at h; rfl
  | scope sid d kid _ => intro t h; cases t <;> simp only [GoodM] at h
  | forRows en sel lists row _ => intro t h; cases t <;> simp only [GoodM] at h
  | eb kid ih =>
    intro t h; cases t <;> simp only [GoodM] at h
    next e m s fb k => simp only [RState.locals, ih k h.2.2]
  | res c x => intro t h; cases t <;> simp only [GoodM] at h; rfl

/-- bounds of the effects of a tree whose effects exist -/
theorem GoodM.bound {K : Nat} {st : St} {Q : Nat → Expr → Prop} : ∀ (v : View) (t : RState),
    GoodM (EffWf K st) Q v t → ∀ e ∈ effsOf t, K ≤ e ∧ e < st.prog.length := by
  intro v
  induction v with
  | text s => intro t h e he; cases t <;> simp only [GoodM] at h; simp [effsOf] at he
  | unit => intro t h e he; cases t <;> simp only [GoodM] at h; simp [effsOf] at he
  | elem tag attrs kid ih =>
    intro t h e he
    cases t <;> simp only [GoodM] at h
    next n tag' as k =>
      simp only [effsOf, List.mem_append] at he
      rcases he with he | he
      · exact h.2.1.bound e he
      · exact ih k h.2.2 e he
  | seq a b iha ihb =>
    intro t h e he
    cases t <;> simp only [GoodM] at h
    next sa sb =>
      simp only [effsOf, List.mem_append] at he
      rcases he with he | he
      · exact iha sa h.1 e he
      · exact ihb sb h.2 e he
  | dynText x =>
    intro t h e he
    cases t <;> simp only [GoodM] at h
    next e' x' n last =>
      simp only [effsOf, List.mem_singleton] at he; subst he; exact ⟨h.2.1, h.2.2.1⟩
  | either c a b iha ihb =>
    intro t h e he
    cases t <;> simp only [GoodM] at h
    next e' c' a' b' left inner =>
      simp only [effsOf, List.mem_cons] at he
      rcases he with he | he
      · subst he; exact ⟨h.2.2.2.1.1, h.2.2.2.1.2.1⟩
      · cases hl : left with
        | true => exact iha inner (h.2.2.2.2.1 hl) e he
        | false => exact ihb inner (h.2.2.2.2.2 hl) e he
  | «show» c a b iha ihb =>
    intro t h e he
    cases t <;> simp only [GoodM] at h
    next e' m c' a' b' left inner =>
      simp only [effsOf, List.mem_cons] at he
      rcases he with he | he
      · subst he; exact ⟨h.2.2.2.1.1, h.2.2.2.1.2.1⟩
      · cases hl : left with
        | true => exact iha inner (h.2.2.2.2.2.2.1 hl) e he
        | false => exact ihb inner (h.2.2.2.2.2.2.2 hl) e he
  | forKeyed sel lists =>
    intro t h e he
    cases t <;> simp only [GoodM] at h
    next e' sel' lists' ks texts =>
      simp only [effsOf, List.mem_singleton] at he; subst he; exact ⟨h.2.2.1.1, h.2.2.1.2.1⟩
  | scope sid d kid _ => intro t h _ _; cases t <;> simp only [GoodM] at h
  | forRows en sel lists row _ => intro t h _ _; cases t <;> simp only [GoodM] at h
  | eb kid ih =>
    intro t h e he
    cases t <;> simp only [GoodM] at h
    next e' m s fb k =>
      simp only [effsOf, List.mem_cons] at he
      rcases he with he | he
      · subst he; exact ⟨h.2.1.1, h.2.1.2.1⟩
      · exact ih k h.2.2 e he
  | res c x =>
    intro t h e he
    cases t <;> simp only [GoodM] at h
    next e' c' x' n last hook =>
      simp only [effsOf, List.mem_singleton] at he; subst he; exact ⟨h.2.2.1, h.2.2.2.1⟩

/-- a tree held by the task of a dropped effect -/
structure ZTreeM (K : Nat) (st : St) (h : RState) : Prop where
  good : GoodM (EffWf K st) (ShowMemo K st) (viewOf h) h
  wf : (viewOf h).wf K = true
  core : (viewOf h).coreS = true

theorem ShowMemo.ext {K : Nat} {A : Nat → Prop} {st st' : St} {m : Nat} {c : Expr} (h : ShowMemo K st m c)
    (hx : ExtM K A st st') : ShowMemo K st' m c :=
  ⟨h.1, by have := hx.len_le; have := h.2.1; omega, by rw [hx.prog_get h.2.1]; exact h.2.2⟩

theorem EffWf.extM {K : Nat} {A : Nat → Prop} {st st' : St} {e : Nat} {x : Expr} {cur : Int → Prop}
    (hp : EffWf K st e x cur) (hx : ExtM K A st st') : EffWf K st' e x cur :=
  ⟨hp.1, by have := hx.len_le; have := hp.2.1; omega, by rw [hx.prog_get hp.2.1]; exact hp.2.2⟩

theorem ZTreeM.ext {K : Nat} {A : Nat → Prop} {st st' : St} {h : RState} (hz : ZTreeM K st h)
    (hx : ExtM K A st st') : ZTreeM K st' h :=
  ⟨GoodM.map _ _ hz.good (fun _ _ _ _ hp => hp.extM hx) (fun _ _ hq => hq.ext hx), hz.wf, hz.core⟩

theorem ZTreeM.of_good {K : Nat} {st : St} {v : View} {t : RState}
    (h : GoodM (EM K st) (ShowMemo K st) v t) (hw : v.wf K = true) (hc : v.coreS = true) : ZTreeM K st t := by
  have hv := GoodM.viewOf v t h
  exact ⟨by rw [hv]; exact GoodM.map v t h (fun _ _ _ _ hp => hp.wf) (fun _ _ hq => hq),
    by rw [hv]; exact hw, by rw [hv]; exact hc⟩

/-- what a state hands over when it is dropped: its own effects, each holding a well-formed tree -/
theorem held_okM {K : Nat} {st : St} : ∀ (v : View) (t : RState),
    GoodM (EffWf K st) (ShowMemo K st) v t → v.wf K = true → v.coreS = true →
    ∀ z ∈ t.held, z.1 ∈ effsOf t ∧ ∀ h, z.2 = some h → ZTreeM K st h := by
  intro v
  induction v with
  | text s => intro t h _ _ z hz; cases t <;> simp only [GoodM] at h; simp [RState.held] at hz
  | unit => intro t h _ _ z hz; cases t <;> simp only [GoodM] at h; simp [RState.held] at hz
  | elem tag attrs kid ih =>
    intro t h hw hc z hz
    cases t <;> simp only [GoodM] at h
    next n tag' as k =>
      simp only [View.wf, Bool.and_eq_true] at hw
      simp only [View.coreS] at hc
      simp only [RState.held, List.mem_append] at hz
      simp only [effsOf, List.mem_append]
      rcases hz with hz | hz
      · have := attrs_held_ok as z hz
        exact ⟨Or.inl this.1, fun h' hh => by rw [this.2] at hh; cases hh⟩
      · have := ih k h.2.2 hw.2 hc z hz
        exact ⟨Or.inr this.1, this.2⟩
  | seq a b iha ihb =>
    intro t h hw hc z hz
    cases t <;> simp only [GoodM] at h
    next sa sb =>
      simp only [View.wf, Bool.and_eq_true] at hw
      simp only [View.coreS, Bool.and_eq_true] at hc
      simp only [RState.held, List.mem_append] at hz
      simp only [effsOf, List.mem_append]
      rcases hz with hz | hz
      · have := iha sa h.1 hw.1 hc.1 z hz; exact ⟨Or.inl this.1, this.2⟩
      · have := ihb sb h.2 hw.2 hc.2 z hz; exact ⟨Or.inr this.1, this.2⟩
  | dynText x =>
    intro t h _ _ z hz
    cases t <;> simp only [GoodM] at h
    next e' x' n last =>
      simp only [RState.held, List.mem_singleton] at hz
      subst hz
      exact ⟨by simp [effsOf], fun h' hh => by cases hh⟩
  | either c a b _ _ =>
    intro t h hw hc z hz
    cases t <;> simp only [GoodM] at h
    next e' c' a' b' left inner =>
      simp only [View.wf, Bool.and_eq_true] at hw
      simp only [View.coreS, Bool.and_eq_true] at hc
      simp only [RState.held, List.mem_singleton] at hz
      subst hz
      refine ⟨by simp [effsOf], fun h' hh => ?_⟩
      simp only [Option.some.injEq] at hh
      subst hh
      cases hl : left with
      | true =>
        have hg := h.2.2.2.2.1 hl
        have hv := GoodM.viewOf a inner hg
        exact ⟨by rw [hv]; exact hg, by rw [hv]; exact hw.1.2, by rw [hv]; exact hc.1⟩
      | false =>
        have hg := h.2.2.2.2.2 hl
        have hv := GoodM.viewOf b inner hg
        exact ⟨by rw [hv]; exact hg, by rw [hv]; exact hw.2, by rw [hv]; exact hc.2⟩
  | «show» c a b _ _ =>
    intro t h hw hc z hz
    cases t <;> simp only [GoodM] at h
    next e' m c' a' b' left inner =>
      simp only [View.wf, Bool.and_eq_true] at hw
      simp only [View.coreS, Bool.and_eq_true] at hc
      simp only [RState.held, List.mem_singleton] at hz
      subst hz
      refine ⟨by simp [effsOf], fun h' hh => ?_⟩
      simp only [Option.some.injEq] at hh
      subst hh
      cases hl : left with
      | true =>
        have hg := h.2.2.2.2.2.2.1 hl
        have hv := GoodM.viewOf a inner hg
        exact ⟨by rw [hv]; exact hg, by rw [hv]; exact hw.1.2, by rw [hv]; exact hc.1⟩
      | false =>
        have hg := h.2.2.2.2.2.2.2 hl
        have hv := GoodM.viewOf b inner hg
        exact ⟨by rw [hv]; exact hg, by rw [hv]; exact hw.2, by rw [hv]; exact hc.2⟩
  | forKeyed sel lists =>
    intro t h _ _ z hz
    cases t <;> simp only [GoodM] at h
    next e' sel' lists' ks texts =>
      simp only [RState.held, List.mem_singleton] at hz
      subst hz
      exact ⟨by simp [effsOf], fun h' hh => by cases hh⟩
  | scope sid d kid _ => intro t h _ _ _ _; cases t <;> simp only [GoodM] at h
  | forRows en sel lists row _ => intro t h _ _ _ _; cases t <;> simp only [GoodM] at h
  | eb kid _ => intro t _ _ hc; simp [View.coreS] at hc
  | res c x => intro t _ _ hc; simp [View.coreS] at hc

/-- every effect of a tree carries its predicate -/
theorem GoodAttrP.effP {P : EP} : ∀ {a : Attr} {s : AState}, GoodAttrP P a s → ∀ e ∈ s.effs, ∃ x cur, P e x cur := by
  intro a s h e he
  cases a <;> cases s <;> simp only [GoodAttrP] at h <;>
    simp only [AState.effs, List.mem_singleton, List.not_mem_nil] at he
  all_goals (subst he; exact ⟨_, _, h.2.2⟩)

theorem GoodAttrsP.effP {P : EP} : ∀ {as : List Attr} {ss : List AState}, GoodAttrsP P as ss →
    ∀ e ∈ ss.flatMap AState.effs, ∃ x cur, P e x cur
  | [], [], _, e, he => by simp at he
  | _ :: _, s :: ss, h, e, he => by
    simp only [List.flatMap_cons, List.mem_append] at he
    rcases he with he | he
    · exact h.1.effP e he
    · exact GoodAttrsP.effP h.2 e he
  | [], _ :: _, h, _, _ => h.elim
  | _ :: _, [], h, _, _ => h.elim

theorem GoodM.effP {P : EP} {Q : Nat → Expr → Prop} : ∀ (v : View) (t : RState), GoodM P Q v t →
    ∀ e ∈ effsOf t, ∃ x cur, P e x cur := by
  intro v
  induction v with
  | text s => intro t h e he; cases t <;> simp only [GoodM] at h; simp [effsOf] at he
  | unit => intro t h e he; cases t <;> simp only [GoodM] at h; simp [effsOf] at he
  | elem tag attrs kid ih =>
    intro t h e he
    cases t <;> simp only [GoodM] at h
    next n tag' as k =>
      simp only [effsOf, List.mem_append] at he
      rcases he with he | he
      · exact h.2.1.effP e he
      · exact ih k h.2.2 e he
  | seq a b iha ihb =>
    intro t h e he
    cases t <;> simp only [GoodM] at h
    next sa sb =>
      simp only [effsOf, List.mem_append] at he
      rcases he with he | he
      · exact iha sa h.1 e he
      · exact ihb sb h.2 e he
  | dynText x =>
    intro t h e he
    cases t <;> simp only [GoodM] at h
    next e' x' n last =>
      simp only [effsOf, List.mem_singleton] at he; subst he; exact ⟨_, _, h.2⟩
  | either c a b iha ihb =>
    intro t h e he
    cases t <;> simp only [GoodM] at h
    next e' c' a' b' left inner =>
      simp only [effsOf, List.mem_cons] at he
      rcases he with he | he
      · subst he; exact ⟨_, _, h.2.2.2.1⟩
      · cases hl : left with
        | true => exact iha inner (h.2.2.2.2.1 hl) e he
        | false => exact ihb inner (h.2.2.2.2.2 hl) e he
  | «show» c a b iha ihb =>
    intro t h e he
    cases t <;> simp only [GoodM] at h
    next e' m c' a' b' left inner =>
      simp only [effsOf, List.mem_cons] at he
      rcases he with he | he
      · subst he; exact ⟨_, _, h.2.2.2.1⟩
      · cases hl : left with
        | true => exact iha inner (h.2.2.2.2.2.2.1 hl) e he
        | false => exact ihb inner (h.2.2.2.2.2.2.2 hl) e he
  | forKeyed sel lists =>
    intro t h e he
    cases t <;> simp only [GoodM] at h
    next e' sel' lists' ks texts =>
      simp only [effsOf, List.mem_singleton] at he; subst he; exact ⟨_, _, h.2.2.1⟩
  | scope sid d kid _ => intro t h _ _; cases t <;> simp only [GoodM] at h
  | forRows en sel lists row _ => intro t h _ _; cases t <;> simp only [GoodM] at h
  | eb kid ih =>
    intro t h e he
    cases t <;> simp only [GoodM] at h
    next e' m s fb k =>
      simp only [effsOf, List.mem_cons] at he
      rcases he with he | he
      · subst he; exact ⟨_, _, h.2.1⟩
      · exact ih k h.2.2 e he
  | res c x =>
    intro t h e he
    cases t <;> simp only [GoodM] at h
    next e' c' x' n last hook =>
      simp only [effsOf, List.mem_singleton] at he; subst he; exact ⟨_, _, h.2.2⟩

theorem GoodAttrsP.wf_extM {K : Nat} {A : Nat → Prop} {st st' : St} {as : List Attr} {ss : List AState}
    (h : GoodAttrsP (EffWf K st) as ss) (hx : ExtM K A st st') : GoodAttrsP (EffWf K st') as ss :=
  h.map (fun _ _ _ _ hp => hp.extM hx)

theorem GoodM.wf_extM {K : Nat} {A : Nat → Prop} {st st' : St} {v : View} {t : RState}
    (h : GoodM (EffWf K st) (ShowMemo K st) v t) (hx : ExtM K A st st') :
    GoodM (EffWf K st') (ShowMemo K st') v t :=
  GoodM.map v t h (fun _ _ _ _ hp => hp.extM hx) (fun _ _ hq => hq.ext hx)

/-- the kind of an effect of the program -/
theorem RM.kind_eff {K : Nat} {st : St} (h : RM K st) {e : Nat} {x : Expr} (hp : st.prog[e]? = some (.eff x)) :
    (st.rs.get e).kind = .eff := by
  rw [h.top.quiet.inv.kind e _ hp]; rfl

end Leptos.RView
