import LeptosModel.Model.Owner
/-!
# Proofs/OwnerArena — the slot-map model: versioned keys (C08)

`Issued a k` : the key was handed out by `insert` at some point (its slot exists and has reached
the key's version).  `KeyDead a k` : the slot has moved past the key (vacated or re-used).
Dead keys never resolve again, whatever is inserted or removed afterwards.
-/
namespace Leptos.Owner

theorem lt_of_getElem?_some {α} {l : List α} {i : Nat} {x : α} (h : l[i]? = some x) : i < l.length := by
  rcases Nat.lt_or_ge i l.length with h' | h'
  · exact h'
  · rw [List.getElem?_eq_none h'] at h; cases h

theorem getElem?_append_some {α} {l l' : List α} {i : Nat} {x : α} (h : l[i]? = some x) :
    (l ++ l')[i]? = some x := by
  rw [List.getElem?_append_left (lt_of_getElem?_some h)]; exact h

theorem getElem?_set_other {α} {l : List α} {i j : Nat} {x y : α} (h : l[i]? = some x) (hne : j ≠ i) :
    (l.set j y)[i]? = some x := by
  rw [List.getElem?_set_ne hne]; exact h

def Issued (a : Arena) (k : Key) : Prop :=
  ∃ s, a.slots[k.idx]? = some s ∧ k.gen ≤ s.gen

def KeyDead (a : Arena) (k : Key) : Prop :=
  ∃ s, a.slots[k.idx]? = some s ∧ (k.gen < s.gen ∨ (k.gen = s.gen ∧ s.val = none))

/-- free-list discipline of the slot map: listed slots exist, are vacant, and are listed once -/
structure Arena.WF (a : Arena) : Prop where
  vacant : ∀ i ∈ a.free, ∃ s, a.slots[i]? = some s ∧ s.val = none
  nodup : a.free.Nodup

theorem Arena.WF_empty : Arena.empty.WF := ⟨by simp [Arena.empty], by simp [Arena.empty]⟩

theorem KeyDead.get_none {a : Arena} {k : Key} (h : KeyDead a k) : a.get k = none := by
  obtain ⟨s, hs, h⟩ := h
  simp only [Arena.get, hs]
  rcases h with h | ⟨h1, h2⟩
  · have : ¬ s.gen = k.gen := by omega
    simp [this]
  · simp [h1, h2]

theorem KeyDead.issued {a : Arena} {k : Key} (h : KeyDead a k) : Issued a k := by
  obtain ⟨s, hs, h⟩ := h
  exact ⟨s, hs, by omega⟩

theorem dead_of_issued_get_none {a : Arena} {k : Key} (hi : Issued a k) (hg : a.get k = none) :
    KeyDead a k := by
  obtain ⟨s, hs, hle⟩ := hi
  refine ⟨s, hs, ?_⟩
  simp only [Arena.get, hs] at hg
  by_cases h : s.gen = k.gen
  · simp [h] at hg
    exact Or.inr ⟨h.symm, hg⟩
  · exact Or.inl (by omega)

theorem issued_of_get {a : Arena} {k : Key} {v : Val} (h : a.get k = some v) : Issued a k := by
  unfold Arena.get at h
  split at h
  · next s hs =>
    split at h
    · next hg => exact ⟨s, hs, by omega⟩
    · simp at h
  · simp at h

/-! ### insert -/

theorem insert_slots_length_le (a : Arena) (v : Val) : a.slots.length ≤ (a.insert v).1.slots.length := by
  unfold Arena.insert
  split
  · split <;> simp
  · simp

/-- slots only move forward under `insert` -/
theorem insert_slot_mono (a : Arena) (v : Val) (i : Nat) (s : Slot) (hs : a.slots[i]? = some s) :
    ∃ s', (a.insert v).1.slots[i]? = some s' ∧
      (s' = s ∨ (s.gen < s'.gen)) := by
  have hi : i < a.slots.length := by
    rcases Nat.lt_or_ge i a.slots.length with h | h
    · exact h
    · simp [List.getElem?_eq_none h] at hs
  unfold Arena.insert
  split
  · next j rest hf =>
    split
    · next sj hj =>
      by_cases hij : j = i
      · subst hij
        rw [hs] at hj; cases hj
        exact ⟨⟨s.gen + 1, some v⟩, by simp [hi], Or.inr (by simp)⟩
      · exact ⟨s, getElem?_set_other hs hij, Or.inl rfl⟩
    · exact ⟨s, getElem?_append_some hs, Or.inl rfl⟩
  · exact ⟨s, getElem?_append_some hs, Or.inl rfl⟩

theorem KeyDead.insert {a : Arena} {k : Key} (h : KeyDead a k) (v : Val) : KeyDead (a.insert v).1 k := by
  obtain ⟨s, hs, hd⟩ := h
  obtain ⟨s', hs', h'⟩ := insert_slot_mono a v k.idx s hs
  refine ⟨s', hs', ?_⟩
  rcases h' with rfl | h'
  · exact hd
  · exact Or.inl (by omega)

theorem Issued.insert {a : Arena} {k : Key} (h : Issued a k) (v : Val) : Issued (a.insert v).1 k := by
  obtain ⟨s, hs, hd⟩ := h
  obtain ⟨s', hs', h'⟩ := insert_slot_mono a v k.idx s hs
  refine ⟨s', hs', ?_⟩
  rcases h' with rfl | h'
  · exact hd
  · omega

/-- the key returned by `insert` resolves to the inserted value -/
theorem insert_get_self (a : Arena) (v : Val) : (a.insert v).1.get (a.insert v).2 = some v := by
  unfold Arena.insert
  split
  · next j rest hf =>
    split
    · next sj hj =>
      have hj' : j < a.slots.length := by
        rcases Nat.lt_or_ge j a.slots.length with h | h
        · exact h
        · simp [List.getElem?_eq_none h] at hj
      simp [Arena.get, hj']
    · simp [Arena.get]
  · simp [Arena.get]

/-- the key returned by `insert` is new: it did not resolve before, and was not even issued
when the arena is well formed -/
theorem insert_key_fresh (a : Arena) (v : Val) : a.get (a.insert v).2 = none := by
  unfold Arena.insert
  split
  · next j rest hf =>
    split
    · next sj hj => simp [Arena.get, hj]
    · simp [Arena.get]
  · simp [Arena.get]

theorem insert_key_not_issued (a : Arena) (v : Val) : ¬ Issued a (a.insert v).2 := by
  intro ⟨s, hs, hle⟩
  revert hs hle
  unfold Arena.insert
  split
  · next j rest hf =>
    split
    · next sj hj =>
      simp only
      intro hs hle
      rw [hj] at hs; cases hs
      omega
    · simp
  · simp

/-- in a well-formed arena `insert` does not disturb any key that resolves -/
theorem insert_get_other {a : Arena} (hwf : a.WF) (v : Val) (k : Key) (w : Val) (hk : a.get k = some w) :
    (a.insert v).1.get k = some w := by
  unfold Arena.get at hk
  split at hk
  · next s hs =>
    split at hk
    · next hg =>
      have hi : k.idx < a.slots.length := by
        rcases Nat.lt_or_ge k.idx a.slots.length with h | h
        · exact h
        · simp [List.getElem?_eq_none h] at hs
      unfold Arena.insert
      split
      · next j rest hf =>
        split
        · next sj hj =>
          have hne : j ≠ k.idx := by
            intro heq
            obtain ⟨s0, hs0, hv⟩ := hwf.vacant j (by simp [hf])
            subst heq
            rw [hs] at hs0; cases hs0
            rw [hv] at hk; cases hk
          simp only [Arena.get]
          rw [getElem?_set_other hs hne]; simp [hg, hk]
        · simp only [Arena.get]
          rw [getElem?_append_some hs]; simp [hg, hk]
      · simp only [Arena.get]
        rw [getElem?_append_some hs]; simp [hg, hk]
    · simp at hk
  · simp at hk

/-- keys other than the returned one resolve after `insert` only if they did before -/
theorem insert_get_rev (a : Arena) (v : Val) (k : Key) (w : Val)
    (hk : (a.insert v).1.get k = some w) (hne : k ≠ (a.insert v).2) : a.get k = some w := by
  revert hk hne
  unfold Arena.insert
  split
  · next j rest hf =>
    split
    · next sj hj =>
      have hj' : j < a.slots.length := by
        rcases Nat.lt_or_ge j a.slots.length with h | h
        · exact h
        · simp [List.getElem?_eq_none h] at hj
      intro hk hne
      simp only [Arena.get] at hk ⊢
      by_cases hij : j = k.idx
      · subst hij
        simp [hj'] at hk
        exfalso; apply hne
        cases k; simp_all
      · simpa [List.getElem?_set, hij] using hk
    · intro hk hne
      simp only [Arena.get] at hk ⊢
      by_cases hi : k.idx < a.slots.length
      · simpa [List.getElem?_append, hi] using hk
      · have hi' : a.slots.length ≤ k.idx := by omega
        rcases Nat.lt_or_ge a.slots.length k.idx with h | h
        · simp [List.getElem?_append, hi, List.getElem?_eq_none, show 1 ≤ k.idx - a.slots.length by omega] at hk
        · have : k.idx = a.slots.length := by omega
          simp [List.getElem?_append, this] at hk
          exfalso; apply hne
          cases k; simp_all
  · intro hk hne
    simp only [Arena.get] at hk ⊢
    by_cases hi : k.idx < a.slots.length
    · simpa [List.getElem?_append, hi] using hk
    · rcases Nat.lt_or_ge a.slots.length k.idx with h | h
      · simp [List.getElem?_append, hi, List.getElem?_eq_none, show 1 ≤ k.idx - a.slots.length by omega] at hk
      · have : k.idx = a.slots.length := by omega
        simp [List.getElem?_append, this] at hk
        exfalso; apply hne
        cases k; simp_all

theorem Arena.WF.insert {a : Arena} (hwf : a.WF) (v : Val) : (a.insert v).1.WF := by
  unfold Arena.insert
  split
  · next j rest hf =>
    have hnd := hwf.nodup
    rw [hf] at hnd
    have hjn : j ∉ rest := (List.nodup_cons.mp hnd).1
    have hrn : rest.Nodup := (List.nodup_cons.mp hnd).2
    split
    · next sj hj =>
      refine ⟨?_, hrn⟩
      intro i hi
      obtain ⟨s, hs, hv⟩ := hwf.vacant i (by simp [hf, hi])
      have : j ≠ i := fun h => hjn (h ▸ hi)
      exact ⟨s, getElem?_set_other hs this, hv⟩
    · refine ⟨?_, hrn⟩
      intro i hi
      obtain ⟨s, hs, hv⟩ := hwf.vacant i (by simp [hf, hi])
      exact ⟨s, getElem?_append_some hs, hv⟩
  · next hf => exact ⟨by simp, by simp⟩

/-! ### remove -/

theorem remove_slot_mono (a : Arena) (k : Key) (i : Nat) (s : Slot) (hs : a.slots[i]? = some s) :
    ∃ s', (a.remove k).1.slots[i]? = some s' ∧ s'.gen = s.gen ∧ (s'.val = s.val ∨ s'.val = none) := by
  have hi : i < a.slots.length := by
    rcases Nat.lt_or_ge i a.slots.length with h | h
    · exact h
    · simp [List.getElem?_eq_none h] at hs
  unfold Arena.remove
  split
  · next sk hk =>
    split
    · split
      · next v hv =>
        by_cases hki : k.idx = i
        · subst hki
          rw [hs] at hk; cases hk
          exact ⟨⟨s.gen, none⟩, by simp [hi], rfl, Or.inr rfl⟩
        · exact ⟨s, getElem?_set_other hs hki, rfl, Or.inl rfl⟩
      · exact ⟨s, hs, rfl, Or.inl rfl⟩
    · exact ⟨s, hs, rfl, Or.inl rfl⟩
  · exact ⟨s, hs, rfl, Or.inl rfl⟩

theorem KeyDead.remove {a : Arena} {k : Key} (h : KeyDead a k) (k' : Key) : KeyDead (a.remove k').1 k := by
  obtain ⟨s, hs, hd⟩ := h
  obtain ⟨s', hs', hg, hv⟩ := remove_slot_mono a k' k.idx s hs
  refine ⟨s', hs', ?_⟩
  rcases hd with hd | ⟨hd1, hd2⟩
  · exact Or.inl (by omega)
  · refine Or.inr ⟨by omega, ?_⟩
    rcases hv with hv | hv
    · rw [hv, hd2]
    · exact hv

theorem Issued.remove {a : Arena} {k : Key} (h : Issued a k) (k' : Key) : Issued (a.remove k').1 k := by
  obtain ⟨s, hs, hd⟩ := h
  obtain ⟨s', hs', hg, _⟩ := remove_slot_mono a k' k.idx s hs
  exact ⟨s', hs', by omega⟩

/-- after `remove k` the key `k` no longer resolves -/
theorem remove_get_self (a : Arena) (k : Key) : (a.remove k).1.get k = none := by
  unfold Arena.remove
  split
  · next s hs =>
    have hi : k.idx < a.slots.length := by
      rcases Nat.lt_or_ge k.idx a.slots.length with h | h
      · exact h
      · simp [List.getElem?_eq_none h] at hs
    split
    · next hg =>
      split
      · simp [Arena.get, hi]
      · next hv => simp [Arena.get, hs, hg, hv]
    · next hg => simp [Arena.get, hs, hg]
  · next hs => simp [Arena.get, hs]

/-- `remove` returns exactly what the key resolved to -/
theorem remove_result (a : Arena) (k : Key) : (a.remove k).2 = a.get k := by
  unfold Arena.remove Arena.get
  split
  · split
    · split <;> simp_all
    · simp
  · simp

/-- `remove k` does not touch any other key -/
theorem remove_get_other (a : Arena) (k k' : Key) (hne : k' ≠ k) : (a.remove k).1.get k' = a.get k' := by
  unfold Arena.remove
  split
  · next s hs =>
    split
    · next hg =>
      split
      · next v hv =>
        simp only [Arena.get]
        by_cases hi : k.idx = k'.idx
        · have hgen : k'.gen ≠ k.gen := by
            intro h; apply hne; cases k; cases k'; simp_all
          have hi' : k'.idx < a.slots.length := by
            rcases Nat.lt_or_ge k.idx a.slots.length with h | h
            · omega
            · simp [List.getElem?_eq_none h] at hs
          rw [← hi]
          rw [List.getElem?_set_self (lt_of_getElem?_some hs), hs]
          have : ¬ s.gen = k'.gen := by omega
          simp [this]
        · rw [List.getElem?_set_ne hi]
      · rfl
    · rfl
  · rfl

theorem Arena.WF.remove {a : Arena} (hwf : a.WF) (k : Key) : (a.remove k).1.WF := by
  unfold Arena.remove
  split
  · next s hs =>
    split
    · next hg =>
      split
      · next v hv =>
        have hi : k.idx < a.slots.length := by
          rcases Nat.lt_or_ge k.idx a.slots.length with h | h
          · exact h
          · simp [List.getElem?_eq_none h] at hs
        have hnotfree : k.idx ∉ a.free := by
          intro hin
          obtain ⟨s0, hs0, hv0⟩ := hwf.vacant _ hin
          rw [hs] at hs0; cases hs0
          rw [hv] at hv0; cases hv0
        refine ⟨?_, List.nodup_cons.mpr ⟨hnotfree, hwf.nodup⟩⟩
        intro i hi'
        rcases List.mem_cons.mp hi' with rfl | hi'
        · exact ⟨⟨s.gen, none⟩, by simp [hi], rfl⟩
        · obtain ⟨s0, hs0, hv0⟩ := hwf.vacant i hi'
          have : k.idx ≠ i := fun h => hnotfree (h ▸ hi')
          exact ⟨s0, getElem?_set_other hs0 this, hv0⟩
      · exact hwf
    · exact hwf
  · exact hwf

/-- a key that was issued and is removed is dead -/
theorem remove_dead {a : Arena} {k : Key} (h : Issued a k) : KeyDead (a.remove k).1 k :=
  dead_of_issued_get_none (h.remove k) (remove_get_self a k)

end Leptos.Owner
