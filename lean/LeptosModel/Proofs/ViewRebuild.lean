import LeptosModel.Proofs.ViewVec
/-! # Proofs/ViewRebuild — the core of C03: `rebuild` turns a mounted representation of `a` into a
mounted representation of `b` in the same place, touching nothing else (structural induction on `b`,
mutually with tuples and the `Vec` zip) -/
namespace Leptos.View
open Leptos.Dom

-- `R`: how the attribute list of an element relates to the fresh render's (`Eq` for the static
-- fragment, lookup-equality `AttrsEq` where removal and re-insertion change the order)
variable {R : List (String × String) → List (String × String) → Prop}


mutual
/-- the core: `gp` = every RETAINED element's attribute rebuild is right (`AttrsRebuild`), `gb` =
every element of the new view builds right (`AttrsFresh`) -/
theorem rebuild_core :
    ∀ (b a : View) (ty : Ty) (st : State) (er : Bool) (d : Dom) (p : Id) (pre post : List Id),
    ty.wf = true → hasTy a ty = true → hasTy b ty = true →
    PairEl (AttrsRebuild R) a b → AllEl (AttrsFresh R) b →
    Rep R d a st (some p) → Inv d st.roots (owned st) p pre post →
    Rep R (rebuild er b st d).1 b (rebuild er b st d).2 (some p) ∧
    Res d (rebuild er b st d).1 (owned st) (rebuild er b st d).2.roots
      (owned (rebuild er b st d).2) p pre post
  | .text s, a, ty, st, er, d, p, pre, post, hw, ha, hb, ga, gb, hrep, hinv => by
    cases ty <;> simp [hasTy] at hb
    cases a <;> simp [hasTy] at ha
    cases st <;> simp only [Rep] at hrep
    rename_i s' id prev
    obtain ⟨rfl, r, hg, hk, hd, hp⟩ := hrep
    rw [rebuild_text]
    by_cases hs : s = prev
    · subst hs
      simp only [bne_self_eq_false, Bool.false_eq_true, if_false]
      exact ⟨by simp only [Rep]; exact ⟨trivial, r, hg, hk, hd, hp⟩, Res.refl hinv⟩
    · have hne : (s != prev) = true := by simpa using hs
      simp only [hne, if_true]
      have hget := Dom.get?_setText d id s r hg (Or.inl hk)
      refine ⟨?_, Res.single id hinv (by simp [owned]) (by simp)
        (fun y hy => by rw [hget y]; simp [hy])⟩
      simp only [Rep]
      exact ⟨trivial, { r with data := s, muts := r.muts + 1 }, by rw [hget id]; simp, hk, rfl, hp⟩
  | .unit, a, ty, st, er, d, p, pre, post, hw, ha, hb, ga, gb, hrep, hinv => by
    cases ty <;> simp [hasTy] at hb
    cases a <;> simp [hasTy] at ha
    cases st <;> simp only [Rep] at hrep
    rw [rebuild_unit]
    exact ⟨by simpa only [Rep] using hrep, Res.refl hinv⟩
  | .elem tag bs c, a, ty, st, er, d, p, pre, post, hw, ha, hb, ga, gb, hrep, hinv => by
    cases ty <;> simp [hasTy] at hb
    rename_i tag' ats ct
    cases a <;> simp [hasTy] at ha
    rename_i taga as ca
    obtain ⟨⟨hta, hats⟩, hca⟩ := ha
    obtain ⟨⟨htb, hbts⟩, hcb⟩ := hb
    cases st <;> simp only [Rep] at hrep
    rename_i el ass cs
    obtain ⟨r, hg, hk, hpar, hattrs, hass, hkids⟩ := hrep
    subst hass
    simp only [AllEl] at ga gb
    simp [Ty.wf] at hw
    obtain ⟨⟨r1, hg1, ha1, hk1, hp1, hkid1, hd1⟩, hoth1, hnx1, hst1⟩ :=
      ga.1 er d el r hg (by rw [hk]; rfl) hattrs
    have htag : taga = tag := by rw [hta, htb]
    subst htag
    by_cases hv : isVoid taga
    · simp only [hv, if_true] at hkids
      obtain ⟨hcs, hk0⟩ := hkids
      subst hcs
      rw [rebuild_elem_none]
      refine ⟨?_, Res.single el hinv (by simp [owned]) hnx1 hoth1⟩
      simp only [Rep, hv, if_true]
      exact ⟨r1, hg1, by rw [hk1, hk], by rw [hp1, hpar], ha1, hst1, trivial, by rw [hkid1, hk0]⟩
    · simp only [hv] at hkids
      obtain ⟨c', hcs, hkc, hrc⟩ := hkids
      subst hcs
      rw [rebuild_elem_some]
      have hnd := hinv.nodup
      simp only [owned, ownedOpt, List.nodup_cons] at hnd
      have hrc1 : Rep R (rebuildAttrs er el bs (List.map AttrVal.initState as) d).1 ca c' (some el) :=
        Rep.congr ca c' (some el) (fun x hx => hoth1 x (fun e => hnd.1 (e ▸ hx))) hrc
      have hinvc : Inv (rebuildAttrs er el bs (List.map AttrVal.initState as) d).1 c'.roots (owned c')
          el [] [] := by
        apply Inv.ofState ⟨r1, hg1, by rw [hk1, hk]; rfl, by simp [hkid1, hkc]⟩ hnd.2 hnd.1 (by simp)
        · intro x hx; rw [hnx1]; exact hinv.lt x (by simp [owned, ownedOpt, hx])
        · rw [hnx1]; exact hinv.lt el (by simp [owned])
        · simp
      obtain ⟨hrep2, s2⟩ := rebuild_core c ca ct c' er _ el [] [] hw.1.2 hca hcb ga.2 gb.2
        hrc1 hinvc
      refine ⟨?_, ?_⟩
      · obtain ⟨rp, hgp, hep, hkp⟩ := s2.inv.par
        obtain ⟨r2, hg2, he2⟩ := s2.pframe r1 hg1
        rw [hgp] at hg2; cases hg2
        simp only [Rep, hv]
        refine ⟨rp, hgp, by rw [he2.1, hk1, hk], by rw [he2.2.1, hp1, hpar], by rw [he2.2.2.1]; exact ha1,
          hst1, ?_⟩
        exact ⟨_, rfl, by simpa using hkp, hrep2⟩
      · exact Res.nest (by simpa [State.roots, owned, ownedOpt] using hinv) hnx1 hoth1 s2
  | .tuple bs, a, ty, st, er, d, p, pre, post, hw, ha, hb, ga, gb, hrep, hinv => by
    cases ty <;> simp [hasTy] at hb
    · rename_i ts
      cases a <;> simp [hasTy] at ha
      rename_i as
      cases st <;> simp only [Rep] at hrep
      rename_i sts
      rw [rebuild_tuple]
      simp [Ty.wf] at hw
      simp only [AllEl] at ga gb
      have := rebuildList_core bs as ts sts er d p pre post hw.2 ha hb ga gb hrep
        (by simpa [State.roots, owned] using hinv)
      exact ⟨by simpa only [Rep] using this.1, by simpa [State.roots, owned] using this.2⟩
    · -- `[T; n]`: the members all have type `t`
      rename_i n t
      cases a <;> simp [hasTy] at ha
      rename_i as
      cases st <;> simp only [Rep] at hrep
      rename_i sts
      rw [rebuild_tuple]
      simp [Ty.wf] at hw
      simp only [AllEl] at ga gb
      have hla := hasTyAll_list as t ha.2
      have hlb := hasTyAll_list bs t hb.2
      rw [ha.1] at hla; rw [hb.1] at hlb
      have := rebuildList_core bs as (List.replicate n t) sts er d p pre post
        (wfList_replicate n t hw) hla hlb ga gb hrep (by simpa [State.roots, owned] using hinv)
      exact ⟨by simpa only [Rep] using this.1, by simpa [State.roots, owned] using this.2⟩
  | .onone, a, ty, st, er, d, p, pre, post, hw, ha, hb, ga, gb, hrep, hinv => by
    cases ty <;> simp [hasTy] at hb
    rename_i t
    simp [Ty.wf] at hw
    cases a <;> simp [hasTy] at ha
    · -- a = onone
      cases st <;> simp only [Rep] at hrep
      obtain ⟨rfl, id, rfl, hn⟩ := hrep
      rw [rebuild_onone]
      simp only [if_true]
      exact ⟨by simp only [Rep]; exact ⟨trivial, id, rfl, hn⟩, Res.refl hinv⟩
    · -- a = osome va
      rename_i va
      cases st <;> simp only [Rep] at hrep
      rename_i i old
      obtain ⟨rfl, hro⟩ := hrep
      rw [rebuild_onone]
      simp only [Nat.zero_ne_one, if_false]
      have hne := roots_ne_nil va t old (some p) hw.1 hw.2 ha hro
      obtain ⟨h1, h2⟩ := replace_spec va .unit old d p pre post hro
        (by simpa [State.roots, owned] using hinv) hne (by simp [AllEl])
      refine ⟨?_, by simpa [State.roots, owned] using h2⟩
      rw [build_unit] at h1 ⊢
      simp only [Rep] at h1 ⊢
      exact ⟨trivial, _, rfl, h1⟩
  | .osome vb, a, ty, st, er, d, p, pre, post, hw, ha, hb, ga, gb, hrep, hinv => by
    cases ty <;> simp [hasTy] at hb
    rename_i t
    simp [Ty.wf] at hw
    simp only [AllEl] at gb
    cases a <;> simp [hasTy] at ha
    · -- a = onone: switch
      cases st <;> simp only [Rep] at hrep
      obtain ⟨rfl, id, rfl, hn⟩ := hrep
      rw [rebuild_osome]
      simp only [Nat.succ_ne_zero, if_false]
      obtain ⟨h1, h2⟩ := replace_spec .unit vb (.unit id) d p pre post (by simpa only [Rep] using hn)
        (by simpa [State.roots, owned] using hinv) (by simp [State.roots]) (gb)
      exact ⟨by simp only [Rep]; exact ⟨trivial, h1⟩, by simpa [State.roots, owned] using h2⟩
    · rename_i va
      simp only [PairEl] at ga
      cases st <;> simp only [Rep] at hrep
      rename_i i old
      obtain ⟨rfl, hro⟩ := hrep
      rw [rebuild_osome]
      simp only [if_true]
      obtain ⟨h1, h2⟩ := rebuild_core vb va t old er d p pre post hw.1 ha hb ga gb hro
        (by simpa [State.roots, owned] using hinv)
      exact ⟨by simp only [Rep]; exact ⟨trivial, h1⟩, by simpa [State.roots, owned] using h2⟩
  | .either n i vb, a, ty, st, er, d, p, pre, post, hw, ha, hb, ga, gb, hrep, hinv => by
    cases ty <;> simp [hasTy] at hb
    rename_i ts
    simp [Ty.wf] at hw
    simp only [AllEl] at gb
    cases a <;> simp [hasTy] at ha
    rename_i n' j va
    simp only [PairEl] at ga
    cases st <;> simp only [Rep] at hrep
    rename_i j' old
    obtain ⟨rfl, hro⟩ := hrep
    rw [rebuild_either]
    cases hj : ts[j']? with
    | none => simp [hj] at ha
    | some tj =>
    simp [hj] at ha
    by_cases hij : i = j'
    · subst hij
      simp only [if_true]
      simp [hj] at hb
      obtain ⟨h1, h2⟩ := rebuild_core vb va tj old er d p pre post
        (wfList_get ts i tj hw.1.2 hj) ha.2 hb.2 (ga rfl) gb hro (by simpa [State.roots, owned] using hinv)
      exact ⟨by simp only [Rep]; exact ⟨trivial, h1⟩, by simpa [State.roots, owned] using h2⟩
    · simp only [hij, if_false]
      have hne := roots_ne_nil va tj old (some p) (wfList_get ts j' tj hw.1.2 hj)
        (nodefulAll_get ts j' tj hw.2 hj) ha.2 hro
      obtain ⟨h1, h2⟩ := replace_spec va vb old d p pre post hro
        (by simpa [State.roots, owned] using hinv) hne (gb)
      exact ⟨by simp only [Rep]; exact ⟨trivial, h1⟩, by simpa [State.roots, owned] using h2⟩
  | .any tyb vb, a, ty, st, er, d, p, pre, post, hw, ha, hb, ga, gb, hrep, hinv => by
    cases ty <;> simp [hasTy] at hb
    simp only [AllEl] at gb
    cases a <;> simp [hasTy] at ha
    rename_i tya va
    simp only [PairEl] at ga
    cases st <;> simp only [Rep] at hrep
    rename_i ty' old
    obtain ⟨rfl, hro⟩ := hrep
    rw [rebuild_any]
    by_cases hbe : Ty.beq tyb ty' = true
    · have := Ty.beq_eq tyb ty' hbe
      subst this
      simp only [hbe, if_true]
      obtain ⟨h1, h2⟩ := rebuild_core vb va tyb old true d p pre post hb.1.1 ha.2 hb.2 (ga hbe) gb hro
        (by simpa [State.roots, owned] using hinv)
      exact ⟨by simp only [Rep]; exact ⟨trivial, h1⟩, by simpa [State.roots, owned] using h2⟩
    · simp only [hbe, Bool.false_eq_true, if_false]
      have hne := roots_ne_nil va ty' old (some p) ha.1.1 ha.1.2 ha.2 hro
      obtain ⟨h1, h2⟩ := replace_spec va vb old d p pre post hro
        (by simpa [State.roots, owned] using hinv) hne (gb)
      exact ⟨by simp only [Rep]; exact ⟨trivial, h1⟩, by simpa [State.roots, owned] using h2⟩
  | .vec bs, a, ty, st, er, d, p, pre, post, hw, ha, hb, ga, gb, hrep, hinv => by
    cases ty <;> simp [hasTy] at hb
    rename_i t
    simp [Ty.wf] at hw
    cases a <;> simp [hasTy] at ha
    rename_i as
    simp only [AllEl] at ga gb
    cases st <;> simp only [Rep] at hrep
    rename_i sts mk
    obtain ⟨hrl, hmk⟩ := hrep
    simp only [State.roots, owned] at hinv
    have hz := rebuildZip_core bs as t sts mk er d p pre post hw ha hb ga gb hrl hmk hinv
    rw [rebuild_vec]
    cases sts with
    | nil =>
      simp only [List.isEmpty_nil, if_true]
      obtain ⟨h1, h2, h3⟩ := vec_fill_spec bs mk d p pre post (gb) hmk
        (by simpa [State.rootsList, ownedList] using hinv)
      exact ⟨by simp only [Rep]; exact ⟨h1, h2⟩,
        by simpa [State.roots, owned, State.rootsList, ownedList] using h3⟩
    | cons s ss =>
      simp only [List.isEmpty_cons, Bool.false_eq_true, if_false]
      cases bs with
      | nil =>
        simp only [List.isEmpty_nil, if_true]
        obtain ⟨h1, h2⟩ := vec_clear_spec as (s :: ss) mk d p pre post hrl hmk hinv
        exact ⟨by simp only [Rep, RepList]; exact ⟨trivial, h1⟩,
          by simpa [State.roots, owned, State.rootsList, ownedList] using h2⟩
      | cons b bs =>
        simp only [List.isEmpty_cons, Bool.false_eq_true, if_false]
        obtain ⟨h1, h2, h3⟩ := hz
        exact ⟨by simp only [Rep]; exact ⟨h1, h2⟩, by simpa [State.roots, owned] using h3⟩
theorem rebuildList_core :
    ∀ (bs as : List View) (ts : List Ty) (sts : List State) (er : Bool) (d : Dom) (p : Id)
      (pre post : List Id),
    Ty.wfList ts = true → hasTyList as ts = true → hasTyList bs ts = true →
    PairElList (AttrsRebuild R) as bs → AllElList (AttrsFresh R) bs →
    RepList R d as sts (some p) → Inv d (State.rootsList sts) (ownedList sts) p pre post →
    RepList R (rebuildList er bs sts d).1 bs (rebuildList er bs sts d).2 (some p) ∧
    Res d (rebuildList er bs sts d).1 (ownedList sts) (State.rootsList (rebuildList er bs sts d).2)
      (ownedList (rebuildList er bs sts d).2) p pre post
  | [], as, ts, sts, er, d, p, pre, post, hw, ha, hb, ga, gb, hrep, hinv => by
    cases ts <;> simp [hasTyList] at hb
    cases as <;> simp [hasTyList] at ha
    cases sts <;> simp [RepList] at hrep
    rw [rebuildList_nil]
    exact ⟨by simp [RepList], Res.refl hinv⟩
  | b :: bs, as, ts, sts, er, d, p, pre, post, hw, ha, hb, ga, gb, hrep, hinv => by
    cases ts with
    | nil => simp [hasTyList] at hb
    | cons t ts =>
    cases as with
    | nil => simp [hasTyList] at ha
    | cons a as =>
    cases sts with
    | nil => simp [RepList] at hrep
    | cons s ss =>
    simp [hasTyList] at ha hb
    simp [Ty.wfList] at hw
    simp only [AllElList] at ga gb
    simp only [RepList] at hrep
    simp only [State.rootsList, ownedList] at hinv
    rw [rebuildList_cons]
    obtain ⟨h1, s1⟩ := rebuild_core b a t s er d p pre (State.rootsList ss ++ post)
      hw.1 ha.1 hb.1 ga.1 gb.1 hrep.1
      (hinv.left (roots_sub_owned s) (rootsList_sub_ownedList ss))
    have hinv2 := hinv.right (rootsList_sub_ownedList ss) s1
    have hnd := nodup_app hinv.nodup
    have hrep2 : RepList R (rebuild er b s d).1 as ss (some p) := by
      apply RepList.congr as ss (some p) ?_ hrep.2
      intro x hx
      apply s1.frame x (hinv.lt x (by simp [hx])) (fun hm => hnd.2.2 x hm hx)
      intro e; subst e; exact hinv.pnot (by simp [hx])
    obtain ⟨h2, s2⟩ := rebuildList_core bs as ts ss er (rebuild er b s d).1 p
      (pre ++ (rebuild er b s d).2.roots) post hw.2 ha.2 hb.2 ga.2 gb.2 hrep2 hinv2
    refine ⟨?_, ?_⟩
    · simp only [RepList]
      refine ⟨Rep.congr b _ (some p) ?_ h1, h2⟩
      intro x hx
      apply s2.frame x (s1.inv.lt x hx)
      · intro hm
        rcases s1.own x hx with ho | ho
        · exact hnd.2.2 x ho hm
        · have := hinv.lt x (by simp [hm]); omega_nat
      · intro e; subst e; exact s1.inv.pnot hx
    · simp only [State.rootsList, ownedList]
      exact Res.seq hinv s1 s2
theorem rebuildZip_core :
    ∀ (bs as : List View) (t : Ty) (sts : List State) (mk : Id) (er : Bool) (d : Dom) (p : Id)
      (pre post : List Id),
    t.wf = true → hasTyAll as t = true → hasTyAll bs t = true →
    PairElList (AttrsRebuild R) as bs → AllElList (AttrsFresh R) bs →
    RepList R d as sts (some p) → NodeIs d mk .comment "" (some p) →
    Inv d (State.rootsList sts ++ [mk]) (ownedList sts ++ [mk]) p pre post →
    RepList R (rebuildZip er bs sts mk d).1 bs (rebuildZip er bs sts mk d).2 (some p) ∧
    NodeIs (rebuildZip er bs sts mk d).1 mk .comment "" (some p) ∧
    Res d (rebuildZip er bs sts mk d).1 (ownedList sts ++ [mk])
      (State.rootsList (rebuildZip er bs sts mk d).2 ++ [mk])
      (ownedList (rebuildZip er bs sts mk d).2 ++ [mk]) p pre post
  | [], as, t, sts, mk, er, d, p, pre, post, hw, ha, hb, ga, gb, hrep, hmk, hinv => by
    rw [rebuildZip_nil]
    obtain ⟨h1, h2⟩ := vec_clear_spec as sts mk d p pre post hrep hmk hinv
    exact ⟨by simp [RepList], h1, by simpa [State.rootsList, ownedList] using h2⟩
  | b :: bs, as, t, sts, mk, er, d, p, pre, post, hw, ha, hb, ga, gb, hrep, hmk, hinv => by
    simp [hasTyAll] at hb
    simp only [AllElList] at gb
    have hmko : mk ∈ ownedList sts ++ [mk] := by simp
    have hmkp : mk ≠ p := fun e => hinv.pnot (e ▸ hmko)
    have hmklt := hinv.lt mk hmko
    cases sts with
    | nil =>
      cases as with
      | cons _ _ => simp [RepList] at hrep
      | nil =>
      rw [rebuildZip_add]
      have hinv0 : Inv d ([] ++ [mk]) ([] ++ [mk]) p pre post := by
        simpa [State.rootsList, ownedList] using hinv
      obtain ⟨h1, s1⟩ := vec_add_spec b mk d p pre post (gb.1) hmk hinv0
      have hinv2 := hinv0.right (R1 := []) (O1 := []) (by simp) s1
      have hmk1 := hmk.congr (s1.frame mk hmklt (by simp) hmkp)
      obtain ⟨h2, h3, s2⟩ := rebuildZip_core bs [] t [] mk er _ p
        (pre ++ (build b d).2.roots) post hw rfl hb.2 trivial gb.2 (by simp [RepList]) hmk1
        (by simpa [State.rootsList, ownedList] using hinv2)
      refine ⟨?_, h3, ?_⟩
      · simp only [RepList]
        refine ⟨Rep.congr b _ (some p) ?_ h1, h2⟩
        intro x hx
        apply s2.frame x (s1.inv.lt x hx)
        · simp [ownedList]; intro e; subst e
          rcases s1.own x hx with ho | ho
          · simp at ho
          · omega_nat
        · intro e; subst e; exact s1.inv.pnot hx
      · have := Res.seq hinv0 s1 (by simpa [State.rootsList, ownedList] using s2)
        simpa [State.rootsList, ownedList, List.append_assoc] using this
    | cons s ss =>
      cases as with
      | nil => simp [RepList] at hrep
      | cons a as =>
      simp [hasTyAll] at ha
      simp only [PairElList] at ga
      simp only [RepList] at hrep
      simp only [State.rootsList, ownedList, List.append_assoc] at hinv
      rw [rebuildZip_cons]
      have hsub2 : ∀ x, x ∈ State.rootsList ss ++ [mk] → x ∈ ownedList ss ++ [mk] := by
        intro x hx; simp at hx ⊢
        rcases hx with hx | hx
        · exact Or.inl (rootsList_sub_ownedList ss x hx)
        · exact Or.inr hx
      obtain ⟨h1, s1⟩ := rebuild_core b a t s er d p pre
        ((State.rootsList ss ++ [mk]) ++ post) hw ha.1 hb.1 ga.1 gb.1 hrep.1
        (hinv.left (roots_sub_owned s) hsub2)
      have hinv2 := hinv.right hsub2 s1
      have hnd := nodup_app hinv.nodup
      have hfr1 : ∀ x, x ∈ ownedList ss ++ [mk] → (rebuild er b s d).1.get? x = d.get? x := by
        intro x hx
        apply s1.frame x (hinv.lt x (by simp at hx ⊢; rcases hx with hx | hx <;> simp [hx]))
          (fun hm => hnd.2.2 x hm hx)
        intro e; subst e; exact hinv.pnot (by simp at hx ⊢; rcases hx with hx | hx <;> simp [hx])
      have hrep2 : RepList R (rebuild er b s d).1 as ss (some p) :=
        RepList.congr as ss (some p) (fun x hx => hfr1 x (by simp [hx])) hrep.2
      have hmk1 := hmk.congr (hfr1 mk (by simp))
      obtain ⟨h2, h3, s2⟩ := rebuildZip_core bs as t ss mk er (rebuild er b s d).1 p
        (pre ++ (rebuild er b s d).2.roots) post hw ha.2 hb.2 ga.2 gb.2 hrep2 hmk1 hinv2
      refine ⟨?_, h3, ?_⟩
      · simp only [RepList]
        refine ⟨Rep.congr b _ (some p) ?_ h1, h2⟩
        intro x hx
        apply s2.frame x (s1.inv.lt x hx)
        · intro hm
          rcases s1.own x hx with ho | ho
          · exact hnd.2.2 x ho hm
          · have := hinv.lt x (by simp at hm ⊢; rcases hm with hm | hm <;> simp [hm]); omega_nat
        · intro e; subst e; exact s1.inv.pnot hx
      · have := Res.seq hinv s1 s2
        simpa [State.rootsList, ownedList, List.append_assoc] using this
end


mutual
/-- two values of one type: retained elements have the same attribute types -/
theorem pairEl_of_good {Good : List AttrVal → Prop} {P : List AttrVal → List AttrVal → Prop}
    (h : ∀ as bs, Good as → Good bs → as.map AttrVal.ty = bs.map AttrVal.ty → P as bs) :
    ∀ (a b : View) (ty : Ty), hasTy a ty = true → hasTy b ty = true → AllEl Good a → AllEl Good b →
    PairEl P a b
  | .text _, b, _, _, _, _, _ => by cases b <;> simp [PairEl]
  | .unit, b, _, _, _, _, _ => by cases b <;> simp [PairEl]
  | .onone, b, _, _, _, _, _ => by cases b <;> simp [PairEl]
  | .elem tag as c, b, ty, ha, hb, ga, gb => by
    cases b <;> simp only [PairEl] <;> try trivial
    rename_i tag' bs c'
    cases ty <;> simp [hasTy] at ha hb
    simp only [AllEl] at ga gb
    exact ⟨h as bs ga.1 gb.1 (by rw [ha.1.2, hb.1.2]), pairEl_of_good h c c' _ ha.2 hb.2 ga.2 gb.2⟩
  | .tuple vs, b, ty, ha, hb, ga, gb => by
    cases b <;> simp only [PairEl] <;> try trivial
    rename_i ws
    simp only [AllEl] at ga gb
    cases ty <;> simp [hasTy] at ha hb
    · exact pairElList_of_good h vs ws _ ha hb ga gb
    · exact pairElAll_of_good h vs ws _ ha.2 hb.2 ga gb
  | .osome v, b, ty, ha, hb, ga, gb => by
    cases b <;> simp only [PairEl] <;> try trivial
    rename_i w
    simp only [AllEl] at ga gb
    cases ty <;> simp [hasTy] at ha hb
    exact pairEl_of_good h v w _ ha hb ga gb
  | .either n i v, b, ty, ha, hb, ga, gb => by
    cases b <;> simp only [PairEl] <;> try trivial
    rename_i m j w
    simp only [AllEl] at ga gb
    intro hij; subst hij
    cases ty <;> simp [hasTy] at ha hb
    rename_i ts
    cases hi : ts[i]? with
    | none => simp [hi] at ha
    | some t =>
      simp [hi] at ha hb
      exact pairEl_of_good h v w t ha.2 hb.2 ga gb
  | .vec vs, b, ty, ha, hb, ga, gb => by
    cases b <;> simp only [PairEl] <;> try trivial
    rename_i ws
    simp only [AllEl] at ga gb
    cases ty <;> simp [hasTy] at ha hb
    exact pairElAll_of_good h vs ws _ ha hb ga gb
  | .any t v, b, ty, ha, hb, ga, gb => by
    cases b <;> simp only [PairEl] <;> try trivial
    rename_i t' w
    simp only [AllEl] at ga gb
    intro hbe
    have := Ty.beq_eq t' t hbe
    subst this
    cases ty <;> simp [hasTy] at ha hb
    exact pairEl_of_good h v w t' ha.2 hb.2 ga gb
theorem pairElList_of_good {Good : List AttrVal → Prop} {P : List AttrVal → List AttrVal → Prop}
    (h : ∀ as bs, Good as → Good bs → as.map AttrVal.ty = bs.map AttrVal.ty → P as bs) :
    ∀ (vs ws : List View) (ts : List Ty), hasTyList vs ts = true → hasTyList ws ts = true →
    AllElList Good vs → AllElList Good ws → PairElList P vs ws
  | [], _, _, _, _, _, _ => by simp [PairElList]
  | _ :: _, [], _, _, _, _, _ => by simp [PairElList]
  | v :: vs, w :: ws, ts, ha, hb, ga, gb => by
    cases ts with
    | nil => simp [hasTyList] at ha
    | cons t ts =>
      simp [hasTyList] at ha hb
      simp only [AllElList] at ga gb
      simp only [PairElList]
      exact ⟨pairEl_of_good h v w t ha.1 hb.1 ga.1 gb.1, pairElList_of_good h vs ws ts ha.2 hb.2 ga.2 gb.2⟩
theorem pairElAll_of_good {Good : List AttrVal → Prop} {P : List AttrVal → List AttrVal → Prop}
    (h : ∀ as bs, Good as → Good bs → as.map AttrVal.ty = bs.map AttrVal.ty → P as bs) :
    ∀ (vs ws : List View) (t : Ty), hasTyAll vs t = true → hasTyAll ws t = true →
    AllElList Good vs → AllElList Good ws → PairElList P vs ws
  | [], _, _, _, _, _, _ => by simp [PairElList]
  | _ :: _, [], _, _, _, _, _ => by simp [PairElList]
  | v :: vs, w :: ws, t, ha, hb, ga, gb => by
    simp [hasTyAll] at ha hb
    simp only [AllElList] at ga gb
    simp only [PairElList]
    exact ⟨pairEl_of_good h v w t ha.1 hb.1 ga.1 gb.1, pairElAll_of_good h vs ws t ha.2 hb.2 ga.2 gb.2⟩
end

/-- `rebuild_core` for an attribute fragment given by a predicate on single attribute lists -/
theorem rebuild_spec (Good : List AttrVal → Prop) (hF : ∀ as, Good as → (AttrsFresh R) as)
    (hR : ∀ as bs, Good as → Good bs → as.map AttrVal.ty = bs.map AttrVal.ty → (AttrsRebuild R) as bs)
    (b a : View) (ty : Ty) (st : State) (er : Bool) (d : Dom) (p : Id) (pre post : List Id)
    (hw : ty.wf = true) (ha : hasTy a ty = true) (hb : hasTy b ty = true)
    (ga : AllEl Good a) (gb : AllEl Good b)
    (hrep : Rep R d a st (some p)) (hinv : Inv d st.roots (owned st) p pre post) :
    Rep R (rebuild er b st d).1 b (rebuild er b st d).2 (some p) ∧
    Res d (rebuild er b st d).1 (owned st) (rebuild er b st d).2.roots
      (owned (rebuild er b st d).2) p pre post :=
  rebuild_core b a ty st er d p pre post hw ha hb (pairEl_of_good hR a b ty ha hb ga gb)
    (AllEl.mono hF b gb) hrep hinv

end Leptos.View
