import LeptosModel.Proofs.StreamStr
/-! Proofs/StreamSeg — texts as lists of segments (clean literal text, fallback holes) and stream items
    (segments, `<template>` blocks): what `str::find` / the inline script see in them. -/
namespace Leptos.Stream

/-! ### text hygiene -/

/-- one pushed string: no marker, template or script syntax of its own, and every `<` is closed by a later `>`
    inside the same string (what a view pushes are whole tags and escaped text) -/
def cleanStr (s : Str) : Bool :=
  !contains markPre s && !contains "<template".toList s && !contains tplClose s &&
  !contains "<script".toList s && !contains scriptClose s && tagClosed s

structure Clean (s : Str) : Prop where
  mark : Free markPre s
  tplO : Free "<template".toList s
  tplC : Free tplClose s
  scrO : Free "<script".toList s
  scrC : Free scriptClose s
  closed : tagClosed s = true

theorem clean_of_bool {s : Str} (h : cleanStr s = true) : Clean s := by
  unfold cleanStr at h
  simp only [Bool.and_eq_true, Bool.not_eq_true'] at h
  obtain ⟨⟨⟨⟨⟨h1, h2⟩, h3⟩, h4⟩, h5⟩, h6⟩ := h
  exact ⟨free_of_not_contains h1, free_of_not_contains h2, free_of_not_contains h3, free_of_not_contains h4,
    free_of_not_contains h5, h6⟩

theorem Clean.freeOpening {s : Str} (h : Clean s) (m : Str) : Free (opening m) s := by
  rw [opening_form, List.append_assoc]; exact h.mark.of_prefix
theorem Clean.freeClosing {s : Str} (h : Clean s) (m : Str) : Free (closing m) s := by
  rw [closing_form, List.append_assoc]; exact h.mark.of_prefix
theorem Clean.freeTplOpen {s : Str} (h : Clean s) : Free tplOpen s := by
  have : tplOpen = "<template".toList ++ " id=\"".toList := by decide
  rw [this]; exact h.tplO.of_prefix

/-! ### segments -/

inductive Seg where
  | lit (s : Str)
  | hole (I : List Nat) (fb : Str)
  deriving Repr

def Seg.str : Seg → Str
  | .lit s => s
  | .hole I fb => opening (piecesStr I) ++ fb ++ closing (piecesStr I)

def segsStr : List Seg → Str
  | [] => []
  | g :: gs => g.str ++ segsStr gs

def Seg.ok : Seg → Prop
  | .lit s => Clean s
  | .hole _ fb => Clean fb

def holeIds : List Seg → List (List Nat)
  | [] => []
  | .lit _ :: gs => holeIds gs
  | .hole I _ :: gs => I :: holeIds gs

theorem segsStr_append (a b : List Seg) : segsStr (a ++ b) = segsStr a ++ segsStr b := by
  induction a with
  | nil => rfl
  | cons g gs ih => simp [segsStr, ih]

theorem holeIds_append (a b : List Seg) : holeIds (a ++ b) = holeIds a ++ holeIds b := by
  induction a with
  | nil => rfl
  | cons g gs ih => cases g <;> simp [holeIds, ih]

theorem Seg.closed {g : Seg} (h : g.ok) : tagClosed g.str = true := by
  cases g with
  | lit s => exact h.closed
  | hole I fb =>
    exact tagClosed_append (tagClosed_append (tagClosed_opening _) h.closed) (tagClosed_closing _)

theorem segs_closed {gs : List Seg} (h : ∀ g ∈ gs, g.ok) : tagClosed (segsStr gs) = true := by
  induction gs with
  | nil => rfl
  | cons g gs ih =>
    exact tagClosed_append (Seg.closed (h g (by simp))) (ih (fun g hg => h g (by simp [hg])))

/-- a `<`-headed pattern that does not occur in clean text nor in markers does not occur in a segment text -/
theorem free_segs {P : Str} (hP : LtPat P) (hc : ∀ s, Clean s → Free P s)
    (hm : ∀ m, IdChars m → Free P (opening m) ∧ Free P (closing m)) :
    ∀ {gs : List Seg}, (∀ g ∈ gs, g.ok) → Free P (segsStr gs) := by
  intro gs
  induction gs with
  | nil => intro _ a b he; obtain ⟨r, rfl, _⟩ := hP; simp [segsStr] at he
  | cons g gs ih =>
    intro h
    have hg := h g (by simp)
    refine Free.append hP (Seg.closed hg) ?_ (ih (fun g hg => h g (by simp [hg])))
    cases g with
    | lit s => exact hc s hg
    | hole I fb =>
      have hI := idChars_pieces I
      exact Free.append hP (tagClosed_append (tagClosed_opening _) hg.closed)
        (Free.append hP (tagClosed_opening _) (hm _ hI).1 (hc fb hg)) (hm _ hI).2

theorem free_tplOpen_segs {gs : List Seg} (h : ∀ g ∈ gs, g.ok) : Free tplOpen (segsStr gs) :=
  free_segs ltPat_tplOpen (fun _ hc => hc.freeTplOpen)
    (fun m hm => ⟨free_other_marker (P := tplOpen) (d := 't') rfl (by decide) _ (Or.inl ⟨m, hm, rfl⟩),
                  free_other_marker (P := tplOpen) (d := 't') rfl (by decide) _ (Or.inr ⟨m, hm, rfl⟩)⟩) h

theorem free_tplClose_segs {gs : List Seg} (h : ∀ g ∈ gs, g.ok) : Free tplClose (segsStr gs) :=
  free_segs ltPat_tplClose (fun _ hc => hc.tplC)
    (fun m hm => ⟨free_other_marker (P := tplClose) (d := '/') rfl (by decide) _ (Or.inl ⟨m, hm, rfl⟩),
                  free_other_marker (P := tplClose) (d := '/') rfl (by decide) _ (Or.inr ⟨m, hm, rfl⟩)⟩) h

/-- the opening / closing marker of an id that is not among the holes does not occur -/
theorem free_opening_segs {I : List Nat} : ∀ {gs : List Seg}, (∀ g ∈ gs, g.ok) → I ∉ holeIds gs →
    Free (opening (piecesStr I)) (segsStr gs) ∧ Free (closing (piecesStr I)) (segsStr gs) := by
  have hI := idChars_pieces I
  intro gs
  induction gs with
  | nil =>
    intro _ _
    exact ⟨by intro a b he; rw [opening_eq] at he; simp [segsStr] at he,
           by intro a b he; rw [closing_eq] at he; simp [segsStr] at he⟩
  | cons g gs ih =>
    intro h hn
    have hg := h g (by simp)
    cases g with
    | lit s =>
      have := ih (fun g hg => h g (by simp [hg])) (by simpa [holeIds] using hn)
      exact ⟨Free.append (ltPat_opening hI) hg.closed (hg.freeOpening _) this.1,
             Free.append (ltPat_closing hI) hg.closed (hg.freeClosing _) this.2⟩
    | hole J fb =>
      simp only [holeIds, List.mem_cons, not_or] at hn
      have hJ := idChars_pieces J
      have hne : piecesStr I ≠ piecesStr J := fun he => hn.1 (pieces_inj he)
      have := ih (fun g hg => h g (by simp [hg])) hn.2
      have hcl : tagClosed (Seg.hole J fb).str = true := Seg.closed hg
      refine ⟨Free.append (ltPat_opening hI) hcl ?_ this.1, Free.append (ltPat_closing hI) hcl ?_ this.2⟩
      · exact Free.append (ltPat_opening hI) (tagClosed_append (tagClosed_opening _) hg.closed)
          (Free.append (ltPat_opening hI) (tagClosed_opening _) (free_opening_opening hI hJ hne) (hg.freeOpening _))
          (free_opening_closing hI hJ)
      · exact Free.append (ltPat_closing hI) (tagClosed_append (tagClosed_opening _) hg.closed)
          (Free.append (ltPat_closing hI) (tagClosed_opening _) (free_closing_opening hI hJ) (hg.freeClosing _))
          (free_closing_closing hI hJ hne)


/-! ### finding a hole in a segment text -/

theorem hole_str (I : List Nat) (fb : Str) :
    (Seg.hole I fb).str = opening (piecesStr I) ++ fb ++ closing (piecesStr I) := rfl

/-- `find(&opening)` / `find(&closing)` on a text whose first hole with id `I` is at `X ++ [hole I fb] ++ Z` -/
theorem find_hole_segs {I : List Nat} {fb : Str} {X Z : List Seg} (hX : ∀ g ∈ X, g.ok) (hfb : Clean fb)
    (hn : I ∉ holeIds X) (pre post : Str) (hpre : tagClosed pre = true)
    (fpre : Free (opening (piecesStr I)) pre ∧ Free (closing (piecesStr I)) pre) :
    splitFirst (opening (piecesStr I)) (pre ++ segsStr (X ++ Seg.hole I fb :: Z) ++ post)
      = some (pre ++ segsStr X, fb ++ closing (piecesStr I) ++ segsStr Z ++ post) ∧
    splitFirst (closing (piecesStr I)) (pre ++ segsStr (X ++ Seg.hole I fb :: Z) ++ post)
      = some (pre ++ segsStr X ++ opening (piecesStr I) ++ fb, segsStr Z ++ post) := by
  have hI := idChars_pieces I
  have hfree := free_opening_segs hX hn
  have hclX : tagClosed (pre ++ segsStr X) = true := tagClosed_append hpre (segs_closed hX)
  constructor
  · have := splitFirst_after (y := fb ++ closing (piecesStr I) ++ segsStr Z ++ post) (ltPat_opening hI) hclX
      (Free.append (ltPat_opening hI) hpre fpre.1 hfree.1)
    rw [← this]
    simp [segsStr_append, segsStr, hole_str]
  · have hcl2 : tagClosed (pre ++ segsStr X ++ opening (piecesStr I) ++ fb) = true :=
      tagClosed_append (tagClosed_append hclX (tagClosed_opening _)) hfb.closed
    have := splitFirst_after (y := segsStr Z ++ post) (ltPat_closing hI) hcl2
      (Free.append (ltPat_closing hI) (tagClosed_append hclX (tagClosed_opening _))
        (Free.append (ltPat_closing hI) hclX (Free.append (ltPat_closing hI) hpre fpre.2 hfree.2)
          (free_closing_opening hI hI)) (hfb.freeClosing _))
    rw [← this]
    simp [segsStr_append, segsStr, hole_str]

/-- if the id occurs once, the last occurrences are the same ones (what the inline script takes) -/
theorem findLast_hole_segs {I : List Nat} {fb : Str} {X Z : List Seg} (hX : ∀ g ∈ X, g.ok) (hZ : ∀ g ∈ Z, g.ok)
    (hfb : Clean fb) (hnX : I ∉ holeIds X) (hnZ : I ∉ holeIds Z) :
    splitLast (opening (piecesStr I)) (segsStr (X ++ Seg.hole I fb :: Z))
      = some (segsStr X, fb ++ closing (piecesStr I) ++ segsStr Z) ∧
    splitLast (closing (piecesStr I)) (segsStr (X ++ Seg.hole I fb :: Z))
      = some (segsStr X ++ opening (piecesStr I) ++ fb, segsStr Z) := by
  have hI := idChars_pieces I
  have fX := free_opening_segs hX hnX
  have fZ := free_opening_segs hZ hnZ
  have hclX := segs_closed hX
  have e1 : segsStr (X ++ Seg.hole I fb :: Z)
      = segsStr X ++ opening (piecesStr I) ++ (fb ++ closing (piecesStr I) ++ segsStr Z) := by
    simp [segsStr_append, segsStr, hole_str]
  have e2 : segsStr (X ++ Seg.hole I fb :: Z)
      = (segsStr X ++ opening (piecesStr I) ++ fb) ++ closing (piecesStr I) ++ segsStr Z := by
    simp [segsStr_append, segsStr, hole_str]
  constructor
  · rw [e1]
    refine (split_unique rfl (occ_unique (ltPat_opening hI) hclX fX.1 ?_)).2
    exact Free.append (ltPat_opening hI) (tagClosed_append hfb.closed (tagClosed_closing _))
      (Free.append (ltPat_opening hI) hfb.closed (hfb.freeOpening _) (free_opening_closing hI hI)) fZ.1
  · rw [e2]
    refine (split_unique rfl (occ_unique (ltPat_closing hI)
      (tagClosed_append (tagClosed_append hclX (tagClosed_opening _)) hfb.closed) ?_ fZ.2)).2
    exact Free.append (ltPat_closing hI) (tagClosed_append hclX (tagClosed_opening _))
      (Free.append (ltPat_closing hI) hclX fX.2 (free_closing_opening hI hI)) (hfb.freeClosing _)


/-! ### stream items: segments and `<template>` blocks -/

structure Tpl where
  I : List Nat
  content : List Seg
  deriving Repr

def scriptPre : Str := "<script>(function() { let id = \"".toList
def scriptPost : Str := scriptHead ++ scriptReplace ++ "})()".toList
def scriptBody (m : Str) : Str := scriptPre ++ m ++ scriptPost

theorem pushEnd_true (m : Str) : pushEnd true m none = tplClose ++ scriptBody m ++ scriptClose := by
  unfold pushEnd scriptBody scriptPre scriptPost tplClose scriptClose
  have : "})()</script>".toList = "})()".toList ++ "</script>".toList := by decide
  simp only [if_true, List.append_assoc, this]

theorem pushStart_eq (m : Str) : pushStart m = tplOpen ++ m ++ "f\">".toList := by
  unfold pushStart tplOpen; rfl

def Tpl.str (t : Tpl) : Str :=
  pushStart (piecesStr t.I) ++ segsStr t.content ++ pushEnd true (piecesStr t.I) none

inductive Item where
  | seg (g : Seg)
  | tpl (t : Tpl)
  deriving Repr

def Item.str : Item → Str
  | .seg g => g.str
  | .tpl t => t.str

def itemsStr : List Item → Str
  | [] => []
  | i :: is => i.str ++ itemsStr is

def Item.ok : Item → Prop
  | .seg g => g.ok
  | .tpl t => ∀ g ∈ t.content, g.ok

/-- every hole whose marker text occurs in the items (top level and inside template contents) -/
def allIds : List Item → List (List Nat)
  | [] => []
  | .seg (.lit _) :: is => allIds is
  | .seg (.hole I _) :: is => I :: allIds is
  | .tpl t :: is => holeIds t.content ++ allIds is

def tplIds : List Item → List (List Nat)
  | [] => []
  | .seg _ :: is => tplIds is
  | .tpl t :: is => t.I :: tplIds is

theorem itemsStr_append (a b : List Item) : itemsStr (a ++ b) = itemsStr a ++ itemsStr b := by
  induction a with
  | nil => rfl
  | cons g gs ih => simp [itemsStr, ih]

theorem allIds_append (a b : List Item) : allIds (a ++ b) = allIds a ++ allIds b := by
  induction a with
  | nil => rfl
  | cons i is ih =>
    cases i with
    | seg g => cases g <;> simp [allIds, ih]
    | tpl t => simp [allIds, ih]

theorem tplIds_append (a b : List Item) : tplIds (a ++ b) = tplIds a ++ tplIds b := by
  induction a with
  | nil => rfl
  | cons i is ih => cases i <;> simp [tplIds, ih]

def segItems (gs : List Seg) : List Item := gs.map Item.seg

theorem itemsStr_segItems (gs : List Seg) : itemsStr (segItems gs) = segsStr gs := by
  induction gs with
  | nil => rfl
  | cons g gs ih => simp [segItems, itemsStr, segsStr, Item.str] at ih ⊢; rw [← ih]

theorem allIds_segItems (gs : List Seg) : allIds (segItems gs) = holeIds gs := by
  induction gs with
  | nil => rfl
  | cons g gs ih => cases g <;> simp [segItems, allIds, holeIds] at ih ⊢ <;> exact ih

theorem tplIds_segItems (gs : List Seg) : tplIds (segItems gs) = [] := by
  induction gs with
  | nil => rfl
  | cons g gs ih => simpa [segItems, tplIds] using ih

/-! the constant parts of a template block -/

set_option maxRecDepth 100000 in
theorem scriptPost_noLt : '<' ∉ scriptPost := by decide
theorem scriptPre_tail_noLt : '<' ∉ "script>(function() { let id = \"".toList := by decide

theorem tagState_noLt {s : Str} (h : '<' ∉ s) : ∀ o, o = false → tagState o s = false := by
  induction s with
  | nil => intro o ho; exact ho
  | cons c s ih =>
    intro o ho
    simp only [List.mem_cons, not_or] at h
    simp only [tagState]
    apply ih h.2
    subst ho
    have : c ≠ '<' := fun e => h.1 e.symm
    simp [this]

theorem tagClosed_scriptBody {m : Str} (hm : IdChars m) : tagClosed (scriptBody m) = true := by
  unfold tagClosed scriptBody
  rw [tagState_append, tagState_append]
  have h1 : tagState false scriptPre = false := by decide
  rw [h1, tagState_noLt hm.lt false rfl, tagState_noLt scriptPost_noLt false rfl]
  rfl

theorem tagClosed_pushStart (m : Str) : tagClosed (pushStart m) = true := by
  unfold tagClosed
  have : pushStart m = ("<template id=\"".toList ++ m ++ "f\"".toList) ++ ['>'] := by
    unfold pushStart
    have : "f\">".toList = "f\"".toList ++ ['>'] := by decide
    rw [this]; simp only [List.append_assoc]
  rw [this, tagState_snoc_gt]; rfl

/-- a text `<d…` with a single `<` and `d ≠ '!'` contains no marker -/
theorem free_marker_single {s t : Str} {d : Char} (hs : s = '<' :: d :: t) (hd : d ≠ '!') (ht : '<' ∉ d :: t)
    {m : Str} (_hm : IdChars m) : Free (opening m) s ∧ Free (closing m) s := by
  constructor
  · refine free_single hs ht (opening_eq m) ?_
    intro b he
    rw [hs, opening_eq] at he
    simp at he
    exact hd he.1
  · refine free_single hs ht (closing_eq m) ?_
    intro b he
    rw [hs, closing_eq] at he
    simp at he
    exact hd he.1

theorem free_marker_pushStart {m m' : Str} (hm : IdChars m) (hm' : IdChars m') :
    Free (opening m) (pushStart m') ∧ Free (closing m) (pushStart m') := by
  have e : pushStart m' = '<' :: 't' :: ("emplate id=\"".toList ++ m' ++ "f\">".toList) := by
    unfold pushStart
    have : "<template id=\"".toList = '<' :: 't' :: "emplate id=\"".toList := by decide
    rw [this]; simp only [List.cons_append, List.append_assoc]
  refine free_marker_single (d := 't') e (by decide) ?_ hm
  have h1 : '<' ∉ "emplate id=\"".toList := by decide
  have h2 : '<' ∉ "f\">".toList := by decide
  simp only [List.mem_cons, List.mem_append, not_or]
  exact ⟨by decide, ⟨h1, hm'.lt⟩, h2⟩

theorem free_marker_scriptBody {m m' : Str} (hm : IdChars m) (hm' : IdChars m') :
    Free (opening m) (scriptBody m') ∧ Free (closing m) (scriptBody m') := by
  have e : scriptBody m' = '<' :: 's' :: ("cript>(function() { let id = \"".toList ++ m' ++ scriptPost) := by
    unfold scriptBody scriptPre
    have : "<script>(function() { let id = \"".toList = '<' :: 's' :: "cript>(function() { let id = \"".toList := by decide
    rw [this]; simp only [List.cons_append, List.append_assoc]
  refine free_marker_single (d := 's') e (by decide) ?_ hm
  have h1 : '<' ∉ "cript>(function() { let id = \"".toList := by decide
  simp only [List.mem_cons, List.mem_append, not_or]
  exact ⟨by decide, ⟨h1, hm'.lt⟩, scriptPost_noLt⟩

theorem free_marker_const {m : Str} (hm : IdChars m) :
    (Free (opening m) tplClose ∧ Free (closing m) tplClose) ∧ (Free (opening m) scriptClose ∧ Free (closing m) scriptClose) :=
  ⟨free_marker_single (d := '/') (t := "template>".toList) rfl (by decide) (by decide) hm,
   free_marker_single (d := '/') (t := "script>".toList) rfl (by decide) (by decide) hm⟩

theorem tagClosed_pushEnd {m : Str} (hm : IdChars m) : tagClosed (pushEnd true m none) = true := by
  rw [pushEnd_true]
  exact tagClosed_append (tagClosed_append (by decide) (tagClosed_scriptBody hm)) (by decide)

theorem Tpl.closed {t : Tpl} (h : ∀ g ∈ t.content, g.ok) : tagClosed t.str = true :=
  tagClosed_append (tagClosed_append (tagClosed_pushStart _) (segs_closed h)) (tagClosed_pushEnd (idChars_pieces _))

theorem Item.closed {i : Item} (h : i.ok) : tagClosed i.str = true := by
  cases i with
  | seg g => exact Seg.closed h
  | tpl t => exact Tpl.closed h

theorem items_closed {is : List Item} (h : ∀ i ∈ is, i.ok) : tagClosed (itemsStr is) = true := by
  induction is with
  | nil => rfl
  | cons i is ih => exact tagClosed_append (Item.closed (h i (by simp))) (ih (fun j hj => h j (by simp [hj])))

theorem free_marker_items {I : List Nat} : ∀ {is : List Item}, (∀ i ∈ is, i.ok) → I ∉ allIds is →
    Free (opening (piecesStr I)) (itemsStr is) ∧ Free (closing (piecesStr I)) (itemsStr is) := by
  have hI := idChars_pieces I
  intro is
  induction is with
  | nil =>
    intro _ _
    exact ⟨by intro a b he; rw [opening_eq] at he; simp [itemsStr] at he,
           by intro a b he; rw [closing_eq] at he; simp [itemsStr] at he⟩
  | cons i is ih =>
    intro h hn
    have hi := h i (by simp)
    have hcl := Item.closed hi
    have hrest : I ∉ allIds is := by
      cases i with
      | seg g =>
        cases g with
        | lit s => simpa [allIds] using hn
        | hole J fb => simp [allIds] at hn; exact hn.2
      | tpl t => simp [allIds] at hn; exact hn.2
    have := ih (fun j hj => h j (by simp [hj])) hrest
    suffices hh : Free (opening (piecesStr I)) i.str ∧ Free (closing (piecesStr I)) i.str from
      ⟨Free.append (ltPat_opening hI) hcl hh.1 this.1, Free.append (ltPat_closing hI) hcl hh.2 this.2⟩
    cases i with
    | seg g =>
      have hng : I ∉ holeIds [g] := by
        cases g with
        | lit s => simp [holeIds]
        | hole J fb => simp [allIds] at hn; simp [holeIds, hn.1]
      have := free_opening_segs (gs := [g]) (by intro g' hg'; simp at hg'; subst hg'; exact hi) hng
      simpa [segsStr, Item.str] using this
    | tpl t =>
      have hnc : I ∉ holeIds t.content := by simp [allIds] at hn; exact hn.1
      have hT := idChars_pieces t.I
      have hc := free_opening_segs hi hnc
      have hs := free_marker_pushStart hI hT
      have hb := free_marker_scriptBody hI hT
      have hk := free_marker_const hI
      have hclS := tagClosed_pushStart (piecesStr t.I)
      have hclC := segs_closed hi
      have hpe : Free (opening (piecesStr I)) (pushEnd true (piecesStr t.I) none) ∧
          Free (closing (piecesStr I)) (pushEnd true (piecesStr t.I) none) := by
        rw [pushEnd_true]
        have c1 : tagClosed tplClose = true := by decide
        exact ⟨Free.append (ltPat_opening hI) (tagClosed_append c1 (tagClosed_scriptBody hT))
                 (Free.append (ltPat_opening hI) c1 hk.1.1 hb.1) hk.2.1,
               Free.append (ltPat_closing hI) (tagClosed_append c1 (tagClosed_scriptBody hT))
                 (Free.append (ltPat_closing hI) c1 hk.1.2 hb.2) hk.2.2⟩
      exact ⟨Free.append (ltPat_opening hI) (tagClosed_append hclS hclC)
               (Free.append (ltPat_opening hI) hclS hs.1 hc.1) hpe.1,
             Free.append (ltPat_closing hI) (tagClosed_append hclS hclC)
               (Free.append (ltPat_closing hI) hclS hs.2 hc.2) hpe.2⟩

/-- `find` on a buffer `B1 ++ [hole I fb] ++ B2` in which the id does not occur before the hole -/
theorem find_hole_items {I : List Nat} {fb : Str} {B1 B2 : List Item} (h1 : ∀ i ∈ B1, i.ok) (hfb : Clean fb)
    (hn : I ∉ allIds B1) :
    splitFirst (opening (piecesStr I)) (itemsStr (B1 ++ Item.seg (Seg.hole I fb) :: B2))
      = some (itemsStr B1, fb ++ closing (piecesStr I) ++ itemsStr B2) ∧
    splitFirst (closing (piecesStr I)) (itemsStr (B1 ++ Item.seg (Seg.hole I fb) :: B2))
      = some (itemsStr B1 ++ opening (piecesStr I) ++ fb, itemsStr B2) := by
  have := find_hole_segs (I := I) (fb := fb) (X := []) (Z := []) (by simp) hfb (by simp [holeIds])
    (itemsStr B1) (itemsStr B2) (items_closed h1) (free_marker_items h1 hn)
  simpa [itemsStr_append, itemsStr, Item.str, segsStr, hole_str] using this

end Leptos.Stream
