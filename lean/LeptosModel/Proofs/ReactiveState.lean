import LeptosModel.Proofs.ReactiveBasic
/-!
# Proofs/ReactiveState — `State.get` / `State.upd` calculus and the `core` projection
-/
namespace Leptos.Reactive

instance : LawfulBEq St where
  rfl {a} := by cases a <;> rfl
  eq_of_beq {a b} h := by cases a <;> cases b <;> first | rfl | cases h

instance : LawfulBEq Kind where
  rfl {a} := by cases a <;> rfl
  eq_of_beq {a b} h := by cases a <;> cases b <;> first | rfl | cases h

/-! ## get / upd -/

theorem State.get_upd (s : State) (i j : Nat) (f : Node → Node) :
    (s.upd i f).get j = if i = j ∧ j < s.nodes.length then f (s.get j) else s.get j := by
  simp only [State.get, State.upd, List.getElem?_modify]
  by_cases hj : j < s.nodes.length
  · simp only [List.getElem?_eq_getElem hj, Option.map_eq_map, Option.map_some, Option.getD_some, hj,
      and_true]
  · simp [hj]

theorem State.get_upd_ne (s : State) {i j : Nat} (f : Node → Node) (h : i ≠ j) :
    (s.upd i f).get j = s.get j := by
  rw [State.get_upd]; simp [h]

theorem State.get_upd_same (s : State) {i : Nat} (f : Node → Node) (h : i < s.nodes.length) :
    (s.upd i f).get i = f (s.get i) := by
  rw [State.get_upd]; simp [h]

@[simp] theorem State.upd_length (s : State) (i : Nat) (f : Node → Node) :
    (s.upd i f).nodes.length = s.nodes.length := by
  simp [State.upd]

@[simp] theorem State.upd_obs (s : State) (i : Nat) (f : Node → Node) : (s.upd i f).obs = s.obs := rfl
@[simp] theorem State.upd_log (s : State) (i : Nat) (f : Node → Node) : (s.upd i f).log = s.log := rfl
@[simp] theorem State.emit_get (s : State) (e : Ev) (i : Nat) : (s.emit e).get i = s.get i := rfl
@[simp] theorem State.emit_nodes (s : State) (e : Ev) : (s.emit e).nodes = s.nodes := rfl
@[simp] theorem State.emit_obs (s : State) (e : Ev) : (s.emit e).obs = s.obs := rfl
@[simp] theorem State.emit_log (s : State) (e : Ev) : (s.emit e).log = s.log ++ [e] := rfl
@[simp] theorem State.setObs_get (s : State) (o : Option Nat) (i : Nat) :
    ({ s with obs := o } : State).get i = s.get i := rfl

theorem State.get_default (s : State) {i : Nat} (h : s.nodes.length ≤ i) : s.get i = {} := by
  simp [State.get, List.getElem?_eq_none h]

theorem State.upd_eq_self (s : State) (i : Nat) (f : Node → Node) (h : f (s.get i) = s.get i) :
    s.upd i f = s := by
  cases s with
  | mk nodes obs log =>
    simp only [State.upd, State.mk.injEq, and_true]
    apply List.ext_getElem?
    intro j
    rw [List.getElem?_modify]
    by_cases hij : i = j
    · subst hij
      cases hn : nodes[i]? with
      | none => rfl
      | some n =>
        simp only [State.get, hn, Option.getD_some] at h
        simp [h]
    · simp only [hij, if_false]
      cases nodes[j]? <;> rfl

theorem State.ext_get {s s' : State} (hl : s'.nodes.length = s.nodes.length)
    (hg : ∀ i, s'.get i = s.get i) (ho : s'.obs = s.obs) (hlog : s'.log = s.log) : s' = s := by
  cases s with
  | mk nodes obs log =>
    cases s' with
    | mk nodes' obs' log' =>
      simp only at ho hlog hl
      subst ho hlog
      simp only [State.mk.injEq, and_true]
      apply List.ext_getElem hl
      intro i h1 h2
      have := hg i
      simp only [State.get, List.getElem?_eq_getElem h1, List.getElem?_eq_getElem h2,
        Option.getD_some] at this
      exact this

/-- a node of kind memo / eff, or a running node, is in range -/
theorem State.lt_of_kind_ne (s : State) {i : Nat} (h : (s.get i).kind ≠ .sig) : i < s.nodes.length := by
  rcases Nat.lt_or_ge i s.nodes.length with h' | h'
  · exact h'
  · rw [State.get_default s h'] at h; exact absurd rfl h

theorem State.lt_of_running (s : State) {i : Nat} (h : (s.get i).running = true) : i < s.nodes.length := by
  rcases Nat.lt_or_ge i s.nodes.length with h' | h'
  · exact h'
  · rw [State.get_default s h'] at h; cases h

/-! ## rank of a state flag -/

def St.rank : St → Nat
  | .clean => 0 | .check => 1 | .dirty => 2

theorem St.rank_inj {a b : St} (h : a.rank = b.rank) : a = b := by
  cases a <;> cases b <;> simp [St.rank] at h <;> rfl

/-! ## the part of a node that marking never touches -/

def Node.core (n : Node) : Node := { n with st := .clean, dirty := false, chan := false, woken := false }

theorem Node.core_fields {a b : Node} (h : a.core = b.core) :
    a.kind = b.kind ∧ a.val = b.val ∧ a.sources = b.sources ∧ a.subs = b.subs ∧ a.first = b.first ∧
    a.running = b.running ∧ a.seen = b.seen ∧ a.ver = b.ver ∧ a.runs = b.runs := by
  cases a; cases b
  simp only [Node.core, Node.mk.injEq] at h
  simp only
  obtain ⟨h1, h2, _, h4, h5, _, _, _, h9, _, _, _, h13, h14, h15, h16⟩ := h
  exact ⟨h1, h2, h4, h5, h9, h13, h14, h15, h16⟩

theorem Node.core_life {a b : Node} (h : a.core = b.core) :
    a.alive = b.alive ∧ a.paused = b.paused ∧ a.done = b.done := by
  cases a; cases b
  simp only [Node.core, Node.mk.injEq] at h
  simp only
  obtain ⟨_, _, _, _, _, _, _, _, _, h10, h11, h12, _, _, _, _⟩ := h
  exact ⟨h11, h10, h12⟩

end Leptos.Reactive
