import LeptosModel.Proofs.ReactiveTopEff
/-!
# Proofs/ReactiveJust — every run of a memo or effect body is justified (C09)
-/
namespace Leptos.Reactive

/-! ## facts about `setSignal` not recorded in `SetPost` -/

theorem setSignal_core (f : Nat) (s : State) (x : Nat) (v : Int) (i : Nat) (hi : i ≠ x) :
    ((setSignal f s x v).get i).core = (s.get i).core := by
  unfold setSignal sigNotify
  have hr := foldl_markRel (fun s x => markDirty f s x) (fun s x => markDirty_rel f s x)
    ((((s.upd x fun n => { n with val := some v, ver := n.ver + 1 }).emit (.set x)).get x).subs)
    ((s.upd x fun n => { n with val := some v, ver := n.ver + 1 }).emit (.set x))
  rw [hr.core, State.emit_get, State.get_upd_ne _ _ (Ne.symm hi)]

theorem setSignal_dirty (f : Nat) (s : State) (x : Nat) (v : Int) (i : Nat) (hi : i ≠ x)
    (hd : ((setSignal f s x v).get i).dirty = true) :
    (s.get i).dirty = true ∨ i ∈ (s.get x).subs := by
  unfold setSignal sigNotify at hd
  rcases foldl_markDirty_dirty f _ _ i hd with h | h
  · rw [State.emit_get, State.get_upd_ne _ _ (Ne.symm hi)] at h; exact .inl h
  · right
    have := h.1
    rw [State.emit_get, State.get_upd] at this
    split at this
    · exact this
    · exact this

/-! ## the justification invariant for effects -/

structure EffJ (s : State) (i : Nat) : Prop where
  srcSeen : (s.get i).sources = (s.get i).seen.map (·.1)
  dirtyJ : (s.get i).dirty = true → (s.get i).runs ≠ 0 →
    ∃ x ∈ (s.get i).seen, (s.get x.1).ver ≠ x.2.2
  firstJ : (s.get i).first = true → (s.get i).runs = 0

def InvJ (s : State) : Prop :=
  ∀ i, (s.get i).kind = .eff → (s.get i).running = false → EffJ s i

/-- a witness of a new version stays one when versions grow -/
theorem witness_mono {p : Prog} {s s' : State} (h : InvR p s) {i : Nat}
    (hseen : (s'.get i).seen = (s.get i).seen) (hver : ∀ y, (s.get y).ver ≤ (s'.get y).ver)
    (hw : ∃ x ∈ (s.get i).seen, (s.get x.1).ver ≠ x.2.2) :
    ∃ x ∈ (s'.get i).seen, (s'.get x.1).ver ≠ x.2.2 := by
  obtain ⟨x, hx, hne⟩ := hw
  refine ⟨x, by rw [hseen]; exact hx, ?_⟩
  have := h.verLe i x hx
  have := hver x.1
  omega

theorem witness_new {p : Prog} {s s' : State} (h : InvR p s) {i y : Nat}
    (hseen : (s'.get i).seen = (s.get i).seen) (hy : y ∈ (s.get i).seen.map (·.1))
    (hv : (s.get y).ver < (s'.get y).ver) :
    ∃ x ∈ (s'.get i).seen, (s'.get x.1).ver ≠ x.2.2 := by
  obtain ⟨x, hx, hxy⟩ := List.mem_map.1 hy
  refine ⟨x, by rw [hseen]; exact hx, ?_⟩
  have := h.verLe i x hx
  rw [hxy] at this ⊢
  omega

theorem EffJ.of_frame {p : Prog} {s s' : State} {k : Nat} (h : InvR p s) (fr : Frame s s' k) {i : Nat}
    (hk : (s.get i).kind = .eff) (hj : EffJ s i) : EffJ s' i := by
  have cf := Node.core_fields (fr.effCore i hk)
  refine ⟨by rw [cf.2.2.1, cf.2.2.2.2.2.2.1]; exact hj.srcSeen, ?_, by rw [cf.2.2.2.2.1, cf.2.2.2.2.2.2.2.2]; exact hj.firstJ⟩
  intro hd hruns
  rw [cf.2.2.2.2.2.2.2.2] at hruns
  rcases fr.effD i hk hd with h' | ⟨y, hy, hv⟩
  · exact witness_mono h cf.2.2.2.2.2.2.1 fr.verMono (hj.dirtyJ h' hruns)
  · rw [hj.srcSeen] at hy
    exact witness_new h cf.2.2.2.2.2.2.1 hy hv

theorem InvJ.of_frame {p : Prog} {s s' : State} {k : Nat} (h : InvR p s) (fr : Frame s s' k)
    (hj : InvJ s) : InvJ s' := by
  intro i hk hr
  have hk0 : (s.get i).kind = .eff := by rw [← fr.kind]; exact hk
  have cf := Node.core_fields (fr.effCore i hk0)
  exact (hj i hk0 (by rw [← cf.2.2.2.2.2.1]; exact hr)).of_frame h fr hk0

theorem EffJ.of_set {p : Prog} {s : State} (h : InvR p s) {x : Nat} {v0 : Int}
    (hx : p[x]? = some (.sig v0)) (v : Int) {f : Nat}
    (sp : SetPost s (setSignal f s x v) x v) {i : Nat}
    (hk : (s.get i).kind = .eff) (hj : EffJ s i) : EffJ (setSignal f s x v) i := by
  have hix : i ≠ x := by
    intro e; subst e
    rw [h.kind i _ hx] at hk; cases hk
  have cf := Node.core_fields (setSignal_core f s x v i hix)
  have hver : ∀ y, (s.get y).ver ≤ ((setSignal f s x v).get y).ver := by
    intro y; by_cases hy : y = x
    · subst hy; rw [sp.verx]; omega
    · rw [sp.ver y hy]; exact Nat.le_refl _
  refine ⟨by rw [cf.2.2.1, cf.2.2.2.2.2.2.1]; exact hj.srcSeen, ?_, by rw [cf.2.2.2.2.1, cf.2.2.2.2.2.2.2.2]; exact hj.firstJ⟩
  intro hd hruns
  rw [cf.2.2.2.2.2.2.2.2] at hruns
  rcases setSignal_dirty f s x v i hix hd with h' | h'
  · exact witness_mono h cf.2.2.2.2.2.2.1 hver (hj.dirtyJ h' hruns)
  · have hsrc : x ∈ (s.get i).sources := (h.edge x i).1 h'
    rw [hj.srcSeen] at hsrc
    exact witness_new h cf.2.2.2.2.2.2.1 hsrc (by rw [sp.verx]; omega)

/-! ## untracked reads inside an effect body -/

theorem readEffU_cases {p : Prog} {u : State → Nat → State × Bool} {f : Nat} (hu : UpdOK p u f)
    {e : Nat} (hef : e ≤ f) {s : State} (h : InvR p s) (hl : EffLoc s e) {x : Nat} (hx : x < e)
    (hkx : (s.get x).kind ≠ .eff) :
    ∃ s2 v ch, readNode u { s with obs := none } x = (s2, v) ∧
      UpdPost p ({ s with obs := none } : State) x (s2, ch) := by
  have hxe : x ≠ e := Nat.ne_of_lt hx
  have hxnr : (s.get x).running = false := by
    cases hr : (s.get x).running with
    | false => rfl
    | true => exact absurd (hl.only x hr) hxe
  have h' : InvR p ({ s with obs := none } : State) := h.reobs rfl (fun o ho => by cases ho)
  unfold readNode
  have ht : track ({ s with obs := none } : State) x = { s with obs := none } := rfl
  rw [ht]
  simp only
  cases hk : (({ s with obs := none } : State).get x).kind with
  | eff => exact absurd hk hkx
  | sig => exact ⟨_, _, false, rfl, UpdPost.refl h' (fun hk' => by rw [hk] at hk'; cases hk')⟩
  | memo =>
    simp only
    have hp := hu ({ s with obs := none } : State) x h' (by omega) hxnr
      (fun r hr => by rw [hl.only r hr]; exact hx)
    generalize u ({ s with obs := none } : State) x = r at hp
    obtain ⟨s2, ch⟩ := r
    exact ⟨s2, _, ch, rfl, hp⟩

/-- the state after an untracked read, with the observer restored -/
theorem readEffU_spec {p : Prog} {u : State → Nat → State × Bool} {f : Nat} (hu : UpdOK p u f)
    {e : Nat} (hef : e ≤ f) {s : State} (h : InvR p s) (hl : EffLoc s e) {x : Nat} (hx : x < e)
    (hkx : (s.get x).kind ≠ .eff) :
    InvR p ({ (readNode u { s with obs := none } x).1 with obs := s.obs }) ∧
    EffLoc ({ (readNode u { s with obs := none } x).1 with obs := s.obs }) e := by
  obtain ⟨s2, v, ch, hrd, up⟩ := readEffU_cases hu hef h hl hx hkx
  rw [hrd]
  simp only
  have hrunE : ∀ i, (s2.get i).running = (s.get i).running := up.running
  have hkE : ∀ i, (s2.get i).kind = (s.get i).kind := up.frame.kind
  refine ⟨up.inv.reobs rfl (fun o ho => ?_), hl.obs, (hkE e).trans hl.kind, (hrunE e).trans hl.running,
    fun r hr => hl.only r (by rw [← hrunE]; exact hr)⟩
  rw [hl.obs] at ho
  have : o = e := (Option.some.inj ho).symm
  subst this
  exact (hrunE o).trans hl.running

/-- effect bodies read smaller data nodes (tracked or not); they may write signals -/
def EffOKU (p : Prog) : Prop :=
  ∀ (e : Nat) (b : Expr), p[e]? = some (NodeDef.eff b) →
    b.readsBelow e = true ∧ b.readsData p = true

theorem evalEff_specU {p : Prog} {u : State → Nat → State × Bool} {f : Nat} (hu : UpdOK p u f)
    {e : Nat} (hef : e ≤ f) (F : Nat) (hF : p.length ≤ F) :
    ∀ (ex : Expr) (s : State), InvR p s → EffLoc s e → ex.readsBelow e = true →
      ex.readsData p = true →
      InvR p (evalE (readNode u) (setSignal F) e ex s).1 ∧
      EffLoc (evalE (readNode u) (setSignal F) e ex s).1 e
  | .lit n, s, h, hl, _, _ => ⟨h, hl⟩
  | .rd tracked x, s, h, hl, hb, hd => by
    simp only [Expr.readsBelow, decide_eq_true_eq] at hb
    have hkx : (s.get x).kind ≠ .eff := by
      simp only [Expr.readsData] at hd
      cases hpx : p[x]? with
      | none => rw [hpx] at hd; cases hd
      | some d =>
        rw [h.kind x d hpx]
        cases d <;> simp_all [kindOf]
    cases tracked with
    | true =>
      have := readEff_spec hu hef h hl hb hkx (fun v _ => .rdv e x v)
      simp only [evalE, if_true]
      exact this
    | false =>
      have := readEffU_spec hu hef h hl hb hkx
      simp only [evalE, Bool.false_eq_true, if_false]
      exact this
  | .add a b, s, h, hl, hb, hd => by
    simp only [Expr.readsBelow, Expr.readsData, Bool.and_eq_true] at hb hd
    obtain ⟨h1, l1⟩ := evalEff_specU hu hef F hF a s h hl hb.1 hd.1
    simp only [evalE]
    exact evalEff_specU hu hef F hF b _ h1 l1 hb.2 hd.2
  | .mulc k a, s, h, hl, hb, hd => by
    simp only [Expr.readsBelow, Expr.readsData] at hb hd
    simp only [evalE]
    exact evalEff_specU hu hef F hF a s h hl hb hd
  | .ite c t el, s, h, hl, hb, hd => by
    simp only [Expr.readsBelow, Expr.readsData, Bool.and_eq_true] at hb hd
    obtain ⟨h1, l1⟩ := evalEff_specU hu hef F hF c s h hl hb.1.1 hd.1.1
    simp only [evalE]
    split
    · exact evalEff_specU hu hef F hF t _ h1 l1 hb.1.2 hd.1.2
    · exact evalEff_specU hu hef F hF el _ h1 l1 hb.2 hd.2
  | .seq a b, s, h, hl, hb, hd => by
    simp only [Expr.readsBelow, Expr.readsData, Bool.and_eq_true] at hb hd
    obtain ⟨h1, l1⟩ := evalEff_specU hu hef F hF a s h hl hb.1 hd.1
    simp only [evalE]
    exact evalEff_specU hu hef F hF b _ h1 l1 hb.2 hd.2
  | .wr x a, s, h, hl, hb, hd => by
    simp only [Expr.readsBelow, Expr.readsData, Bool.and_eq_true] at hb hd
    obtain ⟨h1, l1⟩ := evalEff_specU hu hef F hF a s h hl hb hd.2
    simp only [evalE]
    generalize evalE (readNode u) (setSignal F) e a s = r at h1 l1
    obtain ⟨s1, v⟩ := r
    simp only at h1 l1 ⊢
    cases hpx : p[x]? with
    | none => rw [hpx] at hd; simp at hd
    | some d =>
      cases d with
      | memo _ => rw [hpx] at hd; simp at hd
      | eff _ => rw [hpx] at hd; simp at hd
      | sig v0 =>
        obtain ⟨h2, sp⟩ := setSignal_inv h1 hpx v (f := F) (by rw [h1.len]; exact hF)
        refine ⟨h2, sp.obs.trans l1.obs, by rw [sp.kind]; exact l1.kind, by rw [sp.running]; exact l1.running, ?_⟩
        intro r hr
        rw [sp.running] at hr
        exact l1.only r hr

/-! ## a generic invariant through the evaluation of an effect body -/

theorem evalEff_gen {p : Prog} {u : State → Nat → State × Bool} {f : Nat} (hu : UpdOK p u f)
    {e : Nat} (hef : e ≤ f) (F : Nat) (hF : p.length ≤ F) (Q : State → Prop)
    (hread : ∀ s x, InvR p s → EffLoc s e → Q s → x < e → (s.get x).kind ≠ .eff →
      Q (((readNode u s x).1.upd e fun n =>
        { n with seen := n.seen ++ [(x, (readNode u s x).2, ((readNode u s x).1.get x).ver)] }).emit
          (.rdv e x (readNode u s x).2)))
    (huread : ∀ s x, InvR p s → EffLoc s e → Q s → x < e → (s.get x).kind ≠ .eff →
      Q ({ (readNode u { s with obs := none } x).1 with obs := s.obs }))
    (hwrite : ∀ s x v0 v, InvR p s → EffLoc s e → Q s → p[x]? = some (.sig v0) →
      Q (setSignal F s x v)) :
    ∀ (ex : Expr) (s : State), InvR p s → EffLoc s e → Q s → ex.readsBelow e = true →
      ex.readsData p = true →
      Q (evalE (readNode u) (setSignal F) e ex s).1
  | .lit n, s, _, _, hq, _, _ => hq
  | .rd tracked x, s, h, hl, hq, hb, hd => by
    simp only [Expr.readsBelow, decide_eq_true_eq] at hb
    have hkx : (s.get x).kind ≠ .eff := by
      simp only [Expr.readsData] at hd
      cases hpx : p[x]? with
      | none => rw [hpx] at hd; cases hd
      | some d =>
        rw [h.kind x d hpx]
        cases d <;> simp_all [kindOf]
    cases tracked with
    | true =>
      simp only [evalE, if_true]
      exact hread s x h hl hq hb hkx
    | false =>
      simp only [evalE, Bool.false_eq_true, if_false]
      exact huread s x h hl hq hb hkx
  | .add a b, s, h, hl, hq, hb, hd => by
    simp only [Expr.readsBelow, Expr.readsData, Bool.and_eq_true] at hb hd
    obtain ⟨h1, l1⟩ := evalEff_specU hu hef F hF a s h hl hb.1 hd.1
    have q1 := evalEff_gen hu hef F hF Q hread huread hwrite a s h hl hq hb.1 hd.1
    simp only [evalE]
    exact evalEff_gen hu hef F hF Q hread huread hwrite b _ h1 l1 q1 hb.2 hd.2
  | .mulc k a, s, h, hl, hq, hb, hd => by
    simp only [Expr.readsBelow, Expr.readsData] at hb hd
    simp only [evalE]
    exact evalEff_gen hu hef F hF Q hread huread hwrite a s h hl hq hb hd
  | .ite c t el, s, h, hl, hq, hb, hd => by
    simp only [Expr.readsBelow, Expr.readsData, Bool.and_eq_true] at hb hd
    obtain ⟨h1, l1⟩ := evalEff_specU hu hef F hF c s h hl hb.1.1 hd.1.1
    have q1 := evalEff_gen hu hef F hF Q hread huread hwrite c s h hl hq hb.1.1 hd.1.1
    simp only [evalE]
    split
    · exact evalEff_gen hu hef F hF Q hread huread hwrite t _ h1 l1 q1 hb.1.2 hd.1.2
    · exact evalEff_gen hu hef F hF Q hread huread hwrite el _ h1 l1 q1 hb.2 hd.2
  | .seq a b, s, h, hl, hq, hb, hd => by
    simp only [Expr.readsBelow, Expr.readsData, Bool.and_eq_true] at hb hd
    obtain ⟨h1, l1⟩ := evalEff_specU hu hef F hF a s h hl hb.1 hd.1
    have q1 := evalEff_gen hu hef F hF Q hread huread hwrite a s h hl hq hb.1 hd.1
    simp only [evalE]
    exact evalEff_gen hu hef F hF Q hread huread hwrite b _ h1 l1 q1 hb.2 hd.2
  | .wr x a, s, h, hl, hq, hb, hd => by
    simp only [Expr.readsBelow, Expr.readsData, Bool.and_eq_true] at hb hd
    obtain ⟨h1, l1⟩ := evalEff_specU hu hef F hF a s h hl hb hd.2
    have q1 := evalEff_gen hu hef F hF Q hread huread hwrite a s h hl hq hb hd.2
    simp only [evalE]
    generalize evalE (readNode u) (setSignal F) e a s = r at h1 l1 q1
    obtain ⟨s1, v⟩ := r
    simp only at h1 l1 q1 ⊢
    cases hpx : p[x]? with
    | none => rw [hpx] at hd; simp at hd
    | some d =>
      cases d with
      | memo _ => rw [hpx] at hd; simp at hd
      | eff _ => rw [hpx] at hd; simp at hd
      | sig v0 => exact hwrite s1 x v0 v h1 l1 q1 hpx

/-! ## the running effect -/

structure RunLocJ (s : State) (e : Nat) : Prop where
  srcSeen : (s.get e).sources = (s.get e).seen.map (·.1)
  dirtyJ : (s.get e).dirty = true → ∃ x ∈ (s.get e).seen, (s.get x.1).ver ≠ x.2.2
  noFirst : (s.get e).first = false

structure QJ (s : State) (e : Nat) : Prop where
  others : InvJ s
  self : RunLocJ s e
  log : LogOK s

/-- the read performed by `readNode` under an effect observer, summarised -/
theorem readEff_cases {p : Prog} {u : State → Nat → State × Bool} {f : Nat} (hu : UpdOK p u f)
    {e : Nat} (hef : e ≤ f) {s : State} (h : InvR p s) (hl : EffLoc s e) {x : Nat} (hx : x < e)
    (hkx : (s.get x).kind ≠ .eff) :
    ∃ s1 s2 v ch, readNode u s x = (s2, v) ∧ TrackPost s s1 e x ∧ InvR p s1 ∧ UpdPost p s1 x (s2, ch) ∧
      (s2.get x).st = .clean ∧ (s2.get x).val = some v := by
  have he : e < s.nodes.length := s.lt_of_running hl.running
  have hxe : x ≠ e := Nat.ne_of_lt hx
  have t := track_post hl.obs he hx
  have h1 := track_inv h t hx (fun hk => by rw [hl.kind] at hk; cases hk) hkx
  have hxnr : (s.get x).running = false := by
    cases hr : (s.get x).running with
    | false => rfl
    | true => exact absurd (hl.only x hr) hxe
  unfold readNode
  generalize track s x = s1 at t h1
  simp only
  cases hk : (s1.get x).kind with
  | eff => rw [t.kind] at hk; exact absurd hk hkx
  | sig =>
    have hxp : x < p.length := by rw [← h.len]; omega
    have hs := h1.sigOk x hxp hk
    obtain ⟨v, hv⟩ := hs.2.2
    exact ⟨s1, s1, _, false, rfl, t, h1, UpdPost.refl h1 (fun hk' => by rw [hk] at hk'; cases hk'),
      hs.1, by rw [hv]; rfl⟩
  | memo =>
    simp only
    have hp := hu s1 x h1 (by omega) (by rw [t.running]; exact hxnr) (by
      intro r hr
      rw [t.running] at hr
      rw [hl.only r hr]; exact hx)
    generalize u s1 x = r at hp
    obtain ⟨s2, ch⟩ := r
    have hxp : x < p.length := by rw [← h.len]; omega
    have hc := hp.clean hk
    obtain ⟨v, hv⟩ := hp.inv.clean_val hxp (by rw [hp.frame.kind, hk]; simp) hc
    exact ⟨s1, s2, _, ch, rfl, t, h1, hp, hc, by
      show (s2.get x).val = some ((s2.get x).val.getD 0)
      rw [hv]; rfl⟩

theorem hreadJ {p : Prog} {u : State → Nat → State × Bool} {f : Nat} (hu : UpdOK p u f)
    {e : Nat} (hef : e ≤ f) (s : State) (x : Nat) (h : InvR p s) (hl : EffLoc s e) (hq : QJ s e)
    (hx : x < e) (hkx : (s.get x).kind ≠ .eff) :
    QJ (((readNode u s x).1.upd e fun n =>
        { n with seen := n.seen ++ [(x, (readNode u s x).2, ((readNode u s x).1.get x).ver)] }).emit
          (.rdv e x (readNode u s x).2)) e := by
  obtain ⟨s1, s2, v, ch, hrd, t, h1, up, _, _⟩ := readEff_cases hu hef h hl hx hkx
  rw [hrd]
  simp only
  have hxe : x ≠ e := Nat.ne_of_lt hx
  have he1 : (s1.get e).kind = .eff := by rw [t.kind]; exact hl.kind
  have he2 : e < s2.nodes.length := by
    rw [up.frame.len, t.len]; exact s.lt_of_running hl.running
  generalize hs3 : ((s2.upd e fun n => { n with seen := n.seen ++ [(x, v, (s2.get x).ver)] }).emit
    (.rdv e x v)) = s3
  have g3e : s3.get e = { s2.get e with seen := (s2.get e).seen ++ [(x, v, (s2.get x).ver)] } := by
    subst hs3; rw [State.emit_get, State.get_upd_same _ _ he2]
  have g3o : ∀ i, i ≠ e → s3.get i = s2.get i := by
    intro i hi; subst hs3; rw [State.emit_get, State.get_upd_ne _ _ (Ne.symm hi)]
  have ver3 : ∀ i, (s3.get i).ver = (s2.get i).ver := by
    intro i; by_cases hi : i = e
    · subst hi; rw [g3e]
    · rw [g3o i hi]
  have cfe := Node.core_fields (up.frame.effCore e he1)
  have verMono : ∀ y, (s.get y).ver ≤ (s3.get y).ver := by
    intro y; rw [ver3, ← t.ver y]; exact up.frame.verMono y
  refine ⟨?_, ?_, ?_⟩
  · -- the other effects
    intro i hk hr
    have hie : i ≠ e := by
      intro hie; subst hie
      rw [g3e] at hr
      have : (s2.get i).running = true := by rw [up.running, t.running]; exact hl.running
      rw [this] at hr; cases hr
    rw [g3o i hie] at hk hr
    have hk1 : (s1.get i).kind = .eff := by rw [← up.frame.kind]; exact hk
    have hk0 : (s.get i).kind = .eff := by rw [← t.kind]; exact hk1
    have hix : i ≠ x := by intro hix; subst hix; exact hkx hk0
    have hr0 : (s.get i).running = false := by rw [← t.running, ← up.running]; exact hr
    have j0 := hq.others i hk0 hr0
    have j1 : EffJ s1 i := by
      have g := t.go i hie hix
      exact ⟨by rw [g]; exact j0.srcSeen, fun hd hruns => by
        rw [g] at hd hruns ⊢
        obtain ⟨z, hz, hne⟩ := j0.dirtyJ hd hruns
        exact ⟨z, hz, by rw [t.ver]; exact hne⟩, by rw [g]; exact j0.firstJ⟩
    have j2 := j1.of_frame h1 up.frame hk1
    have g := g3o i hie
    exact ⟨by rw [g]; exact j2.srcSeen, fun hd hruns => by
      rw [g] at hd hruns ⊢
      obtain ⟨z, hz, hne⟩ := j2.dirtyJ hd hruns
      exact ⟨z, hz, by rw [ver3]; exact hne⟩, by rw [g]; exact j2.firstJ⟩
  · -- the running effect
    have hseen2 : (s2.get e).seen = (s.get e).seen := cfe.2.2.2.2.2.2.1.trans (t.seen e)
    have hsrc2 : (s2.get e).sources = (s.get e).sources ++ [x] := cfe.2.2.1.trans t.sources_m
    refine ⟨?_, ?_, ?_⟩
    · rw [g3e]
      show (s2.get e).sources = ((s2.get e).seen ++ [(x, v, (s2.get x).ver)]).map (·.1)
      rw [hsrc2, hseen2, hq.self.srcSeen]; simp
    · intro hd
      have hd2 : (s2.get e).dirty = true := by rw [g3e] at hd; exact hd
      have hseen3 : ∀ z, z ∈ (s.get e).seen → z ∈ (s3.get e).seen := by
        intro z hz; rw [g3e]
        show z ∈ (s2.get e).seen ++ _
        rw [hseen2]; exact List.mem_append_left _ hz
      rcases up.obsD e (t.obs.trans hl.obs) he1 hd2 with h' | ⟨y, hy, hyx, hv⟩
      · have hd0 : (s.get e).dirty = true := by rw [t.gm] at h'; exact h'
        obtain ⟨z, hz, hne⟩ := hq.self.dirtyJ hd0
        refine ⟨z, hseen3 z hz, ?_⟩
        have := h.verLe e z hz
        have := verMono z.1
        omega
      · rw [t.sources_m, List.mem_append, List.mem_singleton] at hy
        rcases hy with hy | hy
        · rw [hq.self.srcSeen] at hy
          obtain ⟨z, hz, hzy⟩ := List.mem_map.1 hy
          refine ⟨z, hseen3 z hz, ?_⟩
          have := h.verLe e z hz
          rw [hzy] at this ⊢
          rw [ver3]
          have hv' : (s1.get y).ver < (s2.get y).ver := hv
          have := t.ver y
          omega
        · exact absurd hy hyx
    · rw [g3e]
      show (s2.get e).first = false
      rw [cfe.2.2.2.2.1, t.gm]; exact hq.self.noFirst
  · -- the log
    have l1 : LogOK s1 := by intro i; rw [t.log]; exact hq.log i
    have l2 := up.frame.log l1
    subst hs3
    exact LogOK.emit (s := s2.upd e _) l2 (by intro i; simp)

theorem hureadJ {p : Prog} {u : State → Nat → State × Bool} {f : Nat} (hu : UpdOK p u f)
    {e : Nat} (hef : e ≤ f) (s : State) (x : Nat) (h : InvR p s) (hl : EffLoc s e) (hq : QJ s e)
    (hx : x < e) (hkx : (s.get x).kind ≠ .eff) :
    QJ ({ (readNode u { s with obs := none } x).1 with obs := s.obs }) e := by
  obtain ⟨s2, v, ch, hrd, up⟩ := readEffU_cases hu hef h hl hx hkx
  rw [hrd]
  simp only
  have h' : InvR p ({ s with obs := none } : State) := h.reobs rfl (fun o ho => by cases ho)
  have fr : Frame s ({ s2 with obs := s.obs } : State) (x + 1) :=
    ((Frame.of_nodes (x + 1) rfl rfl : Frame s ({ s with obs := none } : State) (x + 1)).trans
      up.frame).trans (Frame.of_nodes (x + 1) rfl rfl)
  have hcore := fr.effCore e hl.kind
  have cf := Node.core_fields hcore
  refine ⟨hq.others.of_frame h fr, ⟨by rw [cf.2.2.1, cf.2.2.2.2.2.2.1]; exact hq.self.srcSeen, ?_,
    by rw [cf.2.2.2.2.1]; exact hq.self.noFirst⟩, fr.log hq.log⟩
  intro hd
  rcases fr.effD e hl.kind hd with h1 | ⟨y, hy, hv⟩
  · exact witness_mono h cf.2.2.2.2.2.2.1 fr.verMono (hq.self.dirtyJ h1)
  · rw [hq.self.srcSeen] at hy
    exact witness_new h cf.2.2.2.2.2.2.1 hy hv

theorem hwriteJ {p : Prog} {e : Nat} (F : Nat) (hF : p.length ≤ F) (s : State) (x : Nat) (v0 v : Int)
    (h : InvR p s) (hl : EffLoc s e) (hq : QJ s e) (hx : p[x]? = some (.sig v0)) :
    QJ (setSignal F s x v) e := by
  obtain ⟨h', sp⟩ := setSignal_inv h hx v (f := F) (by rw [h.len]; exact hF)
  have hex : e ≠ x := by
    intro hc; subst hc
    have := h.kind e _ hx
    rw [hl.kind] at this; cases this
  refine ⟨?_, ?_, sp.log hq.log⟩
  · intro i hk hr
    rw [sp.kind] at hk; rw [sp.running] at hr
    exact (hq.others i hk hr).of_set h hx v sp hk
  · have cf := Node.core_fields (setSignal_core F s x v e hex)
    have hver : ∀ y, (s.get y).ver ≤ ((setSignal F s x v).get y).ver := by
      intro y; by_cases hy : y = x
      · subst hy; rw [sp.verx]; omega
      · rw [sp.ver y hy]; exact Nat.le_refl _
    refine ⟨by rw [cf.2.2.1, cf.2.2.2.2.2.2.1]; exact hq.self.srcSeen, ?_, by rw [cf.2.2.2.2.1]; exact hq.self.noFirst⟩
    intro hd
    rcases setSignal_dirty F s x v e hex hd with h1 | h1
    · exact witness_mono h cf.2.2.2.2.2.2.1 hver (hq.self.dirtyJ h1)
    · have hsrc : x ∈ (s.get e).sources := (h.edge x e).1 h1
      rw [hq.self.srcSeen] at hsrc
      exact witness_new h cf.2.2.2.2.2.2.1 hsrc (by rw [sp.verx]; omega)

/-! ## between operations -/

structure TopJ (p : Prog) (s : State) : Prop where
  quiet : Quiet p s
  effJ : InvJ s
  log : LogOK s

/-- updating flags of an effect that `EffJ` does not mention, or clearing `dirty` / `first` -/
theorem TopJ.flagEff {p : Prog} {s : State} (h : TopJ p s) {e : Nat} (hk : (s.get e).kind = .eff)
    (g : Node → Node) (gc : ∀ n, (g n).kind = n.kind ∧ (g n).sources = n.sources ∧ (g n).subs = n.subs ∧
      (g n).seen = n.seen ∧ (g n).ver = n.ver ∧ (g n).running = n.running)
    (gr : ∀ n, (g n).runs = n.runs) (gd : ∀ n, (g n).dirty = true → n.dirty = true)
    (gf : ∀ n, (g n).first = true → n.first = true) :
    TopJ p (s.upd e g) ∧ ((s.upd e g).get e).kind = .eff := by
  obtain ⟨q, hk'⟩ := h.quiet.flagEff hk g gc
  refine ⟨⟨q, ?_, h.log⟩, hk'⟩
  have he : e < s.nodes.length := s.lt_of_kind_ne (by rw [hk]; simp)
  generalize hs' : s.upd e g = s'
  have ge : s'.get e = g (s.get e) := by subst hs'; rw [State.get_upd_same _ _ he]
  have go : ∀ i, i ≠ e → s'.get i = s.get i := by
    intro i hi; subst hs'; rw [State.get_upd_ne _ _ (Ne.symm hi)]
  have verE : ∀ i, (s'.get i).ver = (s.get i).ver := by
    intro i; by_cases hi : i = e
    · subst hi; rw [ge]; exact (gc _).2.2.2.2.1
    · rw [go i hi]
  intro i hki hri
  by_cases hie : i = e
  · subst hie
    rw [ge] at hki hri
    have c := gc (s.get i)
    have j := h.effJ i hk (by rw [← c.2.2.2.2.2]; exact hri)
    refine ⟨by rw [ge, c.2.1, c.2.2.2.1]; exact j.srcSeen, ?_, fun hf => ?_⟩
    · intro hd hruns
      rw [ge] at hd hruns
      rw [gr] at hruns
      obtain ⟨z, hz, hne⟩ := j.dirtyJ (gd _ hd) hruns
      exact ⟨z, by rw [ge, c.2.2.2.1]; exact hz, by rw [verE]; exact hne⟩
    · rw [ge] at hf ⊢; rw [gr]; exact j.firstJ (gf _ hf)
  · rw [go i hie] at hki hri
    have j := h.effJ i hki hri
    refine ⟨by rw [go i hie]; exact j.srcSeen, ?_, by rw [go i hie]; exact j.firstJ⟩
    intro hd hruns
    rw [go i hie] at hd hruns ⊢
    obtain ⟨z, hz, hne⟩ := j.dirtyJ hd hruns
    exact ⟨z, hz, by rw [verE]; exact hne⟩

theorem TopJ.of_upd {p : Prog} {s : State} {x : Nat} {r : State × Bool} (h : TopJ p s)
    (up : UpdPost p s x r) : TopJ p r.1 :=
  ⟨⟨up.inv, fun i => (up.running i).trans (h.quiet.idle i)⟩, h.effJ.of_frame h.quiet.inv up.frame,
   up.frame.log h.log⟩

theorem walk_specJ {p : Prog} {u : State → Nat → State × Bool} {f : Nat} (hu : UpdOK p u f)
    (e : Nat) : ∀ (l : List Nat) (s : State), (∀ x ∈ l, x < f) → TopJ p s → (s.get e).kind = .eff →
      (∀ x ∈ l, x ∈ (s.get e).sources) →
      TopJ p (anySrc u false e l s).1 ∧
      (∀ i, ((anySrc u false e l s).1.get i).kind = (s.get i).kind) ∧
      ((anySrc u false e l s).2 = true → ((anySrc u false e l s).1.get e).runs ≠ 0 →
        ∃ z ∈ ((anySrc u false e l s).1.get e).seen, ((anySrc u false e l s).1.get z.1).ver ≠ z.2.2)
  | [], s, _, h, _, _ => ⟨h, fun _ => rfl, fun hc => by cases hc⟩
  | x :: l, s, hl, h, hk, hsrc => by
    have up := hu s x h.quiet.inv (hl x List.mem_cons_self) (h.quiet.idle x)
      (fun r hr => by rw [h.quiet.idle r] at hr; cases hr)
    unfold anySrc
    generalize u s x = r at up
    obtain ⟨s1, ch⟩ := r
    have t1 : TopJ p s1 := h.of_upd up
    have cf := Node.core_fields (up.frame.effCore e hk)
    simp only
    split
    · next hc =>
      refine ⟨t1, up.frame.kind, fun _ _ => ?_⟩
      have hch : ch = true := by simpa using hc
      have hv : (s.get x).ver < (s1.get x).ver := up.ver hch
      have hx := hsrc x List.mem_cons_self
      rw [(h.effJ e hk (h.quiet.idle e)).srcSeen] at hx
      exact witness_new h.quiet.inv cf.2.2.2.2.2.2.1 hx hv
    · have ih := walk_specJ hu e l s1 (fun y hy => hl y (List.mem_cons_of_mem _ hy)) t1
        (by rw [up.frame.kind]; exact hk)
        (fun y hy => by
          show y ∈ (s1.get e).sources
          rw [cf.2.2.1]; exact hsrc y (List.mem_cons_of_mem _ hy))
      exact ⟨ih.1, fun i => (ih.2.1 i).trans (up.frame.kind i), ih.2.2⟩

/-- clearing the `dirty` flag keeps `TopJ` and every version witness -/
theorem clearDirty_J {p : Prog} {s : State} {e : Nat} (h : TopJ p s) (hk : (s.get e).kind = .eff) :
    TopJ p (s.upd e fun n => { n with dirty := false }) ∧
    ((s.upd e fun n => { n with dirty := false }).get e).kind = .eff ∧
    (((s.get e).runs ≠ 0 → ∃ z ∈ (s.get e).seen, (s.get z.1).ver ≠ z.2.2) →
      ((s.upd e fun n => { n with dirty := false }).get e).runs ≠ 0 →
      ∃ z ∈ ((s.upd e fun n => { n with dirty := false }).get e).seen,
        ((s.upd e fun n => { n with dirty := false }).get z.1).ver ≠ z.2.2) := by
  obtain ⟨t, hk'⟩ := h.flagEff hk (fun n => { n with dirty := false })
    (fun _ => ⟨rfl, rfl, rfl, rfl, rfl, rfl⟩) (fun _ => rfl) (fun _ hd => by cases hd) (fun _ hf => hf)
  refine ⟨t, hk', ?_⟩
  have he : e < s.nodes.length := s.lt_of_kind_ne (by rw [hk]; simp)
  have verE : ∀ i, ((s.upd e fun n => { n with dirty := false }).get i).ver = (s.get i).ver := by
    intro i; rw [State.get_upd]; split <;> rfl
  rw [State.get_upd_same _ _ he]
  intro hw hruns
  obtain ⟨z, hz, hne⟩ := hw hruns
  exact ⟨z, hz, by rw [verE]; exact hne⟩

theorem effUpdate_specJ {p : Prog} {f : Nat} (hu : UpdOK p (upd p f) f) (hf : p.length ≤ f)
    {s : State} {e : Nat} (h : TopJ p s) (hk : (s.get e).kind = .eff) :
    TopJ p ({ (effUpdate p f { s with obs := some e } e).1 with obs := none }) ∧
    ((effUpdate p f { s with obs := some e } e).1.get e).kind = .eff ∧
    ((effUpdate p f { s with obs := some e } e).1.get e).dirty = false ∧
    ((effUpdate p f { s with obs := some e } e).2 = true →
      ((effUpdate p f { s with obs := some e } e).1.get e).runs ≠ 0 →
      ∃ z ∈ ((effUpdate p f { s with obs := some e } e).1.get e).seen,
        ((effUpdate p f { s with obs := some e } e).1.get z.1).ver ≠ z.2.2) := by
  have hobs := h.quiet.obs
  have he : e < s.nodes.length := s.lt_of_kind_ne (by rw [hk]; simp)
  cases hd : (s.get e).dirty with
  | true =>
    rw [effUpdate_dirty p f { s with obs := some e } e hd]
    have e1 : ({ (({ s with obs := some e } : State).upd e fun n => { n with dirty := false }) with
        obs := none } : State) = ({ s with obs := none } : State).upd e fun n => { n with dirty := false } := rfl
    have c := clearDirty_J h hk
    simp only
    rw [e1, State.setObs_none_eq hobs]
    exact ⟨c.1, c.2.1, by rw [State.get_upd_same (s := { s with obs := some e }) _ he],
      fun _ => c.2.2 (fun hruns => (h.effJ e hk (h.quiet.idle e)).dirtyJ hd hruns)⟩
  | false =>
    rw [effUpdate_clean p f { s with obs := some e } e hd]
    have e0 : ({ ({ s with obs := some e } : State) with obs := none } : State) = s :=
      State.setObs_none_eq hobs
    simp only [State.setObs_get]
    rw [e0]
    have hw := walk_specJ hu e (s.get e).sources s (fun x hx => by
      have := h.quiet.inv.srcLt e x hx
      have := h.quiet.inv.len
      omega) h hk (fun x hx => hx)
    generalize anySrc (upd p f) false e (s.get e).sources s = r at hw
    obtain ⟨s2, any⟩ := r
    simp only at hw ⊢
    obtain ⟨t2, hkind, hwit⟩ := hw
    have hk2 : (s2.get e).kind = .eff := by rw [hkind]; exact hk
    have e1 : ({ (({ s2 with obs := some e } : State).upd e fun n => { n with dirty := false }) with
        obs := none } : State) = ({ s2 with obs := none } : State).upd e fun n => { n with dirty := false } := rfl
    have c := clearDirty_J t2 hk2
    rw [e1, State.setObs_none_eq t2.quiet.obs]
    have he2 : e < s2.nodes.length := s2.lt_of_kind_ne (by rw [hk2]; simp)
    refine ⟨c.1, c.2.1, by rw [State.get_upd_same (s := { s2 with obs := some e }) _ he2],
      fun hneed => c.2.2 (fun hruns => ?_)⟩
    by_cases ha : any = true
    · exact hwit ha hruns
    · have hd2 : (s2.get e).dirty = true := by
        simp only [Bool.or_eq_true] at hneed
        rcases hneed with h' | h'
        · exact absurd h' ha
        · exact h'
      exact (t2.effJ e hk2 (t2.quiet.idle e)).dirtyJ hd2 hruns

theorem noteRun_log_ok {s : State} {id : Nat} (hl : LogOK s) (hj : justified s id = true) :
    LogOK (noteRun s id) := by
  unfold noteRun
  rw [hj]
  simp only [if_true]
  intro i hi
  simp only [State.emit_log, State.upd_log, List.mem_append, List.mem_singleton] at hi
  rcases hi with hi | hi
  · exact hl i hi
  · cases hi

theorem effRun_specJ {p : Prog} {f : Nat} (hu : UpdOK p (upd p f) f) (hf : p.length < f)
    (hpe : EffOKU p) {s : State} {e : Nat} (h : TopJ p s) (hk : (s.get e).kind = .eff)
    (hd : (s.get e).dirty = false)
    (hj : (s.get e).runs ≠ 0 → ∃ z ∈ (s.get e).seen, (s.get z.1).ver ≠ z.2.2) :
    TopJ p (effRun p f s e none) ∧ ((effRun p f s e none).get e).kind = .eff := by
  have he : e < s.nodes.length := s.lt_of_kind_ne (by rw [hk]; simp)
  have hep : e < p.length := by rw [← h.quiet.inv.len]; exact he
  have q1 := h.quiet.updEff hk (fun n => { n with first := false }) hk rfl rfl (fun _ hx => hx)
    (Nat.le_refl _) (h.quiet.idle e)
  unfold effRun
  generalize hs1 : (s.upd e fun n => { n with first := false }) = s1 at q1
  have g1e : s1.get e = { s.get e with first := false } := by subst hs1; rw [State.get_upd_same _ _ he]
  have g1o : ∀ i, i ≠ e → s1.get i = s.get i := by
    intro i hi; subst hs1; rw [State.get_upd_ne _ _ (Ne.symm hi)]
  have log1 : s1.log = s.log := by subst hs1; rfl
  have hk1 : (s1.get e).kind = .eff := by rw [g1e]; exact hk
  have he1 : e < s1.nodes.length := by subst hs1; simpa using he
  have t := clearSources_post (s := s1) (m := e) q1.inv.nodup
    (fun i hni hc => hni ((q1.inv.edge i e).1 hc))
    (fun hc => Nat.lt_irrefl e (q1.inv.srcLt e e hc)) he1
  have h2 := clearSources_inv_eff q1.inv t hk1
  simp only
  generalize clearSources s1 e = s2 at t h2
  have hk2 : (s2.get e).kind = .eff := by rw [t.gm]; exact hk1
  have he2 : e < s2.nodes.length := by rw [t.len]; exact he1
  have idle2 : ∀ i, (s2.get i).running = false := by
    intro i; by_cases hi : i = e
    · subst hi; rw [t.gm]; exact q1.idle i
    · rw [t.go i hi]; exact q1.idle i
  have ver2 : ∀ i, (s2.get i).ver = (s.get i).ver := by
    intro i; by_cases hi : i = e
    · subst hi; rw [t.gm, g1e]
    · rw [t.go i hi, g1o i hi]
  -- the run is justified
  have hjust : justified s2 e = true := by
    unfold justified
    rw [t.gm, g1e]
    simp only [Bool.or_eq_true, beq_iff_eq, List.any_eq_true]
    by_cases hr : (s.get e).runs = 0
    · exact .inl hr
    · obtain ⟨z, hz, hne⟩ := hj hr
      refine .inr ⟨z, hz, ?_⟩
      obtain ⟨x, v, vx⟩ := z
      simp only [ver2]
      simpa using hne
  have log3 : LogOK (noteRun s2 e) :=
    noteRun_log_ok (by intro i; rw [t.log, log1]; exact h.log i) hjust
  generalize hs4 : ({ noteRun s2 e with obs := some e } : State) = s4
  have g4 : ∀ i, s4.get i = if e = i ∧ i < s2.nodes.length then
      { s2.get i with seen := [], runs := (s2.get i).runs + 1, running := true } else s2.get i := by
    intro i; subst hs4; exact noteRun_get s2 e i
  have g4e : s4.get e = { s2.get e with seen := [], runs := (s2.get e).runs + 1, running := true } := by
    rw [g4 e, if_pos ⟨rfl, he2⟩]
  have g4o : ∀ i, i ≠ e → s4.get i = s2.get i := by
    intro i hi; rw [g4 i, if_neg (fun hc => hi hc.1.symm)]
  have log4 : LogOK s4 := by subst hs4; exact log3
  have h4 : InvR p s4 := by
    have hq2 : Quiet p s2 := ⟨h2, idle2⟩
    have h3 := hq2.inv.updEff hk2 (fun n => { n with seen := [], runs := n.runs + 1, running := true })
      hk2 rfl rfl (fun _ hx => by cases hx) (Nat.le_refl _) (fun _ => rfl)
    refine h3.reobs (s' := s4) ?_ ?_
    · subst hs4
      unfold noteRun
      simp only [State.emit_nodes]
      split <;> rfl
    · intro o ho
      have : o = e := by subst hs4; simpa using ho.symm
      subst this
      rw [State.get_upd_same _ _ he2]
  have l4 : EffLoc s4 e := by
    refine ⟨by subst hs4; rfl, by rw [g4e]; exact hk2, by rw [g4e], ?_⟩
    intro r hr
    by_cases hre : r = e
    · exact hre
    · rw [g4o r hre, idle2 r] at hr; cases hr
  have ver4 : ∀ i, (s4.get i).ver = (s.get i).ver := by
    intro i; by_cases hi : i = e
    · subst hi; rw [g4e]; exact ver2 i
    · rw [g4o i hi]; exact ver2 i
  have q4 : QJ s4 e := by
    refine ⟨?_, ⟨by rw [g4e, t.gm]; rfl, ?_, by rw [g4e, t.gm, g1e]⟩, log4⟩
    · intro i hki hri
      have hie : i ≠ e := by intro hc; subst hc; rw [g4e] at hri; cases hri
      have g : s4.get i = { s.get i with subs := (s.get i).subs.erase e } := by
        rw [g4o i hie, t.go i hie, g1o i hie]
      rw [g] at hki hri
      have j := h.effJ i hki hri
      refine ⟨by rw [g]; exact j.srcSeen, ?_, by rw [g]; exact j.firstJ⟩
      intro hdi hruns
      rw [g] at hdi hruns ⊢
      obtain ⟨z, hz, hne⟩ := j.dirtyJ hdi hruns
      exact ⟨z, hz, by rw [ver4]; exact hne⟩
    · intro hd4
      rw [g4e, t.gm, g1e] at hd4
      rw [hd] at hd4; cases hd4
  -- the body
  obtain ⟨b, hb⟩ : ∃ b, p[e]? = some (.eff b) := by
    have hd' : p[e]? = some p[e] := List.getElem?_eq_getElem hep
    have := h.quiet.inv.kind e _ hd'
    rw [hk] at this
    cases hp : p[e] with
    | eff b => exact ⟨b, by rw [hd', hp]⟩
    | sig v => rw [hp] at this; cases this
    | memo b => rw [hp] at this; cases this
  have hbody := hpe e b hb
  have hbo : bodyOf p e = b := by simp only [bodyOf, hb]
  have ev := evalEff_specU hu (by omega) f (by omega) (bodyOf p e) s4 h4 l4
    (by rw [hbo]; exact hbody.1) (by rw [hbo]; exact hbody.2)
  have evq := evalEff_gen hu (e := e) (by omega) f (by omega) (fun s => QJ s e)
    (fun s x h' hl' hq' hx hkx => hreadJ hu (by omega) s x h' hl' hq' hx hkx)
    (fun s x h' hl' hq' hx hkx => hureadJ hu (by omega) s x h' hl' hq' hx hkx)
    (fun s x v0 v h' hl' hq' hx => hwriteJ f (by omega) s x v0 v h' hl' hq' hx)
    (bodyOf p e) s4 h4 l4 q4
    (by rw [hbo]; exact hbody.1) (by rw [hbo]; exact hbody.2)
  generalize evalE (readNode (upd p f)) (setSignal f) e (bodyOf p e) s4 = r at ev evq
  obtain ⟨s8, v⟩ := r
  simp only at ev evq ⊢
  obtain ⟨h8, l8⟩ := ev
  have h9 : InvR p ({ s8 with obs := none } : State) :=
    h8.reobs rfl (fun o ho => by cases ho)
  have he9 : e < ({ s8 with obs := none } : State).nodes.length := s8.lt_of_running l8.running
  generalize hs10 : (({ s8 with obs := none } : State).upd e fun n =>
    { n with val := some v, running := false, ver := (if ((s2.get e).val != some v) = true then n.ver + 1 else n.ver) }) = s10
  have h10 : InvR p s10 := by
    subst hs10
    refine h9.updEff l8.kind _ l8.kind rfl rfl (fun _ hx => hx) ?_ (fun ho => by cases ho)
    simp only [State.setObs_get]; split <;> omega
  have g10e : s10.get e = { s8.get e with val := some v, running := false, ver := (if ((s2.get e).val != some v) = true then (s8.get e).ver + 1 else (s8.get e).ver) } := by
    subst hs10; rw [State.get_upd_same _ _ he9]; rfl
  have g10o : ∀ i, i ≠ e → s10.get i = s8.get i := by
    intro i hi; subst hs10; rw [State.get_upd_ne _ _ (Ne.symm hi)]; rfl
  have verMono : ∀ i, (s8.get i).ver ≤ (s10.get i).ver := by
    intro i; by_cases hi : i = e
    · subst hi; rw [g10e]; simp only; split <;> omega
    · rw [g10o i hi]; exact Nat.le_refl _
  have idle10 : ∀ i, (s10.get i).running = false := by
    intro i; by_cases hi : i = e
    · subst hi; rw [g10e]
    · rw [g10o i hi]
      cases hr : (s8.get i).running with
      | false => rfl
      | true => exact absurd (l8.only i hr) hi
  refine ⟨⟨⟨h10, idle10⟩, ?_, ?_⟩, by rw [g10e]; exact l8.kind⟩
  · intro i hki hri
    by_cases hie : i = e
    · subst hie
      have hseen : (s10.get i).seen = (s8.get i).seen := by rw [g10e]
      refine ⟨by rw [g10e]; exact evq.self.srcSeen, fun hd10 _ => ?_, fun hf10 => ?_⟩
      · have hd8 : (s8.get i).dirty = true := by rw [g10e] at hd10; exact hd10
        exact witness_mono h8 hseen verMono (evq.self.dirtyJ hd8)
      · rw [g10e] at hf10
        have := evq.self.noFirst
        simp only at hf10
        rw [this] at hf10; cases hf10
    · have g := g10o i hie
      rw [g] at hki hri
      have j := evq.others i hki hri
      refine ⟨by rw [g]; exact j.srcSeen, ?_, by rw [g]; exact j.firstJ⟩
      intro hdi hruns
      rw [g] at hdi hruns
      exact witness_mono h8 (by rw [g]) verMono (j.dirtyJ hdi hruns)
  · intro i
    have : s10.log = s8.log := by subst hs10; rfl
    rw [this]; exact evq.log i

/-- flags that `EffJ` does not mention -/
theorem TopJ.flagEff' {p : Prog} {s : State} (h : TopJ p s) {e : Nat} (hk : (s.get e).kind = .eff)
    (g : Node → Node) (gc : ∀ n, (g n).kind = n.kind ∧ (g n).sources = n.sources ∧ (g n).subs = n.subs ∧
      (g n).seen = n.seen ∧ (g n).ver = n.ver ∧ (g n).running = n.running ∧ (g n).runs = n.runs ∧
      (g n).dirty = n.dirty ∧ (g n).first = n.first) :
    TopJ p (s.upd e g) ∧ ((s.upd e g).get e).kind = .eff :=
  h.flagEff hk g (fun n => ⟨(gc n).1, (gc n).2.1, (gc n).2.2.1, (gc n).2.2.2.1, (gc n).2.2.2.2.1,
    (gc n).2.2.2.2.2.1⟩) (fun n => (gc n).2.2.2.2.2.2.1) (fun n hd => by rw [← (gc n).2.2.2.2.2.2.2.1]; exact hd)
    (fun n hf => by rw [← (gc n).2.2.2.2.2.2.2.2]; exact hf)

theorem effLoop_specJ {p : Prog} {f : Nat} (hu : UpdOK p (upd p f) f) (hf : p.length < f)
    (hpe : EffOKU p) (e : Nat) : ∀ (k : Nat) (s : State), TopJ p s → (s.get e).kind = .eff →
      TopJ p (effLoop p f k s e)
  | 0, s, h, _ => h
  | k + 1, s, h, hk => by
    rw [effLoop_succ]
    split
    · exact h
    · obtain ⟨q1, hk1⟩ := h.flagEff' hk (fun n => { n with chan := false })
        (fun _ => ⟨rfl, rfl, rfl, rfl, rfl, rfl, rfl, rfl, rfl⟩)
      simp only
      generalize (s.upd e fun n => { n with chan := false }) = s1 at q1 hk1
      split
      · exact effLoop_specJ hu hf hpe e k s1 q1 hk1
      · obtain ⟨q3, hk3, hd3, hw3⟩ := effUpdate_specJ hu (by omega) q1 hk1
        rw [q1.quiet.obs]
        generalize effUpdate p f { s1 with obs := some e } e = r at q3 hk3 hd3 hw3
        obtain ⟨s2, need⟩ := r
        simp only at q3 hk3 hd3 hw3 ⊢
        have hk3' : (({ s2 with obs := none } : State).get e).kind = .eff := hk3
        split
        · next hc =>
          have hj : (({ s2 with obs := none } : State).get e).runs ≠ 0 →
              ∃ z ∈ (({ s2 with obs := none } : State).get e).seen,
                (({ s2 with obs := none } : State).get z.1).ver ≠ z.2.2 := by
            intro hruns
            by_cases hn : need = true
            · exact hw3 hn hruns
            · have hfirst : (({ s2 with obs := none } : State).get e).first = true := by
                simp only [Bool.or_eq_true] at hc
                rcases hc with hc | hc
                · exact absurd hc hn
                · exact hc
              exact absurd ((q3.effJ e hk3' (q3.quiet.idle e)).firstJ hfirst) hruns
          obtain ⟨q4, hk4⟩ := effRun_specJ hu hf hpe q3 hk3' hd3 hj
          exact effLoop_specJ hu hf hpe e k _ q4 hk4
        · exact effLoop_specJ hu hf hpe e k _ q3 hk3'

theorem pollEff_specJ {p : Prog} (hp : MemoOK p) (hpe : EffOKU p) {s : State} {e : Nat} (h : TopJ p s)
    (hk : (s.get e).kind = .eff) : TopJ p (pollEff p s e) := by
  unfold pollEff
  obtain ⟨q1, hk1⟩ := h.flagEff' hk (fun n => { n with woken := false })
    (fun _ => ⟨rfl, rfl, rfl, rfl, rfl, rfl, rfl, rfl, rfl⟩)
  simp only
  generalize (s.upd e fun n => { n with woken := false }) = s1 at q1 hk1
  split
  · exact (q1.flagEff' hk1 (fun n => { n with done := true })
      (fun _ => ⟨rfl, rfl, rfl, rfl, rfl, rfl, rfl, rfl, rfl⟩)).1
  · exact effLoop_specJ (upd_ok hp (fuelFor p)) (by simp [fuelFor]) hpe e 64 s1 q1 hk1

theorem pollNth_specJ {p : Prog} (hp : MemoOK p) (hpe : EffOKU p) {s : State} (h : TopJ p s) (i : Nat) :
    TopJ p (pollNth p s i) := by
  unfold pollNth
  simp only
  split
  · exact h
  · next hne =>
    apply pollEff_specJ hp hpe h
    apply ready_kind
    have hpos : 0 < (ready s).length := by
      cases hr : ready s with
      | nil => rw [hr] at hne; simp at hne
      | cons a l => simp
    have hlt : i % (ready s).length < (ready s).length := Nat.mod_lt _ hpos
    rw [List.getD_eq_getElem?_getD, List.getElem?_eq_getElem hlt]
    exact List.getElem_mem hlt

theorem runIdle_specJ {p : Prog} (hp : MemoOK p) (hpe : EffOKU p) :
    ∀ (k : Nat) (s : State), TopJ p s → TopJ p (runIdle p k s)
  | 0, _, h => h
  | k + 1, s, h => by
    unfold runIdle
    split
    · exact h
    · exact runIdle_specJ hp hpe k _ (pollNth_specJ hp hpe h 0)

theorem TopJ.emit {p : Prog} {s : State} (h : TopJ p s) (ev : Ev) (hev : ∀ i, ev ≠ .unjust i) :
    TopJ p (s.emit ev) :=
  ⟨h.quiet.emit ev, fun i hk hr => ⟨(h.effJ i hk hr).srcSeen, (h.effJ i hk hr).dirtyJ, (h.effJ i hk hr).firstJ⟩,
   h.log.emit hev⟩

theorem init_topJ (p : Prog) : TopJ p (initState p) := by
  refine ⟨init_quiet p, ?_, (init_topInv p).log⟩
  intro i _ _
  have := init_fields p i
  exact ⟨by rw [this.1, this.2.2.1]; rfl, fun _ hr => absurd this.2.2.2.2.1 hr, fun _ => this.2.2.2.2.1⟩

theorem step_topJ {p : Prog} (hp : MemoOK p) (hpe : EffOKU p) {s : State}
    (h : TopJ p s) (o : Op) : TopJ p (step p s o).1 := by
  cases o with
  | set id v =>
    simp only [step]
    split
    · next v0 hx =>
      have hf : s.nodes.length ≤ fuelFor p := by rw [h.quiet.inv.len]; simp [fuelFor]
      obtain ⟨hi, sp⟩ := setSignal_inv h.quiet.inv hx v hf
      refine ⟨⟨hi, fun i => (sp.running i).trans (h.quiet.idle i)⟩, ?_, sp.log h.log⟩
      intro i hk hr
      rw [sp.kind] at hk; rw [sp.running] at hr
      exact (h.effJ i hk hr).of_set h.quiet.inv hx v sp hk
    · exact h
  | read m =>
    simp only [step]
    have htrack : track s m = s := by unfold track; rw [h.quiet.obs]
    unfold readNode
    rw [htrack]
    simp only
    cases hk : (s.get m).kind with
    | eff => exact h
    | sig => exact h
    | memo =>
      simp only
      have hm : m < p.length := h.quiet.inv.memo_lt hk
      have post := upd_ok hp (fuelFor p) s m h.quiet.inv (by simp only [fuelFor]; omega) (h.quiet.idle m)
        (fun r hr => by rw [h.quiet.idle r] at hr; cases hr)
      exact h.of_upd post
  | poll i => exact pollNth_specJ hp hpe h i
  | idle => exact runIdle_specJ hp hpe 256 s h
  | pause e =>
    simp only [step]
    split
    · next hk =>
      exact (h.flagEff' (by simpa using hk) (fun n => { n with paused := true })
        (fun _ => ⟨rfl, rfl, rfl, rfl, rfl, rfl, rfl, rfl, rfl⟩)).1
    · exact h
  | resume e =>
    simp only [step]
    split
    · next hk =>
      exact (h.flagEff' (by simpa using hk) (fun n => { n with paused := false })
        (fun _ => ⟨rfl, rfl, rfl, rfl, rfl, rfl, rfl, rfl, rfl⟩)).1
    · exact h
  | dispose e =>
    simp only [step]
    split
    · next hk =>
      simp only [Bool.and_eq_true, beq_iff_eq] at hk
      have q := (h.flagEff' hk.1 (fun n => { n with alive := false, woken := true })
        (fun _ => ⟨rfl, rfl, rfl, rfl, rfl, rfl, rfl, rfl, rfl⟩)).1
      split
      · exact q.emit _ (by intro i; simp)
      · exact q
    · exact h

theorem run_topJ {p : Prog} (hp : MemoOK p) (hpe : EffOKU p) (ops : List Op) : TopJ p (run p ops) := by
  unfold run
  suffices ∀ s, TopJ p s → TopJ p (ops.foldl (fun s o => (step p s o).1) s) from
    this _ (init_topJ p)
  induction ops with
  | nil => intro s h; exact h
  | cons o ops ih => intro s h; exact ih _ (step_topJ hp hpe h o)

/-- **C09**: no memo or effect body ever runs unjustified -/
theorem effOKU_of_wf {p : Prog} (hwf : WF p = true) : EffOKU p := by
  intro e b hb
  have hw := WF_get hwf hb
  simp only [wfNode, Bool.and_eq_true] at hw
  exact ⟨hw.1, hw.2⟩

theorem no_unjust {p : Prog} (hwf : WF p = true) (ops : List Op) :
    ∀ i, Ev.unjust i ∉ (run p ops).log :=
  (run_topJ (memoOK_of_wf hwf) (effOKU_of_wf hwf) ops).log

/-! ## untracked reads: the value of a memo is its body at current tracked values and a snapshot -/

theorem run_quietU {p : Prog} (hwf : WF p = true) (ops : List Op) : Quiet p (run p ops) :=
  (run_topJ (memoOK_of_wf hwf) (effOKU_of_wf hwf) ops).quiet

/-- reading a clean data node returns its cached value -/
theorem read_clean_val {p : Prog} {s : State} (h : Quiet p s) {x : Nat} {v : Int}
    (hk : (s.get x).kind ≠ .eff) (hc : (s.get x).st = .clean) (hv : (s.get x).val = some v) :
    (step p s (.read x)).2 = some v := by
  have htrack : track s x = s := by unfold track; rw [h.obs]
  simp only [step]
  unfold readNode
  rw [htrack]
  simp only
  cases hkx : (s.get x).kind with
  | eff => exact absurd hkx hk
  | sig => simp only [hv, Option.getD_some]
  | memo =>
    simp only
    have e1 : upd p (fuelFor p) s x = (s.upd x fun n => { n with st := .clean }, false) := by
      show upd p (p.length + 1) s x = _
      rw [upd_succ]
      have hk' : ((s.get x).kind != .memo) = false := by rw [hkx]; rfl
      rw [hk']
      simp only [Bool.false_eq_true, if_false, hc]
    have e2 : (s.upd x fun n => { n with st := .clean }) = s := by
      apply State.upd_eq_self
      have : s.get x = { s.get x with st := (s.get x).st } := rfl
      rw [hc] at this; exact this.symm
    rw [e1, e2]
    simp only [hv, Option.getD_some]

/-- **C01, untracked reads**: the value returned by a read of memo `m` is its body evaluated with
every tracked read replaced by what a read of that node returns right afterwards, and the
untracked reads replaced by some snapshot `U` (the values they had when the memo last ran) -/
theorem read_snapshot {p : Prog} (hwf : WF p = true) (ops : List Op) (m : Nat) (b : Expr)
    (hb : p[m]? = some (.memo b)) :
    ∃ U : List Int, (step p (run p ops) (.read m)).2 =
      some (evalSnap (fun x => ((step p (step p (run p ops) (.read m)).1 (.read x)).2).getD 0) b U).1 := by
  have hq := run_quietU hwf ops
  generalize run p ops = s at hq
  have hk : (s.get m).kind = .memo := hq.inv.kind m _ hb
  have hm : m < p.length := hq.inv.memo_lt hk
  have htrack : track s m = s := by unfold track; rw [hq.obs]
  have post := upd_ok (memoOK_of_wf hwf) (fuelFor p) s m hq.inv (by simp only [fuelFor]; omega)
    (hq.idle m) (fun r hr => by rw [hq.idle r] at hr; cases hr)
  have hstep : step p s (.read m) =
      ((upd p (fuelFor p) s m).1, some (((upd p (fuelFor p) s m).1.get m).val.getD 0)) := by
    simp only [step]
    unfold readNode
    rw [htrack]
    simp only [hk]
  rw [hstep]
  generalize upd p (fuelFor p) s m = r at post
  obtain ⟨s', ch⟩ := r
  simp only at post ⊢
  have hq' : Quiet p s' := ⟨post.inv, fun i => (post.running i).trans (hq.idle i)⟩
  have hk' : (s'.get m).kind = .memo := by rw [post.frame.kind]; exact hk
  have hc : (s'.get m).st = .clean := post.clean hk
  have hnd : (s'.get m).st ≠ .dirty := by rw [hc]; simp
  obtain ⟨U, hU⟩ := post.inv.replay m hk' (hq'.idle m) hnd
  have hbo : bodyOf p m = b := by simp only [bodyOf, hb]
  rw [hbo] at hU
  refine ⟨U, ?_⟩
  have hcons : ∀ z ∈ (s'.get m).seen,
      ((step p s' (.read z.1)).2).getD 0 = z.2.1 := by
    intro z hz
    have hsrc : z.1 ∈ (s'.get m).sources := by
      rw [post.inv.srcSeen m hk' (hq'.idle m)]; exact List.mem_map_of_mem hz
    have hdat := post.inv.srcData m z.1 hsrc
    have hlt := post.inv.srcLt m z.1 hsrc
    have hcl : (s'.get z.1).st = .clean := by
      cases hkz : (s'.get z.1).kind with
      | eff => exact absurd hkz hdat
      | sig => exact (post.inv.sigOk z.1 (by omega) hkz).1
      | memo =>
        cases hs1 : (s'.get z.1).st with
        | clean => rfl
        | check =>
          exact absurd hc (post.inv.closed z.1 m hkz (by rw [hs1]; simp)
            ((post.inv.edge z.1 m).2 hsrc) hk')
        | dirty =>
          exact absurd hc (post.inv.closed z.1 m hkz (by rw [hs1]; simp)
            ((post.inv.edge z.1 m).2 hsrc) hk')
    have hval : (s'.get z.1).val = some z.2.1 := by
      rcases post.inv.srcVal m hk' (hq'.idle m) hnd z hz with h1 | h1
      · rw [hq'.idle z.1] at h1; cases h1
      · exact h1
    rw [read_clean_val hq' hdat hcl hval]; rfl
  have := hU (fun x => ((step p s' (.read x)).2).getD 0) hcons
  simp only at this
  rw [this]; rfl

/-! ## a memo computes at most once between two writes -/

/-- what one top-level read does to the run counters -/
theorem read_step_rel {p : Prog} (hp : MemoOK p) {s : State} (h : TopJ p s) (a : Nat) :
    RunsX s (step p s (.read a)).1 ∧ RunRel s (step p s (.read a)).1 ∧
    (∀ i, (s.get i).st = .clean → ((step p s (.read a)).1.get i).st = .clean) := by
  simp only [step]
  have htrack : track s a = s := by unfold track; rw [h.quiet.obs]
  unfold readNode
  rw [htrack]
  simp only
  cases hk : (s.get a).kind with
  | eff => exact ⟨RunsX.refl s, RunRel.of_eq (fun _ => rfl), fun _ hi => hi⟩
  | sig => exact ⟨RunsX.refl s, RunRel.of_eq (fun _ => rfl), fun _ hi => hi⟩
  | memo =>
    simp only
    have hm : a < p.length := h.quiet.inv.memo_lt hk
    have post := upd_ok hp (fuelFor p) s a h.quiet.inv (by simp only [fuelFor]; omega) (h.quiet.idle a)
      (fun r hr => by rw [h.quiet.idle r] at hr; cases hr)
    exact ⟨post.frame.runsx, post.runRel, fun i hi => (post.frame.clean i hi).1⟩

theorem two_reads_at_most_once {p : Prog} (hwf : WF p = true) (ops : List Op) (a b m : Nat) :
    ∃ suf, (step p (step p (run p ops) (.read a)).1 (.read b)).1.log = (run p ops).log ++ suf ∧
      countRan m suf ≤ 1 := by
  have hp := memoOK_of_wf hwf
  have h0 := run_topJ hp (effOKU_of_wf hwf) ops
  generalize run p ops = s at h0
  have r1 := read_step_rel hp h0 a
  have h1 := step_topJ hp (effOKU_of_wf hwf) h0 (.read a)
  generalize (step p s (.read a)).1 = s1 at r1 h1
  have r2 := read_step_rel hp h1 b
  generalize (step p s1 (.read b)).1 = s2 at r2
  obtain ⟨suf, hs, hr⟩ := r1.1.trans r2.1
  have hrel := r1.2.1.trans r2.2.1 r1.2.2 r2.2.2
  refine ⟨suf, hs, ?_⟩
  have := hr m
  rcases hrel m with h' | h'
  · omega
  · omega

end Leptos.Reactive
