import LeptosModel.Proofs.ReactiveTopEff
/-!
# Proofs/ReactiveJust — every run of a memo or effect body is justified (C09)
-/
namespace Leptos.Reactive

/-! ## facts about `setSignal` not recorded in `SetPost` -/

theorem setSignal_core (f : Nat) (s : State) (x : Nat) (v : Int) (i : Nat) (hi : i ≠ x) :
    ((setSignal f s x v).get i).core = (s.get i).core := by
  unfold setSignal sigNotify
  have hr := foldl_markRel (fun s x => markDirty f s x) (fun s x => markDirty_rel f s x)
    ((((s.upd x fun n => { n with val := some v, ver := n.ver + 1 }).emit (.set x)).get x).subs)
    ((s.upd x fun n => { n with val := some v, ver := n.ver + 1 }).emit (.set x))
  rw [hr.core, State.emit_get, State.get_upd_ne _ _ (Ne.symm hi)]

theorem setSignal_dirty (f : Nat) (s : State) (x : Nat) (v : Int) (i : Nat) (hi : i ≠ x)
    (hd : ((setSignal f s x v).get i).dirty = true) :
    (s.get i).dirty = true ∨ i ∈ (s.get x).subs := by
  unfold setSignal sigNotify at hd
  rcases foldl_markDirty_dirty f _ _ i hd with h | h
  · rw [State.emit_get, State.get_upd_ne _ _ (Ne.symm hi)] at h; exact .inl h
  · right
    have := h.1
    rw [State.emit_get, State.get_upd] at this
    split at this
    · exact this
    · exact this

/-! ## the justification invariant for effects -/

structure EffJ (s : State) (i : Nat) : Prop where
  srcSeen : (s.get i).sources = (s.get i).seen.map (·.1)
  dirtyJ : (s.get i).dirty = true → (s.get i).runs ≠ 0 →
    ∃ x ∈ (s.get i).seen, (s.get x.1).ver ≠ x.2.2
  firstJ : (s.get i).first = true → (s.get i).runs = 0

def InvJ (s : State) : Prop :=
  ∀ i, (s.get i).kind = .eff → (s.get i).running = false → EffJ s i

/-- a witness of a new version stays one when versions grow -/
theorem witness_mono {p : Prog} {s s' : State} (h : InvR p s) {i : Nat}
    (hseen : (s'.get i).seen = (s.get i).seen) (hver : ∀ y, (s.get y).ver ≤ (s'.get y).ver)
    (hw : ∃ x ∈ (s.get i).seen, (s.get x.1).ver ≠ x.2.2) :
    ∃ x ∈ (s'.get i).seen, (s'.get x.1).ver ≠ x.2.2 := by
  obtain ⟨x, hx, hne⟩ := hw
  refine ⟨x, by rw [hseen]; exact hx, ?_⟩
  have := h.verLe i x hx
  have := hver x.1
  omega

theorem witness_new {p : Prog} {s s' : State} (h : InvR p s) {i y : Nat}
    (hseen : (s'.get i).seen = (s.get i).seen) (hy : y ∈ (s.get i).seen.map (·.1))
    (hv : (s.get y).ver < (s'.get y).ver) :
    ∃ x ∈ (s'.get i).seen, (s'.get x.1).ver ≠ x.2.2 := by
  obtain ⟨x, hx, hxy⟩ := List.mem_map.1 hy
  refine ⟨x, by rw [hseen]; exact hx, ?_⟩
  have := h.verLe i x hx
  rw [hxy] at this ⊢
  omega

theorem EffJ.of_frame {p : Prog} {s s' : State} {k : Nat} (h : InvR p s) (fr : Frame s s' k) {i : Nat}
    (hk : (s.get i).kind = .eff) (hj : EffJ s i) : EffJ s' i := by
  have cf := Node.core_fields (fr.effCore i hk)
  refine ⟨by rw [cf.2.2.1, cf.2.2.2.2.2.2.1]; exact hj.srcSeen, ?_, by rw [cf.2.2.2.2.1, cf.2.2.2.2.2.2.2.2]; exact hj.firstJ⟩
  intro hd hruns
  rw [cf.2.2.2.2.2.2.2.2] at hruns
  rcases fr.effD i hk hd with h' | ⟨y, hy, hv⟩
  · exact witness_mono h cf.2.2.2.2.2.2.1 fr.verMono (hj.dirtyJ h' hruns)
  · rw [hj.srcSeen] at hy
    exact witness_new h cf.2.2.2.2.2.2.1 hy hv

theorem InvJ.of_frame {p : Prog} {s s' : State} {k : Nat} (h : InvR p s) (fr : Frame s s' k)
    (hj : InvJ s) : InvJ s' := by
  intro i hk hr
  have hk0 : (s.get i).kind = .eff := by rw [← fr.kind]; exact hk
  have cf := Node.core_fields (fr.effCore i hk0)
  exact (hj i hk0 (by rw [← cf.2.2.2.2.2.1]; exact hr)).of_frame h fr hk0

theorem EffJ.of_set {p : Prog} {s : State} (h : InvR p s) {x : Nat} {v0 : Int}
    (hx : p[x]? = some (.sig v0)) (v : Int) {f : Nat}
    (sp : SetPost s (setSignal f s x v) x v) {i : Nat}
    (hk : (s.get i).kind = .eff) (hj : EffJ s i) : EffJ (setSignal f s x v) i := by
  have hix : i ≠ x := by
    intro e; subst e
    rw [h.kind i _ hx] at hk; cases hk
  have cf := Node.core_fields (setSignal_core f s x v i hix)
  have hver : ∀ y, (s.get y).ver ≤ ((setSignal f s x v).get y).ver := by
    intro y; by_cases hy : y = x
    · subst hy; rw [sp.verx]; omega
    · rw [sp.ver y hy]; exact Nat.le_refl _
  refine ⟨by rw [cf.2.2.1, cf.2.2.2.2.2.2.1]; exact hj.srcSeen, ?_, by rw [cf.2.2.2.2.1, cf.2.2.2.2.2.2.2.2]; exact hj.firstJ⟩
  intro hd hruns
  rw [cf.2.2.2.2.2.2.2.2] at hruns
  rcases setSignal_dirty f s x v i hix hd with h' | h'
  · exact witness_mono h cf.2.2.2.2.2.2.1 hver (hj.dirtyJ h' hruns)
  · have hsrc : x ∈ (s.get i).sources := (h.edge x i).1 h'
    rw [hj.srcSeen] at hsrc
    exact witness_new h cf.2.2.2.2.2.2.1 hsrc (by rw [sp.verx]; omega)

/-! ## a generic invariant through the evaluation of an effect body -/

theorem evalEff_gen {p : Prog} {u : State → Nat → State × Bool} {f : Nat} (hu : UpdOK p u f)
    {e : Nat} (hef : e ≤ f) (F : Nat) (hF : p.length ≤ F) (Q : State → Prop)
    (hread : ∀ s x, InvR p s → EffLoc s e → Q s → x < e → (s.get x).kind ≠ .eff →
      Q (((readNode u s x).1.upd e fun n =>
        { n with seen := n.seen ++ [(x, (readNode u s x).2, ((readNode u s x).1.get x).ver)] }).emit
          (.rdv e x (readNode u s x).2)))
    (hwrite : ∀ s x v0 v, InvR p s → EffLoc s e → Q s → p[x]? = some (.sig v0) →
      Q (setSignal F s x v)) :
    ∀ (ex : Expr) (s : State), InvR p s → EffLoc s e → Q s → ex.readsBelow e = true →
      ex.noUntracked = true → ex.readsData p = true →
      Q (evalE (readNode u) (setSignal F) e ex s).1
  | .lit n, s, _, _, hq, _, _, _ => hq
  | .rd tracked x, s, h, hl, hq, hb, hu', hd => by
    simp only [Expr.noUntracked] at hu'
    subst hu'
    simp only [Expr.readsBelow, decide_eq_true_eq] at hb
    have hkx : (s.get x).kind ≠ .eff := by
      simp only [Expr.readsData] at hd
      cases hpx : p[x]? with
      | none => rw [hpx] at hd; cases hd
      | some d =>
        rw [h.kind x d hpx]
        cases d <;> simp_all [kindOf]
    simp only [evalE, if_true]
    exact hread s x h hl hq hb hkx
  | .add a b, s, h, hl, hq, hb, hu', hd => by
    simp only [Expr.readsBelow, Expr.noUntracked, Expr.readsData, Bool.and_eq_true] at hb hu' hd
    obtain ⟨h1, l1⟩ := evalEff_spec hu hef F hF a s h hl hb.1 hu'.1 hd.1
    have q1 := evalEff_gen hu hef F hF Q hread hwrite a s h hl hq hb.1 hu'.1 hd.1
    simp only [evalE]
    exact evalEff_gen hu hef F hF Q hread hwrite b _ h1 l1 q1 hb.2 hu'.2 hd.2
  | .mulc k a, s, h, hl, hq, hb, hu', hd => by
    simp only [Expr.readsBelow, Expr.noUntracked, Expr.readsData] at hb hu' hd
    simp only [evalE]
    exact evalEff_gen hu hef F hF Q hread hwrite a s h hl hq hb hu' hd
  | .ite c t el, s, h, hl, hq, hb, hu', hd => by
    simp only [Expr.readsBelow, Expr.noUntracked, Expr.readsData, Bool.and_eq_true] at hb hu' hd
    obtain ⟨h1, l1⟩ := evalEff_spec hu hef F hF c s h hl hb.1.1 hu'.1.1 hd.1.1
    have q1 := evalEff_gen hu hef F hF Q hread hwrite c s h hl hq hb.1.1 hu'.1.1 hd.1.1
    simp only [evalE]
    split
    · exact evalEff_gen hu hef F hF Q hread hwrite t _ h1 l1 q1 hb.1.2 hu'.1.2 hd.1.2
    · exact evalEff_gen hu hef F hF Q hread hwrite el _ h1 l1 q1 hb.2 hu'.2 hd.2
  | .seq a b, s, h, hl, hq, hb, hu', hd => by
    simp only [Expr.readsBelow, Expr.noUntracked, Expr.readsData, Bool.and_eq_true] at hb hu' hd
    obtain ⟨h1, l1⟩ := evalEff_spec hu hef F hF a s h hl hb.1 hu'.1 hd.1
    have q1 := evalEff_gen hu hef F hF Q hread hwrite a s h hl hq hb.1 hu'.1 hd.1
    simp only [evalE]
    exact evalEff_gen hu hef F hF Q hread hwrite b _ h1 l1 q1 hb.2 hu'.2 hd.2
  | .wr x a, s, h, hl, hq, hb, hu', hd => by
    simp only [Expr.readsBelow, Expr.noUntracked, Expr.readsData, Bool.and_eq_true] at hb hu' hd
    obtain ⟨h1, l1⟩ := evalEff_spec hu hef F hF a s h hl hb hu' hd.2
    have q1 := evalEff_gen hu hef F hF Q hread hwrite a s h hl hq hb hu' hd.2
    simp only [evalE]
    generalize evalE (readNode u) (setSignal F) e a s = r at h1 l1 q1
    obtain ⟨s1, v⟩ := r
    simp only at h1 l1 q1 ⊢
    cases hpx : p[x]? with
    | none => rw [hpx] at hd; simp at hd
    | some d =>
      cases d with
      | memo _ => rw [hpx] at hd; simp at hd
      | eff _ => rw [hpx] at hd; simp at hd
      | sig v0 => exact hwrite s1 x v0 v h1 l1 q1 hpx

/-! ## the running effect -/

structure RunLocJ (s : State) (e : Nat) : Prop where
  srcSeen : (s.get e).sources = (s.get e).seen.map (·.1)
  dirtyJ : (s.get e).dirty = true → ∃ x ∈ (s.get e).seen, (s.get x.1).ver ≠ x.2.2
  noFirst : (s.get e).first = false

structure QJ (s : State) (e : Nat) : Prop where
  others : InvJ s
  self : RunLocJ s e
  log : LogOK s

/-- the read performed by `readNode` under an effect observer, summarised -/
theorem readEff_cases {p : Prog} {u : State → Nat → State × Bool} {f : Nat} (hu : UpdOK p u f)
    {e : Nat} (hef : e ≤ f) {s : State} (h : InvR p s) (hl : EffLoc s e) {x : Nat} (hx : x < e)
    (hkx : (s.get x).kind ≠ .eff) :
    ∃ s1 s2 v ch, readNode u s x = (s2, v) ∧ TrackPost s s1 e x ∧ InvR p s1 ∧ UpdPost p s1 x (s2, ch) := by
  have he : e < s.nodes.length := s.lt_of_running hl.running
  have hxe : x ≠ e := Nat.ne_of_lt hx
  have t := track_post hl.obs he hx
  have h1 := track_inv h t hx (fun hk => by rw [hl.kind] at hk; cases hk) hkx
  have hxnr : (s.get x).running = false := by
    cases hr : (s.get x).running with
    | false => rfl
    | true => exact absurd (hl.only x hr) hxe
  unfold readNode
  generalize track s x = s1 at t h1
  simp only
  cases hk : (s1.get x).kind with
  | eff => rw [t.kind] at hk; exact absurd hk hkx
  | sig =>
    exact ⟨s1, s1, _, false, rfl, t, h1, UpdPost.refl h1 (fun hk' => by rw [hk] at hk'; cases hk')⟩
  | memo =>
    simp only
    have hp := hu s1 x h1 (by omega) (by rw [t.running]; exact hxnr) (by
      intro r hr
      rw [t.running] at hr
      rw [hl.only r hr]; exact hx)
    generalize u s1 x = r at hp
    obtain ⟨s2, ch⟩ := r
    exact ⟨s1, s2, _, ch, rfl, t, h1, hp⟩

theorem hreadJ {p : Prog} {u : State → Nat → State × Bool} {f : Nat} (hu : UpdOK p u f)
    {e : Nat} (hef : e ≤ f) (s : State) (x : Nat) (h : InvR p s) (hl : EffLoc s e) (hq : QJ s e)
    (hx : x < e) (hkx : (s.get x).kind ≠ .eff) :
    QJ (((readNode u s x).1.upd e fun n =>
        { n with seen := n.seen ++ [(x, (readNode u s x).2, ((readNode u s x).1.get x).ver)] }).emit
          (.rdv e x (readNode u s x).2)) e := by
  obtain ⟨s1, s2, v, ch, hrd, t, h1, up⟩ := readEff_cases hu hef h hl hx hkx
  rw [hrd]
  simp only
  have hxe : x ≠ e := Nat.ne_of_lt hx
  have he1 : (s1.get e).kind = .eff := by rw [t.kind]; exact hl.kind
  have he2 : e < s2.nodes.length := by
    rw [up.frame.len, t.len]; exact s.lt_of_running hl.running
  generalize hs3 : ((s2.upd e fun n => { n with seen := n.seen ++ [(x, v, (s2.get x).ver)] }).emit
    (.rdv e x v)) = s3
  have g3e : s3.get e = { s2.get e with seen := (s2.get e).seen ++ [(x, v, (s2.get x).ver)] } := by
    subst hs3; rw [State.emit_get, State.get_upd_same _ _ he2]
  have g3o : ∀ i, i ≠ e → s3.get i = s2.get i := by
    intro i hi; subst hs3; rw [State.emit_get, State.get_upd_ne _ _ (Ne.symm hi)]
  have ver3 : ∀ i, (s3.get i).ver = (s2.get i).ver := by
    intro i; by_cases hi : i = e
    · subst hi; rw [g3e]
    · rw [g3o i hi]
  have cfe := Node.core_fields (up.frame.effCore e he1)
  have verMono : ∀ y, (s.get y).ver ≤ (s3.get y).ver := by
    intro y; rw [ver3, ← t.ver y]; exact up.frame.verMono y
  refine ⟨?_, ?_, ?_⟩
  · -- the other effects
    intro i hk hr
    have hie : i ≠ e := by
      intro hie; subst hie
      rw [g3e] at hr
      have : (s2.get i).running = true := by rw [up.running, t.running]; exact hl.running
      rw [this] at hr; cases hr
    rw [g3o i hie] at hk hr
    have hk1 : (s1.get i).kind = .eff := by rw [← up.frame.kind]; exact hk
    have hk0 : (s.get i).kind = .eff := by rw [← t.kind]; exact hk1
    have hix : i ≠ x := by intro hix; subst hix; exact hkx hk0
    have hr0 : (s.get i).running = false := by rw [← t.running, ← up.running]; exact hr
    have j0 := hq.others i hk0 hr0
    have j1 : EffJ s1 i := by
      have g := t.go i hie hix
      exact ⟨by rw [g]; exact j0.srcSeen, fun hd hruns => by
        rw [g] at hd hruns ⊢
        obtain ⟨z, hz, hne⟩ := j0.dirtyJ hd hruns
        exact ⟨z, hz, by rw [t.ver]; exact hne⟩, by rw [g]; exact j0.firstJ⟩
    have j2 := j1.of_frame h1 up.frame hk1
    have g := g3o i hie
    exact ⟨by rw [g]; exact j2.srcSeen, fun hd hruns => by
      rw [g] at hd hruns ⊢
      obtain ⟨z, hz, hne⟩ := j2.dirtyJ hd hruns
      exact ⟨z, hz, by rw [ver3]; exact hne⟩, by rw [g]; exact j2.firstJ⟩
  · -- the running effect
    have hseen2 : (s2.get e).seen = (s.get e).seen := cfe.2.2.2.2.2.2.1.trans (t.seen e)
    have hsrc2 : (s2.get e).sources = (s.get e).sources ++ [x] := cfe.2.2.1.trans t.sources_m
    refine ⟨?_, ?_, ?_⟩
    · rw [g3e]
      show (s2.get e).sources = ((s2.get e).seen ++ [(x, v, (s2.get x).ver)]).map (·.1)
      rw [hsrc2, hseen2, hq.self.srcSeen]; simp
    · intro hd
      have hd2 : (s2.get e).dirty = true := by rw [g3e] at hd; exact hd
      have hseen3 : ∀ z, z ∈ (s.get e).seen → z ∈ (s3.get e).seen := by
        intro z hz; rw [g3e]
        show z ∈ (s2.get e).seen ++ _
        rw [hseen2]; exact List.mem_append_left _ hz
      rcases up.obsD e (t.obs.trans hl.obs) he1 hd2 with h' | ⟨y, hy, hyx, hv⟩
      · have hd0 : (s.get e).dirty = true := by rw [t.gm] at h'; exact h'
        obtain ⟨z, hz, hne⟩ := hq.self.dirtyJ hd0
        refine ⟨z, hseen3 z hz, ?_⟩
        have := h.verLe e z hz
        have := verMono z.1
        omega
      · rw [t.sources_m, List.mem_append, List.mem_singleton] at hy
        rcases hy with hy | hy
        · rw [hq.self.srcSeen] at hy
          obtain ⟨z, hz, hzy⟩ := List.mem_map.1 hy
          refine ⟨z, hseen3 z hz, ?_⟩
          have := h.verLe e z hz
          rw [hzy] at this ⊢
          rw [ver3]
          have hv' : (s1.get y).ver < (s2.get y).ver := hv
          have := t.ver y
          omega
        · exact absurd hy hyx
    · rw [g3e]
      show (s2.get e).first = false
      rw [cfe.2.2.2.2.1, t.gm]; exact hq.self.noFirst
  · -- the log
    have l1 : LogOK s1 := by intro i; rw [t.log]; exact hq.log i
    have l2 := up.frame.log l1
    subst hs3
    exact LogOK.emit (s := s2.upd e _) l2 (by intro i; simp)

end Leptos.Reactive
