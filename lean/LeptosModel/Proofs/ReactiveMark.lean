import LeptosModel.Proofs.ReactiveInv
/-!
# Proofs/ReactiveMark — what `notify` / `markCheck` / `markDirty` do
-/
namespace Leptos.Reactive

theorem LogOK.emit {s : State} (h : LogOK s) {e : Ev} (he : ∀ i, e ≠ .unjust i) : LogOK (s.emit e) := by
  intro i hi
  simp only [State.emit_log, List.mem_append, List.mem_singleton] at hi
  rcases hi with hi | hi
  · exact h i hi
  · exact he i hi.symm

theorem MarkRel.of_upd (s : State) (id : Nat) (g : Node → Node)
    (hcore : ∀ n, (g n).core = n.core) (hst : (s.get id).st.rank ≤ (g (s.get id)).st.rank)
    (hnm : (s.get id).kind ≠ .memo → (g (s.get id)).st = (s.get id).st) : MarkRel s (s.upd id g) where
  len := by simp
  obs := rfl
  core i := by rw [State.get_upd]; split <;> simp [hcore]
  rank i := by
    rw [State.get_upd]; split
    · next hc => obtain ⟨rfl, _⟩ := hc; exact hst
    · exact Nat.le_refl _
  notMemo i h := by
    rw [State.get_upd]; split
    · next hc => obtain ⟨rfl, _⟩ := hc; exact hnm h
    · rfl
  log h := h
  logx := LogExt.of_eq rfl

theorem MarkRel.emit {s : State} {e : Ev} (he : WokeEv e) : MarkRel s (s.emit e) where
  len := rfl
  obs := rfl
  core _ := rfl
  rank _ := Nat.le_refl _
  notMemo _ _ := rfl
  log h := h.emit he.quiet.1
  logx := LogExt.emit he

theorem notify_rel (s : State) (id : Nat) : MarkRel s (notify s id) := by
  unfold notify
  split
  · exact MarkRel.refl s
  · have h1 := MarkRel.of_upd s id (fun n => { n with chan := true, woken := true }) (fun _ => rfl)
      (Nat.le_refl _) (fun _ => rfl)
    simp only
    split
    · exact h1.trans (MarkRel.emit ⟨_, rfl⟩)
    · exact h1

theorem notify_st (s : State) (id i : Nat) : ((notify s id).get i).st = (s.get i).st := by
  unfold notify
  split
  · rfl
  · simp only
    split
    · rw [State.emit_get, State.get_upd]; split <;> rfl
    · rw [State.get_upd]; split <;> rfl

theorem foldl_markRel (g : State → Nat → State) (hg : ∀ s x, MarkRel s (g s x)) :
    ∀ (l : List Nat) (s : State), MarkRel s (l.foldl g s)
  | [], s => MarkRel.refl s
  | x :: l, s => (hg s x).trans (foldl_markRel g hg l (g s x))

theorem markCheck_rel : ∀ (f : Nat) (s : State) (y : Nat), MarkRel s (markCheck f s y)
  | 0, s, _ => MarkRel.refl s
  | f + 1, s, y => by
    unfold markCheck
    split
    · exact MarkRel.refl s
    · exact notify_rel s y
    · next hk =>
      have h1 : MarkRel s (if (s.get y).st != .dirty then s.upd y fun n => { n with st := .check } else s) := by
        split
        · next hd =>
          refine MarkRel.of_upd s y _ (fun _ => rfl) ?_ (fun h => absurd hk h)
          cases hs : (s.get y).st <;> simp_all [St.rank]
        · exact MarkRel.refl s
      exact h1.trans (foldl_markRel _ (fun s x => markCheck_rel f s x) _ _)

theorem markDirty_rel (f : Nat) (s : State) (y : Nat) : MarkRel s (markDirty f s y) := by
  unfold markDirty
  split
  · exact MarkRel.refl s
  · split
    · exact MarkRel.refl s
    · exact (MarkRel.of_upd s y (fun n => { n with dirty := true }) (fun _ => rfl) (Nat.le_refl _)
        (fun _ => rfl)).trans (notify_rel _ y)
  · next hk =>
    have h1 : MarkRel s (s.upd y fun n => { n with st := .dirty }) := by
      refine MarkRel.of_upd s y _ (fun _ => rfl) ?_ (fun h => absurd hk h)
      cases hs : (s.get y).st <;> simp [St.rank]
    exact h1.trans (foldl_markRel _ (fun s x => markCheck_rel f s x) _ _)

/-! ## marking inside a pull: everything reachable is already non-clean -/

def Closed (s : State) : Prop :=
  ∀ x w, (s.get x).kind = .memo → (s.get x).st ≠ .clean → w ∈ (s.get x).subs →
    (s.get w).kind = .memo → (s.get w).st ≠ .clean

theorem Closed.of_markRel {s s' : State} (h : Closed s) (hr : MarkRel s s')
    (hc : ∀ i, (s.get i).st = .clean → (s'.get i).st = .clean) : Closed s' := by
  intro x w hk hx hw hkw
  rw [hr.kind] at hk hkw
  rw [hr.subs] at hw
  have hx' : (s.get x).st ≠ .clean := fun h' => hx (hc x h')
  exact hr.nonclean (h x w hk hx' hw hkw)

def StSame (s s' : State) : Prop := ∀ i, (s'.get i).st = (s.get i).st

theorem foldl_stable (g : State → Nat → State) (hrel : ∀ s x, MarkRel s (g s x))
    (hg : ∀ s x, Closed s → ((s.get x).kind = .memo → (s.get x).st ≠ .clean) → StSame s (g s x)) :
    ∀ (l : List Nat) (s : State), Closed s →
      (∀ w ∈ l, (s.get w).kind = .memo → (s.get w).st ≠ .clean) → StSame s (l.foldl g s)
  | [], s, _, _ => fun _ => rfl
  | x :: l, s, hc, hl => by
    have h1 := hg s x hc (hl x (List.mem_cons_self))
    have hr := hrel s x
    have hc1 : Closed (g s x) := hc.of_markRel hr (fun i hi => by rw [h1 i]; exact hi)
    have h2 := foldl_stable g hrel hg l (g s x) hc1 (by
      intro w hw hk
      rw [h1 w]; rw [hr.kind] at hk
      exact hl w (List.mem_cons_of_mem _ hw) hk)
    intro i
    rw [List.foldl_cons, h2 i, h1 i]

theorem markCheck_stable : ∀ (f : Nat) (s : State) (y : Nat), Closed s →
    ((s.get y).kind = .memo → (s.get y).st ≠ .clean) → StSame s (markCheck f s y)
  | 0, s, _, _, _ => fun _ => rfl
  | f + 1, s, y, hc, hy => by
    unfold markCheck
    split
    · exact fun _ => rfl
    · exact fun i => notify_st s y i
    · next hk =>
      have hy' := hy hk
      have e1 : (if (s.get y).st != .dirty then s.upd y fun n => { n with st := .check } else s) = s := by
        split
        · next hd =>
          apply State.upd_eq_self
          cases hs : (s.get y).st with
          | clean => exact absurd hs hy'
          | dirty => rw [hs] at hd; simp at hd
          | check =>
            have : s.get y = { s.get y with st := (s.get y).st } := rfl
            rw [hs] at this; exact this.symm
        · rfl
      rw [e1]
      exact foldl_stable _ (fun s x => markCheck_rel f s x) (fun s x => markCheck_stable f s x) _ s hc
        (fun w hw hkw => hc y w hk hy' hw hkw)

/-- marking a non-clean memo dirty inside a pull changes nothing but that memo's state -/
theorem markDirty_inner (f : Nat) (s : State) (w : Nat) (hc : Closed s)
    (hw : (s.get w).kind = .memo → (s.get w).st ≠ .clean) :
    (∀ i, i ≠ w → ((markDirty f s w).get i).st = (s.get i).st) ∧
    ((s.get w).kind = .memo → ((markDirty f s w).get w).st = .dirty) ∧
    ((s.get w).kind ≠ .memo → ((markDirty f s w).get w).st = (s.get w).st) := by
  unfold markDirty
  split
  · next hk => exact ⟨fun _ _ => rfl, fun h => (by rw [hk] at h; cases h), fun _ => rfl⟩
  · next hk =>
    split
    · exact ⟨fun _ _ => rfl, fun h => (by rw [hk] at h; cases h), fun _ => rfl⟩
    · have key : ∀ i, ((notify (s.upd w fun n => { n with dirty := true }) w).get i).st = (s.get i).st := by
        intro i
        rw [notify_st, State.get_upd]; split
        · next hc => obtain ⟨rfl, _⟩ := hc; rfl
        · rfl
      exact ⟨fun i _ => key i, fun h => (by rw [hk] at h; cases h), fun _ => key w⟩
  · next hk =>
    have hw' := hw hk
    have hlt : w < s.nodes.length := s.lt_of_kind_ne (by rw [hk]; simp)
    let s1 := s.upd w fun n => { n with st := .dirty }
    have hr1 : MarkRel s s1 := by
      refine MarkRel.of_upd s w _ (fun _ => rfl) ?_ (fun h => absurd hk h)
      cases hs : (s.get w).st <;> simp [St.rank]
    have hst1 : ∀ i, i ≠ w → (s1.get i).st = (s.get i).st := fun i hi => by
      show ((s.upd w _).get i).st = _
      rw [State.get_upd_ne _ _ (Ne.symm hi)]
    have hw1 : (s1.get w).st = .dirty := by
      show ((s.upd w _).get w).st = _
      rw [State.get_upd_same _ _ hlt]
    have hc1 : Closed s1 := hc.of_markRel hr1 (fun i hi => by
      by_cases hiw : i = w
      · subst hiw; exact absurd hi hw'
      · rw [hst1 i hiw]; exact hi)
    have hst := foldl_stable _ (fun s x => markCheck_rel f s x) (fun s x => markCheck_stable f s x)
      (s1.get w).subs s1 hc1 (fun x hx hkx =>
        hc1 w x (by rw [hr1.kind]; exact hk) (by rw [hw1]; simp) hx hkx)
    refine ⟨fun i hi => ?_, fun _ => ?_, fun h => absurd hk h⟩
    · rw [hst i, hst1 i hi]
    · rw [hst w, hw1]

/-! ## marking at top level (full fuel): the non-clean region becomes upward closed again -/

def SubsInc (s : State) : Prop := ∀ x w, w ∈ (s.get x).subs → x < w

theorem SubsInc.of_markRel {s s' : State} (h : SubsInc s) (hr : MarkRel s s') : SubsInc s' := by
  intro x w hw; rw [hr.subs] at hw; exact h x w hw

def NewClosed (s s' : State) : Prop :=
  ∀ x w, (s.get x).kind = .memo → (s.get x).st = .clean → (s'.get x).st ≠ .clean →
    w ∈ (s.get x).subs → (s.get w).kind = .memo → (s'.get w).st ≠ .clean

structure MarkC (s s' : State) : Prop where
  rel : MarkRel s s'
  newClosed : NewClosed s s'
  noNewDirty : ∀ i, (s'.get i).st = .dirty → (s.get i).st = .dirty

theorem MarkC.refl (s : State) : MarkC s s :=
  ⟨MarkRel.refl s, fun _ _ _ h1 h2 => absurd h1 h2, fun _ h => h⟩

theorem NewClosed.trans {s s' s'' : State} (r1 : MarkRel s s') (n1 : NewClosed s s')
    (r2 : MarkRel s' s'') (n2 : NewClosed s' s'') : NewClosed s s'' := by
  intro x w hk hc hnc hw hkw
  by_cases h1 : (s'.get x).st = .clean
  · exact n2 x w (by rw [r1.kind]; exact hk) h1 hnc (by rw [r1.subs]; exact hw) (by rw [r1.kind]; exact hkw)
  · exact r2.nonclean (n1 x w hk hc h1 hw hkw)

theorem MarkC.trans {s s' s'' : State} (h1 : MarkC s s') (h2 : MarkC s' s'') : MarkC s s'' :=
  ⟨h1.rel.trans h2.rel, NewClosed.trans h1.rel h1.newClosed h2.rel h2.newClosed,
   fun i h => h1.noNewDirty i (h2.noNewDirty i h)⟩

theorem Closed.of_markC {s s' : State} (h : Closed s) (hm : MarkC s s') : Closed s' := by
  intro x w hk hx hw hkw
  rw [hm.rel.kind] at hk hkw
  rw [hm.rel.subs] at hw
  by_cases hc : (s.get x).st = .clean
  · exact hm.newClosed x w hk hc hx hw hkw
  · exact hm.rel.nonclean (h x w hk hc hw hkw)

theorem foldl_markC (g : State → Nat → State) (N : Nat) (P : Nat → Prop)
    (hg : ∀ s x, SubsInc s → s.nodes.length = N → P x →
      MarkC s (g s x) ∧ ((s.get x).kind = .memo → ((g s x).get x).st ≠ .clean)) :
    ∀ (l : List Nat) (s : State), SubsInc s → s.nodes.length = N → (∀ w ∈ l, P w) →
      MarkC s (l.foldl g s) ∧ ∀ w ∈ l, (s.get w).kind = .memo → ((l.foldl g s).get w).st ≠ .clean
  | [], s, _, _, _ => ⟨MarkC.refl s, fun _ h => by cases h⟩
  | x :: l, s, hi, hN, hl => by
    have h1 := hg s x hi hN (hl x List.mem_cons_self)
    have h2 := foldl_markC g N P hg l (g s x) (hi.of_markRel h1.1.rel) (h1.1.rel.len.trans hN)
      (fun w hw => hl w (List.mem_cons_of_mem _ hw))
    refine ⟨h1.1.trans h2.1, ?_⟩
    intro w hw hk
    rcases List.mem_cons.1 hw with rfl | hw
    · exact h2.1.rel.nonclean (h1.2 hk)
    · exact h2.2 w hw (by rw [h1.1.rel.kind]; exact hk)

theorem markCheck_full : ∀ (f : Nat) (s : State) (y : Nat), SubsInc s → s.nodes.length ≤ y + f →
    MarkC s (markCheck f s y) ∧ ((s.get y).kind = .memo → ((markCheck f s y).get y).st ≠ .clean)
  | 0, s, y, _, hf => by
    refine ⟨MarkC.refl s, fun hk => ?_⟩
    have := s.lt_of_kind_ne (i := y) (by rw [hk]; simp)
    omega
  | f + 1, s, y, hi, hf => by
    unfold markCheck
    split
    · next hk => exact ⟨MarkC.refl s, fun h => by rw [hk] at h; cases h⟩
    · next hk =>
      refine ⟨⟨notify_rel s y, ?_, ?_⟩, fun h => by rw [hk] at h; cases h⟩
      · intro x w _ hc hnc; rw [notify_st] at hnc; exact absurd hc hnc
      · intro i h; rw [notify_st] at h; exact h
    · next hk =>
      have hlt : y < s.nodes.length := s.lt_of_kind_ne (by rw [hk]; simp)
      generalize hs1 : (if (s.get y).st != .dirty then s.upd y fun n => { n with st := .check } else s) = s1
      have hr1 : MarkRel s s1 := by
        subst hs1
        split
        · next hd =>
          refine MarkRel.of_upd s y _ (fun _ => rfl) ?_ (fun h => absurd hk h)
          cases hs : (s.get y).st <;> simp_all [St.rank]
        · exact MarkRel.refl s
      have hy1 : (s1.get y).st ≠ .clean := by
        subst hs1
        split
        · rw [State.get_upd_same _ _ hlt]; simp
        · next hd =>
          have : (s.get y).st = .dirty := by simpa using hd
          rw [this]; simp
      have hoth : ∀ i, i ≠ y → (s1.get i).st = (s.get i).st := by
        intro i hi'
        subst hs1
        split
        · rw [State.get_upd_ne _ _ (Ne.symm hi')]
        · rfl
      have hnd1 : ∀ i, (s1.get i).st = .dirty → (s.get i).st = .dirty := by
        intro i h
        by_cases hiy : i = y
        · subst hiy
          subst hs1
          split at h
          · rw [State.get_upd_same _ _ hlt] at h; cases h
          · exact h
        · rw [hoth i hiy] at h; exact h
      have hi1 : SubsInc s1 := hi.of_markRel hr1
      have hfold := foldl_markC (fun s x => markCheck f s x) s.nodes.length (fun w => s.nodes.length ≤ w + f)
        (fun s' x hi' hN hP => markCheck_full f s' x hi' (by rw [hN]; exact hP))
        (s1.get y).subs s1 hi1 hr1.len (by
          intro w hw
          have := hi1 y w hw
          omega)
      generalize (s1.get y).subs.foldl (fun s x => markCheck f s x) s1 = s2 at hfold
      obtain ⟨hc2, hall⟩ := hfold
      refine ⟨⟨hr1.trans hc2.rel, ?_, fun i h => hnd1 i (hc2.noNewDirty i h)⟩, fun _ => hc2.rel.nonclean hy1⟩
      intro x w hkx hcx hncx hw hkw
      by_cases hxy : x = y
      · subst hxy
        exact hall w (by rw [hr1.subs]; exact hw) (by rw [hr1.kind]; exact hkw)
      · exact hc2.newClosed x w (by rw [hr1.kind]; exact hkx) (by rw [hoth x hxy]; exact hcx) hncx
          (by rw [hr1.subs]; exact hw) (by rw [hr1.kind]; exact hkw)

/-- result of marking the set `L` dirty at top level -/
structure MarkD (s s' : State) (L : Nat → Prop) : Prop where
  rel : MarkRel s s'
  newClosed : NewClosed s s'
  newDirty : ∀ i, (s'.get i).st = .dirty → (s.get i).st = .dirty ∨ L i

theorem markDirty_full (f : Nat) (s : State) (y : Nat) (hi : SubsInc s) (hf : s.nodes.length ≤ f) :
    MarkD s (markDirty f s y) (· = y) ∧ ((s.get y).kind = .memo → ((markDirty f s y).get y).st = .dirty) := by
  unfold markDirty
  split
  · next hk => exact ⟨⟨MarkRel.refl s, fun _ _ _ h1 h2 => absurd h1 h2, fun _ h => .inl h⟩,
      fun h => by rw [hk] at h; cases h⟩
  · next hk =>
    split
    · exact ⟨⟨MarkRel.refl s, fun _ _ _ h1 h2 => absurd h1 h2, fun _ h => .inl h⟩,
        fun h => by rw [hk] at h; cases h⟩
    · have key : ∀ i, ((notify (s.upd y fun n => { n with dirty := true }) y).get i).st = (s.get i).st := by
        intro i
        rw [notify_st, State.get_upd]; split
        · next hc => obtain ⟨rfl, _⟩ := hc; rfl
        · rfl
      refine ⟨⟨(MarkRel.of_upd s y (fun n => { n with dirty := true }) (fun _ => rfl) (Nat.le_refl _)
        (fun _ => rfl)).trans (notify_rel _ y), ?_, ?_⟩, fun h => by rw [hk] at h; cases h⟩
      · intro x w _ hc hnc; rw [key] at hnc; exact absurd hc hnc
      · intro i h; rw [key] at h; exact .inl h
  · next hk =>
    have hlt : y < s.nodes.length := s.lt_of_kind_ne (by rw [hk]; simp)
    generalize hs1 : (s.upd y fun n => { n with st := .dirty }) = s1
    have hr1 : MarkRel s s1 := by
      subst hs1
      refine MarkRel.of_upd s y _ (fun _ => rfl) ?_ (fun h => absurd hk h)
      cases hs : (s.get y).st <;> simp [St.rank]
    have hy1 : (s1.get y).st = .dirty := by
      subst hs1; rw [State.get_upd_same _ _ hlt]
    have hoth : ∀ i, i ≠ y → (s1.get i).st = (s.get i).st := by
      intro i hi'; subst hs1; rw [State.get_upd_ne _ _ (Ne.symm hi')]
    have hi1 : SubsInc s1 := hi.of_markRel hr1
    have hfold := foldl_markC (fun s x => markCheck f s x) s.nodes.length (fun _ => True)
      (fun s' x hi' hN _ => markCheck_full f s' x hi' (by rw [hN]; omega))
      (s1.get y).subs s1 hi1 hr1.len (fun _ _ => trivial)
    generalize (s1.get y).subs.foldl (fun s x => markCheck f s x) s1 = s2 at hfold
    obtain ⟨hc2, hall⟩ := hfold
    refine ⟨⟨hr1.trans hc2.rel, ?_, ?_⟩, fun _ => hc2.rel.dirty hy1⟩
    · intro x w hkx hcx hncx hw hkw
      by_cases hxy : x = y
      · subst hxy
        exact hall w (by rw [hr1.subs]; exact hw) (by rw [hr1.kind]; exact hkw)
      · exact hc2.newClosed x w (by rw [hr1.kind]; exact hkx) (by rw [hoth x hxy]; exact hcx) hncx
          (by rw [hr1.subs]; exact hw) (by rw [hr1.kind]; exact hkw)
    · intro i h
      have := hc2.noNewDirty i h
      by_cases hiy : i = y
      · exact .inr hiy
      · rw [hoth i hiy] at this; exact .inl this

theorem foldl_markD (f : Nat) : ∀ (l : List Nat) (s : State), SubsInc s → s.nodes.length ≤ f →
    MarkD s (l.foldl (fun s x => markDirty f s x) s) (· ∈ l) ∧
    ∀ w ∈ l, (s.get w).kind = .memo → ((l.foldl (fun s x => markDirty f s x) s).get w).st = .dirty
  | [], s, _, _ => ⟨⟨MarkRel.refl s, fun _ _ _ h1 h2 => absurd h1 h2, fun _ h => .inl h⟩, fun _ h => by cases h⟩
  | x :: l, s, hi, hf => by
    have h1 := markDirty_full f s x hi hf
    have h2 := foldl_markD f l (markDirty f s x) (hi.of_markRel h1.1.rel) (by rw [h1.1.rel.len]; exact hf)
    rw [List.foldl_cons]
    generalize l.foldl (fun s x => markDirty f s x) (markDirty f s x) = s2 at h2
    refine ⟨⟨h1.1.rel.trans h2.1.rel, NewClosed.trans h1.1.rel h1.1.newClosed h2.1.rel h2.1.newClosed, ?_⟩, ?_⟩
    · intro i h
      rcases h2.1.newDirty i h with h' | h'
      · rcases h1.1.newDirty i h' with h'' | h''
        · exact .inl h''
        · exact .inr (by rw [h'']; exact List.mem_cons_self)
      · exact .inr (List.mem_cons_of_mem _ h')
    · intro w hw hk
      rcases List.mem_cons.1 hw with rfl | hw
      · exact h2.1.rel.dirty (h1.2 hk)
      · exact h2.2 w hw (by rw [h1.1.rel.kind]; exact hk)

theorem Closed.of_markD {s s' : State} {L} (h : Closed s) (hm : MarkD s s' L) : Closed s' := by
  intro x w hk hx hw hkw
  rw [hm.rel.kind] at hk hkw
  rw [hm.rel.subs] at hw
  by_cases hc : (s.get x).st = .clean
  · exact hm.newClosed x w hk hc hx hw hkw
  · exact hm.rel.nonclean (h x w hk hc hw hkw)

/-! ## the `dirty` flag of effects under marking -/

theorem notify_dirty (s : State) (id i : Nat) : ((notify s id).get i).dirty = (s.get i).dirty := by
  unfold notify
  split
  · rfl
  · simp only
    split
    · rw [State.emit_get, State.get_upd]; split <;> rfl
    · rw [State.get_upd]; split <;> rfl

theorem foldl_dirty_same (g : State → Nat → State)
    (hg : ∀ s x i, ((g s x).get i).dirty = (s.get i).dirty) :
    ∀ (l : List Nat) (s : State) (i : Nat), ((l.foldl g s).get i).dirty = (s.get i).dirty
  | [], _, _ => rfl
  | x :: l, s, i => by rw [List.foldl_cons, foldl_dirty_same g hg l, hg]

theorem markCheck_dirty : ∀ (f : Nat) (s : State) (y i : Nat),
    ((markCheck f s y).get i).dirty = (s.get i).dirty
  | 0, _, _, _ => rfl
  | f + 1, s, y, i => by
    unfold markCheck
    split
    · rfl
    · exact notify_dirty s y i
    · rw [foldl_dirty_same _ (fun s x i => markCheck_dirty f s x i)]
      split
      · rw [State.get_upd]; split <;> rfl
      · rfl

/-- `markDirty` sets the flag of `y` only (and only if `y` is an effect) -/
theorem markDirty_dirty (f : Nat) (s : State) (y i : Nat) :
    ((markDirty f s y).get i).dirty = (s.get i).dirty ∨
    (((markDirty f s y).get i).dirty = true ∧ i = y ∧ (s.get y).kind = .eff) := by
  unfold markDirty
  split
  · exact .inl rfl
  · next hk =>
    split
    · exact .inl rfl
    · rw [notify_dirty, State.get_upd]
      split
      · next hc => obtain ⟨rfl, _⟩ := hc; exact .inr ⟨rfl, rfl, hk⟩
      · exact .inl rfl
  · left
    rw [foldl_dirty_same _ (fun s x i => markCheck_dirty f s x i)]
    rw [State.get_upd]; split <;> rfl

theorem foldl_markDirty_dirty (f : Nat) : ∀ (l : List Nat) (s : State) (i : Nat),
    ((l.foldl (fun s x => markDirty f s x) s).get i).dirty = true →
      (s.get i).dirty = true ∨ (i ∈ l ∧ (s.get i).kind = .eff)
  | [], _, _, h => .inl h
  | x :: l, s, i, h => by
    rw [List.foldl_cons] at h
    rcases foldl_markDirty_dirty f l _ i h with h1 | h1
    · rcases markDirty_dirty f s x i with h2 | h2
      · rw [h2] at h1; exact .inl h1
      · exact .inr ⟨by rw [h2.2.1]; exact List.mem_cons_self, by rw [h2.2.1]; exact h2.2.2⟩
    · exact .inr ⟨List.mem_cons_of_mem _ h1.1, by rw [← (markDirty_rel f s x).kind]; exact h1.2⟩

theorem foldl_skip_dirty (f : Nat) : ∀ (l : List Nat) (s : State) (i : Nat),
    ((l.foldl (fun s x => if s.obs == some x then s else markDirty f s x) s).get i).dirty = true →
      (s.get i).dirty = true ∨ (i ∈ l ∧ s.obs ≠ some i ∧ (s.get i).kind = .eff)
  | [], _, _, h => .inl h
  | x :: l, s, i, h => by
    rw [List.foldl_cons] at h
    have hr1 : MarkRel s (if s.obs == some x then s else markDirty f s x) := by
      split
      · exact MarkRel.refl s
      · exact markDirty_rel f s x
    rcases foldl_skip_dirty f l _ i h with h1 | h1
    · by_cases ho : (s.obs == some x) = true
      · rw [if_pos ho] at h1; exact .inl h1
      · rw [if_neg ho] at h1
        rcases markDirty_dirty f s x i with h2 | h2
        · rw [h2] at h1; exact .inl h1
        · refine .inr ⟨by rw [h2.2.1]; exact List.mem_cons_self, ?_, by rw [h2.2.1]; exact h2.2.2⟩
          rw [h2.2.1]; simpa using ho
    · exact .inr ⟨List.mem_cons_of_mem _ h1.1, by rw [← hr1.obs]; exact h1.2.1,
        by rw [← hr1.kind]; exact h1.2.2⟩

/-! ## the effect flags `dirty` / `chan` / `woken` under marking -/

theorem notify_get (s : State) (id i : Nat) :
    (notify s id).get i =
      if (s.get id).alive = true ∧ id = i ∧ i < s.nodes.length then
        { s.get i with chan := true, woken := true } else s.get i := by
  unfold notify
  split
  · next h =>
    have : (s.get id).alive = false := by simpa using h
    simp [this]
  · next h =>
    have ha : (s.get id).alive = true := by simpa using h
    simp only
    split
    · rw [State.emit_get, State.get_upd]; simp [ha]
    · rw [State.get_upd]; simp [ha]

theorem notify_flag (s : State) (id : Nat) : FlagRel s (notify s id) := by
  have g := notify_get s id
  refine ⟨fun i h => ?_, fun i h => ?_, fun i h => ?_, fun i h => ?_, fun i h => ?_⟩
  · rw [g]; split <;> exact h
  · rw [g]; split
    · rfl
    · exact h
  · rw [g]; split
    · rfl
    · exact h
  · rw [g] at h; split at h
    · exact .inl h
    · exact .inl h
  · rw [g] at h ⊢; split
    · exact .inr rfl
    · next hn => rw [if_neg hn] at h; exact .inl h

theorem foldl_flagRel (g : State → Nat → State) (hg : ∀ s x, FlagRel s (g s x)) :
    ∀ (l : List Nat) (s : State), FlagRel s (l.foldl g s)
  | [], s => FlagRel.refl s
  | x :: l, s => (hg s x).trans (foldl_flagRel g hg l (g s x))

theorem markCheck_flag : ∀ (f : Nat) (s : State) (y : Nat), FlagRel s (markCheck f s y)
  | 0, s, _ => FlagRel.refl s
  | f + 1, s, y => by
    unfold markCheck
    split
    · exact FlagRel.refl s
    · exact notify_flag s y
    · have h1 : FlagRel s (if (s.get y).st != .dirty then s.upd y fun n => { n with st := .check } else s) := by
        split
        · exact FlagRel.of_upd s y _ (fun _ => ⟨rfl, rfl, rfl⟩)
        · exact FlagRel.refl s
      exact h1.trans (foldl_flagRel _ (fun s x => markCheck_flag f s x) _ _)

theorem markDirty_flag (f : Nat) (s : State) (y : Nat) : FlagRel s (markDirty f s y) := by
  unfold markDirty
  split
  · exact FlagRel.refl s
  · next hk =>
    split
    · exact FlagRel.refl s
    · next ha =>
      have hal : (s.get y).alive = true := by simpa using ha
      have hlt : y < s.nodes.length := s.lt_of_kind_ne (by rw [hk]; simp)
      have g : ∀ i, (notify (s.upd y fun n => { n with dirty := true }) y).get i =
          if y = i then { s.get i with dirty := true, chan := true, woken := true } else s.get i := by
        intro i
        have ge : (s.upd y fun n => { n with dirty := true }).get y = { s.get y with dirty := true } :=
          State.get_upd_same _ _ hlt
        rw [notify_get, ge]
        by_cases hyi : y = i
        · subst hyi
          rw [if_pos ⟨hal, rfl, by simpa using hlt⟩, if_pos rfl, ge]
        · rw [if_neg (fun hc => hyi hc.2.1), if_neg hyi, State.get_upd_ne _ _ hyi]
      refine ⟨fun i h => ?_, fun i h => ?_, fun i h => ?_, fun i h => ?_, fun i h => ?_⟩
      · rw [g]; split
        · rfl
        · exact h
      · rw [g]; split
        · rfl
        · exact h
      · rw [g]; split
        · rfl
        · exact h
      · rw [g] at h ⊢; split
        · exact .inr ⟨rfl, rfl⟩
        · next hn => rw [if_neg hn] at h; exact .inl h
      · rw [g] at h ⊢; split
        · exact .inr rfl
        · next hn => rw [if_neg hn] at h; exact .inl h
  · have h1 : FlagRel s (s.upd y fun n => { n with st := .dirty }) :=
      FlagRel.of_upd s y _ (fun _ => ⟨rfl, rfl, rfl⟩)
    exact h1.trans (foldl_flagRel _ (fun s x => markCheck_flag f s x) _ _)

/-- what `markDirty` does to a live effect -/
theorem markDirty_eff_flags (f : Nat) (s : State) (y : Nat) (hk : (s.get y).kind = .eff)
    (ha : (s.get y).alive = true) :
    ((markDirty f s y).get y).dirty = true ∧ ((markDirty f s y).get y).chan = true ∧
    ((markDirty f s y).get y).woken = true := by
  have hlt : y < s.nodes.length := s.lt_of_kind_ne (by rw [hk]; simp)
  unfold markDirty
  rw [hk]
  simp only [ha, Bool.not_true, Bool.false_eq_true, if_false]
  rw [notify_get, State.get_upd_same _ _ hlt]
  simp [ha, hlt]

/-! ## marking at top level reaches the effects (their `chan` flag) -/

def NewClosedE (s s' : State) : Prop :=
  ∀ x w, (s.get x).kind = .memo → (s.get x).st = .clean → (s'.get x).st ≠ .clean →
    w ∈ (s.get x).subs → (s.get w).kind = .eff → (s.get w).alive = true → (s'.get w).chan = true

theorem NewClosedE.refl (s : State) : NewClosedE s s := fun _ _ _ h1 h2 => absurd h1 h2

theorem NewClosedE.trans {s s1 s2 : State} (r1 : MarkRel s s1) (n1 : NewClosedE s s1)
    (f2 : FlagRel s1 s2) (n2 : NewClosedE s1 s2) : NewClosedE s s2 := by
  intro x w hk hc hnc hw hkw ha
  by_cases h1 : (s1.get x).st = .clean
  · exact n2 x w (by rw [r1.kind]; exact hk) h1 hnc (by rw [r1.subs]; exact hw)
      (by rw [r1.kind]; exact hkw) (by rw [(Node.core_life (r1.core w)).1]; exact ha)
  · exact f2.c w (n1 x w hk hc h1 hw hkw ha)

theorem foldl_markCE (g : State → Nat → State) (N : Nat) (P : Nat → Prop)
    (hrel : ∀ s x, MarkRel s (g s x)) (hflag : ∀ s x, FlagRel s (g s x))
    (hg : ∀ s x, SubsInc s → s.nodes.length = N → P x →
      NewClosedE s (g s x) ∧ ((s.get x).kind = .eff → (s.get x).alive = true → ((g s x).get x).chan = true)) :
    ∀ (l : List Nat) (s : State), SubsInc s → s.nodes.length = N → (∀ w ∈ l, P w) →
      NewClosedE s (l.foldl g s) ∧
      ∀ w ∈ l, (s.get w).kind = .eff → (s.get w).alive = true → ((l.foldl g s).get w).chan = true
  | [], s, _, _, _ => ⟨NewClosedE.refl s, fun _ h => by cases h⟩
  | x :: l, s, hi, hN, hl => by
    have h1 := hg s x hi hN (hl x List.mem_cons_self)
    have r1 := hrel s x
    have h2 := foldl_markCE g N P hrel hflag hg l (g s x) (hi.of_markRel r1) (r1.len.trans hN)
      (fun w hw => hl w (List.mem_cons_of_mem _ hw))
    have f2 : FlagRel (g s x) (l.foldl g (g s x)) := foldl_flagRel g hflag l (g s x)
    rw [List.foldl_cons]
    refine ⟨NewClosedE.trans r1 h1.1 f2 h2.1, ?_⟩
    intro w hw hk ha
    rcases List.mem_cons.1 hw with rfl | hw
    · exact f2.c w (h1.2 hk ha)
    · exact h2.2 w hw (by rw [r1.kind]; exact hk) (by rw [(Node.core_life (r1.core w)).1]; exact ha)

theorem notify_chan (s : State) (id : Nat) (ha : (s.get id).alive = true) (hlt : id < s.nodes.length) :
    ((notify s id).get id).chan = true := by
  rw [notify_get, if_pos ⟨ha, rfl, hlt⟩]

theorem markCheck_fullE : ∀ (f : Nat) (s : State) (y : Nat), SubsInc s → s.nodes.length ≤ y + f →
    NewClosedE s (markCheck f s y) ∧
    ((s.get y).kind = .eff → (s.get y).alive = true → ((markCheck f s y).get y).chan = true)
  | 0, s, y, _, hf => by
    refine ⟨NewClosedE.refl s, fun hk _ => ?_⟩
    have := s.lt_of_kind_ne (i := y) (by rw [hk]; simp)
    omega
  | f + 1, s, y, hi, hf => by
    unfold markCheck
    split
    · next hk => exact ⟨NewClosedE.refl s, fun h => by rw [hk] at h; cases h⟩
    · next hk =>
      have hlt : y < s.nodes.length := s.lt_of_kind_ne (by rw [hk]; simp)
      refine ⟨?_, fun _ ha => notify_chan s y ha hlt⟩
      intro x w _ hc hnc; rw [notify_st] at hnc; exact absurd hc hnc
    · next hk =>
      have hlt : y < s.nodes.length := s.lt_of_kind_ne (by rw [hk]; simp)
      generalize hs1 : (if (s.get y).st != .dirty then s.upd y fun n => { n with st := .check } else s) = s1
      have hr1 : MarkRel s s1 := by
        subst hs1
        split
        · next hd =>
          refine MarkRel.of_upd s y _ (fun _ => rfl) ?_ (fun h => absurd hk h)
          cases hs : (s.get y).st <;> simp_all [St.rank]
        · exact MarkRel.refl s
      have hoth : ∀ i, i ≠ y → (s1.get i).st = (s.get i).st := by
        intro i hi'
        subst hs1
        split
        · rw [State.get_upd_ne _ _ (Ne.symm hi')]
        · rfl
      have hi1 : SubsInc s1 := hi.of_markRel hr1
      have hfold := foldl_markCE (fun s x => markCheck f s x) s.nodes.length (fun w => s.nodes.length ≤ w + f)
        (fun s x => markCheck_rel f s x) (fun s x => markCheck_flag f s x)
        (fun s' x hi' hN hP => markCheck_fullE f s' x hi' (by rw [hN]; exact hP))
        (s1.get y).subs s1 hi1 hr1.len (by
          intro w hw
          have := hi1 y w hw
          omega)
      generalize (s1.get y).subs.foldl (fun s x => markCheck f s x) s1 = s2 at hfold
      obtain ⟨hc2, hall⟩ := hfold
      refine ⟨?_, fun h => by rw [hk] at h; cases h⟩
      intro x w hkx hcx hncx hw hkw ha
      by_cases hxy : x = y
      · subst hxy
        exact hall w (by rw [hr1.subs]; exact hw) (by rw [hr1.kind]; exact hkw)
          (by rw [(Node.core_life (hr1.core w)).1]; exact ha)
      · exact hc2 x w (by rw [hr1.kind]; exact hkx) (by rw [hoth x hxy]; exact hcx) hncx
          (by rw [hr1.subs]; exact hw) (by rw [hr1.kind]; exact hkw)
          (by rw [(Node.core_life (hr1.core w)).1]; exact ha)

theorem markDirty_fullE (f : Nat) (s : State) (y : Nat) (hi : SubsInc s) (hf : s.nodes.length ≤ f) :
    NewClosedE s (markDirty f s y) ∧
    ((s.get y).kind = .eff → (s.get y).alive = true →
      ((markDirty f s y).get y).dirty = true ∧ ((markDirty f s y).get y).chan = true) := by
  refine ⟨?_, fun hk ha => ⟨(markDirty_eff_flags f s y hk ha).1, (markDirty_eff_flags f s y hk ha).2.1⟩⟩
  unfold markDirty
  split
  · exact NewClosedE.refl s
  · split
    · exact NewClosedE.refl s
    · have key : ∀ i, ((notify (s.upd y fun n => { n with dirty := true }) y).get i).st = (s.get i).st := by
        intro i
        rw [notify_st, State.get_upd]; split
        · next hc => obtain ⟨rfl, _⟩ := hc; rfl
        · rfl
      intro x w _ hc hnc; rw [key] at hnc; exact absurd hc hnc
  · next hk =>
    have hlt : y < s.nodes.length := s.lt_of_kind_ne (by rw [hk]; simp)
    generalize hs1 : (s.upd y fun n => { n with st := .dirty }) = s1
    have hr1 : MarkRel s s1 := by
      subst hs1
      refine MarkRel.of_upd s y _ (fun _ => rfl) ?_ (fun h => absurd hk h)
      cases hs : (s.get y).st <;> simp [St.rank]
    have hoth : ∀ i, i ≠ y → (s1.get i).st = (s.get i).st := by
      intro i hi'; subst hs1; rw [State.get_upd_ne _ _ (Ne.symm hi')]
    have hi1 : SubsInc s1 := hi.of_markRel hr1
    have hfold := foldl_markCE (fun s x => markCheck f s x) s.nodes.length (fun _ => True)
      (fun s x => markCheck_rel f s x) (fun s x => markCheck_flag f s x)
      (fun s' x hi' hN _ => markCheck_fullE f s' x hi' (by rw [hN]; omega))
      (s1.get y).subs s1 hi1 hr1.len (fun _ _ => trivial)
    generalize (s1.get y).subs.foldl (fun s x => markCheck f s x) s1 = s2 at hfold
    obtain ⟨hc2, hall⟩ := hfold
    intro x w hkx hcx hncx hw hkw ha
    by_cases hxy : x = y
    · subst hxy
      exact hall w (by rw [hr1.subs]; exact hw) (by rw [hr1.kind]; exact hkw)
        (by rw [(Node.core_life (hr1.core w)).1]; exact ha)
    · exact hc2 x w (by rw [hr1.kind]; exact hkx) (by rw [hoth x hxy]; exact hcx) hncx
        (by rw [hr1.subs]; exact hw) (by rw [hr1.kind]; exact hkw)
        (by rw [(Node.core_life (hr1.core w)).1]; exact ha)

theorem foldl_markDE (f : Nat) : ∀ (l : List Nat) (s : State), SubsInc s → s.nodes.length ≤ f →
    NewClosedE s (l.foldl (fun s x => markDirty f s x) s) ∧
    ∀ w ∈ l, (s.get w).kind = .eff → (s.get w).alive = true →
      ((l.foldl (fun s x => markDirty f s x) s).get w).dirty = true
  | [], s, _, _ => ⟨NewClosedE.refl s, fun _ h => by cases h⟩
  | x :: l, s, hi, hf => by
    have h1 := markDirty_fullE f s x hi hf
    have r1 := markDirty_rel f s x
    have h2 := foldl_markDE f l (markDirty f s x) (hi.of_markRel r1) (by rw [r1.len]; exact hf)
    have f2 : FlagRel (markDirty f s x) (l.foldl (fun s x => markDirty f s x) (markDirty f s x)) :=
      foldl_flagRel _ (fun s x => markDirty_flag f s x) l _
    rw [List.foldl_cons]
    refine ⟨NewClosedE.trans r1 h1.1 f2 h2.1, ?_⟩
    intro w hw hk ha
    rcases List.mem_cons.1 hw with rfl | hw
    · exact f2.d w (h1.2 hk ha).1
    · exact h2.2 w hw (by rw [r1.kind]; exact hk) (by rw [(Node.core_life (r1.core w)).1]; exact ha)

end Leptos.Reactive
