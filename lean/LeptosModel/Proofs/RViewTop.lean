import LeptosModel.Proofs.RViewZ
/-!
# Proofs/RViewTop — the invariant of every history for views of the core fragment (nested `either`)
-/
namespace Leptos.RView
open Leptos.Reactive

/-- the mounted tree `t` with the zombies around it -/
structure InvT (K : Nat) (v : View) (st : St) (t : RState) : Prop where
  root : st.root = some t
  good : Good K st v t
  uniq : ∀ x, (effsOf t).count x + (zEffs st.zombies).count x ≤ 1
  tasks : ∀ e ∈ st.tasks, (st.rs.get e).done = true ∨ e ∈ effsOf t ∨ e ∈ zEffs st.zombies

structure InvC (K : Nat) (v : View) (st : St) : Prop where
  rinv : RInv K st
  tree : ∃ t, InvT K v st t
  zok : ∀ z ∈ st.zombies, ∀ h, z.2 = some h → ZTree K st h
  zdead : ∀ z ∈ st.zombies, (st.rs.get z.1).alive = false
  zb : ∀ z ∈ st.zombies, K ≤ z.1 ∧ z.1 < st.prog.length

theorem zEffs_bound {K : Nat} {st : St} {zs : List (Nat × Option RState)}
    (hzb : ∀ z ∈ zs, K ≤ z.1 ∧ z.1 < st.prog.length) (hzok : ∀ z ∈ zs, ∀ h, z.2 = some h → ZTree K st h) :
    ∀ x ∈ zEffs zs, K ≤ x ∧ x < st.prog.length := by
  intro x hx
  simp only [zEffs, List.mem_flatMap, List.mem_cons] at hx
  obtain ⟨z, hz, hx⟩ := hx
  rcases hx with hx | hx
  · rw [hx]; exact hzb z hz
  · cases hh : z.2 with
    | none => rw [hh] at hx; simp [optEffs] at hx
    | some h =>
      rw [hh] at hx
      exact GoodP.bound _ h (hzok z hz h hh).good x (by simpa [optEffs] using hx)

theorem mem_zEffs_entry {zs : List (Nat × Option RState)} {z : Nat × Option RState} (hz : z ∈ zs) :
    z.1 ∈ zEffs zs := by
  simp only [zEffs, List.mem_flatMap]
  exact ⟨z, hz, by simp⟩

theorem mem_zEffs_held {zs : List (Nat × Option RState)} {z : Nat × Option RState} (hz : z ∈ zs) {h : RState}
    (hh : z.2 = some h) {x : Nat} (hx : x ∈ effsOf h) : x ∈ zEffs zs := by
  simp only [zEffs, List.mem_flatMap]
  exact ⟨z, hz, List.mem_cons_of_mem _ (by rw [hh]; simpa [optEffs] using hx)⟩

/-- the node of the re-run effect stays in the tree -/
theorem rerunIn_keeps (e : Nat) (w : Int) : ∀ (t : RState) (st : St), e ∈ effsOf t →
    e ∈ effsOf (rerunIn e w t st).1 := by
  intro t
  induction t with
  | text n s => intro st h; simp [effsOf] at h
  | unit n => intro st h; simp [effsOf] at h
  | elem n tag as kid ih =>
    intro st h
    simp only [effsOf, List.mem_append] at h
    simp only [rerunIn, effsOf, List.mem_append, rerunAttrs_effs]
    rcases h with h | h
    · exact Or.inl h
    · exact Or.inr (ih st h)
  | seq a b iha ihb =>
    intro st h
    simp only [effsOf, List.mem_append] at h
    simp only [rerunIn, effsOf, List.mem_append]
    rcases h with h | h
    · exact Or.inl (iha st h)
    · exact Or.inr (ihb _ h)
  | dynText e' x n last =>
    intro st h
    simp only [rerunIn]; split <;> exact h
  | either e' c a b left inner ih =>
    intro st h
    simp only [effsOf, List.mem_cons] at h
    simp only [rerunIn]
    split
    · next he => split <;> simp [effsOf, he]
    · next he =>
      rcases h with h | h
      · exact absurd h.symm he
      · simp only [effsOf, List.mem_cons]; exact Or.inr (ih st h)
  | «show» e' m c a b left inner ih =>
    intro st h
    simp only [effsOf, List.mem_cons] at h
    simp only [rerunIn]
    split
    · next he => split <;> simp [effsOf, he]
    · next he =>
      rcases h with h | h
      · exact absurd h.symm he
      · simp only [effsOf, List.mem_cons]; exact Or.inr (ih st h)
  | forK e' sel lists ks texts =>
    intro st h
    simp only [rerunIn]; split <;> exact h
  | scope m sid isSig inner ih =>
    intro st h
    simp only [effsOf] at h
    simp only [rerunIn, effsOf]
    exact ih st h
  | rows e' en sel lists row ks items ih =>
    intro st h
    simp only [effsOf, List.mem_cons] at h
    simp only [rerunIn]
    split
    · next he => simp [effsOf, he]
    · next he =>
      rcases h with h | h
      · exact absurd h.symm he
      · simp only [effsOf, List.mem_cons]; exact Or.inr (ih st h)
  | rowCons k ix r rest ihr ihrest =>
    intro st h
    simp only [effsOf, List.mem_append] at h
    simp only [rerunIn, effsOf, List.mem_append]
    rcases h with h | h
    · exact Or.inl (ihr st h)
    · exact Or.inr (ihrest _ h)
  | rowNil => intro st h; simp [effsOf] at h
  | errb e' m s fb kid ih =>
    intro st h
    simp only [effsOf, List.mem_cons] at h
    simp only [rerunIn]
    split
    · next he => subst he; split <;> split <;> simp [effsOf]
    · next he =>
      rcases h with h | h
      · exact absurd h.symm he
      · simp only [effsOf, List.mem_cons, underHook]; exact Or.inr (ih _ h)
  | res e' c x n last hook =>
    intro st h
    simp only [rerunIn]
    split
    · next he => subst he; split <;> simp [effsOf]
    · exact h
  | hooked hk inner ih =>
    intro st h
    simp only [effsOf] at h
    simp only [rerunIn, effsOf, underHook]
    exact ih _ h
  | errTok s => intro st h; simp [effsOf] at h

/-- effects other than the acting one keep their `EffOK` -/
theorem Good.acts {K : Nat} {st : St} {v : View} {t : RState} (hg : Good K st v t) (hi : RInv K st) {e : Nat}
    {rs' : State} (ha : Acts e st.rs rs') (hne : e ∉ effsOf t) (hke : K ≤ e) : Good K { st with rs := rs' } v t :=
  Good.map v t hg (fun e' _ _ he' hk => hk.acts hi ha (fun hh => hne (hh ▸ he')) hke)


theorem ZTree.of_prog {K : Nat} {st st' : St} {h : RState} (hz : ZTree K st h) (hp : st'.prog = st.prog) :
    ZTree K st' h :=
  ⟨GoodP.map _ _ hz.good (fun _ _ _ _ hw => by unfold EffWf at hw ⊢; rw [hp]; exact hw), hz.wf, hz.core⟩

theorem InvC.setSig {K : Nat} {v : View} {st : St} (h : InvC K v st) (id : Nat) (w : Int) :
    InvC K v (RView.setSig st id w) := by
  obtain ⟨t, ht⟩ := h.tree
  have halive : ∀ i, ((RView.setSig st id w).rs.get i).done = (st.rs.get i).done ∧
      (K ≤ i → ((RView.setSig st id w).rs.get i).alive = (st.rs.get i).alive) := by
    intro i
    rcases Nat.lt_or_ge id K with hid | hid
    · have g := setSig_get h.rinv hid w
      rw [g.2.2 i]
      by_cases hii : i = id
      · subst hii; rw [if_pos rfl]; exact ⟨rfl, fun hk => by omega⟩
      · simp only [hii, if_false]
        split
        · exact ⟨wake_done _, fun _ => wake_alive _⟩
        · exact ⟨rfl, fun _ => rfl⟩
    · rw [setSig_noop h.rinv hid w]; exact ⟨rfl, fun _ => rfl⟩
  refine ⟨setSig_inv h.rinv id w, ⟨t, ht.root, Good.after_set h.rinv v t ht.good id w, ht.uniq, ?_⟩,
    fun z hz hh hhh => (h.zok z hz hh hhh).of_prog rfl, ?_, h.zb⟩
  · intro e he
    rcases ht.tasks e he with hd | hd
    · exact Or.inl (by rw [(halive e).1]; exact hd)
    · exact Or.inr hd
  · intro z hz
    rw [(halive z.1).2 (h.zb z hz).1]; exact h.zdead z hz


/-- a notification-flag update of an effect -/
def FlagOnly (g : Node → Node) : Prop :=
  ∀ n, (g n).kind = n.kind ∧ (g n).val = n.val ∧ (g n).dirty = n.dirty ∧ (g n).alive = n.alive ∧
    (g n).done = n.done ∧ (g n).subs = n.subs ∧ (g n).sources = n.sources

theorem EffOK.flags {K : Nat} {st : St} {e : Nat} {x : Expr} {cur : Int → Prop} (hok : EffOK K st e x cur)
    (hi : RInv K st) {g : Node → Node} (hg : FlagOnly g) (hd : (st.rs.get e).dirty = false) :
    EffOK K { st with rs := st.rs.upd e g } e x cur := by
  have hlt' : e < st.rs.nodes.length := by rw [← hi.len]; exact hok.lt
  have hge : (st.rs.upd e g).get e = g (st.rs.get e) := State.get_upd_same _ _ hlt'
  have henv : Reactive.envOf (st.rs.upd e g) = Reactive.envOf st.rs := by
    funext i
    simp only [Reactive.envOf]
    rw [State.get_upd]; split
    · next hh => obtain ⟨rfl, _⟩ := hh; rw [(hg _).2.1]
    · rfl
  refine ⟨hok.ke, hok.lt, hok.prog, ?_, ?_, hok.task, Or.inr ⟨?_, ?_, ?_⟩⟩
  · show ((st.rs.upd e g).get e).alive = true; rw [hge, (hg _).2.2.2.1]; exact hok.alive
  · show ((st.rs.upd e g).get e).done = false; rw [hge, (hg _).2.2.2.2.1]; exact hok.done
  · show ((st.rs.upd e g).get e).dirty = false; rw [hge, (hg _).2.2.1]; exact hd
  · show cur (evalPure (Reactive.envOf (st.rs.upd e g)) x)
    rw [henv]
    rcases hok.ok with hp | hc
    · rw [hp.1] at hd; cases hd
    · exact hc.2.1
  · intro i hr
    have hr' : i ∈ readsU (Reactive.envOf (st.rs.upd e g)) x := hr
    rw [henv] at hr'
    show e ∈ ((st.rs.upd e g).get i).subs
    rcases hok.ok with hp | hc
    · rw [hp.1] at hd; cases hd
    · rw [State.get_upd]; split
      · next hh => obtain ⟨rfl, _⟩ := hh; rw [(hg _).2.2.2.2.2.1]; exact hc.2.2 _ hr'
      · exact hc.2.2 i hr'

theorem RInv.flags {K : Nat} {st : St} (hi : RInv K st) {e : Nat} {g : Node → Node} (hg : FlagOnly g)
    (hke : K ≤ e) (hlt : e < st.prog.length) : RInv K { st with rs := st.rs.upd e g } := by
  have hlt' : e < st.rs.nodes.length := by rw [← hi.len]; exact hlt
  have ha : Acts e st.rs (st.rs.upd e g) := Acts.of_upd _ e g (fun n => (hg n).2.2.2.2.2.1)
  have hge : (st.rs.upd e g).get e = g (st.rs.get e) := State.get_upd_same _ _ hlt'
  exact hi.acts ha hke hlt (by rw [hge, (hg _).1]; exact hi.effk e hke hlt)
      (by intro x hx; rw [hge, (hg _).2.2.2.2.2.2] at hx; exact hi.srcs e hke x hx)
      (by
        intro i; rw [State.get_upd]; split
        · rw [(hg _).2.2.2.2.2.1]; exact hi.nd i
        · exact hi.nd i)
      (by
        intro i hm
        rw [hge, (hg _).2.2.2.2.2.2]
        rw [State.get_upd] at hm; split at hm
        · rw [(hg _).2.2.2.2.2.1] at hm; exact hi.exact i e hm
        · exact hi.exact i e hm)

/-- notification flags of an effect that is not dirty (if mounted) are cleared: the invariant stays -/
theorem InvC.flags {K : Nat} {v : View} {st : St} (h : InvC K v st) {e : Nat} {g : Node → Node}
    (hg : FlagOnly g) (hke : K ≤ e) (hlt : e < st.prog.length)
    (hd : ∀ t, st.root = some t → e ∈ effsOf t → (st.rs.get e).dirty = false) :
    InvC K v { st with rs := st.rs.upd e g } := by
  obtain ⟨t, ht⟩ := h.tree
  have ha : Acts e st.rs (st.rs.upd e g) := Acts.of_upd _ e g (fun n => (hg n).2.2.2.2.2.1)
  have hfield : ∀ i, ((st.rs.upd e g).get i).alive = (st.rs.get i).alive ∧
      ((st.rs.upd e g).get i).done = (st.rs.get i).done := by
    intro i; rw [State.get_upd]; split
    · exact ⟨(hg _).2.2.2.1, (hg _).2.2.2.2.1⟩
    · exact ⟨rfl, rfl⟩
  refine ⟨h.rinv.flags hg hke hlt, ⟨t, ht.root, ?_, ht.uniq, ?_⟩,
    fun z hz hh hhh => (h.zok z hz hh hhh).of_prog rfl, ?_, h.zb⟩
  · refine Good.map v t ht.good ?_
    intro e' x cur he' hok
    by_cases hee : e' = e
    · subst hee; exact hok.flags h.rinv hg (hd t ht.root he')
    · exact hok.acts h.rinv ha hee hke
  · intro x hx
    rcases ht.tasks x hx with hd' | hd'
    · exact Or.inl (by show ((st.rs.upd e g).get x).done = true; rw [(hfield x).2]; exact hd')
    · exact Or.inr hd'
  · intro z hz
    show ((st.rs.upd e g).get z.1).alive = false
    rw [(hfield z.1).1]; exact h.zdead z hz


/-- the state after the root pass of `rerun` -/
def afterRoot (st : St) (e : Nat) (w : Int) (t : RState) : St :=
  { (rerunIn e w t { st with root := none }).2.1 with
    root := some (rerunIn e w t { st with root := none }).1,
    rootN := ⟨(rerunIn e w t { st with root := none }).2.1.rootN.id,
      (rerunIn e w t { st with root := none }).2.1.rootN.muts + (rerunIn e w t { st with root := none }).2.2⟩ }

/-- the zombie pass of `rerun` -/
def zpass (s1 : St) (e : Nat) (w : Int) : St :=
  { (rerunZombies e w s1.zombies { s1 with zombies := [] }).2 with
    zombies := (rerunZombies e w s1.zombies { s1 with zombies := [] }).1 ++
      (rerunZombies e w s1.zombies { s1 with zombies := [] }).2.zombies }

theorem rerun_some (st : St) (e : Nat) (w : Int) (t : RState) (h : st.root = some t) :
    rerun st e w = zpass (afterRoot st e w t) e w := by
  unfold rerun
  simp only [h]
  rfl


/-- what the run of effect `e` left in the reactive state, relative to the state before the poll -/
structure RanAt (K : Nat) (st : St) (e : Nat) (x : Expr) (rs' : State) : Prop where
  acts : Acts e st.rs rs'
  kind : (rs'.get e).kind = .eff
  dirty : (rs'.get e).dirty = false
  chan : (rs'.get e).chan = false
  alive : (rs'.get e).alive = (st.rs.get e).alive
  done : (rs'.get e).done = (st.rs.get e).done
  subd : ∀ i ∈ readsU (Reactive.envOf st.rs) x, e ∈ (rs'.get i).subs
  srcs : (rs'.get e).sources = readsU (Reactive.envOf st.rs) x
  nodup : ∀ i, (rs'.get i).subs.Nodup
  only : ∀ i, e ∈ (rs'.get i).subs → i ∈ readsU (Reactive.envOf st.rs) x

theorem RanAt.rinv {K : Nat} {st : St} {e : Nat} {x : Expr} {rs' : State} (ra : RanAt K st e x rs')
    (hi : RInv K st) (hke : K ≤ e) (hlt : e < st.prog.length) (hs : sigOnly K x = true) :
    RInv K { st with rs := rs' } :=
  hi.acts ra.acts hke hlt ra.kind (by
    intro y hy; rw [ra.srcs] at hy
    simp only [sigOnly, Bool.and_eq_true] at hs
    exact readsU_below x hs.1.1 y hy) ra.nodup (by intro i hm; rw [ra.srcs]; exact ra.only i hm)

theorem zEffs_mem_append {a b : List (Nat × Option RState)} {x : Nat} :
    x ∈ zEffs (a ++ b) ↔ x ∈ zEffs a ∨ x ∈ zEffs b := by
  rw [zEffs_append, List.mem_append]

theorem done_lt {s : State} {x : Nat} (h : (s.get x).done = true) : x < s.nodes.length := by
  rcases Nat.lt_or_ge x s.nodes.length with hl | hl
  · exact hl
  · rw [State.get_default s hl] at h; cases h

/-- the invariant after the root pass of the re-run of a MOUNTED effect -/
theorem InvC.of_rerun {K : Nat} {v : View} {st : St} (h : InvC K v st) {t : RState} (ht : InvT K v st t)
    {e : Nat} (he : e ∈ effsOf t) {x : Expr} {rs' : State} (ra : RanAt K st e x rs') {s0 s1 : St}
    (hp0 : s0.prog = st.prog) (hr0 : s0.rs = rs') (ht0 : s0.tasks = st.tasks) (hz0 : s0.zombies = st.zombies)
    {t' : RState} (hr : Rerun K (EffOK K) s0 t v t' s1) (hkeep : e ∈ effsOf t') {F : St}
    (hFp : F.prog = s1.prog) (hFr : F.rs = s1.rs) (hFt : F.tasks = s1.tasks) (hFroot : F.root = some t')
    (hFz : F.zombies = st.zombies ++ newZ s0 s1) : InvC K v F := by
  have hzbound := zEffs_bound h.zb h.zok
  have hlen0 : s0.prog.length = st.prog.length := by rw [hp0]
  have hcnt_t : ∀ y, y ∈ effsOf t → (zEffs st.zombies).count y = 0 := by
    intro y hy
    have := ht.uniq y
    have : 1 ≤ (effsOf t).count y := List.one_le_count_iff.2 hy
    omega
  have hcnt_z : ∀ y, y ∈ zEffs st.zombies → (effsOf t).count y = 0 := by
    intro y hy
    have := ht.uniq y
    have : 1 ≤ (zEffs st.zombies).count y := List.one_le_count_iff.2 hy
    omega
  -- effects of old zombies are not acted on by the root pass
  have hnotA : ∀ y, y ∈ zEffs st.zombies → y ∉ zEffs (newZ s0 s1) := by
    intro y hy hm
    have hb := (hzbound y hy).2
    have h1 := hr.cnt y (by omega)
    have h2 := hcnt_z y hy
    have : 1 ≤ (zEffs (newZ s0 s1)).count y := List.one_le_count_iff.2 hm
    omega
  have hne_z : ∀ z ∈ st.zombies, z.1 ≠ e := by
    intro z hz hh
    have h1 := hcnt_t e he
    have : 1 ≤ (zEffs st.zombies).count e := List.one_le_count_iff.2 (hh ▸ mem_zEffs_entry hz)
    omega
  refine ⟨hr.inv.of_rs_prog hFp hFr, ⟨t', hFroot, ?_, ?_, ?_⟩, ?_, ?_, ?_⟩
  · exact Good.map v t' ((good_iff v t').2 hr.good) (fun _ _ _ _ hk => hk.congr hFp hFr hFt)
  · intro y
    rw [hFz, zEffs_append, List.count_append]
    rcases Nat.lt_or_ge y s0.prog.length with hl | hl
    · have := hr.cnt y hl; have := ht.uniq y; omega
    · have hf := hr.fresh y hl
      have hz0' : (zEffs st.zombies).count y = 0 := by
        rw [List.count_eq_zero]; intro hm; have := (hzbound y hm).2; omega
      omega
  · intro y hy
    rw [hFt] at hy
    rw [hFr, hFz]
    rcases hr.tasks y hy with hy' | hy'
    · rw [ht0] at hy'
      rcases ht.tasks y hy' with hd | hd | hd
      · by_cases hye : y = e
        · subst hye; exact Or.inr (Or.inl hkeep)
        · by_cases hA : y ∈ zEffs (newZ s0 s1)
          · exact Or.inr (Or.inr (zEffs_mem_append.2 (Or.inr hA)))
          · left
            have hylt : y < st.prog.length := by rw [h.rinv.len]; exact done_lt hd
            have c1 := ra.acts.ctl y hye
            have c2 := hr.ext.ctl y (by omega) hA
            rw [hr0] at c2
            simp only [RView.ctl, Prod.mk.injEq] at c1 c2
            rw [c2.2.2.2.2.2.2.2.2.2, c1.2.2.2.2.2.2.2.2.2]; exact hd
      · have hylt : y < s0.prog.length := by
          obtain ⟨_, _, hk⟩ := Good.effOK v t ht.good y hd
          rw [hlen0]; exact hk.lt
        have h1 := hr.cnt y hylt
        have h2 : 1 ≤ (effsOf t).count y := List.one_le_count_iff.2 hd
        by_cases hin : y ∈ effsOf t'
        · exact Or.inr (Or.inl hin)
        · have : (effsOf t').count y = 0 := List.count_eq_zero.2 hin
          have : 1 ≤ (zEffs (newZ s0 s1)).count y := by omega
          exact Or.inr (Or.inr (zEffs_mem_append.2 (Or.inr (List.one_le_count_iff.1 this))))
      · exact Or.inr (Or.inr (zEffs_mem_append.2 (Or.inl hd)))
    · exact Or.inr (Or.inl hy')
  · intro z hz hh hhh
    rw [hFz] at hz
    rcases List.mem_append.1 hz with hz | hz
    · exact (((h.zok z hz hh hhh).of_prog hp0).ext hr.ext).of_prog hFp
    · exact (hr.zok z hz hh hhh).of_prog hFp
  · intro z hz
    rw [hFz] at hz
    rw [hFr]
    rcases List.mem_append.1 hz with hz | hz
    · have c1 := ra.acts.ctl z.1 (hne_z z hz)
      have c2 := hr.ext.ctl z.1 (by rw [hlen0]; exact (h.zb z hz).2) (hnotA z.1 (mem_zEffs_entry hz))
      rw [hr0] at c2
      simp only [RView.ctl, Prod.mk.injEq] at c1 c2
      rw [c2.2.2.2.2.2.2.2.2.1, c1.2.2.2.2.2.2.2.2.1]; exact h.zdead z hz
    · exact hr.zdead z hz
  · intro z hz
    rw [hFz] at hz
    rw [hFp]
    have hle := hr.ext.len_le
    rcases List.mem_append.1 hz with hz | hz
    · have := h.zb z hz; exact ⟨this.1, by omega⟩
    · have hm : z.1 ∈ zEffs (newZ s0 s1) := mem_zEffs_entry hz
      have h1 : 1 ≤ (zEffs (newZ s0 s1)).count z.1 := List.one_le_count_iff.2 hm
      rcases Nat.lt_or_ge z.1 s0.prog.length with hl | hl
      · have h2 := hr.cnt z.1 hl
        have : 1 ≤ (effsOf t).count z.1 := by omega
        obtain ⟨_, _, hk⟩ := Good.effOK v t ht.good z.1 (List.one_le_count_iff.1 this)
        exact ⟨hk.ke, by omega⟩
      · have := (hr.fresh z.1 hl).2.1; omega


theorem mem_map_fst_of_ids {zs zs' : List (Nat × Option RState)} (hids : zs'.map (·.1) = zs.map (·.1))
    {z : Nat × Option RState} (hz : z ∈ zs') : ∃ z0 ∈ zs, z0.1 = z.1 := by
  have : z.1 ∈ zs'.map (·.1) := List.mem_map.2 ⟨z, hz, rfl⟩
  rw [hids] at this
  obtain ⟨z0, hz0, h0⟩ := List.mem_map.1 this
  exact ⟨z0, hz0, h0⟩

/-- the invariant after the zombie pass of the re-run of an effect that lives in a zombie-held tree -/
theorem InvC.of_zrerun {K : Nat} {v : View} {st : St} (h : InvC K v st) {t : RState} (ht : InvT K v st t)
    {e : Nat} (he : e ∉ effsOf t) (hke : K ≤ e) (hlt : e < st.prog.length)
    (healive : (st.rs.get e).alive = true) (hedone : (st.rs.get e).done = false)
    {x : Expr} (hs : sigOnly K x = true) {rs' : State}
    (ra : RanAt K st e x rs') {sZ s' : St}
    (hp0 : sZ.prog = st.prog) (hr0 : sZ.rs = rs') (ht0 : sZ.tasks = st.tasks)
    {zs' : List (Nat × Option RState)} (hz : ZRes K sZ st.zombies zs' s') {F : St}
    (hFp : F.prog = s'.prog) (hFr : F.rs = s'.rs) (hFt : F.tasks = s'.tasks) (hFroot : F.root = some t)
    (hFz : F.zombies = zs' ++ newZ sZ s') : InvC K v F := by
  have hzbound := zEffs_bound h.zb h.zok
  have hlen0 : sZ.prog.length = st.prog.length := by rw [hp0]
  have hcnt_t : ∀ y, y ∈ effsOf t → (zEffs st.zombies).count y = 0 := by
    intro y hy
    have := ht.uniq y
    have : 1 ≤ (effsOf t).count y := List.one_le_count_iff.2 hy
    omega
  have htb : ∀ y ∈ effsOf t, K ≤ y ∧ y < st.prog.length := by
    intro y hy
    obtain ⟨_, _, hk⟩ := Good.effOK v t ht.good y hy
    exact ⟨hk.ke, hk.lt⟩
  have hnotA : ∀ y, y ∈ effsOf t → y ∉ zEffs (newZ sZ s') := by
    intro y hy hm
    have h1 := hz.cnt y (by rw [hlen0]; exact (htb y hy).2)
    have h2 := hcnt_t y hy
    have : 1 ≤ (zEffs (newZ sZ s')).count y := List.one_le_count_iff.2 hm
    omega
  have hiB : RInv K { st with rs := rs' } := ra.rinv h.rinv hke hlt hs
  have hiZ : RInv K sZ := hiB.of_rs_prog hp0 hr0
  -- an entry id is dead, `e` is alive
  have hne_z : ∀ z ∈ st.zombies, z.1 ≠ e := by
    intro z hz' hh
    have := h.zdead z hz'
    rw [hh, healive] at this; cases this
  refine ⟨hz.inv.of_rs_prog hFp hFr, ⟨t, hFroot, ?_, ?_, ?_⟩, ?_, ?_, ?_⟩
  · have g1 : Good K { st with rs := rs' } v t := ht.good.acts h.rinv ra.acts he hke
    have g2 : Good K sZ v t := Good.map v t g1 (fun _ _ _ _ hk => hk.congr hp0 hr0 ht0)
    exact Good.map v t (Good.ext hiZ hz.ext v t g2 (fun y hy => hnotA y hy))
      (fun _ _ _ _ hk => hk.congr hFp hFr hFt)
  · intro y
    rw [hFz, zEffs_append, List.count_append]
    rcases Nat.lt_or_ge y sZ.prog.length with hl | hl
    · have := hz.cnt y hl; have := ht.uniq y; omega
    · have hf := hz.fresh y hl
      have ht0' : (effsOf t).count y = 0 := by
        rw [List.count_eq_zero]; intro hm; have := (htb y hm).2; omega
      omega
  · intro y hy
    rw [hFt] at hy
    rw [hFr, hFz]
    rcases hz.tasks y hy with hy' | hy'
    · rw [ht0] at hy'
      have hcase : ∀ (hd : y ∈ zEffs st.zombies), y ∈ zEffs (zs' ++ newZ sZ s') := by
        intro hd
        have hl : y < sZ.prog.length := by rw [hlen0]; exact (hzbound y hd).2
        have h1 := hz.cnt y hl
        have h2 : 1 ≤ (zEffs st.zombies).count y := List.one_le_count_iff.2 hd
        by_cases hin : y ∈ zEffs zs'
        · exact zEffs_mem_append.2 (Or.inl hin)
        · have : (zEffs zs').count y = 0 := List.count_eq_zero.2 hin
          have : 1 ≤ (zEffs (newZ sZ s')).count y := by omega
          exact zEffs_mem_append.2 (Or.inr (List.one_le_count_iff.1 this))
      rcases ht.tasks y hy' with hd | hd | hd
      · have hye : y ≠ e := by intro hh; rw [hh, hedone] at hd; cases hd
        by_cases hA : y ∈ zEffs (newZ sZ s')
        · exact Or.inr (Or.inr (zEffs_mem_append.2 (Or.inr hA)))
        · left
          have hylt : y < st.prog.length := by rw [h.rinv.len]; exact done_lt hd
          have c1 := ra.acts.ctl y hye
          have c2 := hz.ext.ctl y (by omega) hA
          rw [hr0] at c2
          simp only [RView.ctl, Prod.mk.injEq] at c1 c2
          rw [c2.2.2.2.2.2.2.2.2.2, c1.2.2.2.2.2.2.2.2.2]; exact hd
      · exact Or.inr (Or.inl hd)
      · exact Or.inr (Or.inr (hcase hd))
    · exact Or.inr (Or.inr (zEffs_mem_append.2 (Or.inl hy')))
  · intro z hz' hh hhh
    rw [hFz] at hz'
    rcases List.mem_append.1 hz' with hz' | hz'
    · exact (hz.zok' z hz' hh hhh).of_prog hFp
    · exact (hz.zok z hz' hh hhh).of_prog hFp
  · intro z hz'
    rw [hFz] at hz'
    rw [hFr]
    rcases List.mem_append.1 hz' with hz' | hz'
    · obtain ⟨z0, hz0, h0⟩ := mem_map_fst_of_ids hz.ids hz'
      have hzlt : z.1 < sZ.prog.length := by rw [hlen0, ← h0]; exact (h.zb z0 hz0).2
      have hnA : z.1 ∉ zEffs (newZ sZ s') := by
        intro hm
        have h1 := hz.cnt z.1 hzlt
        have h2 : 1 ≤ (zEffs zs').count z.1 := List.one_le_count_iff.2 (mem_zEffs_entry hz')
        have h3 : 1 ≤ (zEffs (newZ sZ s')).count z.1 := List.one_le_count_iff.2 hm
        have h4 := ht.uniq z.1
        omega
      have c1 := ra.acts.ctl z.1 (by rw [← h0]; exact hne_z z0 hz0)
      have c2 := hz.ext.ctl z.1 hzlt hnA
      rw [hr0] at c2
      simp only [RView.ctl, Prod.mk.injEq] at c1 c2
      rw [c2.2.2.2.2.2.2.2.2.1, c1.2.2.2.2.2.2.2.2.1, ← h0]; exact h.zdead z0 hz0
    · exact hz.zdead z hz'
  · intro z hz'
    rw [hFz] at hz'
    rw [hFp]
    have hle := hz.ext.len_le
    rcases List.mem_append.1 hz' with hz' | hz'
    · obtain ⟨z0, hz0, h0⟩ := mem_map_fst_of_ids hz.ids hz'
      have := h.zb z0 hz0
      rw [← h0]; exact ⟨this.1, by omega⟩
    · have hm : z.1 ∈ zEffs (newZ sZ s') := mem_zEffs_entry hz'
      have h1 : 1 ≤ (zEffs (newZ sZ s')).count z.1 := List.one_le_count_iff.2 hm
      rcases Nat.lt_or_ge z.1 sZ.prog.length with hl | hl
      · have h2 := hz.cnt z.1 hl
        have : 1 ≤ (zEffs st.zombies).count z.1 := by omega
        have := hzbound z.1 (List.one_le_count_iff.1 this)
        exact ⟨this.1, by omega⟩
      · have := (hz.fresh z.1 hl).2.1; omega


/-! ## a finished task lets go of what it held -/

def heldOf (z : Nat × Option RState) : List (Nat × Option RState) :=
  match z.2 with
  | some t => t.held
  | none => []

theorem dropAll_append (s : St) (a b : List (Nat × Option RState)) :
    dropAll s (a ++ b) = dropAll (dropAll s a) b := by
  simp [dropAll, List.foldl_append]

/-- the trees the zombies hold contain no component-local state (true of every state of a view of the
theorems' class) -/
def NoLoc (zs : List (Nat × Option RState)) : Prop :=
  ∀ z ∈ zs, ∀ t, z.2 = some t → t.locals = [] ∧ t.plain = true

theorem release_fold (mine : List (Nat × Option RState)) : NoLoc mine → ∀ (s : St),
    mine.foldl (fun st z => match z.2 with | some t => dropState (clearTok st t) t | none => st) s =
      dropAll s (mine.flatMap heldOf) := by
  induction mine with
  | nil => intro _ s; simp [dropAll]
  | cons z rest ih =>
    intro hl s
    simp only [List.foldl_cons, List.flatMap_cons, dropAll_append]
    rw [ih (fun z' hz' => hl z' (List.mem_cons_of_mem _ hz'))]
    congr 1
    cases hz : z.2 with
    | none => simp [heldOf, hz, dropAll]
    | some t =>
      simp [heldOf, hz, dropState_eq (hl z (by simp) t hz).1, clearTok_plain _ (hl z (by simp) t hz).2]

theorem releaseZombie_eq (st : St) (e : Nat) (hl : NoLoc st.zombies) :
    releaseZombie st e =
      dropAll { st with zombies := st.zombies.filter fun z => !(z.1 == e) }
        ((st.zombies.filter fun z => z.1 == e).flatMap heldOf) := by
  unfold releaseZombie
  exact release_fold _ (fun z hz => hl z (List.mem_filter.1 hz).1) _

theorem InvC.noLoc {K : Nat} {v : View} {st : St} (h : InvC K v st) : NoLoc st.zombies :=
  fun z hz t ht => ⟨GoodP.locals_nil _ t (h.zok z hz t ht).good, GoodP.plain _ t (h.zok z hz t ht).good⟩

theorem zEffs_heldOf (l : List (Nat × Option RState)) :
    zEffs (l.flatMap heldOf) = l.flatMap fun z => optEffs z.2 := by
  induction l with
  | nil => rfl
  | cons z rest ih =>
    simp only [List.flatMap_cons, zEffs_append, ih]
    congr 1
    cases hz : z.2 with
    | none => simp [heldOf, hz, optEffs, zEffs]
    | some t => simp [heldOf, hz, optEffs, zEffs_held]

/-- splitting the zombies by a predicate on the entry id splits their effects -/
theorem zEffs_filter_count (p : Nat × Option RState → Bool) (y : Nat) : ∀ (zs : List (Nat × Option RState)),
    (zEffs (zs.filter p)).count y + (zEffs (zs.filter fun z => !p z)).count y = (zEffs zs).count y
  | [] => by simp [zEffs]
  | z :: rest => by
    have ih := zEffs_filter_count p y rest
    by_cases hp : p z = true
    · simp only [List.filter_cons, hp, if_true, Bool.not_true, Bool.false_eq_true, if_false]
      rw [zEffs_cons, zEffs_cons]; simp only [List.count_append]; omega
    · have hp' : p z = false := by simpa using hp
      simp only [List.filter_cons, hp', Bool.false_eq_true, if_false, Bool.not_false, if_true]
      rw [zEffs_cons, zEffs_cons]; simp only [List.count_append]; omega

theorem zEffs_ids_count (l : List (Nat × Option RState)) (y : Nat) :
    (zEffs l).count y = (l.map (·.1)).count y + (l.flatMap fun z => optEffs z.2).count y := by
  induction l with
  | nil => simp [zEffs]
  | cons z rest ih =>
    rw [zEffs_cons]
    simp only [List.count_append, List.count_cons, List.map_cons, List.flatMap_cons, ih]
    omega


theorem killed_alive_le (n : Node) (h : n.alive = false) : (killed n).alive = false := by
  unfold killed; split
  · rfl
  · exact h

theorem killed_done (n : Node) : (killed n).done = n.done := by unfold killed; split <;> rfl

/-- the task of a dropped effect is polled: it ends and lets go of what it held -/
theorem InvC.dead {K : Nat} {v : View} {st : St} (h : InvC K v st) {e : Nat} (hke : K ≤ e)
    (hlt : e < st.prog.length) (hdead : (st.rs.get e).alive = false) : InvC K v (pollTask st e) := by
  obtain ⟨t, ht⟩ := h.tree
  have hlt' : e < st.rs.nodes.length := by rw [← h.rinv.len]; exact hlt
  have het : e ∉ effsOf t := by
    intro hm
    obtain ⟨_, _, hk⟩ := Good.effOK v t ht.good e hm
    rw [hk.alive] at hdead; cases hdead
  -- the reactive state after the task ended
  generalize hrs2 : ((st.rs.upd e fun n => { n with woken := false }).upd e fun n => { n with done := true }) = rs2
  have hpoll : pollTask st e = releaseZombie { st with rs := rs2 } e := by
    unfold pollTask
    have : ((st.rs.upd e fun n => { n with woken := false }).get e).alive = false := by
      rw [State.get_upd_same _ _ hlt']; exact hdead
    simp only [this, Bool.not_false, if_true]
    rw [hrs2]
  have g2 : ∀ i, i ≠ e → rs2.get i = st.rs.get i := by
    intro i hi; rw [← hrs2, State.get_upd_ne _ _ (Ne.symm hi), State.get_upd_ne _ _ (Ne.symm hi)]
  have g2e : rs2.get e = { st.rs.get e with woken := false, done := true } := by
    rw [← hrs2, State.get_upd_same _ _ (by simpa using hlt'), State.get_upd_same _ _ hlt']
  have a2 : Acts e st.rs rs2 := by
    rw [← hrs2]
    exact (Acts.of_upd st.rs e (fun n => { n with woken := false }) (fun _ => rfl)).trans
      (Acts.of_upd _ e (fun n => { n with done := true }) (fun _ => rfl))
  have hi2 : RInv K { st with rs := rs2 } :=
    h.rinv.acts a2 hke hlt (by rw [g2e]; exact h.rinv.effk e hke hlt)
      (by intro y hy; rw [g2e] at hy; exact h.rinv.srcs e hke y hy)
      (by
        intro i
        by_cases hie : i = e
        · subst hie; rw [g2e]; exact h.rinv.nd i
        · rw [g2 i hie]; exact h.rinv.nd i)
      (by
        intro i hm
        rw [g2e]
        by_cases hie : i = e
        · subst hie; rw [g2e] at hm; exact h.rinv.exact i i hm
        · rw [g2 i hie] at hm; exact h.rinv.exact i e hm)
  have halive2 : ∀ i, (rs2.get i).alive = (st.rs.get i).alive := by
    intro i
    by_cases hie : i = e
    · subst hie; rw [g2e]
    · rw [g2 i hie]
  rw [hpoll, releaseZombie_eq { st with rs := rs2 } e h.noLoc]
  generalize hmine : (st.zombies.filter fun z => z.1 == e) = mine
  generalize hrest : (st.zombies.filter fun z => !(z.1 == e)) = rest
  have hmine_sub : ∀ z ∈ mine, z ∈ st.zombies ∧ z.1 = e := by
    intro z hz; rw [← hmine] at hz
    have := List.mem_filter.1 hz
    exact ⟨this.1, by simpa using this.2⟩
  have hrest_sub : ∀ z ∈ rest, z ∈ st.zombies := by
    intro z hz; rw [← hrest] at hz; exact (List.mem_filter.1 hz).1
  have hsplit : ∀ y, (zEffs mine).count y + (zEffs rest).count y = (zEffs st.zombies).count y := by
    intro y; rw [← hmine, ← hrest]; exact zEffs_filter_count (fun z => z.1 == e) y st.zombies
  have hzbound := zEffs_bound h.zb h.zok
  -- what is dropped
  have hL : ∀ z ∈ mine.flatMap heldOf, z.1 ∈ mine.flatMap (fun z => optEffs z.2) ∧
      ∀ sub, z.2 = some sub → ZTree K st sub := by
    intro z hz
    obtain ⟨z0, hz0, hzz⟩ := List.mem_flatMap.1 hz
    have hz0' := hmine_sub z0 hz0
    cases hh : z0.2 with
    | none => simp [heldOf, hh] at hzz
    | some tr =>
      simp only [heldOf, hh] at hzz
      have hzt := h.zok z0 hz0'.1 tr hh
      have hk := held_ok (viewOf tr) tr hzt.good hzt.wf hzt.core z hzz
      refine ⟨List.mem_flatMap.2 ⟨z0, hz0, by rw [hh]; simpa [optEffs] using hk.1⟩, hk.2⟩
  have hLz : ∀ y ∈ (mine.flatMap heldOf).map (·.1), y ∈ zEffs st.zombies := by
    intro y hy
    obtain ⟨z, hz, rfl⟩ := List.mem_map.1 hy
    have h1 := (hL z hz).1
    have h2 : 1 ≤ (mine.flatMap fun z => optEffs z.2).count z.1 := List.one_le_count_iff.2 h1
    have h3 := zEffs_ids_count mine z.1
    have h4 := hsplit z.1
    exact List.one_le_count_iff.1 (by omega)
  have d := dropAll_spec (mine.flatMap heldOf) ({ ({ st with rs := rs2 } : St) with zombies := rest })
  generalize hF : dropAll ({ ({ st with rs := rs2 } : St) with zombies := rest }) (mine.flatMap heldOf) = F at d
  have hi3 : RInv K ({ ({ st with rs := rs2 } : St) with zombies := rest }) := hi2.of_rs_prog rfl rfl
  have hdx := d.ext (K := K) (fun y hy => (hzbound y (hLz y hy)).1)
  have hFget : ∀ i, F.rs.get i = if i ∈ (mine.flatMap heldOf).map (·.1) then killed (rs2.get i) else rs2.get i :=
    d.get
  refine ⟨d.rinv hi3, ⟨t, by rw [d.root]; exact ht.root, ?_, ?_, ?_⟩, ?_, ?_, ?_⟩
  · have g1 : Good K { st with rs := rs2 } v t := ht.good.acts h.rinv a2 het hke
    have g2' : Good K ({ ({ st with rs := rs2 } : St) with zombies := rest }) v t :=
      Good.map v t g1 (fun _ _ _ _ hk => hk.congr rfl rfl rfl)
    refine Good.ext hi3 hdx v t g2' ?_
    intro y hy hA
    have h1 := ht.uniq y
    have h2 : 1 ≤ (effsOf t).count y := List.one_le_count_iff.2 hy
    have h3 : 1 ≤ (zEffs st.zombies).count y := List.one_le_count_iff.2 (hLz y hA)
    omega
  · intro y
    rw [d.zombies]
    show (effsOf t).count y + (zEffs (rest ++ mine.flatMap heldOf)).count y ≤ 1
    rw [zEffs_append, List.count_append, zEffs_heldOf]
    have := zEffs_ids_count mine y
    have := hsplit y
    have := ht.uniq y
    omega
  · intro y hy
    have hy' : y ∈ st.tasks := by rw [d.tasks] at hy; exact hy
    have hdone_e : (F.rs.get e).done = true := by
      rw [hFget e]; split
      · rw [killed_done, g2e]
      · rw [g2e]
    by_cases hye : y = e
    · subst hye; exact Or.inl hdone_e
    · rcases ht.tasks y hy' with hd | hd | hd
      · left
        rw [hFget y]; split
        · rw [killed_done, g2 y hye]; exact hd
        · rw [g2 y hye]; exact hd
      · exact Or.inr (Or.inl hd)
      · right; right
        rw [d.zombies]
        show y ∈ zEffs (rest ++ mine.flatMap heldOf)
        rw [zEffs_mem_append, zEffs_heldOf]
        have h1 : 1 ≤ (zEffs st.zombies).count y := List.one_le_count_iff.2 hd
        have h2 := hsplit y
        have h3 := zEffs_ids_count mine y
        have h4 : (mine.map (·.1)).count y = 0 := by
          rw [List.count_eq_zero]; intro hm
          obtain ⟨z, hz, hzz⟩ := List.mem_map.1 hm
          exact hye (by rw [← hzz]; exact (hmine_sub z hz).2)
        by_cases hin : y ∈ zEffs rest
        · exact Or.inl hin
        · have : (zEffs rest).count y = 0 := List.count_eq_zero.2 hin
          exact Or.inr (List.one_le_count_iff.1 (by omega))
  · intro z hz sub hsub
    rw [d.zombies] at hz
    rcases List.mem_append.1 hz with hz | hz
    · exact (h.zok z (hrest_sub z hz) sub hsub).of_prog d.prog
    · exact ((hL z hz).2 sub hsub).of_prog d.prog
  · intro z hz
    rw [d.zombies] at hz
    rcases List.mem_append.1 hz with hz | hz
    · have := h.zdead z (hrest_sub z hz)
      rw [hFget z.1]; split
      · exact killed_alive_le _ (by rw [halive2]; exact this)
      · rw [halive2]; exact this
    · have hm : z.1 ∈ (mine.flatMap heldOf).map (·.1) := List.mem_map.2 ⟨z, hz, rfl⟩
      rw [hFget z.1, if_pos hm]
      have hb := hzbound z.1 (hLz z.1 hm)
      exact killed_alive_eff _ (hi2.effk z.1 hb.1 hb.2)
  · intro z hz
    rw [d.zombies] at hz
    rw [d.prog]
    rcases List.mem_append.1 hz with hz | hz
    · exact h.zb z (hrest_sub z hz)
    · exact hzbound z.1 (hLz z.1 (List.mem_map.2 ⟨z, hz, rfl⟩))


theorem rerunZombies_keeps (e : Nat) (w : Int) : ∀ (zs : List (Nat × Option RState)) (s : St),
    e ∈ zEffs zs → e ∈ zEffs (rerunZombies e w zs s).1
  | [], s, h => by simp [zEffs] at h
  | (z, none) :: rest, s, h => by
    rw [rerunZombies_none, zEffs_cons']
    rw [zEffs_cons'] at h
    rcases List.mem_append.1 h with h | h
    · exact List.mem_append.2 (Or.inl h)
    · exact List.mem_append.2 (Or.inr (rerunZombies_keeps e w rest s h))
  | (z, some t) :: rest, s, h => by
    rw [rerunZombies_some, zEffs_cons']
    rw [zEffs_cons'] at h
    rcases List.mem_append.1 h with h | h
    · simp only [optEffs, List.mem_cons] at h
      refine List.mem_append.2 (Or.inl ?_)
      simp only [optEffs, List.mem_cons]
      rcases h with h | h
      · exact Or.inl h
      · exact Or.inr (rerunIn_keeps e w t s h)
    · exact List.mem_append.2 (Or.inr (rerunZombies_keeps e w rest _ h))

/-- from the run of a polled effect (woken flag cleared first) to the state before the poll -/
theorem ranAt_of_ran {K : Nat} {st : St} {e : Nat} {x : Expr} {rs' : State} (hlt : e < st.rs.nodes.length)
    (ran : Ran K { st with rs := st.rs.upd e fun n => { n with woken := false } } e x rs') :
    RanAt K st e x rs' := by
  have aA : Acts e st.rs (st.rs.upd e fun n => { n with woken := false }) :=
    Acts.of_upd st.rs e (fun n => { n with woken := false }) (fun _ => rfl)
  have hge : (st.rs.upd e fun n => { n with woken := false }).get e = { st.rs.get e with woken := false } :=
    State.get_upd_same _ _ hlt
  have henv : Reactive.envOf (st.rs.upd e fun n => { n with woken := false }) = Reactive.envOf st.rs := by
    funext i
    simp only [Reactive.envOf]
    rw [State.get_upd]; split <;> rfl
  have hsubd := ran.subd
  have hsrcs := ran.srcs
  have honly := ran.only
  simp only [henv] at hsubd hsrcs honly
  exact ⟨aA.trans ran.acts, ran.kind, ran.dirty, ran.chan, by rw [ran.alive, hge], by rw [ran.done, hge],
    hsubd, hsrcs, ran.nodup, honly⟩


/-- the state after a root pass that found nothing to do -/
def rootSame (st : St) (t : RState) : St :=
  { st with root := some t, rootN := ⟨st.rootN.id, st.rootN.muts + 0⟩ }

def noZ (s : St) : St := { s with zombies := [] }

/-- what one poll of task `e` does to the OTHER effects that are still mounted afterwards, and to the DOM
nodes that `e` does not govern -/
structure Frame1 (st : St) (e : Nat) (st' : St) : Prop where
  frame : ∀ t', st'.root = some t' → ∀ x ∈ effsOf t', x ≠ e → x < st.prog.length →
    (st'.rs.get x).dirty = (st.rs.get x).dirty ∧
      ∀ i, (x ∈ (st'.rs.get i).subs ↔ x ∈ (st.rs.get i).subs)
  nodes : ∀ n g, (n, g) ∈ st.nodes → e ∉ g → (n, g) ∈ st'.nodes

theorem Frame1.of_same_root {st st' : St} {e : Nat} (hroot : st'.root = st.root) (hrootN : st'.rootN = st.rootN)
    (hget : ∀ x, x ≠ e → (st'.rs.get x).dirty = (st.rs.get x).dirty)
    (hsubs : ∀ i x, x ≠ e → (x ∈ (st'.rs.get i).subs ↔ x ∈ (st.rs.get i).subs)) : Frame1 st e st' :=
  ⟨fun _ _ x _ hne _ => ⟨hget x hne, fun i => hsubs i x hne⟩,
   fun n g hm _ => by simp only [St.nodes, hroot, hrootN]; exact hm⟩

/-- **the re-run of a dirty effect keeps the invariant**, wherever the effect lives -/
theorem InvC.run {K : Nat} {v : View} {st : St} (h : InvC K v st) (hw : v.wf K = true) (hc : v.core = true)
    {e : Nat} (hke : K ≤ e) (hlt : e < st.prog.length) {x : Expr} (hp : st.prog[e]? = some (.eff x))
    (hs : sigOnly K x = true) (healive : (st.rs.get e).alive = true) (hedone : (st.rs.get e).done = false)
    (hwhere : ∀ t, st.root = some t → e ∈ effsOf t ∨ e ∈ zEffs st.zombies)
    {rs' : State} (ra : RanAt K st e x rs') :
    InvC K v (rerun { st with rs := rs' } e (evalPure (Reactive.envOf st.rs) x)) ∧
      ((rerun { st with rs := rs' } e (evalPure (Reactive.envOf st.rs) x)).rs.get e).chan = false ∧
      Frame1 st e (rerun { st with rs := rs' } e (evalPure (Reactive.envOf st.rs) x)) := by
  obtain ⟨t, ht⟩ := h.tree
  have hiB : RInv K { st with rs := rs' } := ra.rinv h.rinv hke hlt hs
  have hzbound := zEffs_bound h.zb h.zok
  have hndt : (effsOf t).Nodup := by
    rw [List.nodup_iff_count]; intro y; have := ht.uniq y; omega
  rw [rerun_some { st with rs := rs' } e _ t ht.root]
  generalize hwv : evalPure (Reactive.envOf st.rs) x = w
  by_cases hm : e ∈ effsOf t
  · -- the effect is mounted
    obtain ⟨x', cur, hok⟩ := Good.effOK v t ht.good e hm
    have hxx : x' = x := by have := hok.prog; rw [hp] at this; cases this; rfl
    subst hxx
    have hi0 : RInv K ({ ({ st with rs := rs' } : St) with root := none }) := hiB.of_rs_prog rfl rfl
    have envR := envOf_acts_expr ra.acts hke hs
    have hothers : ∀ e' x'' cur', e' ≠ e → EffOK K st e' x'' cur' →
        EffOK K ({ ({ st with rs := rs' } : St) with root := none }) e' x'' cur' :=
      fun e' x'' cur' hne hk => (hk.acts h.rinv ra.acts hne hke).congr rfl rfl rfl
    have hself : ∀ x'' (cur0 : Int → Prop), EffOK K st e x'' cur0 → ∀ cur' : Int → Prop, cur' w →
        EffOK K ({ ({ st with rs := rs' } : St) with root := none }) e x'' cur' := by
      intro x'' cur0 hk cur' hc'
      have hxx : x'' = x' := by have := hk.prog; rw [hp] at this; cases this; rfl
      subst hxx
      refine ⟨hk.ke, hk.lt, hk.prog, ?_, ?_, hk.task, Or.inr ⟨ra.dirty, ?_, ?_⟩⟩
      · show (rs'.get e).alive = true; rw [ra.alive]; exact hk.alive
      · show (rs'.get e).done = false; rw [ra.done]; exact hk.done
      · show cur' (evalPure (Reactive.envOf rs') x''); rw [envR.1, hwv]; exact hc'
      · intro i hr
        have hr' : i ∈ readsU (Reactive.envOf rs') x'' := hr
        rw [envR.2] at hr'
        exact ra.subd i hr'
    have hr := rerunIn_spec (predOK_effOK K) hi0 (e := e) (w := w) (P0 := EffOK K st) hothers hself v t
      ((good_iff v t).1 ht.good) hw hc hndt
    have hkeep := rerunIn_keeps e w t ({ ({ st with rs := rs' } : St) with root := none }) hm
    have hcnt_e : (zEffs (newZ ({ ({ st with rs := rs' } : St) with root := none })
        (rerunIn e w t ({ ({ st with rs := rs' } : St) with root := none })).2.1)).count e = 0 := by
      have h1 := hr.cnt e hlt
      have h2 : 1 ≤ (effsOf (rerunIn e w t ({ ({ st with rs := rs' } : St) with root := none })).1).count e :=
        List.one_le_count_iff.2 hkeep
      have h3 := List.nodup_iff_count.1 hndt e
      omega
    have hzA : (afterRoot { st with rs := rs' } e w t).zombies = st.zombies ++
        newZ ({ ({ st with rs := rs' } : St) with root := none })
          (rerunIn e w t ({ ({ st with rs := rs' } : St) with root := none })).2.1 := hr.zomb
    have habs : ∀ z ∈ (afterRoot { st with rs := rs' } e w t).zombies, ∀ hh, z.2 = some hh → e ∉ effsOf hh := by
      intro z hz hh hhh hmem
      rw [hzA] at hz
      rcases List.mem_append.1 hz with hz | hz
      · have h1 := ht.uniq e
        have h2 : 1 ≤ (effsOf t).count e := List.one_le_count_iff.2 hm
        have h3 : 1 ≤ (zEffs st.zombies).count e := List.one_le_count_iff.2 (mem_zEffs_held hz hhh hmem)
        omega
      · have h3 : 1 ≤ (zEffs (newZ ({ ({ st with rs := rs' } : St) with root := none })
            (rerunIn e w t ({ ({ st with rs := rs' } : St) with root := none })).2.1)).count e :=
          List.one_le_count_iff.2 (mem_zEffs_held hz hhh hmem)
        omega
    unfold zpass
    rw [rerunZombies_absent e w _ _ habs]
    dsimp only
    refine ⟨?_, ?_, ?_, ?_⟩
    · refine InvC.of_rerun h ht hm ra (s0 := { ({ st with rs := rs' } : St) with root := none }) rfl rfl rfl rfl hr
        hkeep rfl rfl rfl rfl ?_
      show (afterRoot { st with rs := rs' } e w t).zombies ++ [] = _
      rw [List.append_nil, hzA]
    · have hc1 := hr.ext.ctl e hlt (fun hmm => by
        have := List.one_le_count_iff.2 hmm; omega)
      simp only [RView.ctl, Prod.mk.injEq] at hc1
      show ((rerunIn e w t ({ ({ st with rs := rs' } : St) with root := none })).2.1.rs.get e).chan = false
      rw [hc1.2.2.2.2.1]; exact ra.chan
    · -- other effects that are still in the tree
      intro t' ht' y hy hne hylt
      have htt : t' = (rerunIn e w t ({ ({ st with rs := rs' } : St) with root := none })).1 := by
        have : some (rerunIn e w t ({ ({ st with rs := rs' } : St) with root := none })).1 = some t' := ht'
        exact (Option.some.inj this).symm
      rw [htt] at hy
      have hnA : y ∉ zEffs (newZ ({ ({ st with rs := rs' } : St) with root := none })
          (rerunIn e w t ({ ({ st with rs := rs' } : St) with root := none })).2.1) := by
        intro hmm
        have h1 := hr.cnt y hylt
        have h2 : 1 ≤ (effsOf (rerunIn e w t ({ ({ st with rs := rs' } : St) with root := none })).1).count y :=
          List.one_le_count_iff.2 hy
        have h3 := List.nodup_iff_count.1 hndt y
        have h4 := List.one_le_count_iff.2 hmm
        omega
      have c1 := ra.acts.ctl y hne
      have c2 := hr.ext.ctl y hylt hnA
      simp only [RView.ctl, Prod.mk.injEq] at c1 c2
      refine ⟨?_, fun i => ?_⟩
      · show ((rerunIn e w t ({ ({ st with rs := rs' } : St) with root := none })).2.1.rs.get y).dirty = _
        rw [c2.2.2.2.1]; exact c1.2.2.2.1
      · show y ∈ ((rerunIn e w t ({ ({ st with rs := rs' } : St) with root := none })).2.1.rs.get i).subs ↔ _
        rw [hr.ext.subs i y hylt hnA]; exact ra.acts.subs i y hne
    · -- nodes that the effect does not govern
      intro n g hmn hg
      simp only [St.nodes, ht.root, List.mem_cons] at hmn
      show (n, g) ∈ St.nodes ({ afterRoot { st with rs := rs' } e w t with
        zombies := (afterRoot { st with rs := rs' } e w t).zombies ++ [] })
      have hrn : (rerunIn e w t ({ ({ st with rs := rs' } : St) with root := none })).2.1.rootN = st.rootN :=
        hr.rootN
      simp only [St.nodes, afterRoot, List.mem_cons]
      rcases hmn with hmn | hmn
      · left
        have hn : n = st.rootN := (Prod.mk.inj hmn).1
        have hgg : g = structEffs t := (Prod.mk.inj hmn).2
        subst hgg
        have hst := rerunIn_struct e w t ({ ({ st with rs := rs' } : St) with root := none }) hg
        rw [hst.1, hst.2, hn, hrn]
        rfl
      · right
        exact rerunIn_nodes e w t _ n g hmn hg
  · -- the effect lives in a tree held by a zombie
    have hez : e ∈ zEffs st.zombies := (hwhere t ht.root).resolve_left hm
    have hroot0 : rerunIn e w t ({ ({ st with rs := rs' } : St) with root := none }) =
        (t, { ({ st with rs := rs' } : St) with root := none }, 0) := rerunIn_absent e w t _ hm
    have hA : afterRoot { st with rs := rs' } e w t = rootSame { st with rs := rs' } t := by
      unfold afterRoot rootSame; rw [hroot0]
    rw [hA]
    have hzp : zpass (rootSame { st with rs := rs' } t) e w =
        { (rerunZombies e w st.zombies (noZ (rootSame { st with rs := rs' } t))).2 with
          zombies := (rerunZombies e w st.zombies (noZ (rootSame { st with rs := rs' } t))).1 ++
            (rerunZombies e w st.zombies (noZ (rootSame { st with rs := rs' } t))).2.zombies } := rfl
    rw [hzp]
    generalize hsZ : noZ (rootSame { st with rs := rs' } t) = sZ
    have hpZ : sZ.prog = st.prog := by rw [← hsZ]; rfl
    have hrZ : sZ.rs = rs' := by rw [← hsZ]; rfl
    have htZ : sZ.tasks = st.tasks := by rw [← hsZ]; rfl
    have hzZ : sZ.zombies = [] := by rw [← hsZ]; rfl
    have hrootZ : sZ.root = some t := by rw [← hsZ]; rfl
    have hiZ : RInv K sZ := hiB.of_rs_prog hpZ hrZ
    have hz := rerunZombies_spec (K := K) e w st.zombies sZ hiZ
      (fun z hz' hh hhh => (h.zok z hz' hh hhh).of_prog hpZ)
      (fun y => by have := ht.uniq y; omega)
      (fun y hy => by rw [hpZ]; exact (hzbound y hy).2)
    have hnz : (rerunZombies e w st.zombies sZ).2.zombies = newZ sZ (rerunZombies e w st.zombies sZ).2 := by
      have := hz.zomb; rw [hzZ] at this; simpa using this
    have hkeep := rerunZombies_keeps e w st.zombies sZ hez
    have hrootNZ : sZ.rootN = st.rootN := by rw [← hsZ]; rfl
    refine ⟨?_, ?_, ?_, ?_⟩
    rotate_left 2
    · -- other effects of the (unchanged) mounted tree
      intro t' ht' y hy hne hylt
      have htt : t' = t := by
        have h1 : (rerunZombies e w st.zombies sZ).2.root = some t' := ht'
        rw [hz.root, hrootZ] at h1
        exact (Option.some.inj h1).symm
      rw [htt] at hy
      have hnA : y ∉ zEffs (newZ sZ (rerunZombies e w st.zombies sZ).2) := by
        intro hmm
        have h1 := hz.cnt y (by rw [hpZ]; exact hylt)
        have h2 : 1 ≤ (effsOf t).count y := List.one_le_count_iff.2 hy
        have h3 := ht.uniq y
        have h4 := List.one_le_count_iff.2 hmm
        omega
      have c1 := ra.acts.ctl y hne
      have c2 := hz.ext.ctl y (by rw [hpZ]; exact hylt) hnA
      rw [hrZ] at c2
      simp only [RView.ctl, Prod.mk.injEq] at c1 c2
      refine ⟨?_, fun i => ?_⟩
      · show ((rerunZombies e w st.zombies sZ).2.rs.get y).dirty = _
        rw [c2.2.2.2.1]; exact c1.2.2.2.1
      · show y ∈ ((rerunZombies e w st.zombies sZ).2.rs.get i).subs ↔ _
        rw [hz.ext.subs i y (by rw [hpZ]; exact hylt) hnA, hrZ]; exact ra.acts.subs i y hne
    · intro n g hmn _
      show (n, g) ∈ St.nodes ({ (rerunZombies e w st.zombies sZ).2 with
        zombies := (rerunZombies e w st.zombies sZ).1 ++ (rerunZombies e w st.zombies sZ).2.zombies })
      simp only [St.nodes, ht.root] at hmn
      simp only [St.nodes, hz.root, hrootZ, hz.rootN, hrootNZ]
      exact hmn
    · refine InvC.of_zrerun h ht hm hke hlt healive hedone hs ra hpZ hrZ htZ hz rfl rfl rfl ?_ ?_
      · show (rerunZombies e w st.zombies sZ).2.root = some t
        rw [hz.root]; exact hrootZ
      · show (rerunZombies e w st.zombies sZ).1 ++ (rerunZombies e w st.zombies sZ).2.zombies = _
        rw [hnz]
    · have hcnt : (zEffs (newZ sZ (rerunZombies e w st.zombies sZ).2)).count e = 0 := by
        have h1 := hz.cnt e (by rw [hpZ]; exact hlt)
        have h2 : 1 ≤ (zEffs (rerunZombies e w st.zombies sZ).1).count e := List.one_le_count_iff.2 hkeep
        have h3 := ht.uniq e
        omega
      have hc1 := hz.ext.ctl e (by rw [hpZ]; exact hlt) (fun hmm => by
        have := List.one_le_count_iff.2 hmm; omega)
      simp only [RView.ctl, Prod.mk.injEq] at hc1
      show ((rerunZombies e w st.zombies sZ).2.rs.get e).chan = false
      rw [hc1.2.2.2.2.1, hrZ]; exact ra.chan


/-- **one poll of any task keeps the invariant** -/
theorem InvC.poll {K : Nat} {v : View} {st : St} (h : InvC K v st) (hw : v.wf K = true) (hc : v.core = true)
    {e : Nat} (he : e ∈ st.tasks) (hedone : (st.rs.get e).done = false) : InvC K v (pollTask st e) := by
  obtain ⟨t, ht⟩ := h.tree
  have hzbound := zEffs_bound h.zb h.zok
  have hwhere : e ∈ effsOf t ∨ e ∈ zEffs st.zombies := by
    rcases ht.tasks e he with hd | hd
    · rw [hedone] at hd; cases hd
    · exact hd
  have hb : K ≤ e ∧ e < st.prog.length := by
    rcases hwhere with hm | hm
    · obtain ⟨_, _, hk⟩ := Good.effOK v t ht.good e hm; exact ⟨hk.ke, hk.lt⟩
    · exact hzbound e hm
  obtain ⟨x, hp, hs⟩ := h.rinv.effp e hb.1 hb.2
  have hlt' : e < st.rs.nodes.length := by rw [← h.rinv.len]; exact hb.2
  by_cases healive : (st.rs.get e).alive = true
  · rw [pollTask_alive st e hlt' healive]
    have hgA : FlagOnly (fun n : Node => { n with woken := false }) := fun _ => ⟨rfl, rfl, rfl, rfl, rfl, rfl, rfl⟩
    have hgC : FlagOnly (fun n : Node => { n with chan := false }) := fun _ => ⟨rfl, rfl, rfl, rfl, rfl, rfl, rfl⟩
    have hiA : RInv K { st with rs := st.rs.upd e fun n => { n with woken := false } } :=
      h.rinv.flags hgA hb.1 hb.2
    have ranA := @ranRs_spec K { st with rs := st.rs.upd e fun n => { n with woken := false } } hiA e x hb.1 hb.2 hp hs
    have hflagA := fun hd => h.flags (e := e) hgA hb.1 hb.2 hd
    generalize hsA : ({ st with rs := st.rs.upd e fun n => { n with woken := false } } : St) = stA at hiA ranA hflagA ⊢
    have hAget : stA.rs.get e = { st.rs.get e with woken := false } := by
      rw [← hsA]; exact State.get_upd_same _ _ hlt'
    have hAlen : stA.rs.nodes.length = st.rs.nodes.length := by rw [← hsA]; simp
    have hAobs : stA.rs.obs = none := by rw [← hsA]; exact h.rinv.obs
    have hAprog : stA.prog = st.prog := by rw [← hsA]
    by_cases hd : (st.rs.get e).dirty = true
    · by_cases hch : (st.rs.get e).chan = true
      · -- the effect runs
        rw [effLoop_dirty 63 stA e (by rw [hAlen]; exact hlt') (by rw [hAget]; exact hch)
          (by rw [hAget]; exact hd) hAobs]
        have ra : RanAt K st e x (ranRs stA e) := by
          rw [← hsA] at ranA ⊢; exact ranAt_of_ran hlt' ranA
        have henvA : Reactive.envOf stA.rs = Reactive.envOf st.rs := by
          rw [← hsA]
          funext i; simp only [Reactive.envOf]; rw [State.get_upd]; split <;> rfl
        have hwv : ((ranRs stA e).get e).val.getD 0 = evalPure (Reactive.envOf st.rs) x := by
          rw [ranA.val, henvA]; rfl
        rw [hwv]
        have hres := h.run hw hc hb.1 hb.2 hp hs healive hedone
          (fun t' ht' => by
            have : t' = t := by have := ht.root; rw [ht'] at this; cases this; rfl
            rw [this]; exact hwhere) ra
        have e1 : ({ stA with rs := ranRs stA e } : St) = { st with rs := ranRs stA e } := by rw [← hsA]
        rw [e1, effLoop_nochan _ _ _ hres.2.1]
        exact hres.1
      · -- marked dirty but not notified: nothing happens (cannot occur for a mounted effect)
        rw [effLoop_nochan _ _ _ (by rw [hAget]; simpa using hch)]
        refine hflagA ?_
        intro t' ht' hm
        have : t' = t := by have := ht.root; rw [ht'] at this; cases this; rfl
        subst this
        obtain ⟨_, _, hk⟩ := Good.effOK v t' ht.good e hm
        rcases hk.ok with hpn | hcur
        · exact absurd hpn.2.1 hch
        · exact hcur.1
    · have hd' : (st.rs.get e).dirty = false := by simpa using hd
      have hA : InvC K v stA := hflagA (fun _ _ _ => hd')
      by_cases hch : (st.rs.get e).chan = true
      · rw [effLoop_clean 63 stA e (by rw [hAlen]; exact hlt') (by rw [hAget]; exact hch)
          (by rw [hAget]; exact hd') hAobs (by
            intro y hy
            rw [hAget] at hy
            have hyK := h.rinv.srcs e hb.1 y hy
            have := hiA.sigs y hyK
            rw [this]; simp)]
        rw [effLoop_nochan _ _ _ (by
          show ((stA.rs.upd e fun n => { n with chan := false }).get e).chan = false
          rw [State.get_upd_same _ _ (by rw [hAlen]; exact hlt')])]
        exact hA.flags hgC hb.1 (by rw [hAprog]; exact hb.2) (fun _ _ _ => by rw [hAget]; exact hd')
      · rw [effLoop_nochan _ _ _ (by rw [hAget]; simpa using hch)]
        exact hA
  · exact h.dead hb.1 hb.2 (by simpa using healive)

/-- a poll of an effect that is not dirty changes neither the DOM nor the effect's subscriptions -/
def Clean1 (st : St) (e : Nat) (st' : St) : Prop :=
  (st.rs.get e).dirty = false →
    st'.root = st.root ∧ st'.rootN = st.rootN ∧ (st'.rs.get e).dirty = false ∧
      ∀ i, (e ∈ (st'.rs.get i).subs ↔ e ∈ (st.rs.get i).subs)

theorem flagsOnly_frame {st : St} {e : Nat} {rs'' : State} (ho : ∀ x, x ≠ e → rs''.get x = st.rs.get x)
    (hd : (rs''.get e).dirty = (st.rs.get e).dirty) (hs : ∀ i, (rs''.get i).subs = (st.rs.get i).subs) :
    Frame1 st e { st with rs := rs'' } ∧ Clean1 st e { st with rs := rs'' } :=
  ⟨Frame1.of_same_root rfl rfl (fun x hx => by show (rs''.get x).dirty = _; rw [ho x hx])
      (fun i x _ => by show x ∈ (rs''.get i).subs ↔ _; rw [hs i]),
   fun hdf => ⟨rfl, rfl, by show (rs''.get e).dirty = false; rw [hd]; exact hdf,
      fun i => by show e ∈ (rs''.get i).subs ↔ _; rw [hs i]⟩⟩

theorem killed_dirty (n : Node) : (killed n).dirty = n.dirty := by unfold killed; split <;> rfl

theorem dead_frame {st : St} {e : Nat} (hlt' : e < st.rs.nodes.length) (hdead : (st.rs.get e).alive = false)
    (hnl : NoLoc st.zombies) :
    Frame1 st e (pollTask st e) ∧ Clean1 st e (pollTask st e) := by
  generalize hrs2 : ((st.rs.upd e fun n => { n with woken := false }).upd e fun n => { n with done := true }) = rs2
  have hpoll : pollTask st e = releaseZombie { st with rs := rs2 } e := by
    unfold pollTask
    have : ((st.rs.upd e fun n => { n with woken := false }).get e).alive = false := by
      rw [State.get_upd_same _ _ hlt']; exact hdead
    simp only [this, Bool.not_false, if_true]
    rw [hrs2]
  have g2 : ∀ i, (rs2.get i).dirty = (st.rs.get i).dirty ∧ (rs2.get i).subs = (st.rs.get i).subs := by
    intro i
    rw [← hrs2, State.get_upd]; split
    · rw [State.get_upd]; split <;> exact ⟨rfl, rfl⟩
    · rw [State.get_upd]; split <;> exact ⟨rfl, rfl⟩
  rw [hpoll, releaseZombie_eq { st with rs := rs2 } e hnl]
  have d := dropAll_spec ((({ st with rs := rs2 } : St).zombies.filter fun z => z.1 == e).flatMap heldOf)
    ({ ({ st with rs := rs2 } : St) with
      zombies := ({ st with rs := rs2 } : St).zombies.filter fun z => !(z.1 == e) })
  have hF : ∀ i, ((dropAll ({ ({ st with rs := rs2 } : St) with
      zombies := ({ st with rs := rs2 } : St).zombies.filter fun z => !(z.1 == e) })
      ((({ st with rs := rs2 } : St).zombies.filter fun z => z.1 == e).flatMap heldOf)).rs.get i).dirty
        = (st.rs.get i).dirty ∧
      ((dropAll ({ ({ st with rs := rs2 } : St) with
      zombies := ({ st with rs := rs2 } : St).zombies.filter fun z => !(z.1 == e) })
      ((({ st with rs := rs2 } : St).zombies.filter fun z => z.1 == e).flatMap heldOf)).rs.get i).subs
        = (st.rs.get i).subs := by
    intro i
    rw [d.get i]; split
    · rw [killed_dirty, killed_subs]; exact g2 i
    · exact g2 i
  exact ⟨Frame1.of_same_root d.root d.rootN (fun x _ => (hF x).1) (fun i x _ => by rw [(hF i).2]),
    fun hdf => ⟨d.root, d.rootN, by rw [(hF e).1]; exact hdf, fun i => by rw [(hF i).2]⟩⟩

/-- one poll of any task: the other mounted effects, the untouched nodes, and the not-dirty case -/
theorem poll_frame {K : Nat} {v : View} {st : St} (h : InvC K v st) (hw : v.wf K = true) (hc : v.core = true)
    {e : Nat} (he : e ∈ st.tasks) (hedone : (st.rs.get e).done = false) :
    Frame1 st e (pollTask st e) ∧ Clean1 st e (pollTask st e) := by
  obtain ⟨t, ht⟩ := h.tree
  have hzbound := zEffs_bound h.zb h.zok
  have hwhere : e ∈ effsOf t ∨ e ∈ zEffs st.zombies := by
    rcases ht.tasks e he with hd | hd
    · rw [hedone] at hd; cases hd
    · exact hd
  have hb : K ≤ e ∧ e < st.prog.length := by
    rcases hwhere with hm | hm
    · obtain ⟨_, _, hk⟩ := Good.effOK v t ht.good e hm; exact ⟨hk.ke, hk.lt⟩
    · exact hzbound e hm
  obtain ⟨x, hp, hs⟩ := h.rinv.effp e hb.1 hb.2
  have hlt' : e < st.rs.nodes.length := by rw [← h.rinv.len]; exact hb.2
  by_cases healive : (st.rs.get e).alive = true
  · rw [pollTask_alive st e hlt' healive]
    have hgA : FlagOnly (fun n : Node => { n with woken := false }) := fun _ => ⟨rfl, rfl, rfl, rfl, rfl, rfl, rfl⟩
    have hiA : RInv K { st with rs := st.rs.upd e fun n => { n with woken := false } } :=
      h.rinv.flags hgA hb.1 hb.2
    have ranA := @ranRs_spec K { st with rs := st.rs.upd e fun n => { n with woken := false } } hiA e x hb.1 hb.2 hp hs
    have hfA : ∀ i, ((st.rs.upd e fun n => { n with woken := false }).get i).dirty = (st.rs.get i).dirty ∧
        ((st.rs.upd e fun n => { n with woken := false }).get i).subs = (st.rs.get i).subs := by
      intro i; rw [State.get_upd]; split <;> exact ⟨rfl, rfl⟩
    have hoA : ∀ y, y ≠ e → (st.rs.upd e fun n => { n with woken := false }).get y = st.rs.get y :=
      fun y hy => State.get_upd_ne _ _ (Ne.symm hy)
    have hfrA := flagsOnly_frame (st := st) (e := e) hoA (hfA e).1 (fun i => (hfA i).2)
    generalize hsA : ({ st with rs := st.rs.upd e fun n => { n with woken := false } } : St) = stA at hiA ranA hfrA ⊢
    have hAget : stA.rs.get e = { st.rs.get e with woken := false } := by
      rw [← hsA]; exact State.get_upd_same _ _ hlt'
    have hAlen : stA.rs.nodes.length = st.rs.nodes.length := by rw [← hsA]; simp
    have hAobs : stA.rs.obs = none := by rw [← hsA]; exact h.rinv.obs
    by_cases hd : (st.rs.get e).dirty = true
    · by_cases hch : (st.rs.get e).chan = true
      · rw [effLoop_dirty 63 stA e (by rw [hAlen]; exact hlt') (by rw [hAget]; exact hch)
          (by rw [hAget]; exact hd) hAobs]
        have ra : RanAt K st e x (ranRs stA e) := by
          rw [← hsA] at ranA ⊢; exact ranAt_of_ran hlt' ranA
        have henvA : Reactive.envOf stA.rs = Reactive.envOf st.rs := by
          rw [← hsA]
          funext i; simp only [Reactive.envOf]; rw [State.get_upd]; split <;> rfl
        have hwv : ((ranRs stA e).get e).val.getD 0 = evalPure (Reactive.envOf st.rs) x := by
          rw [ranA.val, henvA]; rfl
        rw [hwv]
        have hres := h.run hw hc hb.1 hb.2 hp hs healive hedone
          (fun t' ht' => by
            have : t' = t := by have := ht.root; rw [ht'] at this; cases this; rfl
            rw [this]; exact hwhere) ra
        have e1 : ({ stA with rs := ranRs stA e } : St) = { st with rs := ranRs stA e } := by rw [← hsA]
        rw [e1, effLoop_nochan _ _ _ hres.2.1]
        exact ⟨hres.2.2, fun hdf => by rw [hdf] at hd; cases hd⟩
      · rw [effLoop_nochan _ _ _ (by rw [hAget]; simpa using hch)]
        exact hfrA
    · have hd' : (st.rs.get e).dirty = false := by simpa using hd
      by_cases hch : (st.rs.get e).chan = true
      · rw [effLoop_clean 63 stA e (by rw [hAlen]; exact hlt') (by rw [hAget]; exact hch)
          (by rw [hAget]; exact hd') hAobs (by
            intro y hy
            rw [hAget] at hy
            have hyK := h.rinv.srcs e hb.1 y hy
            have := hiA.sigs y hyK
            rw [this]; simp)]
        rw [effLoop_nochan _ _ _ (by
          show ((stA.rs.upd e fun n => { n with chan := false }).get e).chan = false
          rw [State.get_upd_same _ _ (by rw [hAlen]; exact hlt')])]
        have e2 : ({ stA with rs := stA.rs.upd e fun n => { n with chan := false } } : St) =
            { st with rs := stA.rs.upd e fun n => { n with chan := false } } := by rw [← hsA]
        rw [e2]
        have hfB : ∀ i, ((stA.rs.upd e fun n => { n with chan := false }).get i).dirty = (st.rs.get i).dirty ∧
            ((stA.rs.upd e fun n => { n with chan := false }).get i).subs = (st.rs.get i).subs := by
          intro i
          rw [← hsA]
          show ((((st.rs.upd e fun n => { n with woken := false })).upd e fun n => { n with chan := false }).get i).dirty
            = _ ∧ _
          rw [State.get_upd]; split
          · exact hfA i
          · exact hfA i
        refine flagsOnly_frame ?_ (hfB e).1 (fun i => (hfB i).2)
        intro y hy
        rw [State.get_upd_ne _ _ (Ne.symm hy), ← hsA]; exact hoA y hy
      · rw [effLoop_nochan _ _ _ (by rw [hAget]; simpa using hch)]
        exact hfrA
  · exact dead_frame hlt' (by simpa using healive) h.noLoc

theorem InvC.pollNth {K : Nat} {v : View} {st : St} (h : InvC K v st) (hw : v.wf K = true) (hc : v.core = true)
    (i : Nat) : InvC K v (RView.pollNth st i) := by
  unfold RView.pollNth
  simp only
  split
  · exact h
  · next hne =>
    have hm := getD_mem_of_ne_nil (l := ready st) (by simpa using hne) i
    have hf : (ready st).getD (i % (ready st).length) 0 ∈ st.tasks ∧
        (st.rs.get ((ready st).getD (i % (ready st).length) 0)).done = false := by
      unfold ready at hm ⊢
      have := List.mem_filter.1 hm
      exact ⟨this.1, by have := this.2; simp only [Bool.and_eq_true, Bool.not_eq_true'] at this; exact this.2⟩
    exact h.poll hw hc hf.1 hf.2

theorem InvC.runIdle {K : Nat} {v : View} (hw : v.wf K = true) (hc : v.core = true) :
    ∀ (k : Nat) (st : St), InvC K v st → InvC K v (RView.runIdle k st)
  | 0, st, h => h
  | k + 1, st, h => by
    simp only [RView.runIdle]
    split
    · exact h
    · exact InvC.runIdle hw hc k _ (h.pollNth hw hc 0)

/-- the invariant of a history of a core program: disposed for good, or `InvC` -/
def InvD (K : Nat) (v : View) (st : St) : Prop :=
  (st.disposed = true ∧ st.root = none) ∨ (st.disposed = false ∧ InvC K v st)

theorem InvD.step {K : Nat} {v : View} {st : St} (h : InvD K v st) (hw : v.wf K = true) (hc : v.core = true)
    (op : Op) : InvD K v (RView.step st op) := by
  rcases h with h | h
  · exact Or.inl (step_disposed st op h)
  · cases op with
    | set id w => exact Or.inr ⟨h.1, h.2.setSig id w⟩
    | poll i => exact Or.inr ⟨(pollNth_book st i).1.trans h.1, h.2.pollNth hw hc i⟩
    | idle => exact Or.inr ⟨(runIdle_book 4096 st).1.trans h.1, InvC.runIdle hw hc 4096 st h.2⟩
    | dispose => exact Or.inl (dispose_disposed st)

theorem InvD.start {p : Program} (hw : p.wf = true) (hs : allSigs p.defs = true) (hc : p.view.core = true) :
    InvD p.defs.length p.view (RView.start p) := by
  simp only [Program.wf, Bool.and_eq_true] at hw
  have h0 := SigState.initDefs p.defs {} SigState.init hs
  have hlen : (initDefs p.defs).prog.length = p.defs.length := by
    have := h0.2; simpa [initDefs] using this
  have hsig : SigState (initDefs p.defs) := h0.1
  have hi : RInv p.defs.length (initDefs p.defs) := by
    have := hsig.rinv; rw [hlen] at this; exact this
  have hb := build_spec p.view (initDefs p.defs).alloc.2 (alloc_inv hi) hw.2 hc
  have hz : (build p.view (initDefs p.defs).alloc.2).2.zombies = [] := by
    rw [hb.same.zombies]; exact hsig.zombies
  refine Or.inr ⟨?_, ?_⟩
  · show (build p.view (initDefs p.defs).alloc.2).2.disposed = false
    rw [hb.same.disposed]; exact hsig.disposed
  · refine ⟨hb.inv.of_rs_prog rfl rfl, ⟨_, rfl, ?_, ?_, ?_⟩, ?_, ?_, ?_⟩
    · exact Good.map _ _ hb.good (fun _ _ _ _ hk => hk.congr rfl rfl rfl)
    · intro y
      show (effsOf (build p.view (initDefs p.defs).alloc.2).1).count y +
        (zEffs (build p.view (initDefs p.defs).alloc.2).2.zombies).count y ≤ 1
      rw [hz]
      have := List.nodup_iff_count.1 hb.nodup y
      simp [zEffs]; exact this
    · intro e he
      rcases build_tasks p.view (initDefs p.defs).alloc.2 hc e he with h1 | h1
      · have : (initDefs p.defs).alloc.2.tasks = [] := hsig.tasks
        rw [this] at h1; simp at h1
      · exact Or.inr (Or.inl h1)
    · intro z hz'
      have : z ∈ (build p.view (initDefs p.defs).alloc.2).2.zombies := hz'
      rw [hz] at this; simp at this
    · intro z hz'
      have : z ∈ (build p.view (initDefs p.defs).alloc.2).2.zombies := hz'
      rw [hz] at this; simp at this
    · intro z hz'
      have : z ∈ (build p.view (initDefs p.defs).alloc.2).2.zombies := hz'
      rw [hz] at this; simp at this

theorem InvD.run {p : Program} (hw : p.wf = true) (hs : allSigs p.defs = true) (hc : p.view.core = true)
    (ops : List Op) : InvD p.defs.length p.view (RView.run p ops) := by
  have hw' := hw
  simp only [Program.wf, Bool.and_eq_true] at hw'
  unfold RView.run
  have h0 : ∀ (s0 : St), InvD p.defs.length p.view s0 →
      InvD p.defs.length p.view (ops.foldl RView.step s0) := by
    induction ops with
    | nil => intro s0 h; exact h
    | cons op rest ih => intro s0 h; exact ih _ (h.step hw'.2 hc op)
  exact h0 _ (InvD.start hw hs hc)

/-- at an idle point of a state satisfying the invariant the DOM is the fresh render -/
theorem InvC.settled {K : Nat} {v : View} {st : St} (h : InvC K v st) (hw : v.wf K = true)
    (hidle : ready st = []) : st.dom = render st.env v := by
  obtain ⟨t, ht⟩ := h.tree
  have hnp : ∀ e ∈ effsOf t, ¬ pending st e := by
    intro e he hp
    obtain ⟨x, cur, hok⟩ := Good.effOK v t ht.good e he
    have : e ∈ ready st := by
      unfold ready
      refine List.mem_filter.2 ⟨hok.task, ?_⟩
      simp [hp.2.2, hok.done]
    rw [hidle] at this; simp at this
  simp only [St.dom, ht.root]
  rw [Good.serialize_eq v t ht.good hnp]
  exact (render_congr (fun i hi => h.rinv.env_sig hi) v hw).symm

end Leptos.RView
