import LeptosModel.Proofs.KeyedExtras
import LeptosModel.Proofs.KeyedBuild
/-!
# The life cycle of a keyed list: built (no parent) → rebuilt → mounted before a sibling → updated →
unmounted → rebuilt → mounted again (C11, lifted assumption "the list is mounted when it is rebuilt")
-/
namespace Leptos.Keyed

/-- the list is not in the DOM: none of its nodes (item blocks, marker) is a child of the parent; the blocks
are pairwise disjoint and non-empty; all ids are below the id counter -/
structure Detached (s : KState) : Prop where
  nodup : s.w.kids.Nodup
  blocks_nodup : (blocks (somes s.w.storage)).Nodup
  disjoint : ∀ n ∈ blocks (somes s.w.storage), n ∉ s.w.kids
  marker_out : s.marker ∉ s.w.kids
  marker_not_item : s.marker ∉ blocks (somes s.w.storage)
  nonempty : ∀ z ∈ somes s.w.storage, z.nodes ≠ []
  fresh : ∀ n ∈ s.w.kids, n < s.w.next
  blocks_fresh : ∀ n ∈ blocks (somes s.w.storage), n < s.w.next
  marker_fresh : s.marker < s.w.next
  bs_pos : 0 < s.bs

/-! ### steps that do not touch the parent's children -/

theorem store_kids (w : World) (a : Nat) (v : Option Item) : (w.store a v).kids = w.kids := by
  unfold World.store; split <;> rfl

theorem foldl_kids {α : Type} (f : World → α → World) (hf : ∀ w c, (f w c).kids = w.kids) :
    ∀ (cs : List α) (w : World), (cs.foldl f w).kids = w.kids
  | [], _ => rfl
  | c :: cs, w => by rw [List.foldl_cons, foldl_kids f hf cs, hf]

theorem moveOut_kids (U : List DiffOpMove) : ∀ (w : World) (acc : List (Option Item)),
    (U.foldl moveOutStep (w, acc)).1.kids = w.kids := by
  induction U with
  | nil => intro w acc; rfl
  | cons m U ih =>
    intro w acc
    simp only [List.foldl_cons]
    have : (moveOutStep (w, acc) m).1.kids = w.kids := by
      unfold moveOutStep
      simp only
      cases h : w.storage[m.from_]? <;> simp [World.panicked]
    have e : moveOutStep (w, acc) m = ((moveOutStep (w, acc) m).1, (moveOutStep (w, acc) m).2) := rfl
    rw [e, ih, this]

theorem moveInStorage_kids (w : World) (mc : DiffOpMove × Option Item) :
    (moveInStorageStep w mc).kids = w.kids := by
  unfold moveInStorageStep
  split
  · rfl
  · cases mc.2 with
    | none => exact store_kids _ _ _
    | some it => simp [World.setIndex, store_kids]

theorem moveInDomD_kids (w : World) (mc : DiffOpMove × Option Item) : (moveInDomStepD w mc).kids = w.kids := by
  unfold moveInDomStepD
  split
  · rfl
  · cases mc.2 with
    | none => rfl
    | some it => simp [store_kids, World.setIndex]

theorem addD_kids (bs : Nat) (to : List Key) (w : World) (a : DiffOpAdd) : (addStepD bs to w a).kids = w.kids := by
  unfold addStepD
  cases to[a.at_]? with
  | none => rfl
  | some k => simp [buildItem, store_kids]

/-- without a parent only the `unmount` calls of the removal loop reach the DOM -/
theorem pipelineD_kids (bs : Nat) (to : List Key) (rem : List Nat) (U : List DiffOpMove)
    (ads : List DiffOpAdd) (nadd : Nat) (w : World) :
    (pipelineD bs to rem U ads nadd w).kids = (rem.foldl removeStep w).kids := by
  unfold pipelineD
  simp only
  rw [foldl_kids _ (addD_kids bs to), foldl_kids _ moveInDomD_kids, foldl_kids _ moveInStorage_kids]
  exact moveOut_kids U _ []

theorem unmountItem_of_disjoint {kids : List NodeId} {it : Item} (h : ∀ n ∈ it.nodes, n ∉ kids) :
    unmountItem kids it = kids := by
  unfold unmountItem
  generalize it.nodes = b at h
  induction b generalizing kids with
  | nil => rfl
  | cons n b ih =>
    simp only [List.foldl_cons, removeNode]
    rw [List.erase_of_not_mem (h n (by simp))]
    exact ih (fun m hm => h m (by simp [hm]))

theorem unmount_fold_of_disjoint : ∀ (R : List Item) {kids : List NodeId},
    (∀ x ∈ R, ∀ n ∈ x.nodes, n ∉ kids) → R.foldl unmountItem kids = kids
  | [], _, _ => rfl
  | x :: R, kids, h => by
    rw [List.foldl_cons, unmountItem_of_disjoint (h x (by simp))]
    exact unmount_fold_of_disjoint R (fun y hy => h y (by simp [hy]))

theorem pairwise_symm_of_mem {α : Type} {R : α → α → Prop} (hsymm : ∀ a b, R a b → R b a) :
    ∀ {l : List α}, l.Pairwise R → ∀ {a b : α}, a ∈ l → b ∈ l → a ≠ b → R a b
  | [], _, _, _, ha, _, _ => by simp at ha
  | x :: l, h, a, b, ha, hb, hab => by
    simp only [List.pairwise_cons] at h
    simp only [List.mem_cons] at ha hb
    rcases ha with rfl | ha <;> rcases hb with rfl | hb
    · exact absurd rfl hab
    · exact h.1 b hb
    · exact hsymm _ _ (h.1 a ha)
    · exact pairwise_symm_of_mem hsymm h.2 ha hb hab

theorem nodup_blocks_of_pairwise : ∀ {L : List Item}, (∀ x ∈ L, x.nodes.Nodup) →
    L.Pairwise (fun a b => ∀ n ∈ a.nodes, n ∉ b.nodes) → (blocks L).Nodup
  | [], _, _ => by simp
  | x :: L, h1, h2 => by
    simp only [List.pairwise_cons] at h2
    rw [blocks_cons, List.nodup_append]
    refine ⟨h1 x (by simp), nodup_blocks_of_pairwise (fun y hy => h1 y (by simp [hy])) h2.2, ?_⟩
    intro a ha b hb hab
    subst hab
    obtain ⟨y, hy, hay⟩ := mem_blocks.mp hb
    exact h2.1 y hy a ha hay

/-! ### insertions into a parent that does not hold the list: no effect -/

theorem mountItem_absent {kids : List NodeId} {r : NodeId} (it : Item) (h : r ∉ kids) :
    mountItem kids it (some r) = kids := by
  unfold mountItem
  generalize it.nodes = b
  induction b with
  | nil => rfl
  | cons n b ih => rw [List.foldl_cons, insertBefore_of_not_mem h]; exact ih

theorem place1_absent {marker : NodeId} {kids : List NodeId} {st : List (Option Item)} (p : Nat) (x : Item)
    (hm : marker ∉ kids) (hst : ∀ it ∈ somes st, ∀ n ∈ it.nodes, n ∉ kids) :
    place1 marker kids st p x = kids := by
  unfold place1
  cases hn : nextMounted st p with
  | none => exact mountItem_absent x hm
  | some sib =>
    simp only [insertBeforeThisOrMarker]
    cases hh : sib.nodes.head? with
    | none => exact mountItem_absent x hm
    | some h =>
      have : h ∈ sib.nodes := List.mem_of_head? hh
      exact mountItem_absent x (hst sib (nextMounted_mem hn) h this)

/-- the DOM phases of a list that is not in its parent leave the parent's children alone -/
theorem placeAll_absent (marker : NodeId) (kids : List NodeId) (hm : marker ∉ kids) :
    ∀ (P : List (Nat × Item)) (st : List (Option Item)),
    (∀ it ∈ somes st, ∀ n ∈ it.nodes, n ∉ kids) → (∀ q ∈ P, ∀ n ∈ q.2.nodes, n ∉ kids) →
    (placeAll marker P (kids, st)).1 = kids
  | [], _, _, _ => rfl
  | q :: P, st, hst, hP => by
    have h1 : placeStep marker (kids, st) q = (kids, st.set q.1 (some q.2)) := by
      simp only [placeStep, place1_absent q.1 q.2 hm hst]
    have := placeAll_absent marker kids hm P (st.set q.1 (some q.2)) (by
      intro it hit
      rcases mem_somes_set hit with rfl | h
      · exact hP q (by simp)
      · exact hst it h) (fun q' hq' => hP q' (by simp [hq']))
    simpa [placeAll, h1] using this

theorem nodup_of_nodup_map {α β : Type} (g : α → β) : ∀ {l : List α}, (l.map g).Nodup → l.Nodup
  | [], _ => List.nodup_nil
  | a :: l, h => by
    simp only [List.map_cons, List.nodup_cons] at h
    exact List.nodup_cons.mpr ⟨fun ha => h.1 (List.mem_map.mpr ⟨a, ha, rfl⟩), nodup_of_nodup_map g h.2⟩

theorem pairwise_of_nodup {α : Type} {R : α → α → Prop} : ∀ {l : List α}, l.Nodup →
    (∀ a ∈ l, ∀ b ∈ l, a ≠ b → R a b) → l.Pairwise R
  | [], _, _ => List.Pairwise.nil
  | x :: l, hnd, h => by
    simp only [List.nodup_cons] at hnd
    refine List.pairwise_cons.mpr ⟨?_, pairwise_of_nodup hnd.2 (fun a ha b hb => h a (by simp [ha]) b (by simp [hb]))⟩
    intro b hb
    exact h x (by simp) b (by simp [hb]) (by rintro rfl; exact hnd.1 hb)

/-! ### `rebuild` of a list that is not in the DOM -/

/-- what is stored after `rebuild`: old items and freshly built, pairwise disjoint blocks above the old id
counter and below the new one -/
theorem rebuildWith_items_strong (D : List Key → List Key → Diff) (hD : DiffLike D) (s : KState) (to : List Key)
    (hs : Wf s) (hto : to.Nodup) :
    ∃ P : List Item,
      P.Pairwise (fun a b => ∀ n ∈ a.nodes, n ∉ b.nodes) ∧
      (∀ x ∈ P, x.nodes.Nodup ∧ (0 < s.bs → x.nodes ≠ []) ∧
        ∀ n ∈ x.nodes, s.w.next ≤ n ∧ n < (rebuildWith D s to).w.next) ∧
      (∀ z ∈ somes (rebuildWith D s to).w.storage, z ∈ somes s.w.storage ∨ z ∈ P) := by
  have hw : ({ s.w with log := {} } : World).storage = (somes s.w.storage).map some := hs.all_some
  obtain ⟨hsim1, hsim2, _⟩ := rebuildWith_sim D s to
  rw [← hsim1, ← hsim2]
  by_cases hte : to = []
  · subst hte
    have sm := applyDiff_summary D hD s.hashed [] (somes s.w.storage) hs.nodup hto hs.keys s.bs s.marker
      { s.w with log := {} } hw rfl
    have hnil : somes (applyDiff s.bs s.marker (D s.hashed []) [] { s.w with log := {} }).storage = [] :=
      List.eq_nil_of_length_eq_zero sm.len
    exact ⟨[], List.Pairwise.nil, by simp, by rw [hnil]; simp⟩
  · obtain ⟨rem, U, ads, c, hn, _, heq⟩ := applyDiff_spec D hD s.hashed to (somes s.w.storage) hs.nodup hto
      hs.keys hte s.bs s.marker { s.w with log := {} } hw
    have hcl := c.pipeline_closed hn s.bs s.marker { s.w with log := {} } hw
    have hfs := c.final_storage s.bs s.w.next
    rw [heq, hcl]
    refine ⟨(addPlacements s.bs to s.w.next ads).map (·.2), addPlacements_pairwise_disjoint s.bs to ads s.w.next,
      ?_, ?_⟩
    · intro x hx
      obtain ⟨q, hq, rfl⟩ := List.mem_map.mp hx
      obtain ⟨h1, h2, h3⟩ := addPlacements_nodes (p := q.1) (it := q.2) hq
      exact ⟨h2, h3, h1⟩
    · intro z hz
      simp only [somes_filter_isSome] at hz hfs
      obtain ⟨j, hj⟩ := List.mem_iff_getElem?.mp hz
      have hjlt : j < to.length := by
        have := (List.getElem?_eq_some_iff.mp hj).1
        have := hfs.2.1
        omega
      obtain ⟨it, hit, _, hold', hnew'⟩ := hfs.2.2 j to[j] (List.getElem?_eq_getElem hjlt)
      rw [hj] at hit
      simp only [Option.some.injEq] at hit
      subst hit
      by_cases hkf : to[j] ∈ s.hashed
      · obtain ⟨i, hi⟩ := List.mem_iff_getElem?.mp hkf
        exact Or.inl (List.mem_of_getElem? (hold' i hi))
      · exact Or.inr (List.mem_map.mpr ⟨(j, z), hnew' hkf, rfl⟩)

theorem mem_somes_set_none {st : List (Option Item)} {p : Nat} {z : Item}
    (h : z ∈ somes (st.set p none)) : z ∈ somes st := by
  simp only [somes, List.mem_filterMap, id] at h ⊢
  obtain ⟨o, ho, rfl⟩ := h
  obtain ⟨j, hj⟩ := List.mem_iff_getElem?.mp ho
  rw [List.getElem?_set] at hj
  split at hj
  · split at hj <;> simp at hj
  · exact ⟨some z, List.mem_of_getElem? hj, rfl⟩

/-- the removal loop on a list whose items are not in the DOM leaves the parent's children alone -/
theorem removeFold_kids_of_disjoint : ∀ (ats : List Nat) (w : World),
    (∀ it ∈ somes w.storage, ∀ n ∈ it.nodes, n ∉ w.kids) → (ats.foldl removeStep w).kids = w.kids
  | [], _, _ => rfl
  | a :: ats, w, h => by
    rw [List.foldl_cons]
    have hstep : (removeStep w a).kids = w.kids ∧
        ∀ it ∈ somes (removeStep w a).storage, it ∈ somes w.storage := by
      unfold removeStep
      cases hv : w.storage[a]? with
      | none => exact ⟨rfl, fun it h => h⟩
      | some v =>
        cases v with
        | none => exact ⟨rfl, fun it h => h⟩
        | some x =>
          have hx : x ∈ somes w.storage := by
            simp only [somes, List.mem_filterMap, id]
            exact ⟨some x, List.mem_of_getElem? hv, rfl⟩
          refine ⟨?_, ?_⟩
          · simp only [World.unmount]
            exact unmountItem_of_disjoint (h x hx)
          · intro it hit
            simp only [World.unmount] at hit
            exact mem_somes_set_none hit
    rw [removeFold_kids_of_disjoint ats _ (by
      intro it hit n hn
      rw [hstep.1]
      exact h it (hstep.2 it hit) n hn), hstep.1]

/-- the parent's children are untouched by the `rebuild` of a list that is not in the DOM — whether the list
has never had a parent (no DOM call is made) or still holds the parent it was unmounted from (every
insertion fails) -/
theorem rebuildWith_detached_kids (D : List Key → List Key → Diff) (hD : DiffLike D) (s : KState) (to : List Key)
    (hs : Wf s) (hd : Detached s) (hto : to.Nodup) :
    (rebuildWith D s to).w.kids = s.w.kids := by
  have hw : ({ s.w with log := {} } : World).storage = (somes s.w.storage).map some := hs.all_some
  have hdis : ∀ x ∈ somes s.w.storage, ∀ n ∈ x.nodes, n ∉ s.w.kids :=
    fun x hx n hn => hd.disjoint n (mem_blocks.mpr ⟨x, hx, hn⟩)
  -- the clear phase and the removal loop unmount items that are not in the DOM
  have hclear : (clearPhase { s.w with log := {} }).kids = s.w.kids := by
    rw [clearPhase_eq { s.w with log := {} } (somes s.w.storage) hw]
    exact unmount_fold_of_disjoint _ hdis
  by_cases hte : to = []
  · subst hte
    by_cases hfe : s.hashed = []
    · have hd0 : D s.hashed [] = {} := by rw [hfe]; exact hD.nil_nil
      have ho : somes s.w.storage = [] := by
        have := hs.keys; rw [hfe] at this; simpa using this
      have hst : s.w.storage = [] := by rw [hs.all_some, ho]; rfl
      unfold rebuildWith
      cases s.parent <;> simp [hd0, applyDiff, applyDiffDetached, unpackMoves, unpackLoop, hst]
    · have hd0 : D s.hashed [] = { clear := true } := hD.to_nil _ hfe
      unfold rebuildWith
      cases s.parent
      · simp only [hd0, Bool.false_eq_true, if_false]
        have : applyDiffDetached s.bs { clear := true } [] { s.w with log := {} }
            = clearPhase { s.w with log := {} } := by simp [applyDiffDetached]
        rw [this]; exact hclear
      · simp only [hd0, if_true]
        have : applyDiff s.bs s.marker { clear := true } [] { s.w with log := {} }
            = clearPhase { s.w with log := {} } := by simp [applyDiff]
        rw [this]; exact hclear
  · obtain ⟨rem, U, ads, c, hn, hU, heq⟩ := applyDiff_spec D hD s.hashed to (somes s.w.storage) hs.nodup hto
      hs.keys hte s.bs s.marker { s.w with log := {} } hw
    -- the removed items are old items: not in the DOM
    have hk1 : kids1 { s.w with log := {} } rem = s.w.kids := by
      rw [kids1, hw]
      exact unmount_fold_of_disjoint _ (fun x hx => hdis x (c.mem_removed.mp hx).1)
    have hclearF : (D s.hashed to).clear = false := by
      by_cases hfe : s.hashed = []
      · rw [hfe]; exact (hD.from_nil to hte).1
      · exact (hD.general s.hashed to hfe hte).1
    unfold rebuildWith
    cases hp : s.parent
    · -- no parent: only the removal loop reaches the DOM
      simp only [Bool.false_eq_true, if_false]
      rw [applyDiffDetached_eq]
      simp only [hclearF, Bool.false_and, Bool.false_eq_true, if_false]
      rw [pipelineD_kids]
      exact removeFold_kids_of_disjoint _ _ (by
        intro it hit
        simp only at hit ⊢
        rw [hw, somes_map_some] at hit
        exact hdis it hit)
    · -- a parent that does not hold the list: every insertion fails
      simp only [if_true]
      rw [heq, c.pipeline_closed hn s.bs s.marker { s.w with log := {} } hw]
      simp only
      rw [hk1]
      apply placeAll_absent s.marker s.w.kids hd.marker_out
      · intro it hit
        have hit' : it ∈ somes (storage4 (List.map some (somes s.w.storage)) rem U ads.length) := by
          rw [← hw]; exact hit
        exact hdis it ((c.mem_somes_storage4 hU).mp hit').1
      · intro q hq n hnq
        rw [placements, List.mem_append] at hq
        rcases hq with hq | hq
        · have hq' : q ∈ dPlacements (movedWith (List.map some (somes s.w.storage)) rem U) := by
            rw [← hw]; exact hq
          obtain ⟨m, _, _, _, hx⟩ := c.mem_dPlacements.mp hq'
          exact hdis q.2 (List.mem_of_getElem? hx) n hnq
        · have h1 := ((addPlacements_nodes (p := q.1) (it := q.2) hq).1 n hnq).1
          intro hk
          exact absurd (hd.fresh n hk) (Nat.not_lt.mpr h1)

/-- **`rebuild` of a list that is not in the DOM** keeps it out of the DOM and well-formed: the parent's
children are unchanged, the stored blocks stay pairwise disjoint, non-empty and fresh -/
theorem rebuildWith_detached (D : List Key → List Key → Diff) (hD : DiffLike D) (s : KState) (to : List Key)
    (hs : Wf s) (hd : Detached s) (hto : to.Nodup) :
    Detached (rebuildWith D s to) ∧ (rebuildWith D s to).w.kids = s.w.kids := by
  have hk := rebuildWith_detached_kids D hD s to hs hd hto
  obtain ⟨P, hPpw, hP, hitems⟩ := rebuildWith_items_strong D hD s to hs hto
  have hnext := (rebuildWith_items D hD s to hs hto).2
  have hsum := (applyDiff_summary D hD s.hashed to (somes s.w.storage) hs.nodup hto hs.keys s.bs s.marker
    { s.w with log := {} } hs.all_some rfl).of_sim (rebuildWith_sim D s to)
  -- the new stored items are pairwise different (their keys are)
  have hkeys : (somes (rebuildWith D s to).w.storage).map (·.key) = to := by
    apply List.ext_getElem?
    intro j
    rw [List.getElem?_map]
    by_cases hj : j < to.length
    · obtain ⟨it, hit, hkey, _⟩ := hsum.at_ j to[j] (List.getElem?_eq_getElem hj)
      rw [hit, List.getElem?_eq_getElem hj]; simp [hkey]
    · rw [List.getElem?_eq_none (by rw [hsum.len]; omega), List.getElem?_eq_none (by omega)]; rfl
  have hLnd : (somes (rebuildWith D s to).w.storage).Nodup := nodup_of_nodup_map (·.key) (by rw [hkeys]; exact hto)
  have hold_lt : ∀ x ∈ somes s.w.storage, ∀ n ∈ x.nodes, n < s.w.next :=
    fun x hx n hn => hd.blocks_fresh n (mem_blocks.mpr ⟨x, hx, hn⟩)
  have hnodes_nodup : ∀ x ∈ somes (rebuildWith D s to).w.storage, x.nodes.Nodup := by
    intro x hx
    rcases hitems x hx with h | h
    · exact block_nodup_of_mem hd.blocks_nodup h
    · exact (hP x h).1
  have hpw : (somes (rebuildWith D s to).w.storage).Pairwise (fun a b => ∀ n ∈ a.nodes, n ∉ b.nodes) := by
    apply pairwise_of_nodup hLnd
    intro a ha b hb hab n hna hnb
    rcases hitems a ha with h1 | h1 <;> rcases hitems b hb with h2 | h2
    · exact disjoint_of_mem hd.blocks_nodup h1 h2 hab n hna hnb
    · exact absurd (hold_lt a h1 n hna) (Nat.not_lt.mpr ((hP b h2).2.2 n hnb).1)
    · exact absurd (hold_lt b h2 n hnb) (Nat.not_lt.mpr ((hP a h1).2.2 n hna).1)
    · exact pairwise_symm_of_mem (fun x y hxy m hm hm' => hxy m hm' hm) hPpw h1 h2 hab n hna hnb
  refine ⟨⟨by rw [hk]; exact hd.nodup, nodup_blocks_of_pairwise hnodes_nodup hpw, ?_, by rw [hk]; exact hd.marker_out,
    ?_, ?_, ?_, ?_, Nat.lt_of_lt_of_le hd.marker_fresh hnext, hd.bs_pos⟩, hk⟩
  · intro n hn
    rw [hk]
    obtain ⟨x, hx, hnx⟩ := mem_blocks.mp hn
    rcases hitems x hx with h | h
    · exact hd.disjoint n (mem_blocks.mpr ⟨x, h, hnx⟩)
    · intro hkid
      exact absurd (hd.fresh n hkid) (Nat.not_lt.mpr ((hP x h).2.2 n hnx).1)
  · intro hn
    obtain ⟨x, hx, hnx⟩ := mem_blocks.mp hn
    rcases hitems x hx with h | h
    · exact hd.marker_not_item (mem_blocks.mpr ⟨x, h, hnx⟩)
    · exact absurd hd.marker_fresh (Nat.not_lt.mpr ((hP x h).2.2 _ hnx).1)
  · intro x hx
    rcases hitems x hx with h | h
    · exact hd.nonempty x h
    · exact (hP x h).2.1 hd.bs_pos
  · intro n hn
    rw [hk] at hn
    exact Nat.lt_of_lt_of_le (hd.fresh n hn) hnext
  · intro n hn
    obtain ⟨x, hx, hnx⟩ := mem_blocks.mp hn
    rcases hitems x hx with h | h
    · exact Nat.lt_of_lt_of_le (hold_lt x h n hnx) hnext
    · exact ((hP x h).2.2 n hnx).2

/-! ### build, mount before an existing sibling, unmount -/

/-- `Keyed::build`: a well-formed list that is not in the DOM and has no parent yet -/
theorem build_detached (bs : Nat) (keys : List Key) (kids : List NodeId) (next : Nat) (hbs : 0 < bs)
    (hk : keys.Nodup) (hkids : kids.Nodup) (hfr : ∀ n ∈ kids, n < next) :
    Wf (build bs keys kids next) ∧ Detached (build bs keys kids next) ∧
    (build bs keys kids next).parent = false ∧ (build bs keys kids next).w.kids = kids := by
  obtain ⟨h1, h2, h3⟩ := buildLoop_eq bs keys 0 { kids := kids, storage := [], next := next }
  simp only [List.nil_append] at h1 h2 h3
  have hst : (build bs keys kids next).w.storage = (itemsOf bs keys next).map some := h1
  have hkd : (build bs keys kids next).w.kids = kids := h3
  have hnx : (build bs keys kids next).w.next = next + bs * keys.length + 1 := by
    show (buildLoop bs keys 0 { kids := kids, storage := [], next := next }).next + 1 = _
    rw [h2]
  have hmk : (build bs keys kids next).marker = next + bs * keys.length := h2
  have hblocks := blocks_itemsOf bs keys next
  have hlt : ∀ n ∈ List.range' next (bs * keys.length), next ≤ n ∧ n < next + bs * keys.length := by
    intro n hn; simpa [List.mem_range'_1] using hn
  have hne : ∀ (keys : List Key) (next : Nat), ∀ z ∈ itemsOf bs keys next, z.nodes ≠ [] := by
    intro keys
    induction keys with
    | nil => intro _ z hz; simp [itemsOf] at hz
    | cons k ks ih =>
      intro next z hz
      simp only [itemsOf, List.mem_cons] at hz
      rcases hz with rfl | hz
      · intro h
        have := congrArg List.length h
        simp at this; omega
      · exact ih _ z hz
  refine ⟨⟨by rw [hst, somes_map_some], by rw [hst, somes_map_some]; exact itemsOf_keys bs keys next, hk⟩,
    ⟨by rw [hkd]; exact hkids, ?_, ?_, ?_, ?_, ?_, ?_, ?_, ?_, hbs⟩, rfl, hkd⟩
  · rw [hst, somes_map_some, hblocks]; exact List.nodup_range' ..
  · intro n hn
    rw [hst, somes_map_some, hblocks] at hn
    rw [hkd]
    intro hk'
    exact absurd (hfr n hk') (Nat.not_lt.mpr (hlt n hn).1)
  · rw [hkd, hmk]
    intro hm
    exact absurd (hfr _ hm) (Nat.not_lt.mpr (Nat.le_add_right _ _))
  · rw [hst, somes_map_some, hblocks, hmk]
    intro hm
    exact absurd (hlt _ hm).2 (Nat.lt_irrefl _)
  · rw [hst, somes_map_some]; exact hne keys next
  · intro n hn
    rw [hkd] at hn
    rw [hnx]
    exact Nat.lt_of_lt_of_le (hfr n hn) (by omega)
  · intro n hn
    rw [hst, somes_map_some, hblocks] at hn
    rw [hnx]
    exact Nat.lt_of_lt_of_le (hlt n hn).2 (by omega)
  · rw [hmk, hnx]; exact Nat.lt_succ_self _

/-- mounting a sequence of fresh blocks in front of `a`: they stand, in order, directly before `a` -/
theorem mount_all_before (a : NodeId) : ∀ (items : List Item) (A B : List NodeId),
    (A ++ a :: B).Nodup → (blocks items).Nodup → (∀ n ∈ blocks items, n ∉ A ++ a :: B) →
    items.foldl (fun ks it => mountItem ks it (some a)) (A ++ a :: B) = A ++ blocks items ++ a :: B
  | [], A, B, _, _, _ => by simp
  | it :: items, A, B, hnd, hb, hd => by
    rw [blocks_cons, List.nodup_append] at hb
    have hdit : ∀ n ∈ it.nodes, n ∉ A ++ a :: B := fun n hn => hd n (by simp [hn])
    have hstep : mountItem (A ++ a :: B) it (some a) = (A ++ it.nodes) ++ a :: B := by
      unfold mountItem
      rw [mount_block a A B it.nodes (A ++ a :: B) hnd hb.1 (by
        intro ha; exact hdit a ha (by simp)) (filter_not_contains_of_disjoint (fun x hx hxi => hdit x hxi hx))]
    rw [List.foldl_cons, hstep]
    have hnd' : ((A ++ it.nodes) ++ a :: B).Nodup := by
      rw [← hstep]; exact nodup_mountItem it _ hnd
    rw [mount_all_before a items (A ++ it.nodes) B hnd' hb.2.1 (by
      intro n hn hmem
      simp only [List.mem_append, List.mem_cons] at hmem
      rcases hmem with (h | h) | h | h
      · exact hd n (by simp [hn]) (by simp [h])
      · exact hb.2.2 n h n hn rfl
      · exact hd n (by simp [hn]) (by simp [h])
      · exact hd n (by simp [hn]) (by simp [h]))]
    simp

theorem nodup_mount_fold (ref : Option NodeId) : ∀ (items : List Item) (ks : List NodeId), ks.Nodup →
    (items.foldl (fun ks it => mountItem ks it ref) ks).Nodup
  | [], _, h => h
  | it :: items, _, h => nodup_mount_fold ref items _ (nodup_mountItem it ref h)

/-- **`mount(parent, anchor)` of a list that is not in the DOM**: for siblings `pre ++ post` and the anchor
`post.head?` (`None` = append), the list is `Mounted pre post` afterwards (and has a parent) -/
theorem mount_mounted (s : KState) (pre post : List NodeId) (hs : Wf s) (hd : Detached s)
    (hk : s.w.kids = pre ++ post) :
    Wf (s.mount post.head?) ∧ Mounted pre post (s.mount post.head?) := by
  have hst : (s.mount post.head?).w.storage = s.w.storage := rfl
  have hbd : ∀ n ∈ blocks (somes s.w.storage), n ∉ s.w.kids := hd.disjoint
  have hkids : (s.mount post.head?).w.kids
      = pre ++ blocks (somes s.w.storage) ++ s.marker :: post := by
    cases post with
    | nil =>
      simp only [List.head?_nil, KState.mount]
      show insertBefore (List.foldl (fun ks it => mountItem ks it none) s.w.kids (somes s.w.storage)) s.marker none = _
      rw [mount_all_fresh _ _ hd.blocks_nodup hbd]
      simp only [insertBefore]
      rw [List.erase_of_not_mem (by
        intro hm
        simp only [List.mem_append] at hm
        rcases hm with hm | hm
        · exact hd.marker_out hm
        · exact hd.marker_not_item hm), hk]
      simp
    | cons a post' =>
      simp only [List.head?_cons, KState.mount]
      show insertBefore (List.foldl (fun ks it => mountItem ks it (some a)) s.w.kids (somes s.w.storage))
        s.marker (some a) = _
      rw [hk, mount_all_before a _ pre post' (hk ▸ hd.nodup) hd.blocks_nodup (hk ▸ hbd)]
      have ha : a ∈ pre ++ blocks (somes s.w.storage) ++ a :: post' := by simp
      rw [insertBefore_of_mem ha]
      have hmo : s.marker ∉ pre ++ blocks (somes s.w.storage) ++ a :: post' := by
        intro hm
        simp only [List.mem_append, List.mem_cons] at hm
        rcases hm with (h | h) | h | h
        · exact hd.marker_out (by rw [hk]; simp [h])
        · exact hd.marker_not_item h
        · exact hd.marker_out (by rw [hk]; simp [h])
        · exact hd.marker_out (by rw [hk]; simp [h])
      rw [List.erase_of_not_mem hmo]
      have hnd0 : (pre ++ a :: post').Nodup := hk ▸ hd.nodup
      have hapre : a ∉ pre ++ blocks (somes s.w.storage) := by
        intro hm
        simp only [List.mem_append] at hm
        rcases hm with h | h
        · exact (List.nodup_append.mp hnd0).2.2 a h a (by simp) rfl
        · exact hbd a h (by rw [hk]; simp)
      have := insB_append_of_not_mem (x := s.marker) post' hapre
      simpa [List.append_assoc] using this
  have hnd : (s.mount post.head?).w.kids.Nodup := by
    show (insertBefore _ _ _).Nodup
    exact nodup_insertBefore _ _ (nodup_mount_fold _ _ _ hd.nodup)
  refine ⟨⟨hs.all_some, hs.keys, hs.nodup⟩, ⟨hkids, hnd, hd.nonempty, ?_, hd.bs_pos, rfl⟩⟩
  intro n hn
  rw [hkids] at hn
  simp only [List.mem_append, List.mem_cons] at hn
  rcases hn with (h | h) | h | h
  · exact hd.fresh n (by rw [hk]; simp [h])
  · exact hd.blocks_fresh n h
  · rw [h]; exact hd.marker_fresh
  · exact hd.fresh n (by rw [hk]; simp [h])

theorem foldl_world_unmount : ∀ (l : List Item) (w : World), l.foldl World.unmount w =
    { w with kids := l.foldl unmountItem w.kids,
             log := { w.log with unmounts := w.log.unmounts ++ l.map (·.key) } }
  | [], w => by simp
  | a :: l, w => by simp [foldl_world_unmount l, World.unmount]

/-- **`unmount`**: the list leaves the DOM — the parent's children are the siblings alone — and stays
well-formed (`Detached`); its storage is untouched (it still remembers its parent) -/
theorem unmount_detached (s : KState) (pre post : List NodeId) (hs : Wf s) (hm : Mounted pre post s) :
    Wf s.unmount ∧ Detached s.unmount ∧ s.unmount.w.kids = pre ++ post ∧
    s.unmount.w.storage = s.w.storage ∧ s.unmount.parent = s.parent := by
  have hk : s.w.kids = pre ++ blocks (somes s.w.storage) ++ s.marker :: post := hm.ordered
  have hkn : (pre ++ blocks (somes s.w.storage) ++ s.marker :: post).Nodup := hk ▸ hm.nodup
  have h1 := List.nodup_append.mp hkn
  have h2 := List.nodup_append.mp h1.1
  have hold : (somes s.w.storage).Nodup := nodup_of_blocks_nodup h2.2.1 hm.nonempty
  have hst : s.unmount.w.storage = s.w.storage := by
    simp [KState.unmount, foldl_world_unmount, somes]
  have hnx : s.unmount.w.next = s.w.next := by
    simp [KState.unmount, foldl_world_unmount]
  have hmarker : s.unmount.marker = s.marker := rfl
  have hkids : s.unmount.w.kids = pre ++ post := by
    have : s.unmount.w.kids = ((somes s.w.storage).foldl unmountItem s.w.kids).erase s.marker := by
      simp [KState.unmount, foldl_world_unmount, somes, removeNode]
    rw [this, hk, unmount_fold_region pre post s.marker _ _ hkn hm.nonempty hold (fun x hx => hx),
      foldl_erase_all]
    simp only [blocks_nil, List.append_nil]
    have hmp : s.marker ∉ pre := by
      intro h
      exact h1.2.2 s.marker (by simp [h]) s.marker (by simp) rfl
    rw [List.erase_append_right _ hmp]
    simp
  have hsub : ∀ n ∈ pre ++ post, n ∈ s.w.kids := by
    intro n hn
    rw [hk]
    simp only [List.mem_append, List.mem_cons] at hn ⊢
    rcases hn with h | h
    · exact Or.inl (Or.inl h)
    · exact Or.inr (Or.inr h)
  have hblk_in : ∀ n ∈ blocks (somes s.w.storage), n ∈ s.w.kids := by
    intro n hn; rw [hk]; simp [hn]
  refine ⟨⟨by rw [hst]; exact hs.all_some, by rw [hst]; exact hs.keys, hs.nodup⟩, ⟨?_, ?_, ?_, ?_, ?_, ?_, ?_, ?_, ?_, hm.bs_pos⟩,
    hkids, hst, rfl⟩
  · rw [hkids, List.nodup_append]
    refine ⟨h2.1, (List.nodup_cons.mp h1.2.1).2, ?_⟩
    intro a ha b hb hab
    exact h1.2.2 a (by simp [ha]) b (by simp [hb]) hab
  · rw [hst]; exact h2.2.1
  · intro n hn
    rw [hst] at hn
    rw [hkids]
    intro hmem
    simp only [List.mem_append] at hmem
    rcases hmem with h | h
    · exact h2.2.2 n h n hn rfl
    · exact h1.2.2 n (by simp [hn]) n (by simp [h]) rfl
  · rw [hkids, hmarker]
    intro hmem
    simp only [List.mem_append] at hmem
    rcases hmem with h | h
    · exact h1.2.2 s.marker (by simp [h]) s.marker (by simp) rfl
    · have := (List.nodup_cons.mp h1.2.1).1
      exact this h
  · rw [hst, hmarker]
    intro hmem
    exact h1.2.2 s.marker (by simp [hmem]) s.marker (by simp) rfl
  · rw [hst]; exact hm.nonempty
  · intro n hn
    rw [hkids] at hn
    rw [hnx]
    exact hm.fresh n (hsub n hn)
  · intro n hn
    rw [hst] at hn
    rw [hnx]
    exact hm.fresh n (hblk_in n hn)
  · rw [hnx, hmarker]
    exact hm.fresh s.marker (by rw [hk]; simp)

/-! ### `insert_before_this` -/

/-- **`insert_before_this(child)` on a mounted list**: the child becomes the last of the leading siblings —
directly in front of the first node of the first item, or of the marker if the list is empty -/
theorem insertBeforeThis_mounted (s : KState) (pre post : List NodeId) (child : NodeId) (hs : Wf s)
    (hm : Mounted pre post s) (hc : child ∉ s.w.kids) (hcn : child < s.w.next) :
    (s.insertBeforeThis child).2 = true ∧ Wf (s.insertBeforeThis child).1 ∧
    Mounted (pre ++ [child]) post (s.insertBeforeThis child).1 := by
  have hk : s.w.kids = pre ++ blocks (somes s.w.storage) ++ s.marker :: post := hm.ordered
  have hkn : (pre ++ blocks (somes s.w.storage) ++ s.marker :: post).Nodup := hk ▸ hm.nodup
  have h1 := List.nodup_append.mp hkn
  have h2 := List.nodup_append.mp h1.1
  -- the reference node `r` is the first node after `pre`
  have key : ∀ (r : NodeId) (rest : List NodeId), s.w.kids = pre ++ r :: rest →
      insertBefore s.w.kids child (some r) = (pre ++ [child]) ++ r :: rest := by
    intro r rest hkr
    have hr : r ∈ s.w.kids := by rw [hkr]; simp
    rw [insertBefore_of_mem hr, List.erase_of_not_mem hc, hkr]
    have hrp : r ∉ pre := by
      intro h
      have hn := hkr ▸ hm.nodup
      exact (List.nodup_append.mp hn).2.2 r h r (by simp) rfl
    rw [insB_append_of_not_mem rest hrp]
    simp
  have good : ∀ (r : NodeId) (rest : List NodeId), s.w.kids = pre ++ r :: rest →
      Wf ({ s with w := { s.w with kids := insertBefore s.w.kids child (some r) } } : KState) ∧
      Mounted (pre ++ [child]) post
        ({ s with w := { s.w with kids := insertBefore s.w.kids child (some r) } } : KState) := by
    intro r rest hkr
    refine ⟨⟨hs.all_some, hs.keys, hs.nodup⟩, ⟨?_, ?_, hm.nonempty, ?_, hm.bs_pos, hm.has_parent⟩⟩
    · show insertBefore s.w.kids child (some r) = _
      rw [key r rest hkr]
      have h3 : r :: rest = blocks (somes s.w.storage) ++ s.marker :: post := by
        have : pre ++ r :: rest = pre ++ (blocks (somes s.w.storage) ++ s.marker :: post) := by
          rw [← hkr, hk, List.append_assoc]
        exact List.append_cancel_left this
      show pre ++ [child] ++ r :: rest = pre ++ [child] ++ blocksOf s.w.storage ++ s.marker :: post
      rw [h3, blocksOf_eq]
      simp [List.append_assoc]
    · show (insertBefore s.w.kids child (some r)).Nodup
      exact nodup_insertBefore _ _ hm.nodup
    · intro n hn
      have hn' : n ∈ insertBefore s.w.kids child (some r) := hn
      rcases mem_insertBefore hn' with h | h
      · rw [h]; exact hcn
      · exact hm.fresh n h
  cases hst : s.w.storage.head? with
  | none =>
    have hnil : s.w.storage = [] := List.head?_eq_none_iff.mp hst
    have hkr : s.w.kids = pre ++ s.marker :: post := by rw [hk, hnil]; simp [somes]
    have hmk : s.marker ∈ s.w.kids := by rw [hkr]; simp
    have he : s.insertBeforeThis child
        = ({ s with w := { s.w with kids := insertBefore s.w.kids child (some s.marker) } }, true) := by
      simp [KState.insertBeforeThis, hst, hmk]
    rw [he]
    exact ⟨rfl, good s.marker post hkr⟩
  | some o =>
    cases o with
    | none =>
      -- a hole at the front cannot occur in a `Wf` state
      exfalso
      have := hs.all_some
      cases hsto : s.w.storage with
      | nil => rw [hsto] at hst; simp at hst
      | cons a l =>
        rw [hsto] at hst this
        simp only [List.head?_cons, Option.some.injEq] at hst
        subst hst
        rw [somes_cons_none] at this
        have := congrArg List.head? this
        cases hl : somes l <;> simp [hl] at this
    | some it =>
      obtain ⟨L, hL⟩ : ∃ L, somes s.w.storage = it :: L := by
        cases hsto : s.w.storage with
        | nil => rw [hsto] at hst; simp at hst
        | cons a l =>
          rw [hsto] at hst
          simp only [List.head?_cons, Option.some.injEq] at hst
          subst hst
          exact ⟨somes l, rfl⟩
      have hit : it ∈ somes s.w.storage := by rw [hL]; simp
      obtain ⟨h, tl, hnodes⟩ : ∃ h tl, it.nodes = h :: tl := by
        cases hn : it.nodes with
        | nil => exact absurd hn (hm.nonempty it hit)
        | cons h tl => exact ⟨h, tl, rfl⟩
      have hkr : s.w.kids = pre ++ h :: (tl ++ blocks L ++ s.marker :: post) := by
        rw [hk, hL, blocks_cons, hnodes]; simp [List.append_assoc]
      have hmk : h ∈ s.w.kids := by rw [hkr]; simp
      have he : s.insertBeforeThis child
          = ({ s with w := { s.w with kids := insertBefore s.w.kids child (some h) } }, true) := by
        simp [KState.insertBeforeThis, hst, hnodes, hmk]
      rw [he]
      exact ⟨rfl, good h _ hkr⟩

/-- a list that is not in the DOM answers `false` and inserts nothing -/
theorem insertBeforeThis_detached (s : KState) (child : NodeId) (hd : Detached s) :
    s.insertBeforeThis child = (s, false) := by
  unfold KState.insertBeforeThis
  cases hst : s.w.storage.head? with
  | none => simp [hd.marker_out]
  | some o =>
    cases o with
    | none => rfl
    | some it =>
      cases hn : it.nodes.head? with
      | none => simp [hn]
      | some h =>
        have hit : it ∈ somes s.w.storage := by
          cases hsto : s.w.storage with
          | nil => rw [hsto] at hst; simp at hst
          | cons a l =>
            rw [hsto] at hst
            simp only [List.head?_cons, Option.some.injEq] at hst
            subst hst
            simp [somes]
        have : h ∉ s.w.kids := hd.disjoint h (mem_blocks.mpr ⟨it, hit, List.mem_of_head? hn⟩)
        simp [hn, this]

end Leptos.Keyed