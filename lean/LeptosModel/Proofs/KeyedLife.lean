import LeptosModel.Proofs.KeyedExtras
/-!
# The life cycle of a keyed list: built (no parent) → rebuilt → mounted before a sibling → updated →
unmounted → rebuilt → mounted again (C11, lifted assumption "the list is mounted when it is rebuilt")
-/
namespace Leptos.Keyed

/-- the list is not in the DOM: none of its nodes (item blocks, marker) is a child of the parent; the blocks
are pairwise disjoint and non-empty; all ids are below the id counter -/
structure Detached (s : KState) : Prop where
  nodup : s.w.kids.Nodup
  blocks_nodup : (blocks (somes s.w.storage)).Nodup
  disjoint : ∀ n ∈ blocks (somes s.w.storage), n ∉ s.w.kids
  marker_out : s.marker ∉ s.w.kids
  marker_not_item : s.marker ∉ blocks (somes s.w.storage)
  nonempty : ∀ z ∈ somes s.w.storage, z.nodes ≠ []
  fresh : ∀ n ∈ s.w.kids, n < s.w.next
  blocks_fresh : ∀ n ∈ blocks (somes s.w.storage), n < s.w.next
  marker_fresh : s.marker < s.w.next
  bs_pos : 0 < s.bs

/-! ### steps that do not touch the parent's children -/

theorem store_kids (w : World) (a : Nat) (v : Option Item) : (w.store a v).kids = w.kids := by
  unfold World.store; split <;> rfl

theorem foldl_kids {α : Type} (f : World → α → World) (hf : ∀ w c, (f w c).kids = w.kids) :
    ∀ (cs : List α) (w : World), (cs.foldl f w).kids = w.kids
  | [], _ => rfl
  | c :: cs, w => by rw [List.foldl_cons, foldl_kids f hf cs, hf]

theorem moveOut_kids (U : List DiffOpMove) : ∀ (w : World) (acc : List (Option Item)),
    (U.foldl moveOutStep (w, acc)).1.kids = w.kids := by
  induction U with
  | nil => intro w acc; rfl
  | cons m U ih =>
    intro w acc
    simp only [List.foldl_cons]
    have : (moveOutStep (w, acc) m).1.kids = w.kids := by
      unfold moveOutStep
      simp only
      cases h : w.storage[m.from_]? <;> simp [World.panicked]
    have e : moveOutStep (w, acc) m = ((moveOutStep (w, acc) m).1, (moveOutStep (w, acc) m).2) := rfl
    rw [e, ih, this]

theorem moveInStorage_kids (w : World) (mc : DiffOpMove × Option Item) :
    (moveInStorageStep w mc).kids = w.kids := by
  unfold moveInStorageStep
  split
  · rfl
  · cases mc.2 with
    | none => exact store_kids _ _ _
    | some it => simp [World.setIndex, store_kids]

theorem moveInDomD_kids (w : World) (mc : DiffOpMove × Option Item) : (moveInDomStepD w mc).kids = w.kids := by
  unfold moveInDomStepD
  split
  · rfl
  · cases mc.2 with
    | none => rfl
    | some it => simp [store_kids, World.setIndex]

theorem addD_kids (bs : Nat) (to : List Key) (w : World) (a : DiffOpAdd) : (addStepD bs to w a).kids = w.kids := by
  unfold addStepD
  cases to[a.at_]? with
  | none => rfl
  | some k => simp [buildItem, store_kids]

/-- without a parent only the `unmount` calls of the removal loop reach the DOM -/
theorem pipelineD_kids (bs : Nat) (to : List Key) (rem : List Nat) (U : List DiffOpMove)
    (ads : List DiffOpAdd) (nadd : Nat) (w : World) :
    (pipelineD bs to rem U ads nadd w).kids = (rem.foldl removeStep w).kids := by
  unfold pipelineD
  simp only
  rw [foldl_kids _ (addD_kids bs to), foldl_kids _ moveInDomD_kids, foldl_kids _ moveInStorage_kids]
  exact moveOut_kids U _ []

theorem unmountItem_of_disjoint {kids : List NodeId} {it : Item} (h : ∀ n ∈ it.nodes, n ∉ kids) :
    unmountItem kids it = kids := by
  unfold unmountItem
  generalize it.nodes = b at h
  induction b generalizing kids with
  | nil => rfl
  | cons n b ih =>
    simp only [List.foldl_cons, removeNode]
    rw [List.erase_of_not_mem (h n (by simp))]
    exact ih (fun m hm => h m (by simp [hm]))

theorem unmount_fold_of_disjoint : ∀ (R : List Item) {kids : List NodeId},
    (∀ x ∈ R, ∀ n ∈ x.nodes, n ∉ kids) → R.foldl unmountItem kids = kids
  | [], _, _ => rfl
  | x :: R, kids, h => by
    rw [List.foldl_cons, unmountItem_of_disjoint (h x (by simp))]
    exact unmount_fold_of_disjoint R (fun y hy => h y (by simp [hy]))

theorem pairwise_symm_of_mem {α : Type} {R : α → α → Prop} (hsymm : ∀ a b, R a b → R b a) :
    ∀ {l : List α}, l.Pairwise R → ∀ {a b : α}, a ∈ l → b ∈ l → a ≠ b → R a b
  | [], _, _, _, ha, _, _ => by simp at ha
  | x :: l, h, a, b, ha, hb, hab => by
    simp only [List.pairwise_cons] at h
    simp only [List.mem_cons] at ha hb
    rcases ha with rfl | ha <;> rcases hb with rfl | hb
    · exact absurd rfl hab
    · exact h.1 b hb
    · exact hsymm _ _ (h.1 a ha)
    · exact pairwise_symm_of_mem hsymm h.2 ha hb hab

theorem nodup_blocks_of_pairwise : ∀ {L : List Item}, (∀ x ∈ L, x.nodes.Nodup) →
    L.Pairwise (fun a b => ∀ n ∈ a.nodes, n ∉ b.nodes) → (blocks L).Nodup
  | [], _, _ => by simp
  | x :: L, h1, h2 => by
    simp only [List.pairwise_cons] at h2
    rw [blocks_cons, List.nodup_append]
    refine ⟨h1 x (by simp), nodup_blocks_of_pairwise (fun y hy => h1 y (by simp [hy])) h2.2, ?_⟩
    intro a ha b hb hab
    subst hab
    obtain ⟨y, hy, hay⟩ := mem_blocks.mp hb
    exact h2.1 y hy a ha hay

end Leptos.Keyed
