import LeptosModel.Proofs.RViewTop
/-!
# Proofs/RViewQuiet — parts whose inputs are not written keep their nodes (views with nested `either`)
-/
namespace Leptos.RView
open Leptos.Reactive

theorem St.nodes_sub {st : St} {t : RState} (hroot : st.root = some t) {n : N} {g : List Nat}
    (hm : (n, g) ∈ st.nodes) : ∀ e ∈ g, e ∈ effsOf t := by
  intro e he
  simp only [St.nodes, hroot, List.mem_cons] at hm
  rcases hm with hm | hm
  · rw [(Prod.mk.inj hm).2] at he; exact structEffs_sub t e he
  · exact nodesOf_sub t n g hm e he

/-- effect `e` is not dirty in `st` and subscribed to none of the signals `W` -/
def quietIn (W : List Nat) (st : St) (e : Nat) : Prop :=
  (st.rs.get e).dirty = false ∧ ∀ id ∈ W, e ∉ (st.rs.get id).subs

/-- invariant of the operations after `st0` while only signals of `W` are written: a node all of whose
governing effects were quiet at `st0` is still there, and they are still quiet -/
structure QuietC (K : Nat) (v : View) (W : List Nat) (st0 st : St) : Prop where
  inv : InvC K v st
  keep : ∀ n g, (n, g) ∈ st0.nodes → (∀ e ∈ g, K ≤ e ∧ quietIn W st0 e) →
    (n, g) ∈ st.nodes ∧ ∀ e ∈ g, quietIn W st e

theorem QuietC.start {K : Nat} {v : View} {W : List Nat} {st0 : St} (h : InvC K v st0) : QuietC K v W st0 st0 :=
  ⟨h, fun _ _ hm hq => ⟨hm, fun e he => (hq e he).2⟩⟩

theorem QuietC.setSig {K : Nat} {v : View} {W : List Nat} {st0 st : St} (h : QuietC K v W st0 st) {id : Nat}
    (hid : id ∈ W) (w : Int) : QuietC K v W st0 (RView.setSig st id w) := by
  refine ⟨h.inv.setSig id w, fun n g hm hq => ?_⟩
  have hk := h.keep n g hm hq
  refine ⟨hk.1, fun e he => ?_⟩
  have hqe := hk.2 e he
  have hke := (hq e he).1
  rcases Nat.lt_or_ge id K with hlt | hge
  · have g' := setSig_get h.inv.rinv hlt w
    have hne : e ≠ id := by omega
    have hns : e ∉ (st.rs.get id).subs := hqe.2 id hid
    refine ⟨?_, fun id' hid' => ?_⟩
    · rw [g'.2.2 e]; simp only [hne, if_false, hns]; exact hqe.1
    · have : ((RView.setSig st id w).rs.get id').subs = (st.rs.get id').subs := by
        rw [g'.2.2 id']; split
        · next hh => subst hh; rfl
        · split
          · exact wake_subs _
          · rfl
      rw [this]; exact hqe.2 id' hid'
  · unfold quietIn; rw [setSig_noop h.inv.rinv hge w]; exact hqe

theorem QuietC.pollNth {K : Nat} {v : View} {W : List Nat} {st0 st : St} (h : QuietC K v W st0 st)
    (hw : v.wf K = true) (hc : v.core = true) (i : Nat) : QuietC K v W st0 (RView.pollNth st i) := by
  unfold RView.pollNth
  simp only
  split
  · exact h
  · next hne =>
    have hm := getD_mem_of_ne_nil (l := ready st) (by simpa using hne) i
    have hf : (ready st).getD (i % (ready st).length) 0 ∈ st.tasks ∧
        (st.rs.get ((ready st).getD (i % (ready st).length) 0)).done = false := by
      unfold ready at hm ⊢
      have := List.mem_filter.1 hm
      exact ⟨this.1, by have := this.2; simp only [Bool.and_eq_true, Bool.not_eq_true'] at this; exact this.2⟩
    generalize (ready st).getD (i % (ready st).length) 0 = e' at hf
    have hinv' := h.inv.poll hw hc hf.1 hf.2
    have pf := poll_frame h.inv hw hc hf.1 hf.2
    obtain ⟨t, ht⟩ := h.inv.tree
    obtain ⟨t', ht'⟩ := hinv'.tree
    refine ⟨hinv', fun n g hm0 hq => ?_⟩
    have hk := h.keep n g hm0 hq
    have hlt_of : ∀ e ∈ g, e < st.prog.length := by
      intro e he
      obtain ⟨_, _, hok⟩ := Good.effOK v t ht.good e (St.nodes_sub ht.root hk.1 e he)
      exact hok.lt
    by_cases hin : e' ∈ g
    · have hcl := pf.2 (hk.2 e' hin).1
      have hnodes : (pollTask st e').nodes = st.nodes := by simp only [St.nodes, hcl.1, hcl.2.1]
      refine ⟨by rw [hnodes]; exact hk.1, fun e he => ?_⟩
      by_cases hee : e = e'
      · subst hee
        exact ⟨hcl.2.2.1, fun id hid hm => (hk.2 e he).2 id hid ((hcl.2.2.2 id).1 hm)⟩
      · have hmem : e ∈ effsOf t' := by
          have : (pollTask st e').root = some t := by rw [hcl.1]; exact ht.root
          have htt : t' = t := by rw [ht'.root] at this; exact Option.some.inj this
          rw [htt]; exact St.nodes_sub ht.root hk.1 e he
        have fr := pf.1.frame t' ht'.root e hmem hee (hlt_of e he)
        exact ⟨by rw [fr.1]; exact (hk.2 e he).1, fun id hid hm => (hk.2 e he).2 id hid ((fr.2 id).1 hm)⟩
    · have hn' := pf.1.nodes n g hk.1 hin
      refine ⟨hn', fun e he => ?_⟩
      have hee : e ≠ e' := fun hh => hin (hh ▸ he)
      have hmem : e ∈ effsOf t' := St.nodes_sub ht'.root hn' e he
      have fr := pf.1.frame t' ht'.root e hmem hee (hlt_of e he)
      exact ⟨by rw [fr.1]; exact (hk.2 e he).1, fun id hid hm => (hk.2 e he).2 id hid ((fr.2 id).1 hm)⟩

theorem QuietC.runIdle {K : Nat} {v : View} {W : List Nat} {st0 : St} (hw : v.wf K = true) (hc : v.core = true) :
    ∀ (k : Nat) (st : St), QuietC K v W st0 st → QuietC K v W st0 (RView.runIdle k st)
  | 0, st, h => h
  | k + 1, st, h => by
    simp only [RView.runIdle]
    split
    · exact h
    · exact QuietC.runIdle hw hc k _ (h.pollNth hw hc 0)

theorem QuietC.steps {K : Nat} {v : View} {W : List Nat} {st0 : St} (hw : v.wf K = true) (hc : v.core = true) :
    ∀ (ops : List Op) (st : St), QuietC K v W st0 st → (∀ id ∈ writes ops, id ∈ W) → Op.dispose ∉ ops →
      QuietC K v W st0 (ops.foldl RView.step st)
  | [], st, h, _, _ => h
  | op :: rest, st, h, hwr, hnd => by
    simp only [List.foldl_cons]
    have hnd' : Op.dispose ∉ rest := fun hm => hnd (by simp [hm])
    cases op with
    | set id w =>
      have hid : id ∈ W := hwr id (by simp [writes])
      exact QuietC.steps hw hc rest _ (h.setSig hid w) (fun j hj => hwr j (by
        simp only [writes, List.filterMap_cons] at hj ⊢; simp [hj])) hnd'
    | poll i =>
      exact QuietC.steps hw hc rest _ (h.pollNth hw hc i) (fun j hj => hwr j (by
        simp only [writes, List.filterMap_cons] at hj ⊢; exact hj)) hnd'
    | idle =>
      exact QuietC.steps hw hc rest _ (QuietC.runIdle hw hc 4096 st h) (fun j hj => hwr j (by
        simp only [writes, List.filterMap_cons] at hj ⊢; exact hj)) hnd'
    | dispose => exact absurd (by simp) hnd

end Leptos.RView
