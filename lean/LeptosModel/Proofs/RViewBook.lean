import LeptosModel.Model.RView
/-!
# Proofs/RViewBook — bookkeeping: no operation except `dispose` changes `disposed`, and nothing
re-creates the root once it is gone (all views, all states)
-/
namespace Leptos.RView
open Leptos.Reactive

/-- `st'` has the same `disposed` flag, and no root if `st` had none -/
def Book (st st' : St) : Prop := st'.disposed = st.disposed ∧ (st.root = none → st'.root = none)

theorem Book.refl (st : St) : Book st st := ⟨rfl, fun h => h⟩
theorem Book.trans {a b c : St} (h1 : Book a b) (h2 : Book b c) : Book a c :=
  ⟨h2.1.trans h1.1, fun h => h2.2 (h1.2 h)⟩

theorem Book.of_eq {st st' : St} (hd : st'.disposed = st.disposed) (hr : st'.root = st.root) : Book st st' :=
  ⟨hd, fun h => by rw [hr]; exact h⟩

theorem newEff_book (st : St) (x : Expr) : Book st (newEff st x).2.2 := Book.of_eq rfl rfl
theorem alloc_book (st : St) : Book st st.alloc.2 := Book.of_eq rfl rfl
theorem spawn_book (st : St) (e : Nat) : Book st (st.spawn e) := Book.of_eq rfl rfl
theorem addDef_book (st : St) (d : NodeDef) : Book st (st.addDef d).2 := Book.of_eq rfl rfl
theorem dropEff_book (st : St) (e : Nat) (h : Option RState) : Book st (dropEff st e h) := Book.of_eq rfl rfl

theorem dropAll_book : ∀ (l : List (Nat × Option RState)) (st : St), Book st (dropAll st l)
  | [], st => Book.refl st
  | eh :: rest, st => by
    simp only [dropAll, List.foldl_cons]
    exact (dropEff_book st eh.1 eh.2).trans (dropAll_book rest _)

theorem killAll_book (st : St) : ∀ (l : List Nat), Book st (killAll st l)
  | [] => Book.refl st
  | _ :: _ => Book.of_eq rfl rfl

theorem dropState_book (st : St) (t : RState) : Book st (dropState st t) :=
  (killAll_book st _).trans (dropAll_book _ _)

theorem newLocal_book (st : St) (sid : Nat) : ∀ (d : LDef), Book st (newLocal st sid d).2
  | .memo _ => Book.of_eq rfl rfl
  | .sig _ => Book.of_eq rfl rfl

theorem foldl_book {α β : Type} (f : β × St → α → β × St) (h : ∀ acc a, Book acc.2 (f acc a).2) :
    ∀ (l : List α) (acc : β × St), Book acc.2 (l.foldl f acc).2
  | [], acc => Book.refl _
  | a :: l, acc => by
    simp only [List.foldl_cons]
    exact (h acc a).trans (foldl_book f h l _)

theorem foldl_book' {α : Type} (f : St → α → St) (h : ∀ st a, Book st (f st a)) :
    ∀ (l : List α) (st : St), Book st (l.foldl f st)
  | [], st => Book.refl _
  | a :: l, st => by
    simp only [List.foldl_cons]
    exact (h st a).trans (foldl_book' f h l _)

theorem buildAttr_book (st : St) : ∀ (a : Attr), Book st (buildAttr st a).2.1
  | .stat _ _ => Book.refl st
  | .dyn _ x => (newEff_book st x).trans (spawn_book _ _)
  | .cls _ x => (newEff_book st x).trans (spawn_book _ _)
  | .sty _ x => (newEff_book st x).trans (spawn_book _ _)

theorem buildAttrs_book : ∀ (as : List Attr) (st : St), Book st (buildAttrs as st).2.1
  | [], st => Book.refl st
  | a :: as, st => (buildAttr_book st a).trans (buildAttrs_book as _)

theorem buildFor_book (st : St) (keys : List Nat) : Book st (buildFor st keys).2.2 := Book.of_eq rfl rfl

/-! equation lemmas in projection form -/

theorem build_scope (sid : Nat) (d : LDef) (kid : View) (st : St) :
    build (.scope sid d kid) st =
      (.scope (newLocal st sid d).1 sid d.isSig
          (build kid { (newLocal st sid d).2 with locals := (newLocal st sid d).1 :: (newLocal st sid d).2.locals }).1,
       { (build kid { (newLocal st sid d).2 with
            locals := (newLocal st sid d).1 :: (newLocal st sid d).2.locals }).2 with
          locals := (newLocal st sid d).2.locals }) := rfl

/-- the keyed state a `<For>` with rows of their own starts from -/
def rowsKs (st : St) (sel : Expr) (lists : List (List Nat)) : Keyed.KState :=
  (Keyed.build 1 (listAt lists (newEff st (st.res sel)).2.1) [] (newEff st (st.res sel)).2.2.next).mount none

/-- … and the fold that builds its rows -/
def rowsFold (st : St) (en : Bool) (sel : Expr) (lists : List (List Nat)) (row : View) :
    List (Nat × Option Nat × RState) × St :=
  ((listAt lists (newEff st (st.res sel)).2.1).zip
      (List.range (listAt lists (newEff st (st.res sel)).2.1).length)).foldl
    (rowStep en (rowsKs st sel lists) (build row))
    ([], { (newEff st (st.res sel)).2.2 with next := (rowsKs st sel lists).w.next })

theorem build_forRows (en : Bool) (sel : Expr) (lists : List (List Nat)) (row : View) (st : St) :
    build (.forRows en sel lists row) st =
      (.rows (newEff st (st.res sel)).1 en sel lists row (rowsKs st sel lists) (mkChain (rowsFold st en sel lists row).1),
       (rowsFold st en sel lists row).2.spawn (newEff st (st.res sel)).1) := rfl

theorem rebuild_scope (sid : Nat) (d : LDef) (kid : View) (m0 sid0 : Nat) (s0 : Bool) (inner : RState) (st : St) :
    rebuild (.scope sid d kid) (.scope m0 sid0 s0 inner) st =
      (.scope (newLocal (killAll st [m0]) sid d).1 sid d.isSig
          (rebuild kid inner { (newLocal (killAll st [m0]) sid d).2 with
            locals := (newLocal (killAll st [m0]) sid d).1 :: (newLocal (killAll st [m0]) sid d).2.locals }).1,
       { (rebuild kid inner { (newLocal (killAll st [m0]) sid d).2 with
            locals := (newLocal (killAll st [m0]) sid d).1 :: (newLocal (killAll st [m0]) sid d).2.locals }).2.1 with
          locals := (newLocal (killAll st [m0]) sid d).2.locals },
       (rebuild kid inner { (newLocal (killAll st [m0]) sid d).2 with
            locals := (newLocal (killAll st [m0]) sid d).1 :: (newLocal (killAll st [m0]) sid d).2.locals }).2.2) := rfl

theorem rowStep_book (en : Bool) (ks : Keyed.KState) (b : St → RState × St) (hb : ∀ st, Book st (b st).2)
    (acc : List (Nat × Option Nat × RState) × St) (ki : Nat × Nat) : Book acc.2 (rowStep en ks b acc ki).2 := by
  unfold rowStep
  dsimp only
  have h0 : Book acc.2 (if en then (acc.2.addDef (.sig (ki.2 : Int))).2 else acc.2) := by
    split
    · exact addDef_book _ _
    · exact Book.refl _
  generalize (if en then (acc.2.addDef (.sig (ki.2 : Int))).2 else acc.2) = s0 at h0
  have h1 := alloc_book s0
  refine (h0.trans h1).trans ?_
  generalize (if en then some acc.2.prog.length else none : Option Nat).toList = ls
  have h2 : Book s0.alloc.2 { s0.alloc.2 with locals := ls, key := (ki.1 : Int) } := Book.of_eq rfl rfl
  have h3 := hb { s0.alloc.2 with locals := ls, key := (ki.1 : Int) }
  exact (h2.trans h3).trans (Book.of_eq rfl rfl)

theorem dropRow_book (items : RState) (st : St) (k : Nat) : Book st (dropRow items st k) := by
  unfold dropRow
  split
  · exact dropState_book _ _
  · exact Book.refl _

theorem bump_book (st : St) (s : Nat) (d : Int) : Book st (bump st s d) := Book.of_eq rfl rfl

theorem bumpTo_book (st : St) : ∀ (h : Option Nat) (d : Int), Book st (bumpTo st h d)
  | none, _ => Book.refl st
  | some s, d => bump_book st s d

theorem clearTok_book (st : St) : ∀ (t : RState), Book st (clearTok st t) := by
  intro t
  induction t with
  | errTok s => exact bump_book st s _
  | hooked h inner ih => simpa only [clearTok] using ih
  | _ => exact Book.refl st

theorem ebOpen_book (st : St) : Book st (ebOpen st) := Book.of_eq rfl rfl

theorem ebClose_book (saved : Option Nat) (s : Nat) (k : RState) (st : St) :
    Book st (ebClose saved s k st).2 := by
  unfold ebClose
  simp only
  have h := newEff_book st (.rd true (s + 1))
  generalize newEff st (.rd true (s + 1)) = r at h ⊢
  obtain ⟨e, v, st1⟩ := r
  simp only at h ⊢
  by_cases hv : (v != 0) = true
  · simp only [hv, if_true]; exact h.trans (Book.of_eq rfl rfl)
  · simp only [hv, if_false]; exact h.trans ((alloc_book st1).trans (Book.of_eq rfl rfl))

theorem underHook_book (h : Option Nat) (f : St → RState × St × Nat) (hf : ∀ st, Book st (f st).2.1) (st : St) :
    Book st (underHook h f st).2.1 := by
  unfold underHook
  exact ((Book.of_eq rfl rfl).trans (hf { st with hook := h })).trans (Book.of_eq rfl rfl)

theorem build_book : ∀ (v : View) (st : St), Book st (build v st).2 := by
  intro v
  induction v with
  | text s => intro st; exact alloc_book st
  | unit => intro st; exact alloc_book st
  | elem tag attrs kid ih =>
    intro st
    exact ((alloc_book st).trans (buildAttrs_book attrs _)).trans (ih _)
  | seq a b iha ihb => intro st; exact (iha st).trans (ihb _)
  | dynText x => intro st; exact ((newEff_book st _).trans (alloc_book _)).trans (spawn_book _ _)
  | either c a b iha ihb =>
    intro st
    simp only [build]
    split
    · exact ((newEff_book st _).trans (iha _)).trans (spawn_book _ _)
    · exact ((newEff_book st _).trans (ihb _)).trans (spawn_book _ _)
  | «show» c a b iha ihb =>
    intro st
    simp only [build]
    split
    · exact (((addDef_book st _).trans (newEff_book _ _)).trans (iha _)).trans (spawn_book _ _)
    · exact (((addDef_book st _).trans (newEff_book _ _)).trans (ihb _)).trans (spawn_book _ _)
  | forKeyed sel lists =>
    intro st
    exact ((newEff_book st _).trans (buildFor_book _ _)).trans (spawn_book _ _)
  | scope sid d kid ih =>
    intro st
    rw [build_scope]
    refine ((newLocal_book st sid d).trans ?_).trans (Book.of_eq rfl rfl)
    exact (Book.of_eq rfl rfl : Book (newLocal st sid d).2 { (newLocal st sid d).2 with
      locals := (newLocal st sid d).1 :: (newLocal st sid d).2.locals }).trans (ih _)
  | forRows en sel lists row ih =>
    intro st
    rw [build_forRows]
    have h1 : Book st { (newEff st (st.res sel)).2.2 with next := (rowsKs st sel lists).w.next } :=
      Book.of_eq rfl rfl
    have h2 := foldl_book (rowStep en (rowsKs st sel lists) (build row)) (rowStep_book _ _ _ ih)
      ((listAt lists (newEff st (st.res sel)).2.1).zip
        (List.range (listAt lists (newEff st (st.res sel)).2.1).length))
      ([], { (newEff st (st.res sel)).2.2 with next := (rowsKs st sel lists).w.next })
    exact (h1.trans h2).trans (spawn_book _ _)
  | eb kid ih =>
    intro st
    simp only [build]
    exact ((ebOpen_book st).trans (ih _)).trans (ebClose_book _ _ _ _)
  | res c x =>
    intro st
    simp only [build]
    have h := newEff_book st (st.res (resBody c x))
    generalize newEff st (st.res (resBody c x)) = r at h ⊢
    obtain ⟨e, v, st1⟩ := r
    simp only at h ⊢
    refine Book.trans (h.trans (alloc_book st1)) ?_
    by_cases hv : (decodeRes v).isNone = true
    · simp only [hv, if_true]; exact (bumpTo_book _ _ _).trans (spawn_book _ _)
    · simp only [hv, if_false]; exact spawn_book _ _

theorem replace_book (v : View) (old : RState) (st : St) : Book st (replace v old st).2.1 :=
  (build_book v st).trans (dropState_book _ _)


theorem rebuildAttr_book (st : St) (a : Attr) (o : AState) : Book st (rebuildAttr st a o).2.1 := by
  unfold rebuildAttr
  split
  · exact Book.refl st
  · exact ((newEff_book st _).trans (spawn_book _ _)).trans (dropEff_book _ _ _)
  · exact ((newEff_book st _).trans (spawn_book _ _)).trans (dropEff_book _ _ _)
  · exact ((newEff_book st _).trans (spawn_book _ _)).trans (dropEff_book _ _ _)
  · exact (buildAttr_book st _).trans (dropAll_book _ _)

theorem rebuildAttrs_book : ∀ (as : List Attr) (os : List AState) (st : St),
    Book st (rebuildAttrs as os st).2.1
  | [], _, st => by simp only [rebuildAttrs]; exact Book.refl st
  | _ :: _, [], st => by simp only [rebuildAttrs]; exact Book.refl st
  | a :: as, o :: os, st => by
    simp only [rebuildAttrs]
    exact (rebuildAttr_book st a o).trans (rebuildAttrs_book as os _)

theorem rebuild_elem (tag : String) (attrs : List Attr) (kid : View) (n : N) (x : String) (as : List AState)
    (k : RState) (st : St) :
    rebuild (.elem tag attrs kid) (.elem n x as k) st =
      (.elem ⟨n.id, n.muts + (rebuildAttrs attrs as st).2.2 + (rebuild kid k (rebuildAttrs attrs as st).2.1).2.2⟩ tag
          (rebuildAttrs attrs as st).1 (rebuild kid k (rebuildAttrs attrs as st).2.1).1,
       (rebuild kid k (rebuildAttrs attrs as st).2.1).2.1, 0) := rfl

theorem rebuild_seq (a b : View) (sa sb : RState) (st : St) :
    rebuild (.seq a b) (.seq sa sb) st =
      (.seq (rebuild a sa st).1 (rebuild b sb (rebuild a sa st).2.1).1,
       (rebuild b sb (rebuild a sa st).2.1).2.1,
       (rebuild a sa st).2.2 + (rebuild b sb (rebuild a sa st).2.1).2.2) := rfl

theorem rebuild_book : ∀ (v : View) (old : RState) (st : St), Book st (rebuild v old st).2.1 := by
  intro v
  induction v with
  | text s =>
    intro old st
    cases old <;> try exact replace_book _ _ _
    next n s' => simp only [rebuild]; split <;> exact Book.refl st
  | unit =>
    intro old st
    cases old <;> try exact replace_book _ _ _
    next n => exact Book.refl st
  | elem tag attrs kid ih =>
    intro old st
    cases old <;> try exact replace_book _ _ _
    next n x as k =>
      rw [rebuild_elem]
      exact (rebuildAttrs_book attrs as st).trans (ih k _)
  | seq a b iha ihb =>
    intro old st
    cases old <;> try exact replace_book _ _ _
    next sa sb =>
      rw [rebuild_seq]
      exact (iha sa st).trans (ihb sb _)
  | dynText x => intro old st; exact replace_book _ _ _
  | either c a b _ _ => intro old st; exact replace_book _ _ _
  | «show» c a b _ _ => intro old st; exact replace_book _ _ _
  | forKeyed sel lists => intro old st; exact replace_book _ _ _
  | scope sid d kid ih =>
    intro old st
    cases old <;> try exact replace_book _ _ _
    next m0 sid0 s0 inner =>
      rw [rebuild_scope]
      refine (((killAll_book st [m0]).trans (newLocal_book (killAll st [m0]) sid d)).trans ?_).trans (Book.of_eq rfl rfl)
      exact (Book.of_eq rfl rfl : Book (newLocal (killAll st [m0]) sid d).2
        { (newLocal (killAll st [m0]) sid d).2 with
          locals := (newLocal (killAll st [m0]) sid d).1 :: (newLocal (killAll st [m0]) sid d).2.locals }).trans (ih _ _)
  | forRows en sel lists row _ => intro old st; exact replace_book _ _ _
  | eb kid _ => intro old st; exact replace_book _ _ _
  | res c x => intro old st; exact replace_book _ _ _


theorem rerunFor_book (st : St) (ks : Keyed.KState) (texts : List (Nat × Nat)) (keys : List Nat) :
    Book st (rerunFor st ks texts keys).2.2.1 := Book.of_eq rfl rfl

theorem setIx_book (items : RState) (st : St) (ki : Nat × Nat) : Book st (setIx items st ki) := by
  unfold setIx
  split
  · exact Book.of_eq rfl rfl
  · exact Book.refl _

theorem rerunRows_book (st : St) (en : Bool) (row : View) (ks : Keyed.KState) (items : RState) (keys : List Nat) :
    Book st (rerunRows st en row ks items keys).2.2.1 := by
  simp only [rerunRows]
  generalize Keyed.rebuild _ keys = ks'
  have h1 : Book st { st with next := ks'.w.next } := Book.of_eq rfl rfl
  have h2 := foldl_book' (dropRow items) (dropRow_book items) ks'.w.log.unmounts { st with next := ks'.w.next }
  generalize ks'.w.log.unmounts.foldl (dropRow items) { st with next := ks'.w.next } = s2 at h2
  have h2' : Book s2 (if en then ks'.w.log.setIndex.foldl (setIx items) s2 else s2) := by
    split
    · exact foldl_book' (setIx items) (setIx_book items) _ _
    · exact Book.refl _
  generalize (if en then ks'.w.log.setIndex.foldl (setIx items) s2 else s2) = s3 at h2'
  have h3 := foldl_book (rowStep en ks' (build row)) (rowStep_book _ _ _ (build_book row))
    ks'.w.log.builds ([], s3)
  exact ((h1.trans h2).trans h2').trans h3

theorem rerunIn_book (e : Nat) (w : Int) : ∀ (t : RState) (st : St), Book st (rerunIn e w t st).2.1 := by
  intro t
  induction t with
  | text n s => intro st; exact Book.refl st
  | unit n => intro st; exact Book.refl st
  | elem n tag as kid ih => intro st; simp only [rerunIn]; exact ih st
  | seq a b iha ihb => intro st; simp only [rerunIn]; exact (iha st).trans (ihb _)
  | dynText e' x n last => intro st; simp only [rerunIn]; split <;> exact Book.refl st
  | either e' c a b left inner ih =>
    intro st
    simp only [rerunIn]
    split
    · split
      · exact rebuild_book _ _ _
      · exact replace_book _ _ _
    · exact ih st
  | «show» e' m c a b left inner ih =>
    intro st
    simp only [rerunIn]
    split
    · split
      · exact rebuild_book _ _ _
      · exact replace_book _ _ _
    · exact ih st
  | forK e' sel lists ks texts =>
    intro st
    simp only [rerunIn]
    split
    · exact rerunFor_book st ks texts _
    · exact Book.refl st
  | scope m sid isSig inner ih => intro st; simp only [rerunIn]; exact ih st
  | rows e' en sel lists row ks items ih =>
    intro st
    simp only [rerunIn]
    split
    · exact rerunRows_book st en row ks items _
    · exact ih st
  | rowCons k ix r rest ihr ihrest => intro st; simp only [rerunIn]; exact (ihr st).trans (ihrest _)
  | rowNil => intro st; exact Book.refl st
  | errb e' m s fb kid ih =>
    intro st
    simp only [rerunIn]
    split
    · split
      · split
        · exact Book.refl st
        · exact Book.refl st
      · split
        · exact Book.refl st
        · exact alloc_book st
    · exact underHook_book _ _ ih st
  | res e' c x n last hook =>
    intro st
    simp only [rerunIn]
    split
    · split
      · exact bumpTo_book _ _ _
      · exact (alloc_book st).trans (bumpTo_book _ _ _)
      · exact (alloc_book st).trans (bumpTo_book _ _ _)
      · exact Book.refl st
    · exact Book.refl st
  | hooked h inner ih =>
    intro st
    simp only [rerunIn]
    exact underHook_book _ _ ih st
  | errTok s => intro st; exact Book.refl st

theorem rerunZombies_book (e : Nat) (w : Int) : ∀ (zs : List (Nat × Option RState)) (st : St),
    Book st (rerunZombies e w zs st).2
  | [], st => Book.refl st
  | (_, none) :: rest, st => by simp only [rerunZombies]; exact rerunZombies_book e w rest st
  | (_, some t) :: rest, st => by
    simp only [rerunZombies]
    exact (rerunIn_book e w t st).trans (rerunZombies_book e w rest _)

theorem rerun_book (st : St) (e : Nat) (w : Int) : Book st (rerun st e w) := by
  unfold rerun
  cases hr : st.root with
  | none =>
    simp only
    have := rerunZombies_book e w st.zombies { st with zombies := [] }
    refine ⟨this.1, fun _ => this.2 hr⟩
  | some t =>
    simp only
    have h1 := rerunIn_book e w t { st with root := none }
    generalize rerunIn e w t { st with root := none } = r at h1
    obtain ⟨t', s1, d⟩ := r
    simp only at h1 ⊢
    have h2 := rerunZombies_book e w
      ({ s1 with root := some t', rootN := ⟨s1.rootN.id, s1.rootN.muts + d⟩ } : St).zombies
      { ({ s1 with root := some t', rootN := ⟨s1.rootN.id, s1.rootN.muts + d⟩ } : St) with zombies := [] }
    refine ⟨h2.1.trans h1.1, fun h => ?_⟩
    rw [hr] at h; cases h

theorem Book.of_rs (st : St) (rs' : State) : Book st { st with rs := rs' } := Book.of_eq rfl rfl

theorem effLoop_book : ∀ (k : Nat) (st : St) (e : Nat), Book st (effLoop k st e)
  | 0, st, _ => Book.refl st
  | k + 1, st, e => by
    simp only [effLoop]
    split
    · exact Book.refl st
    · split
      · refine Book.trans ?_ (effLoop_book k _ e)
        exact (Book.of_rs st _).trans (rerun_book _ _ _)
      · refine Book.trans ?_ (effLoop_book k _ e)
        exact Book.of_rs st _

theorem releaseZombie_book (st : St) (e : Nat) : Book st (releaseZombie st e) := by
  unfold releaseZombie
  generalize (st.zombies.filter fun z => z.1 == e) = mine
  generalize hs0 : ({ st with zombies := st.zombies.filter fun z => !(z.1 == e) } : St) = s0
  have h0 : Book st s0 := by rw [← hs0]; exact Book.of_eq rfl rfl
  clear hs0
  induction mine generalizing s0 with
  | nil => exact h0
  | cons z rest ih =>
    simp only [List.foldl_cons]
    apply ih
    cases z.2 with
    | none => exact h0
    | some t => exact (h0.trans (clearTok_book _ _)).trans (dropState_book _ _)

theorem pollTask_book (st : St) (e : Nat) : Book st (pollTask st e) := by
  unfold pollTask
  simp only
  split
  · exact Book.trans (Book.of_eq rfl rfl) (releaseZombie_book _ _)
  · exact Book.trans (Book.of_eq rfl rfl) (effLoop_book _ _ _)

theorem pollNth_book (st : St) (i : Nat) : Book st (pollNth st i) := by
  unfold pollNth
  simp only
  split
  · exact Book.refl st
  · exact pollTask_book _ _

theorem runIdle_book : ∀ (k : Nat) (st : St), Book st (runIdle k st)
  | 0, st => Book.refl st
  | k + 1, st => by
    simp only [runIdle]
    split
    · exact Book.refl st
    · exact (pollNth_book st 0).trans (runIdle_book k _)

theorem setSig_book (st : St) (id : Nat) (v : Int) : Book st (setSig st id v) := Book.of_eq rfl rfl

theorem dispose_disposed (st : St) : (dispose st).disposed = true ∧ (dispose st).root = none := by
  unfold dispose
  split
  · next t _ =>
    have := dropState_book
      ({ st with root := none, rootN := ⟨st.rootN.id, st.rootN.muts + t.tops⟩, disposed := true } : St) t
    exact ⟨this.1, this.2 rfl⟩
  · next hr => exact ⟨rfl, hr⟩

/-- once disposed, always disposed, and the root never comes back -/
theorem step_disposed (st : St) (op : Op) (h : st.disposed = true ∧ st.root = none) :
    (step st op).disposed = true ∧ (step st op).root = none := by
  cases op with
  | set id v => have := setSig_book st id v; exact ⟨this.1.trans h.1, this.2 h.2⟩
  | poll i => have := pollNth_book st i; exact ⟨this.1.trans h.1, this.2 h.2⟩
  | idle => have := runIdle_book 4096 st; exact ⟨this.1.trans h.1, this.2 h.2⟩
  | dispose => exact dispose_disposed st

end Leptos.RView
