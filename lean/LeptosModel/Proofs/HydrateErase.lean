import LeptosModel.Model.Hydrate
import LeptosModel.Proofs.DomLemmas
/-! Helper lemmas for C05, part 7: erasing a set `Z` of inert nodes (the `<!>` separators that the
server puts between adjacent strings: comments no view state refers to) commutes with every DOM
primitive that does not mention a node of `Z`. -/
namespace Leptos.Hydrate
open Leptos.Dom Leptos.View

def keep (Z : List Id) (x : Id) : Bool := decide (x ∉ Z)

def eraseRec (Z : List Id) (r : NodeRec) : NodeRec := { r with kids := r.kids.filter (keep Z) }

def eraseL (Z : List Id) : List (Id × NodeRec) → List (Id × NodeRec)
  | [] => []
  | (i, r) :: rest => if i ∈ Z then eraseL Z rest else (i, eraseRec Z r) :: eraseL Z rest

/-- the DOM without the nodes of `Z` -/
def erase (d : Dom) (Z : List Id) : Dom := { d with nodes := eraseL Z d.nodes }

@[simp] theorem erase_next (d : Dom) (Z : List Id) : (erase d Z).next = d.next := rfl
@[simp] theorem erase_errs (d : Dom) (Z : List Id) : (erase d Z).errs = d.errs := rfl

theorem keep_iff {Z : List Id} {x : Id} : keep Z x = true ↔ x ∉ Z := by simp [keep]

theorem getL_eraseL (Z : List Id) : ∀ (l : List (Id × NodeRec)) (x : Id),
    getL (eraseL Z l) x = if x ∈ Z then none else (getL l x).map (eraseRec Z)
  | [], x => by simp [eraseL, getL]
  | (i, r) :: rest, x => by
    by_cases hi : i ∈ Z
    · simp only [eraseL, hi, if_true, getL, getL_eraseL Z rest x]
      by_cases hx : i = x
      · subst hx; simp [hi]
      · simp [hx]
    · simp only [eraseL, hi, if_false, getL, getL_eraseL Z rest x]
      by_cases hx : i = x
      · subst hx; simp [hi]
      · simp [hx]

theorem get?_erase (d : Dom) (Z : List Id) (x : Id) :
    (erase d Z).get? x = if x ∈ Z then none else (d.get? x).map (eraseRec Z) := by
  simp [erase, Dom.get?, getL_eraseL]

theorem get?_erase_keep (d : Dom) {Z : List Id} {x : Id} (h : x ∉ Z) :
    (erase d Z).get? x = (d.get? x).map (eraseRec Z) := by
  rw [get?_erase]; simp [h]

theorem getParent_erase (d : Dom) {Z : List Id} {x : Id} (h : x ∉ Z) : (erase d Z).getParent x = d.getParent x := by
  simp only [Dom.getParent, get?_erase_keep d h]
  cases d.get? x <;> rfl

theorem kindOf_erase (d : Dom) {Z : List Id} {x : Id} (h : x ∉ Z) : (erase d Z).kindOf x = d.kindOf x := by
  simp only [Dom.kindOf, get?_erase_keep d h]
  cases d.get? x <;> rfl

theorem isElement_erase (d : Dom) {Z : List Id} {x : Id} (h : x ∉ Z) : (erase d Z).isElement x = d.isElement x := by
  simp only [Dom.isElement, get?_erase_keep d h]
  cases d.get? x <;> rfl

theorem isElement_erase_mem (d : Dom) {Z : List Id} {x : Id} (h : x ∈ Z) : (erase d Z).isElement x = false := by
  simp [Dom.isElement, get?_erase, h]

theorem kidsOf_erase (d : Dom) {Z : List Id} {x : Id} (h : x ∉ Z) :
    (erase d Z).kidsOf x = (d.kidsOf x).filter (keep Z) := by
  simp only [Dom.kidsOf, get?_erase_keep d h]
  cases d.get? x <;> simp [eraseRec]

/-! ### `modify` -/

theorem modL_eraseL (Z : List Id) (f g : NodeRec → NodeRec) (x : Id) (hx : x ∉ Z)
    (hfg : ∀ r, eraseRec Z (f r) = g (eraseRec Z r)) :
    ∀ l : List (Id × NodeRec), eraseL Z (modL f l x) = modL g (eraseL Z l) x
  | [] => rfl
  | (i, r) :: rest => by
    by_cases hix : i = x
    · subst hix
      simp [modL, eraseL, hx, hfg]
    · by_cases hi : i ∈ Z
      · simp [modL, eraseL, hix, hi, modL_eraseL Z f g x hx hfg rest]
      · simp [modL, eraseL, hix, hi, modL_eraseL Z f g x hx hfg rest]

theorem modL_eraseL_mem (Z : List Id) (f : NodeRec → NodeRec) (x : Id) (hx : x ∈ Z) :
    ∀ l : List (Id × NodeRec), eraseL Z (modL f l x) = eraseL Z l
  | [] => rfl
  | (i, r) :: rest => by
    by_cases hix : i = x
    · subst hix; simp [modL, eraseL, hx]
    · by_cases hi : i ∈ Z
      · simp [modL, eraseL, hix, hi, modL_eraseL_mem Z f x hx rest]
      · simp [modL, eraseL, hix, hi, modL_eraseL_mem Z f x hx rest]

theorem modL_absent (f : NodeRec → NodeRec) (x : Id) : ∀ l : List (Id × NodeRec), getL l x = none → modL f l x = l
  | [], _ => rfl
  | (i, r) :: rest, h => by
    by_cases hix : i = x
    · simp [getL, hix] at h
    · simp only [getL, hix, if_false] at h
      simp [modL, hix, modL_absent f x rest h]

theorem erase_modify (d : Dom) (Z : List Id) (x : Id) (f g : NodeRec → NodeRec) (hx : x ∉ Z)
    (hfg : ∀ r, eraseRec Z (f r) = g (eraseRec Z r)) :
    erase (d.modify x f) Z = (erase d Z).modify x g := by
  simp [erase, Dom.modify, modL_eraseL Z f g x hx hfg]

theorem erase_modify_mem (d : Dom) (Z : List Id) (x : Id) (f g : NodeRec → NodeRec) (hx : x ∈ Z) :
    erase (d.modify x f) Z = (erase d Z).modify x g := by
  have h1 : getL (eraseL Z d.nodes) x = none := by simp [getL_eraseL, hx]
  simp [erase, Dom.modify, modL_eraseL_mem Z f x hx, modL_absent g x _ h1]

theorem erase_err (d : Dom) (Z : List Id) (m : String) : erase (d.err m) Z = (erase d Z).err m := rfl

theorem erase_create (d : Dom) (Z : List Id) (k : Kind) (s : String) (h : d.next ∉ Z) :
    erase (d.create k s).1 Z = ((erase d Z).create k s).1 := by
  simp [erase, Dom.create, eraseL, h, eraseRec]

/-! ### the primitives -/

theorem erase_setText (d : Dom) (Z : List Id) (x : Id) (s : String) (hx : x ∉ Z) :
    erase (d.setText x s) Z = (erase d Z).setText x s := by
  unfold Dom.setText
  rw [kindOf_erase d hx]
  split
  · exact erase_modify d Z x _ _ hx (fun r => rfl)
  · exact erase_modify d Z x _ _ hx (fun r => rfl)
  · rfl

theorem erase_setAttribute (d : Dom) (Z : List Id) (x : Id) (n v : String) (hx : x ∉ Z) :
    erase (d.setAttribute x n v) Z = (erase d Z).setAttribute x n v := by
  unfold Dom.setAttribute
  rw [isElement_erase d hx]
  split
  · exact erase_modify d Z x _ _ hx (fun r => rfl)
  · rfl

theorem erase_removeAttribute (d : Dom) (Z : List Id) (x : Id) (n : String) (hx : x ∉ Z) :
    erase (d.removeAttribute x n) Z = (erase d Z).removeAttribute x n := by
  unfold Dom.removeAttribute
  rw [isElement_erase d hx]
  split
  · refine erase_modify d Z x _ _ hx (fun r => ?_)
    simp only [eraseRec]
    cases getA r.attrs n <;> rfl
  · rfl

theorem filter_keep_ne (Z : List Id) (c : Id) (l : List Id) :
    (l.filter (· != c)).filter (keep Z) = (l.filter (keep Z)).filter (· != c) := by
  rw [List.filter_filter, List.filter_filter]
  congr 1
  funext a
  exact Bool.and_comm _ _

theorem erase_detach (d : Dom) (Z : List Id) (c : Id) (hc : c ∉ Z) :
    erase (d.detach c) Z = (erase d Z).detach c := by
  unfold Dom.detach
  rw [getParent_erase d hc]
  cases hp : d.getParent c with
  | none => rfl
  | some p =>
    simp only []
    have e1 : ∀ dd : Dom, erase (dd.modify c fun r => { r with parent := none }) Z =
        (erase dd Z).modify c fun r => { r with parent := none } :=
      fun dd => erase_modify dd Z c _ _ hc (fun r => rfl)
    rw [e1]
    by_cases hpz : p ∈ Z
    · rw [erase_modify_mem d Z p _ (fun r => { r with kids := r.kids.filter (· != c), muts := r.muts + 1 }) hpz]
    · rw [erase_modify d Z p _ (fun r => { r with kids := r.kids.filter (· != c), muts := r.muts + 1 }) hpz
          (fun r => by simp only [eraseRec, filter_keep_ne])]

theorem erase_remove (d : Dom) (Z : List Id) (c : Id) (hc : c ∉ Z) :
    erase (d.remove c) Z = (erase d Z).remove c := erase_detach d Z c hc

theorem insBefore_filter (Z : List Id) (c a : Id) (hc : c ∉ Z) (ha : a ∉ Z) : ∀ l : List Id,
    (insBefore l c a).filter (keep Z) = insBefore (l.filter (keep Z)) c a
  | [] => by simp [insBefore, keep_iff.mpr hc]
  | k :: ks => by
    by_cases hka : k = a
    · subst hka
      simp [insBefore, keep_iff.mpr hc, keep_iff.mpr ha]
    · by_cases hk : keep Z k = true
      · simp [insBefore, hka, hk, insBefore_filter Z c a hc ha ks]
      · simp [insBefore, hka, hk, insBefore_filter Z c a hc ha ks]

theorem insAt_filter (Z : List Id) (c : Id) (m : Option Id) (hc : c ∉ Z) (hm : ∀ a, m = some a → a ∉ Z)
    (l : List Id) : (insAt l c m).filter (keep Z) = insAt (l.filter (keep Z)) c m := by
  cases m with
  | none => simp [insAt, keep_iff.mpr hc]
  | some a => simpa [insAt] using insBefore_filter Z c a hc (hm a rfl) l

/-- `insert_node` commutes with the erasure when child and anchor are outside `Z`, the anchor is
not the child itself, and no node of `Z` is an element -/
theorem erase_insertNode (d : Dom) (Z : List Id) (p c : Id) (m : Option Id)
    (hZ : ∀ z ∈ Z, d.isElement z = false) (hc : c ∉ Z) (hm : ∀ a, m = some a → a ∉ Z ∧ a ≠ c) :
    erase (d.insertNode p c m) Z = (erase d Z).insertNode p c m := by
  by_cases hpz : p ∈ Z
  · have h1 : d.isElement p = false := hZ p hpz
    have h2 : (erase d Z).isElement p = false := isElement_erase_mem d hpz
    simp [Dom.insertNode, h1, h2, erase_err]
  · have e1 : ∀ dd : Dom, erase (dd.modify c fun r => { r with parent := some p }) Z =
        (erase dd Z).modify c fun r => { r with parent := some p } :=
      fun dd => erase_modify dd Z c _ _ hc (fun r => rfl)
    have e2 : ∀ (dd : Dom) (an : Option Id), (∀ a, an = some a → a ∉ Z) →
        erase (dd.modify p fun r => { r with kids := insAt r.kids c an, muts := r.muts + 1 }) Z =
        (erase dd Z).modify p fun r => { r with kids := insAt r.kids c an, muts := r.muts + 1 } :=
      fun dd an han => erase_modify dd Z p _ _ hpz (fun r => by simp [eraseRec, insAt_filter Z c an hc han])
    by_cases hel : d.isElement p = true
    · have hel' : (erase d Z).isElement p = true := by rw [isElement_erase d hpz]; exact hel
      cases m with
      | none =>
        simp only [Dom.insertNode, hel, hel', Bool.not_true, Bool.false_eq_true, if_false]
        rw [e1, e2 _ none (by simp), erase_detach d Z c hc]
      | some a =>
        obtain ⟨haz, hac⟩ := hm a rfl
        simp only [Dom.insertNode, hel, hel', Bool.not_true, Bool.false_eq_true, if_false,
          getParent_erase d haz, hac]
        split
        · rfl
        · rw [e1, e2 _ (some a) (by intro b hb; cases hb; exact haz), erase_detach d Z c hc]
    · have hel' : (erase d Z).isElement p = false := by
        rw [isElement_erase d hpz]; simpa using hel
      have hel2 : d.isElement p = false := by simpa using hel
      simp [Dom.insertNode, hel2, hel', erase_err]

end Leptos.Hydrate
