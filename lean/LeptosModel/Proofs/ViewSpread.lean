import LeptosModel.Model.View
/-! # Proofs/ViewSpread — attribute spreading (`view.add_any_attr(attr)`) keeps a view well typed

`View.spread` / `Ty.spread` (Model/View.lean) add the item as the last attribute of every top-level
element.  Provided the item's key is new on those elements (`spreadKeysOk`, decidable), a value of a
well-formed type stays a value of a well-formed type, so every C03 theorem speaks about spread views
too.  (Type erasure and the `into_cloneable[_owned]` conversions need no theorem: the model has one
string type, the forms are the same `AttrVal`.) -/
namespace Leptos.View

mutual
/-- the key of `a` is new on every top-level element of the type -/
def Ty.spreadKeysOk (a : AttrTy) : Ty → Bool
  | .elem _ as _ => nodupS (namedKeys (as ++ [a]))
  | .tuple ts => Ty.spreadKeysOkList a ts
  | .opt t => Ty.spreadKeysOk a t
  | .either ts => Ty.spreadKeysOkList a ts
  | .vec t => Ty.spreadKeysOk a t
  | .arr _ t => Ty.spreadKeysOk a t
  | _ => true
def Ty.spreadKeysOkList (a : AttrTy) : List Ty → Bool
  | [] => true
  | t :: ts => Ty.spreadKeysOk a t && Ty.spreadKeysOkList a ts
end

mutual
/-- ... and on the top-level elements of the contents of the `AnyView`s the spreading reaches -/
def View.spreadKeysOk (a : AttrTy) : View → Bool
  | .tuple vs => View.spreadKeysOkList a vs
  | .osome v => View.spreadKeysOk a v
  | .either _ _ v => View.spreadKeysOk a v
  | .vec vs => View.spreadKeysOkList a vs
  | .any t v => Ty.spreadKeysOk a t && View.spreadKeysOk a v
  | _ => true
def View.spreadKeysOkList (a : AttrTy) : List View → Bool
  | [] => true
  | v :: vs => View.spreadKeysOk a v && View.spreadKeysOkList a vs
end

theorem spreadList_length (a : AttrTy) : ∀ ts, (Ty.spreadList a ts).length = ts.length
  | [] => rfl
  | _ :: ts => by simp [Ty.spreadList, spreadList_length a ts]

theorem spreadList_isEmpty (a : AttrTy) : ∀ ts, (Ty.spreadList a ts).isEmpty = ts.isEmpty
  | [] => rfl
  | _ :: _ => rfl

mutual
theorem nodeful_spread (a : AttrTy) : ∀ t, Ty.nodeful (Ty.spread a t) = Ty.nodeful t
  | .text => rfl
  | .unit => rfl
  | .any => rfl
  | .elem _ _ _ => rfl
  | .tuple ts => by simp only [Ty.spread, Ty.nodeful]; exact nodefulAny_spread a ts
  | .opt t => by simp only [Ty.spread, Ty.nodeful]; exact nodeful_spread a t
  | .either ts => by simp only [Ty.spread, Ty.nodeful]; exact nodefulAll_spread a ts
  | .vec _ => rfl
  | .arr n t => by simp only [Ty.spread, Ty.nodeful, nodeful_spread a t]
theorem nodefulAny_spread (a : AttrTy) : ∀ ts, Ty.nodefulAny (Ty.spreadList a ts) = Ty.nodefulAny ts
  | [] => rfl
  | t :: ts => by simp only [Ty.spreadList, Ty.nodefulAny, nodeful_spread a t, nodefulAny_spread a ts]
theorem nodefulAll_spread (a : AttrTy) : ∀ ts, Ty.nodefulAll (Ty.spreadList a ts) = Ty.nodefulAll ts
  | [] => rfl
  | t :: ts => by simp only [Ty.spreadList, Ty.nodefulAll, nodeful_spread a t, nodefulAll_spread a ts]
end

mutual
theorem wf_spread (a : AttrTy) : ∀ t, Ty.wf t = true → Ty.spreadKeysOk a t = true →
    Ty.wf (Ty.spread a t) = true
  | .text, _, _ => rfl
  | .unit, _, _ => rfl
  | .any, _, _ => rfl
  | .elem tag as c, h, hk => by
    simp only [Ty.wf, Bool.and_eq_true] at h
    simp only [Ty.spreadKeysOk] at hk
    simp only [Ty.spread, Ty.wf, Bool.and_eq_true]
    exact ⟨⟨hk, h.1.2⟩, h.2⟩
  | .tuple ts, h, hk => by
    simp only [Ty.wf, Bool.and_eq_true] at h
    simp only [Ty.spreadKeysOk] at hk
    simp only [Ty.spread, Ty.wf, Bool.and_eq_true, spreadList_isEmpty]
    exact ⟨h.1, wfList_spread a ts h.2 hk⟩
  | .opt t, h, hk => by
    simp only [Ty.wf, Bool.and_eq_true] at h
    simp only [Ty.spreadKeysOk] at hk
    simp only [Ty.spread, Ty.wf, Bool.and_eq_true, nodeful_spread]
    exact ⟨wf_spread a t h.1 hk, h.2⟩
  | .either ts, h, hk => by
    simp only [Ty.wf, Bool.and_eq_true] at h
    simp only [Ty.spreadKeysOk] at hk
    simp only [Ty.spread, Ty.wf, Bool.and_eq_true, spreadList_length, nodefulAll_spread]
    exact ⟨⟨h.1.1, wfList_spread a ts h.1.2 hk⟩, h.2⟩
  | .vec t, h, hk => by
    simp only [Ty.wf] at h
    simp only [Ty.spreadKeysOk] at hk
    simp only [Ty.spread, Ty.wf]
    exact wf_spread a t h hk
  | .arr n t, h, hk => by
    simp only [Ty.wf] at h
    simp only [Ty.spreadKeysOk] at hk
    simp only [Ty.spread, Ty.wf]
    exact wf_spread a t h hk
theorem wfList_spread (a : AttrTy) : ∀ ts, Ty.wfList ts = true → Ty.spreadKeysOkList a ts = true →
    Ty.wfList (Ty.spreadList a ts) = true
  | [], _, _ => rfl
  | t :: ts, h, hk => by
    simp only [Ty.wfList, Bool.and_eq_true] at h
    simp only [Ty.spreadKeysOkList, Bool.and_eq_true] at hk
    simp only [Ty.spreadList, Ty.wfList, Bool.and_eq_true]
    exact ⟨wf_spread a t h.1 hk.1, wfList_spread a ts h.2 hk.2⟩
end

theorem spreadList_get (a : AttrTy) : ∀ (ts : List Ty) (i : Nat),
    (Ty.spreadList a ts)[i]? = (ts[i]?).map (Ty.spread a)
  | [], _ => rfl
  | _ :: _, 0 => rfl
  | _ :: ts, i + 1 => by simpa [Ty.spreadList] using spreadList_get a ts i

theorem spreadViews_length (a : AttrVal) : ∀ vs, (View.spreadList a vs).length = vs.length
  | [] => rfl
  | _ :: vs => by simp [View.spreadList, spreadViews_length a vs]

mutual
theorem hasTy_spread (a : AttrVal) : ∀ (v : View) (ty : Ty), hasTy v ty = true →
    View.spreadKeysOk a.ty v = true → hasTy (View.spread a v) (Ty.spread a.ty ty) = true
  | .text _, ty, h, _ => by cases ty <;> simp_all [hasTy, View.spread, Ty.spread]
  | .unit, ty, h, _ => by cases ty <;> simp_all [hasTy, View.spread, Ty.spread]
  | .onone, ty, h, _ => by cases ty <;> simp_all [hasTy, View.spread, Ty.spread]
  | .elem tag as c, ty, h, _ => by
    cases ty with
    | elem tag' ats ct =>
      simp only [hasTy, Bool.and_eq_true, beq_iff_eq] at h
      simp only [View.spread, Ty.spread, hasTy, Bool.and_eq_true, beq_iff_eq, List.map_append,
        List.map_cons, List.map_nil]
      exact ⟨⟨h.1.1, by rw [h.1.2]⟩, h.2⟩
    | _ => simp [hasTy] at h
  | .tuple vs, ty, h, hk => by
    simp only [View.spreadKeysOk] at hk
    cases ty with
    | arr n t =>
      simp only [hasTy, Bool.and_eq_true, beq_iff_eq] at h
      simp only [View.spread, Ty.spread, hasTy, Bool.and_eq_true, beq_iff_eq, spreadViews_length]
      exact ⟨h.1, hasTyAll_spread a vs t h.2 hk⟩
    | tuple ts =>
      simp only [hasTy] at h
      simp only [View.spread, Ty.spread, hasTy]
      exact hasTyList_spread a vs ts h hk
    | _ => simp [hasTy] at h
  | .osome v, ty, h, hk => by
    simp only [View.spreadKeysOk] at hk
    cases ty with
    | opt t =>
      simp only [hasTy] at h
      simp only [View.spread, Ty.spread, hasTy]
      exact hasTy_spread a v t h hk
    | _ => simp [hasTy] at h
  | .either n i v, ty, h, hk => by
    simp only [View.spreadKeysOk] at hk
    cases ty with
    | either ts =>
      simp only [hasTy, Bool.and_eq_true, beq_iff_eq] at h
      simp only [View.spread, Ty.spread, hasTy, Bool.and_eq_true, beq_iff_eq, spreadList_length,
        spreadList_get]
      refine ⟨h.1, ?_⟩
      cases hg : ts[i]? with
      | none => simp [hg] at h
      | some t =>
        simp only [hg] at h
        simp only [Option.map_some]
        exact hasTy_spread a v t h.2 hk
    | _ => simp [hasTy] at h
  | .vec vs, ty, h, hk => by
    simp only [View.spreadKeysOk] at hk
    cases ty with
    | vec t =>
      simp only [hasTy] at h
      simp only [View.spread, Ty.spread, hasTy]
      exact hasTyAll_spread a vs t h hk
    | _ => simp [hasTy] at h
  | .any t v, ty, h, hk => by
    simp only [View.spreadKeysOk, Bool.and_eq_true] at hk
    cases ty with
    | any =>
      simp only [hasTy, Bool.and_eq_true] at h
      simp only [View.spread, Ty.spread, hasTy, Bool.and_eq_true, nodeful_spread]
      exact ⟨⟨wf_spread a.ty t h.1.1 hk.1, h.1.2⟩, hasTy_spread a v t h.2 hk.2⟩
    | _ => simp [hasTy] at h
theorem hasTyList_spread (a : AttrVal) : ∀ (vs : List View) (ts : List Ty), hasTyList vs ts = true →
    View.spreadKeysOkList a.ty vs = true →
    hasTyList (View.spreadList a vs) (Ty.spreadList a.ty ts) = true
  | [], [], _, _ => rfl
  | [], _ :: _, h, _ => by simp [hasTyList] at h
  | _ :: _, [], h, _ => by simp [hasTyList] at h
  | v :: vs, t :: ts, h, hk => by
    simp only [hasTyList, Bool.and_eq_true] at h
    simp only [View.spreadKeysOkList, Bool.and_eq_true] at hk
    simp only [View.spreadList, Ty.spreadList, hasTyList, Bool.and_eq_true]
    exact ⟨hasTy_spread a v t h.1 hk.1, hasTyList_spread a vs ts h.2 hk.2⟩
theorem hasTyAll_spread (a : AttrVal) : ∀ (vs : List View) (t : Ty), hasTyAll vs t = true →
    View.spreadKeysOkList a.ty vs = true →
    hasTyAll (View.spreadList a vs) (Ty.spread a.ty t) = true
  | [], _, _, _ => rfl
  | v :: vs, t, h, hk => by
    simp only [hasTyAll, Bool.and_eq_true] at h
    simp only [View.spreadKeysOkList, Bool.and_eq_true] at hk
    simp only [View.spreadList, hasTyAll, Bool.and_eq_true]
    exact ⟨hasTy_spread a v t h.1 hk.1, hasTyAll_spread a vs t h.2 hk.2⟩
end

/-- **Spreading keeps a view well typed**: a value of a well-formed type, spread with an item whose
key is new on the elements it reaches, is a value of the (well-formed) spread type. -/
theorem HasTy.spread {v : View} {ty : Ty} (a : AttrVal) (h : HasTy v ty)
    (hk : Ty.spreadKeysOk a.ty ty = true) (hv : View.spreadKeysOk a.ty v = true) :
    HasTy (View.spread a v) (Ty.spread a.ty ty) :=
  ⟨wf_spread a.ty ty h.1 hk, hasTy_spread a v ty h.2 hv⟩

end Leptos.View
