import LeptosModel.Proofs.KeyedLife
/-!
# A keyed list as an item of a keyed list (C11, lifted assumption "items are plain element blocks")

The block of such an item is the region of the inner list: the blocks of the inner items followed by the
inner list's marker. The inner list is itself mounted — between the outer list's leading siblings plus the
blocks before it, and the blocks after it plus the outer marker and the following siblings — so the theorems
about one list apply to it, and an update of the inner list is, for the outer list, the replacement of one
block by another one at the same place.
-/
namespace Leptos.Keyed

/-- the outer item `x` *is* the inner list `i`: same parent, same id counter, and the item's block is the inner
list's region -/
structure IsInner (s : KState) (x : Item) (i : KState) : Prop where
  kids : i.w.kids = s.w.kids
  next : i.w.next = s.w.next
  block : x.nodes = blocksOf i.w.storage ++ [i.marker]

/-- **the inner list is mounted inside the outer one** -/
theorem nested_inner_mounted (s : KState) (pre post : List NodeId) (A B : List Item) (x : Item) (i : KState)
    (hm : Mounted pre post s) (hsplit : somes s.w.storage = A ++ x :: B) (hi : IsInner s x i)
    (hne : ∀ z ∈ somes i.w.storage, z.nodes ≠ []) (hbs : 0 < i.bs) (hp : i.parent = true) :
    Mounted (pre ++ blocks A) (blocks B ++ s.marker :: post) i := by
  have hk : s.w.kids = pre ++ blocks (somes s.w.storage) ++ s.marker :: post := hm.ordered
  refine ⟨?_, by rw [hi.kids]; exact hm.nodup, hne, ?_, hbs, hp⟩
  · rw [hi.kids, hk, hsplit, blocks_append, blocks_cons, hi.block]
    simp [List.append_assoc]
  · intro n hn
    rw [hi.next]
    exact hm.fresh n (hi.kids ▸ hn)

/-- the outer list after the inner list `i` of its item `x` has become `i'` -/
def withInner (s : KState) (A B : List Item) (x : Item) (i' : KState) : KState :=
  { s with w := { s.w with
      kids := i'.w.kids, next := i'.w.next,
      storage := A.map some ++ some { x with nodes := blocksOf i'.w.storage ++ [i'.marker] } :: B.map some } }

theorem somes_append (a b : List (Option Item)) : somes (a ++ b) = somes a ++ somes b := by
  simp [somes, List.filterMap_append]

theorem somes_withInner (s : KState) (A B : List Item) (x : Item) (i' : KState) :
    somes (withInner s A B x i').w.storage
      = A ++ { x with nodes := blocksOf i'.w.storage ++ [i'.marker] } :: B := by
  simp only [withInner]
  rw [somes_append, somes_map_some]
  show A ++ somes (some _ :: B.map some) = _
  rw [somes_cons_some, somes_map_some]

/-- **an update of the inner list keeps the outer list mounted in order**: after `rebuild` of the inner
list (any duplicate-free inner keys), the outer list — whose item `x` now owns the new inner region — is
again `Wf` and `Mounted` between the same siblings -/
theorem nested_inner_update (s : KState) (pre post : List NodeId) (A B : List Item) (x : Item) (i : KState)
    (to : List Key) (hs : Wf s) (hm : Mounted pre post s) (hsplit : somes s.w.storage = A ++ x :: B)
    (hi : IsInner s x i) (hiw : Wf i) (hne : ∀ z ∈ somes i.w.storage, z.nodes ≠ []) (hbs : 0 < i.bs)
    (hp : i.parent = true) (hto : to.Nodup) :
    Wf (withInner s A B x (rebuild i to)) ∧ Mounted pre post (withInner s A B x (rebuild i to)) ∧
    Mounted (pre ++ blocks A) (blocks B ++ s.marker :: post) (rebuild i to) := by
  have him := nested_inner_mounted s pre post A B x i hm hsplit hi hne hbs hp
  have him' : Mounted (pre ++ blocks A) (blocks B ++ s.marker :: post) (rebuild i to) :=
    rebuild_mounted diff diffLike_diff i to _ _ hiw him hto (settledMonotone_diff i.hashed to hiw.nodup hto)
  have hso := somes_withInner s A B x (rebuild i to)
  refine ⟨⟨?_, ?_, hs.nodup⟩, ⟨?_, ?_, ?_, ?_, hm.bs_pos, hm.has_parent⟩, him'⟩
  · rw [hso]
    simp [withInner]
  · rw [hso]
    show _ = s.hashed
    rw [← hs.keys, hsplit]
    simp
  · show (rebuild i to).w.kids = pre ++ blocksOf (withInner s A B x (rebuild i to)).w.storage ++ s.marker :: post
    rw [him'.ordered]
    have : blocksOf (withInner s A B x (rebuild i to)).w.storage
        = blocks (somes (withInner s A B x (rebuild i to)).w.storage) := rfl
    rw [this, hso, blocks_append, blocks_cons]
    simp [List.append_assoc, blocksOf_eq]
  · exact him'.nodup
  · intro z hz
    rw [hso] at hz
    simp only [List.mem_append, List.mem_cons] at hz
    rcases hz with h | rfl | h
    · exact hm.nonempty z (by rw [hsplit]; simp [h])
    · simp
    · exact hm.nonempty z (by rw [hsplit]; simp [h])
  · exact him'.fresh

/-- **an update of the outer list moves the nested lists as blocks and keeps them mounted**: after `rebuild`
of the outer list with keys that still contain `x.key`, the item is the same item, the outer list is mounted
in order, and the inner list (seen in the new parent state) is mounted in its new surroundings -/
theorem nested_outer_update (s : KState) (pre post : List NodeId) (x : Item) (i : KState) (to : List Key)
    (hs : Wf s) (hm : Mounted pre post s) (hx : x ∈ somes s.w.storage) (hi : IsInner s x i)
    (hne : ∀ z ∈ somes i.w.storage, z.nodes ≠ []) (hbs : 0 < i.bs) (hp : i.parent = true)
    (hto : to.Nodup) (hk : x.key ∈ to) :
    Mounted pre post (rebuild s to) ∧
    ∃ A' B', somes (rebuild s to).w.storage = A' ++ x :: B' ∧
      Mounted (pre ++ blocks A') (blocks B' ++ s.marker :: post)
        { i with w := { i.w with kids := (rebuild s to).w.kids, next := (rebuild s to).w.next } } := by
  have hm' : Mounted pre post (rebuild s to) :=
    rebuild_mounted diff diffLike_diff s to pre post hs hm hto (settledMonotone_diff s.hashed to hs.nodup hto)
  -- identity: the item is still stored
  have sm : Summary s.hashed to (somes s.w.storage) (rebuild s to).w :=
    (applyDiff_summary diff diffLike_diff s.hashed to (somes s.w.storage) hs.nodup hto hs.keys s.bs s.marker
      { s.w with log := {} } hs.all_some rfl).of_sim (rebuildWith_sim diff s to)
  have hx' : x ∈ somes (rebuild s to).w.storage := by
    obtain ⟨i0, hi0⟩ := List.mem_iff_getElem?.mp hx
    obtain ⟨j, hj⟩ := List.mem_iff_getElem?.mp hk
    have hfi : s.hashed[i0]? = some x.key := by rw [← hs.keys, List.getElem?_map, hi0]; rfl
    obtain ⟨it', hit', _, hold⟩ := sm.at_ j x.key hj
    have := hold i0 hfi
    rw [hi0] at this
    simp only [Option.some.injEq] at this
    subst this
    exact List.mem_of_getElem? hit'
  obtain ⟨A', B', hAB⟩ := List.append_of_mem hx'
  refine ⟨hm', A', B', hAB, ?_⟩
  exact nested_inner_mounted (rebuild s to) pre post A' B' x _ hm' hAB
    ⟨rfl, rfl, hi.block⟩ hne hbs hp

end Leptos.Keyed
