import LeptosModel.Proofs.KeyedOrder
import LeptosModel.Proofs.KeyedSummary
import LeptosModel.Proofs.KeyedDetached
/-!
# `rebuild` keeps a mounted keyed list well-formed and — under `settledMonotone` — in order (C11)
-/
namespace Leptos.Keyed

/-- the list is mounted between the siblings `pre` and `post`: the parent's children are `pre`, the
blocks of the stored items in storage order, the list's marker, `post`; no node occurs twice; every
item owns at least one node; all node ids are below the id counter -/
structure Mounted (pre post : List NodeId) (s : KState) : Prop where
  ordered : s.w.kids = pre ++ blocksOf s.w.storage ++ s.marker :: post
  nodup : s.w.kids.Nodup
  nonempty : ∀ z ∈ somes s.w.storage, z.nodes ≠ []
  fresh : ∀ n ∈ s.w.kids, n < s.w.next
  bs_pos : 0 < s.bs
  /-- `mount` has recorded the parent (`rebuild` updates the DOM) -/
  has_parent : s.parent = true

theorem foldl_erase_all (old : List Item) : (old.filter fun z => !old.contains z) = [] :=
  List.filter_eq_nil_iff.mpr (by intro a ha; simpa using ha)

theorem rebuild_mounted (D : List Key → List Key → Diff) (hD : DiffLike D) (s : KState) (to : List Key) (pre post : List NodeId) (hs : Wf s)
    (hm : Mounted pre post s) (hto : to.Nodup) (hsm : settledMonotone D s.hashed to = true) :
    Mounted pre post (rebuildWith D s to) := by
  have hw : ({ s.w with log := {} } : World).storage = (somes s.w.storage).map some := hs.all_some
  have hk : s.w.kids = pre ++ blocks (somes s.w.storage) ++ s.marker :: post := hm.ordered
  have hkn : (pre ++ blocks (somes s.w.storage) ++ s.marker :: post).Nodup := hk ▸ hm.nodup
  have hbo : (blocks (somes s.w.storage)).Nodup := (List.nodup_append.mp (List.nodup_append.mp hkn).1).2.1
  have hold : (somes s.w.storage).Nodup := nodup_of_blocks_nodup hbo hm.nonempty
  by_cases hte : to = []
  · subst hte
    by_cases hfe : s.hashed = []
    · have ho : somes s.w.storage = [] := by
        have := hs.keys; rw [hfe] at this; simpa using this
      have hst : s.w.storage = [] := by rw [hs.all_some, ho]; rfl
      have hd : D s.hashed [] = {} := by rw [hfe]; exact hD.nil_nil
      have : (rebuildWith D s []).w = { s.w with log := {} } := by
        rw [rebuildWith_w_of_parent D s [] hm.has_parent, hd]
        simp [applyDiff, unpackMoves, unpackLoop, hst]
      exact ⟨by rw [this]; exact hm.ordered, by rw [this]; exact hm.nodup,
        by rw [this]; exact hm.nonempty, by rw [this]; exact hm.fresh, hm.bs_pos, hm.has_parent⟩
    · have hd : D s.hashed [] = { clear := true } := hD.to_nil _ hfe
      have hwr : (rebuildWith D s []).w = clearPhase { s.w with log := {} } := by
        rw [rebuildWith_w_of_parent D s [] hm.has_parent, hd]; simp [applyDiff]
      have hcl := clearPhase_eq { s.w with log := {} } (somes s.w.storage) hw
      have hkids : (rebuildWith D s []).w.kids = pre ++ blocks [] ++ s.marker :: post := by
        rw [hwr, hcl]
        simp only
        rw [hk, unmount_fold_region pre post s.marker _ _ hkn hm.nonempty hold (fun x hx => hx),
          foldl_erase_all]
      have hst : (rebuildWith D s []).w.storage = [] := by rw [hwr, hcl]
      refine ⟨?_, ?_, ?_, ?_, hm.bs_pos, hm.has_parent⟩
      · rw [hkids, hst]; rfl
      · rw [hwr, hcl]; exact (unmount_fold_nodup _ hm.nodup).1
      · rw [hst]; intro z hz; simp [somes] at hz
      · rw [hwr, hcl]
        intro n hn
        exact hm.fresh n ((unmount_fold_nodup _ hm.nodup).2 n hn)
  · obtain ⟨rem, U, ads, c, hn, hU, heq⟩ := applyDiff_spec D hD s.hashed to (somes s.w.storage) hs.nodup hto
      hs.keys hte s.bs s.marker { s.w with log := {} } hw
    have hwr : (rebuildWith D s to).w = pipeline s.bs s.marker to rem U ads ads.length { s.w with log := {} } :=
      (rebuildWith_w_of_parent D s to hm.has_parent).trans heq
    obtain ⟨hord, hnd'⟩ := c.dom_order hn hU hsm s.bs s.marker { s.w with log := {} } pre post hw hk
      hm.nodup hm.nonempty hm.fresh hm.bs_pos
    have hcl := c.pipeline_closed hn s.bs s.marker { s.w with log := {} } hw
    obtain ⟨_, _, hat⟩ := c.final_storage s.bs s.w.next
    have hst : (rebuildWith D s to).w.storage = (storage7 (somes s.w.storage) rem U ads s.bs to s.w.next).filter Option.isSome := by
      rw [hwr, hcl]
    have hnext : (rebuildWith D s to).w.next = s.w.next + s.bs * ads.length := by rw [hwr, hcl]
    -- every stored item is an old one or one built for an addition
    have hitems : ∀ z ∈ somes (rebuildWith D s to).w.storage,
        z ∈ somes s.w.storage ∨ ∃ j, (j, z) ∈ addPlacements s.bs to s.w.next ads := by
      intro z hz
      rw [hst] at hz
      obtain ⟨j, hj⟩ := List.mem_iff_getElem?.mp hz
      have hjlt : j < to.length := by
        have := (List.getElem?_eq_some_iff.mp hj).1
        have h2 := (c.final_storage s.bs s.w.next).2.1
        omega
      obtain ⟨it, hit, _, hold', hnew'⟩ := hat j to[j] (List.getElem?_eq_getElem hjlt)
      rw [hj] at hit
      simp only [Option.some.injEq] at hit
      subst hit
      by_cases hkf : to[j] ∈ s.hashed
      · obtain ⟨i, hi⟩ := List.mem_iff_getElem?.mp hkf
        exact Or.inl (List.mem_of_getElem? (hold' i hi))
      · exact Or.inr ⟨j, hnew' hkf⟩
    have hnonempty : ∀ z ∈ somes (rebuildWith D s to).w.storage, z.nodes ≠ [] := by
      intro z hz
      rcases hitems z hz with h | ⟨j, h⟩
      · exact hm.nonempty z h
      · exact (addPlacements_nodes h).2.2 hm.bs_pos
    refine ⟨by rw [hwr]; exact hord, by rw [hwr]; exact hnd', hnonempty, ?_, hm.bs_pos, hm.has_parent⟩
    intro n hn'
    rw [hnext]
    have hord' : (rebuildWith D s to).w.kids
        = pre ++ blocks (somes (rebuildWith D s to).w.storage) ++ s.marker :: post := by rw [hwr]; exact hord
    rw [hord'] at hn'
    have hlt_old : ∀ n, n ∈ s.w.kids → n < s.w.next + s.bs * ads.length :=
      fun n h => Nat.lt_of_lt_of_le (hm.fresh n h) (Nat.le_add_right _ _)
    simp only [List.mem_append, List.mem_cons] at hn'
    rcases hn' with (hp | hb) | hmk | hp
    · exact hlt_old n (by rw [hk]; simp [hp])
    · obtain ⟨z, hz, hnz⟩ := mem_blocks.mp hb
      rcases hitems z hz with h | ⟨j, h⟩
      · exact hlt_old n (by
          rw [hk]; simp only [List.mem_append]
          exact Or.inl (Or.inr (mem_blocks.mpr ⟨z, h, hnz⟩)))
      · exact ((addPlacements_nodes h).1 n hnz).2
    · exact hlt_old n (by rw [hk, hmk]; simp)
    · exact hlt_old n (by rw [hk]; simp [hp])

theorem mem_place1 {marker : NodeId} {kids : List NodeId} {st : List (Option Item)} {p : Nat} {x : Item}
    {n : NodeId} (h : n ∈ place1 marker kids st p x) : n ∈ x.nodes ∨ n ∈ kids := by
  unfold place1 at h
  cases hn : nextMounted st p with
  | none => rw [hn] at h; exact mem_mountItem h
  | some y =>
    rw [hn] at h
    simp only [insertBeforeThisOrMarker] at h
    cases hy : y.nodes.head? <;> rw [hy] at h <;> exact mem_mountItem h

theorem mem_placeAll {marker : NodeId} : ∀ (P : List (Nat × Item)) (ks : List NodeId × List (Option Item))
    {n : NodeId}, n ∈ (placeAll marker P ks).1 → n ∈ ks.1 ∨ ∃ q ∈ P, n ∈ q.2.nodes
  | [], _, _, h => Or.inl h
  | q :: P, ks, n, h => by
    have := mem_placeAll P (placeStep marker ks q) (by simpa [placeAll] using h)
    rcases this with h1 | ⟨q', hq', hn⟩
    · simp only [placeStep] at h1
      rcases mem_place1 h1 with h2 | h2
      · exact Or.inr ⟨q, by simp, h2⟩
      · exact Or.inl h2
    · exact Or.inr ⟨q', by simp [hq'], hn⟩

theorem mem_unmount_fold : ∀ (R : List Item) {kids : List NodeId}, kids.Nodup → ∀ {n : NodeId},
    n ∈ R.foldl unmountItem kids → n ∈ kids ∧ ∀ r ∈ R, n ∉ r.nodes
  | [], _, _, _, h => ⟨h, by simp⟩
  | x :: R, kids, hnd, n, h => by
    obtain ⟨h1, h2⟩ := mem_unmount_fold R (nodup_unmountItem x hnd) h
    obtain ⟨h3, h4⟩ := (mem_unmountItem hnd).mp h1
    refine ⟨h3, ?_⟩
    intro r hr
    simp only [List.mem_cons] at hr
    rcases hr with rfl | hr
    · exact h4
    · exact h2 r hr

/-- **the nodes of an item whose key vanished leave the parent** (whatever the final order is) -/
theorem rebuild_removed_nodes_leave (D : List Key → List Key → Diff) (hD : DiffLike D) (s : KState) (to : List Key) (pre post : List NodeId) (hs : Wf s)
    (hm : Mounted pre post s) (hto : to.Nodup) :
    ∀ r ∈ somes s.w.storage, r.key ∉ to → ∀ n ∈ r.nodes, n ∉ (rebuildWith D s to).w.kids := by
  intro r hr hrk n hn
  have hw : ({ s.w with log := {} } : World).storage = (somes s.w.storage).map some := hs.all_some
  have hk : s.w.kids = pre ++ blocks (somes s.w.storage) ++ s.marker :: post := hm.ordered
  have hkn : (pre ++ blocks (somes s.w.storage) ++ s.marker :: post).Nodup := hk ▸ hm.nodup
  have hbo : (blocks (somes s.w.storage)).Nodup := (List.nodup_append.mp (List.nodup_append.mp hkn).1).2.1
  have hnk : n ∈ s.w.kids := by
    rw [hk]; simp only [List.mem_append]
    exact Or.inl (Or.inr (mem_blocks.mpr ⟨r, hr, hn⟩))
  by_cases hte : to = []
  · subst hte
    have hfe : s.hashed ≠ [] := by
      intro h
      have := hs.keys; rw [h] at this
      have : somes s.w.storage = [] := by simpa using this
      rw [this] at hr; simp at hr
    have hd : D s.hashed [] = { clear := true } := hD.to_nil _ hfe
    have hwr : (rebuildWith D s []).w = clearPhase { s.w with log := {} } := by
      rw [rebuildWith_w_of_parent D s [] hm.has_parent, hd]; simp [applyDiff]
    rw [hwr, clearPhase_eq { s.w with log := {} } (somes s.w.storage) hw]
    intro h
    exact (mem_unmount_fold _ hm.nodup h).2 r hr hn
  · obtain ⟨rem, U, ads, c, hnm, _, heq⟩ := applyDiff_spec D hD s.hashed to (somes s.w.storage) hs.nodup hto
      hs.keys hte s.bs s.marker { s.w with log := {} } hw
    have hwr : (rebuildWith D s to).w = pipeline s.bs s.marker to rem U ads ads.length { s.w with log := {} } :=
      (rebuildWith_w_of_parent D s to hm.has_parent).trans heq
    rw [hwr, c.pipeline_closed hnm s.bs s.marker { s.w with log := {} } hw]
    simp only
    intro h
    rcases mem_placeAll _ _ h with h1 | ⟨q, hq, hnq⟩
    · simp only [kids1] at h1
      rw [hw] at h1
      exact (mem_unmount_fold _ hm.nodup h1).2 r (c.mem_removed.mpr ⟨hr, hrk⟩) hn
    · rw [placements, hw, List.mem_append] at hq
      rcases hq with hq | hq
      · obtain ⟨m, hmU, _, _, hx⟩ := c.mem_dPlacements.mp hq
        have hqo : q.2 ∈ somes s.w.storage := List.mem_of_getElem? hx
        have hne : r ≠ q.2 := by
          rintro rfl
          obtain ⟨_, k, hk1, hk2⟩ := (c.sp.mem_pairs c.ht).mp ⟨m, hmU, rfl, rfl⟩
          have := c.old_key m.from_
          rw [hx, hk1] at this
          simp only [Option.map_some, Option.some.injEq] at this
          exact hrk (this ▸ List.mem_of_getElem? hk2)
        exact disjoint_of_mem hbo hr hqo hne n hn hnq
      · have := ((addPlacements_nodes (p := q.1) (it := q.2) hq).1 n hnq).1
        exact absurd (hm.fresh n hnk) (Nat.not_lt.mpr this)

end Leptos.Keyed
