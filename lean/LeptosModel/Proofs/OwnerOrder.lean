import LeptosModel.Proofs.OwnerFrame
/-!
# Proofs/OwnerOrder — within a pass, descendants' cleanups run before their ancestors' (C08)

`Desc st0 a d` : `d` is `a` or below `a` in the `children` forest of the state `st0` the pass starts
from.  The invariant says: (1) among the owners already logged, no later one is a strict descendant
of an earlier one; (2) nothing still on the stack lies strictly below an owner already logged, and
no logged owner lies below a pending visit; (3) the stack itself is ordered the same way.
Frames pushed by the destructor of an arena value (`late = true`) are exempt (see the header of
`Theorems/C08`: an `ArcMemo`'s owner has been cleaned as a child before its node is removed).
-/
namespace Leptos.Owner

inductive Desc (st : Core) : Nat → Nat → Prop
  | refl (a : Nat) : Desc st a a
  | step {a c d : Nat} : c ∈ childrenOf st a → Desc st c d → Desc st a d

/-- `d` is a strict descendant of `a` -/
def SD (st : Core) (a d : Nat) : Prop := Desc st a d ∧ a ≠ d

theorem Desc.le {st : Core} (hwf : TreeWF st) {a d : Nat} (h : Desc st a d) : a ≤ d := by
  induction h with
  | refl => exact Nat.le_refl _
  | step hc _ ih => have := (hwf.child_gt _ _ hc).1; omega

/-- a path that ends in a child of `y` ends there or passes through `y` (unique parents) -/
theorem Desc.child_cases {st : Core} (hwf : TreeWF st) {z c y : Nat} (h : Desc st z c)
    (hc : c ∈ childrenOf st y) : z = c ∨ Desc st z y := by
  induction h with
  | refl => exact Or.inl rfl
  | @step a c1 d hc1 hd ih =>
    rcases ih hc with h1 | h1
    · subst h1
      have p1 := hwf.child_parent _ _ hc1
      have p2 := hwf.child_parent _ _ hc
      rw [p1] at p2; cases p2
      exact Or.inr (Desc.refl _)
    · exact Or.inr (Desc.step hc1 h1)

/-! ## the ordering relations -/

/-- owner of a frame that is not exempt; the flag says "this is a pending visit" -/
def fOwner : Frame → Option (Nat × Bool)
  | .visit x false => some (x, true)
  | .drop x false => some (x, true)
  | .run _ a false => some (a, false)
  | _ => none

/-- a cleanup of `a` has been logged: `f` is not strictly below `a`, and `a` is not under a pending visit -/
def Rlog (st0 : Core) (a : Nat) (f : Frame) : Prop :=
  match fOwner f with
  | some (z, vj) => ¬ SD st0 a z ∧ (vj = true → ¬ Desc st0 z a)
  | none => True

/-- `fi` is above `fj` on the stack -/
def Rfr (st0 : Core) (fi fj : Frame) : Prop :=
  match fOwner fi with
  | some (x, true) =>
    (match fOwner fj with
     | some (z, vj) => ¬ Desc st0 x z ∧ (vj = true → ¬ Desc st0 z x)
     | none => True)
  | some (a, false) => Rlog st0 a fj
  | none => True

/-- owners of the cleanups a log (suffix) shows, exempt ones left out -/
def ows (l : List Ev) : List Nat :=
  l.filterMap fun e => match e with
    | .c _ _ ow false => some ow
    | _ => none

theorem Rfr_of_none_left {st0 : Core} {fi fj : Frame} (h : fOwner fi = none) : Rfr st0 fi fj := by
  unfold Rfr; rw [h]; trivial

theorem Rfr_of_none_right {st0 : Core} {fi fj : Frame} (h : fOwner fj = none) : Rfr st0 fi fj := by
  unfold Rfr
  cases hi : fOwner fi with
  | none => trivial
  | some p =>
    obtain ⟨x, b⟩ := p
    cases b with
    | true => simp only [h]
    | false => simp only [Rlog, h]

theorem Rlog_of_none {st0 : Core} {a : Nat} {f : Frame} (h : fOwner f = none) : Rlog st0 a f := by
  unfold Rlog; rw [h]; trivial

theorem Rfr_visit_iff (st0 : Core) (x : Nat) (f : Frame) :
    Rfr st0 (Frame.visit x false) f ↔
      (match fOwner f with
       | some (z, vj) => ¬ Desc st0 x z ∧ (vj = true → ¬ Desc st0 z x)
       | none => True) := Iff.rfl

theorem Rfr_run_iff (st0 : Core) (c : Cleanup) (a : Nat) (f : Frame) :
    Rfr st0 (Frame.run c a false) f ↔ Rlog st0 a f := Iff.rfl

theorem pairwise_of_all {α} {R : α → α → Prop} {l : List α} (h : ∀ a, a ∈ l → ∀ b, b ∈ l → R a b) :
    l.Pairwise R := by
  induction l with
  | nil => exact List.Pairwise.nil
  | cons x l ih =>
    refine List.pairwise_cons.mpr ⟨fun b hb => h x (List.mem_cons_self ..) b (List.mem_cons_of_mem _ hb), ?_⟩
    exact ih (fun a ha b hb => h a (List.mem_cons_of_mem _ ha) b (List.mem_cons_of_mem _ hb))

/-- the frames pushed by a non-exempt visit of `x` are ordered among themselves -/
theorem expand_pairwise {st0 : Core} (hwf : TreeWF st0) (x : Nat) (r : OwnerRec) (late : Bool)
    (hch : ∀ c, c ∈ r.children → c ∈ childrenOf st0 x) (hnd : r.children.Nodup) :
    (expand r x late).Pairwise (Rfr st0) := by
  cases late with
  | true =>
    apply pairwise_of_all
    intro a ha b _
    apply Rfr_of_none_left
    rcases mem_expand_cases ha with ⟨c, _, rfl⟩ | ⟨c, _, rfl⟩ | ⟨k, _, rfl⟩ <;> rfl
  | false =>
    unfold expand
    refine List.pairwise_append.mpr ⟨?_, ?_, ?_⟩
    · rw [List.pairwise_map]
      refine List.Pairwise.imp_of_mem ?_ hnd
      intro c1 c2 h1 h2 hne
      show Rfr st0 (Frame.visit c1 false) (Frame.visit c2 false)
      simp only [Rfr, fOwner]
      have g1 := (hwf.child_gt _ _ (hch c1 h1)).1
      have g2 := (hwf.child_gt _ _ (hch c2 h2)).1
      refine ⟨fun hd => ?_, fun _ hd => ?_⟩
      · rcases hd.child_cases hwf (hch c2 h2) with e | e
        · exact hne e
        · have := e.le hwf; omega
      · rcases hd.child_cases hwf (hch c1 h1) with e | e
        · exact hne e.symm
        · have := e.le hwf; omega
    · apply pairwise_of_all
      intro a ha b hb
      rcases List.mem_append.mp ha with ha | ha
      · obtain ⟨c, _, rfl⟩ := List.mem_map.mp ha
        rcases List.mem_append.mp hb with hb | hb
        · obtain ⟨c', _, rfl⟩ := List.mem_map.mp hb
          show Rfr st0 (Frame.run c x false) (Frame.run c' x false)
          simp only [Rfr, Rlog, fOwner]
          exact ⟨fun h => h.2 rfl, fun h => by cases h⟩
        · obtain ⟨k, _, rfl⟩ := List.mem_map.mp hb
          exact Rfr_of_none_right rfl
      · obtain ⟨k, _, rfl⟩ := List.mem_map.mp ha
        exact Rfr_of_none_left rfl
    · intro a ha b hb
      obtain ⟨c, hc, rfl⟩ := List.mem_map.mp ha
      rcases List.mem_append.mp hb with hb | hb
      · obtain ⟨c', _, rfl⟩ := List.mem_map.mp hb
        show Rfr st0 (Frame.visit c false) (Frame.run c' x false)
        simp only [Rfr, fOwner]
        refine ⟨fun hd => ?_, fun h => by cases h⟩
        have := hd.le hwf
        have := (hwf.child_gt _ _ (hch c hc)).1
        omega
      · obtain ⟨k, _, rfl⟩ := List.mem_map.mp hb
        exact Rfr_of_none_right rfl

/-- what the expansion of a pending visit of `x` inherits from the visit itself -/
theorem expand_inherits {st0 : Core} (hwf : TreeWF st0) (x : Nat) (r : OwnerRec)
    (hch : ∀ c, c ∈ r.children → c ∈ childrenOf st0 x) {g : Frame} (hg : g ∈ expand r x false) :
    -- against a later frame
    (∀ f, (match fOwner f with
            | some (z, vj) => ¬ Desc st0 x z ∧ (vj = true → ¬ Desc st0 z x)
            | none => True) → Rfr st0 g f) ∧
    -- against an owner already logged
    (∀ a, (¬ SD st0 a x ∧ ¬ Desc st0 x a) → Rlog st0 a g) := by
  rcases mem_expand_cases hg with ⟨c, hc, rfl⟩ | ⟨c, _, rfl⟩ | ⟨k, _, rfl⟩
  · have hcx := hch c hc
    constructor
    · intro f hf
      rw [Rfr_visit_iff]
      cases hfo : fOwner f with
      | none => trivial
      | some p =>
        obtain ⟨z, vj⟩ := p
        rw [hfo] at hf
        simp only at hf ⊢
        refine ⟨fun hd => hf.1 (Desc.step hcx hd), fun hv hd => ?_⟩
        rcases hd.child_cases hwf hcx with e | e
        · subst e; exact hf.1 (Desc.step hcx (Desc.refl _))
        · exact hf.2 hv e
    · intro a ⟨h1, h2⟩
      simp only [Rlog, fOwner]
      refine ⟨fun hsd => ?_, fun _ hd => h2 (Desc.step hcx hd)⟩
      rcases hsd.1.child_cases hwf hcx with e | e
      · exact hsd.2 e
      · by_cases hax : a = x
        · subst hax; exact h2 (Desc.refl _)
        · exact h1 ⟨e, hax⟩
  · constructor
    · intro f hf
      rw [Rfr_run_iff]
      unfold Rlog
      cases hfo : fOwner f with
      | none => trivial
      | some p =>
        obtain ⟨z, vj⟩ := p
        rw [hfo] at hf
        simp only at hf ⊢
        exact ⟨fun hsd => hf.1 hsd.1, hf.2⟩
    · intro a ⟨h1, _⟩
      simp only [Rlog, fOwner]
      exact ⟨h1, fun h => by cases h⟩
  · exact ⟨fun _ _ => Rfr_of_none_left rfl, fun _ _ => Rlog_of_none rfl⟩

structure OrdInv (st0 : Core) (s : Core) (fs : List Frame) : Prop where
  shrink : TreeShrink st0 s
  log : ∃ suf, s.log = st0.log ++ suf ∧ (ows suf).Pairwise (fun a b => ¬ SD st0 a b) ∧
    (∀ a, a ∈ ows suf → ∀ f, f ∈ fs → Rlog st0 a f)
  stack : fs.Pairwise (Rfr st0)

theorem children_sub_of_shrink {st0 s : Core} (h : TreeShrink st0 s) (x c : Nat) (hc : c ∈ childrenOf s x) :
    c ∈ childrenOf st0 x := by
  rcases h.children x with e | e
  · rw [e] at hc; exact hc
  · rw [e] at hc; cases hc

theorem OrdInv.step {st0 : Core} (hwf : TreeWF st0) {s : Core} (f : Frame) (fs : List Frame)
    (h : OrdInv st0 s (f :: fs)) : OrdInv st0 (stepFrame s f).1 ((stepFrame s f).2 ++ fs) := by
  obtain ⟨suf, hlog, hpw, hlf⟩ := h.log
  have hshr := h.shrink.trans (TreeShrink.step s f)
  have hswf : TreeWF s := hwf.shrink h.shrink
  have htail : fs.Pairwise (Rfr st0) := (List.pairwise_cons.mp h.stack).2
  have hhead : ∀ g, g ∈ fs → Rfr st0 f g := (List.pairwise_cons.mp h.stack).1
  have hlf_tail : ∀ a, a ∈ ows suf → ∀ g, g ∈ fs → Rlog st0 a g :=
    fun a ha g hg => hlf a ha g (List.mem_cons_of_mem _ hg)
  -- the step changes neither the log nor pushes anything
  have noop : (stepFrame s f).1.log = s.log → (stepFrame s f).2 = [] →
      OrdInv st0 (stepFrame s f).1 ((stepFrame s f).2 ++ fs) := by
    intro h1 h2
    rw [h2, List.nil_append]
    exact ⟨hshr, ⟨suf, by rw [h1]; exact hlog, hpw, hlf_tail⟩, htail⟩
  -- a non-exempt visit/drop of `x` with record `r`: the frames `expand r x false` replace it
  have expandCase : ∀ (x : Nat) (r : OwnerRec), s.owners[x]? = some r →
      (fOwner f = some (x, true)) → (stepFrame s f).1.log = s.log → (stepFrame s f).2 = expand r x false →
      OrdInv st0 (stepFrame s f).1 ((stepFrame s f).2 ++ fs) := by
    intro x r hr hfo h1 h2
    have hch : ∀ c, c ∈ r.children → c ∈ childrenOf st0 x := fun c hc =>
      children_sub_of_shrink h.shrink x c (by rw [childrenOf_eq]; unfold fieldOf; rw [hr]; exact hc)
    have hnd : r.children.Nodup := by
      have := hswf.nodup x
      rw [childrenOf_eq] at this; unfold fieldOf at this; rw [hr] at this; exact this
    rw [h2]
    refine ⟨hshr, ⟨suf, by rw [h1]; exact hlog, hpw, ?_⟩, ?_⟩
    · intro a ha g hg
      rcases List.mem_append.mp hg with hg | hg
      · have := hlf a ha f (List.mem_cons_self ..)
        unfold Rlog at this; rw [hfo] at this
        exact (expand_inherits hwf x r hch hg).2 a ⟨this.1, this.2 rfl⟩
      · exact hlf_tail a ha g hg
    · refine List.pairwise_append.mpr ⟨expand_pairwise hwf x r false hch hnd, htail, ?_⟩
      intro g hg g' hg'
      have := hhead g' hg'
      unfold Rfr at this; rw [hfo] at this
      exact (expand_inherits hwf x r hch hg).1 g' this
  -- an exempt visit/drop: whatever it pushes is exempt
  have exemptCase : ∀ (x : Nat) (r : OwnerRec), fOwner f = none →
      (stepFrame s f).1.log = s.log → (stepFrame s f).2 = expand r x true →
      OrdInv st0 (stepFrame s f).1 ((stepFrame s f).2 ++ fs) := by
    intro x r hfo h1 h2
    rw [h2]
    have hex : ∀ g, g ∈ expand r x true → fOwner g = none := by
      intro g hg
      rcases mem_expand_cases hg with ⟨c, _, rfl⟩ | ⟨c, _, rfl⟩ | ⟨k, _, rfl⟩ <;> rfl
    refine ⟨hshr, ⟨suf, by rw [h1]; exact hlog, hpw, ?_⟩, ?_⟩
    · intro a ha g hg
      rcases List.mem_append.mp hg with hg | hg
      · exact Rlog_of_none (hex g hg)
      · exact hlf_tail a ha g hg
    · refine List.pairwise_append.mpr ⟨pairwise_of_all (fun a ha b _ => Rfr_of_none_left (hex a ha)), htail, ?_⟩
      intro g hg g' _
      exact Rfr_of_none_left (hex g hg)
  cases f with
  | visit x late =>
    cases hr : s.owners[x]? with
    | none => exact noop (by simp only [stepFrame, hr]) (by simp only [stepFrame, hr])
    | some r =>
      by_cases ha : r.alive = true
      · have e1 : (stepFrame s (Frame.visit x late)).1.log = s.log := by simp only [stepFrame, hr, ha, if_true, setOwner_log]
        have e2 : (stepFrame s (Frame.visit x late)).2 = expand r x late := by simp only [stepFrame, hr, ha, if_true]
        cases late with
        | false => exact expandCase x r hr rfl e1 e2
        | true => exact exemptCase x r rfl e1 e2
      · exact noop (by simp only [stepFrame, hr, ha, if_false, Bool.false_eq_true])
          (by simp only [stepFrame, hr, ha, if_false, Bool.false_eq_true])
  | drop x late =>
    cases hr : s.owners[x]? with
    | none => exact noop (by simp only [stepFrame, hr]) (by simp only [stepFrame, hr])
    | some r =>
      have e1 : (stepFrame s (Frame.drop x late)).1.log = s.log := by simp only [stepFrame, hr, setOwner_log]
      have e2 : (stepFrame s (Frame.drop x late)).2 = expand r x late := by simp only [stepFrame, hr]
      cases late with
      | false => exact expandCase x r hr rfl e1 e2
      | true => exact exemptCase x r rfl e1 e2
  | run c a late =>
    have e2 : (stepFrame s (Frame.run c a late)).2 = closureFrames s.cur c := by
      by_cases hn : c.nested = true
      · simp only [stepFrame, hn, if_true]
      · simp only [stepFrame, hn, if_false, Bool.false_eq_true]
    have e1 : (stepFrame s (Frame.run c a late)).1.log = s.log ++ [Ev.c c.tag c.cid a late] := by
      by_cases hn : c.nested = true
      · simp only [stepFrame, hn, if_true, newStored_log, regCleanup_log, logEv_log]
      · simp only [stepFrame, hn, if_false, Bool.false_eq_true, logEv_log]
    rw [e2]
    -- what the closure owns is dropped by an exempt frame
    have hex : ∀ g, g ∈ closureFrames s.cur c → fOwner g = none := by
      intro g hg
      unfold closureFrames at hg
      split at hg
      · split at hg
        · cases hg
        · simp only [List.mem_singleton] at hg; subst hg; rfl
      · cases hg
    have hstack : (closureFrames s.cur c ++ fs).Pairwise (Rfr st0) :=
      List.pairwise_append.mpr ⟨pairwise_of_all (fun x hx y _ => Rfr_of_none_left (hex x hx)), htail,
        fun g hg g' _ => Rfr_of_none_left (hex g hg)⟩
    have ext : ∀ (l : List Nat), (∀ a', a' ∈ l → ∀ g, g ∈ fs → Rlog st0 a' g) →
        ∀ a', a' ∈ l → ∀ g, g ∈ closureFrames s.cur c ++ fs → Rlog st0 a' g := by
      intro l hl a' ha' g hg
      rcases List.mem_append.mp hg with hg | hg
      · exact Rlog_of_none (hex g hg)
      · exact hl a' ha' g hg
    cases late with
    | true =>
      have hows : ows (suf ++ [Ev.c c.tag c.cid a true]) = ows suf := by
        simp [ows, List.filterMap_append]
      refine ⟨hshr, ⟨suf ++ [Ev.c c.tag c.cid a true], by rw [e1, hlog, List.append_assoc], ?_, ?_⟩, hstack⟩
      · rw [hows]; exact hpw
      · rw [hows]; exact ext _ hlf_tail
    | false =>
      have hows : ows (suf ++ [Ev.c c.tag c.cid a false]) = ows suf ++ [a] := by
        simp [ows, List.filterMap_append]
      refine ⟨hshr, ⟨suf ++ [Ev.c c.tag c.cid a false], by rw [e1, hlog, List.append_assoc], ?_, ?_⟩, hstack⟩
      · rw [hows]
        refine List.pairwise_append.mpr ⟨hpw, List.pairwise_singleton _ _, ?_⟩
        intro a' ha' b hb
        have hb' := List.mem_singleton.mp hb
        subst hb'
        have := hlf a' ha' (Frame.run c b false) (List.mem_cons_self ..)
        simp only [Rlog, fOwner] at this
        exact this.1
      · rw [hows]
        refine ext _ ?_
        intro a' ha' g hg
        rcases List.mem_append.mp ha' with ha' | ha'
        · exact hlf_tail a' ha' g hg
        · have := List.mem_singleton.mp ha'
          subst this
          have := hhead g hg
          simp only [Rfr, fOwner] at this
          exact this
  | remove k late =>
    have e1 : (stepFrame s (Frame.remove k late)).1.log = s.log := rfl
    have hex : ∀ g, g ∈ (stepFrame s (Frame.remove k late)).2 → fOwner g = none := by
      intro g hg
      simp only [stepFrame] at hg
      unfold dropFrames at hg
      split at hg
      · simp only [List.mem_singleton] at hg; subst hg; rfl
      · cases hg
    refine ⟨hshr, ⟨suf, by rw [e1]; exact hlog, hpw, ?_⟩, ?_⟩
    · intro a ha g hg
      rcases List.mem_append.mp hg with hg | hg
      · exact Rlog_of_none (hex g hg)
      · exact hlf_tail a ha g hg
    · refine List.pairwise_append.mpr ⟨pairwise_of_all (fun a ha b _ => Rfr_of_none_left (hex a ha)), htail, ?_⟩
      intro g hg g' _
      exact Rfr_of_none_left (hex g hg)

/-- **descendants first**, for `Owner::cleanup` -/
theorem cleanupOwner_ordered {st : Core} (hwf : TreeWF st) (o : Nat) :
    ∃ suf, (cleanupOwner st o).log = st.log ++ suf ∧ (ows suf).Pairwise (fun a b => ¬ SD st a b) := by
  have h0 : OrdInv st st [Frame.visit o false] :=
    ⟨TreeShrink.refl _, ⟨[], by simp, by simp [ows], by simp [ows]⟩, List.pairwise_singleton _ _⟩
  have := runPass_inv (OrdInv st) (fun s f fs h => h.step hwf f fs) st _ h0
  obtain ⟨suf, h1, h2, _⟩ := this.log
  exact ⟨suf, h1, h2⟩

/-- **descendants first**, for the drop of the last handle -/
theorem dropOwner_ordered {st : Core} (hwf : TreeWF st) (o : Nat) :
    ∃ suf, (dropOwner st o).log = st.log ++ suf ∧ (ows suf).Pairwise (fun a b => ¬ SD st a b) := by
  have h0 : OrdInv st st [Frame.drop o false] :=
    ⟨TreeShrink.refl _, ⟨[], by simp, by simp [ows], by simp [ows]⟩, List.pairwise_singleton _ _⟩
  have := runPass_inv (OrdInv st) (fun s f fs h => h.step hwf f fs) st _ h0
  obtain ⟨suf, h1, h2, _⟩ := this.log
  exact ⟨suf, h1, h2⟩

end Leptos.Owner
