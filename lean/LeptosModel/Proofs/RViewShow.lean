import LeptosModel.Proofs.RViewPoll
/-!
# Proofs/RViewShow — `Show`: a write that leaves the truth value of the condition unchanged does not
re-render (the memo absorbs it)
-/
namespace Leptos.RView
open Leptos.Reactive

/-- one step of `update_if_necessary` of a dirty memo whose recomputation gives the old value -/
theorem upd_dirty_unchanged (p : Prog) (f : Nat) (s : State) (m : Nat)
    (hk : (s.get m).kind = .memo) (hst : (s.get m).st = .dirty)
    (hv : (s.get m).val = some (evalE (readNode (upd p f)) (fun s _ _ => s) m (bodyOf p m)
        { noteRun (clearSources (s.upd m fun n => { n with val := none }) m) m with obs := some m }).2) :
    upd p (f + 1) s m =
      (({ (evalE (readNode (upd p f)) (fun s _ _ => s) m (bodyOf p m)
            { noteRun (clearSources (s.upd m fun n => { n with val := none }) m) m with obs := some m }).1
          with obs := (noteRun (clearSources (s.upd m fun n => { n with val := none }) m) m).obs } : State).upd m
        fun n => { n with
          val := some (evalE (readNode (upd p f)) (fun s _ _ => s) m (bodyOf p m)
            { noteRun (clearSources (s.upd m fun n => { n with val := none }) m) m with obs := some m }).2,
          st := .clean, running := false }, false) := by
  simp only [upd, hk, hst]
  simp [hv]


/-- the body of a `Show` memo -/
def showBody (c : Expr) : Expr := .ite c (.lit 1) (.lit 0)

theorem showBody_sigOnly {K : Nat} {c : Expr} (h : sigOnly K c = true) : sigOnly K (showBody c) = true := by
  simp only [sigOnly, Bool.and_eq_true] at h
  simp [sigOnly, showBody, Expr.readsBelow, Expr.noWrite, Expr.noUntracked, h.1.1, h.1.2, h.2]

/-- the recomputation of memo `m` (body reads signals only) as a relation -/
structure MemoRan (m : Nat) (x : Expr) (s s' : State) : Prop where
  acts : Acts m s s'
  st : (s'.get m).st = .clean
  val : (s'.get m).val = some (evalPure (Reactive.envOf s) x)
  kind : (s'.get m).kind = (s.get m).kind

theorem memo_recompute {p : Prog} {f K m : Nat} {x : Expr} {s : State}
    (hke : K ≤ m) (hlt : m < s.nodes.length) (hsigs : ∀ i, i < K → (s.get i).kind = .sig)
    (hbody : bodyOf p m = x) (hs : sigOnly K x = true)
    (hk : (s.get m).kind = .memo) (hst : (s.get m).st = .dirty)
    (hv : (s.get m).val = some (evalPure (Reactive.envOf s) x)) :
    ∃ s', upd p (f + 1) s m = (s', false) ∧ MemoRan m x s s' := by
  simp only [sigOnly, Bool.and_eq_true] at hs
  -- the state in which the body is evaluated
  generalize hs0 : (s.upd m fun n => { n with val := none }) = s0
  have a0 : Acts m s s0 := by rw [← hs0]; exact Acts.of_upd s m (fun n => { n with val := none }) (fun _ => rfl)
  have g0 : ∀ i, i ≠ m → s0.get i = s.get i := by
    intro i hi; rw [← hs0]; exact State.get_upd_ne _ _ (Ne.symm hi)
  have g0m : s0.get m = { s.get m with val := none } := by rw [← hs0]; exact State.get_upd_same _ _ hlt
  have c := clearSources_acts s0 m
  have n := noteRun_acts (clearSources s0 m) m
  have a02 : Acts m s (noteRun (clearSources s0 m) m) := a0.trans (c.1.trans n.1)
  have ctl02 : ∀ i, i ≠ m → RView.ctl ((noteRun (clearSources s0 m) m).get i) = RView.ctl (s.get i) := by
    intro i hi; rw [n.2.1 i, c.2.1 i, g0 i hi]
  have ctl02m : RView.ctl ((noteRun (clearSources s0 m) m).get m) = RView.ctl ({ s.get m with val := none } : Node) := by
    rw [n.2.1 m, c.2.1 m, g0m]
  have pre : EvalPre K m { noteRun (clearSources s0 m) m with obs := some m } :=
    ⟨rfl, hke, by show m < (noteRun (clearSources s0 m) m).nodes.length; rw [a02.len]; exact hlt,
     fun i hi => by
       show ((noteRun (clearSources s0 m) m).get i).kind = .sig
       have := ctl02 i (by omega); simp only [RView.ctl, Prod.mk.injEq] at this; rw [this.1]; exact hsigs i hi⟩
  have henv2 : ∀ i, i < K → Reactive.envOf ({ noteRun (clearSources s0 m) m with obs := some m } : State) i
      = Reactive.envOf s i := by
    intro i hi
    have := ctl02 i (by omega); simp only [RView.ctl, Prod.mk.injEq] at this
    simp only [Reactive.envOf, State.setObs_get, this.2.1]
  have r := evalE_sig (p := p) (f := f) (wr := fun s _ _ => s) x _ pre hs.1.1 hs.1.2 hs.2
  have hval : evalPure (Reactive.envOf ({ noteRun (clearSources s0 m) m with obs := some m } : State)) x
      = evalPure (Reactive.envOf s) x := evalPure_congr (fun j hj => henv2 j hj) x hs.1.1
  have hvv : (s.get m).val = some (evalE (readNode (upd p f)) (fun s _ _ => s) m (bodyOf p m)
      { noteRun (clearSources (s.upd m fun n => { n with val := none }) m) m with obs := some m }).2 := by
    rw [hbody, hs0, r.val, hval]; exact hv
  refine ⟨_, upd_dirty_unchanged p f s m hk hst hvv, ?_⟩
  rw [hbody, hs0]
  have hlen3 : (evalE (readNode (upd p f)) (fun s _ _ => s) m x
      { noteRun (clearSources s0 m) m with obs := some m }).1.nodes.length = s.nodes.length := by
    rw [r.post.len]; exact a02.len
  have a23 := r.post.acts
  refine ⟨?_, ?_, ?_, ?_⟩
  · have h1 : Acts m s ({ (evalE (readNode (upd p f)) (fun s _ _ => s) m x
        { noteRun (clearSources s0 m) m with obs := some m }).1 with
        obs := (noteRun (clearSources s0 m) m).obs } : State) :=
      ⟨hlen3, a02.obs, fun i hi => (a23.ctl i hi).trans (a02.ctl i hi),
        fun i hi => (a23.srcs i hi).trans (a02.srcs i hi),
        fun i y hy => (a23.subs i y hy).trans (a02.subs i y hy)⟩
    exact h1.trans (Acts.of_upd _ m _ (fun _ => rfl))
  · rw [State.get_upd_same _ _ (by show m < _; rw [hlen3]; exact hlt)]
  · rw [State.get_upd_same _ _ (by show m < _; rw [hlen3]; exact hlt)]
    show some _ = _
    rw [r.val, hval]
  · rw [State.get_upd_same _ _ (by show m < _; rw [hlen3]; exact hlt)]
    show ((evalE (readNode (upd p f)) (fun s _ _ => s) m x
        { noteRun (clearSources s0 m) m with obs := some m }).1.get m).kind = _
    have h3 := r.post.ctl m
    simp only [State.setObs_get] at h3
    simp only [RView.ctl, Prod.mk.injEq] at h3 ctl02m
    rw [h3.1, ctl02m.1]


theorem effLoop_notneed (k : Nat) (st : St) (e : Nat) (hc : (st.rs.get e).chan = true) (rs2 : State)
    (heff : effUpdate st.prog st.fuel
      ({ (st.rs.upd e fun n => { n with chan := false }) with obs := some e } : State) e = (rs2, false)) :
    effLoop (k + 1) st e =
      effLoop k { st with rs := { rs2 with obs := (st.rs.upd e fun n => { n with chan := false }).obs } } e := by
  simp only [effLoop, hc, Bool.not_true, Bool.false_eq_true, ↓reduceIte, heff]

/-- the situation after a write to a signal that the condition of a `Show` reads, seen from the
`Show`'s render effect `e` and memo `m`: the memo is dirty, the effect was check-notified -/
structure ShowPre (K : Nat) (st : St) (e m : Nat) (c : Expr) : Prop where
  obs : st.rs.obs = none
  len : st.prog.length = st.rs.nodes.length
  km : K ≤ m
  ke : K ≤ e
  mlt : m < st.prog.length
  elt : e < st.prog.length
  ne : m ≠ e
  sigs : ∀ i, i < K → (st.rs.get i).kind = .sig
  pm : st.prog[m]? = some (.memo (showBody c))
  csig : sigOnly K c = true
  mkind : (st.rs.get m).kind = .memo
  mst : (st.rs.get m).st = .dirty
  ealive : (st.rs.get e).alive = true
  echan : (st.rs.get e).chan = true
  edirty : (st.rs.get e).dirty = false
  esrc : (st.rs.get e).sources = [m]
  /-- the truth value of the condition for the current signal values is the one the memo holds -/
  same : (st.rs.get m).val = some (evalPure (Reactive.envOf st.rs) (showBody c))

theorem show_poll_same {K : Nat} {st : St} {e m : Nat} {c : Expr} (h : ShowPre K st e m c) :
    ∃ rs', pollTask st e = { st with rs := rs' } ∧ (rs'.get m).st = .clean ∧
      (rs'.get m).val = (st.rs.get m).val ∧ (rs'.get e).chan = false ∧ (rs'.get e).dirty = false ∧
      (rs'.get e).woken = false := by
  have helt : e < st.rs.nodes.length := by rw [← h.len]; exact h.elt
  have hmlt : m < st.rs.nodes.length := by rw [← h.len]; exact h.mlt
  rw [pollTask_alive st e helt h.ealive]
  -- the reactive state when `update_if_necessary` of the effect starts
  generalize hs1 : ((st.rs.upd e fun n => { n with woken := false }).upd e fun n => { n with chan := false }) = s1
  have g1 : ∀ i, i ≠ e → s1.get i = st.rs.get i := by
    intro i hi; rw [← hs1, State.get_upd_ne _ _ (Ne.symm hi), State.get_upd_ne _ _ (Ne.symm hi)]
  have g1e : s1.get e = { st.rs.get e with woken := false, chan := false } := by
    rw [← hs1, State.get_upd_same _ _ (by simpa using helt), State.get_upd_same _ _ helt]
  have hl1 : s1.nodes.length = st.rs.nodes.length := by rw [← hs1]; simp
  have ho1 : s1.obs = none := by rw [← hs1]; exact h.obs
  have henv1 : Reactive.envOf s1 = Reactive.envOf st.rs := by
    funext i; simp only [Reactive.envOf]
    by_cases hie : i = e
    · subst hie; rw [g1e]
    · rw [g1 i hie]
  -- the memo recomputes to the same value
  have hbody : bodyOf st.prog m = showBody c := by simp [bodyOf, h.pm]
  obtain ⟨sM, hupd, hM⟩ := memo_recompute (p := st.prog) (f := st.prog.length) (K := K) (m := m)
    (x := showBody c) (s := ({ s1 with obs := none } : State)) h.km (by show m < s1.nodes.length; rw [hl1]; exact hmlt)
    (fun i hi => by show (s1.get i).kind = .sig; rw [g1 i (by have := h.ke; omega)]; exact h.sigs i hi)
    hbody (showBody_sigOnly h.csig)
    (by show (s1.get m).kind = .memo; rw [g1 m h.ne]; exact h.mkind)
    (by show (s1.get m).st = .dirty; rw [g1 m h.ne]; exact h.mst)
    (by
      show (s1.get m).val = some (evalPure (Reactive.envOf ({ s1 with obs := none } : State)) (showBody c))
      rw [g1 m h.ne, h.same]
      have : Reactive.envOf ({ s1 with obs := none } : State) = Reactive.envOf s1 := rfl
      rw [this, henv1])
  have hMe : RView.ctl (sM.get e) = RView.ctl (s1.get e) := hM.acts.ctl e (Ne.symm h.ne)
  simp only [RView.ctl, Prod.mk.injEq] at hMe
  have hMsrc : (sM.get e).sources = (s1.get e).sources := hM.acts.srcs e (Ne.symm h.ne)
  have hMlen : sM.nodes.length = st.rs.nodes.length := by rw [hM.acts.len]; exact hl1
  -- unfold one iteration of the task loop
  have hfuel : st.fuel = st.prog.length + 1 := rfl
  have hchanA : ((st.rs.upd e fun n => { n with woken := false }).get e).chan = true := by
    rw [State.get_upd_same _ _ helt]; exact h.echan
  have hd1 : (s1.get e).dirty = false := by rw [g1e]; exact h.edirty
  have hsrc1 : (s1.get e).sources = [m] := by rw [g1e]; exact h.esrc
  have hEff : effUpdate st.prog (st.prog.length + 1) ({ s1 with obs := some e } : State) e =
      ((({ sM with obs := some e } : State)).upd e fun n => { n with dirty := false }, false) := by
    unfold effUpdate
    simp only [State.setObs_get, hd1, Bool.false_eq_true, ↓reduceIte, hsrc1, anySrc]
    have : upd st.prog (st.prog.length + 1) ({ s1 with obs := none } : State) m = (sM, false) := hupd
    simp only [this, Bool.false_and, Bool.or_false, Bool.false_eq_true, ↓reduceIte, State.setObs_get,
      hMe.2.2.2.1, hd1]
  refine ⟨({ sM with obs := none } : State).upd e fun n => { n with dirty := false }, ?_, ?_, ?_, ?_, ?_, ?_⟩
  · have hEff' := hEff
    rw [← hs1] at hEff'
    rw [effLoop_notneed 63 _ e hchanA _ hEff']
    rw [effLoop_nochan _ _ _ (by
      rw [State.setObs_get, State.get_upd_same _ _ (by show e < sM.nodes.length; rw [hMlen]; exact helt)]
      show (sM.get e).chan = false
      rw [hMe.2.2.2.2.1, g1e])]
    simp only [State.upd_obs, h.obs]
    rfl
  · rw [State.get_upd_ne _ _ (Ne.symm h.ne)]; exact hM.st
  · rw [State.get_upd_ne _ _ (Ne.symm h.ne)]
    show (sM.get m).val = _
    rw [hM.val, h.same]
    have : Reactive.envOf ({ s1 with obs := none } : State) = Reactive.envOf s1 := rfl
    rw [this, henv1]
  · rw [State.get_upd_same _ _ (by show e < sM.nodes.length; rw [hMlen]; exact helt)]
    show (sM.get e).chan = false
    rw [hMe.2.2.2.2.1, g1e]
  · rw [State.get_upd_same _ _ (by show e < sM.nodes.length; rw [hMlen]; exact helt)]
  · rw [State.get_upd_same _ _ (by show e < sM.nodes.length; rw [hMlen]; exact helt)]
    show (sM.get e).woken = false
    rw [hMe.2.2.2.2.2.1, g1e]

end Leptos.RView
