import LeptosModel.Proofs.RViewPoll
import LeptosModel.Proofs.RViewBook
/-!
# Proofs/RViewMain — from the start state through every history: the invariant, and what it gives at idle
-/
namespace Leptos.RView
open Leptos.Reactive

/-! ## the tasks of a freshly built tree are its effects -/

theorem newEff_tasks (st : St) (x : Expr) : (newEff st x).2.2.tasks = st.tasks := rfl

theorem buildAttr_tasks (st : St) : ∀ (a : Attr) (e : Nat), e ∈ (buildAttr st a).2.1.tasks →
    e ∈ st.tasks ∨ e ∈ (buildAttr st a).1.effs
  | .stat _ _, e, h => Or.inl h
  | .dyn _ x, e, h => by
    simp only [buildAttr, St.spawn, List.mem_append, List.mem_singleton] at h
    rcases h with h | h
    · exact Or.inl h
    · exact Or.inr (by simp [buildAttr, AState.effs, h])
  | .cls _ x, e, h => by
    simp only [buildAttr, St.spawn, List.mem_append, List.mem_singleton] at h
    rcases h with h | h
    · exact Or.inl h
    · exact Or.inr (by simp [buildAttr, AState.effs, h])
  | .sty _ x, e, h => by
    simp only [buildAttr, St.spawn, List.mem_append, List.mem_singleton] at h
    rcases h with h | h
    · exact Or.inl h
    · exact Or.inr (by simp [buildAttr, AState.effs, h])

theorem buildAttrs_tasks : ∀ (as : List Attr) (st : St) (e : Nat), e ∈ (buildAttrs as st).2.1.tasks →
    e ∈ st.tasks ∨ e ∈ (buildAttrs as st).1.flatMap AState.effs
  | [], st, e, h => Or.inl h
  | a :: as, st, e, h => by
    rw [buildAttrs_cons] at h ⊢
    dsimp only at h ⊢
    rcases buildAttrs_tasks as _ e h with h1 | h1
    · rcases buildAttr_tasks st a e h1 with h2 | h2
      · exact Or.inl h2
      · exact Or.inr (by simp [h2])
    · exact Or.inr (by simp only [List.flatMap_cons, List.mem_append]; exact Or.inr h1)

theorem build_tasks : ∀ (v : View) (st : St), v.core = true → ∀ e, e ∈ (build v st).2.tasks →
    e ∈ st.tasks ∨ e ∈ effsOf (build v st).1 := by
  intro v
  induction v with
  | text s => intro st _ e h; exact Or.inl h
  | unit => intro st _ e h; exact Or.inl h
  | elem tag attrs kid ih =>
    intro st hc e h
    rw [build_elem] at h ⊢
    dsimp only at h ⊢
    rcases ih _ hc e h with h1 | h1
    · rcases buildAttrs_tasks attrs _ e h1 with h2 | h2
      · exact Or.inl h2
      · exact Or.inr (by simp [effsOf, h2])
    · exact Or.inr (by simp [effsOf, h1])
  | seq a b iha ihb =>
    intro st hc e h
    simp only [View.core, Bool.and_eq_true] at hc
    rw [build_seq] at h ⊢
    dsimp only at h ⊢
    rcases ihb _ hc.2 e h with h1 | h1
    · rcases iha st hc.1 e h1 with h2 | h2
      · exact Or.inl h2
      · exact Or.inr (by simp [effsOf, h2])
    · exact Or.inr (by simp [effsOf, h1])
  | dynText x =>
    intro st _ e h
    rw [build_dynText] at h ⊢
    dsimp only at h ⊢
    simp only [St.spawn, St.alloc, List.mem_append, List.mem_singleton] at h
    rcases h with h | h
    · exact Or.inl h
    · exact Or.inr (by simp [effsOf, h])
  | either c a b iha ihb =>
    intro st hc e h
    simp only [View.core, Bool.and_eq_true] at hc
    rw [build_either] at h ⊢
    dsimp only at h ⊢
    simp only [St.spawn, List.mem_append, List.mem_singleton] at h
    rcases h with h | h
    · split at h
      · next hv =>
        simp only [hv, if_true]
        rcases iha _ hc.1 e h with h1 | h1
        · exact Or.inl h1
        · exact Or.inr (by simp [effsOf, h1])
      · next hv =>
        simp only [hv, if_false]
        rcases ihb _ hc.2 e h with h1 | h1
        · exact Or.inl h1
        · exact Or.inr (by simp [effsOf, h1])
    · exact Or.inr (by simp [effsOf, h])
  | «show» c a b _ _ => intro st hc; simp [View.core] at hc
  | scope sid d kid _ => intro st hc; simp [View.core] at hc
  | forRows en sel lists row _ => intro st hc; simp [View.core] at hc
  | eb kid _ => intro st hc; simp [View.core] at hc
  | res c x => intro st hc; simp [View.core] at hc
  | forKeyed sel lists =>
    intro st _ e h
    rw [build_forKeyed] at h ⊢
    dsimp only at h ⊢
    obtain ⟨n, hbn⟩ := buildFor_st (newEff st (st.res sel)).2.2 (listAt lists (newEff st (st.res sel)).2.1)
    rw [hbn] at h
    simp only [St.spawn, List.mem_append, List.mem_singleton] at h
    rcases h with h | h
    · exact Or.inl h
    · exact Or.inr (by simp [effsOf, h])


/-! ## the start state -/

/-- every definition is a signal -/
def allSigs (defs : Prog) : Bool := defs.all fun d => match d with | .sig _ => true | _ => false

/-- a state in which only signals exist and nothing has subscribed yet -/
structure SigState (st : St) : Prop where
  len : st.prog.length = st.rs.nodes.length
  obs : st.rs.obs = none
  prog : ∀ i, i < st.prog.length → ∃ v, st.prog[i]? = some (.sig v)
  node : ∀ i, (st.rs.get i).kind = .sig ∧ (st.rs.get i).subs = [] ∧ (st.rs.get i).sources = []
  tasks : st.tasks = []
  zombies : st.zombies = []
  root : st.root = none
  disposed : st.disposed = false

theorem SigState.init : SigState {} :=
  ⟨rfl, rfl, fun i h => by simp at h, fun i => by simp [State.get], rfl, rfl, rfl, rfl⟩

theorem SigState.addSig {st : St} (h : SigState st) (v : Int) : SigState (st.addDef (.sig v)).2 := by
  refine ⟨?_, h.obs, ?_, ?_, h.tasks, h.zombies, h.root, h.disposed⟩
  · simp [St.addDef, h.len]
  · intro i hi
    simp only [St.addDef, List.length_append, List.length_singleton] at hi
    by_cases hie : i = st.prog.length
    · subst hie; exact ⟨v, by simp [St.addDef]⟩
    · obtain ⟨w, hw⟩ := h.prog i (by omega)
      exact ⟨w, by simp only [St.addDef]; rw [List.getElem?_append_left (by omega)]; exact hw⟩
  · intro i
    have e1 : (st.addDef (.sig v)).2.rs =
        ({ st.rs with nodes := st.rs.nodes ++ [initNode (.sig v)] } : State) := rfl
    rw [e1]
    rcases Nat.lt_trichotomy i st.rs.nodes.length with hlt | heq | hgt
    · rw [get_append_lt _ _ hlt]; exact h.node i
    · subst heq; rw [get_append_len]; simp [initNode]
    · rw [get_append_ge _ _ hgt]; simp

theorem SigState.initDefs : ∀ (defs : Prog) (st : St), SigState st → allSigs defs = true →
    SigState (defs.foldl (fun st d => (st.addDef d).2) st) ∧
      (defs.foldl (fun st d => (st.addDef d).2) st).prog.length = st.prog.length + defs.length
  | [], st, h, _ => ⟨h, by simp⟩
  | d :: rest, st, h, ha => by
    simp only [allSigs, List.all_cons, Bool.and_eq_true] at ha
    cases d with
    | sig v =>
      simp only [List.foldl_cons]
      have := SigState.initDefs rest _ (h.addSig v) (by simpa [allSigs] using ha.2)
      refine ⟨this.1, ?_⟩
      rw [this.2]; simp [St.addDef]; omega
    | memo b => simp at ha
    | eff b => simp at ha

theorem SigState.rinv {st : St} (h : SigState st) : RInv st.prog.length st := by
  refine ⟨h.len, h.obs, Nat.le_refl _, fun i _ => (h.node i).1, h.prog, ?_, ?_, ?_, ?_,
    fun i _ => (h.node i).2.1, fun i => by rw [(h.node i).2.1]; simp, ?_⟩
  · intro i h1 h2; omega
  · intro i h1 h2; omega
  · intro i _ x hx; rw [(h.node i).2.2] at hx; simp at hx
  · intro i _ x hx; rw [(h.node i).2.1] at hx; simp at hx
  · intro i e hx; rw [(h.node i).2.1] at hx; simp at hx

/-! ## every history -/

/-- the invariant of a history: either the view has been disposed of (and its root is gone for good),
or the leaf invariant holds -/
def Inv1 (K : Nat) (v : View) (st : St) : Prop :=
  (st.disposed = true ∧ st.root = none) ∨ (st.disposed = false ∧ Inv0 K v st)

theorem getD_mem_of_ne_nil {l : List Nat} (h : l.isEmpty = false) (i : Nat) : l.getD (i % l.length) 0 ∈ l := by
  have hl : 0 < l.length := by
    cases l with
    | nil => simp at h
    | cons _ _ => simp
  have : i % l.length < l.length := Nat.mod_lt _ hl
  rw [List.getD_eq_getElem?_getD, List.getElem?_eq_getElem this]
  simp

theorem Inv0.pollNth {K : Nat} {v : View} {st : St} (h : Inv0 K v st) (hl : v.leaves = true) (i : Nat) :
    Inv0 K v (pollNth st i) := by
  unfold RView.pollNth
  simp only
  split
  · exact h
  · next hne =>
    have hm := getD_mem_of_ne_nil (l := ready st) (by simpa using hne) i
    have : (ready st).getD (i % (ready st).length) 0 ∈ st.tasks := by
      unfold ready at hm ⊢
      exact (List.mem_filter.1 hm).1
    exact h.poll hl this

theorem Inv0.runIdle {K : Nat} {v : View} (hl : v.leaves = true) : ∀ (k : Nat) (st : St), Inv0 K v st →
    Inv0 K v (runIdle k st)
  | 0, st, h => h
  | k + 1, st, h => by
    simp only [RView.runIdle]
    split
    · exact h
    · exact Inv0.runIdle hl k _ (h.pollNth hl 0)

theorem Inv0.setSig {K : Nat} {v : View} {st : St} (h : Inv0 K v st) (id : Nat) (w : Int) :
    Inv0 K v (RView.setSig st id w) := by
  obtain ⟨t, hroot, hgood, htasks⟩ := h.tree
  exact ⟨setSig_inv h.rinv id w, h.zomb, t, hroot, Good.after_set h.rinv v t hgood id w, htasks⟩

theorem Inv1.step {K : Nat} {v : View} {st : St} (h : Inv1 K v st) (hl : v.leaves = true) (op : Op) :
    Inv1 K v (step st op) := by
  rcases h with h | h
  · exact Or.inl (step_disposed st op h)
  · cases op with
    | set id w => exact Or.inr ⟨h.1, h.2.setSig id w⟩
    | poll i => exact Or.inr ⟨(pollNth_book st i).1.trans h.1, h.2.pollNth hl i⟩
    | idle => exact Or.inr ⟨(runIdle_book 4096 st).1.trans h.1, Inv0.runIdle hl 4096 st h.2⟩
    | dispose => exact Or.inl (dispose_disposed st)

theorem Inv1.start {p : Program} (hw : p.wf = true) (hs : allSigs p.defs = true) (hl : p.view.leaves = true) :
    Inv1 p.defs.length p.view (start p) := by
  simp only [Program.wf, Bool.and_eq_true] at hw
  have h0 := SigState.initDefs p.defs {} SigState.init hs
  have hlen : (initDefs p.defs).prog.length = p.defs.length := by
    have := h0.2; simpa [initDefs] using this
  have hsig : SigState (initDefs p.defs) := h0.1
  have hi : RInv p.defs.length (initDefs p.defs) := by
    have := hsig.rinv; rw [hlen] at this; exact this
  have hb := build_spec p.view (initDefs p.defs).alloc.2 (alloc_inv hi) hw.2 (View.leaves_core _ hl)
  refine Or.inr ⟨?_, ?_⟩
  · show (build p.view (initDefs p.defs).alloc.2).2.disposed = false
    rw [hb.same.disposed]; exact hsig.disposed
  · refine ⟨hb.inv.of_rs_prog rfl rfl, ?_, _, rfl, ?_, ?_⟩
    · show (build p.view (initDefs p.defs).alloc.2).2.zombies = []
      rw [hb.same.zombies]; exact hsig.zombies
    · exact Good.map _ _ hb.good (fun _ _ _ _ hk => hk.congr rfl rfl rfl)
    · intro e he
      rcases build_tasks p.view (initDefs p.defs).alloc.2 (View.leaves_core _ hl) e he with h1 | h1
      · have : (initDefs p.defs).alloc.2.tasks = [] := hsig.tasks
        rw [this] at h1; simp at h1
      · exact h1

theorem Inv1.run {p : Program} (hw : p.wf = true) (hs : allSigs p.defs = true) (hl : p.view.leaves = true)
    (ops : List Op) : Inv1 p.defs.length p.view (RView.run p ops) := by
  unfold RView.run
  have h0 : ∀ (s0 : St), Inv1 p.defs.length p.view s0 →
      Inv1 p.defs.length p.view (ops.foldl RView.step s0) := by
    induction ops with
    | nil => intro s0 h; exact h
    | cons op rest ih => intro s0 h; exact ih _ (h.step hl op)
  exact h0 _ (Inv1.start hw hs hl)


/-! ## at idle -/

theorem renderAttr_congr {K : Nat} {ρ ρ' : Nat → Int} (h : ∀ i, i < K → ρ i = ρ' i) :
    ∀ (a : Attr), a.exprOk K = true → renderAttr ρ a = renderAttr ρ' a
  | .stat _ _, _ => rfl
  | .dyn _ x, hx => by
    simp only [Attr.exprOk, Bool.and_eq_true] at hx
    simp only [renderAttr, evalPure_congr h x hx.1.1]
  | .cls _ x, hx => by
    simp only [Attr.exprOk, Bool.and_eq_true] at hx
    simp only [renderAttr, evalPure_congr h x hx.1.1]
  | .sty _ x, hx => by
    simp only [Attr.exprOk, Bool.and_eq_true] at hx
    simp only [renderAttr, evalPure_congr h x hx.1.1]

theorem render_congr {K : Nat} {ρ ρ' : Nat → Int} (h : ∀ i, i < K → ρ i = ρ' i) :
    ∀ (v : View), v.wf K = true → render ρ v = render ρ' v := by
  intro v
  induction v with
  | text s => intro _; rfl
  | unit => intro _; rfl
  | elem tag attrs kid ih =>
    intro hw
    simp only [View.wf, Bool.and_eq_true] at hw
    have hm : attrs.map (renderAttr ρ) = attrs.map (renderAttr ρ') := by
      apply List.map_congr_left
      intro a ha
      exact renderAttr_congr h a (List.all_eq_true.1 hw.1.1 a ha)
    simp only [render, ih hw.2, hm]
  | seq a b iha ihb =>
    intro hw
    simp only [View.wf, Bool.and_eq_true] at hw
    simp only [render, iha hw.1, ihb hw.2]
  | dynText x =>
    intro hw
    simp only [View.wf, Bool.and_eq_true] at hw
    simp only [render, evalPure_congr h x hw.1.1]
  | either c a b iha ihb =>
    intro hw
    simp only [View.wf, Bool.and_eq_true] at hw
    simp only [render, evalPure_congr h c hw.1.1.1.1, iha hw.1.2, ihb hw.2]
  | «show» c a b iha ihb =>
    intro hw
    simp only [View.wf, Bool.and_eq_true] at hw
    simp only [render, evalPure_congr h c hw.1.1.1.1, iha hw.1.2, ihb hw.2]
  | forKeyed sel lists =>
    intro hw
    simp only [View.wf, Bool.and_eq_true] at hw
    simp only [render, evalPure_congr h sel hw.1.1.1.1]
  | scope sid d kid _ => intro hw; simp [View.wf] at hw
  | forRows en sel lists row _ => intro hw; simp [View.wf] at hw
  | eb kid _ => intro hw; simp [View.wf] at hw
  | res c x => intro hw; simp [View.wf] at hw

/-- at an idle point of a state satisfying the leaf invariant the DOM is the fresh render -/
theorem Inv0.settled {K : Nat} {v : View} {st : St} (h : Inv0 K v st) (hw : v.wf K = true)
    (hidle : ready st = []) : st.dom = render st.env v := by
  obtain ⟨t, hroot, hgood, _⟩ := h.tree
  have hnp : ∀ e ∈ effsOf t, ¬ pending st e := by
    intro e he hp
    obtain ⟨x, cur, hok⟩ := Good.effOK v t hgood e he
    have : e ∈ ready st := by
      unfold ready
      refine List.mem_filter.2 ⟨hok.task, ?_⟩
      simp [hp.2.2, hok.done]
    rw [hidle] at this; simp at this
  simp only [St.dom, hroot]
  rw [Good.serialize_eq v t hgood hnp]
  exact (render_congr (fun i hi => h.rinv.env_sig hi) v hw).symm


/-! ## untouched nodes -/

/-- the signals written by a list of operations -/
def writes (ops : List Op) : List Nat :=
  ops.filterMap fun o => match o with | .set id _ => some id | _ => none

/-- effect `e` was not dirty in `st0` and read (at its last run before `st0`) none of the signals `W` -/
def quietEff (K : Nat) (W : List Nat) (st0 : St) (e : Nat) : Prop :=
  K ≤ e ∧ (∀ id ∈ W, id ∉ (st0.rs.get e).sources) ∧ (st0.rs.get e).dirty = false

/-- invariant of the operations after `st0` while only signals of `W` are written -/
structure Quiet (K : Nat) (v : View) (W : List Nat) (st0 st : St) : Prop where
  inv : Inv0 K v st
  q : ∀ e, quietEff K W st0 e →
    (st.rs.get e).dirty = false ∧ (st.rs.get e).sources = (st0.rs.get e).sources
  keep : ∀ n g, (n, g) ∈ st0.nodes → (∀ e ∈ g, quietEff K W st0 e) → (n, g) ∈ st.nodes

theorem Quiet.start {K : Nat} {v : View} {W : List Nat} {st0 : St} (h : Inv0 K v st0) : Quiet K v W st0 st0 :=
  ⟨h, fun _ hq => ⟨hq.2.2, rfl⟩, fun _ _ hm _ => hm⟩

theorem Quiet.setSig {K : Nat} {v : View} {W : List Nat} {st0 st : St} (h : Quiet K v W st0 st) {id : Nat}
    (hid : id ∈ W) (w : Int) : Quiet K v W st0 (RView.setSig st id w) := by
  refine ⟨h.inv.setSig id w, ?_, fun n g hm hg => h.keep n g hm hg⟩
  intro e hq
  have hqe := h.q e hq
  rcases Nat.lt_or_ge id K with hk | hk
  · have g := setSig_get h.inv.rinv hk w
    have hne : e ≠ id := by have := hq.1; omega
    have hns : e ∉ (st.rs.get id).subs := by
      intro hm
      have := h.inv.rinv.exact id e hm
      rw [hqe.2] at this
      exact hq.2.1 id hid this
    have : (RView.setSig st id w).rs.get e = st.rs.get e := by rw [g.2.2 e]; simp [hne, hns]
    rw [this]; exact hqe
  · rw [setSig_noop h.inv.rinv hk w]; exact hqe

theorem Quiet.pollNth {K : Nat} {v : View} {W : List Nat} {st0 st : St} (h : Quiet K v W st0 st)
    (hl : v.leaves = true) (i : Nat) : Quiet K v W st0 (RView.pollNth st i) := by
  unfold RView.pollNth
  simp only
  split
  · exact h
  · next hne =>
    have hm := getD_mem_of_ne_nil (l := ready st) (by simpa using hne) i
    have hmem : (ready st).getD (i % (ready st).length) 0 ∈ st.tasks := by
      unfold ready at hm ⊢
      exact (List.mem_filter.1 hm).1
    generalize (ready st).getD (i % (ready st).length) 0 = e' at hmem
    have pr := poll_res h.inv hl hmem
    refine ⟨pr.inv, ?_, ?_⟩
    · intro e hq
      have hqe := h.q e hq
      by_cases hee : e = e'
      · subst hee
        exact ⟨pr.after, (pr.clean hqe.1).2.2.trans hqe.2⟩
      · have := pr.others e hee
        simp only [RView.ctl, Prod.mk.injEq] at this
        exact ⟨this.1.2.2.2.1.trans hqe.1, this.2.trans hqe.2⟩
    · intro n g hm0 hg
      have hm1 := h.keep n g hm0 hg
      by_cases hin : e' ∈ g
      · have hc := pr.clean (h.q e' (hg e' hin)).1
        have : (pollTask st e').nodes = st.nodes := by
          simp only [St.nodes, hc.1, hc.2.1]
        rw [this]; exact hm1
      · exact pr.nodes n g hm1 hin

theorem Quiet.runIdle {K : Nat} {v : View} {W : List Nat} {st0 : St} (hl : v.leaves = true) :
    ∀ (k : Nat) (st : St), Quiet K v W st0 st → Quiet K v W st0 (RView.runIdle k st)
  | 0, st, h => h
  | k + 1, st, h => by
    simp only [RView.runIdle]
    split
    · exact h
    · exact Quiet.runIdle hl k _ (h.pollNth hl 0)

theorem Quiet.steps {K : Nat} {v : View} {W : List Nat} {st0 : St} (hl : v.leaves = true) :
    ∀ (ops : List Op) (st : St), Quiet K v W st0 st → (∀ id ∈ writes ops, id ∈ W) → Op.dispose ∉ ops →
      Quiet K v W st0 (ops.foldl RView.step st)
  | [], st, h, _, _ => h
  | op :: rest, st, h, hw, hnd => by
    simp only [List.foldl_cons]
    have hnd' : Op.dispose ∉ rest := fun hm => hnd (by simp [hm])
    cases op with
    | set id w =>
      have hid : id ∈ W := hw id (by simp [writes])
      exact Quiet.steps hl rest _ (h.setSig hid w) (fun j hj => hw j (by
        simp only [writes, List.filterMap_cons] at hj ⊢; simp [hj])) hnd'
    | poll i =>
      exact Quiet.steps hl rest _ (h.pollNth hl i) (fun j hj => hw j (by
        simp only [writes, List.filterMap_cons] at hj ⊢; exact hj)) hnd'
    | idle =>
      exact Quiet.steps hl rest _ (Quiet.runIdle hl 4096 st h) (fun j hj => hw j (by
        simp only [writes, List.filterMap_cons] at hj ⊢; exact hj)) hnd'
    | dispose => exact absurd (by simp) hnd

end Leptos.RView
