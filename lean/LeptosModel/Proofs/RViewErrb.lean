import LeptosModel.Proofs.RViewMBase
/-!
# Proofs/RViewErrb — error boundaries: the register of a boundary (`errors`, modelled by its size)

`bump` is the only operation of the view layer that writes the register; it changes the stored number by
exactly its argument.
-/
namespace Leptos.RView
open Leptos.Reactive

theorem sigNotify_val (f : Nat) (s : State) (id i : Nat) : ((sigNotify f s id).get i).val = (s.get i).val := by
  unfold sigNotify
  generalize (s.get id).subs = l
  induction l generalizing s with
  | nil => rfl
  | cons x l ih =>
    simp only [List.foldl_cons]
    rw [ih, (markDirty_rel f s x).val i]

theorem setSignal_val (f : Nat) (s : State) (id : Nat) (v : Int) (h : id < s.nodes.length) :
    ((setSignal f s id v).get id).val = some v := by
  unfold setSignal
  simp only [sigNotify_val, State.emit_get, State.get_upd_same _ _ h]

theorem setSignal_val_ne (f : Nat) (s : State) (id i : Nat) (v : Int) (h : i ≠ id) :
    ((setSignal f s id v).get i).val = (s.get i).val := by
  unfold setSignal
  simp only [sigNotify_val, State.emit_get, State.get_upd_ne _ _ (Ne.symm h)]

/-- a registration / removal changes the register by exactly `d` -/
theorem bump_val (st : St) (s : Nat) (d : Int) (v0 : Int) (hs : st.prog[s]? = some (.sig v0))
    (hlt : s < st.rs.nodes.length) : envOf (bump st s d).rs s = envOf st.rs s + d := by
  simp only [bump, setSig, Reactive.step, hs, envOf, setSignal_val _ _ _ _ hlt, Option.getD_some]

theorem bump_prog (st : St) (s : Nat) (d : Int) : (bump st s d).prog = st.prog := rfl

end Leptos.RView
