import LeptosModel.Proofs.HydrateRepE
import LeptosModel.Proofs.HydrateEraseRebuild
import LeptosModel.Proofs.ViewFinal
/-! Helper lemmas for C05, part 12: serialisation of a DOM and of the same DOM with inert comments
erased agree once comments are stripped; the fuel of `serializeKids` suffices; assembly of
`C05_then_like_csr`. -/
namespace Leptos.Hydrate
open Leptos.Dom Leptos.View

theorem nodup_bounded : ∀ (n : Nat) (l : List Nat), l.Nodup → (∀ x ∈ l, x < n) → l.length ≤ n
  | 0, l, _, h => by
    cases l with
    | nil => simp
    | cons a _ => exact absurd (h a (by simp)) (by omega)
  | n + 1, l, hn, h => by
    have h1 : (l.erase n).Nodup := hn.erase n
    have h2 : ∀ x ∈ l.erase n, x < n := by
      intro x hx
      have := (List.Nodup.mem_erase_iff hn).mp hx
      have := h x this.2
      omega
    have ih := nodup_bounded n (l.erase n) h1 h2
    by_cases hm : n ∈ l
    · have := List.length_erase_of_mem hm
      omega
    · rw [List.erase_of_not_mem hm] at ih
      omega

mutual
/-- the nesting depth of a represented view is bounded by the number of nodes its state owns -/
theorem depth_le_owned {R : List (String × String) → List (String × String) → Prop} {d : Dom} :
    (v : View) → ∀ (st : State) (par : Option Id), wfH v = true → Rep R d v st par → v.depth ≤ (owned st).length + 1
  | .text _, st, _, _, _ => by simp [View.depth]
  | .unit, st, _, _, _ => by simp [View.depth]
  | .onone, st, _, _, _ => by simp [View.depth]
  | .osome v, st, par, hw, h => by
    cases st <;> simp only [Rep] at h
    simpa [View.depth, owned] using depth_le_owned v _ par (by simpa [wfH] using hw) h.2
  | .either _ _ v, st, par, hw, h => by
    cases st <;> simp only [Rep] at h
    simpa [View.depth, owned] using depth_le_owned v _ par (by simpa [wfH] using hw) h.2
  | .any _ v, st, par, hw, h => by
    cases st <;> simp only [Rep] at h
    simpa [View.depth, owned] using depth_le_owned v _ par (by simpa [wfH] using hw) h.2
  | .tuple vs, st, par, hw, h => by
    cases st <;> simp only [Rep] at h
    simpa [View.depth, owned] using depthList_le_owned vs _ par (by simpa [wfH] using hw) h
  | .vec vs, st, par, hw, h => by
    cases st <;> simp only [Rep] at h
    have := depthList_le_owned vs _ par (by simpa [wfH] using hw) h.1
    simp only [View.depth, owned, List.length_append, List.length_singleton]
    omega
  | .elem tag as c, st, par, hw, h => by
    cases st <;> simp only [Rep] at h
    rename_i id ass cs
    obtain ⟨r, _, _, _, _, _, hk⟩ := h
    simp only [wfH, Bool.and_eq_true] at hw
    by_cases hv : View.isVoid tag = true
    · simp only [hv, if_true] at hk
      have hvt : isVoidT tag = true := by rw [← isVoid_agree]; exact hv
      have hc : c = .unit := viewExists_false (by simpa [hvt] using hw.1)
      subst hc
      simp [View.depth, owned, hk.1, ownedOpt]
    · simp only [hv] at hk
      obtain ⟨c', hcs, _, hrep⟩ := hk
      subst hcs
      have := depth_le_owned c c' (some id) hw.2 hrep
      simp only [View.depth, owned, ownedOpt, List.length_cons]
      omega
theorem depthList_le_owned {R : List (String × String) → List (String × String) → Prop} {d : Dom} :
    (vs : List View) → ∀ (sts : List State) (par : Option Id), wfHL vs = true → RepList R d vs sts par →
    View.depthList vs ≤ (ownedList sts).length + 1
  | [], sts, _, _, _ => by simp [View.depthList]
  | v :: vs, sts, par, hw, h => by
    cases sts with
    | nil => simp [RepList] at h
    | cons s ss =>
      simp only [RepList] at h
      simp only [wfHL, Bool.and_eq_true] at hw
      have h1 := depth_le_owned v s par hw.1 h.1
      have h2 := depthList_le_owned vs ss par hw.2 h.2
      simp only [View.depthList, ownedList, List.length_append]
      omega
end

/-! ### serialisation and erasure -/

/-- two trees that `stripL` cannot tell apart, whatever follows -/
def StripEq (t t' : Dom.Tree) : Prop := ∀ acc, stripT t acc = stripT t' acc

theorem stripL_cons (t : Dom.Tree) (ts : List Dom.Tree) : stripL (t :: ts) = stripT t (stripL ts) := by
  simp [stripL]

theorem allSome_cons_some {α : Type} (a : α) (l : List (Option α)) (r : List α) (h : allSome l = some r) :
    allSome (some a :: l) = some (a :: r) := by simp [allSome, h]

mutual
theorem ser_erase (d : Dom) (Z : List Id) (hZ : ∀ z ∈ Z, d.kindOf z = some .comment) :
    ∀ (n : Nat) (x : Id) (t : Dom.Tree), x ∉ Z → serN n (erase d Z) x = some t →
    ∃ t', serN (n + 1) d x = some t' ∧ StripEq t' t
  | 0, _, _, _, h => by simp [serN] at h
  | n + 1, x, t, hx, h => by
    simp only [serN, get?_erase_keep d hx] at h
    cases hr : d.get? x with
    | none => simp [hr] at h
    | some r =>
      simp only [hr, Option.map_some, eraseRec] at h
      cases hk : r.kind with
      | text =>
        simp only [hk] at h
        exact ⟨t, by simp [serN, hr, hk]; simpa using h, fun _ => rfl⟩
      | comment =>
        simp only [hk] at h
        exact ⟨t, by simp [serN, hr, hk]; simpa using h, fun _ => rfl⟩
      | elem tag =>
        simp only [hk] at h
        cases hks : allSome ((r.kids.filter (keep Z)).map (serN n (erase d Z))) with
        | none => simp [hks] at h
        | some kts =>
          simp only [hks, Option.map_some, Option.some.injEq] at h
          obtain ⟨kts', h1, h2⟩ := serList_erase d Z hZ n r.kids kts (by simpa [serListN] using hks)
          have h1' : allSome (r.kids.map (serN (n + 1) d)) = some kts' := by simpa only [serListN] using h1
          refine ⟨.elem tag r.attrs kts', by rw [serN]; simp only [hr, hk, h1', Option.map_some], ?_⟩
          intro acc
          rw [← h]
          simp [stripT, h2]
theorem serList_erase (d : Dom) (Z : List Id) (hZ : ∀ z ∈ Z, d.kindOf z = some .comment) :
    ∀ (n : Nat) (xs : List Id) (ts : List Dom.Tree), serListN n (erase d Z) (xs.filter (keep Z)) = some ts →
    ∃ ts', serListN (n + 1) d xs = some ts' ∧ stripL ts' = stripL ts
  | _, [], ts, h => by
    simp [serListN, allSome] at h
    subst h
    exact ⟨[], by simp [serListN, allSome], rfl⟩
  | n, x :: xs, ts, h => by
    by_cases hx : x ∈ Z
    · -- an inert comment: serialises to a comment, which `stripL` drops
      have hk : keep Z x = false := by simp [keep, hx]
      simp only [List.filter_cons, hk] at h
      obtain ⟨ts', h1, h2⟩ := serList_erase d Z hZ n xs ts (by simpa using h)
      obtain ⟨r, hr, hkind⟩ : ∃ r, d.get? x = some r ∧ r.kind = .comment := by
        have := hZ x hx
        simp only [Dom.kindOf] at this
        cases hg : d.get? x with
        | none => simp [hg] at this
        | some r => exact ⟨r, rfl, by simpa [hg] using this⟩
      refine ⟨.comment r.data :: ts', ?_, by rw [stripL_cons]; simp [stripT, h2]⟩
      simp only [serListN, List.map_cons] at h1 ⊢
      exact allSome_cons_some _ _ _ (by simpa [serN, hr, hkind] using h1) |> fun e => by
        simpa [serN, hr, hkind] using e
    · have hk : keep Z x = true := by simp [keep, hx]
      simp only [List.filter_cons, hk, if_true, serListN, List.map_cons] at h
      cases h0 : serN n (erase d Z) x with
      | none => simp [allSome, h0] at h
      | some t =>
        cases hrest : allSome ((xs.filter (keep Z)).map (serN n (erase d Z))) with
        | none => simp [allSome, h0, hrest] at h
        | some tr =>
          have hts : ts = t :: tr := by simpa [allSome, h0, hrest] using h.symm
          subst hts
          obtain ⟨t', g1, g2⟩ := ser_erase d Z hZ n x t hx h0
          obtain ⟨tr', g3, g4⟩ := serList_erase d Z hZ n xs tr (by simpa [serListN] using hrest)
          refine ⟨t' :: tr', ?_, by rw [stripL_cons, stripL_cons, g2, g4]⟩
          simp only [serListN, List.map_cons] at g3 ⊢
          simp [allSome, g1, g3]
end

mutual
theorem treeBeq_refl : ∀ t : Dom.Tree, treeBeq t t = true
  | .text _ => by simp [treeBeq]
  | .comment _ => by simp [treeBeq]
  | .elem _ _ kids => by simp [treeBeq, treesBeq_refl kids]
theorem treesBeq_refl : ∀ ts : List Dom.Tree, treesBeq ts ts = true
  | [] => rfl
  | t :: ts => by simp [treesBeq, treeBeq_refl t, treesBeq_refl ts]
end

end Leptos.Hydrate
