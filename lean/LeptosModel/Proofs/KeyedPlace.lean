import LeptosModel.Proofs.KeyedNodes
import LeptosModel.Proofs.KeyedMain
/-!
# One placement (`insert before the next mounted sibling, else before the marker`) keeps
"DOM order = storage order on the stored items" (C11)
-/
namespace Leptos.Keyed

/-- mounting the block of `x` in front of the first node of `y` -/
theorem region_place_before (pre post : List NodeId) (marker : NodeId) (seq : List Item) (x y : Item)
    (hnd : (pre ++ blocks seq ++ marker :: post).Nodup) (hne : ∀ z ∈ seq, z.nodes ≠ [])
    (hx : x ∈ seq ∨ (x.nodes.Nodup ∧ ∀ n ∈ x.nodes, n ∉ pre ++ blocks seq ++ marker :: post))
    (hy : y ∈ seq) (hxy : y ≠ x) :
    insertBeforeThisOrMarker (pre ++ blocks seq ++ marker :: post) y x marker
      = pre ++ blocks (insB y x (seq.erase x)) ++ marker :: post := by
  have h1 := List.nodup_append.mp hnd
  have h2 := List.nodup_append.mp h1.1
  have hseq := nodup_of_blocks_nodup h2.2.1 hne
  obtain ⟨h, tl, hy'⟩ : ∃ h tl, y.nodes = h :: tl := by
    cases hn : y.nodes with
    | nil => exact absurd hn (hne y hy)
    | cons h tl => exact ⟨h, tl, rfl⟩
  have hye : y ∈ seq.erase x := (List.mem_erase_of_ne hxy).mpr hy
  obtain ⟨A', B', hAB⟩ := List.append_of_mem hye
  have hyA : y ∉ A' := by
    have : (seq.erase x).Nodup := List.Nodup.sublist List.erase_sublist hseq
    rw [hAB, List.nodup_append] at this
    intro hm
    exact this.2.2 y hm y (by simp) rfl
  have hxn : x.nodes.Nodup := by
    rcases hx with hx | hx
    · exact block_nodup_of_mem h2.2.1 hx
    · exact hx.1
  have hhx : h ∉ x.nodes := by
    rcases hx with hx | hx
    · intro hm
      exact disjoint_of_mem h2.2.1 hy hx hxy h (by simp [hy']) hm
    · intro hm
      exact hx.2 h hm (by
        simp only [List.mem_append]
        exact Or.inl (Or.inr (mem_blocks.mpr ⟨y, hy, by simp [hy']⟩)))
  unfold insertBeforeThisOrMarker
  simp only [hy', List.head?_cons]
  unfold mountItem
  rw [mount_block h (pre ++ blocks A') (tl ++ blocks B' ++ marker :: post) x.nodes _ hnd hxn hhx]
  · rw [hAB, insB_append_of_not_mem B' hyA]
    simp [hy']
  · rw [region_filter pre post marker seq x hnd hne (hx.imp id (·.2)), hAB]
    simp [hy']

/-- mounting the block of `x` in front of the marker -/
theorem region_place_end (pre post : List NodeId) (marker : NodeId) (seq : List Item) (x : Item)
    (hnd : (pre ++ blocks seq ++ marker :: post).Nodup) (hne : ∀ z ∈ seq, z.nodes ≠ [])
    (hx : x ∈ seq ∨ (x.nodes.Nodup ∧ ∀ n ∈ x.nodes, n ∉ pre ++ blocks seq ++ marker :: post)) :
    mountItem (pre ++ blocks seq ++ marker :: post) x (some marker)
      = pre ++ blocks (seq.erase x ++ [x]) ++ marker :: post := by
  have h1 := List.nodup_append.mp hnd
  have h2 := List.nodup_append.mp h1.1
  have hxn : x.nodes.Nodup := by
    rcases hx with hx | hx
    · exact block_nodup_of_mem h2.2.1 hx
    · exact hx.1
  have hmx : marker ∉ x.nodes := by
    rcases hx with hx | hx
    · intro hm
      exact h1.2.2 marker (List.mem_append_right _ (mem_blocks.mpr ⟨x, hx, hm⟩)) marker (by simp) rfl
    · intro hm
      exact hx.2 marker hm (by simp)
  unfold mountItem
  rw [mount_block marker (pre ++ blocks (seq.erase x)) post x.nodes _ hnd hxn hmx]
  · simp
  · rw [region_filter pre post marker seq x hnd hne (hx.imp id (·.2))]

/-! ### the stored items after `children[p] = Some(x)` -/

theorem nextMounted_cons_succ (o : Option Item) (st : List (Option Item)) (p : Nat) :
    nextMounted (o :: st) (p + 1) = nextMounted st p := rfl

theorem nextMounted_mem {st : List (Option Item)} {p : Nat} {y : Item} (h : nextMounted st p = some y) :
    y ∈ somes st := by
  unfold nextMounted at h
  obtain ⟨o, ho, hy⟩ := List.exists_of_findSome?_eq_some h
  simp only [id] at hy
  subst hy
  have : some y ∈ st := List.mem_of_mem_drop ho
  simp only [somes, List.mem_filterMap]
  exact ⟨some y, this, rfl⟩

theorem somes_cons_none (st : List (Option Item)) : somes (none :: st) = somes st := rfl
theorem somes_cons_some (a : Item) (st : List (Option Item)) : somes (some a :: st) = a :: somes st := rfl

theorem findSome?_id_eq_head? : ∀ (st : List (Option Item)), st.findSome? id = (somes st).head?
  | [] => rfl
  | none :: st => by simpa [somes_cons_none] using findSome?_id_eq_head? st
  | some a :: st => by simp [somes_cons_some]

/-- storing `x` in the empty slot `p` inserts it, in the sequence of stored items, directly in front
of the next mounted sibling (at the end if there is none) -/
theorem somes_set : ∀ (st : List (Option Item)) (p : Nat) (x : Item), st[p]? = some none →
    (somes st).Nodup →
    somes (st.set p (some x)) =
      match nextMounted st p with
      | some y => insB y x (somes st)
      | none => somes st ++ [x]
  | [], p, x, h, _ => by simp at h
  | o :: st, 0, x, h, _ => by
    simp only [List.getElem?_cons_zero, Option.some.injEq] at h
    subst h
    simp only [List.set_cons_zero, somes_cons_some, somes_cons_none]
    have : nextMounted (none :: st) 0 = (somes st).head? := by
      unfold nextMounted
      simp only [List.drop_zero, List.findSome?_cons, id]
      exact findSome?_id_eq_head? st
    rw [this]
    cases hs : somes st with
    | nil => simp
    | cons y l => simp [insB_cons_self]
  | o :: st, p + 1, x, h, hnd => by
    simp only [List.getElem?_cons_succ] at h
    simp only [List.set_cons_succ, nextMounted_cons_succ]
    cases o with
    | none =>
      simp only [somes_cons_none] at hnd ⊢
      exact somes_set st p x h hnd
    | some a =>
      simp only [somes_cons_some, List.nodup_cons] at hnd ⊢
      rw [somes_set st p x h hnd.2]
      cases hn : nextMounted st p with
      | none => simp
      | some y =>
        have hy := nextMounted_mem hn
        have : a ≠ y := by rintro rfl; exact hnd.1 hy
        simp [insB_cons_ne _ this]

/-! ### the invariant of the DOM phases -/

/-- the parent's children are `pre`, the blocks of `seq`, the marker, `post`; restricted to the items
that are stored, `seq` is in storage order; every other member of `seq` is still to be placed -/
structure Shape (pre post : List NodeId) (marker : NodeId) (seq : List Item)
    (ks : List NodeId × List (Option Item)) (pend : List Item) : Prop where
  kids_eq : ks.1 = pre ++ blocks seq ++ marker :: post
  nodup : ks.1.Nodup
  nonempty : ∀ z ∈ seq, z.nodes ≠ []
  order : seq.filter (fun z => decide (z ∈ somes ks.2)) = somes ks.2
  cover : ∀ z ∈ seq, z ∈ somes ks.2 ∨ z ∈ pend

/-- what the remaining placements must satisfy -/
structure POk (seq : List Item) (ks : List NodeId × List (Option Item)) (P : List (Nat × Item)) : Prop where
  pos_nodup : (P.map (·.1)).Nodup
  items_nodup : (P.map (·.2)).Nodup
  empty : ∀ p ∈ P, ks.2[p.1]? = some none
  not_stored : ∀ p ∈ P, p.2 ∉ somes ks.2
  nonempty : ∀ p ∈ P, p.2.nodes ≠ []
  fresh : ∀ p ∈ P, p.2 ∈ seq ∨ (p.2.nodes.Nodup ∧ ∀ n ∈ p.2.nodes, n ∉ ks.1)
  disjoint : (P.map (·.2)).Pairwise fun a b => ∀ n ∈ a.nodes, n ∉ b.nodes

theorem Shape.seq_nodup {pre post : List NodeId} {marker : NodeId} {seq : List Item}
    {ks : List NodeId × List (Option Item)} {pend : List Item} (sh : Shape pre post marker seq ks pend) :
    seq.Nodup := by
  have h := sh.nodup
  rw [sh.kids_eq] at h
  exact nodup_of_blocks_nodup (List.nodup_append.mp (List.nodup_append.mp h).1).2.1 sh.nonempty

theorem filter_erase_of_false {α : Type} [DecidableEq α] {l : List α} (hl : l.Nodup) {x : α} {p : α → Bool}
    (hx : p x = false) : (l.erase x).filter p = l.filter p := by
  rw [List.Nodup.erase_eq_filter hl, List.filter_filter]
  apply List.filter_congr
  intro a _
  by_cases h : a = x <;> simp [h, hx]

theorem place_step (pre post : List NodeId) (marker : NodeId) (seq : List Item)
    (ks : List NodeId × List (Option Item)) (p : Nat) (x : Item) (P : List (Nat × Item))
    (sh : Shape pre post marker seq ks (((p, x) :: P).map (·.2))) (ok : POk seq ks ((p, x) :: P)) :
    ∃ seq', Shape pre post marker seq' (placeStep marker ks (p, x)) (P.map (·.2)) ∧
      POk seq' (placeStep marker ks (p, x)) P := by
  have hseq := sh.seq_nodup
  have hkn : (pre ++ blocks seq ++ marker :: post).Nodup := sh.kids_eq ▸ sh.nodup
  have hsn : (somes ks.2).Nodup := sh.order ▸ List.Nodup.sublist List.filter_sublist hseq
  have hempty := ok.empty (p, x) (by simp)
  have hxs : x ∉ somes ks.2 := ok.not_stored (p, x) (by simp)
  have hxne : x.nodes ≠ [] := ok.nonempty (p, x) (by simp)
  have hfresh : x ∈ seq ∨ (x.nodes.Nodup ∧ ∀ n ∈ x.nodes, n ∉ pre ++ blocks seq ++ marker :: post) := by
    have := ok.fresh (p, x) (by simp)
    rwa [sh.kids_eq] at this
  have hset := somes_set ks.2 p x hempty hsn
  -- members of the new sequence, of the new stored items, of the new children
  have hmem_erase : ∀ z, z ∈ seq.erase x ↔ z ≠ x ∧ z ∈ seq := fun z => List.Nodup.mem_erase_iff hseq
  have hpos := ok.pos_nodup
  have hitems := ok.items_nodup
  have hdis := ok.disjoint
  simp only [List.map_cons, List.nodup_cons, List.pairwise_cons] at hpos hitems hdis
  -- the common part: given the new sequence / stored items with their membership characterisation
  have finish : ∀ (seq' : List Item),
      (placeStep marker ks (p, x)).1 = pre ++ blocks seq' ++ marker :: post →
      (∀ z, z ∈ seq' ↔ z = x ∨ z ∈ seq.erase x) →
      (∀ z, z ∈ somes (ks.2.set p (some x)) ↔ z = x ∨ z ∈ somes ks.2) →
      seq'.filter (fun z => decide (z ∈ somes (ks.2.set p (some x)))) = somes (ks.2.set p (some x)) →
      ∃ seq', Shape pre post marker seq' (placeStep marker ks (p, x)) (P.map (·.2)) ∧
        POk seq' (placeStep marker ks (p, x)) P := by
    intro seq' hk hms hmst hord
    have hkids_nodup : (placeStep marker ks (p, x)).1.Nodup := by
      simp only [placeStep, place1]
      cases nextMounted ks.2 p with
      | none => exact nodup_mountItem _ _ sh.nodup
      | some y =>
        simp only [insertBeforeThisOrMarker]
        cases y.nodes.head? <;> exact nodup_mountItem _ _ sh.nodup
    have hkids_mem : ∀ n, n ∈ (placeStep marker ks (p, x)).1 → n ∈ x.nodes ∨ n ∈ ks.1 := by
      intro n
      simp only [placeStep, place1]
      cases nextMounted ks.2 p with
      | none => exact mem_mountItem
      | some y =>
        simp only [insertBeforeThisOrMarker]
        cases y.nodes.head? <;> exact mem_mountItem
    refine ⟨seq', ⟨hk, hkids_nodup, ?_, hord, ?_⟩, ⟨hpos.2, hitems.2, ?_, ?_, ?_, ?_, hdis.2⟩⟩
    · intro z hz
      rcases (hms z).mp hz with rfl | hz
      · exact hxne
      · exact sh.nonempty z ((hmem_erase z).mp hz).2
    · intro z hz
      simp only [placeStep]
      rcases (hms z).mp hz with rfl | hz
      · exact Or.inl ((hmst z).mpr (Or.inl rfl))
      · rcases sh.cover z ((hmem_erase z).mp hz).2 with h | h
        · exact Or.inl ((hmst z).mpr (Or.inr h))
        · simp only [List.map_cons, List.mem_cons] at h
          rcases h with rfl | h
          · exact Or.inl ((hmst z).mpr (Or.inl rfl))
          · exact Or.inr h
    · intro q hq
      simp only [placeStep]
      have hne : p ≠ q.1 := by
        rintro rfl
        exact hpos.1 (List.mem_map.mpr ⟨q, hq, rfl⟩)
      rw [List.getElem?_set_ne hne]
      exact ok.empty q (by simp [hq])
    · intro q hq hm
      simp only [placeStep] at hm
      rcases (hmst _).mp hm with h | h
      · exact hitems.1 (List.mem_map.mpr ⟨q, hq, h⟩)
      · exact ok.not_stored q (by simp [hq]) h
    · intro q hq
      exact ok.nonempty q (by simp [hq])
    · intro q hq
      have hqx : q.2 ≠ x := fun h => hitems.1 (List.mem_map.mpr ⟨q, hq, h⟩)
      rcases ok.fresh q (by simp [hq]) with h | h
      · exact Or.inl ((hms _).mpr (Or.inr ((hmem_erase _).mpr ⟨hqx, h⟩)))
      · refine Or.inr ⟨h.1, ?_⟩
        intro n hn hn'
        rcases hkids_mem n hn' with h' | h'
        · exact hdis.1 q.2 (List.mem_map.mpr ⟨q, hq, rfl⟩) n h' hn
        · exact h.2 n hn h'
  cases hnm : nextMounted ks.2 p with
  | none =>
    rw [hnm] at hset
    refine finish (seq.erase x ++ [x]) ?_ ?_ ?_ ?_
    · simp only [placeStep, place1, hnm]
      rw [sh.kids_eq]
      exact region_place_end pre post marker seq x hkn sh.nonempty hfresh
    · intro z; simp only [List.mem_append, List.mem_singleton]; exact Or.comm
    · intro z; rw [hset]; simp only [List.mem_append, List.mem_singleton]; exact Or.comm
    · rw [hset, List.filter_append]
      have h1 : (seq.erase x).filter (fun z => decide (z ∈ somes ks.2 ++ [x])) = somes ks.2 :=
        calc (seq.erase x).filter (fun z => decide (z ∈ somes ks.2 ++ [x]))
            = (seq.erase x).filter (fun z => decide (z ∈ somes ks.2)) := by
              apply List.filter_congr
              intro z hz
              have := ((hmem_erase z).mp hz).1
              simp [this]
          _ = seq.filter (fun z => decide (z ∈ somes ks.2)) :=
              filter_erase_of_false hseq (by simpa using hxs)
          _ = somes ks.2 := sh.order
      rw [h1]
      simp
  | some y =>
    rw [hnm] at hset
    have hys : y ∈ somes ks.2 := nextMounted_mem hnm
    have hyseq : y ∈ seq := by
      have := sh.order ▸ hys
      exact (List.mem_filter.mp this).1
    have hyx : y ≠ x := by rintro rfl; exact hxs hys
    refine finish (insB y x (seq.erase x)) ?_ ?_ ?_ ?_
    · simp only [placeStep, place1, hnm]
      rw [sh.kids_eq]
      exact region_place_before pre post marker seq x y hkn sh.nonempty hfresh hyseq hyx
    · intro z; exact mem_insB
    · intro z; rw [hset]; exact mem_insB
    · rw [hset, filter_insB _ (by simp [mem_insB]) (by intro _; simp [mem_insB, hys])]
      congr 1
      calc (seq.erase x).filter (fun z => decide (z ∈ insB y x (somes ks.2)))
          = (seq.erase x).filter (fun z => decide (z ∈ somes ks.2)) := by
            apply List.filter_congr
            intro z hz
            have := ((hmem_erase z).mp hz).1
            simp [mem_insB, this]
        _ = seq.filter (fun z => decide (z ∈ somes ks.2)) :=
            filter_erase_of_false hseq (by simpa using hxs)
        _ = somes ks.2 := sh.order

/-- all placements: at the end the blocks of the stored items stand in storage order between `pre`
and the marker -/
theorem place_all (pre post : List NodeId) (marker : NodeId) : ∀ (P : List (Nat × Item)) (seq : List Item)
    (ks : List NodeId × List (Option Item)),
    Shape pre post marker seq ks (P.map (·.2)) → POk seq ks P →
    (placeAll marker P ks).1 = pre ++ blocks (somes (placeAll marker P ks).2) ++ marker :: post ∧
    (placeAll marker P ks).1.Nodup
  | [], seq, ks, sh, _ => by
    simp only [placeAll, List.foldl_nil]
    have : seq = somes ks.2 := by
      rw [← sh.order]
      symm
      apply List.filter_eq_self.mpr
      intro z hz
      rcases sh.cover z hz with h | h
      · simpa using h
      · simp at h
    rw [← this]
    exact ⟨sh.kids_eq, sh.nodup⟩
  | (p, x) :: P, seq, ks, sh, ok => by
    obtain ⟨seq', sh', ok'⟩ := place_step pre post marker seq ks p x P sh ok
    have := place_all pre post marker P seq' _ sh' ok'
    simpa [placeAll] using this

end Leptos.Keyed
