import LeptosModel.Proofs.ViewClass
/-! # Proofs/ViewCells — attribute lists as maps of *cells* (a named attribute, one class token, one
style property); every attribute item owns some cells; items with disjoint footprints commute, so a
rebuild of the item list ends in the cells a fresh build writes -/
namespace Leptos.View
open Leptos.Dom

inductive Cell where
  | named (k : String)
  | cls (t : String)
  | sty (n : String)
  deriving DecidableEq, Repr

/-- what an attribute list says about a cell (`class` / `style` are read through their tokens /
declarations, never as named attributes) -/
def cellVal (l : List (String × String)) : Cell → Option String
  | .named k => if k = "class" ∨ k = "style" then none else getA l k
  | .cls t => if t ∈ clsOf l then some "" else none
  | .sty n => getA (styOf l) n

/-- the attribute lists denote the same cells: named attributes as a map, `class` as a token set,
`style` as a declaration map (an empty `class` / `style` attribute = an absent one) -/
def AttrsSim (a b : List (String × String)) : Prop := ∀ c, cellVal a c = cellVal b c

theorem AttrsSim.refl (a : List (String × String)) : AttrsSim a a := fun _ => rfl

theorem styleDecls_empty : styleDecls "" = [] := by decide

/-- changing one attribute `n` of the list: the cells it can affect -/
theorem cellVal_update (l l' : List (String × String)) (n : String) (x : Option String)
    (h : ∀ k, getA l' k = if k = n then x else getA l k) (c : Cell) :
    cellVal l' c =
      if n = "class" then
        (match c with
          | .cls t => if t ∈ classTokens (x.getD "") then some "" else none
          | c => cellVal l c)
      else if n = "style" then
        (match c with
          | .sty m => getA (styleDecls (x.getD "")) m
          | c => cellVal l c)
      else
        (match c with
          | .named k => if k = n then x else cellVal l (.named k)
          | c => cellVal l c) := by
  by_cases hc : n = "class"
  · subst hc
    simp only [if_true]
    cases c with
    | named k =>
      simp only [cellVal]
      by_cases hk : k = "class" ∨ k = "style"
      · simp [hk]
      · have : k ≠ "class" := fun e => hk (Or.inl e)
        simp [hk, h k, this]
    | cls t => simp [cellVal, clsOf, h "class"]
    | sty m =>
      have : ("style" : String) ≠ "class" := by decide
      simp [cellVal, styOf, h "style", this]
  · by_cases hs : n = "style"
    · subst hs
      simp only [hc, if_false, if_true]
      cases c with
      | named k =>
        simp only [cellVal]
        by_cases hk : k = "class" ∨ k = "style"
        · simp [hk]
        · have : k ≠ "style" := fun e => hk (Or.inr e)
          simp [hk, h k, this]
      | cls t =>
        have : ("class" : String) ≠ "style" := by decide
        simp only [cellVal, clsOf, h "class", this, if_false]
        first | rfl | (split <;> simp_all)
      | sty m => simp [cellVal, styOf, h "style"]
    · simp only [hc, hs, if_false]
      cases c with
      | named k =>
        simp only [cellVal]
        by_cases hk : k = "class" ∨ k = "style"
        · have hkn : k ≠ n := by rintro rfl; rcases hk with hk | hk <;> simp_all
          simp [hk, hkn]
        · simp [hk, h k]
      | cls t =>
        have : ("class" : String) ≠ n := fun e => hc e.symm
        simp only [cellVal, clsOf, h "class", this, if_false]
        first | rfl | (split <;> simp_all)
      | sty m =>
        have : ("style" : String) ≠ n := fun e => hs e.symm
        simp [cellVal, styOf, h "style", this]


/-- a DOM step that only changes the attributes of element `el`, described on cells -/
def StepRes (d d' : Dom) (el : Id) (r : NodeRec) (f : Cell → Option String) : Prop :=
  (∃ r', d'.get? el = some r' ∧ EqModAttrs r r' ∧ ∀ c, cellVal r'.attrs c = f c) ∧
  (∀ y, y ≠ el → d'.get? y = d.get? y) ∧ d'.next = d.next

theorem StepRes.id {d : Dom} {el : Id} {r : NodeRec} (hg : d.get? el = some r) :
    StepRes d d el r (cellVal r.attrs) :=
  ⟨⟨r, hg, ⟨rfl, rfl, rfl, rfl⟩, fun _ => rfl⟩, fun _ _ => rfl, rfl⟩

theorem StepRes.congr {d d' : Dom} {el : Id} {r : NodeRec} {f g : Cell → Option String}
    (h : StepRes d d' el r f) (hfg : ∀ c, f c = g c) : StepRes d d' el r g := by
  obtain ⟨⟨r', h1, h2, h3⟩, h4, h5⟩ := h
  exact ⟨⟨r', h1, h2, fun c => by rw [h3 c, hfg c]⟩, h4, h5⟩

/-- `set_attribute` on cells -/
theorem step_set (d : Dom) (el : Id) (n v : String) (r : NodeRec)
    (hg : d.get? el = some r) (hk : r.kind.isElem = true) :
    StepRes d (d.setAttribute el n v) el r (fun c =>
      if n = "class" then
        (match c with
          | .cls t => if t ∈ classTokens v then some "" else none
          | c => cellVal r.attrs c)
      else if n = "style" then
        (match c with
          | .sty m => getA (styleDecls v) m
          | c => cellVal r.attrs c)
      else
        (match c with
          | .named k => if k = n then some v else cellVal r.attrs (.named k)
          | c => cellVal r.attrs c)) := by
  obtain ⟨⟨r', h1, h2, h3⟩, h4, h5⟩ := setAttribute_attrs d el n v r hg hk
  exact ⟨⟨r', h1, h2, fun c => by simpa using cellVal_update r.attrs r'.attrs n (some v) h3 c⟩, h4, h5⟩

/-- `remove_attribute` on cells -/
theorem step_remove (d : Dom) (el : Id) (n : String) (r : NodeRec)
    (hg : d.get? el = some r) (hk : r.kind.isElem = true) :
    StepRes d (d.removeAttribute el n) el r (fun c =>
      if n = "class" then
        (match c with
          | .cls _ => none
          | c => cellVal r.attrs c)
      else if n = "style" then
        (match c with
          | .sty _ => none
          | c => cellVal r.attrs c)
      else
        (match c with
          | .named k => if k = n then none else cellVal r.attrs (.named k)
          | c => cellVal r.attrs c)) := by
  obtain ⟨⟨r', h1, h2, h3⟩, h4, h5⟩ := removeAttribute_attrs d el n r hg hk
  refine ⟨⟨r', h1, h2, fun c => ?_⟩, h4, h5⟩
  have := cellVal_update r.attrs r'.attrs n none h3 c
  simp only [Option.getD_none, classTokens_empty, styleDecls_empty] at this
  rw [this]
  by_cases hc : n = "class"
  · simp only [hc, if_true]; cases c <;> simp [getA]
  · by_cases hs : n = "style"
    · simp only [hc, hs, if_false, if_true]; cases c <;> simp [getA]
    · simp only [hc, hs, if_false]

/-- `classList.add` on cells -/
theorem step_addClass (d : Dom) (el : Id) (tok : String) (r : NodeRec)
    (hg : d.get? el = some r) (hk : r.kind.isElem = true) (hv : validTok tok) :
    StepRes d (d.addClass el tok) el r (fun c =>
      match c with
      | .cls t => if t = tok then some "" else cellVal r.attrs (.cls t)
      | c => cellVal r.attrs c) := by
  obtain ⟨⟨r', h1, h2, h3, h4⟩, h5, h6⟩ := addClass_attrs d el tok r hg hk hv
  refine ⟨⟨r', h1, h2, fun c => ?_⟩, h5, h6⟩
  have hcls : ("class" : String) ≠ "style" := by decide
  cases c with
  | named k =>
    simp only [cellVal]
    by_cases hkk : k = "class" ∨ k = "style"
    · simp [hkk]
    · simp only [hkk, if_false]; exact h3 k (fun e => hkk (Or.inl e))
  | sty m => simp only [cellVal, styOf, h3 "style" (fun e => hcls e.symm)]
  | cls t =>
    simp only [cellVal]
    by_cases ht : t = tok
    · subst ht; simp [(h4 t).mpr (Or.inr rfl)]
    · simp only [ht, if_false]
      by_cases hm : t ∈ clsOf r.attrs
      · simp [hm, (h4 t).mpr (Or.inl hm)]
      · have : t ∉ clsOf r'.attrs := fun h => by
          rcases (h4 t).mp h with h | h
          · exact hm h
          · exact ht h
        simp [hm, this]

/-- `classList.remove` on cells -/
theorem step_removeClass (d : Dom) (el : Id) (tok : String) (r : NodeRec)
    (hg : d.get? el = some r) (hk : r.kind.isElem = true) (hv : validTok tok) :
    StepRes d (d.removeClass el tok) el r (fun c =>
      match c with
      | .cls t => if t = tok then none else cellVal r.attrs (.cls t)
      | c => cellVal r.attrs c) := by
  obtain ⟨⟨r', h1, h2, h3, h4⟩, h5, h6⟩ := removeClass_attrs d el tok r hg hk hv
  refine ⟨⟨r', h1, h2, fun c => ?_⟩, h5, h6⟩
  have hcls : ("class" : String) ≠ "style" := by decide
  cases c with
  | named k =>
    simp only [cellVal]
    by_cases hkk : k = "class" ∨ k = "style"
    · simp [hkk]
    · simp only [hkk, if_false]; exact h3 k (fun e => hkk (Or.inl e))
  | sty m => simp only [cellVal, styOf, h3 "style" (fun e => hcls e.symm)]
  | cls t =>
    simp only [cellVal]
    by_cases ht : t = tok
    · subst ht
      have : t ∉ clsOf r'.attrs := fun h => ((h4 t).mp h).2 rfl
      simp [this]
    · simp only [ht, if_false]
      by_cases hm : t ∈ clsOf r.attrs
      · simp [hm, (h4 t).mpr ⟨hm, ht⟩]
      · have : t ∉ clsOf r'.attrs := fun h => hm ((h4 t).mp h).1
        simp [hm, this]

/-- two steps in a row -/
theorem StepRes.comp {d d1 d2 : Dom} {el : Id} {r r1 : NodeRec} {f g : Cell → Option String}
    (h1 : StepRes d d1 el r f) (hr1 : d1.get? el = some r1) (h2 : StepRes d1 d2 el r1 g) :
    StepRes d d2 el r g := by
  obtain ⟨⟨r1', a1, a2, _⟩, a4, a5⟩ := h1
  obtain ⟨⟨r2, b1, b2, b3⟩, b4, b5⟩ := h2
  rw [hr1] at a1; cases a1
  exact ⟨⟨r2, b1, a2.trans b2, b3⟩, fun y hy => by rw [b4 y hy, a4 y hy], by rw [b5, a5]⟩

/-- the record after a step -/
theorem StepRes.rec {d d1 : Dom} {el : Id} {r : NodeRec} {f : Cell → Option String}
    (h1 : StepRes d d1 el r f) (hk : r.kind.isElem = true) :
    ∃ r1, d1.get? el = some r1 ∧ r1.kind.isElem = true ∧ ∀ c, cellVal r1.attrs c = f c := by
  obtain ⟨⟨r1, a1, a2, a3⟩, _, _⟩ := h1
  exact ⟨r1, a1, by rw [a2.1]; exact hk, a3⟩

end Leptos.View
