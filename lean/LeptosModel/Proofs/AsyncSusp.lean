import LeptosModel.Proofs.Async
/-!
# Proofs/AsyncSusp — the stand-in `<Suspense/>` boundary of `Model/Async` (C10)

`SInv` ties the boundary's task list (`pending`) to what the model knows about the readers it spawned and
the task ids the derived's loop holds, and is preserved by every event (`SInv.run`).
-/
namespace Leptos.Async

/-- reader tasks that have not resolved yet (each holds one task handle of the boundary): `liveReaders` -/
abbrev nLive (l : List Aw) : Nat := liveReaders l

theorem nLive_append (l m : List Aw) : nLive (l ++ m) = nLive l + nLive m := by
  simp [nLive, liveReaders, List.filter_append]

theorem nLive_wake (l : List Aw) : nLive (l.map wakeAw) = nLive l := by
  induction l with
  | nil => rfl
  | cons a as ih =>
    have ha : (decide ((wakeAw a).kind = .reader) && !(wakeAw a).done) = (decide (a.kind = .reader) && !a.done) := by
      unfold wakeAw; split <;> rfl
    simp only [nLive, liveReaders, List.map_cons, List.filter_cons] at ih ⊢
    rw [ha]
    split <;> simp [ih]

/-- polling a task while the derived is loading parks it: no reader resolves -/
theorem nLive_poll_loading (b : Bool) (v : Option Val) (l : List Aw) (i : Nat) :
    nLive (modifyAt (pollAw true b v) l i) = nLive l := by
  induction l generalizing i with
  | nil => rfl
  | cons a as ih =>
    cases i with
    | zero =>
      cases hk : a.kind <;> cases hd : a.done <;> cases hb : a.aborted <;> cases hh : a.holding <;>
        cases hr : a.rel <;> simp [modifyAt, nLive, liveReaders, List.filter_cons, pollAw, hk, hd, hb, hh, hr]
    | succ i =>
      simp only [modifyAt, nLive, liveReaders, List.filter_cons] at ih ⊢
      split <;> simp [ih]

/-- polling task `i`: if it is a reader that resolves, one handle is dropped -/
theorem nLive_poll (ld b : Bool) (v : Option Val) (l : List Aw) (i : Nat) :
    nLive (modifyAt (pollAw ld b v) l i) + handleDrop ld l[i]? = nLive l := by
  induction l generalizing i with
  | nil => simp [modifyAt, nLive, liveReaders, handleDrop]
  | cons a as ih =>
    cases i with
    | zero =>
      cases ld <;> cases b <;> cases hk : a.kind <;> cases hd : a.done <;> cases hb : a.aborted <;>
        cases hh : a.holding <;> cases hr : a.rel <;>
        simp [modifyAt, nLive, liveReaders, pollAw, handleDrop, AwKind.usesLock, hk, hd, hb, hh, hr]
    | succ i =>
      have := ih i
      simp only [modifyAt, nLive, liveReaders, List.filter_cons, List.getElem?_cons_succ] at this ⊢
      split <;> simp_all <;> omega

/-- every awaiter under the boundary has resumed or has been dropped with its reader -/
def sawsGone (l : List Aw) : Prop := ∀ a ∈ l, a.kind = .saw → a.done = false → a.aborted = true

theorem sawsGone_append {l m : List Aw} (h : sawsGone l) (hm : sawsGone m) : sawsGone (l ++ m) := by
  intro a ha
  rcases List.mem_append.mp ha with ha | ha
  · exact h a ha
  · exact hm a ha

theorem sawsGone_wake {l : List Aw} (h : sawsGone l) : sawsGone (l.map wakeAw) := by
  intro a ha
  rcases List.mem_map.mp ha with ⟨b, hb, rfl⟩
  have := h b hb
  unfold wakeAw; split <;> simpa using this

theorem sawsGone_poll {l : List Aw} (h : sawsGone l) (ld : Bool) (v : Option Val) (i : Nat) :
    sawsGone (modifyAt (pollAw ld b v) l i) := by
  intro a ha
  rcases mem_modifyAt ha with ha | ⟨b, hb, rfl⟩
  · exact h a ha
  · have := h b hb
    unfold pollAw; (repeat' split) <;> simp_all

theorem sawsGone_drop (l : List Aw) : sawsGone (l.map dropAw) := by
  intro a ha
  rcases List.mem_map.mp ha with ⟨b, _, rfl⟩
  unfold dropAw; (repeat' split) <;> simp_all

theorem sawPolls_gone {l : List Aw} (h : sawsGone l) (i : Nat) : sawPolls l[i]? = 0 := by
  unfold sawPolls
  cases hi : l[i]? with
  | none => rfl
  | some a =>
    have ha : a ∈ l := List.mem_of_getElem? hi
    have := h a ha
    simp only
    split
    · rename_i hc
      have := this hc.1 hc.2.1
      simp [hc.2.2] at this
    · rfl

structure SInv (f : Bool) (s : State) : Prop where
  /-- the boundary's task list = unresolved reader tasks + task ids held by the loop -/
  p1 : s.pending = nLive s.aws + s.idsHeld
  p2 : s.pc ≠ .fetching → s.idsHeld = 0
  p3 : s.pc = .fetching → (s.coveredCur = true ↔ 0 < s.idsHeld)
  /-- no reader under the boundary: nothing is registered, held or waited for on its behalf -/
  p4 : f = true → s.noReader = true → s.susp = 0 ∧ s.idsHeld = 0
  p5 : s.pc = .fetching → s.msetDuring = false → s.loading = true
  p6 : s.pc = .fetching → s.msetDuring = false → s.readSince = true → 0 < nLive s.aws
  /-- no reader under the boundary: every awaiter under it has resumed or has been dropped -/
  p7 : s.noReader = true → sawsGone s.aws

variable {f : Bool}

theorem SInv.init (c : Cfg) : SInv f (init c) := by
  constructor <;> simp [Async.init, nLive, liveReaders, sawsGone]

/-! ## events that do not touch the boundary, the awaiters, `pc` or `loading` -/

/-- `t` agrees with `s` on everything `SInv` mentions -/
def SameSusp (s t : State) : Prop :=
  t.pending = s.pending ∧ t.aws = s.aws ∧ t.idsHeld = s.idsHeld ∧ t.pc = s.pc ∧ t.coveredCur = s.coveredCur ∧
  t.readSince = s.readSince ∧ t.susp = s.susp ∧ t.msetDuring = s.msetDuring ∧ t.loading = s.loading ∧
  t.noReader = s.noReader

theorem SameSusp.refl (s : State) : SameSusp s s := ⟨rfl, rfl, rfl, rfl, rfl, rfl, rfl, rfl, rfl, rfl⟩

theorem SameSusp.trans {a b c : State} (h1 : SameSusp a b) (h2 : SameSusp b c) : SameSusp a c := by
  obtain ⟨a1, a2, a3, a4, a5, a6, a7, a8, a9, a10⟩ := h1
  obtain ⟨b1, b2, b3, b4, b5, b6, b7, b8, b9, b10⟩ := h2
  exact ⟨b1.trans a1, b2.trans a2, b3.trans a3, b4.trans a4, b5.trans a5, b6.trans a6, b7.trans a7,
    b8.trans a8, b9.trans a9, b10.trans a10⟩

theorem SInv.of_same {s t : State} (h : SInv f s) (e : SameSusp s t) : SInv f t := by
  obtain ⟨e1, e2, e3, e4, e5, e6, e7, e8, e9, e10⟩ := e
  obtain ⟨p1, p2, p3, p4, p5, p6, p7⟩ := h
  constructor <;> simp_all

theorem dMarkDirty_susp (s : State) : SameSusp s (dMarkDirty s) := by
  simp only [dMarkDirty, dNotify, SameSusp]; (repeat' split) <;> simp
theorem smMarkDirty_susp (s : State) : SameSusp s (smMarkDirty s) := by
  simp only [smMarkDirty, dMarkCheck, dNotify, SameSusp]; (repeat' split) <;> simp
theorem mMarkDirty_susp (s : State) : SameSusp s (mMarkDirty s) := by
  simp only [mMarkDirty, eMarkCheck, eNotify, SameSusp]; (repeat' split) <;> simp

theorem setSrc_susp (s : State) (i : Nat) (v : Val) : SameSusp s (setSrc s i v) := by
  unfold setSrc
  split
  · have h0 : SameSusp s { s with src := setAt s.src i v } := ⟨rfl, rfl, rfl, rfl, rfl, rfl, rfl, rfl, rfl, rfl⟩
    have fin : ∀ u : State, SameSusp s u → SameSusp s (if u.mRan = true then mMarkDirty u else u) := by
      intro u hu
      split
      · exact hu.trans (mMarkDirty_susp _)
      · exact hu
    by_cases hv : s.viaMemo = true
    · dsimp only
      rw [if_pos hv]
      exact fin _ (h0.trans (smMarkDirty_susp _))
    · dsimp only
      rw [if_neg hv]
      split
      · exact fin _ (h0.trans (dMarkDirty_susp _))
      · exact fin _ h0
  · exact SameSusp.refl s

theorem refetch_susp (s : State) : SameSusp s (refetch s) := by
  unfold refetch
  split
  · exact SameSusp.trans (b := { s with rc := s.rc + 1 }) ⟨rfl, rfl, rfl, rfl, rfl, rfl, rfl, rfl, rfl, rfl⟩
      (smMarkDirty_susp _)
  · exact dMarkDirty_susp s

theorem complete_susp (s : State) (f : Nat) : SameSusp s (complete s f) := by
  simp only [complete, SameSusp]; split <;> simp

/-! ## `notify_subs`, manual writes, reads, awaiters -/

theorem notifySubs_pending (s : State) : (notifySubs s).pending = s.pending := by ns_frame
theorem notifySubs_idsHeld (s : State) : (notifySubs s).idsHeld = s.idsHeld := by ns_frame
theorem notifySubs_susp (s : State) : (notifySubs s).susp = s.susp := by ns_frame
theorem notifySubs_readSince (s : State) : (notifySubs s).readSince = s.readSince := by ns_frame
theorem notifySubs_coveredCur (s : State) : (notifySubs s).coveredCur = s.coveredCur := by ns_frame
theorem notifySubs_msetDuring (s : State) : (notifySubs s).msetDuring = s.msetDuring := by ns_frame
theorem notifySubs_noReader (s : State) : (notifySubs s).noReader = s.noReader := by ns_frame

/-- `notify_subs` on a state that is not (or no longer) fetching, or after a manual write -/
theorem SInv.notifySubs {s : State} (h : SInv f s) (hm : s.pc = .fetching → s.msetDuring = true) :
    SInv f (notifySubs s) := by
  obtain ⟨p1, p2, p3, p4, p5, p6, p7⟩ := h
  constructor <;>
    simp only [notifySubs_pending, notifySubs_idsHeld, notifySubs_susp, notifySubs_readSince,
      notifySubs_coveredCur, notifySubs_msetDuring, notifySubs_noReader, notifySubs_pc, notifySubs_aws, notifySubs_loading,
      nLive_wake] <;> simp_all
  exact fun hn => sawsGone_wake (p7 hn)

theorem SInv.manualSet {s : State} (h : SInv f s) (v : Val) : SInv f (manualSet s v) := by
  obtain ⟨p1, p2, p3, p4, p5, p6, p7⟩ := h
  unfold Async.manualSet
  apply SInv.notifySubs
  · constructor <;> simp_all
  · intro _; rfl

theorem SInv.applyResult {s : State} (h : SInv f s) :
    SInv f (Async.applyResult s) ∧ (Async.applyResult s).pc = .waiting := by
  obtain ⟨p1, p2, p3, p4, p5, p6, p7⟩ := h
  simp only [Async.applyResult]
  split
  · refine ⟨?_, by simp⟩
    apply SInv.notifySubs
    · constructor <;> simp_all
    · intro hpc; simp at hpc
  · refine ⟨?_, rfl⟩
    constructor <;> simp_all

theorem SInv.attach {s : State} (h : SInv f s) : SInv f { s with aws := s.aws ++ [{}] } := by
  obtain ⟨p1, p2, p3, p4, p5, p6, p7⟩ := h
  have h0 : nLive [({} : Aw)] = 0 := by simp [nLive, liveReaders]
  have h1 : sawsGone [({} : Aw)] := by simp [sawsGone]
  constructor <;> simp_all [nLive_append]
  exact fun hn => sawsGone_append (p7 hn) h1

theorem SInv.attachK {s : State} (h : SInv f s) (k : AwKind) (h1 : k ≠ .reader) (h2 : k ≠ .saw) :
    SInv f { s with aws := s.aws ++ [{ kind := k }] } := by
  obtain ⟨p1, p2, p3, p4, p5, p6, p7⟩ := h
  have h0 : nLive [({ kind := k } : Aw)] = 0 := by simp [nLive, liveReaders, h1]
  have h3 : sawsGone [({ kind := k } : Aw)] := by simp [sawsGone, h2]
  constructor <;> simp_all [nLive_append]
  exact fun hn => sawsGone_append (p7 hn) h3

theorem SInv.bread {s : State} (h : SInv f s) : SInv f (bread s) := by
  obtain ⟨p1, p2, p3, p4, p5, p6, p7⟩ := h
  have h1 : nLive [({ kind := .reader } : Aw)] = 1 := by simp [nLive, liveReaders]
  unfold Async.bread
  split
  · split
    · constructor <;> simp_all [nLive_append] <;> omega
    · exact ⟨p1, p2, p3, fun _ hn => by simp at hn, p5, p6, fun hn => by simp at hn⟩
  · constructor <;> simp_all [nLive_append] <;> omega

theorem SInv.attachS {s : State} (h : SInv f s) :
    SInv f { s with aws := s.aws ++ [{ kind := .saw }], noReader := false } := by
  obtain ⟨p1, p2, p3, p4, p5, p6, p7⟩ := h
  have h0 : nLive [({ kind := .saw } : Aw)] = 0 := by simp [nLive, liveReaders]
  constructor <;> simp_all [nLive_append]

theorem nLive_drop (l : List Aw) : nLive (l.map dropAw) = nLive l := by
  induction l with
  | nil => rfl
  | cons a as ih =>
    have ha : (decide ((dropAw a).kind = .reader) && !(dropAw a).done) = (decide (a.kind = .reader) && !a.done) := by
      unfold dropAw; split <;> simp_all
    simp only [nLive, liveReaders, List.map_cons, List.filter_cons] at ih ⊢
    rw [ha]
    split <;> simp [ih]

/-- the readers are disposed (the code as it is): the awaiting futures go, nothing else -/
theorem SInv.bdrop {s : State} (h : SInv false s) : SInv false (bdrop s) := by
  obtain ⟨p1, p2, p3, p4, p5, p6, p7⟩ := h
  unfold Async.bdrop
  constructor <;> simp_all [nLive_drop, sawsGone_drop]

/-- ... once more, when nothing is registered or held any more: nothing changes -/
theorem SInv.bdrop_quiet {s : State} (h : SInv true s) (hn : s.noReader = true) :
    SInv true (Async.bdrop s) := by
  obtain ⟨p1, p2, p3, p4, p5, p6, p7⟩ := h
  have := p4 rfl hn
  unfold Async.bdrop
  constructor <;> simp_all [nLive_drop, sawsGone_drop]

/-- the readers are disposed (proposed repair 3): every task id the loop holds on their behalf is back, nothing
stays registered -/
theorem SInv.bdropFixed {s : State} (h : SInv f s) : SInv true (bdropFixed s) := by
  obtain ⟨p1, p2, p3, p4, p5, p6, p7⟩ := h
  unfold Async.bdropFixed
  constructor <;> simp_all [nLive_drop, sawsGone_drop]

theorem SInv.wakeWriter {s : State} (h : SInv f s) : SInv f (wakeWriter s) := by
  unfold Async.wakeWriter
  split
  · exact h.of_same ⟨rfl, rfl, rfl, rfl, rfl, rfl, rfl, rfl, rfl, rfl⟩
  · exact h

/-- the task starts to wait for the write lock: the ids it held for this run are released -/
theorem SInv.block {s : State} (h : SInv f s) (hpc : s.pc = .fetching) : SInv f (blockOnLock s) := by
  obtain ⟨p1, p2, p3, p4, p5, p6, p7⟩ := h
  unfold blockOnLock
  constructor <;> simp_all <;> omega

theorem nLive_release (l : List Aw) : nLive (l.map releaseAw) = nLive l := by
  induction l with
  | nil => rfl
  | cons a as ih =>
    have ha : (decide ((releaseAw a).kind = .reader) && !(releaseAw a).done) = (decide (a.kind = .reader) && !a.done) := by
      unfold releaseAw; split <;> simp_all
    simp only [nLive, liveReaders, List.map_cons, List.filter_cons] at ih ⊢
    rw [ha]
    split <;> simp [ih]

theorem sawsGone_release {l : List Aw} (h : sawsGone l) : sawsGone (l.map releaseAw) := by
  intro a ha
  rcases List.mem_map.mp ha with ⟨b, hb, rfl⟩
  have := h b hb
  unfold releaseAw; split <;> simp_all

theorem SInv.release {s : State} (h : SInv f s) : SInv f (release s) := by
  obtain ⟨p1, p2, p3, p4, p5, p6, p7⟩ := h
  unfold Async.release
  apply SInv.wakeWriter
  constructor <;> simp_all [nLive_release]
  exact fun hn => sawsGone_release (p7 hn)

theorem SInv.pollA {s : State} (h : SInv f s) (i : Nat) : SInv f (pollA s i) := by
  obtain ⟨p1, p2, p3, p4, p5, p6, p7⟩ := h
  have hp := nLive_poll s.loading s.lockReg s.value s.aws i
  unfold Async.pollA
  apply SInv.wakeWriter
  constructor <;> simp only []
  · omega
  · exact p2
  · exact p3
  · intro hf hn
    obtain ⟨a2, a3⟩ := p4 hf hn
    exact ⟨by rw [sawPolls_gone (p7 hn)]; omega, a3⟩
  · exact p5
  · intro a b c
    have hl := p5 a b
    rw [hl, nLive_poll_loading]
    exact p6 a b c
  · exact fun hn => sawsGone_poll (p7 hn) _ _ _

/-! ## the derived's task -/

theorem SInv.toFetch {s : State} (h : SInv f s) (hpc : s.pc = .waiting) : SInv f (fetchState s) := by
  obtain ⟨p1, p2, p3, p4, p5, p6, p7⟩ := h
  have hi : s.idsHeld = 0 := p2 (by simp [hpc])
  have hn : nLive (if s.isLocal = true then s.aws ++ [({ kind := .tick, tag := s.nf + 1 } : Aw)] else s.aws)
      = nLive s.aws := by
    split
    · rw [nLive_append]; simp [nLive, liveReaders]
    · rfl
  have hg : s.noReader = true →
      sawsGone (if s.isLocal = true then s.aws ++ [({ kind := .tick, tag := s.nf + 1 } : Aw)] else s.aws) := by
    intro hnr
    split
    · exact sawsGone_append (p7 hnr) (by simp [sawsGone])
    · exact p7 hnr
  rcases fetchState_cases s with ⟨_, _, _, _, heq⟩ | heq <;> rw [heq] <;> constructor <;>
    (try (intro hnr; have := p4 hnr; have := hg hnr)) <;> simp_all <;> omega

theorem SInv.dIter {s : State} (h : SInv f s) (hpc : s.pc = .waiting) :
    SInv f (dIter s).1 ∧ ((dIter s).2 = true → (dIter s).1.pc = .waiting) := by
  rw [dIter_def]
  by_cases hc : s.chan = false
  · rw [if_pos hc]
    exact ⟨h.of_same ⟨rfl, rfl, rfl, rfl, rfl, rfl, rfl, rfl, rfl, rfl⟩, fun hh => by simp at hh⟩
  · rw [if_neg hc]
    by_cases hn : (chk s).2 = true ∨ (chk s).1.firstRun = true
    · rw [if_pos hn]
      have hf := h.toFetch hpc
      by_cases hr : (fetchState s).tickFired = true ∧ (fetchState s).curStatus = .ready
      · rw [if_pos hr]
        by_cases hg : (fetchState s).guards = 0
        · rw [if_pos hg]
          exact ⟨hf.applyResult.1, fun _ => hf.applyResult.2⟩
        · rw [if_neg hg]
          exact ⟨hf.block (fetchState_pc s), fun hh => by simp at hh⟩
      · rw [if_neg hr]
        exact ⟨hf.of_same ⟨rfl, rfl, rfl, rfl, rfl, rfl, rfl, rfl, rfl, rfl⟩, fun hh => by simp at hh⟩
    · rw [if_neg hn]
      have hc2 : (chk s).2 = false := by
        cases h2 : (chk s).2
        · rfl
        · exact absurd (.inl h2) hn
      obtain ⟨_, _, heq⟩ := chk_false s hc2
      refine ⟨?_, fun _ => ?_⟩
      · show SInv f (chk s).1
        rw [heq]
        exact h.of_same ⟨rfl, rfl, rfl, rfl, rfl, rfl, rfl, rfl, rfl, rfl⟩
      · show (chk s).1.pc = .waiting
        rw [heq]; exact hpc

theorem SInv.dLoop (n : Nat) {s : State} (h : SInv f s) (hpc : s.pc = .waiting) : SInv f (dLoop n s) := by
  induction n generalizing s with
  | zero => exact h.of_same ⟨rfl, rfl, rfl, rfl, rfl, rfl, rfl, rfl, rfl, rfl⟩
  | succ n ih =>
    rw [Async.dLoop]
    obtain ⟨h1, h2⟩ := h.dIter hpc
    split
    · rename_i hc
      exact ih h1 (h2 hc)
    · exact h1

theorem SInv.pollD {s : State} (h : SInv f s) : SInv f (pollD s) := by
  unfold Async.pollD
  dsimp only
  split
  · rename_i hpc
    apply SInv.dLoop
    · obtain ⟨p1, p2, p3, p4, p5, p6, p7⟩ := h
      split <;> constructor <;> simp_all
    · rfl
  · rename_i hpc
    apply SInv.dLoop
    · exact h.of_same ⟨rfl, rfl, rfl, rfl, rfl, rfl, rfl, rfl, rfl, rfl⟩
    · exact hpc
  · rename_i hpc
    have h0 : SInv f { s with dWoken := false } := h.of_same ⟨rfl, rfl, rfl, rfl, rfl, rfl, rfl, rfl, rfl, rfl⟩
    split
    · split
      · exact SInv.dLoop 3 h0.applyResult.1 h0.applyResult.2
      · exact h0.block hpc
    · exact h.of_same ⟨rfl, rfl, rfl, rfl, rfl, rfl, rfl, rfl, rfl, rfl⟩

/-! ## the effect's task -/

theorem effUpdate_susp (s : State) : SameSusp s (effUpdate s).1 := by
  unfold effUpdate
  split
  · exact ⟨rfl, rfl, rfl, rfl, rfl, rfl, rfl, rfl, rfl, rfl⟩
  · have h := Frame.effAny (if s.eFirst = true then [] else effSources s.eff) s
    exact ⟨h.pending, h.aws, h.idsHeld, h.pc, h.coveredCur, h.readSince, h.susp, h.msetDuring, h.loading, h.noReader⟩

theorem runEffect_susp (s : State) : SameSusp s (runEffect s) := by
  obtain ⟨ms, mv, mr, x, h⟩ := runEffect_spec s
  rw [h]
  exact ⟨rfl, rfl, rfl, rfl, rfl, rfl, rfl, rfl, rfl, rfl⟩

theorem eIter_susp (s : State) : SameSusp s (eIter s).1 := by
  rw [eIter_def]
  split
  · exact ⟨rfl, rfl, rfl, rfl, rfl, rfl, rfl, rfl, rfl, rfl⟩
  · have h1 : SameSusp s { s with eReg := true, eChan := false } := ⟨rfl, rfl, rfl, rfl, rfl, rfl, rfl, rfl, rfl, rfl⟩
    split
    · exact (h1.trans (effUpdate_susp _)).trans (runEffect_susp _)
    · exact h1.trans (effUpdate_susp _)

theorem eLoop_susp (n : Nat) (s : State) : SameSusp s (eLoop n s) := by
  induction n generalizing s with
  | zero => exact ⟨rfl, rfl, rfl, rfl, rfl, rfl, rfl, rfl, rfl, rfl⟩
  | succ n ih =>
    rw [eLoop]
    split
    · exact (eIter_susp s).trans (ih _)
    · exact eIter_susp s

/-! ## every event -/

/-- every event but `bdrop`, whose effect depends on whether the proposed repair 3 is applied -/
theorem SInv.stepNB {s : State} (h : SInv f s) (e : Event) (hb : e ≠ .bdrop) : SInv f (step s e) := by
  cases e with
  | set i v => exact h.of_same (setSrc_susp s i v)
  | refetch => exact h.of_same (refetch_susp s)
  | manualSet v => exact h.manualSet v
  | complete k => exact h.of_same (complete_susp s k)
  | attach => exact h.attach
  | poll j =>
    simp only [Async.step, pollNth]
    split
    · rename_i t _
      cases t
      · show SInv f (pollT0 s)
        unfold pollT0
        split <;> exact h.of_same ⟨rfl, rfl, rfl, rfl, rfl, rfl, rfl, rfl, rfl, rfl⟩
      · exact h.pollD
      · exact h.of_same (SameSusp.trans (b := { s with eWoken := false })
          ⟨rfl, rfl, rfl, rfl, rfl, rfl, rfl, rfl, rfl, rfl⟩ (eLoop_susp 4 _))
      · exact h.pollA _
    · exact h
  | get => exact h
  | bread => exact h.bread
  | attachS => exact h.attachS
  | bdrop => exact absurd rfl hb
  | attachR => exact h.attachK .awaiterR (by decide) (by decide)
  | attachH => exact h.attachK .holder (by decide) (by decide)
  | hold => exact h.of_same ⟨rfl, rfl, rfl, rfl, rfl, rfl, rfl, rfl, rfl, rfl⟩
  | release => exact h.release

/-- the code as it is -/
theorem SInv.step {s : State} (h : SInv false s) (e : Event) : SInv false (step s e) := by
  by_cases hb : e = .bdrop
  · subst hb; exact h.bdrop
  · exact h.stepNB e hb

/-- the code as it is, or with the proposed repair 3 -/
theorem SInv.stepF {s : State} (h : SInv f s) (e : Event) : SInv f (stepF f s e) := by
  by_cases hb : e = .bdrop
  · subst hb
    cases f
    · exact h.bdrop
    · exact h.bdropFixed
  · have : Async.stepF f s e = Async.step s e := by cases e <;> first | rfl | exact absurd rfl hb
    rw [this]
    exact h.stepNB e hb

/-- the code as it is, from a state without readers in which nothing is registered or held any more: then the
boundary behaves as with the repair (`SInv true`), as long as no new reader comes -/
theorem SInv.step_quiet {s : State} (h : SInv true s) (hn : s.noReader = true) (e : Event) :
    SInv true (Async.step s e) := by
  by_cases hb : e = .bdrop
  · subst hb; exact h.bdrop_quiet hn
  · exact h.stepNB e hb

/-- nothing registered, nothing held: the flag does not matter -/
theorem SInv.quiet {s : State} (h : SInv f s) (hn : s.noReader = true → s.susp = 0 ∧ s.idsHeld = 0) :
    SInv true s :=
  ⟨h.p1, h.p2, h.p3, fun _ => hn, h.p5, h.p6, h.p7⟩

theorem SInv.foldl {s : State} (h : SInv false s) (es : List Event) : SInv false (es.foldl Async.step s) := by
  induction es generalizing s with
  | nil => exact h
  | cons e es ih => exact ih (h.step e)

theorem SInv.foldlF {s : State} (h : SInv f s) (es : List Event) : SInv f (es.foldl (Async.stepF f) s) := by
  induction es generalizing s with
  | nil => exact h
  | cons e es ih => exact ih (h.stepF e)

/-- the boundary invariant holds after every history -/
theorem SInv.run (c : Cfg) (es : List Event) : SInv false (run c es) := (SInv.init c).foldl es

/-- ... and with the proposed repair 3, where it says more (`p4`) -/
theorem SInv.runF (c : Cfg) (es : List Event) : SInv f (runF f c es) := (SInv.init c).foldlF es

end Leptos.Async
