import LeptosModel.Model.Async
/-!
# Proofs/Async — the invariant of `Model/Async` and its preservation by every event (C10)

`Inv s` holds in every state reachable by any event list (`Inv.run`).  The poll of the derived's task
is decomposed along the code: enter the loop (`DMid` = "at `rx.next()`"), one iteration (`dIter`),
`applyResult`; the fuel of `dLoop`/`eLoop` never runs out (`dLoop_eq`, `eLoop_eq`).
-/
set_option maxHeartbeats 1000000

namespace Leptos.Async

/-! ## awaiters -/

/-- no task that waits for the derived is forgotten: one that has not finished is woken, or parked in `wakers`
(only while loading), or a holder sitting on its guard until it is released (woken once it is), or `lost` — polled
with loading off while the lock was not readable, which `Inv` excludes as long as no manual write happened
(`LInv`) -/
def AwOK (ld : Bool) (a : Aw) : Prop :=
  (a.done = false → a.woken = true ∨ a.parked = true ∨ a.holding = true ∨ a.lost = true) ∧
  (a.parked = true → ld = true) ∧
  (a.done = true → a.kind ≠ .tick → a.aborted = false → a.result ≠ none) ∧
  (a.holding = true → a.rel = true → a.woken = true) ∧
  (a.holding = true → a.result ≠ none ∧ a.kind = .holder) ∧
  (a.lost = true → a.kind.usesLock = true)

theorem AwOK.wake {ld : Bool} {a : Aw} (h : AwOK ld a) : AwOK false (wakeAw a) := by
  unfold AwOK wakeAw at *; split <;> simp_all

theorem AwOK.loading {ld : Bool} {a : Aw} (h : AwOK ld a) : AwOK true a := by
  unfold AwOK at *; simp_all

theorem AwOK.poll {ld b : Bool} {v : Option Val} {a : Aw} (h : AwOK ld a) (hv : ld = false → v ≠ none) :
    AwOK ld (pollAw ld b v a) := by
  have c5 : a.holding = true → a.kind = .holder := fun hh => (h.2.2.2.2.1 hh).2
  by_cases hh : a.holding = true
  · have hk := c5 hh
    unfold AwOK pollAw at *
    simp only [hk, hh]
    (repeat' split) <;> simp_all
  · unfold AwOK pollAw at *
    (repeat' split) <;> simp_all <;> grind

theorem AwOK.release {ld : Bool} {a : Aw} (h : AwOK ld a) : AwOK ld (releaseAw a) := by
  unfold AwOK releaseAw at *
  split <;> simp_all <;> grind

theorem awAll_wake {ld : Bool} {l : List Aw} (h : ∀ a ∈ l, AwOK ld a) :
    ∀ a ∈ l.map wakeAw, AwOK false a := by
  intro a ha
  rcases List.mem_map.mp ha with ⟨b, hb, rfl⟩
  exact (h b hb).wake

theorem mem_modifyAt {f : Aw → Aw} {l : List Aw} {i : Nat} {x : Aw} (h : x ∈ modifyAt f l i) :
    x ∈ l ∨ ∃ a ∈ l, x = f a := by
  induction l generalizing i with
  | nil => simp [modifyAt] at h
  | cons a as ih =>
    cases i with
    | zero =>
      simp only [modifyAt, List.mem_cons] at h
      rcases h with h | h
      · exact .inr ⟨a, by simp, h⟩
      · exact .inl (by simp [h])
    | succ i =>
      simp only [modifyAt, List.mem_cons] at h
      rcases h with h | h
      · exact .inl (by simp [h])
      · rcases ih h with h | ⟨b, hb, hx⟩
        · exact .inl (by simp [h])
        · exact .inr ⟨b, by simp [hb], hx⟩

theorem awAll_poll {ld b : Bool} {v : Option Val} {l : List Aw} {i : Nat} (h : ∀ a ∈ l, AwOK ld a)
    (hv : ld = false → v ≠ none) : ∀ a ∈ modifyAt (pollAw ld b v) l i, AwOK ld a := by
  intro a ha
  rcases mem_modifyAt ha with ha | ⟨b, hb, rfl⟩
  · exact h a ha
  · exact (h b hb).poll hv

/-! ## tick tasks (`LocalResource`) -/

/-- a live, woken tick task of fetch number `nf` -/
def isTickOf (nf : Nat) (a : Aw) : Bool := decide (a.kind = .tick) && decide (a.tag = nf) && a.woken && !a.done

/-- the tick task of the fetch in flight has not been polled yet (so the executor is not idle) -/
def tickLive (s : State) : Prop := (s.nf = 1 ∧ s.tick0 = true) ∨ s.aws.any (isTickOf s.nf) = true

theorem anyTick_wake (nf : Nat) (l : List Aw) (h : l.any (isTickOf nf) = true) :
    (l.map wakeAw).any (isTickOf nf) = true := by
  rw [List.any_eq_true] at h ⊢
  obtain ⟨a, ha, hp⟩ := h
  refine ⟨wakeAw a, List.mem_map_of_mem ha, ?_⟩
  unfold wakeAw isTickOf at *
  split <;> simp_all

theorem anyTick_append_left (nf : Nat) (l m : List Aw) (h : l.any (isTickOf nf) = true) :
    (l ++ m).any (isTickOf nf) = true := by simp [List.any_append, h]

/-- polling task `i` keeps the witness unless task `i` is itself the tick of the fetch in flight -/
theorem anyTick_poll (nf : Nat) (ld b : Bool) (v : Option Val) (l : List Aw) (i : Nat)
    (h : l.any (isTickOf nf) = true) (hf : tickFires nf l[i]? = false) :
    (modifyAt (pollAw ld b v) l i).any (isTickOf nf) = true := by
  induction l generalizing i with
  | nil => simp at h
  | cons a as ih =>
    cases i with
    | zero =>
      simp only [modifyAt, List.any_cons, Bool.or_eq_true] at h ⊢
      rcases h with h | h
      · -- the head is a live tick of this fetch: then it fires
        exfalso
        simp only [List.getElem?_cons_zero, tickFires, isTickOf, Bool.and_eq_true, decide_eq_true_eq,
          Bool.not_eq_true'] at hf h
        simp_all
      · exact .inr h
    | succ i =>
      simp only [modifyAt, List.any_cons, Bool.or_eq_true, List.getElem?_cons_succ] at h hf ⊢
      rcases h with h | h
      · exact .inl h
      · exact .inr (ih i h hf)

theorem tickLive_append {s : State} (m : List Aw) (h : tickLive s) : tickLive { s with aws := s.aws ++ m } := by
  rcases h with h | h
  · exact .inl h
  · exact .inr (anyTick_append_left _ _ _ h)

/-! ## the invariant -/

/-- the subscriber effect, except wake-ups (holds also in the middle of the effect's own poll) -/
structure ECore (s : State) : Prop where
  e1 : hasEffect s.eff = true → s.eFirst = true → s.eChan = true ∧ s.eSubD = false
  e2 : hasEffect s.eff = true → s.eFirst = false →
        s.eSubD = true ∧ (s.eDirty = true ∨ lastSeen s = some s.value)
  e3 : s.eDirty = true → s.eChan = true
  e5 : hasMemo s.eff = false → s.eChan = true → s.eDirty = true
  e6 : s.stolen = false
  e7 : s.eSubM = true → hasMemo s.eff = true ∧ hasEffect s.eff = true
  e8 : s.eSubD = true → hasEffect s.eff = true

/-- no lost wake-up for the effect's task -/
structure EWake (s : State) : Prop where
  w1 : hasEffect s.eff = true → s.eFirst = true → s.eWoken = true
  w2 : s.eWoken = false → s.eChan = false
  w3 : s.eFirst = false → s.eWoken = false → s.eReg = true

structure DCore (s : State) : Prop where
  r1 : s.dstate ≠ .notifying
  r2 : s.dstate = .dirty → s.chan = true
  r7 : s.loading = false → s.value ≠ none
  m1 : s.manualLive = true → s.value = s.lastManual
  aw : ∀ a ∈ s.aws, AwOK s.loading a
  /-- a clean source memo caches the current source values -/
  s1 : s.viaMemo = true → s.smDirty = false → s.smVal = s.src ∧ s.smRc = s.rc
  /-- no lost wake-up: a dirty source memo means the derived's channel flag is set -/
  s2 : s.smDirty = true → s.chan = true
  /-- no lost wake-up: while the tick of the current fetch has not fired its task is live and woken -/
  t1 : s.tickFired = false → tickLive s

/-- the derived's task at rest (between events) -/
structure DRest (s : State) : Prop where
  r3 : s.pc = .start → s.dWoken = true ∧ s.chan = true ∧ s.firstRun = true ∧ s.initialFut = true ∧
        (s.curStatus = .pending ∨ s.curStatus = .ready)
  r4 : s.pc ≠ .start → s.firstRun = false ∧ s.initialFut = false
  r5 : s.pc = .waiting → s.loading = false ∧ (s.dWoken = false → s.reg = true ∧ s.chan = false)
  r6 : s.pc = .fetching → (s.curStatus = .pending ∨ s.curStatus = .ready) ∧ s.fetchVersion = s.version ∧
        (s.tickFired = true → s.curStatus = .ready → s.dWoken = true ∨ s.lockReg = true) ∧
        (s.tickFired = true → s.dWoken = false → s.dataReg = true ∨ s.lockReg = true)
  fresh : s.viaMemo = true → s.stolen = false → s.dstate = .clean →
        (s.pc = .waiting → s.manualLive = false → s.value = some (fetchFn (inputsNow s))) ∧
        (s.pc ≠ .waiting → s.curInputs = inputsNow s)
  /-- the task waits in `value.write().await` (or has been woken by the lock and not been polled yet): no lost
  wake-up — when the last read guard has gone it is woken -/
  r8 : s.lockReg = true → s.pc = .fetching ∧ s.curStatus = .ready ∧ s.tickFired = true ∧
        (s.guards = 0 → s.dWoken = true)

/-- the derived's task at the top of its loop (`rx.next()`), in the middle of a poll -/
structure DMid (s : State) : Prop where
  pcw : s.pc = .waiting
  f1 : s.firstRun = true → s.chan = true ∧
        (s.initialFut = true → s.dstate ≠ .dirty ∧ (s.curStatus = .pending ∨ s.curStatus = .ready) ∧
          (s.viaMemo = true → s.stolen = false → s.dstate = .clean → s.curInputs = inputsNow s)) ∧
        (s.initialFut = false → s.dstate = .dirty)
  f2 : s.firstRun = false → s.initialFut = false ∧ s.loading = false ∧
        (s.viaMemo = true → s.stolen = false → s.dstate = .clean → s.manualLive = false →
          s.value = some (fetchFn (inputsNow s)))
  /-- nobody waits for the write lock -/
  lk : s.lockReg = false

structure Inv (s : State) : Prop where
  dc : DCore s
  dr : DRest s
  ec : ECore s
  ew : EWake s

structure Mid (s : State) : Prop where
  dc : DCore s
  dm : DMid s
  ec : ECore s
  ew : EWake s

macro "inv_cases" : tactic =>
  `(tactic| (refine ⟨⟨?_, ?_, ?_, ?_, ?_, ?_, ?_, ?_⟩, ⟨?_, ?_, ?_, ?_, ?_, ?_⟩, ⟨?_, ?_, ?_, ?_, ?_, ?_, ?_⟩, ⟨?_, ?_, ?_⟩⟩))

theorem Inv.init (c : Cfg) : Inv (init c) := by
  simp only [Async.init]
  generalize (c.viaMemo || c.res) = vm
  generalize c.fx.getD (allSources c.srcs.length) = fx
  cases vm <;> inv_cases <;> simp [lastSeen, hasEffect, hasMemo, inputsNow, tickLive] <;>
    (try (cases c.eff <;> simp))

theorem Inv.dMarkDirtySrc {s : State} (h : Inv s) (x : List Val) (hv : s.viaMemo = false ∨ x = s.src) :
    Inv (Async.dMarkDirty { s with src := x }) := by
  obtain ⟨⟨r1, r2, r7, m1, aw, s1, s2, t1⟩, ⟨r3, r4, r5, r6, fresh, r8⟩, ⟨e1, e2, e3, e5, e6, e7, e8⟩, ⟨w1, w2, w3⟩⟩ := h
  unfold Async.dMarkDirty dNotify
  inv_cases <;> (simp only [lastSeen, inputsNow, tickLive] at *; split <;> try split) <;>
    (rcases hv with hv | hv) <;> simp_all

/-- a source write when the fetcher reads through the source memo: the memo is marked `Dirty`, the
derived is only asked to check -/
theorem Inv.smMarkDirtySrc {s : State} (h : Inv s) (x : List Val) (hv : s.viaMemo = true) :
    Inv (smMarkDirty { s with src := x }) := by
  obtain ⟨⟨r1, r2, r7, m1, aw, s1, s2, t1⟩, ⟨r3, r4, r5, r6, fresh, r8⟩, ⟨e1, e2, e3, e5, e6, e7, e8⟩, ⟨w1, w2, w3⟩⟩ := h
  unfold smMarkDirty dMarkCheck dNotify
  inv_cases <;> (simp only [lastSeen, inputsNow, tickLive] at *; split <;> try split) <;> simp_all

theorem Inv.dMarkDirty {s : State} (h : Inv s) : Inv (Async.dMarkDirty s) := h.dMarkDirtySrc s.src (.inr rfl)

theorem Inv.mMarkDirty {s : State} (h : Inv s) : Inv (mMarkDirty s) := by
  obtain ⟨⟨r1, r2, r7, m1, aw, s1, s2, t1⟩, ⟨r3, r4, r5, r6, fresh, r8⟩, ⟨e1, e2, e3, e5, e6, e7, e8⟩, ⟨w1, w2, w3⟩⟩ := h
  unfold Async.mMarkDirty eMarkCheck eNotify
  inv_cases <;> (simp only [lastSeen, inputsNow, tickLive] at *; (try split) <;> try split) <;> simp_all <;> grind

/-- `Resource::refetch`: the counter signal is bumped, the memo marked, the derived asked to check -/
theorem Inv.smMarkDirtyRc {s : State} (h : Inv s) (x : Nat) : Inv (smMarkDirty { s with rc := x }) := by
  obtain ⟨⟨r1, r2, r7, m1, aw, s1, s2, t1⟩, ⟨r3, r4, r5, r6, fresh, r8⟩, ⟨e1, e2, e3, e5, e6, e7, e8⟩, ⟨w1, w2, w3⟩⟩ := h
  unfold smMarkDirty dMarkCheck dNotify
  inv_cases <;> (simp only [lastSeen, inputsNow, tickLive] at *; split <;> try split) <;> simp_all

theorem Inv.refetch {s : State} (h : Inv s) : Inv (refetch s) := by
  unfold Async.refetch
  split
  · exact h.smMarkDirtyRc _
  · exact h.dMarkDirty

/-- a synchronous read by the boundary: a reader task is spawned, nothing else the invariant talks about -/
theorem Inv.bread {s : State} (h : Inv s) : Inv (bread s) := by
  obtain ⟨⟨r1, r2, r7, m1, aw, s1, s2, t1⟩, ⟨r3, r4, r5, r6, fresh, r8⟩, ⟨e1, e2, e3, e5, e6, e7, e8⟩, ⟨w1, w2, w3⟩⟩ := h
  have happ : ∀ a ∈ s.aws ++ [({ kind := .reader } : Aw)], AwOK s.loading a := by
    intro a ha
    rcases List.mem_append.mp ha with ha | ha
    · exact aw a ha
    · simp at ha; subst ha; simp [AwOK]
  have htl : ∀ m : List Aw, s.tickFired = false → (s.nf = 1 ∧ s.tick0 = true) ∨ (s.aws ++ m).any (isTickOf s.nf) = true :=
    fun m hf => tickLive_append m (t1 hf)
  unfold Async.bread
  split
  · split
    · inv_cases <;> (try exact htl _) <;> simp_all [lastSeen, inputsNow]
    · exact ⟨⟨r1, r2, r7, m1, aw, s1, s2, t1⟩, ⟨r3, r4, r5, r6, fresh, r8⟩, ⟨e1, e2, e3, e5, e6, e7, e8⟩, ⟨w1, w2, w3⟩⟩
  · inv_cases <;> (try exact htl _) <;> simp_all [lastSeen, inputsNow]

theorem Inv.setSrc {s : State} (h : Inv s) (i : Nat) (v : Val) : Inv (setSrc s i v) := by
  unfold Async.setSrc
  split
  · by_cases hv : s.viaMemo = true
    · have h1 := h.smMarkDirtySrc (setAt s.src i v) hv
      dsimp only
      rw [if_pos hv]
      split
      · exact h1.mMarkDirty
      · exact h1
    · dsimp only
      rw [if_neg hv]
      have hv' : s.viaMemo = false := by simpa using hv
      by_cases hi : i ∈ s.dSub
      · have h1 := h.dMarkDirtySrc (setAt s.src i v) (.inl hv')
        rw [if_pos hi]
        split
        · exact h1.mMarkDirty
        · exact h1
      · -- a write to a source the derived has not read: nothing is marked
        have h1 : Inv { s with src := setAt s.src i v } := by
          obtain ⟨⟨r1, r2, r7, m1, aw, s1, s2, t1⟩, ⟨r3, r4, r5, r6, fresh, r8⟩, ⟨e1, e2, e3, e5, e6, e7, e8⟩, ⟨w1, w2, w3⟩⟩ := h
          inv_cases <;> simp_all [lastSeen, inputsNow, tickLive]
        rw [if_neg hi]
        split
        · exact h1.mMarkDirty
        · exact h1
  · exact h

theorem Inv.complete {s : State} (h : Inv s) (f : Nat) : Inv (complete s f) := by
  obtain ⟨⟨r1, r2, r7, m1, aw, s1, s2, t1⟩, ⟨r3, r4, r5, r6, fresh, r8⟩, ⟨e1, e2, e3, e5, e6, e7, e8⟩, ⟨w1, w2, w3⟩⟩ := h
  have r64 : s.pc = .fetching → s.tickFired = true → s.dWoken = false → s.curStatus = .pending →
      s.dataReg = true := by
    intro hp ht hd hc
    rcases (r6 hp).2.2.2 ht hd with h | h
    · exact h
    · have := (r8 h).2.1; rw [hc] at this; exact absurd this (by decide)
  unfold Async.complete
  inv_cases <;> (simp only [lastSeen, inputsNow, tickLive] at *; split) <;> simp_all <;> grind

theorem Inv.attach {s : State} (h : Inv s) : Inv { s with aws := s.aws ++ [{}] } := by
  obtain ⟨⟨r1, r2, r7, m1, aw, s1, s2, t1⟩, ⟨r3, r4, r5, r6, fresh, r8⟩, ⟨e1, e2, e3, e5, e6, e7, e8⟩, ⟨w1, w2, w3⟩⟩ := h
  have htl : s.tickFired = false → (s.nf = 1 ∧ s.tick0 = true) ∨ (s.aws ++ [({} : Aw)]).any (isTickOf s.nf) = true :=
    fun hf => tickLive_append _ (t1 hf)
  inv_cases <;> (try exact htl) <;> simp_all [lastSeen, inputsNow]
  intro a ha
  rcases ha with ha | ha
  · exact aw a ha
  · subst ha; simp [AwOK]

theorem Inv.attachS {s : State} (h : Inv s) :
    Inv { s with aws := s.aws ++ [{ kind := .saw }], noReader := false } := by
  obtain ⟨⟨r1, r2, r7, m1, aw, s1, s2, t1⟩, ⟨r3, r4, r5, r6, fresh, r8⟩, ⟨e1, e2, e3, e5, e6, e7, e8⟩, ⟨w1, w2, w3⟩⟩ := h
  have htl : s.tickFired = false →
      (s.nf = 1 ∧ s.tick0 = true) ∨ (s.aws ++ [({ kind := .saw } : Aw)]).any (isTickOf s.nf) = true :=
    fun hf => tickLive_append _ (t1 hf)
  inv_cases <;> (try exact htl) <;> simp_all [lastSeen, inputsNow]
  intro a ha
  rcases ha with ha | ha
  · exact aw a ha
  · subst ha; simp [AwOK]

theorem AwOK.drop {ld : Bool} {a : Aw} (h : AwOK ld a) : AwOK ld (dropAw a) := by
  unfold AwOK dropAw at *; (repeat' split) <;> simp_all

theorem isTickOf_dropAw (nf : Nat) (a : Aw) : isTickOf nf (dropAw a) = isTickOf nf a := by
  unfold isTickOf dropAw; (repeat' split) <;> simp_all

theorem anyTick_drop (nf : Nat) (l : List Aw) : (l.map dropAw).any (isTickOf nf) = l.any (isTickOf nf) := by
  induction l with
  | nil => rfl
  | cons a as ih => simp only [List.map_cons, List.any_cons, isTickOf_dropAw, ih]

/-- the readers under the boundary are disposed: reader tasks lose their handle, awaiters are dropped -/
theorem Inv.bdrop {s : State} (h : Inv s) : Inv (bdrop s) := by
  obtain ⟨⟨r1, r2, r7, m1, aw, s1, s2, t1⟩, ⟨r3, r4, r5, r6, fresh, r8⟩, ⟨e1, e2, e3, e5, e6, e7, e8⟩, ⟨w1, w2, w3⟩⟩ := h
  have haw : ∀ a ∈ s.aws.map dropAw, AwOK s.loading a := by
    intro a ha
    rcases List.mem_map.mp ha with ⟨b, hb, rfl⟩
    exact (aw b hb).drop
  have htl : s.tickFired = false → (s.nf = 1 ∧ s.tick0 = true) ∨ (s.aws.map dropAw).any (isTickOf s.nf) = true := by
    intro hf
    rw [anyTick_drop]
    exact t1 hf
  unfold Async.bdrop
  inv_cases <;> (try exact htl) <;> (try exact haw) <;> simp_all [lastSeen, inputsNow]

/-- ... with the proposed repair 3 (task ids and registrations go with the readers) -/
theorem Inv.bdropFixed {s : State} (h : Inv s) : Inv (bdropFixed s) := by
  obtain ⟨⟨r1, r2, r7, m1, aw, s1, s2, t1⟩, ⟨r3, r4, r5, r6, fresh, r8⟩, ⟨e1, e2, e3, e5, e6, e7, e8⟩, ⟨w1, w2, w3⟩⟩ := h
  have haw : ∀ a ∈ s.aws.map dropAw, AwOK s.loading a := by
    intro a ha
    rcases List.mem_map.mp ha with ⟨b, hb, rfl⟩
    exact (aw b hb).drop
  have htl : s.tickFired = false → (s.nf = 1 ∧ s.tick0 = true) ∨ (s.aws.map dropAw).any (isTickOf s.nf) = true := by
    intro hf
    rw [anyTick_drop]
    exact t1 hf
  unfold Async.bdropFixed
  inv_cases <;> (try exact htl) <;> (try exact haw) <;> simp_all [lastSeen, inputsNow]

/-- a new awaiter of any kind but a tick -/
theorem Inv.attachK {s : State} (h : Inv s) (k : AwKind) (hk : k ≠ .tick) :
    Inv { s with aws := s.aws ++ [{ kind := k }] } := by
  obtain ⟨⟨r1, r2, r7, m1, aw, s1, s2, t1⟩, ⟨r3, r4, r5, r6, fresh, r8⟩, ⟨e1, e2, e3, e5, e6, e7, e8⟩, ⟨w1, w2, w3⟩⟩ := h
  have htl : s.tickFired = false →
      (s.nf = 1 ∧ s.tick0 = true) ∨ (s.aws ++ [({ kind := k } : Aw)]).any (isTickOf s.nf) = true :=
    fun hf => tickLive_append _ (t1 hf)
  inv_cases <;> (try exact htl) <;> simp_all [lastSeen, inputsNow]
  intro a ha
  rcases ha with ha | ha
  · exact aw a ha
  · subst ha; simp [AwOK]

/-- the harness takes a read guard (only while nobody waits for the write lock) -/
theorem Inv.hold {s : State} (h : Inv s) :
    Inv { s with guards := s.guards + 1, syncGuards := s.syncGuards + 1 } := by
  · obtain ⟨⟨r1, r2, r7, m1, aw, s1, s2, t1⟩, ⟨r3, r4, r5, r6, fresh, r8⟩, ⟨e1, e2, e3, e5, e6, e7, e8⟩, ⟨w1, w2, w3⟩⟩ := h
    inv_cases <;> simp_all [lastSeen, inputsNow, tickLive]

theorem isTickOf_releaseAw (nf : Nat) (a : Aw) : isTickOf nf (releaseAw a) = isTickOf nf a := by
  unfold isTickOf releaseAw; (repeat' split) <;> simp_all

theorem anyTick_release (nf : Nat) (l : List Aw) : (l.map releaseAw).any (isTickOf nf) = l.any (isTickOf nf) := by
  induction l with
  | nil => rfl
  | cons a as ih => simp only [List.map_cons, List.any_cons, isTickOf_releaseAw, ih]

/-- every guard is given back: holders are woken, and so is the task if it waits for the write lock -/
theorem Inv.release {s : State} (h : Inv s) : Inv (release s) := by
  obtain ⟨⟨r1, r2, r7, m1, aw, s1, s2, t1⟩, ⟨r3, r4, r5, r6, fresh, r8⟩, ⟨e1, e2, e3, e5, e6, e7, e8⟩, ⟨w1, w2, w3⟩⟩ := h
  have haw : ∀ a ∈ s.aws.map releaseAw, AwOK s.loading a := by
    intro a ha
    rcases List.mem_map.mp ha with ⟨b, hb, rfl⟩
    exact (aw b hb).release
  have htl : s.tickFired = false → (s.nf = 1 ∧ s.tick0 = true) ∨ (s.aws.map releaseAw).any (isTickOf s.nf) = true := by
    intro hf
    rw [anyTick_release]
    exact t1 hf
  unfold Async.release wakeWriter
  dsimp only
  split
  · inv_cases <;> (try exact htl) <;> (try exact haw) <;> simp_all [lastSeen, inputsNow] <;> grind
  · inv_cases <;> (try exact htl) <;> (try exact haw) <;> simp_all [lastSeen, inputsNow] <;> grind

theorem Inv.pollA {s : State} (h : Inv s) (i : Nat) : Inv (pollA s i) := by
  obtain ⟨⟨r1, r2, r7, m1, aw, s1, s2, t1⟩, ⟨r3, r4, r5, r6, fresh, r8⟩, ⟨e1, e2, e3, e5, e6, e7, e8⟩, ⟨w1, w2, w3⟩⟩ := h
  have htl : (s.tickFired || tickFires s.nf s.aws[i]?) = false →
      (s.nf = 1 ∧ s.tick0 = true) ∨ (modifyAt (pollAw s.loading s.lockReg s.value) s.aws i).any (isTickOf s.nf) = true := by
    intro hf
    simp only [Bool.or_eq_false_iff] at hf
    rcases t1 hf.1 with h | h
    · exact .inl h
    · exact .inr (anyTick_poll _ _ _ _ _ _ h hf.2)
  have haw := awAll_poll (b := s.lockReg) (i := i) aw r7
  unfold Async.pollA wakeWriter
  dsimp only
  split
  · inv_cases <;> (try exact htl) <;> (try exact haw) <;> simp_all [lastSeen, inputsNow] <;> grind
  · inv_cases <;> (try exact htl) <;> (try exact haw) <;> simp_all [lastSeen, inputsNow] <;> grind

/-- the tick task of fetch 0 -/
theorem Inv.pollT0 {s : State} (h : Inv s) : Inv (pollT0 s) := by
  obtain ⟨⟨r1, r2, r7, m1, aw, s1, s2, t1⟩, ⟨r3, r4, r5, r6, fresh, r8⟩, ⟨e1, e2, e3, e5, e6, e7, e8⟩, ⟨w1, w2, w3⟩⟩ := h
  unfold Async.pollT0
  split
  · inv_cases <;> simp_all [lastSeen, inputsNow, tickLive] <;> grind
  · inv_cases <;> simp_all [lastSeen, inputsNow, tickLive]

/-! ## `notify_subs` -/

macro "ns_frame" : tactic =>
  `(tactic| first | (simp only [notifySubs, eMarkDirty, eNotify]; done)
                   | (simp only [notifySubs, eMarkDirty, eNotify]; (repeat' split) <;> simp_all))

@[simp] theorem notifySubs_pc (s : State) : (notifySubs s).pc = s.pc := by ns_frame
@[simp] theorem notifySubs_chan (s : State) : (notifySubs s).chan = s.chan := by ns_frame
@[simp] theorem notifySubs_reg (s : State) : (notifySubs s).reg = s.reg := by ns_frame
@[simp] theorem notifySubs_dWoken (s : State) : (notifySubs s).dWoken = s.dWoken := by ns_frame
@[simp] theorem notifySubs_firstRun (s : State) : (notifySubs s).firstRun = s.firstRun := by ns_frame
@[simp] theorem notifySubs_initialFut (s : State) : (notifySubs s).initialFut = s.initialFut := by ns_frame
@[simp] theorem notifySubs_curStatus (s : State) : (notifySubs s).curStatus = s.curStatus := by ns_frame
@[simp] theorem notifySubs_curInputs (s : State) : (notifySubs s).curInputs = s.curInputs := by ns_frame
@[simp] theorem notifySubs_version (s : State) : (notifySubs s).version = s.version := by ns_frame
@[simp] theorem notifySubs_fetchVersion (s : State) : (notifySubs s).fetchVersion = s.fetchVersion := by ns_frame
@[simp] theorem notifySubs_tick0 (s : State) : (notifySubs s).tick0 = s.tick0 := by ns_frame
@[simp] theorem notifySubs_tickFired (s : State) : (notifySubs s).tickFired = s.tickFired := by ns_frame
@[simp] theorem notifySubs_dataReg (s : State) : (notifySubs s).dataReg = s.dataReg := by ns_frame
@[simp] theorem notifySubs_nf (s : State) : (notifySubs s).nf = s.nf := by ns_frame
@[simp] theorem notifySubs_stolen (s : State) : (notifySubs s).stolen = s.stolen := by ns_frame
@[simp] theorem notifySubs_dstate (s : State) : (notifySubs s).dstate = s.dstate := by ns_frame
@[simp] theorem notifySubs_value (s : State) : (notifySubs s).value = s.value := by ns_frame
@[simp] theorem notifySubs_manualLive (s : State) : (notifySubs s).manualLive = s.manualLive := by ns_frame
@[simp] theorem notifySubs_lastManual (s : State) : (notifySubs s).lastManual = s.lastManual := by ns_frame
@[simp] theorem notifySubs_viaMemo (s : State) : (notifySubs s).viaMemo = s.viaMemo := by ns_frame
@[simp] theorem notifySubs_smDirty (s : State) : (notifySubs s).smDirty = s.smDirty := by ns_frame
@[simp] theorem notifySubs_smRc (s : State) : (notifySubs s).smRc = s.smRc := by ns_frame
@[simp] theorem notifySubs_rc (s : State) : (notifySubs s).rc = s.rc := by ns_frame
@[simp] theorem notifySubs_smVal (s : State) : (notifySubs s).smVal = s.smVal := by ns_frame
@[simp] theorem notifySubs_src (s : State) : (notifySubs s).src = s.src := by ns_frame
@[simp] theorem notifySubs_eff (s : State) : (notifySubs s).eff = s.eff := by ns_frame
@[simp] theorem notifySubs_loading (s : State) : (notifySubs s).loading = false := by ns_frame
@[simp] theorem notifySubs_aws (s : State) : (notifySubs s).aws = s.aws.map wakeAw := by ns_frame
@[simp] theorem notifySubs_eLog (s : State) : (notifySubs s).eLog = s.eLog := by ns_frame
@[simp] theorem notifySubs_eFirst (s : State) : (notifySubs s).eFirst = s.eFirst := by ns_frame
@[simp] theorem notifySubs_eSubD (s : State) : (notifySubs s).eSubD = s.eSubD := by ns_frame
@[simp] theorem notifySubs_eSubM (s : State) : (notifySubs s).eSubM = s.eSubM := by ns_frame
@[simp] theorem notifySubs_notifs (s : State) : (notifySubs s).notifs = s.notifs + 1 := by ns_frame
@[simp] theorem notifySubs_lockReg (s : State) : (notifySubs s).lockReg = s.lockReg := by ns_frame
@[simp] theorem notifySubs_guards (s : State) : (notifySubs s).guards = s.guards := by ns_frame
@[simp] theorem notifySubs_syncGuards (s : State) : (notifySubs s).syncGuards = s.syncGuards := by ns_frame

@[simp] theorem notifySubs_eDirty (s : State) : (notifySubs s).eDirty = (s.eSubD || s.eDirty) := by ns_frame
@[simp] theorem notifySubs_eChan (s : State) : (notifySubs s).eChan = (s.eSubD || s.eChan) := by ns_frame
@[simp] theorem notifySubs_eWoken (s : State) : (notifySubs s).eWoken = (s.eWoken || (s.eSubD && s.eReg)) := by ns_frame
@[simp] theorem notifySubs_eReg (s : State) : (notifySubs s).eReg = (s.eReg && !s.eSubD) := by ns_frame

/-- what `notify_subs` needs of the effect (the value may just have changed) and what it gives back -/
theorem notifySubs_effect {s : State}
    (e1 : hasEffect s.eff = true → s.eFirst = true → s.eChan = true ∧ s.eSubD = false)
    (e2 : hasEffect s.eff = true → s.eFirst = false → s.eSubD = true)
    (e3 : s.eDirty = true → s.eChan = true)
    (e5 : hasMemo s.eff = false → s.eChan = true → s.eDirty = true)
    (e6 : s.stolen = false)
    (e7 : s.eSubM = true → hasMemo s.eff = true ∧ hasEffect s.eff = true)
    (e8 : s.eSubD = true → hasEffect s.eff = true)
    (ew : EWake s) : ECore (notifySubs s) ∧ EWake (notifySubs s) := by
  obtain ⟨w1, w2, w3⟩ := ew
  refine ⟨⟨?_, ?_, ?_, ?_, ?_, ?_, ?_⟩, ⟨?_, ?_, ?_⟩⟩ <;> simp [lastSeen] <;> grind

theorem notifySubs_dcore {s : State} (r1 : s.dstate ≠ .notifying) (r2 : s.dstate = .dirty → s.chan = true)
    (hv : s.value ≠ none) (m1 : s.manualLive = true → s.value = s.lastManual)
    (aw : ∀ a ∈ s.aws, AwOK s.loading a) (s1 : s.viaMemo = true → s.smDirty = false → s.smVal = s.src ∧ s.smRc = s.rc)
    (s2 : s.smDirty = true → s.chan = true) (t1 : s.tickFired = false → tickLive s) : DCore (notifySubs s) := by
  refine ⟨?_, ?_, ?_, ?_, ?_, ?_, ?_, ?_⟩ <;> simp_all
  · intro a ha
    exact (aw a ha).wake
  · intro hf
    rcases t1 hf with h | h
    · exact .inl (by simpa using h)
    · exact .inr (by simpa using anyTick_wake _ _ h)

theorem Inv.manualSet {s : State} (h : Inv s) (v : Val) : Inv (manualSet s v) := by
  obtain ⟨⟨r1, r2, r7, m1, aw, s1, s2, t1⟩, ⟨r3, r4, r5, r6, fresh, r8⟩, ⟨e1, e2, e3, e5, e6, e7, e8⟩, ew⟩ := h
  unfold Async.manualSet
  have hc := notifySubs_dcore (s := { s with value := some v, manualLive := true, lastManual := some v, msetDuring := true })
    r1 r2 (by simp) (by simp) aw s1 s2 t1
  have he := notifySubs_effect (s := { s with value := some v, manualLive := true, lastManual := some v, msetDuring := true })
    e1 (fun a b => (e2 a b).1) e3 e5 e6 e7 e8 ⟨ew.w1, ew.w2, ew.w3⟩
  refine ⟨hc, ⟨?_, ?_, ?_, ?_, ?_, ?_⟩, he.1, he.2⟩ <;> simp_all [inputsNow] <;> grind

/-! the post-`await` reads touch only `run`, `dSub`, `curInputs` -/
macro "pr_frame" : tactic => `(tactic| (simp only [postReads]))
@[simp] theorem postReads_eff (s : State) : (postReads s).eff = s.eff := by pr_frame
@[simp] theorem postReads_src (s : State) : (postReads s).src = s.src := by pr_frame
@[simp] theorem postReads_value (s : State) : (postReads s).value = s.value := by pr_frame
@[simp] theorem postReads_loading (s : State) : (postReads s).loading = s.loading := by pr_frame
@[simp] theorem postReads_dstate (s : State) : (postReads s).dstate = s.dstate := by pr_frame
@[simp] theorem postReads_version (s : State) : (postReads s).version = s.version := by pr_frame
@[simp] theorem postReads_chan (s : State) : (postReads s).chan = s.chan := by pr_frame
@[simp] theorem postReads_reg (s : State) : (postReads s).reg = s.reg := by pr_frame
@[simp] theorem postReads_dWoken (s : State) : (postReads s).dWoken = s.dWoken := by pr_frame
@[simp] theorem postReads_pc (s : State) : (postReads s).pc = s.pc := by pr_frame
@[simp] theorem postReads_firstRun (s : State) : (postReads s).firstRun = s.firstRun := by pr_frame
@[simp] theorem postReads_initialFut (s : State) : (postReads s).initialFut = s.initialFut := by pr_frame
@[simp] theorem postReads_fetchVersion (s : State) : (postReads s).fetchVersion = s.fetchVersion := by pr_frame
@[simp] theorem postReads_nf (s : State) : (postReads s).nf = s.nf := by pr_frame
@[simp] theorem postReads_curStatus (s : State) : (postReads s).curStatus = s.curStatus := by pr_frame
@[simp] theorem postReads_fx (s : State) : (postReads s).fx = s.fx := by pr_frame
@[simp] theorem postReads_viaMemo (s : State) : (postReads s).viaMemo = s.viaMemo := by pr_frame
@[simp] theorem postReads_smDirty (s : State) : (postReads s).smDirty = s.smDirty := by pr_frame
@[simp] theorem postReads_smVal (s : State) : (postReads s).smVal = s.smVal := by pr_frame
@[simp] theorem postReads_res (s : State) : (postReads s).res = s.res := by pr_frame
@[simp] theorem postReads_rc (s : State) : (postReads s).rc = s.rc := by pr_frame
@[simp] theorem postReads_smRc (s : State) : (postReads s).smRc = s.smRc := by pr_frame
@[simp] theorem postReads_once (s : State) : (postReads s).once = s.once := by pr_frame
@[simp] theorem postReads_isLocal (s : State) : (postReads s).isLocal = s.isLocal := by pr_frame
@[simp] theorem postReads_tick0 (s : State) : (postReads s).tick0 = s.tick0 := by pr_frame
@[simp] theorem postReads_tickFired (s : State) : (postReads s).tickFired = s.tickFired := by pr_frame
@[simp] theorem postReads_dataReg (s : State) : (postReads s).dataReg = s.dataReg := by pr_frame
@[simp] theorem postReads_pending (s : State) : (postReads s).pending = s.pending := by pr_frame
@[simp] theorem postReads_susp (s : State) : (postReads s).susp = s.susp := by pr_frame
@[simp] theorem postReads_idsHeld (s : State) : (postReads s).idsHeld = s.idsHeld := by pr_frame
@[simp] theorem postReads_mstate (s : State) : (postReads s).mstate = s.mstate := by pr_frame
@[simp] theorem postReads_mval (s : State) : (postReads s).mval = s.mval := by pr_frame
@[simp] theorem postReads_mRan (s : State) : (postReads s).mRan = s.mRan := by pr_frame
@[simp] theorem postReads_eDirty (s : State) : (postReads s).eDirty = s.eDirty := by pr_frame
@[simp] theorem postReads_eChan (s : State) : (postReads s).eChan = s.eChan := by pr_frame
@[simp] theorem postReads_eReg (s : State) : (postReads s).eReg = s.eReg := by pr_frame
@[simp] theorem postReads_eWoken (s : State) : (postReads s).eWoken = s.eWoken := by pr_frame
@[simp] theorem postReads_eFirst (s : State) : (postReads s).eFirst = s.eFirst := by pr_frame
@[simp] theorem postReads_eSubD (s : State) : (postReads s).eSubD = s.eSubD := by pr_frame
@[simp] theorem postReads_eSubM (s : State) : (postReads s).eSubM = s.eSubM := by pr_frame
@[simp] theorem postReads_eLog (s : State) : (postReads s).eLog = s.eLog := by pr_frame
@[simp] theorem postReads_aws (s : State) : (postReads s).aws = s.aws := by pr_frame
@[simp] theorem postReads_stolen (s : State) : (postReads s).stolen = s.stolen := by pr_frame
@[simp] theorem postReads_manualLive (s : State) : (postReads s).manualLive = s.manualLive := by pr_frame
@[simp] theorem postReads_lastManual (s : State) : (postReads s).lastManual = s.lastManual := by pr_frame
@[simp] theorem postReads_notifs (s : State) : (postReads s).notifs = s.notifs := by pr_frame
@[simp] theorem postReads_panicked (s : State) : (postReads s).panicked = s.panicked := by pr_frame
@[simp] theorem postReads_readSince (s : State) : (postReads s).readSince = s.readSince := by pr_frame
@[simp] theorem postReads_coveredCur (s : State) : (postReads s).coveredCur = s.coveredCur := by pr_frame
@[simp] theorem postReads_msetDuring (s : State) : (postReads s).msetDuring = s.msetDuring := by pr_frame
@[simp] theorem postReads_noReader (s : State) : (postReads s).noReader = s.noReader := by pr_frame
@[simp] theorem postReads_lockReg (s : State) : (postReads s).lockReg = s.lockReg := by pr_frame
@[simp] theorem postReads_guards (s : State) : (postReads s).guards = s.guards := by pr_frame
@[simp] theorem postReads_syncGuards (s : State) : (postReads s).syncGuards = s.syncGuards := by pr_frame
theorem postReads_curInputs_memo (s : State) (h : s.viaMemo = true) : (postReads s).curInputs = s.curInputs := by
  simp [postReads, h]

theorem applyResult_mid {s : State} (dc : DCore s) (ec : ECore s) (ew : EWake s)
    (hv : s.version = s.fetchVersion) (hf : s.firstRun = false) (hi : s.initialFut = false)
    (hfr : s.viaMemo = true → s.stolen = false → s.dstate = .clean → s.curInputs = inputsNow s) :
    Mid (applyResult s) := by
  obtain ⟨r1, r2, r7, m1, aw, s1, s2, t1⟩ := dc
  obtain ⟨e1, e2, e3, e5, e6, e7, e8⟩ := ec
  dsimp only [applyResult]
  rw [if_pos (by simpa using hv)]
  have hc := notifySubs_dcore
    (s := { postReads { s with pending := s.pending - s.idsHeld, idsHeld := 0, curStatus := .done,
                               pc := .waiting, dataReg := false, lockReg := false } with
      value := some (fetchFn (postReads s).curInputs), manualLive := false })
    r1 r2 (by simp) (by simp) aw s1 s2 t1
  have he := notifySubs_effect
    (s := { postReads { s with pending := s.pending - s.idsHeld, idsHeld := 0, curStatus := .done,
                               pc := .waiting, dataReg := false, lockReg := false } with
      value := some (fetchFn (postReads s).curInputs), manualLive := false })
    e1 (fun a b => (e2 a b).1) e3 e5 e6 e7 e8 ⟨ew.w1, ew.w2, ew.w3⟩
  refine ⟨hc, ⟨?_, ?_, ?_, ?_⟩, he.1, he.2⟩ <;> simp_all [inputsNow, postReads_curInputs_memo]

@[simp] theorem applyResult_chan (s : State) : (applyResult s).chan = s.chan := by
  simp only [applyResult, postReads]; split <;> simp
@[simp] theorem applyResult_firstRun (s : State) : (applyResult s).firstRun = s.firstRun := by
  simp only [applyResult, postReads]; split <;> simp
@[simp] theorem applyResult_dWoken (s : State) : (applyResult s).dWoken = s.dWoken := by
  simp only [applyResult, postReads]; split <;> simp

/-! ## the derived's task -/

/-- the task's check at the top of its loop, after consuming the channel flag -/
def chk (s : State) : State × Bool := dNeedsRerun { s with reg := true, chan := false }

/-- the state in which `fut.await` is reached -/
def fetchState (s : State) : State := startFetch (if (chk s).2 then dropInitial (chk s).1 else (chk s).1)

theorem dIter_def (s : State) : dIter s =
    if s.chan = false then ({ s with reg := true }, false)
    else if (chk s).2 = true ∨ (chk s).1.firstRun = true then
      (if (fetchState s).tickFired = true ∧ (fetchState s).curStatus = .ready then
        (if (fetchState s).guards = 0 then (applyResult (fetchState s), true)
         else (blockOnLock (fetchState s), false))
       else ({ fetchState s with dataReg := (fetchState s).tickFired }, false))
    else ((chk s).1, true) := by
  simp only [dIter, fetchState, chk, Bool.or_eq_true]
  split
  · rfl
  · rfl

@[simp] theorem smUpdate_chan (s : State) : (smUpdate s).1.chan = s.chan := by
  simp only [smUpdate]; split <;> rfl
@[simp] theorem dNeedsRerun_chan (s : State) : (dNeedsRerun s).1.chan = s.chan := by
  simp only [dNeedsRerun]; split <;> simp
@[simp] theorem dropInitial_chan (s : State) : (dropInitial s).chan = s.chan := by
  simp only [dropInitial]; split <;> rfl
@[simp] theorem startFetch_chan (s : State) : (startFetch s).chan = s.chan := by
  simp only [startFetch]; split <;> simp
@[simp] theorem startFetch_firstRun (s : State) : (startFetch s).firstRun = false := by
  simp only [startFetch]
@[simp] theorem startFetch_initialFut (s : State) : (startFetch s).initialFut = false := by
  simp only [startFetch]; split <;> simp_all [smUpdate] <;> split <;> simp_all
@[simp] theorem startFetch_version (s : State) : (startFetch s).version = (startFetch s).fetchVersion := by
  simp only [startFetch]
@[simp] theorem startFetch_pc (s : State) : (startFetch s).pc = .fetching := by
  simp only [startFetch]

theorem chk_chan (s : State) : (chk s).1.chan = false := by simp [chk]
theorem fetchState_chan (s : State) : (fetchState s).chan = false := by
  simp only [fetchState, startFetch_chan]; split <;> simp [chk_chan]
theorem fetchState_firstRun (s : State) : (fetchState s).firstRun = false := by simp [fetchState]
theorem fetchState_initialFut (s : State) : (fetchState s).initialFut = false := by simp [fetchState]
theorem fetchState_version (s : State) : (fetchState s).version = (fetchState s).fetchVersion := by
  simp [fetchState]
theorem fetchState_pc (s : State) : (fetchState s).pc = .fetching := by simp [fetchState]

theorem dIter_cont_chan (s : State) (h : (dIter s).2 = true) : (dIter s).1.chan = false := by
  rw [dIter_def] at h ⊢
  by_cases hc : s.chan = false
  · rw [if_pos hc] at h; simp at h
  · rw [if_neg hc] at h ⊢
    split at h
    · split at h
      · split at h
        · rename_i h1 h2 h3
          rw [if_pos h1, if_pos h2, if_pos h3]
          simp [fetchState_chan]
        · simp at h
      · simp at h
    · rename_i h1
      rw [if_neg h1]
      exact chk_chan s

theorem dLoop_eq (n : Nat) (s : State) :
    dLoop (n + 2) s = if (dIter s).2 then (dIter (dIter s).1).1 else (dIter s).1 := by
  rw [dLoop]
  split
  · rename_i h
    have hc := dIter_cont_chan s h
    rw [dLoop, dIter_def (dIter s).1]
    simp [hc]
  · rfl


/-- the two ways `fut.await` is reached: the initial future is reused (the check found no change), or a
new future is created (which reads the sources now) -/
theorem fetchState_cases (s : State) :
    ((chk s).2 = false ∧ s.initialFut = true ∧ s.dstate ≠ .dirty ∧
      (s.smDirty = true → s.smVal = s.src ∧ s.smRc = s.rc) ∧
      fetchState s =
      { s with
        reg := true, chan := false,
        smVal := (if s.smDirty then s.src else s.smVal), smRc := (if s.smDirty then s.rc else s.smRc),
        smDirty := false, initialFut := false,
        firstRun := false, loading := true, version := s.version + 1, fetchVersion := s.version + 1,
        idsHeld := s.susp, pending := s.pending + s.susp, susp := 0, coveredCur := decide (0 < s.susp),
        readSince := false, msetDuring := false, dataReg := false,
        pc := .fetching }) ∨
    (fetchState s =
      { s with
        reg := true, chan := false,
        dstate := (if s.dstate = .dirty then .clean else s.dstate),
        smVal := (if s.smDirty then s.src else s.smVal), smRc := (if s.smDirty then s.rc else s.smRc),
        smDirty := false, initialFut := false,
        curStatus := .pending, nf := s.nf + 1,
        curInputs := (if s.viaMemo then (if s.smDirty then s.src else s.smVal)
                      else (Run.execAll s.src s.fx.sync {}).vals),
        run := (if s.viaMemo then s.run else Run.execAll s.src s.fx.sync {}),
        dSub := s.dSub ++ (if s.viaMemo then s.run else Run.execAll s.src s.fx.sync {}).log.map (·.1),
        firstRun := false, loading := true, version := s.version + 1, fetchVersion := s.version + 1,
        idsHeld := s.susp, pending := s.pending + s.susp, susp := 0, coveredCur := decide (0 < s.susp),
        readSince := false, msetDuring := false, dataReg := false,
        tickFired := !s.isLocal,
        aws := (if s.isLocal then s.aws ++ [{ kind := .tick, tag := s.nf + 1 }] else s.aws),
        pc := .fetching }) := by
  by_cases hd : s.dstate = .dirty <;> by_cases hs : s.smDirty = true <;>
    by_cases hi : s.initialFut = true <;> by_cases hch : s.smVal = s.src <;> by_cases hrc : s.smRc = s.rc <;>
    by_cases hvm : s.viaMemo = true <;>
    simp [fetchState, chk, dNeedsRerun, smUpdate, dropInitial, startFetch, inputsNow, hd, hs, hi, hch, hrc, hvm]

theorem chk_false (s : State) (h : (chk s).2 = false) :
    s.dstate ≠ .dirty ∧ (s.smDirty = true → s.smVal = s.src ∧ s.smRc = s.rc) ∧
    (chk s).1 =
      { s with
        reg := true, chan := false,
        smVal := (if s.smDirty then s.src else s.smVal), smRc := (if s.smDirty then s.rc else s.smRc),
        smDirty := false } := by
  revert h
  by_cases hd : s.dstate = .dirty <;> by_cases hs : s.smDirty = true <;> by_cases hch : s.smVal = s.src <;>
    by_cases hrc : s.smRc = s.rc <;>
    simp [chk, dNeedsRerun, smUpdate, hd, hs, hch, hrc]

theorem Mid.toFetch {s : State} (h : Mid s) (hn : (chk s).2 = true ∨ (chk s).1.firstRun = true) :
    DCore (fetchState s) ∧ ECore (fetchState s) ∧ EWake (fetchState s) ∧
    ((fetchState s).curStatus = .pending ∨ (fetchState s).curStatus = .ready) ∧
    ((fetchState s).viaMemo = true → (fetchState s).stolen = false → (fetchState s).dstate = .clean →
      (fetchState s).curInputs = inputsNow (fetchState s)) ∧ (fetchState s).lockReg = false := by
  obtain ⟨⟨r1, r2, r7, m1, aw, s1, s2, t1⟩, ⟨pcw, f1, f2, lk⟩, ⟨e1, e2, e3, e5, e6, e7, e8⟩, ⟨w1, w2, w3⟩⟩ := h
  have aw' : ∀ a ∈ s.aws, AwOK true a := fun a ha => (aw a ha).loading
  rcases fetchState_cases s with ⟨hc2, hi, hd, hsm, heq⟩ | heq
  · -- the initial future is reused: the check found no change
    have hfr : (chk s).1.firstRun = true := by
      rcases hn with hn | hn
      · simp [hc2] at hn
      · exact hn
    have hfr' : s.firstRun = true := by
      rw [(chk_false s hc2).2.2] at hfr; exact hfr
    have ht : (fetchState s).tickFired = false → tickLive (fetchState s) := by
      rw [heq]; simpa [tickLive] using t1
    rw [heq] at ht ⊢
    refine ⟨⟨?_, ?_, ?_, ?_, ?_, ?_, ?_, ht⟩, ⟨?_, ?_, ?_, ?_, ?_, ?_, ?_⟩, ⟨?_, ?_, ?_⟩, ?_, ?_, ?_⟩ <;>
      simp_all [lastSeen, inputsNow] <;> grind
  · have ht : (fetchState s).tickFired = false → tickLive (fetchState s) := by
      rw [heq]
      intro hf
      have hl : s.isLocal = true := by simpa using hf
      exact .inr (by simp [hl, isTickOf])
    have awn : ∀ a ∈ (if s.isLocal = true then s.aws ++ [({ kind := .tick, tag := s.nf + 1 } : Aw)] else s.aws),
        AwOK true a := by
      intro a ha
      split at ha
      · rcases List.mem_append.mp ha with ha | ha
        · exact aw' a ha
        · simp at ha; subst ha; simp [AwOK]
      · exact aw' a ha
    rw [heq] at ht ⊢
    refine ⟨⟨?_, ?_, ?_, ?_, awn, ?_, ?_, ht⟩, ⟨?_, ?_, ?_, ?_, ?_, ?_, ?_⟩, ⟨?_, ?_, ?_⟩, ?_, ?_, ?_⟩ <;>
      simp_all [lastSeen, inputsNow] <;> grind

theorem Mid.iter {s : State} (h : Mid s) :
    ((dIter s).2 = false → Inv (dIter s).1) ∧
    ((dIter s).2 = true → Mid (dIter s).1 ∧ (dIter s).1.chan = false ∧ (dIter s).1.firstRun = false) := by
  rw [dIter_def]
  by_cases hc : s.chan = false
  · -- nothing to do: back to sleep with the waker registered
    rw [if_pos hc]
    refine ⟨fun _ => ?_, fun hh => by simp at hh⟩
    show Inv { s with reg := true }
    obtain ⟨⟨r1, r2, r7, m1, aw, s1, s2, t1⟩, ⟨pcw, f1, f2, lk⟩, ⟨e1, e2, e3, e5, e6, e7, e8⟩, ⟨w1, w2, w3⟩⟩ := h
    inv_cases <;> simp_all [lastSeen, inputsNow, tickLive]
  · rw [if_neg hc]
    by_cases hn : (chk s).2 = true ∨ (chk s).1.firstRun = true
    · rw [if_pos hn]
      obtain ⟨dc, ec, ew, hst, hfr, hlk⟩ := h.toFetch hn
      by_cases hr : (fetchState s).tickFired = true ∧ (fetchState s).curStatus = .ready
      · rw [if_pos hr]
        by_cases hg : (fetchState s).guards = 0
        · rw [if_pos hg]
          refine ⟨fun hh => by simp at hh, fun _ => ?_⟩
          exact ⟨applyResult_mid dc ec ew (fetchState_version s) (fetchState_firstRun s)
            (fetchState_initialFut s) hfr, by simp [fetchState_chan], by simp [fetchState_firstRun]⟩
        · -- a read guard is held: the task waits for the write lock
          rw [if_neg hg]
          refine ⟨fun _ => ?_, fun hh => by simp at hh⟩
          show Inv (blockOnLock (fetchState s))
          obtain ⟨r1, r2, r7, m1, aw, s1, s2, t1⟩ := dc
          obtain ⟨e1, e2, e3, e5, e6, e7, e8⟩ := ec
          obtain ⟨w1, w2, w3⟩ := ew
          have h1 := fetchState_pc s
          have h2 := fetchState_firstRun s
          have h3 := fetchState_initialFut s
          have h4 := fetchState_version s
          unfold blockOnLock
          inv_cases <;> simp_all [lastSeen, inputsNow, tickLive] <;> grind
      · rw [if_neg hr]
        refine ⟨fun _ => ?_, fun hh => by simp at hh⟩
        show Inv { fetchState s with dataReg := (fetchState s).tickFired }
        obtain ⟨r1, r2, r7, m1, aw, s1, s2, t1⟩ := dc
        obtain ⟨e1, e2, e3, e5, e6, e7, e8⟩ := ec
        obtain ⟨w1, w2, w3⟩ := ew
        have h1 := fetchState_pc s
        have h2 := fetchState_firstRun s
        have h3 := fetchState_initialFut s
        have h4 := fetchState_version s
        inv_cases <;> simp_all [lastSeen, inputsNow, tickLive] <;> grind
    · rw [if_neg hn]
      refine ⟨fun hh => by simp at hh, fun _ => ?_⟩
      show Mid (chk s).1 ∧ (chk s).1.chan = false ∧ (chk s).1.firstRun = false
      have hc2 : (chk s).2 = false := by
        cases h2 : (chk s).2
        · rfl
        · exact absurd (.inl h2) hn
      have hf2 : (chk s).1.firstRun = false := by
        cases h2 : (chk s).1.firstRun
        · rfl
        · exact absurd (.inr h2) hn
      obtain ⟨hd, hsm, heq⟩ := chk_false s hc2
      rw [heq] at hf2 ⊢
      obtain ⟨⟨r1, r2, r7, m1, aw, s1, s2, t1⟩, ⟨pcw, f1, f2, lk⟩, ⟨e1, e2, e3, e5, e6, e7, e8⟩, ⟨w1, w2, w3⟩⟩ := h
      refine ⟨⟨⟨?_, ?_, ?_, ?_, ?_, ?_, ?_, ?_⟩, ⟨?_, ?_, ?_, ?_⟩, ⟨?_, ?_, ?_, ?_, ?_, ?_, ?_⟩, ⟨?_, ?_, ?_⟩⟩, ?_, ?_⟩ <;>
        simp_all [lastSeen, inputsNow, tickLive] <;> grind

/-- entering the loop and running it to the next suspension point re-establishes the invariant -/
theorem Mid.loop {s : State} (h : Mid s) : Inv (dLoop 3 s) := by
  rw [dLoop_eq]
  obtain ⟨h0, h1⟩ := h.iter
  split
  · rename_i hc
    obtain ⟨hm, hch, _⟩ := h1 hc
    have h2 := hm.iter.1
    rw [dIter_def, if_pos hch] at h2 ⊢
    exact h2 rfl
  · rename_i hc
    exact h0 (by simpa using hc)

/-- the state in which the loop is entered on the task's first poll -/
def enterStart (s : State) : State :=
  { (if s.dstate = .dirty then { { s with dWoken := false } with initialFut := false, curStatus := .dropped }
     else { s with dWoken := false }) with pc := .waiting }

theorem Inv.midStart {s : State} (h : Inv s) (hpc : s.pc = .start) : Mid (enterStart s) := by
  obtain ⟨⟨r1, r2, r7, m1, aw, s1, s2, t1⟩, ⟨r3, r4, r5, r6, fresh, r8⟩, ⟨e1, e2, e3, e5, e6, e7, e8⟩, ⟨w1, w2, w3⟩⟩ := h
  unfold enterStart
  refine ⟨⟨?_, ?_, ?_, ?_, ?_, ?_, ?_, ?_⟩, ⟨?_, ?_, ?_, ?_⟩, ⟨?_, ?_, ?_, ?_, ?_, ?_, ?_⟩, ⟨?_, ?_, ?_⟩⟩ <;>
    (simp only [lastSeen, inputsNow, tickLive] at *; (try split)) <;> simp_all

theorem Inv.midWaiting {s : State} (h : Inv s) (hpc : s.pc = .waiting) : Mid { s with dWoken := false } := by
  obtain ⟨⟨r1, r2, r7, m1, aw, s1, s2, t1⟩, ⟨r3, r4, r5, r6, fresh, r8⟩, ⟨e1, e2, e3, e5, e6, e7, e8⟩, ⟨w1, w2, w3⟩⟩ := h
  refine ⟨⟨?_, ?_, ?_, ?_, ?_, ?_, ?_, ?_⟩, ⟨?_, ?_, ?_, ?_⟩, ⟨?_, ?_, ?_, ?_, ?_, ?_, ?_⟩, ⟨?_, ?_, ?_⟩⟩ <;>
    simp_all [lastSeen, inputsNow, tickLive]

theorem Inv.midFetched {s : State} (h : Inv s) (hpc : s.pc = .fetching) :
    Mid (applyResult { s with dWoken := false }) := by
  obtain ⟨⟨r1, r2, r7, m1, aw, s1, s2, t1⟩, ⟨r3, r4, r5, r6, fresh, r8⟩, ⟨e1, e2, e3, e5, e6, e7, e8⟩, ⟨w1, w2, w3⟩⟩ := h
  apply applyResult_mid
  · exact ⟨r1, r2, r7, m1, aw, s1, s2, t1⟩
  · exact ⟨e1, e2, e3, e5, e6, e7, e8⟩
  · exact ⟨w1, w2, w3⟩
  all_goals simp_all [inputsNow]

theorem Inv.pollD {s : State} (h : Inv s) : Inv (pollD s) := by
  unfold Async.pollD
  dsimp only
  split
  · rename_i hpc
    exact (h.midStart hpc).loop
  · rename_i hpc
    exact (h.midWaiting hpc).loop
  · rename_i hpc
    split
    · split
      · exact (h.midFetched hpc).loop
      · obtain ⟨⟨r1, r2, r7, m1, aw, s1, s2, t1⟩, ⟨r3, r4, r5, r6, fresh, r8⟩, ⟨e1, e2, e3, e5, e6, e7, e8⟩, ⟨w1, w2, w3⟩⟩ := h
        unfold blockOnLock
        inv_cases <;> simp_all [lastSeen, inputsNow, tickLive] <;> grind
    · obtain ⟨⟨r1, r2, r7, m1, aw, s1, s2, t1⟩, ⟨r3, r4, r5, r6, fresh, r8⟩, ⟨e1, e2, e3, e5, e6, e7, e8⟩, ⟨w1, w2, w3⟩⟩ := h
      inv_cases <;> simp_all [lastSeen, inputsNow, tickLive] <;> grind

/-! ## the effect's task -/

/-- what the effect's check phase (`update_if_necessary` over its sources, untracked) can change: the
memo and the effect's own dirty flag / channel (a memo that changed marks it); the derived answers
`false` and is not touched -/
structure Frame (s s' : State) : Prop where
  eff : s'.eff = s.eff
  src : s'.src = s.src
  value : s'.value = s.value
  loading : s'.loading = s.loading
  version : s'.version = s.version
  chan : s'.chan = s.chan
  reg : s'.reg = s.reg
  dWoken : s'.dWoken = s.dWoken
  pc : s'.pc = s.pc
  firstRun : s'.firstRun = s.firstRun
  initialFut : s'.initialFut = s.initialFut
  fetchVersion : s'.fetchVersion = s.fetchVersion
  curInputs : s'.curInputs = s.curInputs
  curStatus : s'.curStatus = s.curStatus
  eFirst : s'.eFirst = s.eFirst
  eSubD : s'.eSubD = s.eSubD
  eSubM : s'.eSubM = s.eSubM
  eLog : s'.eLog = s.eLog
  aws : s'.aws = s.aws
  manualLive : s'.manualLive = s.manualLive
  lastManual : s'.lastManual = s.lastManual
  notifs : s'.notifs = s.notifs
  viaMemo : s'.viaMemo = s.viaMemo
  smDirty : s'.smDirty = s.smDirty
  smVal : s'.smVal = s.smVal
  smRc : s'.smRc = s.smRc
  rc : s'.rc = s.rc
  pending : s'.pending = s.pending
  susp : s'.susp = s.susp
  idsHeld : s'.idsHeld = s.idsHeld
  readSince : s'.readSince = s.readSince
  coveredCur : s'.coveredCur = s.coveredCur
  msetDuring : s'.msetDuring = s.msetDuring
  nf : s'.nf = s.nf
  tick0 : s'.tick0 = s.tick0
  tickFired : s'.tickFired = s.tickFired
  dataReg : s'.dataReg = s.dataReg
  run : s'.run = s.run
  dSub : s'.dSub = s.dSub
  fx : s'.fx = s.fx
  dstate : s'.dstate = s.dstate
  stolen : s'.stolen = s.stolen
  noReader : s'.noReader = s.noReader
  lockReg : s'.lockReg = s.lockReg
  guards : s'.guards = s.guards

theorem Frame.refl (s : State) : Frame s s := by
  constructor <;> simp

theorem Frame.trans {a b c : State} (h1 : Frame a b) (h2 : Frame b c) : Frame a c := by
  obtain ⟨_, _, _, _, _, _, _, _, _, _, _, _, _, _, _, _, _, _, _, _, _, _, _, _, _, _, _, _, _, _, _, _, _, _, _, _, _, _, _, _, _, _, _, _, _⟩ := h1
  obtain ⟨_, _, _, _, _, _, _, _, _, _, _, _, _, _, _, _, _, _, _, _, _, _, _, _, _, _, _, _, _, _, _, _, _, _, _, _, _, _, _, _, _, _, _, _, _⟩ := h2
  constructor <;> simp_all

theorem Frame.dAsSource (s : State) : Frame s (dAsSource s).1 := by
  exact Frame.refl s

theorem Frame.memoUpdate (b : Bool) (s : State) : Frame s (memoUpdate b s).1 := by
  simp only [Async.memoUpdate, eMarkDirty, eNotify]
  split
  · exact Frame.refl s
  · constructor <;> simp
  · (repeat' split) <;> constructor <;> simp

theorem Frame.effAny (l : List Src) (s : State) : Frame s (effAny l s).1 := by
  induction l generalizing s with
  | nil => exact Frame.refl s
  | cons x rest ih =>
    cases x
    · simp only [Async.effAny]
      split
      · exact Frame.dAsSource s
      · exact (Frame.dAsSource s).trans (ih _)
    · simp only [Async.effAny]
      split
      · exact Frame.memoUpdate true s
      · exact (Frame.memoUpdate true s).trans (ih _)

theorem hasEffect_of_hasMemo (k : EffKind) : hasMemo k = true → hasEffect k = true := by
  cases k <;> simp [hasMemo, hasEffect]

theorem runEffect_spec (s : State) : ∃ (ms : MState) (mv : Option Val) (mr : Bool) (x : Option Val),
    runEffect s = { s with eFirst := false, eSubD := hasEffect s.eff, eSubM := hasMemo s.eff,
                           mstate := ms, mval := mv, mRan := mr, eLog := s.eLog ++ [(s.value, x)] } := by
  cases he : s.eff <;>
    simp only [runEffect, effSources, effRead, memoUpdate, he, List.foldl, hasMemo, hasEffect,
      Bool.and_false, Bool.false_and, Bool.false_eq_true, if_false] <;>
    (try split) <;> exact ⟨_, _, _, _, rfl⟩

/-- a run of the effect's function re-establishes the effect's part of the invariant -/
theorem runEffect_inv {s : State} (dc : DCore s) (dr : DRest s)
    (e6 : s.stolen = false) (hd : s.eDirty = false)
    (hc : hasMemo s.eff = false → s.eChan = false) :
    DCore (runEffect s) ∧ DRest (runEffect s) ∧ ECore (runEffect s) := by
  obtain ⟨r1, r2, r7, m1, aw, s1, s2, t1⟩ := dc
  obtain ⟨r3, r4, r5, r6, fresh, r8⟩ := dr
  obtain ⟨ms, mv, mr, x, h⟩ := runEffect_spec s
  rw [h]
  refine ⟨⟨?_, ?_, ?_, ?_, ?_, ?_, ?_, ?_⟩, ⟨?_, ?_, ?_, ?_, ?_, ?_⟩, ⟨?_, ?_, ?_, ?_, ?_, ?_, ?_⟩⟩ <;>
    simp_all [lastSeen, inputsNow, tickLive]
  exact hasEffect_of_hasMemo _

/-- normal form of one iteration of the effect's loop -/
theorem eIter_def (s : State) : eIter s =
    if s.eChan = false then ({ s with eReg := true }, false)
    else if (effUpdate { s with eReg := true, eChan := false }).2 = true ∨
            (effUpdate { s with eReg := true, eChan := false }).1.eFirst = true then
      (runEffect (effUpdate { s with eReg := true, eChan := false }).1, true)
    else ((effUpdate { s with eReg := true, eChan := false }).1, true) := by
  simp only [eIter]
  split
  · rfl
  · simp only [Bool.or_eq_true]

/-- the check phase on a state whose channel flag has just been consumed -/
theorem effUpdate_inv {s : State} (dc : DCore s) (dr : DRest s)
    (e2 : hasEffect s.eff = true → s.eFirst = false →
      s.eSubD = true ∧ (s.eDirty = true ∨ lastSeen s = some s.value))
    (e6 : s.stolen = false)
    (hm : hasMemo s.eff = false → s.eDirty = true) :
    DCore (effUpdate s).1 ∧ DRest (effUpdate s).1 ∧ (effUpdate s).1.eDirty = false ∧
    (hasMemo s.eff = false → (effUpdate s).1.eChan = s.eChan) ∧
    (effUpdate s).1.eFirst = s.eFirst ∧ (effUpdate s).1.eff = s.eff ∧
    (effUpdate s).1.eSubD = s.eSubD ∧ (effUpdate s).1.eSubM = s.eSubM ∧
    (s.eDirty = true → (effUpdate s).2 = true) ∧
    (effUpdate s).1.stolen = false ∧
    (s.eDirty = false → hasEffect s.eff = true → s.eFirst = false →
      lastSeen (effUpdate s).1 = some (effUpdate s).1.value) := by
  obtain ⟨r1, r2, r7, m1, aw, s1, s2, t1⟩ := dc
  obtain ⟨r3, r4, r5, r6, fresh, r8⟩ := dr
  unfold effUpdate
  by_cases hd : s.eDirty = true
  · rw [if_pos hd]
    refine ⟨⟨?_, ?_, ?_, ?_, ?_, ?_, ?_, ?_⟩, ⟨?_, ?_, ?_, ?_, ?_, ?_⟩, ?_, ?_, ?_, ?_, ?_, ?_, ?_, ?_, ?_⟩ <;>
      simp_all [lastSeen, inputsNow, tickLive]
  · rw [if_neg hd]
    have hmm : hasMemo s.eff = true := by
      cases h : hasMemo s.eff
      · exact absurd (hm h) hd
      · rfl
    generalize (if s.eFirst = true then [] else effSources s.eff) = L
    have hfr := Frame.effAny L s
    generalize effAny L s = r at *
    obtain ⟨f1, f2, f3, f4, f5, f6, f7, f8, f9, f10, f11, f12, f13, f14, f19, f20, f21,
      f22, f23, f24, f25, f26, g1, g2, g3, g6, g7, k1, k2, k3, k4, k5, k6, n1, n2, n3, n4, u1, u2, u3, g4, g5, g8, g9, g10⟩ := hfr
    refine ⟨⟨?_, ?_, ?_, ?_, ?_, ?_, ?_, ?_⟩, ⟨?_, ?_, ?_, ?_, ?_, ?_⟩, ?_, ?_, ?_, ?_, ?_, ?_, ?_, ?_, ?_⟩ <;>
      simp_all [lastSeen, inputsNow, tickLive]

/-- one iteration of the effect's loop, from a state satisfying everything but the effect's wake-up
clauses: either it suspends and the full invariant holds, or it goes round again in such a state -/
theorem eIter_inv {s : State} (dc : DCore s) (dr : DRest s) (ec : ECore s) :
    ((eIter s).2 = false → Inv (eIter s).1) ∧
    ((eIter s).2 = true → DCore (eIter s).1 ∧ DRest (eIter s).1 ∧ ECore (eIter s).1) := by
  rw [eIter_def]
  by_cases hc : s.eChan = false
  · rw [if_pos hc]
    refine ⟨fun _ => ?_, fun hh => by simp at hh⟩
    show Inv { s with eReg := true }
    obtain ⟨r1, r2, r7, m1, aw, s1, s2, t1⟩ := dc
    obtain ⟨r3, r4, r5, r6, fresh, r8⟩ := dr
    obtain ⟨e1, e2, e3, e5, e6, e7, e8⟩ := ec
    inv_cases <;> simp_all [lastSeen, inputsNow, tickLive]
  · rw [if_neg hc]
    have hc' : s.eChan = true := by simpa using hc
    obtain ⟨e1, e2, e3, e5, e6, e7, e8⟩ := ec
    have hu := effUpdate_inv (s := { s with eReg := true, eChan := false })
      ⟨dc.r1, dc.r2, dc.r7, dc.m1, dc.aw, dc.s1, dc.s2, dc.t1⟩ ⟨dr.r3, dr.r4, dr.r5, dr.r6, dr.fresh, dr.r8⟩ e2 e6 (fun h => e5 h hc')
    generalize effUpdate { s with eReg := true, eChan := false } = u at *
    obtain ⟨udc, udr, ud, uc, uf, ue, usd, usm, udirty, ust, useen⟩ := hu
    by_cases hrun : u.2 = true ∨ u.1.eFirst = true
    · rw [if_pos hrun]
      refine ⟨fun hh => by simp at hh, fun _ => ?_⟩
      exact runEffect_inv udc udr ust ud (by simpa [ue] using uc)
    · rw [if_neg hrun]
      refine ⟨fun hh => by simp at hh, fun _ => ?_⟩
      have h1 : u.2 = false := by
        cases h : u.2
        · rfl
        · exact absurd (.inl h) hrun
      have h2 : u.1.eFirst = false := by
        cases h : u.1.eFirst
        · rfl
        · exact absurd (.inr h) hrun
      have h3 : s.eDirty = false := by
        cases h : s.eDirty
        · rfl
        · have := udirty h; simp [h1] at this
      refine ⟨udc, udr, ⟨?_, ?_, ?_, ?_, ?_, ?_, ?_⟩⟩ <;> simp_all

/-- the effect's loop re-establishes the invariant whatever the fuel (running out of fuel = yield) -/
theorem eLoop_inv (n : Nat) {s : State} (dc : DCore s) (dr : DRest s) (ec : ECore s) :
    Inv (eLoop n s) := by
  induction n generalizing s with
  | zero =>
    show Inv { s with eWoken := true }
    obtain ⟨r1, r2, r7, m1, aw, s1, s2, t1⟩ := dc
    obtain ⟨r3, r4, r5, r6, fresh, r8⟩ := dr
    obtain ⟨e1, e2, e3, e5, e6, e7, e8⟩ := ec
    inv_cases <;> simp_all [lastSeen, inputsNow, tickLive]
  | succ n ih =>
    rw [eLoop]
    obtain ⟨h0, h1⟩ := eIter_inv dc dr ec
    split
    · rename_i hc
      obtain ⟨a, b, c⟩ := h1 hc
      exact ih a b c
    · rename_i hc
      exact h0 (by simpa using hc)

theorem Inv.pollE {s : State} (h : Inv s) : Inv (pollE s) := by
  unfold Async.pollE
  obtain ⟨dc, dr, ec, ew⟩ := h
  exact eLoop_inv 4 (s := { s with eWoken := false }) ⟨dc.r1, dc.r2, dc.r7, dc.m1, dc.aw, dc.s1, dc.s2, dc.t1⟩
    ⟨dr.r3, dr.r4, dr.r5, dr.r6, dr.fresh, dr.r8⟩ ⟨ec.e1, ec.e2, ec.e3, ec.e5, ec.e6, ec.e7, ec.e8⟩

/-! ## every event -/

theorem Inv.pollNth {s : State} (h : Inv s) (j : Nat) : Inv (pollNth s j) := by
  unfold Async.pollNth
  dsimp only
  split
  · rename_i t _
    cases t
    · exact h.pollT0
    · exact h.pollD
    · exact h.pollE
    · exact h.pollA _
  · exact h

theorem Inv.step {s : State} (h : Inv s) (e : Event) : Inv (step s e) := by
  cases e with
  | set i v => exact h.setSrc i v
  | refetch => exact h.refetch
  | manualSet v => exact h.manualSet v
  | complete f => exact h.complete f
  | attach => exact h.attach
  | poll j => exact h.pollNth j
  | get => exact h
  | bread => exact h.bread
  | attachS => exact h.attachS
  | bdrop => exact h.bdrop
  | attachR => exact h.attachK .awaiterR (by decide)
  | attachH => exact h.attachK .holder (by decide)
  | hold => exact h.hold
  | release => exact h.release

theorem Inv.foldl {s : State} (h : Inv s) (es : List Event) : Inv (es.foldl Async.step s) := by
  induction es generalizing s with
  | nil => exact h
  | cons e es ih => exact ih (h.step e)

/-- the invariant holds after every history -/
theorem Inv.run (c : Cfg) (es : List Event) : Inv (run c es) := (Inv.init c).foldl es

theorem stepF_false (s : State) (e : Event) : stepF false s e = step s e := by
  cases e <;> rfl

theorem runF_false (c : Cfg) (es : List Event) : runF false c es = run c es := by
  unfold runF run
  congr 1
  funext s e
  exact stepF_false s e

theorem Inv.stepF (f : Bool) {s : State} (h : Inv s) (e : Event) : Inv (stepF f s e) := by
  by_cases hb : e = .bdrop
  · subst hb
    cases f
    · exact h.bdrop
    · exact h.bdropFixed
  · have : Async.stepF f s e = Async.step s e := by cases e <;> first | rfl | exact absurd rfl hb
    rw [this]
    exact h.step e

theorem Inv.foldlF (f : Bool) {s : State} (h : Inv s) (es : List Event) : Inv (es.foldl (Async.stepF f) s) := by
  induction es generalizing s with
  | nil => exact h
  | cons e es ih => exact ih (h.stepF f e)

/-- ... also with the proposed repair 3 -/
theorem Inv.runF (f : Bool) (c : Cfg) (es : List Event) : Inv (runF f c es) := (Inv.init c).foldlF f es

/-! ## the ready list -/

theorem readyAwsFrom_nil {i : Nat} {l : List Aw} (h : readyAwsFrom i l = []) :
    ∀ a ∈ l, a.woken = true → a.done = true := by
  induction l generalizing i with
  | nil => simp
  | cons a as ih =>
    simp only [readyAwsFrom] at h
    split at h
    · simp at h
    · rename_i hc
      intro b hb
      rcases List.mem_cons.mp hb with rfl | hb
      · intro hw; cases hd : b.done <;> simp_all
      · exact ih h b hb

theorem readyList_nil {s : State} (h : readyList s = []) :
    s.dWoken = false ∧ s.eWoken = false ∧ ∀ a ∈ s.aws, a.woken = true → a.done = true := by
  unfold readyList at h
  simp only [List.append_eq_nil_iff] at h
  obtain ⟨⟨⟨h0, h1⟩, h2⟩, h3⟩ := h
  refine ⟨?_, ?_, readyAwsFrom_nil h3⟩
  · cases hd : s.dWoken <;> simp_all
  · cases hd : s.eWoken <;> simp_all

/-- an idle executor has no tick task left to poll -/
theorem not_tickLive_of_idle {s : State} (h : readyList s = []) : ¬ tickLive s := by
  have hw := (readyList_nil h).2.2
  have h0 : s.tick0 = false := by
    unfold readyList at h
    simp only [List.append_eq_nil_iff] at h
    cases ht : s.tick0 <;> simp_all
  rintro (⟨_, ht⟩ | ht)
  · simp [h0] at ht
  · rw [List.any_eq_true] at ht
    obtain ⟨a, ha, hp⟩ := ht
    simp only [isTickOf, Bool.and_eq_true, decide_eq_true_eq, Bool.not_eq_true'] at hp
    have := hw a ha hp.1.2
    simp [hp.2] at this

end Leptos.Async


