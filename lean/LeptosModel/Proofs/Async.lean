import LeptosModel.Model.Async
/-!
# Proofs/Async — the invariant of `Model/Async` and its preservation by every event (C10)

`Inv s` holds in every state reachable by any event list (`Inv.run`).  The poll of the derived's task
is decomposed along the code: enter the loop (`DMid` = "at `rx.next()`"), one iteration (`dIter`),
`applyResult`; the fuel of `dLoop`/`eLoop` never runs out (`dLoop_eq`, `eLoop_eq`).
-/
namespace Leptos.Async

/-! ## awaiters -/

def AwOK (ld : Bool) (a : Aw) : Prop :=
  (a.done = false → a.woken = true ∨ a.parked = true) ∧ (a.parked = true → ld = true) ∧
  (a.done = true → a.result ≠ none)

theorem AwOK.wake {ld : Bool} {a : Aw} (h : AwOK ld a) : AwOK false (wakeAw a) := by
  unfold AwOK wakeAw at *; split <;> simp_all

theorem AwOK.loading {ld : Bool} {a : Aw} (h : AwOK ld a) : AwOK true a := by
  unfold AwOK at *; simp_all

theorem AwOK.poll {ld : Bool} {v : Option Val} {a : Aw} (h : AwOK ld a) (hv : ld = false → v ≠ none) :
    AwOK ld (pollAw ld v a) := by
  unfold AwOK pollAw at *; split <;> simp_all

theorem awAll_wake {ld : Bool} {l : List Aw} (h : ∀ a ∈ l, AwOK ld a) :
    ∀ a ∈ l.map wakeAw, AwOK false a := by
  intro a ha
  rcases List.mem_map.mp ha with ⟨b, hb, rfl⟩
  exact (h b hb).wake

theorem mem_modifyAt {f : Aw → Aw} {l : List Aw} {i : Nat} {x : Aw} (h : x ∈ modifyAt f l i) :
    x ∈ l ∨ ∃ a ∈ l, x = f a := by
  induction l generalizing i with
  | nil => simp [modifyAt] at h
  | cons a as ih =>
    cases i with
    | zero =>
      simp only [modifyAt, List.mem_cons] at h
      rcases h with h | h
      · exact .inr ⟨a, by simp, h⟩
      · exact .inl (by simp [h])
    | succ i =>
      simp only [modifyAt, List.mem_cons] at h
      rcases h with h | h
      · exact .inl (by simp [h])
      · rcases ih h with h | ⟨b, hb, hx⟩
        · exact .inl (by simp [h])
        · exact .inr ⟨b, by simp [hb], hx⟩

theorem awAll_poll {ld : Bool} {v : Option Val} {l : List Aw} {i : Nat} (h : ∀ a ∈ l, AwOK ld a)
    (hv : ld = false → v ≠ none) : ∀ a ∈ modifyAt (pollAw ld v) l i, AwOK ld a := by
  intro a ha
  rcases mem_modifyAt ha with ha | ⟨b, hb, rfl⟩
  · exact h a ha
  · exact (h b hb).poll hv

/-! ## the invariant -/

/-- the subscriber effect, except wake-ups (holds also in the middle of the effect's own poll) -/
structure ECore (s : State) : Prop where
  e1 : hasEffect s.eff = true → s.eFirst = true → s.eChan = true ∧ s.eSubD = false
  e2 : hasEffect s.eff = true → s.eFirst = false →
        s.eSubD = true ∧ (s.eDirty = true ∨ lastSeen s = some s.value)
  e3 : s.eDirty = true → s.eChan = true
  e5 : hasMemo s.eff = false → s.eChan = true → s.eDirty = true
  e6 : hasMemo s.eff = false → s.stolen = false
  e7 : s.eSubM = true → hasMemo s.eff = true ∧ hasEffect s.eff = true

/-- no lost wake-up for the effect's task -/
structure EWake (s : State) : Prop where
  w1 : hasEffect s.eff = true → s.eFirst = true → s.eWoken = true
  w2 : s.eWoken = false → s.eChan = false
  w3 : s.eFirst = false → s.eWoken = false → s.eReg = true

structure DCore (s : State) : Prop where
  r1 : s.dstate ≠ .notifying
  r2 : s.dstate = .dirty → s.chan = true
  r7 : s.loading = false → s.value ≠ none
  m1 : s.manualLive = true → s.value = s.lastManual
  aw : ∀ a ∈ s.aws, AwOK s.loading a

/-- the derived's task at rest (between events) -/
structure DRest (s : State) : Prop where
  r3 : s.pc = .start → s.dWoken = true ∧ s.chan = true ∧ s.firstRun = true ∧ s.initialFut = true ∧
        (s.curStatus = .pending ∨ s.curStatus = .ready)
  r4 : s.pc ≠ .start → s.firstRun = false ∧ s.initialFut = false
  r5 : s.pc = .waiting → s.loading = false ∧ (s.dWoken = false → s.reg = true ∧ s.chan = false)
  r6 : s.pc = .fetching → (s.curStatus = .pending ∨ s.curStatus = .ready) ∧ s.fetchVersion = s.version ∧
        (s.curStatus = .ready → s.dWoken = true)
  fresh : s.stolen = false → s.dstate = .clean →
        (s.pc = .waiting → s.manualLive = false → s.value = some (fetchFn s.src)) ∧
        (s.pc ≠ .waiting → s.curInputs = s.src)

/-- the derived's task at the top of its loop (`rx.next()`), in the middle of a poll -/
structure DMid (s : State) : Prop where
  pcw : s.pc = .waiting
  f1 : s.firstRun = true → s.chan = true ∧
        (s.initialFut = true → s.dstate ≠ .dirty ∧ (s.curStatus = .pending ∨ s.curStatus = .ready) ∧
          (s.stolen = false → s.dstate = .clean → s.curInputs = s.src)) ∧
        (s.initialFut = false → s.dstate = .dirty)
  f2 : s.firstRun = false → s.initialFut = false ∧ s.loading = false ∧
        (s.stolen = false → s.dstate = .clean → s.manualLive = false → s.value = some (fetchFn s.src))

structure Inv (s : State) : Prop where
  dc : DCore s
  dr : DRest s
  ec : ECore s
  ew : EWake s

structure Mid (s : State) : Prop where
  dc : DCore s
  dm : DMid s
  ec : ECore s
  ew : EWake s

macro "inv_cases" : tactic =>
  `(tactic| (refine ⟨⟨?_, ?_, ?_, ?_, ?_⟩, ⟨?_, ?_, ?_, ?_, ?_⟩, ⟨?_, ?_, ?_, ?_, ?_, ?_⟩, ⟨?_, ?_, ?_⟩⟩))

theorem Inv.init (c : Cfg) : Inv (init c) := by
  unfold Async.init
  inv_cases <;> simp [lastSeen, hasEffect, hasMemo] <;> (cases c.eff <;> simp)

theorem Inv.dMarkDirty {s : State} (h : Inv s) : Inv (dMarkDirty s) := by
  obtain ⟨⟨r1, r2, r7, m1, aw⟩, ⟨r3, r4, r5, r6, fresh⟩, ⟨e1, e2, e3, e5, e6, e7⟩, ⟨w1, w2, w3⟩⟩ := h
  unfold Async.dMarkDirty dNotify
  inv_cases <;> (simp only [lastSeen] at *; split <;> try split) <;> simp_all

theorem Inv.mMarkDirty {s : State} (h : Inv s) : Inv (mMarkDirty s) := by
  obtain ⟨⟨r1, r2, r7, m1, aw⟩, ⟨r3, r4, r5, r6, fresh⟩, ⟨e1, e2, e3, e5, e6, e7⟩, ⟨w1, w2, w3⟩⟩ := h
  unfold Async.mMarkDirty eMarkCheck eNotify
  inv_cases <;> (simp only [lastSeen] at *; (try split) <;> try split) <;> simp_all <;> grind

end Leptos.Async
