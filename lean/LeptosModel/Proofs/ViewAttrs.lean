import LeptosModel.Proofs.ViewRebuild
/-! # Proofs/ViewAttrs — the static attribute fragment satisfies `(AttrsFresh Eq)` / `(AttrsRebuild Eq)` -/
namespace Leptos.View
open Leptos.Dom

-- `R`: how the attribute list of an element relates to the fresh render's (`Eq` for the static
-- fragment, lookup-equality `AttrsEq` where removal and re-insertion change the order)
variable {R : List (String × String) → List (String × String) → Prop}

/-! ## stage 1 attribute fragment: `Attr<K, String>` items with pairwise distinct keys -/

def allStr : List AttrVal → Bool
  | [] => true
  | .str _ _ :: r => allStr r
  | _ :: _ => false

def strNames : List AttrVal → List String
  | [] => []
  | .str n _ :: r => n :: strNames r
  | _ :: r => strNames r

def strPairs : List AttrVal → List (String × String)
  | [] => []
  | .str n v :: r => (n, v) :: strPairs r
  | _ :: r => strPairs r

/-- only static string attributes, each key once (decidable) -/
def StaticAttrs (as : List AttrVal) : Prop := allStr as = true ∧ nodupS (strNames as) = true

instance (as : List AttrVal) : Decidable (StaticAttrs as) := by unfold StaticAttrs; infer_instance

theorem setA_new : ∀ (l : List (String × String)) (n v : String), getA l n = none →
    setA l n v = l ++ [(n, v)]
  | [], n, v, _ => by simp [setA]
  | (k, w) :: rest, n, v, h => by
    by_cases hk : k = n
    · simp [getA, hk] at h
    · simp [getA, hk] at h; simp [setA, hk, setA_new rest n v h]

theorem setA_mid : ∀ (l : List (String × String)) (n v v' : String) (rest : List (String × String)),
    getA l n = none → setA (l ++ (n, v) :: rest) n v' = l ++ (n, v') :: rest
  | [], n, v, v', rest, _ => by simp [setA]
  | (k, w) :: l, n, v, v', rest, h => by
    by_cases hk : k = n
    · simp [getA, hk] at h
    · simp [getA, hk] at h; simp [setA, hk, setA_mid l n v v' rest h]

theorem getA_append_ne : ∀ (l : List (String × String)) (n m v : String), getA l m = none → m ≠ n →
    getA (l ++ [(n, v)]) m = none
  | [], n, m, v, _, hne => by simp [getA, Ne.symm hne]
  | (k, w) :: l, n, m, v, h, hne => by
    by_cases hk : k = m
    · simp [getA, hk] at h
    · simp [getA, hk] at h; simp [getA, hk, getA_append_ne l n m v h hne]

theorem nodupS_cons (a : String) (as : List String) :
    nodupS (a :: as) = true ↔ a ∉ as ∧ nodupS as = true := by
  simp [nodupS]

theorem buildAttrs_static (as : List AttrVal) : ∀ (d : Dom) (el : Id) (r : NodeRec),
    d.get? el = some r → r.kind.isElem = true → allStr as = true → nodupS (strNames as) = true →
    (∀ n, n ∈ strNames as → getA r.attrs n = none) →
    (∃ r', (buildAttrs el as d).1.get? el = some r' ∧ r'.attrs = r.attrs ++ strPairs as ∧
      r'.kind = r.kind ∧ r'.parent = r.parent ∧ r'.kids = r.kids ∧ r'.data = r.data) ∧
    (∀ y, y ≠ el → (buildAttrs el as d).1.get? y = d.get? y) ∧
    (buildAttrs el as d).1.next = d.next ∧
    (buildAttrs el as d).2 = as.map AttrVal.initState := by
  induction as with
  | nil =>
    intro d el r hg _ _ _ _
    exact ⟨⟨r, by simpa [buildAttrs] using hg, by simp [strPairs], rfl, rfl, rfl, rfl⟩,
      by simp [buildAttrs], by simp [buildAttrs], by simp [buildAttrs]⟩
  | cons a as ih =>
    intro d el r hg hk hall hnd hfree
    cases a <;> simp [allStr] at hall
    rename_i n v
    simp only [strNames, nodupS_cons] at hnd
    have hget := Dom.get?_setAttribute d el n v r hg hk
    have hnew : setA r.attrs n v = r.attrs ++ [(n, v)] := setA_new _ _ _ (hfree n (by simp [strNames]))
    have hg1 : (d.setAttribute el n v).get? el =
        some { r with attrs := r.attrs ++ [(n, v)], muts := r.muts + 1 } := by
      rw [hget el]; simp [hnew]
    obtain ⟨⟨r', h1, h2, h3, h4, h5, h6⟩, h7, h8, h9⟩ :=
      ih (d.setAttribute el n v) el _ hg1 (by simpa using hk) hall hnd.2
        (by
          intro m hm
          simp only
          apply getA_append_ne _ _ _ _ (hfree m (by simp [strNames, hm]))
          intro e; subst e; exact hnd.1 hm)
    have hb : buildAttrs el (AttrVal.str n v :: as) d =
        ((buildAttrs el as (d.setAttribute el n v)).1,
          AttrState.str v :: (buildAttrs el as (d.setAttribute el n v)).2) := rfl
    rw [hb]
    refine ⟨⟨r', h1, by simp [h2, strPairs], h3, h4, h5, h6⟩, ?_, by simp [h8], by simp [h9, AttrVal.initState]⟩
    intro y hy
    dsimp only
    rw [h7 y hy, hget y]; simp [hy]

theorem renderAttrs_static (as : List AttrVal) (h : StaticAttrs as) : renderAttrs as = strPairs as := by
  have hg : (({} : Dom).createElement "x").1.get? 0 = some { kind := .elem "x", data := "" } := by
    simp [Dom.createElement, Dom.get?_create]
  obtain ⟨⟨r', h1, h2, _⟩, _⟩ :=
    buildAttrs_static as (({} : Dom).createElement "x").1 0 _ hg rfl h.1 h.2 (by intro n _; rfl)
  simp [renderAttrs, Dom.attrsOf, h1, h2]

theorem AttrsFresh_static (as : List AttrVal) (h : StaticAttrs as) : (AttrsFresh Eq) as := by
  intro d el r hg hk hat
  obtain ⟨⟨r', h1, h2, h3⟩, h4, h5, h6⟩ :=
    buildAttrs_static as d el r hg hk h.1 h.2 (by intro n _; rw [hat]; rfl)
  exact ⟨⟨r', h1, by rw [h2, hat, renderAttrs_static as h]; simp, h3⟩, h4, h5, h6⟩

theorem rebuildAttrs_static (as : List AttrVal) : ∀ (bs : List AttrVal) (er : Bool) (d : Dom) (el : Id)
    (r : NodeRec) (pre : List (String × String)),
    d.get? el = some r → r.kind.isElem = true → allStr as = true → allStr bs = true →
    as.map AttrVal.ty = bs.map AttrVal.ty → nodupS (strNames as) = true →
    r.attrs = pre ++ strPairs as → (∀ n, n ∈ strNames as → getA pre n = none) →
    (∃ r', (rebuildAttrs er el bs (as.map AttrVal.initState) d).1.get? el = some r' ∧
      r'.attrs = pre ++ strPairs bs ∧
      r'.kind = r.kind ∧ r'.parent = r.parent ∧ r'.kids = r.kids ∧ r'.data = r.data) ∧
    (∀ y, y ≠ el → (rebuildAttrs er el bs (as.map AttrVal.initState) d).1.get? y = d.get? y) ∧
    (rebuildAttrs er el bs (as.map AttrVal.initState) d).1.next = d.next ∧
    (rebuildAttrs er el bs (as.map AttrVal.initState) d).2 = bs.map AttrVal.initState := by
  induction as with
  | nil =>
    intro bs er d el r pre hg _ _ _ hty _ hat _
    cases bs with
    | cons _ _ => simp at hty
    | nil =>
      exact ⟨⟨r, by simpa [rebuildAttrs] using hg, by simpa [strPairs] using hat, rfl, rfl, rfl, rfl⟩,
        by simp [rebuildAttrs], by simp [rebuildAttrs], by simp [rebuildAttrs]⟩
  | cons a as ih =>
    intro bs er d el r pre hg hk halla hallb hty hnd hat hfree
    cases bs with
    | nil => simp at hty
    | cons b bs =>
    cases a <;> simp [allStr] at halla
    cases b <;> simp [allStr] at hallb
    rename_i n v n' v'
    simp [AttrVal.ty] at hty
    obtain ⟨hn, hty⟩ := hty
    subst hn
    simp only [strNames, nodupS_cons] at hnd
    have hpre : getA pre n = none := hfree n (by simp [strNames])
    -- one step
    let d1 := if v' != v then d.setAttribute el n v' else d
    have hrb : rebuildAttrs er el (AttrVal.str n v' :: bs) (List.map AttrVal.initState (AttrVal.str n v :: as)) d =
        ((rebuildAttrs er el bs (as.map AttrVal.initState) d1).1,
          AttrState.str v' :: (rebuildAttrs er el bs (as.map AttrVal.initState) d1).2) := rfl
    have hstep : ∃ r1, d1.get? el = some r1 ∧ r1.attrs = (pre ++ [(n, v')]) ++ strPairs as ∧
        r1.kind = r.kind ∧ r1.parent = r.parent ∧ r1.kids = r.kids ∧ r1.data = r.data ∧
        (∀ y, y ≠ el → d1.get? y = d.get? y) ∧ d1.next = d.next := by
      by_cases hv : v' = v
      · subst hv
        refine ⟨r, by simpa [d1] using hg, by simp [hat, strPairs], rfl, rfl, rfl, rfl, by simp [d1], by simp [d1]⟩
      · have hne : (v' != v) = true := by simpa using hv
        have hget := Dom.get?_setAttribute d el n v' r hg hk
        refine ⟨{ r with attrs := setA r.attrs n v', muts := r.muts + 1 }, ?_, ?_, rfl, rfl, rfl, rfl, ?_, ?_⟩
        · simp only [d1, hne, if_true]; rw [hget el]; simp
        · simp only [hat, strPairs]; rw [setA_mid pre n v v' _ hpre]; simp
        · intro y hy; simp only [d1, hne, if_true]; rw [hget y]; simp [hy]
        · simp [d1, hne]
    obtain ⟨r1, hg1, hat1, hk1, hp1, hkid1, hd1, hoth1, hnx1⟩ := hstep
    obtain ⟨⟨r', h1, h2, h3, h4, h5, h6⟩, h7, h8, h9⟩ :=
      ih bs er d1 el r1 (pre ++ [(n, v')]) hg1 (by rw [hk1]; exact hk) halla hallb hty hnd.2 hat1
        (by
          intro m hm
          apply getA_append_ne _ _ _ _ (hfree m (by simp [strNames, hm]))
          intro e; subst e; exact hnd.1 hm)
    rw [hrb]
    refine ⟨⟨r', h1, by simp [h2, strPairs], by rw [h3, hk1], by rw [h4, hp1], by rw [h5, hkid1],
      by rw [h6, hd1]⟩, ?_, by simp [h8, hnx1], by simp [h9, AttrVal.initState]⟩
    intro y hy
    dsimp only
    rw [h7 y hy, hoth1 y hy]

theorem AttrsRebuild_static (as bs : List AttrVal) (ha : StaticAttrs as) (hb : StaticAttrs bs)
    (hty : as.map AttrVal.ty = bs.map AttrVal.ty) : (AttrsRebuild Eq) as bs := by
  intro er d el r hg hk hat
  obtain ⟨⟨r', h1, h2, h3⟩, h4, h5, h6⟩ :=
    rebuildAttrs_static as bs er d el r [] hg hk ha.1 hb.1 hty ha.2
      (by rw [hat, renderAttrs_static as ha]; simp) (by intro n _; rfl)
  exact ⟨⟨r', h1, by rw [h2, renderAttrs_static bs hb]; simp, h3⟩, h4, h5, h6⟩

end Leptos.View
