import LeptosModel.Proofs.HydrateFinal
/-! Helper lemmas for C05, part 14: trees up to the attribute relation (`Tree.simList`, C03) under the property's
observable `stripL`, and the assembly of `C05_then_like_csr_kv` (`String` / `Option<String>` / `bool` attribute
values: attribute lists compared as maps). -/
namespace Leptos.Hydrate
open Leptos.Dom Leptos.View

variable {R : List (String × String) → List (String × String) → Prop}

theorem simList_cons_inv {a : Dom.Tree} {as l : List Dom.Tree} (h : Tree.simList R (a :: as) l) :
    ∃ b bs, l = b :: bs ∧ Tree.sim R a b ∧ Tree.simList R as bs := by
  cases l with
  | nil => simp [Tree.simList] at h
  | cons b bs => simp only [Tree.simList] at h; exact ⟨b, bs, rfl, h.1, h.2⟩

theorem simList_nil_inv {l : List Dom.Tree} (h : Tree.simList R [] l) : l = [] := by
  cases l with
  | nil => rfl
  | cons _ _ => simp [Tree.simList] at h

theorem sim_pushText (s : String) {a b : List Dom.Tree} (h : Tree.simList R a b) :
    Tree.simList R (pushText s a) (pushText s b) := by
  cases a with
  | nil =>
    rw [simList_nil_inv h]
    by_cases hs : s = "" <;> simp [pushText, hs, Tree.simList, Tree.sim]
  | cons x xs =>
    obtain ⟨y, ys, e, h1, h2⟩ := simList_cons_inv h
    subst e
    cases x with
    | text u =>
      cases y with
      | text w =>
        simp only [Tree.sim] at h1
        subst h1
        by_cases hs : s = "" <;> simp [pushText, hs, Tree.simList, Tree.sim, h2]
      | comment _ => simp [Tree.sim] at h1
      | elem _ _ _ => simp [Tree.sim] at h1
    | comment u =>
      cases y with
      | comment w =>
        by_cases hs : s = ""
        · rw [show pushText s (Tree.comment u :: xs) = Tree.comment u :: xs by simp [pushText, hs],
            show pushText s (Tree.comment w :: ys) = Tree.comment w :: ys by simp [pushText, hs]]
          exact h
        · rw [show pushText s (Tree.comment u :: xs) = Tree.text s :: Tree.comment u :: xs by simp [pushText, hs],
            show pushText s (Tree.comment w :: ys) = Tree.text s :: Tree.comment w :: ys by simp [pushText, hs]]
          exact ⟨by simp [Tree.sim], h⟩
      | text _ => simp [Tree.sim] at h1
      | elem _ _ _ => simp [Tree.sim] at h1
    | elem t as ks =>
      cases y with
      | elem t' as' ks' =>
        by_cases hs : s = ""
        · rw [show pushText s (Tree.elem t as ks :: xs) = Tree.elem t as ks :: xs by simp [pushText, hs],
            show pushText s (Tree.elem t' as' ks' :: ys) = Tree.elem t' as' ks' :: ys by simp [pushText, hs]]
          exact h
        · rw [show pushText s (Tree.elem t as ks :: xs) = Tree.text s :: Tree.elem t as ks :: xs by simp [pushText, hs],
            show pushText s (Tree.elem t' as' ks' :: ys) = Tree.text s :: Tree.elem t' as' ks' :: ys by simp [pushText, hs]]
          exact ⟨by simp [Tree.sim], h⟩
      | text _ => simp [Tree.sim] at h1
      | comment _ => simp [Tree.sim] at h1

mutual
theorem sim_stripT : ∀ (a b : Dom.Tree) (x y : List Dom.Tree), Tree.sim R a b → Tree.simList R x y →
    Tree.simList R (stripT a x) (stripT b y)
  | .comment _, .comment _, x, y, _, h => by simpa [stripT] using h
  | .text s, .text u, x, y, hs, h => by
    simp only [Tree.sim] at hs
    subst hs
    simpa [stripT] using sim_pushText s h
  | .elem t as ks, .elem t' as' ks', x, y, hs, h => by
    simp only [Tree.sim] at hs
    simp only [stripT, Tree.simList, Tree.sim]
    exact ⟨⟨hs.1, hs.2.1, sim_stripL ks ks' hs.2.2⟩, h⟩
  | .comment _, .text _, _, _, hs, _ => by simp [Tree.sim] at hs
  | .comment _, .elem _ _ _, _, _, hs, _ => by simp [Tree.sim] at hs
  | .text _, .comment _, _, _, hs, _ => by simp [Tree.sim] at hs
  | .text _, .elem _ _ _, _, _, hs, _ => by simp [Tree.sim] at hs
  | .elem _ _ _, .comment _, _, _, hs, _ => by simp [Tree.sim] at hs
  | .elem _ _ _, .text _, _, _, hs, _ => by simp [Tree.sim] at hs
/-- the property's observable respects the attribute relation -/
theorem sim_stripL : ∀ (a b : List Dom.Tree), Tree.simList R a b → Tree.simList R (stripL a) (stripL b)
  | [], [], _ => by simp [stripL, Tree.simList]
  | [], _ :: _, h => by simp [Tree.simList] at h
  | _ :: _, [], h => by simp [Tree.simList] at h
  | a :: as, b :: bs, h => by
    simp only [Tree.simList] at h
    simp only [stripL]
    exact sim_stripT a b _ _ h.1 (sim_stripL as bs h.2)
end

mutual
theorem sim_symm (hR : ∀ x y, R x y → R y x) : ∀ (a b : Dom.Tree), Tree.sim R a b → Tree.sim R b a
  | .elem _ _ k1, .elem _ _ k2, h => by
    simp only [Tree.sim] at h ⊢
    exact ⟨h.1.symm, hR _ _ h.2.1, simList_symm hR k1 k2 h.2.2⟩
  | .text _, .text _, h => by simp only [Tree.sim] at h ⊢; exact h.symm
  | .comment _, .comment _, h => by simp only [Tree.sim] at h ⊢; exact h.symm
  | .elem _ _ _, .text _, h => by simp [Tree.sim] at h
  | .elem _ _ _, .comment _, h => by simp [Tree.sim] at h
  | .text _, .elem _ _ _, h => by simp [Tree.sim] at h
  | .text _, .comment _, h => by simp [Tree.sim] at h
  | .comment _, .elem _ _ _, h => by simp [Tree.sim] at h
  | .comment _, .text _, h => by simp [Tree.sim] at h
theorem simList_symm (hR : ∀ x y, R x y → R y x) : ∀ (a b : List Dom.Tree), Tree.simList R a b → Tree.simList R b a
  | [], [], _ => by simp [Tree.simList]
  | [], _ :: _, h => by simp [Tree.simList] at h
  | _ :: _, [], h => by simp [Tree.simList] at h
  | a :: as, b :: bs, h => by
    simp only [Tree.simList] at h ⊢
    exact ⟨sim_symm hR a b h.1, simList_symm hR as bs h.2⟩
end

mutual
theorem sim_trans (hR : ∀ x y z, R x y → R y z → R x z) : ∀ (a b c : Dom.Tree), Tree.sim R a b → Tree.sim R b c →
    Tree.sim R a c
  | .elem _ _ k1, .elem _ _ k2, .elem _ _ k3, h1, h2 => by
    simp only [Tree.sim] at h1 h2 ⊢
    exact ⟨h1.1.trans h2.1, hR _ _ _ h1.2.1 h2.2.1, simList_trans hR k1 k2 k3 h1.2.2 h2.2.2⟩
  | .text _, .text _, .text _, h1, h2 => by simp only [Tree.sim] at h1 h2 ⊢; exact h1.trans h2
  | .comment _, .comment _, .comment _, h1, h2 => by simp only [Tree.sim] at h1 h2 ⊢; exact h1.trans h2
  | .elem _ _ _, .text _, _, h, _ => by simp [Tree.sim] at h
  | .elem _ _ _, .comment _, _, h, _ => by simp [Tree.sim] at h
  | .text _, .elem _ _ _, _, h, _ => by simp [Tree.sim] at h
  | .text _, .comment _, _, h, _ => by simp [Tree.sim] at h
  | .comment _, .elem _ _ _, _, h, _ => by simp [Tree.sim] at h
  | .comment _, .text _, _, h, _ => by simp [Tree.sim] at h
  | .elem _ _ _, .elem _ _ _, .text _, _, h => by simp [Tree.sim] at h
  | .elem _ _ _, .elem _ _ _, .comment _, _, h => by simp [Tree.sim] at h
  | .text _, .text _, .elem _ _ _, _, h => by simp [Tree.sim] at h
  | .text _, .text _, .comment _, _, h => by simp [Tree.sim] at h
  | .comment _, .comment _, .elem _ _ _, _, h => by simp [Tree.sim] at h
  | .comment _, .comment _, .text _, _, h => by simp [Tree.sim] at h
theorem simList_trans (hR : ∀ x y z, R x y → R y z → R x z) : ∀ (a b c : List Dom.Tree),
    Tree.simList R a b → Tree.simList R b c → Tree.simList R a c
  | [], [], [], _, _ => by simp [Tree.simList]
  | [], _ :: _, _, h, _ => by simp [Tree.simList] at h
  | _ :: _, [], _, h, _ => by simp [Tree.simList] at h
  | [], [], _ :: _, _, h => by simp [Tree.simList] at h
  | _ :: _, _ :: _, [], _, h => by simp [Tree.simList] at h
  | a :: as, b :: bs, c :: cs, h1, h2 => by
    simp only [Tree.simList] at h1 h2 ⊢
    exact ⟨sim_trans hR a b c h1.1 h2.1, simList_trans hR as bs cs h1.2 h2.2⟩
end

theorem AttrsEq.symm' {a b : List (String × String)} (h : AttrsEq a b) : AttrsEq b a := fun k => (h k).symm
theorem AttrsEq.trans' {a b c : List (String × String)} (h1 : AttrsEq a b) (h2 : AttrsEq b c) : AttrsEq a c :=
  fun k => (h1 k).trans (h2 k)

mutual
/-- every element has only `String` / `Option<String>` / `bool` attribute values with pairwise distinct names -/
def kvV : View → Bool
  | .elem _ as c => decide (KVPlain as) && kvV c
  | .tuple vs => kvL vs
  | .osome v => kvV v
  | .either _ _ v => kvV v
  | .vec vs => kvL vs
  | .any _ v => kvV v
  | _ => true
def kvL : List View → Bool
  | [] => true
  | v :: vs => kvV v && kvL vs
end

mutual
theorem kvV_allEl : ∀ (v : View), kvV v = true → AllEl KVPlain v
  | .text _, _ => by simp [AllEl]
  | .unit, _ => by simp [AllEl]
  | .onone, _ => by simp [AllEl]
  | .elem _ as c, h => by
    simp [kvV] at h; simp only [AllEl]; exact ⟨h.1, kvV_allEl c h.2⟩
  | .tuple vs, h => by simp only [kvV] at h; simp only [AllEl]; exact kvL_allEl vs h
  | .osome v, h => by simp only [kvV] at h; simp only [AllEl]; exact kvV_allEl v h
  | .either _ _ v, h => by simp only [kvV] at h; simp only [AllEl]; exact kvV_allEl v h
  | .vec vs, h => by simp only [kvV] at h; simp only [AllEl]; exact kvL_allEl vs h
  | .any _ v, h => by simp only [kvV] at h; simp only [AllEl]; exact kvV_allEl v h
theorem kvL_allEl : ∀ (vs : List View), kvL vs = true → AllElList KVPlain vs
  | [], _ => by simp [AllElList]
  | v :: vs, h => by
    simp only [kvL, Bool.and_eq_true] at h
    simp only [AllElList]; exact ⟨kvV_allEl v h.1, kvL_allEl vs h.2⟩
end

/-- hydrated-then-rebuilt against client-built-then-rebuilt, attribute lists compared as maps -/
theorem then_like_csr_kv (a b : View) (ty : Ty) (hta : HasTy a ty) (htb : HasTy b ty)
    (hwa : wfV [[]] a = true) (hwb : wfV [[]] b = true) (hka : kvV a = true) (hkb : kvV b = true)
    (hfa : fullV a = true) :
    ∃ k1 k2, runHydrated (domOf a) a b = ⟨.ok (), 0, some k1⟩ ∧ runCsr a b = some k2 ∧
      Tree.simList AttrsEq (stripL k1) (stripL k2) := by
  obtain ⟨k1, t1, h1, h2, h3⟩ := hydrated_side_gen fragKV a b ty hta htb hwa (wfH_of_wfV b _ hwb)
    (kvV_allEl a hka) (kvV_allEl b hkb) hfa
  obtain ⟨k2, g1, g2⟩ := csr_side_gen fragKV a b ty hta htb (kvV_allEl a hka) (kvV_allEl b hkb) (wfH_of_wfV b _ hwb)
  refine ⟨k1, k2, h1, g1, ?_⟩
  rw [h2]
  have hs : Tree.simList AttrsEq (render b) k2 :=
    simList_symm (R := AttrsEq) (fun x y (h : AttrsEq x y) => AttrsEq.symm' h) _ _ g2
  exact sim_stripL _ _ (simList_trans (R := AttrsEq)
    (fun x y z (h1 : AttrsEq x y) (h2 : AttrsEq y z) => AttrsEq.trans' h1 h2) _ _ _ h3 hs)

end Leptos.Hydrate
