import LeptosModel.Proofs.KeyedSpec
/-!
# `rendered_items` after `apply_diff` (C11): pointwise analysis
-/
namespace Leptos.Keyed

theorem eq_of_mem_of_nodup_map {α β : Type} {g : α → β} : ∀ {l : List α}, (l.map g).Nodup →
    ∀ {a b : α}, a ∈ l → b ∈ l → g a = g b → a = b
  | [], _, _, _, ha, _, _ => by simp at ha
  | x :: l, h, a, b, ha, hb, hab => by
    simp only [List.map_cons, List.nodup_cons, List.mem_map, not_exists, not_and] at h
    simp only [List.mem_cons] at ha hb
    rcases ha with rfl | ha <;> rcases hb with rfl | hb
    · rfl
    · exact absurd hab.symm (h.1 b hb)
    · exact absurd hab (h.1 a ha)
    · exact eq_of_mem_of_nodup_map h.2 ha hb hab

theorem itemAt_set_none (S : List (Option Item)) (a i : Nat) :
    itemAt (S.set a none) i = if a = i then none else itemAt S i := by
  unfold itemAt
  rw [List.getElem?_set]
  by_cases h : a = i
  · subst h; by_cases h2 : a < S.length <;> simp [h2]
  · simp [h]

theorem itemAt_applyWrites_none (is : List Nat) : ∀ (S : List (Option Item)) (i : Nat),
    itemAt (applyWrites S (is.map fun a => (a, none))) i = if i ∈ is then none else itemAt S i := by
  induction is with
  | nil => intro S i; simp
  | cons a is ih =>
    intro S i
    simp only [List.map_cons, applyWrites_cons, ih, itemAt_set_none, List.mem_cons]
    by_cases h1 : i ∈ is <;> by_cases h2 : a = i <;> simp [h1, h2, eq_comm]

theorem itemAt_append_replicate_none (S : List (Option Item)) (n i : Nat) :
    itemAt (S ++ List.replicate n none) i = itemAt S i := by
  unfold itemAt
  rw [List.getElem?_append]
  by_cases h : i < S.length
  · simp [h]
  · simp only [h, if_false, List.getElem?_replicate]
    have : S[i]? = none := List.getElem?_eq_none (by omega)
    rw [this]
    split <;> rfl

theorem itemAt_map_some (old : List Item) (i : Nat) : itemAt (old.map some) i = old[i]? := by
  unfold itemAt
  rw [List.getElem?_map]
  cases old[i]? <;> rfl

/-- value at `j` after a list of writes with distinct positions -/
theorem itemAt_applyWrites_of_mem {W : Writes} {S : List (Option Item)} {j : Nat} {v : Option Item}
    (hnd : (W.map (·.1)).Nodup) (hmem : (j, v) ∈ W) (hj : j < S.length) :
    itemAt (applyWrites S W) j = v := by
  unfold itemAt
  rw [applyWrites_getElem?_of_mem W S j v hnd hmem hj]
  rfl

theorem itemAt_applyWrites_of_not_mem {W : Writes} {S : List (Option Item)} {j : Nat}
    (h : j ∉ W.map (·.1)) : itemAt (applyWrites S W) j = itemAt S j := by
  unfold itemAt
  rw [applyWrites_getElem?_of_not_mem W S j h]

/-! ### facts about the command lists -/

theorem filterMap_fst_sublist {g : Nat → Option (Nat × Nat)} (hg : ∀ i p, g i = some p → p.1 = i) :
    ∀ (l : List Nat), ((l.filterMap g).map (·.1)).Sublist l
  | [] => by simp
  | a :: l => by
    simp only [List.filterMap_cons]
    cases h : g a with
    | none => exact (filterMap_fst_sublist hg l).cons a
    | some p =>
      simp only [List.map_cons]
      rw [hg a p h]
      exact (filterMap_fst_sublist hg l).cons_cons a

section
variable {f t : List Key} {rem : List Nat} {U : List DiffOpMove} {ads : List DiffOpAdd}

theorem Spec.mem_rem (sp : Spec f t rem U ads) {i : Nat} : i ∈ rem ↔ isRem f t i = true := by
  rw [sp.rem_eq, List.mem_filter, List.mem_range]
  constructor
  · exact fun h => h.2
  · intro h
    refine ⟨?_, h⟩
    obtain ⟨k, hk, _⟩ := isRem_iff.mp h
    have := (List.getElem?_eq_some_iff.mp hk).1
    omega

theorem Spec.mem_ads (sp : Spec f t rem U ads) {j : Nat} : j ∈ ads.map (·.at_) ↔ isAdd f t j = true := by
  rw [sp.ads_at, List.mem_filter, List.mem_range]
  constructor
  · exact fun h => h.2
  · intro h
    refine ⟨?_, h⟩
    obtain ⟨k, hk, _⟩ := isAdd_iff.mp h
    have := (List.getElem?_eq_some_iff.mp hk).1
    omega

theorem Spec.mem_pairs (sp : Spec f t rem U ads) (ht : t.Nodup) {i j : Nat} :
    (∃ m ∈ U, m.from_ = i ∧ m.to_ = j) ↔ i ≠ j ∧ ∃ k, f[i]? = some k ∧ t[j]? = some k := by
  have : (∃ m ∈ U, m.from_ = i ∧ m.to_ = j) ↔ (i, j) ∈ U.map fun m => (m.from_, m.to_) := by
    simp [List.mem_map]
  rw [this, sp.pairs, List.mem_filterMap]
  constructor
  · rintro ⟨a, _, ha⟩
    obtain ⟨h1, h2, h3⟩ := (mvPair_eq_some ht).mp ha
    simp only at h1 h2 h3
    subst h1
    exact ⟨h2, h3⟩
  · rintro ⟨h1, k, hk1, hk2⟩
    refine ⟨i, ?_, (mvPair_eq_some ht).mpr ⟨rfl, h1, k, hk1, hk2⟩⟩
    rw [List.mem_range]
    have := (List.getElem?_eq_some_iff.mp hk1).1
    omega

theorem Spec.rem_nodup (sp : Spec f t rem U ads) : rem.Nodup := by
  rw [sp.rem_eq]
  exact List.Nodup.sublist List.filter_sublist List.nodup_range

theorem Spec.ads_nodup (sp : Spec f t rem U ads) : (ads.map (·.at_)).Nodup := by
  rw [sp.ads_at]
  exact List.Nodup.sublist List.filter_sublist List.nodup_range

theorem Spec.from_nodup (sp : Spec f t rem U ads) (ht : t.Nodup) : (U.map (·.from_)).Nodup := by
  have h : U.map (·.from_) = (U.map fun m => (m.from_, m.to_)).map (·.1) := by
    simp [List.map_map, Function.comp_def]
  rw [h, sp.pairs]
  exact List.Nodup.sublist
    (filterMap_fst_sublist (fun i p hp => ((mvPair_eq_some ht).mp hp).1) _) List.nodup_range

theorem Spec.to_nodup (sp : Spec f t rem U ads) (hf : f.Nodup) (ht : t.Nodup) : (U.map (·.to_)).Nodup := by
  have hfrom := sp.from_nodup ht
  rw [List.Nodup, List.pairwise_map] at hfrom ⊢
  refine List.Pairwise.imp_of_mem ?_ hfrom
  intro a b ha hb hab heq
  obtain ⟨_, k, hk1, hk2⟩ := (sp.mem_pairs ht).mp ⟨a, ha, rfl, rfl⟩
  obtain ⟨_, k', hk1', hk2'⟩ := (sp.mem_pairs ht).mp ⟨b, hb, rfl, rfl⟩
  rw [heq, hk2'] at hk2
  simp only [Option.some.injEq] at hk2
  subst hk2
  have hlt := (List.getElem?_eq_some_iff.mp hk1).1
  exact hab ((List.getElem?_inj hlt hf).mp (hk1.trans hk1'.symm))

end

theorem length_filter_split {α : Type} (p : α → Bool) : ∀ (l : List α),
    l.length = (l.filter p).length + (l.filter fun a => !p a).length
  | [] => rfl
  | a :: l => by
    have ih := length_filter_split p l
    cases h : p a <;> simp [h] <;> omega

/-! ### the context of one `rebuild`: old items keyed `f`, new keys `t` -/

structure Ctx (f t : List Key) (old : List Item) (rem : List Nat) (U : List DiffOpMove)
    (ads : List DiffOpAdd) : Prop where
  hf : f.Nodup
  ht : t.Nodup
  hold : old.map (·.key) = f
  sp : Spec f t rem U ads

section
variable {f t : List Key} {old : List Item} {rem : List Nat} {U : List DiffOpMove} {ads : List DiffOpAdd}

theorem Ctx.old_length (c : Ctx f t old rem U ads) : old.length = f.length := by
  rw [← c.hold, List.length_map]

theorem Ctx.old_get (c : Ctx f t old rem U ads) {i : Nat} {k : Key} (h : f[i]? = some k) :
    ∃ it, old[i]? = some it ∧ it.key = k := by
  rw [← c.hold, List.getElem?_map] at h
  cases ho : old[i]? with
  | none => simp [ho] at h
  | some it => exact ⟨it, rfl, by simpa [ho] using h⟩

/-- a moved index is not a removed index -/
theorem Ctx.from_not_rem (c : Ctx f t old rem U ads) {m : DiffOpMove} (hm : m ∈ U) : m.from_ ∉ rem := by
  intro h
  obtain ⟨k, hk, hkt⟩ := isRem_iff.mp (c.sp.mem_rem.mp h)
  obtain ⟨_, k', hk1, hk2⟩ := (c.sp.mem_pairs c.ht).mp ⟨m, hm, rfl, rfl⟩
  rw [hk] at hk1
  simp only [Option.some.injEq] at hk1
  subst hk1
  exact hkt (List.mem_of_getElem? hk2)

theorem Ctx.from_lt (c : Ctx f t old rem U ads) {m : DiffOpMove} (hm : m ∈ U) : m.from_ < f.length := by
  obtain ⟨_, k', hk1, _⟩ := (c.sp.mem_pairs c.ht).mp ⟨m, hm, rfl, rfl⟩
  exact (List.getElem?_eq_some_iff.mp hk1).1

theorem Ctx.to_lt (c : Ctx f t old rem U ads) {m : DiffOpMove} (hm : m ∈ U) : m.to_ < t.length := by
  obtain ⟨_, k', _, hk2⟩ := (c.sp.mem_pairs c.ht).mp ⟨m, hm, rfl, rfl⟩
  exact (List.getElem?_eq_some_iff.mp hk2).1

theorem Ctx.at_lt (c : Ctx f t old rem U ads) {a : DiffOpAdd} (ha : a ∈ ads) : a.at_ < t.length := by
  obtain ⟨k, hk, _⟩ := isAdd_iff.mp (c.sp.mem_ads.mp (List.mem_map.mpr ⟨a, ha, rfl⟩))
  exact (List.getElem?_eq_some_iff.mp hk).1

/-- `to.len ≤ from.len + #added` -/
theorem Ctx.length_le (c : Ctx f t old rem U ads) : t.length ≤ f.length + ads.length := by
  have h1 : t.length = (t.filter (fun k => f.contains k)).length + (t.filter (fun k => !f.contains k)).length :=
    length_filter_split (fun k => f.contains k) t
  have h2 : (t.filter (fun k => f.contains k)).length ≤ f.length := by
    apply List.Nodup.length_le_of_subset (List.Nodup.sublist List.filter_sublist c.ht)
    intro k hk
    simpa using (List.mem_filter.mp hk).2
  have h3 : (t.filter (fun k => !f.contains k)).length ≤ ads.length := by
    have : ads.length = (ads.map (·.at_)).length := by simp
    rw [this]
    -- every new key sits at an added index; distinct keys sit at distinct indices
    have hsub : ∀ k ∈ t.filter (fun k => !f.contains k), t.idxOf k ∈ ads.map (·.at_) := by
      intro k hk
      obtain ⟨hkt, hkf⟩ := List.mem_filter.mp hk
      rw [c.sp.mem_ads, isAdd_iff]
      refine ⟨k, ?_, by simpa using hkf⟩
      rw [List.getElem?_eq_getElem (List.idxOf_lt_length_of_mem hkt)]
      simp
    have hnd : ((t.filter (fun k => !f.contains k)).map (fun k => t.idxOf k)).Nodup := by
      rw [List.Nodup, List.pairwise_map]
      refine List.Pairwise.imp_of_mem ?_ (List.Nodup.sublist List.filter_sublist c.ht)
      intro a b ha hb hab heq
      apply hab
      have ha' := (List.mem_filter.mp ha).1
      have hb' := (List.mem_filter.mp hb).1
      have h1 := List.getElem_idxOf (List.idxOf_lt_length_of_mem ha')
      have h2 := List.getElem_idxOf (List.idxOf_lt_length_of_mem hb')
      rw [← h1, ← h2]
      simp [heq]
    have := List.Nodup.length_le_of_subset hnd (by
      intro x hx
      obtain ⟨k, hk, rfl⟩ := List.mem_map.mp hx
      exact hsub k hk)
    simpa using this
  omega

theorem Ctx.movedWith_eq (c : Ctx f t old rem U ads) :
    movedWith (old.map some) rem U = U.map fun m => (m, old[m.from_]?) := by
  unfold movedWith
  apply List.map_congr_left
  intro m hm
  rw [itemAt_applyWrites_none, if_neg (c.from_not_rem hm), itemAt_map_some]

theorem Ctx.ndWrites_eq (c : Ctx f t old rem U ads) :
    ndWrites (movedWith (old.map some) rem U)
      = (U.filter fun m => !m.moveInDom).map fun m => (m.to_, old[m.from_]?) := by
  rw [c.movedWith_eq, ndWrites, List.filter_map, List.map_map]
  rfl

theorem Ctx.mem_dPlacements (c : Ctx f t old rem U ads) {p : Nat} {it : Item} :
    (p, it) ∈ dPlacements (movedWith (old.map some) rem U) ↔
      ∃ m ∈ U, m.moveInDom = true ∧ m.to_ = p ∧ old[m.from_]? = some it := by
  rw [c.movedWith_eq, dPlacements, List.filter_map, List.mem_filterMap]
  constructor
  · rintro ⟨mc, hmc, h⟩
    obtain ⟨m, hm, rfl⟩ := List.mem_map.mp hmc
    obtain ⟨hmU, hd⟩ := List.mem_filter.mp hm
    simp only [Option.map_eq_some_iff, Prod.mk.injEq] at h
    obtain ⟨it', h1, h2, h3⟩ := h
    subst h3
    exact ⟨m, hmU, by simpa using hd, h2, h1⟩
  · rintro ⟨m, hm, hd, rfl, hit⟩
    exact ⟨(m, old[m.from_]?), List.mem_map.mpr ⟨m, List.mem_filter.mpr ⟨hm, by simpa using hd⟩, rfl⟩,
      by simp [hit]⟩

theorem Ctx.dPlacements_pos_sublist (c : Ctx f t old rem U ads) :
    ((dPlacements (movedWith (old.map some) rem U)).map (·.1)).Sublist (U.map (·.to_)) := by
  rw [c.movedWith_eq, dPlacements, List.filter_map]
  have : ∀ (l : List DiffOpMove),
      (((l.map fun m => (m, old[m.from_]?)).filterMap
        fun mc => mc.2.map fun it => (mc.1.to_, it)).map (·.1)).Sublist (l.map (·.to_)) := by
    intro l
    induction l with
    | nil => simp
    | cons m l ih =>
      simp only [List.map_cons, List.filterMap_cons]
      cases old[m.from_]? with
      | none => exact ih.cons _
      | some it => exact ih.cons_cons _
  exact (this _).trans (List.Sublist.map _ List.filter_sublist)

theorem Ctx.ndWrites_pos_sublist (c : Ctx f t old rem U ads) :
    ((ndWrites (movedWith (old.map some) rem U)).map (·.1)).Sublist (U.map (·.to_)) := by
  rw [c.ndWrites_eq, List.map_map]
  exact List.Sublist.map _ List.filter_sublist

theorem mem_addPlacements {bs : Nat} {to : List Key} {as : List DiffOpAdd} : ∀ {next : Nat} {p : Nat} {it : Item},
    (p, it) ∈ addPlacements bs to next as → it.key = to[p]?.getD 0 ∧ p ∈ as.map (·.at_) := by
  induction as with
  | nil => intro _ _ _ h; simp [addPlacements] at h
  | cons a as ih =>
    intro next p it h
    simp only [addPlacements, List.mem_cons, Prod.mk.injEq] at h
    rcases h with ⟨rfl, rfl⟩ | h
    · simp
    · obtain ⟨h1, h2⟩ := ih h
      exact ⟨h1, by simp [h2]⟩

theorem exists_addPlacement {bs : Nat} {to : List Key} {as : List DiffOpAdd} : ∀ {next : Nat} {a : DiffOpAdd},
    a ∈ as → ∃ it, (a.at_, it) ∈ addPlacements bs to next as := by
  induction as with
  | nil => intro _ _ h; simp at h
  | cons a' as ih =>
    intro next a h
    simp only [List.mem_cons] at h
    rcases h with rfl | h
    · exact ⟨{ key := to[a.at_]?.getD 0, nodes := List.range' next bs }, by simp [addPlacements]⟩
    · obtain ⟨it, hit⟩ := ih (next := next + bs) h
      exact ⟨it, by simp [addPlacements, hit]⟩

/-- `rendered_items` before the final drain -/
def storage7 (old : List Item) (rem : List Nat) (U : List DiffOpMove) (ads : List DiffOpAdd)
    (bs : Nat) (to : List Key) (next : Nat) : List (Option Item) :=
  applyWrites (storage4 (old.map some) rem U ads.length)
    ((dPlacements (movedWith (old.map some) rem U) ++ addPlacements bs to next ads).map
      fun p => (p.1, some p.2))

theorem Ctx.itemAt_storage3 (_c : Ctx f t old rem U ads) (n j : Nat) :
    itemAt (storage2 (old.map some) rem U ++ List.replicate n none) j
      = if j ∈ rem ∨ j ∈ U.map (·.from_) then none else old[j]? := by
  have hU : (U.map fun m => (m.from_, (none : Option Item))) = (U.map (·.from_)).map fun a => (a, none) := by
    simp [List.map_map, Function.comp_def]
  rw [itemAt_append_replicate_none, storage2, hU, itemAt_applyWrites_none, itemAt_applyWrites_none,
    itemAt_map_some]
  by_cases h1 : j ∈ rem <;> by_cases h2 : j ∈ U.map (·.from_) <;> simp [h1, h2]

theorem storage7_length (old : List Item) (rem : List Nat) (U : List DiffOpMove) (ads : List DiffOpAdd)
    (bs : Nat) (to : List Key) (next : Nat) :
    (storage7 old rem U ads bs to next).length = old.length + ads.length := by
  simp [storage7, storage4, storage2]

/-- a position that no move and no addition targets keeps what the move-out left there -/
theorem Ctx.storage7_untouched (c : Ctx f t old rem U ads) (bs : Nat) (next j : Nat)
    (h1 : j ∉ U.map (·.to_)) (h2 : j ∉ ads.map (·.at_)) :
    itemAt (storage7 old rem U ads bs t next) j
      = if j ∈ rem ∨ j ∈ U.map (·.from_) then none else old[j]? := by
  rw [storage7, itemAt_applyWrites_of_not_mem, storage4, itemAt_applyWrites_of_not_mem, c.itemAt_storage3]
  · exact fun h => h1 (c.ndWrites_pos_sublist.subset h)
  · simp only [List.map_map, Function.comp_def, List.map_append, List.mem_append, not_or]
    refine ⟨fun h => h1 (c.dPlacements_pos_sublist.subset ?_), ?_⟩
    · simpa [Function.comp_def] using h
    · intro h
      rw [List.mem_map] at h
      obtain ⟨⟨p, it⟩, hp, rfl⟩ := h
      exact h2 (mem_addPlacements hp).2

/-- the target of a move holds the moved item -/
theorem Ctx.storage7_moved (c : Ctx f t old rem U ads) (bs : Nat) (next : Nat) {m : DiffOpMove} (hm : m ∈ U) :
    itemAt (storage7 old rem U ads bs t next) m.to_ = old[m.from_]? := by
  have hto := c.sp.to_nodup c.hf c.ht
  have hlen : m.to_ < old.length + ads.length := by
    have := c.to_lt hm; have := c.length_le; have := c.old_length; omega
  -- no addition targets `m.to_`
  have hnotadd : m.to_ ∉ (addPlacements bs t next ads).map (·.1) := by
    intro h
    rw [addPlacements_map_fst] at h
    obtain ⟨k, hk, hkf⟩ := isAdd_iff.mp (c.sp.mem_ads.mp h)
    obtain ⟨_, k', hk1, hk2⟩ := (c.sp.mem_pairs c.ht).mp ⟨m, hm, rfl, rfl⟩
    rw [hk] at hk2
    simp only [Option.some.injEq] at hk2
    subst hk2
    exact hkf (List.mem_of_getElem? hk1)
  obtain ⟨it, hit⟩ : ∃ it, old[m.from_]? = some it :=
    ⟨_, List.getElem?_eq_getElem (by have := c.from_lt hm; have := c.old_length; omega)⟩
  by_cases hd : m.moveInDom = true
  · -- stored by the DOM move-in loop
    rw [storage7, hit]
    apply itemAt_applyWrites_of_mem
    · rw [List.map_map, List.map_append, List.nodup_append]
      refine ⟨?_, ?_, ?_⟩
      · exact List.Nodup.sublist (by simpa [Function.comp_def] using c.dPlacements_pos_sublist) hto
      · have := c.sp.ads_nodup
        simpa [Function.comp_def, addPlacements_map_fst] using this
      · intro a ha b hb hab
        subst hab
        have ha' : a ∈ U.map (·.to_) := c.dPlacements_pos_sublist.subset (by simpa [Function.comp_def] using ha)
        obtain ⟨m', hm', rfl⟩ := List.mem_map.mp ha'
        have hb' : m'.to_ ∈ ads.map (·.at_) := by
          simpa [Function.comp_def, addPlacements_map_fst] using hb
        obtain ⟨k, hk, hkf⟩ := isAdd_iff.mp (c.sp.mem_ads.mp hb')
        obtain ⟨_, k', hk1, hk2⟩ := (c.sp.mem_pairs c.ht).mp ⟨m', hm', rfl, rfl⟩
        rw [hk] at hk2
        simp only [Option.some.injEq] at hk2
        subst hk2
        exact hkf (List.mem_of_getElem? hk1)
    · rw [List.mem_map]
      exact ⟨(m.to_, it), List.mem_append_left _ (c.mem_dPlacements.mpr ⟨m, hm, hd, rfl, hit⟩), rfl⟩
    · simpa [storage4, storage2] using hlen
  · -- stored by the storage-only move-in loop, not touched afterwards
    have hd' : m.moveInDom = false := by simpa using hd
    rw [storage7, itemAt_applyWrites_of_not_mem, storage4]
    · apply itemAt_applyWrites_of_mem
      · exact List.Nodup.sublist c.ndWrites_pos_sublist hto
      · rw [c.ndWrites_eq, List.mem_map]
        exact ⟨m, List.mem_filter.mpr ⟨hm, by simp [hd']⟩, rfl⟩
      · simpa [storage2] using hlen
    · simp only [List.map_map, Function.comp_def, List.map_append, List.mem_append, not_or]
      refine ⟨?_, by simpa [Function.comp_def] using hnotadd⟩
      intro h
      rw [List.mem_map] at h
      obtain ⟨⟨p, it'⟩, hp, hpe⟩ := h
      simp only at hpe
      subst hpe
      obtain ⟨m', hm', hd'', hto', _⟩ := c.mem_dPlacements.mp hp
      have := eq_of_mem_of_nodup_map hto hm' hm hto'
      subst this
      simp [hd'] at hd''

/-- the target of an addition holds an item built for the new key -/
theorem Ctx.storage7_added (c : Ctx f t old rem U ads) (bs : Nat) (next : Nat) {a : DiffOpAdd} (ha : a ∈ ads) :
    ∃ it, itemAt (storage7 old rem U ads bs t next) a.at_ = some it ∧
      (a.at_, it) ∈ addPlacements bs t next ads ∧ t[a.at_]? = some it.key := by
  obtain ⟨it, hit⟩ := exists_addPlacement (bs := bs) (to := t) (next := next) ha
  refine ⟨it, ?_, hit, ?_⟩
  · have hto := c.sp.to_nodup c.hf c.ht
    rw [storage7]
    apply itemAt_applyWrites_of_mem
    · rw [List.map_map, List.map_append, List.nodup_append]
      refine ⟨?_, ?_, ?_⟩
      · exact List.Nodup.sublist (by simpa [Function.comp_def] using c.dPlacements_pos_sublist) hto
      · have := c.sp.ads_nodup
        simpa [Function.comp_def, addPlacements_map_fst] using this
      · intro x hx b hb hab
        subst hab
        have hx' : x ∈ U.map (·.to_) := c.dPlacements_pos_sublist.subset (by simpa [Function.comp_def] using hx)
        obtain ⟨m', hm', rfl⟩ := List.mem_map.mp hx'
        have hb' : m'.to_ ∈ ads.map (·.at_) := by
          simpa [Function.comp_def, addPlacements_map_fst] using hb
        obtain ⟨k, hk, hkf⟩ := isAdd_iff.mp (c.sp.mem_ads.mp hb')
        obtain ⟨_, k', hk1, hk2⟩ := (c.sp.mem_pairs c.ht).mp ⟨m', hm', rfl, rfl⟩
        rw [hk] at hk2
        simp only [Option.some.injEq] at hk2
        subst hk2
        exact hkf (List.mem_of_getElem? hk1)
    · rw [List.mem_map]
      exact ⟨(a.at_, it), List.mem_append_right _ hit, rfl⟩
    · have := c.at_lt ha; have := c.length_le; have := c.old_length
      simp [storage4, storage2]; omega
  · have h1 := (mem_addPlacements hit).1
    have h2 := c.at_lt ha
    rw [h1, List.getElem?_eq_getElem h2]
    simp

/-- every index of the new sequence holds the right item before the drain -/
theorem Ctx.storage7_at (c : Ctx f t old rem U ads) (bs next : Nat) {j : Nat} {k : Key} (hk : t[j]? = some k) :
    ∃ it, itemAt (storage7 old rem U ads bs t next) j = some it ∧ it.key = k ∧
      (∀ i : Nat, f[i]? = some k → old[i]? = some it) ∧
      (k ∉ f → (j, it) ∈ addPlacements bs t next ads) := by
  by_cases hkf : k ∈ f
  · obtain ⟨i, hi⟩ := List.mem_iff_getElem?.mp hkf
    have hilt := (List.getElem?_eq_some_iff.mp hi).1
    obtain ⟨it, hit, hitk⟩ := c.old_get hi
    have huniq : ∀ i' : Nat, f[i']? = some k → old[i']? = some it := by
      intro i' hi'
      have := (List.getElem?_inj hilt c.hf).mp (hi.trans hi'.symm)
      subst this; exact hit
    refine ⟨it, ?_, hitk, huniq, fun h => absurd hkf h⟩
    by_cases hij : i = j
    · subst hij
      -- in place
      rw [c.storage7_untouched bs next i, if_neg, hit]
      · rintro (h | h)
        · obtain ⟨k', hk', hkt⟩ := isRem_iff.mp (c.sp.mem_rem.mp h)
          rw [hi] at hk'; simp only [Option.some.injEq] at hk'; subst hk'
          exact hkt (List.mem_of_getElem? hk)
        · obtain ⟨m, hm, hmf⟩ := List.mem_map.mp h
          obtain ⟨hne, k', hk1, hk2⟩ := (c.sp.mem_pairs c.ht).mp ⟨m, hm, rfl, rfl⟩
          rw [hmf, hi] at hk1; simp only [Option.some.injEq] at hk1; subst hk1
          have hjlt := (List.getElem?_eq_some_iff.mp hk).1
          have := (List.getElem?_inj hjlt c.ht).mp (hk.trans hk2.symm)
          exact hne (hmf.trans this)
      · intro h
        obtain ⟨m, hm, hmt⟩ := List.mem_map.mp h
        obtain ⟨hne, k', hk1, hk2⟩ := (c.sp.mem_pairs c.ht).mp ⟨m, hm, rfl, rfl⟩
        rw [hmt, hk] at hk2; simp only [Option.some.injEq] at hk2; subst hk2
        have := (List.getElem?_inj hilt c.hf).mp (hi.trans hk1.symm)
        exact hne (this.symm.trans hmt.symm ▸ rfl)
      · intro h
        obtain ⟨k', hk', hkf'⟩ := isAdd_iff.mp (c.sp.mem_ads.mp h)
        rw [hk] at hk'; simp only [Option.some.injEq] at hk'; subst hk'
        exact hkf' hkf
    · obtain ⟨m, hm, hmf, hmt⟩ := (c.sp.mem_pairs c.ht).mpr ⟨hij, k, hi, hk⟩
      have := c.storage7_moved bs next hm
      rw [hmf, hmt] at this
      rw [this, hit]
  · have hadd : j ∈ ads.map (·.at_) := c.sp.mem_ads.mpr (isAdd_iff.mpr ⟨k, hk, hkf⟩)
    obtain ⟨a, ha, rfl⟩ := List.mem_map.mp hadd
    obtain ⟨it, h1, h2, h3⟩ := c.storage7_added bs next ha
    rw [hk] at h3
    simp only [Option.some.injEq] at h3
    exact ⟨it, h1, h3.symm, fun i hi => absurd (List.mem_of_getElem? hi) hkf, fun _ => h2⟩

/-- nothing is left behind the new sequence -/
theorem Ctx.storage7_beyond (c : Ctx f t old rem U ads) (bs next : Nat) {j : Nat} (hj : t.length ≤ j) :
    itemAt (storage7 old rem U ads bs t next) j = none := by
  rw [c.storage7_untouched bs next j]
  · split
    · rfl
    · rename_i hn
      simp only [not_or] at hn
      cases hf : f[j]? with
      | none =>
        have : old.length ≤ j := by
          rw [c.old_length]
          exact Nat.le_of_not_lt fun h => by simp [List.getElem?_eq_getElem h] at hf
        exact List.getElem?_eq_none this
      | some k =>
        exfalso
        by_cases hkt : k ∈ t
        · obtain ⟨j', hj'⟩ := List.mem_iff_getElem?.mp hkt
          have hlt := (List.getElem?_eq_some_iff.mp hj').1
          obtain ⟨m, hm, hmf, _⟩ := (c.sp.mem_pairs c.ht).mpr ⟨(by omega : j ≠ j'), k, hf, hj'⟩
          exact hn.2 (List.mem_map.mpr ⟨m, hm, hmf⟩)
        · exact hn.1 (c.sp.mem_rem.mpr (isRem_iff.mpr ⟨k, hf, hkt⟩))
  · intro h
    obtain ⟨m, hm, rfl⟩ := List.mem_map.mp h
    have := c.to_lt hm; omega
  · intro h
    obtain ⟨a, ha, rfl⟩ := List.mem_map.mp h
    have := c.at_lt ha; omega

end

/-! ### the drain -/

theorem map_some_somes : ∀ (L : List (Option Item)), (∀ x ∈ L, x.isSome) → (somes L).map some = L
  | [], _ => rfl
  | none :: _, h => by simpa using h none (by simp)
  | some it :: L, h => by
    have := map_some_somes L (fun x hx => h x (by simp [hx]))
    simp [somes] at this ⊢
    exact this

theorem drain_eq_take (S : List (Option Item)) (n : Nat)
    (h1 : ∀ j, j < n → (itemAt S j).isSome) (h2 : ∀ j, n ≤ j → itemAt S j = none) (_hn : n ≤ S.length) :
    S.filter Option.isSome = S.take n ∧ (∀ x ∈ S.take n, x.isSome) := by
  have hall : ∀ x ∈ S.take n, x.isSome := by
    intro x hx
    obtain ⟨j, hj⟩ := List.mem_iff_getElem?.mp hx
    rw [List.getElem?_take] at hj
    split at hj
    · rename_i hlt
      have := h1 j hlt
      simp only [itemAt, hj] at this
      simpa using this
    · simp at hj
  have hnone : ∀ x ∈ S.drop n, ¬ x.isSome = true := by
    intro x hx
    obtain ⟨j, hj⟩ := List.mem_iff_getElem?.mp hx
    rw [List.getElem?_drop] at hj
    have := h2 (n + j) (by omega)
    simp only [itemAt, hj] at this
    cases x <;> simp_all
  refine ⟨?_, hall⟩
  conv => lhs; rw [← List.take_append_drop n S]
  rw [List.filter_append, List.filter_eq_self.mpr hall, List.filter_eq_nil_iff.mpr hnone]
  simp

theorem somes_take_get (S : List (Option Item)) (n j : Nat) (hall : ∀ x ∈ S.take n, x.isSome) (hj : j < n) :
    (somes (S.take n))[j]? = itemAt S j := by
  have h := map_some_somes _ hall
  have : ((somes (S.take n)).map some)[j]? = (S.take n)[j]? := by rw [h]
  rw [List.getElem?_map, List.getElem?_take, if_pos hj] at this
  unfold itemAt
  rw [← this]
  cases (somes (S.take n))[j]? <;> rfl

section
variable {f t : List Key} {old : List Item} {rem : List Nat} {U : List DiffOpMove} {ads : List DiffOpAdd}

/-- **storage after the drain**: exactly one entry per new key, in the new order; entries of keys that were
there before are the old items, the others were built for an addition -/
theorem Ctx.final_storage (c : Ctx f t old rem U ads) (bs next : Nat) :
    let F := (storage7 old rem U ads bs t next).filter Option.isSome
    F = (somes F).map some ∧ (somes F).length = t.length ∧
    ∀ j k, t[j]? = some k → ∃ it, (somes F)[j]? = some it ∧ it.key = k ∧
      (∀ i : Nat, f[i]? = some k → old[i]? = some it) ∧ (k ∉ f → (j, it) ∈ addPlacements bs t next ads) := by
  have hlen : t.length ≤ (storage7 old rem U ads bs t next).length := by
    rw [storage7_length, c.old_length]; exact c.length_le
  obtain ⟨hF, hall⟩ := drain_eq_take (storage7 old rem U ads bs t next) t.length
    (by
      intro j hj
      obtain ⟨it, hit, _⟩ := c.storage7_at bs next (List.getElem?_eq_getElem hj)
      simp [hit])
    (fun j hj => c.storage7_beyond bs next hj) hlen
  simp only
  rw [hF]
  refine ⟨(map_some_somes _ hall).symm, ?_, ?_⟩
  · have := congrArg List.length (map_some_somes _ hall)
    simp only [List.length_map, List.length_take] at this
    omega
  · intro j k hk
    have hj := (List.getElem?_eq_some_iff.mp hk).1
    obtain ⟨it, hit, rest⟩ := c.storage7_at bs next hk
    exact ⟨it, by rw [somes_take_get _ _ _ hall hj, hit], rest⟩

end

end Leptos.Keyed
