import LeptosModel.Proofs.KeyedSpec
/-!
# `rendered_items` after `apply_diff` (C11): pointwise analysis
-/
namespace Leptos.Keyed

theorem eq_of_mem_of_nodup_map {α β : Type} {g : α → β} : ∀ {l : List α}, (l.map g).Nodup →
    ∀ {a b : α}, a ∈ l → b ∈ l → g a = g b → a = b
  | [], _, _, _, ha, _, _ => by simp at ha
  | x :: l, h, a, b, ha, hb, hab => by
    simp only [List.map_cons, List.nodup_cons, List.mem_map, not_exists, not_and] at h
    simp only [List.mem_cons] at ha hb
    rcases ha with rfl | ha <;> rcases hb with rfl | hb
    · rfl
    · exact absurd hab.symm (h.1 b hb)
    · exact absurd hab (h.1 a ha)
    · exact eq_of_mem_of_nodup_map h.2 ha hb hab

theorem itemAt_set_none (S : List (Option Item)) (a i : Nat) :
    itemAt (S.set a none) i = if a = i then none else itemAt S i := by
  unfold itemAt
  rw [List.getElem?_set]
  by_cases h : a = i
  · subst h; by_cases h2 : a < S.length <;> simp [h2]
  · simp [h]

theorem itemAt_applyWrites_none (is : List Nat) : ∀ (S : List (Option Item)) (i : Nat),
    itemAt (applyWrites S (is.map fun a => (a, none))) i = if i ∈ is then none else itemAt S i := by
  induction is with
  | nil => intro S i; simp
  | cons a is ih =>
    intro S i
    simp only [List.map_cons, applyWrites_cons, ih, itemAt_set_none, List.mem_cons]
    by_cases h1 : i ∈ is <;> by_cases h2 : a = i <;> simp [h1, h2, eq_comm]

theorem itemAt_append_replicate_none (S : List (Option Item)) (n i : Nat) :
    itemAt (S ++ List.replicate n none) i = itemAt S i := by
  unfold itemAt
  rw [List.getElem?_append]
  by_cases h : i < S.length
  · simp [h]
  · simp only [h, if_false, List.getElem?_replicate]
    have : S[i]? = none := List.getElem?_eq_none (by omega)
    rw [this]
    split <;> rfl

theorem itemAt_map_some (old : List Item) (i : Nat) : itemAt (old.map some) i = old[i]? := by
  unfold itemAt
  rw [List.getElem?_map]
  cases old[i]? <;> rfl

/-- value at `j` after a list of writes with distinct positions -/
theorem itemAt_applyWrites_of_mem {W : Writes} {S : List (Option Item)} {j : Nat} {v : Option Item}
    (hnd : (W.map (·.1)).Nodup) (hmem : (j, v) ∈ W) (hj : j < S.length) :
    itemAt (applyWrites S W) j = v := by
  unfold itemAt
  rw [applyWrites_getElem?_of_mem W S j v hnd hmem hj]
  rfl

theorem itemAt_applyWrites_of_not_mem {W : Writes} {S : List (Option Item)} {j : Nat}
    (h : j ∉ W.map (·.1)) : itemAt (applyWrites S W) j = itemAt S j := by
  unfold itemAt
  rw [applyWrites_getElem?_of_not_mem W S j h]

/-! ### facts about the command lists -/

theorem filterMap_fst_sublist {g : Nat → Option (Nat × Nat)} (hg : ∀ i p, g i = some p → p.1 = i) :
    ∀ (l : List Nat), ((l.filterMap g).map (·.1)).Sublist l
  | [] => by simp
  | a :: l => by
    simp only [List.filterMap_cons]
    cases h : g a with
    | none => exact (filterMap_fst_sublist hg l).cons a
    | some p =>
      simp only [List.map_cons]
      rw [hg a p h]
      exact (filterMap_fst_sublist hg l).cons_cons a

section
variable {f t : List Key} {rem : List Nat} {U : List DiffOpMove} {ads : List DiffOpAdd}

theorem Spec.mem_rem (sp : Spec f t rem U ads) {i : Nat} : i ∈ rem ↔ isRem f t i = true := by
  rw [sp.rem_eq, List.mem_filter, List.mem_range]
  constructor
  · exact fun h => h.2
  · intro h
    refine ⟨?_, h⟩
    obtain ⟨k, hk, _⟩ := isRem_iff.mp h
    have := (List.getElem?_eq_some_iff.mp hk).1
    omega

theorem Spec.mem_ads (sp : Spec f t rem U ads) {j : Nat} : j ∈ ads.map (·.at_) ↔ isAdd f t j = true := by
  rw [sp.ads_at, List.mem_filter, List.mem_range]
  constructor
  · exact fun h => h.2
  · intro h
    refine ⟨?_, h⟩
    obtain ⟨k, hk, _⟩ := isAdd_iff.mp h
    have := (List.getElem?_eq_some_iff.mp hk).1
    omega

theorem Spec.mem_pairs (sp : Spec f t rem U ads) (ht : t.Nodup) {i j : Nat} :
    (∃ m ∈ U, m.from_ = i ∧ m.to_ = j) ↔ i ≠ j ∧ ∃ k, f[i]? = some k ∧ t[j]? = some k := by
  have : (∃ m ∈ U, m.from_ = i ∧ m.to_ = j) ↔ (i, j) ∈ U.map fun m => (m.from_, m.to_) := by
    simp [List.mem_map]
  rw [this, sp.pairs, List.mem_filterMap]
  constructor
  · rintro ⟨a, _, ha⟩
    obtain ⟨h1, h2, h3⟩ := (mvPair_eq_some ht).mp ha
    simp only at h1 h2 h3
    subst h1
    exact ⟨h2, h3⟩
  · rintro ⟨h1, k, hk1, hk2⟩
    refine ⟨i, ?_, (mvPair_eq_some ht).mpr ⟨rfl, h1, k, hk1, hk2⟩⟩
    rw [List.mem_range]
    have := (List.getElem?_eq_some_iff.mp hk1).1
    omega

theorem Spec.rem_nodup (sp : Spec f t rem U ads) : rem.Nodup := by
  rw [sp.rem_eq]
  exact List.Nodup.sublist List.filter_sublist List.nodup_range

theorem Spec.ads_nodup (sp : Spec f t rem U ads) : (ads.map (·.at_)).Nodup := by
  rw [sp.ads_at]
  exact List.Nodup.sublist List.filter_sublist List.nodup_range

theorem Spec.from_nodup (sp : Spec f t rem U ads) (ht : t.Nodup) : (U.map (·.from_)).Nodup := by
  have h : U.map (·.from_) = (U.map fun m => (m.from_, m.to_)).map (·.1) := by
    simp [List.map_map, Function.comp_def]
  rw [h, sp.pairs]
  exact List.Nodup.sublist
    (filterMap_fst_sublist (fun i p hp => ((mvPair_eq_some ht).mp hp).1) _) List.nodup_range

theorem Spec.to_nodup (sp : Spec f t rem U ads) (hf : f.Nodup) (ht : t.Nodup) : (U.map (·.to_)).Nodup := by
  have hfrom := sp.from_nodup ht
  rw [List.Nodup, List.pairwise_map] at hfrom ⊢
  refine List.Pairwise.imp_of_mem ?_ hfrom
  intro a b ha hb hab heq
  obtain ⟨_, k, hk1, hk2⟩ := (sp.mem_pairs ht).mp ⟨a, ha, rfl, rfl⟩
  obtain ⟨_, k', hk1', hk2'⟩ := (sp.mem_pairs ht).mp ⟨b, hb, rfl, rfl⟩
  rw [heq, hk2'] at hk2
  simp only [Option.some.injEq] at hk2
  subst hk2
  have hlt := (List.getElem?_eq_some_iff.mp hk1).1
  exact hab ((List.getElem?_inj hlt hf).mp (hk1.trans hk1'.symm))

end

theorem length_filter_split {α : Type} (p : α → Bool) : ∀ (l : List α),
    l.length = (l.filter p).length + (l.filter fun a => !p a).length
  | [] => rfl
  | a :: l => by
    have ih := length_filter_split p l
    cases h : p a <;> simp [List.filter_cons, h] <;> omega

/-! ### the context of one `rebuild`: old items keyed `f`, new keys `t` -/

structure Ctx (f t : List Key) (old : List Item) (rem : List Nat) (U : List DiffOpMove)
    (ads : List DiffOpAdd) : Prop where
  hf : f.Nodup
  ht : t.Nodup
  hold : old.map (·.key) = f
  sp : Spec f t rem U ads

section
variable {f t : List Key} {old : List Item} {rem : List Nat} {U : List DiffOpMove} {ads : List DiffOpAdd}

theorem Ctx.old_length (c : Ctx f t old rem U ads) : old.length = f.length := by
  rw [← c.hold, List.length_map]

theorem Ctx.old_get (c : Ctx f t old rem U ads) {i : Nat} {k : Key} (h : f[i]? = some k) :
    ∃ it, old[i]? = some it ∧ it.key = k := by
  rw [← c.hold, List.getElem?_map] at h
  cases ho : old[i]? with
  | none => simp [ho] at h
  | some it => exact ⟨it, rfl, by simpa [ho] using h⟩

/-- a moved index is not a removed index -/
theorem Ctx.from_not_rem (c : Ctx f t old rem U ads) {m : DiffOpMove} (hm : m ∈ U) : m.from_ ∉ rem := by
  intro h
  obtain ⟨k, hk, hkt⟩ := isRem_iff.mp (c.sp.mem_rem.mp h)
  obtain ⟨_, k', hk1, hk2⟩ := (c.sp.mem_pairs c.ht).mp ⟨m, hm, rfl, rfl⟩
  rw [hk] at hk1
  simp only [Option.some.injEq] at hk1
  subst hk1
  exact hkt (List.mem_of_getElem? hk2)

theorem Ctx.from_lt (c : Ctx f t old rem U ads) {m : DiffOpMove} (hm : m ∈ U) : m.from_ < f.length := by
  obtain ⟨_, k', hk1, _⟩ := (c.sp.mem_pairs c.ht).mp ⟨m, hm, rfl, rfl⟩
  exact (List.getElem?_eq_some_iff.mp hk1).1

theorem Ctx.to_lt (c : Ctx f t old rem U ads) {m : DiffOpMove} (hm : m ∈ U) : m.to_ < t.length := by
  obtain ⟨_, k', _, hk2⟩ := (c.sp.mem_pairs c.ht).mp ⟨m, hm, rfl, rfl⟩
  exact (List.getElem?_eq_some_iff.mp hk2).1

theorem Ctx.at_lt (c : Ctx f t old rem U ads) {a : DiffOpAdd} (ha : a ∈ ads) : a.at_ < t.length := by
  obtain ⟨k, hk, _⟩ := isAdd_iff.mp (c.sp.mem_ads.mp (List.mem_map.mpr ⟨a, ha, rfl⟩))
  exact (List.getElem?_eq_some_iff.mp hk).1

/-- `to.len ≤ from.len + #added` -/
theorem Ctx.length_le (c : Ctx f t old rem U ads) : t.length ≤ f.length + ads.length := by
  have h1 : t.length = (t.filter (fun k => f.contains k)).length + (t.filter (fun k => !f.contains k)).length :=
    length_filter_split (fun k => f.contains k) t
  have h2 : (t.filter (fun k => f.contains k)).length ≤ f.length := by
    apply List.Nodup.length_le_of_subset (List.Nodup.sublist List.filter_sublist c.ht)
    intro k hk
    simpa using (List.mem_filter.mp hk).2
  have h3 : (t.filter (fun k => !f.contains k)).length ≤ ads.length := by
    have : ads.length = (ads.map (·.at_)).length := by simp
    rw [this]
    -- every new key sits at an added index; distinct keys sit at distinct indices
    have hsub : ∀ k ∈ t.filter (fun k => !f.contains k), t.idxOf k ∈ ads.map (·.at_) := by
      intro k hk
      obtain ⟨hkt, hkf⟩ := List.mem_filter.mp hk
      rw [c.sp.mem_ads, isAdd_iff]
      refine ⟨k, ?_, by simpa using hkf⟩
      rw [List.getElem?_eq_getElem (List.idxOf_lt_length_of_mem hkt)]
      simp
    have hnd : ((t.filter (fun k => !f.contains k)).map (fun k => t.idxOf k)).Nodup := by
      rw [List.Nodup, List.pairwise_map]
      refine List.Pairwise.imp_of_mem ?_ (List.Nodup.sublist List.filter_sublist c.ht)
      intro a b ha hb hab heq
      apply hab
      have ha' := (List.mem_filter.mp ha).1
      have hb' := (List.mem_filter.mp hb).1
      have h1 := List.getElem_idxOf (List.idxOf_lt_length_of_mem ha')
      have h2 := List.getElem_idxOf (List.idxOf_lt_length_of_mem hb')
      rw [← h1, ← h2]
      simp [heq]
    have := List.Nodup.length_le_of_subset hnd (by
      intro x hx
      obtain ⟨k, hk, rfl⟩ := List.mem_map.mp hx
      exact hsub k hk)
    simpa using this
  omega

end

end Leptos.Keyed
