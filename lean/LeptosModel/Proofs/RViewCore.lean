import LeptosModel.Proofs.RViewPoll
/-!
# Proofs/RViewCore — nested dynamic parts: `either` with arbitrary nesting, dropped effects (zombies)

`GoodP P v t`: the state tree `t` is a state of the view `v` and every render effect `e` in it, with its
body `x` and the currentness predicate `cur` of its node, satisfies `P e x cur`.  For the mounted tree
`P = EffOK K st`; for the trees still held by the tasks of dropped effects `P = EffWf K st` (the effect
exists and has that body) — one set of lemmas serves both.
-/
namespace Leptos.RView
open Leptos.Reactive

abbrev EP := Nat → Expr → (Int → Prop) → Prop

def GoodAttrP (P : EP) : Attr → AState → Prop
  | .stat n v, .stat n' v' => n = n' ∧ v = v'
  | .dyn n x, .dyn e n' x' last => n = n' ∧ x = x' ∧ P e x (fun v => last = v)
  | .cls n x, .cls e n' x' last => n = n' ∧ x = x' ∧ P e x (fun v => last = (v != 0))
  | .sty n x, .sty e n' x' last => n = n' ∧ x = x' ∧ P e x (fun v => last = v)
  | _, _ => False

def GoodAttrsP (P : EP) : List Attr → List AState → Prop
  | [], [] => True
  | a :: as, s :: ss => GoodAttrP P a s ∧ GoodAttrsP P as ss
  | _, _ => False

def GoodP (P : EP) : View → RState → Prop
  | .text s, .text _ s' => s = s'
  | .unit, .unit _ => True
  | .elem tag attrs kid, .elem _ tag' as k => tag = tag' ∧ GoodAttrsP P attrs as ∧ GoodP P kid k
  | .seq a b, .seq sa sb => GoodP P a sa ∧ GoodP P b sb
  | .dynText x, .dynText e x' _ last => x = x' ∧ P e x (fun v => last = v)
  | .either c a b, .either e c' a' b' left inner =>
    c = c' ∧ a = a' ∧ b = b' ∧ P e c (fun v => left = (v != 0)) ∧
      (left = true → GoodP P a inner) ∧ (left = false → GoodP P b inner)
  | .forKeyed sel lists, .forK e sel' lists' ks _ =>
    sel = sel' ∧ lists = lists' ∧ P e sel (fun v => ks.hashed = listAt lists v) ∧ KOK ks
  | _, _ => False

theorem GoodAttrP.map {P Q : EP} : ∀ {a : Attr} {s : AState}, GoodAttrP P a s →
    (∀ e x cur, e ∈ s.effs → P e x cur → Q e x cur) → GoodAttrP Q a s
  | .stat _ _, .stat _ _, h, _ => h
  | .dyn _ _, .dyn e _ _ _, h, hm => ⟨h.1, h.2.1, hm e _ _ (by simp [AState.effs]) h.2.2⟩
  | .cls _ _, .cls e _ _ _, h, hm => ⟨h.1, h.2.1, hm e _ _ (by simp [AState.effs]) h.2.2⟩
  | .sty _ _, .sty e _ _ _, h, hm => ⟨h.1, h.2.1, hm e _ _ (by simp [AState.effs]) h.2.2⟩
  | .stat _ _, .dyn _ _ _ _, h, _ => h.elim
  | .stat _ _, .cls _ _ _ _, h, _ => h.elim
  | .stat _ _, .sty _ _ _ _, h, _ => h.elim
  | .dyn _ _, .stat _ _, h, _ => h.elim
  | .dyn _ _, .cls _ _ _ _, h, _ => h.elim
  | .dyn _ _, .sty _ _ _ _, h, _ => h.elim
  | .cls _ _, .stat _ _, h, _ => h.elim
  | .cls _ _, .dyn _ _ _ _, h, _ => h.elim
  | .cls _ _, .sty _ _ _ _, h, _ => h.elim
  | .sty _ _, .stat _ _, h, _ => h.elim
  | .sty _ _, .dyn _ _ _ _, h, _ => h.elim
  | .sty _ _, .cls _ _ _ _, h, _ => h.elim

theorem GoodAttrsP.map {P Q : EP} : ∀ {as : List Attr} {ss : List AState}, GoodAttrsP P as ss →
    (∀ e x cur, e ∈ ss.flatMap AState.effs → P e x cur → Q e x cur) → GoodAttrsP Q as ss
  | [], [], _, _ => trivial
  | _ :: _, s :: ss, h, hm =>
    ⟨h.1.map (fun e x cur he => hm e x cur (by simp [he])),
     GoodAttrsP.map h.2 (fun e x cur he => hm e x cur (by
       simp only [List.flatMap_cons, List.mem_append]; exact Or.inr he))⟩
  | [], _ :: _, h, _ => h.elim
  | _ :: _, [], h, _ => h.elim

theorem GoodP.map {P Q : EP} : ∀ (v : View) (t : RState), GoodP P v t →
    (∀ e x cur, e ∈ effsOf t → P e x cur → Q e x cur) → GoodP Q v t := by
  intro v
  induction v with
  | text s => intro t h _; cases t <;> simp only [GoodP] at h ⊢ <;> exact h
  | unit => intro t h _; cases t <;> simp only [GoodP] at h ⊢
  | elem tag attrs kid ih =>
    intro t h hm
    cases t <;> simp only [GoodP] at h ⊢
    next n tag' as k =>
      exact ⟨h.1, h.2.1.map (fun e x cur he => hm e x cur (by simp [effsOf, he])),
        ih k h.2.2 (fun e x cur he => hm e x cur (by simp [effsOf, he]))⟩
  | seq a b iha ihb =>
    intro t h hm
    cases t <;> simp only [GoodP] at h ⊢
    next sa sb =>
      exact ⟨iha sa h.1 (fun e x cur he => hm e x cur (by simp [effsOf, he])),
        ihb sb h.2 (fun e x cur he => hm e x cur (by simp [effsOf, he]))⟩
  | dynText x =>
    intro t h hm
    cases t <;> simp only [GoodP] at h ⊢
    next e x' n last => exact ⟨h.1, hm e _ _ (by simp [effsOf]) h.2⟩
  | either c a b iha ihb =>
    intro t h hm
    cases t <;> simp only [GoodP] at h ⊢
    next e c' a' b' left inner =>
      refine ⟨h.1, h.2.1, h.2.2.1, hm e _ _ (by simp [effsOf]) h.2.2.2.1, ?_, ?_⟩
      · intro hl; exact iha inner (h.2.2.2.2.1 hl) (fun e x cur he => hm e x cur (by simp [effsOf, he]))
      · intro hl; exact ihb inner (h.2.2.2.2.2 hl) (fun e x cur he => hm e x cur (by simp [effsOf, he]))
  | «show» c a b _ _ => intro t h _; cases t <;> simp only [GoodP] at h
  | scope sid d kid _ => intro t h _; cases t <;> simp only [GoodP] at h
  | forRows en sel lists row _ => intro t h _; cases t <;> simp only [GoodP] at h
  | eb kid _ => intro t h _; cases t <;> simp only [GoodP] at h
  | res c x => intro t h _; cases t <;> simp only [GoodP] at h
  | forKeyed sel lists =>
    intro t h hm
    cases t <;> simp only [GoodP] at h ⊢
    next e sel' lists' ks texts => exact ⟨h.1, h.2.1, hm e _ _ (by simp [effsOf]) h.2.2.1, h.2.2.2⟩

/-- `Good` is `GoodP` for the predicate `EffOK` -/
theorem goodAttr_iff {K : Nat} {st : St} : ∀ (a : Attr) (s : AState),
    GoodAttr K st a s ↔ GoodAttrP (EffOK K st) a s := by
  intro a s; cases a <;> cases s <;> simp [GoodAttr, GoodAttrP]

theorem goodAttrs_iff {K : Nat} {st : St} : ∀ (as : List Attr) (ss : List AState),
    GoodAttrs K st as ss ↔ GoodAttrsP (EffOK K st) as ss
  | [], [] => by simp [GoodAttrs, GoodAttrsP]
  | [], _ :: _ => by simp [GoodAttrs, GoodAttrsP]
  | _ :: _, [] => by simp [GoodAttrs, GoodAttrsP]
  | a :: as, s :: ss => by simp [GoodAttrs, GoodAttrsP, goodAttr_iff a s, goodAttrs_iff as ss]

theorem good_iff {K : Nat} {st : St} : ∀ (v : View) (t : RState), Good K st v t ↔ GoodP (EffOK K st) v t := by
  intro v
  induction v with
  | text s => intro t; cases t <;> simp [Good, GoodP]
  | unit => intro t; cases t <;> simp [Good, GoodP]
  | elem tag attrs kid ih => intro t; cases t <;> simp [Good, GoodP, goodAttrs_iff, ih]
  | seq a b iha ihb => intro t; cases t <;> simp [Good, GoodP, iha, ihb]
  | dynText x => intro t; cases t <;> simp [Good, GoodP]
  | either c a b iha ihb => intro t; cases t <;> simp [Good, GoodP, iha, ihb]
  | «show» c a b _ _ => intro t; cases t <;> simp [Good, GoodP]
  | scope sid d kid _ => intro t; cases t <;> simp [Good, GoodP]
  | forRows en sel lists row _ => intro t; cases t <;> simp [Good, GoodP]
  | eb kid _ => intro t; cases t <;> simp [Good, GoodP]
  | res c x => intro t; cases t <;> simp [Good, GoodP]
  | forKeyed sel lists => intro t; cases t <;> simp [Good, GoodP]


/-! ## effect predicates -/

/-- `e` is an effect of the program with body `x` -/
def EffWf (K : Nat) (st : St) : EP := fun e x _ => K ≤ e ∧ e < st.prog.length ∧ st.prog[e]? = some (.eff x)

/-- what the lemmas need of a predicate on the effects of a tree -/
structure PredOK (K : Nat) (P : St → EP) : Prop where
  wf : ∀ {st e x cur}, P st e x cur → EffWf K st e x cur
  ext : ∀ {A : Nat → Prop} {st st' e x cur}, RInv K st → Ext K A st st' → ¬ A e → P st e x cur → P st' e x cur
  ofOK : ∀ {st e x cur}, EffOK K st e x cur → P st e x cur

theorem predOK_effOK (K : Nat) : PredOK K (EffOK K) :=
  ⟨fun h => ⟨h.ke, h.lt, h.prog⟩, fun hi hx ha h => h.ext hi hx ha, fun h => h⟩

theorem predOK_effWf (K : Nat) : PredOK K (EffWf K) :=
  ⟨fun h => h,
   fun _ hx _ h => ⟨h.1, by have := hx.len_le; have := h.2.1; omega, by rw [hx.prog_get h.2.1]; exact h.2.2⟩,
   fun h => ⟨h.ke, h.lt, h.prog⟩⟩

/-! ## zombies: the effects they stand for -/

/-- the effects of the tree a zombie holds -/
def optEffs : Option RState → List Nat
  | some h => effsOf h
  | none => []

def zEffs (zs : List (Nat × Option RState)) : List Nat :=
  zs.flatMap fun z => z.1 :: optEffs z.2

theorem zEffs_append (a b : List (Nat × Option RState)) : zEffs (a ++ b) = zEffs a ++ zEffs b := by
  simp [zEffs]

theorem zEffs_attr_held : ∀ (s : AState), zEffs s.held = s.effs
  | .stat _ _ => rfl
  | .dyn _ _ _ _ => rfl
  | .cls _ _ _ _ => rfl
  | .sty _ _ _ _ => rfl

theorem zEffs_attrs_held : ∀ (ss : List AState), zEffs (ss.flatMap AState.held) = ss.flatMap AState.effs
  | [] => rfl
  | s :: ss => by
    simp only [List.flatMap_cons, zEffs_append, zEffs_attr_held, zEffs_attrs_held ss]

theorem zEffs_wrapH (h : Option Nat) : ∀ (l : List (Nat × Option RState)), zEffs (l.map (wrapH h)) = zEffs l
  | [] => rfl
  | z :: l => by
    have ih := zEffs_wrapH h l
    simp only [zEffs, List.map_cons, List.flatMap_cons] at ih ⊢
    rw [ih]
    cases hz : z.2 <;> simp [wrapH, hz, optEffs, effsOf]

/-- dropping a state hands exactly its effects over to the zombies, in the same order -/
theorem zEffs_held : ∀ (t : RState), zEffs t.held = effsOf t := by
  intro t
  induction t with
  | text n s => rfl
  | unit n => rfl
  | elem n tag as kid ih => simp only [RState.held, zEffs_append, zEffs_attrs_held, ih, effsOf]
  | seq a b iha ihb => simp only [RState.held, zEffs_append, iha, ihb, effsOf]
  | dynText e x n last => rfl
  | either e c a b left inner _ => simp [RState.held, zEffs, effsOf, optEffs]
  | «show» e m c a b left inner _ => simp [RState.held, zEffs, effsOf, optEffs]
  | forK e sel lists ks texts => rfl
  | scope m sid isSig inner ih => simp only [RState.held, effsOf, ih]
  | rows e en sel lists row ks items _ => simp [RState.held, zEffs, effsOf, optEffs]
  | rowCons k ix r rest ihr ihrest => simp only [RState.held, zEffs_append, ihr, ihrest, effsOf]
  | rowNil => rfl
  | errb e m s fb kid _ => simp [RState.held, zEffs, effsOf, optEffs]
  | res e c x n last hook =>
    cases last <;> cases hook <;> simp [RState.held, zEffs, effsOf, optEffs]
  | hooked h inner ih => simp only [RState.held, zEffs_wrapH, ih, effsOf]
  | errTok s => rfl

/-! ## dropping effects -/

theorem dispose_get (p : Prog) (s : State) (e : Nat) :
    (Reactive.step p s (.dispose e)).1.nodes.length = s.nodes.length ∧
    (Reactive.step p s (.dispose e)).1.obs = s.obs ∧
    ∀ i, (Reactive.step p s (.dispose e)).1.get i =
      if i = e ∧ (s.get e).kind = .eff ∧ (s.get e).alive = true then
        { s.get i with alive := false, woken := true } else s.get i := by
  simp only [Reactive.step]
  by_cases hk : ((s.get e).kind == Kind.eff && (s.get e).alive) = true
  · simp only [hk, if_true]
    have hk' : (s.get e).kind = .eff ∧ (s.get e).alive = true := by simpa using hk
    have hlt : e < s.nodes.length := State.lt_of_kind_ne s (by rw [hk'.1]; simp)
    have key : ∀ i, ((s.upd e fun n => { n with alive := false, woken := true }).get i) =
        if i = e ∧ (s.get e).kind = .eff ∧ (s.get e).alive = true then
          { s.get i with alive := false, woken := true } else s.get i := by
      intro i
      by_cases hi : i = e
      · subst hi; rw [State.get_upd_same _ _ hlt]; simp [hk'.1, hk'.2]
      · rw [State.get_upd_ne _ _ (Ne.symm hi)]; simp [hi]
    split
    · exact ⟨by simp, rfl, fun i => by simp only [State.emit_get]; exact key i⟩
    · exact ⟨by simp, rfl, key⟩
  · simp only [hk, Bool.false_eq_true, if_false]
    refine ⟨trivial, trivial, fun i => ?_⟩
    have : ¬ ((s.get e).kind = .eff ∧ (s.get e).alive = true) := by simpa using hk
    simp [this]


/-- a node after its effect handle was dropped -/
def killed (n : Node) : Node :=
  if n.kind = .eff ∧ n.alive = true then { n with alive := false, woken := true } else n

theorem killed_killed (n : Node) : killed (killed n) = killed n := by
  unfold killed; split <;> simp_all

@[simp] theorem killed_kind (n : Node) : (killed n).kind = n.kind := by unfold killed; split <;> rfl
@[simp] theorem killed_subs (n : Node) : (killed n).subs = n.subs := by unfold killed; split <;> rfl
@[simp] theorem killed_sources (n : Node) : (killed n).sources = n.sources := by unfold killed; split <;> rfl
@[simp] theorem killed_val (n : Node) : (killed n).val = n.val := by unfold killed; split <;> rfl

theorem killed_alive_eff (n : Node) (h : n.kind = .eff) : (killed n).alive = false := by
  unfold killed
  by_cases ha : n.alive = true
  · simp [h, ha]
  · simpa [h, ha] using ha

/-- the result of dropping a list of effect handles -/
structure Dropped (l : List (Nat × Option RState)) (s s' : St) : Prop where
  prog : s'.prog = s.prog
  tasks : s'.tasks = s.tasks
  root : s'.root = s.root
  rootN : s'.rootN = s.rootN
  disposed : s'.disposed = s.disposed
  zombies : s'.zombies = s.zombies ++ l
  len : s'.rs.nodes.length = s.rs.nodes.length
  obs : s'.rs.obs = s.rs.obs
  get : ∀ i, s'.rs.get i = if i ∈ l.map (·.1) then killed (s.rs.get i) else s.rs.get i

theorem dropEff_get (s : St) (e : Nat) (h : Option RState) (i : Nat) :
    (dropEff s e h).rs.get i = if i = e then killed (s.rs.get i) else s.rs.get i := by
  have g := (dispose_get s.prog s.rs e).2.2 i
  show (Reactive.step s.prog s.rs (.dispose e)).1.get i = _
  rw [g]
  by_cases hi : i = e
  · subst hi; simp only [true_and, if_true]; unfold killed; rfl
  · simp [hi]

theorem dropAll_spec : ∀ (l : List (Nat × Option RState)) (s : St), Dropped l s (dropAll s l)
  | [], s => ⟨rfl, rfl, rfl, rfl, rfl, by simp [dropAll], rfl, rfl, fun i => by simp [dropAll]⟩
  | eh :: rest, s => by
    have ih := dropAll_spec rest (dropEff s eh.1 eh.2)
    have e1 : dropAll s (eh :: rest) = dropAll (dropEff s eh.1 eh.2) rest := by
      simp [dropAll, List.foldl_cons]
    rw [e1]
    have hl : (dropEff s eh.1 eh.2).rs.nodes.length = s.rs.nodes.length :=
      (dispose_get s.prog s.rs eh.1).1
    have ho : (dropEff s eh.1 eh.2).rs.obs = s.rs.obs := (dispose_get s.prog s.rs eh.1).2.1
    refine ⟨ih.prog, ih.tasks, ih.root, ih.rootN, ih.disposed, ?_, ih.len.trans hl, ih.obs.trans ho, ?_⟩
    · rw [ih.zombies]; simp [dropEff]
    · intro i
      rw [ih.get i, dropEff_get]
      by_cases h1 : i ∈ rest.map (·.1)
      · by_cases h2 : i = eh.1
        · subst h2; simp [h1, killed_killed]
        · simp [h1, h2]
      · by_cases h2 : i = eh.1
        · subst h2; simp [h1]
        · simp [h1, h2]

theorem Dropped.rinv {K : Nat} {l : List (Nat × Option RState)} {s s' : St} (h : Dropped l s s')
    (hi : RInv K s) : RInv K s' := by
  have hk : ∀ i, (s'.rs.get i).kind = (s.rs.get i).kind := by
    intro i; rw [h.get i]; split
    · exact killed_kind _
    · rfl
  have hsub : ∀ i, (s'.rs.get i).subs = (s.rs.get i).subs := by
    intro i; rw [h.get i]; split
    · exact killed_subs _
    · rfl
  have hsrc : ∀ i, (s'.rs.get i).sources = (s.rs.get i).sources := by
    intro i; rw [h.get i]; split
    · exact killed_sources _
    · rfl
  refine ⟨by rw [h.prog, h.len]; exact hi.len, by rw [h.obs]; exact hi.obs, by rw [h.prog]; exact hi.kle,
    fun i hlt => by rw [hk]; exact hi.sigs i hlt, by rw [h.prog]; exact hi.sigp, by rw [h.prog]; exact hi.effp,
    fun i h1 h2 => by rw [hk]; exact hi.effk i h1 (by rw [← h.prog]; exact h2),
    fun i h1 x hx => by rw [hsrc] at hx; exact hi.srcs i h1 x hx,
    fun i h1 x hx => by rw [hsub] at hx; rw [h.prog]; exact hi.subs i h1 x hx,
    fun i h1 => by rw [hsub]; exact hi.esubs i h1, fun i => by rw [hsub]; exact hi.nd i,
    fun i e hx => by rw [hsub] at hx; rw [hsrc]; exact hi.exact i e hx⟩

theorem Dropped.ext {K : Nat} {l : List (Nat × Option RState)} {s s' : St} (h : Dropped l s s')
    (hK : ∀ x ∈ l.map (·.1), K ≤ x) : Ext K (fun x => x ∈ l.map (·.1)) s s' := by
  refine ⟨⟨[], by rw [h.prog]; simp⟩, hK, ?_, ?_, fun e he => by rw [h.tasks]; exact he⟩
  · intro i _ hn; rw [h.get i]; simp [hn]
  · intro i x _ _
    rw [h.get i]; split
    · rw [killed_subs]
    · rfl


/-! ## the view a state tree is a state of -/

def viewOfA : AState → Attr
  | .stat n v => .stat n v
  | .dyn _ n x _ => .dyn n x
  | .cls _ n x _ => .cls n x
  | .sty _ n x _ => .sty n x

def viewOf : RState → View
  | .text _ s => .text s
  | .unit _ => .unit
  | .elem _ tag as kid => .elem tag (as.map viewOfA) (viewOf kid)
  | .seq a b => .seq (viewOf a) (viewOf b)
  | .dynText _ x _ _ => .dynText x
  | .either _ c a b _ _ => .either c a b
  | .show _ _ c a b _ _ => .show c a b
  | .forK _ sel lists _ _ => .forKeyed sel lists
  -- (not used for these: no state of a view of the theorems' class has this shape)
  | .scope _ _ _ inner => viewOf inner
  | .rows _ en sel lists row _ _ => .forRows en sel lists row
  | .rowCons _ _ _ _ => .unit
  | .rowNil => .unit
  | .errb _ _ _ _ kid => .eb (viewOf kid)
  | .res _ c x _ _ _ => .res c x
  | .hooked _ inner => viewOf inner
  | .errTok _ => .unit

theorem GoodAttrP.viewOf {P : EP} : ∀ {a : Attr} {s : AState}, GoodAttrP P a s → viewOfA s = a := by
  intro a s h
  cases a <;> cases s <;> simp only [GoodAttrP] at h <;> simp [viewOfA, h]

theorem GoodAttrsP.viewOf {P : EP} : ∀ {as : List Attr} {ss : List AState}, GoodAttrsP P as ss →
    ss.map viewOfA = as
  | [], [], _ => rfl
  | _ :: _, _ :: _, h => by simp only [List.map_cons, h.1.viewOf, GoodAttrsP.viewOf h.2]
  | [], _ :: _, h => h.elim
  | _ :: _, [], h => h.elim

theorem GoodP.viewOf {P : EP} : ∀ (v : View) (t : RState), GoodP P v t → RView.viewOf t = v := by
  intro v
  induction v with
  | text s => intro t h; cases t <;> simp only [GoodP] at h; simp [RView.viewOf, h]
  | unit => intro t h; cases t <;> simp only [GoodP] at h; rfl
  | elem tag attrs kid ih =>
    intro t h; cases t <;> simp only [GoodP] at h
    next n tag' as k => simp only [RView.viewOf, h.1, h.2.1.viewOf, ih k h.2.2]
  | seq a b iha ihb =>
    intro t h; cases t <;> simp only [GoodP] at h
    next sa sb => simp only [RView.viewOf, iha sa h.1, ihb sb h.2]
  | dynText x => intro t h; cases t <;> simp only [GoodP] at h; simp [RView.viewOf, h.1]
  | either c a b _ _ =>
    intro t h; cases t <;> simp only [GoodP] at h
    simp [RView.viewOf, h.1, h.2.1, h.2.2.1]
  | «show» c a b _ _ => intro t h; cases t <;> simp only [GoodP] at h
  | scope sid d kid _ => intro t h; cases t <;> simp only [GoodP] at h
  | forRows en sel lists row _ => intro t h; cases t <;> simp only [GoodP] at h
  | eb kid _ => intro t h; cases t <;> simp only [GoodP] at h
  | res c x => intro t h; cases t <;> simp only [GoodP] at h
  | forKeyed sel lists => intro t h; cases t <;> simp only [GoodP] at h; simp [RView.viewOf, h.1, h.2.1]

/-- states of the views of the theorems' class contain no component-local state -/
theorem GoodP.locals_nil {P : EP} : ∀ (v : View) (t : RState), GoodP P v t → t.locals = [] := by
  intro v
  induction v with
  | text s => intro t h; cases t <;> simp only [GoodP] at h; rfl
  | unit => intro t h; cases t <;> simp only [GoodP] at h; rfl
  | elem tag attrs kid ih =>
    intro t h; cases t <;> simp only [GoodP] at h
    next n tag' as k => simp only [RState.locals, ih k h.2.2]
  | seq a b iha ihb =>
    intro t h; cases t <;> simp only [GoodP] at h
    next sa sb => simp only [RState.locals, iha sa h.1, ihb sb h.2, List.append_nil]
  | dynText x => intro t h; cases t <;> simp only [GoodP] at h; rfl
  | either c a b iha ihb =>
    intro t h; cases t <;> simp only [GoodP] at h
    next e c' a' b' left inner =>
      simp only [RState.locals]
      cases hl : left with
      | true => exact iha inner (h.2.2.2.2.1 hl)
      | false => exact ihb inner (h.2.2.2.2.2 hl)
  | «show» c a b _ _ => intro t h; cases t <;> simp only [GoodP] at h
  | forKeyed sel lists => intro t h; cases t <;> simp only [GoodP] at h; rfl
  | scope sid d kid _ => intro t h; cases t <;> simp only [GoodP] at h
  | forRows en sel lists row _ => intro t h; cases t <;> simp only [GoodP] at h
  | eb kid _ => intro t h; cases t <;> simp only [GoodP] at h
  | res c x => intro t h; cases t <;> simp only [GoodP] at h

/-- not a value that only tasks hold (`hooked`, `errTok`) -/
def RState.plain : RState → Bool
  | .hooked _ _ => false
  | .errTok _ => false
  | _ => true

theorem clearTok_plain (st : St) {t : RState} (h : t.plain = true) : clearTok st t = st := by
  cases t <;> first | rfl | simp [RState.plain] at h

theorem GoodP.plain {P : EP} (v : View) (t : RState) (h : GoodP P v t) : t.plain = true := by
  cases v <;> cases t <;> first | rfl | simp only [GoodP] at h

theorem dropState_eq {st : St} {t : RState} (h : t.locals = []) : dropState st t = dropAll st t.held := by
  simp only [dropState, h, killAll]

theorem replace_eq {v : View} {old : RState} (st : St) (h : old.locals = []) :
    replace v old st = ((build v st).1, dropAll (build v st).2 old.held, (build v st).1.tops + old.tops) := by
  simp only [replace, dropState_eq h]

/-- a tree held by the task of a dropped effect: a state of a well-formed core view whose effects exist -/
structure ZTree (K : Nat) (st : St) (h : RState) : Prop where
  good : GoodP (EffWf K st) (viewOf h) h
  wf : (viewOf h).wf K = true
  core : (viewOf h).core = true

theorem ZTree.of_good {K : Nat} {st : St} {P : St → EP} (hP : PredOK K P) {v : View} {t : RState}
    (h : GoodP (P st) v t) (hw : v.wf K = true) (hc : v.core = true) : ZTree K st t := by
  have hv := GoodP.viewOf v t h
  exact ⟨by rw [hv]; exact GoodP.map v t h (fun _ _ _ _ hp => hP.wf hp), by rw [hv]; exact hw, by rw [hv]; exact hc⟩

theorem ZTree.ext {K : Nat} {A : Nat → Prop} {st st' : St} {h : RState} (hz : ZTree K st h)
    (hx : Ext K A st st') : ZTree K st' h :=
  ⟨GoodP.map _ _ hz.good (fun _ _ _ _ hp =>
    ⟨hp.1, by have := hx.len_le; have := hp.2.1; omega, by rw [hx.prog_get hp.2.1]; exact hp.2.2⟩), hz.wf, hz.core⟩

/-- bounds of the effects of a tree whose effects exist -/
theorem GoodAttrP.bound {K : Nat} {st : St} : ∀ {a : Attr} {s : AState}, GoodAttrP (EffWf K st) a s →
    ∀ e ∈ s.effs, K ≤ e ∧ e < st.prog.length := by
  intro a s h e he
  cases a <;> cases s <;> simp only [GoodAttrP] at h <;> simp only [AState.effs, List.mem_singleton, List.not_mem_nil] at he
  all_goals (subst he; exact ⟨h.2.2.1, h.2.2.2.1⟩)

theorem GoodAttrsP.bound {K : Nat} {st : St} : ∀ {as : List Attr} {ss : List AState},
    GoodAttrsP (EffWf K st) as ss → ∀ e ∈ ss.flatMap AState.effs, K ≤ e ∧ e < st.prog.length
  | [], [], _, e, he => by simp at he
  | _ :: _, s :: ss, h, e, he => by
    simp only [List.flatMap_cons, List.mem_append] at he
    rcases he with he | he
    · exact h.1.bound e he
    · exact GoodAttrsP.bound h.2 e he
  | [], _ :: _, h, _, _ => h.elim
  | _ :: _, [], h, _, _ => h.elim

theorem GoodP.bound {K : Nat} {st : St} : ∀ (v : View) (t : RState), GoodP (EffWf K st) v t →
    ∀ e ∈ effsOf t, K ≤ e ∧ e < st.prog.length := by
  intro v
  induction v with
  | text s => intro t h e he; cases t <;> simp only [GoodP] at h; simp [effsOf] at he
  | unit => intro t h e he; cases t <;> simp only [GoodP] at h; simp [effsOf] at he
  | elem tag attrs kid ih =>
    intro t h e he
    cases t <;> simp only [GoodP] at h
    next n tag' as k =>
      simp only [effsOf, List.mem_append] at he
      rcases he with he | he
      · exact h.2.1.bound e he
      · exact ih k h.2.2 e he
  | seq a b iha ihb =>
    intro t h e he
    cases t <;> simp only [GoodP] at h
    next sa sb =>
      simp only [effsOf, List.mem_append] at he
      rcases he with he | he
      · exact iha sa h.1 e he
      · exact ihb sb h.2 e he
  | dynText x =>
    intro t h e he
    cases t <;> simp only [GoodP] at h
    next e' x' n last =>
      simp only [effsOf, List.mem_singleton] at he; subst he; exact ⟨h.2.1, h.2.2.1⟩
  | either c a b iha ihb =>
    intro t h e he
    cases t <;> simp only [GoodP] at h
    next e' c' a' b' left inner =>
      simp only [effsOf, List.mem_cons] at he
      rcases he with he | he
      · subst he; exact ⟨h.2.2.2.1.1, h.2.2.2.1.2.1⟩
      · cases hl : left with
        | true => exact iha inner (h.2.2.2.2.1 hl) e he
        | false => exact ihb inner (h.2.2.2.2.2 hl) e he
  | «show» c a b _ _ => intro t h _ _; cases t <;> simp only [GoodP] at h
  | scope sid d kid _ => intro t h _ _; cases t <;> simp only [GoodP] at h
  | forRows en sel lists row _ => intro t h _ _; cases t <;> simp only [GoodP] at h
  | eb kid _ => intro t h _ _; cases t <;> simp only [GoodP] at h
  | res c x => intro t h _ _; cases t <;> simp only [GoodP] at h
  | forKeyed sel lists =>
    intro t h e he
    cases t <;> simp only [GoodP] at h
    next e' sel' lists' ks texts =>
      simp only [effsOf, List.mem_singleton] at he; subst he; exact ⟨h.2.2.1.1, h.2.2.1.2.1⟩


theorem attr_held_ok : ∀ (s : AState), ∀ z ∈ s.held, z.1 ∈ s.effs ∧ z.2 = none := by
  intro s z hz
  cases s <;> simp only [AState.held, List.mem_singleton, List.not_mem_nil] at hz
  all_goals (subst hz; simp [AState.effs])

theorem attrs_held_ok : ∀ (ss : List AState), ∀ z ∈ ss.flatMap AState.held,
    z.1 ∈ ss.flatMap AState.effs ∧ z.2 = none
  | [], z, hz => by simp at hz
  | s :: ss, z, hz => by
    simp only [List.flatMap_cons, List.mem_append] at hz ⊢
    rcases hz with hz | hz
    · exact ⟨Or.inl (attr_held_ok s z hz).1, (attr_held_ok s z hz).2⟩
    · exact ⟨Or.inr (attrs_held_ok ss z hz).1, (attrs_held_ok ss z hz).2⟩

/-- what a state hands over when it is dropped: its own effects, each holding a well-formed tree -/
theorem held_ok {K : Nat} {st : St} : ∀ (v : View) (t : RState), GoodP (EffWf K st) v t →
    v.wf K = true → v.core = true →
    ∀ z ∈ t.held, z.1 ∈ effsOf t ∧ ∀ h, z.2 = some h → ZTree K st h := by
  intro v
  induction v with
  | text s => intro t h _ _ z hz; cases t <;> simp only [GoodP] at h; simp [RState.held] at hz
  | unit => intro t h _ _ z hz; cases t <;> simp only [GoodP] at h; simp [RState.held] at hz
  | elem tag attrs kid ih =>
    intro t h hw hc z hz
    cases t <;> simp only [GoodP] at h
    next n tag' as k =>
      simp only [View.wf, Bool.and_eq_true] at hw
      simp only [View.core] at hc
      simp only [RState.held, List.mem_append] at hz
      simp only [effsOf, List.mem_append]
      rcases hz with hz | hz
      · have := attrs_held_ok as z hz
        exact ⟨Or.inl this.1, fun h' hh => by rw [this.2] at hh; cases hh⟩
      · have := ih k h.2.2 hw.2 hc z hz
        exact ⟨Or.inr this.1, this.2⟩
  | seq a b iha ihb =>
    intro t h hw hc z hz
    cases t <;> simp only [GoodP] at h
    next sa sb =>
      simp only [View.wf, Bool.and_eq_true] at hw
      simp only [View.core, Bool.and_eq_true] at hc
      simp only [RState.held, List.mem_append] at hz
      simp only [effsOf, List.mem_append]
      rcases hz with hz | hz
      · have := iha sa h.1 hw.1 hc.1 z hz; exact ⟨Or.inl this.1, this.2⟩
      · have := ihb sb h.2 hw.2 hc.2 z hz; exact ⟨Or.inr this.1, this.2⟩
  | dynText x =>
    intro t h _ _ z hz
    cases t <;> simp only [GoodP] at h
    next e' x' n last =>
      simp only [RState.held, List.mem_singleton] at hz
      subst hz
      exact ⟨by simp [effsOf], fun h' hh => by cases hh⟩
  | either c a b _ _ =>
    intro t h hw hc z hz
    cases t <;> simp only [GoodP] at h
    next e' c' a' b' left inner =>
      simp only [View.wf, Bool.and_eq_true] at hw
      simp only [View.core, Bool.and_eq_true] at hc
      simp only [RState.held, List.mem_singleton] at hz
      subst hz
      refine ⟨by simp [effsOf], fun h' hh => ?_⟩
      simp only [Option.some.injEq] at hh
      subst hh
      cases hl : left with
      | true =>
        have hg := h.2.2.2.2.1 hl
        have hv := GoodP.viewOf a inner hg
        exact ⟨by rw [hv]; exact hg, by rw [hv]; exact hw.1.2, by rw [hv]; exact hc.1⟩
      | false =>
        have hg := h.2.2.2.2.2 hl
        have hv := GoodP.viewOf b inner hg
        exact ⟨by rw [hv]; exact hg, by rw [hv]; exact hw.2, by rw [hv]; exact hc.2⟩
  | «show» c a b _ _ => intro t h _ _ _ _; cases t <;> simp only [GoodP] at h
  | scope sid d kid _ => intro t h _ _ _ _; cases t <;> simp only [GoodP] at h
  | forRows en sel lists row _ => intro t h _ _ _ _; cases t <;> simp only [GoodP] at h
  | eb kid _ => intro t h _ _ _ _; cases t <;> simp only [GoodP] at h
  | res c x => intro t h _ _ _ _; cases t <;> simp only [GoodP] at h
  | forKeyed sel lists =>
    intro t h _ _ z hz
    cases t <;> simp only [GoodP] at h
    next e' sel' lists' ks texts =>
      simp only [RState.held, List.mem_singleton] at hz
      subst hz
      exact ⟨by simp [effsOf], fun h' hh => by cases hh⟩

end Leptos.RView
