import LeptosModel.Proofs.RViewMBase
/-!
# Proofs/RViewSigVal — the reactive operations never change the value stored in a SIGNAL node
(except `setSignal`, and the run of a body with writes): marking, tracking, memo updates, reads, the check
phase and the run of an effect whose body writes nothing.
-/
namespace Leptos.RView
open Leptos.Reactive

/-- every node keeps its kind, every signal node its value -/
structure SG (s s' : State) : Prop where
  len : s'.nodes.length = s.nodes.length
  kind : ∀ i, (s'.get i).kind = (s.get i).kind
  sig : ∀ i, (s.get i).kind = .sig → (s'.get i).val = (s.get i).val

theorem SG.refl (s : State) : SG s s := ⟨rfl, fun _ => rfl, fun _ _ => rfl⟩

theorem SG.trans {a b c : State} (h1 : SG a b) (h2 : SG b c) : SG a c :=
  ⟨h2.len.trans h1.len, fun i => (h2.kind i).trans (h1.kind i),
   fun i hk => (h2.sig i (by rw [h1.kind i]; exact hk)).trans (h1.sig i hk)⟩

/-- an update that keeps the kind, and the value unless the node is no signal -/
theorem SG.upd (s : State) (id : Nat) (g : Node → Node) (hk : ∀ n, (g n).kind = n.kind)
    (hv : (s.get id).kind = .sig → (g (s.get id)).val = (s.get id).val) : SG s (s.upd id g) := by
  refine ⟨by simp [State.upd], fun i => ?_, fun i hs => ?_⟩
  · rw [State.get_upd]; split
    · next h => obtain ⟨rfl, _⟩ := h; exact hk _
    · rfl
  · rw [State.get_upd]; split
    · next h => obtain ⟨rfl, _⟩ := h; exact hv hs
    · rfl

theorem SG.upd_val (s : State) (id : Nat) (g : Node → Node) (hk : ∀ n, (g n).kind = n.kind)
    (hv : ∀ n, (g n).val = n.val) : SG s (s.upd id g) := SG.upd s id g hk (fun _ => hv _)

theorem SG.emit (s : State) (ev : Ev) : SG s (s.emit ev) := ⟨rfl, fun _ => rfl, fun _ _ => rfl⟩
theorem SG.setObs (s : State) (o : Option Nat) : SG s { s with obs := o } := ⟨rfl, fun _ => rfl, fun _ _ => rfl⟩

theorem SG.of_markRel {s s' : State} (h : MarkRel s s') : SG s s' :=
  ⟨h.len, fun i => (Node.core_fields (h.core i)).1, fun i _ => h.val i⟩

theorem SG.foldl {α : Type} (g : State → α → State) (hg : ∀ s a, SG s (g s a)) :
    ∀ (l : List α) (s : State), SG s (l.foldl g s)
  | [], s => SG.refl s
  | a :: l, s => (hg s a).trans (SG.foldl g hg l _)

theorem track_sg (s : State) (src : Nat) : SG s (track s src) := by
  unfold track
  split
  · dsimp only
    refine SG.trans ?_ (SG.upd_val _ _ _ (fun _ => rfl) (fun _ => rfl))
    exact SG.upd_val _ _ _ (fun _ => rfl) (fun _ => rfl)
  · exact SG.refl s

theorem clearSources_sg (s : State) (id : Nat) : SG s (clearSources s id) := by
  unfold clearSources
  dsimp only
  refine SG.trans ?_ (SG.upd_val _ _ _ (fun _ => rfl) (fun _ => rfl))
  apply SG.foldl
  intro s x
  exact SG.upd_val s x _ (fun _ => rfl) (fun _ => rfl)

theorem noteRun_sg (s : State) (id : Nat) : SG s (noteRun s id) := by
  unfold noteRun
  dsimp only
  refine SG.trans ?_ (SG.emit _ _)
  refine SG.trans ?_ (SG.upd_val _ _ _ (fun _ => rfl) (fun _ => rfl))
  split
  · exact SG.refl s
  · exact SG.emit _ _

theorem readNode_sg (u : State → Nat → State × Bool) (hu : ∀ s x, SG s (u s x).1)
    (s : State) (x : Nat) : SG s (readNode u s x).1 := by
  unfold readNode
  have ht := track_sg s x
  generalize track s x = s1 at ht
  dsimp only
  split
  · exact ht
  · exact ht.trans (hu s1 x)
  · exact ht

theorem anySrc_sg (u : State → Nat → State × Bool) (hu : ∀ s x, SG s (u s x).1)
    (recheck : Bool) (self : Nat) : ∀ (l : List Nat) (s : State), SG s (anySrc u recheck self l s).1
  | [], s => SG.refl s
  | x :: rest, s => by
    simp only [anySrc]
    have h1 := hu s x
    generalize u s x = r at h1
    obtain ⟨s1, ch⟩ := r
    simp only at h1 ⊢
    split
    · exact h1
    · exact h1.trans (anySrc_sg u hu recheck self rest s1)

theorem evalE_sg (rdN : State → Nat → State × Int) (wrN : State → Nat → Int → State)
    (hr : ∀ s x, SG s (rdN s x).1) (self : Nat) :
    ∀ (ex : Expr) (s : State), (ex.noWrite = true ∨ ∀ s x v, SG s (wrN s x v)) →
      SG s (evalE rdN wrN self ex s).1
  | .lit _, s, _ => SG.refl s
  | .rd tracked id, s, _ => by
    simp only [evalE]
    split
    · have h1 := hr s id
      generalize rdN s id = r at h1
      obtain ⟨s1, v⟩ := r
      dsimp only at h1 ⊢
      refine h1.trans ?_
      refine SG.trans ?_ (SG.emit _ _)
      exact SG.upd_val _ _ _ (fun _ => rfl) (fun _ => rfl)
    · have h1 := hr { s with obs := none } id
      generalize rdN { s with obs := none } id = r at h1
      obtain ⟨s1, v⟩ := r
      dsimp only at h1 ⊢
      exact ((SG.setObs s none).trans h1).trans (SG.setObs s1 _)
  | .add a b, s, hw => by
    simp only [evalE]
    have ha : a.noWrite = true ∨ ∀ s x v, SG s (wrN s x v) :=
      hw.imp (fun h => by simp only [Expr.noWrite, Bool.and_eq_true] at h; exact h.1) id
    have hb : b.noWrite = true ∨ ∀ s x v, SG s (wrN s x v) :=
      hw.imp (fun h => by simp only [Expr.noWrite, Bool.and_eq_true] at h; exact h.2) id
    exact (evalE_sg rdN wrN hr self a s ha).trans (evalE_sg rdN wrN hr self b _ hb)
  | .mulc _ a, s, hw => by
    simp only [evalE]
    exact evalE_sg rdN wrN hr self a s (hw.imp (fun h => by simpa only [Expr.noWrite] using h) id)
  | .ite c t e, s, hw => by
    simp only [evalE]
    have hc : c.noWrite = true ∨ ∀ s x v, SG s (wrN s x v) :=
      hw.imp (fun h => by simp only [Expr.noWrite, Bool.and_eq_true] at h; exact h.1.1) id
    have ht : t.noWrite = true ∨ ∀ s x v, SG s (wrN s x v) :=
      hw.imp (fun h => by simp only [Expr.noWrite, Bool.and_eq_true] at h; exact h.1.2) id
    have he : e.noWrite = true ∨ ∀ s x v, SG s (wrN s x v) :=
      hw.imp (fun h => by simp only [Expr.noWrite, Bool.and_eq_true] at h; exact h.2) id
    have h1 := evalE_sg rdN wrN hr self c s hc
    split
    · exact h1.trans (evalE_sg rdN wrN hr self t _ ht)
    · exact h1.trans (evalE_sg rdN wrN hr self e _ he)
  | .seq a b, s, hw => by
    simp only [evalE]
    have ha : a.noWrite = true ∨ ∀ s x v, SG s (wrN s x v) :=
      hw.imp (fun h => by simp only [Expr.noWrite, Bool.and_eq_true] at h; exact h.1) id
    have hb : b.noWrite = true ∨ ∀ s x v, SG s (wrN s x v) :=
      hw.imp (fun h => by simp only [Expr.noWrite, Bool.and_eq_true] at h; exact h.2) id
    exact (evalE_sg rdN wrN hr self a s ha).trans (evalE_sg rdN wrN hr self b _ hb)
  | .wr id a, s, hw => by
    simp only [evalE]
    rcases hw with h | h
    · simp [Expr.noWrite] at h
    · exact (evalE_sg rdN wrN hr self a s (.inr h)).trans (h _ id _)

theorem updRun_sg (p : Prog) (f : Nat) (hf : ∀ s x, SG s (upd p f s x).1) (s0 : State) (id : Nat)
    (hk : (s0.get id).kind ≠ .sig) : SG s0 (updRun p f s0 id).1 := by
  unfold updRun
  dsimp only
  have h1 : SG s0 (s0.upd id fun n => { n with val := none }) :=
    SG.upd s0 id _ (fun _ => rfl) (fun h => absurd h hk)
  generalize (s0.upd id fun n => { n with val := none }) = s1 at h1
  have h2 := clearSources_sg s1 id
  generalize clearSources s1 id = s2 at h2
  have h3 := noteRun_sg s2 id
  generalize noteRun s2 id = s3 at h3
  have h4 := evalE_sg (readNode (upd p f)) (fun s _ _ => s)
    (fun s x => readNode_sg _ hf s x) id (bodyOf p id)
    { s3 with obs := some id } (.inr (fun s _ _ => SG.refl s))
  generalize evalE (readNode (upd p f)) (fun s _ _ => s) id (bodyOf p id) { s3 with obs := some id } = r4 at h4
  obtain ⟨s4, v⟩ := r4
  dsimp only at h4 ⊢
  have h04 : SG s0 s4 := (((h1.trans h2).trans h3).trans (SG.setObs s3 _)).trans h4
  have hk4 : (({ s4 with obs := s3.obs } : State).get id).kind ≠ .sig := by
    show (s4.get id).kind ≠ .sig
    rw [h04.kind id]; exact hk
  have h05 : SG s0 { s4 with obs := s3.obs } := h04.trans (SG.setObs s4 _)
  split
  · dsimp only
    refine SG.trans ?_ (SG.foldl _ (fun s' x => ?_) _ _)
    · refine SG.trans ?_ (SG.emit _ _)
      exact h05.trans (SG.upd _ id _ (fun _ => rfl) (fun h => absurd h hk4))
    · split
      · exact SG.refl s'
      · exact SG.of_markRel (markDirty_rel _ s' x)
  · exact h05.trans (SG.upd _ id _ (fun _ => rfl) (fun h => absurd h hk4))

/-- `update_if_necessary` of a memo never touches a signal's value -/
theorem upd_sg (p : Prog) : ∀ (f : Nat) (s : State) (id : Nat), SG s (upd p f s id).1
  | 0, s, _ => SG.refl s
  | f + 1, s, id => by
    rw [upd_succ']
    split
    · exact SG.refl s
    · next hkm =>
      have hkm' : (s.get id).kind = .memo := by simpa using hkm
      have h0 : SG s (updPre p f s id).1 := by
        unfold updPre
        split
        · exact SG.refl s
        · exact SG.refl s
        · exact anySrc_sg _ (upd_sg p f) true id _ s
      generalize updPre p f s id = r at h0
      obtain ⟨s0, need⟩ := r
      dsimp only at h0 ⊢
      have hk0 : (s0.get id).kind ≠ .sig := by rw [h0.kind id, hkm']; simp
      split
      · exact h0.trans (updRun_sg p f (upd_sg p f) s0 id hk0)
      · exact h0.trans (SG.upd s0 id _ (fun _ => rfl) (fun h => absurd h hk0))

/-- the check phase of an effect's task -/
theorem effUpdate_sg (p : Prog) (f : Nat) (s : State) (id : Nat) : SG s (effUpdate p f s id).1 := by
  unfold effUpdate
  split
  · exact SG.upd_val s id _ (fun _ => rfl) (fun _ => rfl)
  · have h1 := anySrc_sg (upd p f) (upd_sg p f) false id (s.get id).sources { s with obs := none }
    generalize anySrc (upd p f) false id (s.get id).sources { s with obs := none } = r at h1
    obtain ⟨s1, any⟩ := r
    dsimp only at h1 ⊢
    refine SG.trans ?_ (SG.upd_val _ id _ (fun _ => rfl) (fun _ => rfl))
    exact ((SG.setObs s none).trans h1).trans (SG.setObs s1 _)

/-- the run of an effect whose body writes nothing -/
theorem runEffBody_sg (p : Prog) (f : Nat) (s : State) (e : Nat) (hnw : (bodyOf p e).noWrite = true)
    (hk : (s.get e).kind ≠ .sig) : SG s (runEffBody p f s e) := by
  unfold runEffBody
  dsimp only
  have h1 := clearSources_sg s e
  generalize clearSources s e = s1 at h1
  have h2 := noteRun_sg s1 e
  generalize noteRun s1 e = s2 at h2
  have h3 := evalE_sg (readNode (upd p f)) (setSignal f)
    (fun s x => readNode_sg _ (upd_sg p f) s x) e (bodyOf p e)
    { s2 with obs := some e } (.inl hnw)
  generalize evalE (readNode (upd p f)) (setSignal f) e (bodyOf p e) { s2 with obs := some e } = r at h3
  obtain ⟨s3, v⟩ := r
  dsimp only at h3 ⊢
  have h03 : SG s { s3 with obs := s.obs } := (((h1.trans h2).trans (SG.setObs s2 _)).trans h3).trans (SG.setObs s3 _)
  refine h03.trans (SG.upd _ e _ (fun _ => rfl) (fun h => ?_))
  exfalso
  have : (s3.get e).kind = .sig := h
  rw [((h1.trans h2).trans (SG.setObs s2 _) |>.trans h3).kind e] at this
  exact hk this

end Leptos.RView
