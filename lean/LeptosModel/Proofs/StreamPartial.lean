import LeptosModel.Proofs.StreamOooRun
/-! Proofs/StreamPartial — the partial documents of an out-of-order program (`PartialDoc`, a `Sem`), and what the
    client's document looks like once the marker comments are ignored (`stripMarkers`). -/
namespace Leptos.Stream

/-- `PartialDoc done ops x`: `x` is the document of `ops` in which every out-of-order future shows either its
    fallback or — only if everything it waits for is in `done` — a partial document of its content; a
    `now_or_never` branch was taken either way (the ready branch only if its future is in `done`). -/
inductive PartialDoc (done : List FId) : List Op → Str → Prop where
  | nil : PartialDoc done [] []
  | sync {s : Str} {os : List Op} {d : Str} : PartialDoc done os d → PartialDoc done (Op.sync s :: os) (s ++ d)
  | nextId {os : List Op} {d : Str} : PartialDoc done os d → PartialDoc done (Op.nextId :: os) d
  | fallback {s : Str} {fut : Fut} {body : List Op} {nonce : Option Str} {os : List Op} {d : Str} :
      PartialDoc done os d →
      PartialDoc done (Op.nextId :: Op.fallback s :: Op.ooo fut true body nonce :: os) (s ++ d)
  | content {s : Str} {fut : Fut} {body : List Op} {nonce : Option Str} {os : List Op} {db d : Str} :
      (∀ x ∈ fut.deps, x ∈ done) → PartialDoc done body db → PartialDoc done os d →
      PartialDoc done (Op.nextId :: Op.fallback s :: Op.ooo fut true body nonce :: os) (db ++ d)
  | iteT {fut : Fut} {t e os : List Op} {dt d : Str} :
      (∀ x ∈ fut.deps, x ∈ done) → PartialDoc done t dt → PartialDoc done os d →
      PartialDoc done (Op.ite fut t e :: os) (dt ++ d)
  | iteE {fut : Fut} {t e os : List Op} {de d : Str} :
      PartialDoc done e de → PartialDoc done os d → PartialDoc done (Op.ite fut t e :: os) (de ++ d)
  | sub {body os : List Op} {db d : Str} :
      PartialDoc done body db → PartialDoc done os d → PartialDoc done (Op.sub body :: os) (db ++ d)

def partialSem : Sem where
  P := PartialDoc
  holeOk := fun done fut body fb v => v = fb ∨ ((∀ x ∈ fut.deps, x ∈ done) ∧ PartialDoc done body v)
  nil := fun _ => PartialDoc.nil
  sync := PartialDoc.sync
  nextId := PartialDoc.nextId
  triple := by
    intro done s fut body nonce os d v hv h
    rcases hv with rfl | ⟨hd, hb⟩
    · exact PartialDoc.fallback h
    · exact PartialDoc.content hd hb h
  iteT := PartialDoc.iteT
  iteE := fun _ he h => PartialDoc.iteE he h
  sub := PartialDoc.sub
  resolve := fun hd hb => Or.inr ⟨hd, hb⟩

/-! ### the document without its marker comments -/

/-- segments with every hole shown as its bare fallback -/
def plain : List Seg → Str
  | [] => []
  | .lit s :: gs => s ++ plain gs
  | .hole _ fb :: gs => fb ++ plain gs

/-- the fallback of the (first) hole with id `J` -/
def holeFb : List Seg → List Nat → Option Str
  | [], _ => none
  | .lit _ :: gs, J => holeFb gs J
  | .hole I fb :: gs, J => if I = J then some fb else holeFb gs J

theorem holeFb_mem {I : List Nat} {fb : Str} : ∀ {D : List Seg}, (holeIds D).Nodup → Seg.hole I fb ∈ D →
    holeFb D I = some fb
  | [], _, h => by cases h
  | .lit s :: gs, hn, h => by
    simp only [List.mem_cons] at h
    rcases h with h | h
    · cases h
    · simpa [holeFb] using holeFb_mem (D := gs) (by simpa [holeIds] using hn) h
  | .hole J fb' :: gs, hn, h => by
    simp only [holeIds, List.nodup_cons] at hn
    simp only [List.mem_cons] at h
    rcases h with h | h
    · cases h; simp [holeFb]
    · have hne : J ≠ I := fun he => hn.1 (he ▸ mem_hole_holeIds h)
      simp [holeFb, hne, holeFb_mem hn.2 h]

theorem fill_holeFb : ∀ (D D' : List Seg), (∀ I fb, Seg.hole I fb ∈ D → holeFb D' I = some fb) →
    fill (holeFb D') D = plain D
  | [], _, _ => rfl
  | .lit s :: gs, D', h => by
    simp [fill, plain, fill_holeFb gs D' (fun I fb hm => h I fb (by simp [hm]))]
  | .hole J fb :: gs, D', h => by
    simp [fill, plain, h J fb (by simp), fill_holeFb gs D' (fun I fb hm => h I fb (by simp [hm]))]

theorem clientS_ok : ∀ (B : List Item), (∀ i ∈ B, i.ok) → ∀ (dom : List Seg), (∀ g ∈ dom, g.ok) →
    ∀ g ∈ clientS dom B, g.ok := by
  intro B
  induction B with
  | nil => intro _ dom hd; exact hd
  | cons i is ih =>
    intro hB dom hd
    have hrest : ∀ j ∈ is, j.ok := fun j hj => hB j (by simp [hj])
    cases i with
    | seg g =>
      simp only [clientS]
      apply ih hrest
      intro g' hg'
      rcases List.mem_append.1 hg' with h | h
      · exact hd g' h
      · simp at h; subst h; exact hB (Item.seg g') (by simp)
    | tpl t =>
      simp only [clientS]
      exact ih hrest _ (substHole_ok (hB (Item.tpl t) (by simp)) hd)

/-- remove every marker comment `<!--s-…>` (fuel: one per marker) -/
def stripMarkersAux : Nat → Str → Str
  | 0, s => s
  | fuel + 1, s =>
    match splitFirst markPre s with
    | none => s
    | some (a, rest) =>
      match splitFirst ['>'] rest with
      | none => s
      | some (_, rest') => a ++ stripMarkersAux fuel rest'

def stripMarkers (s : Str) : Str := stripMarkersAux s.length s

theorem ltPat_markPre : LtPat markPre := ltPat_noGt (r := "!--s-".toList) (by decide) (by decide)

theorem strip_none (fuel : Nat) (s : Str) (h : Free markPre s) : stripMarkersAux fuel s = s := by
  cases fuel with
  | zero => rfl
  | succ n => simp [stripMarkersAux, splitFirst_none.2 h]

/-- one marker `<!--s-` m k `-->` after marker-free text -/
theorem strip_marker (fuel : Nat) (pre m rest : Str) (k : Char) (hk : k ≠ '>') (hm : IdChars m) (hp : Free markPre pre)
    (hc : tagClosed pre = true) :
    stripMarkersAux (fuel + 1) (pre ++ (markPre ++ m ++ k :: "-->".toList) ++ rest) = pre ++ stripMarkersAux fuel rest := by
  have e : pre ++ (markPre ++ m ++ k :: "-->".toList) ++ rest
      = pre ++ markPre ++ ((m ++ [k, '-', '-']) ++ ['>'] ++ rest) := by
    have : "-->".toList = ['-', '-', '>'] := by decide
    rw [this]; simp
  rw [e]
  have h1 := splitFirst_after (y := (m ++ [k, '-', '-']) ++ ['>'] ++ rest) ltPat_markPre hc hp
  have h2 : splitFirst ['>'] ((m ++ [k, '-', '-']) ++ ['>'] ++ rest) = some (m ++ [k, '-', '-'], rest) :=
    splitFirst_head_notin (p0 := '>') (P' := []) rfl (by
      simp only [List.mem_append, List.mem_cons, not_or]
      exact ⟨hm.gt, by simp [Ne.symm hk]⟩)
  simp only [stripMarkersAux, h1, h2]

def holeCount : List Seg → Nat
  | [] => 0
  | .lit _ :: gs => holeCount gs
  | .hole _ _ :: gs => holeCount gs + 1

theorem strip_segs : ∀ (gs : List Seg) (fuel : Nat) (pre : Str), (∀ g ∈ gs, g.ok) → Free markPre pre →
    tagClosed pre = true → 2 * holeCount gs ≤ fuel → stripMarkersAux fuel (pre ++ segsStr gs) = pre ++ plain gs
  | [], fuel, pre, _, hp, _, _ => by simpa [segsStr, plain] using strip_none fuel pre hp
  | .lit s :: gs, fuel, pre, hok, hp, hc, hf => by
    have hs : Clean s := hok (Seg.lit s) (by simp)
    have := strip_segs gs fuel (pre ++ s) (fun g hg => hok g (by simp [hg]))
      (Free.append ltPat_markPre hc hp hs.mark) (tagClosed_append hc hs.closed) (by simpa [holeCount] using hf)
    simpa [segsStr, Seg.str, plain] using this
  | .hole I fb :: gs, fuel, pre, hok, hp, hc, hf => by
    have hfb : Clean fb := hok (Seg.hole I fb) (by simp)
    have hI := idChars_pieces I
    simp only [holeCount] at hf
    obtain ⟨f2, rfl⟩ : ∃ f2, fuel = f2 + 2 := ⟨fuel - 2, by omega⟩
    have e : pre ++ segsStr (Seg.hole I fb :: gs)
        = pre ++ (markPre ++ piecesStr I ++ 'o' :: "-->".toList) ++ (fb ++ (markPre ++ piecesStr I ++ 'c' :: "-->".toList) ++ segsStr gs) := by
      simp [segsStr, Seg.str, opening_form, closing_form]
    rw [e, strip_marker (f2 + 1) pre (piecesStr I) _ 'o' (by decide) hI hp hc]
    have h2 := strip_marker f2 fb (piecesStr I) (segsStr gs) 'c' (by decide) hI hfb.mark hfb.closed
    rw [h2]
    have h3 := strip_segs gs f2 [] (fun g hg => hok g (by simp [hg])) (by intro a b he; simp [markPre] at he)
      rfl (by omega)
    simp only [List.nil_append] at h3
    rw [h3]; simp [plain]

theorem holeCount_le : ∀ (gs : List Seg), 2 * holeCount gs ≤ (segsStr gs).length
  | [] => Nat.le_refl _
  | .lit s :: gs => by
    have := holeCount_le gs
    simp only [holeCount, segsStr, List.length_append]; omega
  | .hole I fb :: gs => by
    have := holeCount_le gs
    have h1 : 2 ≤ (Seg.hole I fb).str.length := by
      simp only [Seg.str, opening_eq, List.length_append, List.length_cons]; omega
    simp only [holeCount, segsStr, List.length_append]; omega

/-- **marker comments ignored, a segment text is its plain reading** -/
theorem stripMarkers_segs (gs : List Seg) (h : ∀ g ∈ gs, g.ok) : stripMarkers (segsStr gs) = plain gs := by
  have := strip_segs gs (segsStr gs).length [] h (by intro a b he; simp [markPre] at he) rfl (holeCount_le gs)
  simpa [stripMarkers] using this

end Leptos.Stream
