import LeptosModel.Proofs.OwnerInv
/-!
# Proofs/OwnerOps — every op line is a composition of core primitives (C08)

`SR a st` : the `Core` of `st` is reachable from the `Core` of `a` by `CorePrim` steps.
This is the single structural pass over the reactive layer and the op interpreter (each lemma
`sr_f` says: if `st` is reachable then so is `f st`); every invariant of the primitives
(Proofs/OwnerInv) therefore holds along every history (`runOps`).
-/
namespace Leptos.Owner

def SR (a st : St) : Prop := CoreReach a.toCore st.toCore

theorem SR.refl (st : St) : SR st st := CoreReach.refl _
theorem SR.trans {a b c : St} (h1 : SR a b) (h2 : SR b c) : SR a c := CoreReach.trans h1 h2
/-- a change outside `Core` -/
theorem SR.react {a st st' : St} (h : SR a st) (h' : st'.toCore = st.toCore) : SR a st' := by
  unfold SR; rw [h']; exact h
theorem SR.prim {a st : St} {f : Core → Core} (h : SR a st) (hp : CorePrim st.toCore (f st.toCore)) :
    SR a (st.lift f) := CoreReach.tail h hp

theorem sr_foldl {α} (f : St → α → St) (hf : ∀ a st x, SR a st → SR a (f st x)) (l : List α) {a st : St}
    (h : SR a st) : SR a (l.foldl f st) := by
  induction l generalizing st with
  | nil => exact h
  | cons x l ih => exact ih (hf a st x h)

/-! ### core composites -/

theorem currentOwner_lt {st : Core} {x : Nat} (h : currentOwner st = some x) : x < st.owners.length := by
  unfold currentOwner at h
  split at h
  · next o _ =>
    split at h
    · next ha =>
      cases h
      unfold Core.aliveB at ha
      split at ha
      · next r hr => exact lt_of_getElem?_some hr
      · cases ha
    · cases h
  · cases h

theorem CR.newOwner {a b : Core} (h : CoreReach a b) : CoreReach a (newOwner b).1 :=
  .tail h (CorePrim.newOwnerUnder b _ false (fun _ h => currentOwner_lt h))

theorem CR.childOwner {a b : Core} (h : CoreReach a b) (o : Nat) : CoreReach a (childOwner b o).1 := by
  unfold Leptos.Owner.childOwner
  split
  · next r hr =>
    exact .tail h (CorePrim.newOwnerUnder b _ _ (fun x h => by cases h; exact lt_of_getElem?_some hr))
  · exact .tail h (CorePrim.newOwnerUnder b _ _ (fun x h => by cases h))

theorem CR.newItem {a b : Core} (h : CoreReach a b) (v : Val) : CoreReach a (newItem b v).1 :=
  .tail h (CorePrim.newItem b v)

theorem CR.newStored {a b : Core} (h : CoreReach a b) (v : Int) : CoreReach a (newStored b v) := by
  unfold Leptos.Owner.newStored
  exact .tail (CR.newItem h _) (CorePrim.addItemHandle _ _)

theorem CR.popCur {a b : Core} (h : CoreReach a b) (n : Nat) : CoreReach a (popCur b n) :=
  .tail h (.setCur _ _)
theorem CR.pushCur {a b : Core} (h : CoreReach a b) (o : Nat) : CoreReach a (pushCur b o) :=
  .tail h (.setCur _ _)
theorem CR.pushAll {a b : Core} (h : CoreReach a b) (os : List Nat) : CoreReach a (pushAll b os) :=
  .tail h (.setCur _ _)
theorem CR.logEv {a b : Core} (h : CoreReach a b) (e : Ev) (he : e.isC = false) : CoreReach a (logEv b e) :=
  .tail h (.logEv _ _ he)
theorem CR.cleanupOwner {a b : Core} (h : CoreReach a b) (o : Nat) : CoreReach a (cleanupOwner b o) :=
  .tail h (.pass _ _ rfl)
theorem CR.dropOwner {a b : Core} (h : CoreReach a b) (o : Nat) : CoreReach a (dropOwner b o) :=
  .tail h (.pass _ _ rfl)
theorem CR.disposeKey {a b : Core} (h : CoreReach a b) (k : Key) : CoreReach a (disposeKey b k) :=
  .tail h (.pass _ _ rfl)

/-! ### reactive layer -/

theorem sr_clearSources {a st : St} (h : SR a st) (me : Sub) (l : List Nat) : SR a (clearSources st me l) :=
  h.react rfl

theorem sr_addSource {a st : St} (h : SR a st) (me : Sub) (s : Nat) : SR a (addSource st me s) := by
  unfold addSource
  split
  · split
    · exact h.react rfl
    · exact h
  · split
    · exact h.react rfl
    · exact h

theorem sr_readSig {a st : St} (h : SR a st) (s : Nat) : SR a (readSig st s) := by
  unfold readSig
  split
  · split
    · simp only
      split
      · split
        · refine sr_addSource ?_ _ _
          exact h.react rfl
        · exact h.react rfl
      · exact h.react rfl
    · exact h
  · exact h

theorem sr_newEffect {a st : St} (h : SR a st) (b : Nat) (k : EffKind) : SR a (newEffect st b k) := by
  unfold newEffect
  exact CR.newItem (CR.newOwner h) _

theorem sr_newMemo {a st : St} (h : SR a st) (b : Nat) : SR a (newMemo st b) := by
  unfold newMemo
  exact CR.newItem (CR.newOwner h) _

theorem sr_newSignal {a st : St} (h : SR a st) (v : Int) : SR a (newSignal st v) := by
  unfold newSignal
  exact CR.newItem h _

theorem sr_newOwnerHandle {a st : St} (h : SR a st) : SR a (newOwnerHandle st) := by
  unfold newOwnerHandle
  exact CR.newOwner h

/-- a token executor that only performs core primitives -/
def SRex (ex : St → BOp → St) : Prop := ∀ (a st : St) (op : BOp), SR a st → SR a (ex st op)

theorem sr_runScoped {ex : St → BOp → St} (hex : SRex ex) {a st : St} (h : SR a st) (e o b : Nat) :
    SR a (runScoped ex st e o b) := by
  unfold runScoped
  simp only
  have key : ∀ (body : List BOp) (S0 : St),
      S0.toCore = logEv (pushCur (cleanupOwner st.toCore o) o) (Ev.r e) →
      ∀ x, CoreReach a.toCore (popCur (logEv (List.foldl ex S0 body).toCore (Ev.s e x)) 1) := by
    intro body S0 h0 x
    refine CR.popCur (CR.logEv (sr_foldl _ hex body (a := a) (st := S0) ?_) _ rfl) 1
    unfold SR; rw [h0]
    exact CR.logEv (CR.pushCur (CR.cleanupOwner h _) _) _ rfl
  exact key _ _ rfl _

theorem sr_pushEager {a st : St} (h : SR a st) (b : Nat) (k : EffKind) : SR a (pushEager st b k) := by
  unfold pushEager
  exact CR.newOwner h

theorem sr_addTask {a st : St} (h : SR a st) (e : Nat) : SR a (addTask st e) := h.react rfl

theorem sr_finishAsync {a st : St} (h : SR a st) (e : Nat) : SR a (finishAsync st e) := by
  unfold finishAsync
  simp only
  split
  · exact CR.newItem h _
  · exact CR.newItem h _

theorem sr_newRender {ex : St → BOp → St} (hex : SRex ex) {a st : St} (h : SR a st) (b : Nat) :
    SR a (newRender ex st b) := by
  unfold newRender
  exact sr_addTask (sr_runScoped hex (sr_pushEager h _ _) _ _ _) _

theorem sr_newAsync {ex : St → BOp → St} (hex : SRex ex) {a st : St} (h : SR a st) (b : Nat) :
    SR a (newAsync ex st b) := by
  unfold newAsync
  have h1 : SR a (setMutDepth (pushEager st b EffKind.async) st.mutDepth) :=
    SR.react (st := pushEager st b EffKind.async) (sr_pushEager h _ _) rfl
  have h2 := sr_runScoped hex h1 st.effs.length (eagerOwner st) b
  refine sr_finishAsync (sr_addTask ?_ _) _
  exact SR.react h2 rfl

theorem sr_releaseOwner {a st : St} (h : SR a st) (o : Nat) : SR a (releaseOwner st o) := by
  unfold releaseOwner
  split
  · exact h
  · exact CR.dropOwner h o

theorem sr_immBegin {a st : St} (h : SR a st) (e : Nat) (er : EffRec) : SR a (immBegin st e er) := h.react rfl

theorem sr_immEnd {a st : St} (h : SR a st) (e rc : Nat) : SR a (immEnd st e rc) := by
  unfold immEnd
  split
  · exact h
  · exact h.react rfl

theorem sr_immRelease {a st : St} (h : SR a st) (e : Nat) : SR a (immRelease st e) := by
  unfold immRelease
  split
  · split
    · exact sr_releaseOwner h _
    · exact h
  · exact h

theorem sr_immUpdate {ex : St → BOp → St} (hex : SRex ex) {a st : St} (h : SR a st) (e : Nat) :
    SR a (immUpdate ex st e) := by
  unfold immUpdate
  split
  · exact h
  · next er _ =>
    split
    · exact h
    · simp only
      refine sr_immRelease (sr_immEnd ?_ _ _) _
      refine SR.react (st := runScoped ex _ e er.owner er.body) (sr_runScoped hex ?_ _ _ _) rfl
      exact (sr_immBegin h e er).react rfl

theorem sr_immScope {a st : St} (h : SR a st) (e : Nat) : SR a (immScope st e) := by
  unfold immScope
  split
  · exact h
  · next er _ =>
    split
    · exact SR.react (st := st.lift (regCleanup · (immTag e) false (some er.owner)))
        (h.prim (CorePrim.regCleanup _ _ _ _)) rfl
    · refine sr_releaseOwner ?_ _
      exact h.react rfl

theorem sr_newImm {ex : St → BOp → St} (hex : SRex ex) {a st : St} (h : SR a st) (b : Nat) (sc mutf : Bool) :
    SR a (newImm ex st b sc mutf) := by
  unfold newImm
  simp only
  split
  · exact sr_immScope (sr_immUpdate hex (sr_pushEager h _ _) _) _
  · exact sr_immUpdate hex (sr_pushEager h _ _) _

theorem sr_markSub {ex : St → BOp → St} (hex : SRex ex) (a st : St) (s : Sub) (h : SR a st) :
    SR a (markSub ex st s) := by
  unfold markSub
  split
  · split
    · split
      · split
        · refine sr_immUpdate hex ?_ _
          exact h.react rfl
        · exact h.react rfl
      · exact h
    · exact h
  · split
    · split
      · exact h.react rfl
      · exact h
    · exact h

theorem sr_setSig {ex : St → BOp → St} (hex : SRex ex) {a st : St} (h : SR a st) (s : Nat) (v : Int) :
    SR a (setSig ex st s v) := by
  unfold setSig
  split
  · split
    · exact sr_foldl _ (sr_markSub hex) _ (h.react rfl)
    · exact h
  · exact h

theorem sr_writeSig {ex : St → BOp → St} (hex : SRex ex) {a st : St} (h : SR a st) (s v : Nat) :
    SR a (writeSig ex st s v) := by
  unfold writeSig
  split
  · exact h
  · split
    · split
      · exact sr_setSig hex h _ _
      · exact h
    · exact h

theorem CR.captureOwner {a b : Core} (h : CoreReach a b) : CoreReach a (captureOwner b).1 := by
  unfold Leptos.Owner.captureOwner
  split
  · exact h
  · exact .tail h (CorePrim.newOwnerUnder b _ _ (fun x h => by cases h))

theorem sr_newTask {a st : St} (h : SR a st) (b : Nat) (cancel : Bool) : SR a (newTask st b cancel) := by
  unfold newTask
  simp only
  split
  · exact CR.captureOwner (.tail h (CorePrim.regCleanup _ _ _ _))
  · exact CR.captureOwner h

theorem sr_runMemo {ex : St → BOp → St} (hex : SRex ex) {a st : St} (h : SR a st) (m : Nat) :
    SR a (runMemo ex st m) := by
  unfold runMemo
  split
  · exact h
  · next mr _ =>
    simp only
    have key : ∀ (body : List BOp) (S0 : St),
        S0.toCore = logEv (pushCur (cleanupOwner st.toCore mr.owner) mr.owner) (Ev.m m) →
        CoreReach a.toCore (popCur (List.foldl ex S0 body).toCore 1) := by
      intro body S0 h0
      refine CR.popCur (sr_foldl _ hex body (a := a) (st := S0) ?_) 1
      unfold SR; rw [h0]
      exact CR.logEv (CR.pushCur (CR.cleanupOwner h _) _) _ rfl
    split
    · exact key _ _ rfl
    · exact key _ _ rfl

theorem sr_getMemo {ex : St → BOp → St} (hex : SRex ex) {a st : St} (h : SR a st) (m : Nat) :
    SR a (getMemo ex st m) := by
  unfold getMemo
  split
  · simp only
    have key : ∀ S1 : St, SR a S1 → ∀ v x, SR a (St.lift { S1 with acc := x } (logEv · (Ev.g m v))) := by
      intro S1 h1 v x
      exact CR.logEv h1 _ rfl
    apply key
    split
    · split
      · exact sr_runMemo hex h _
      · exact h
    · exact h
  · exact h.prim (CorePrim.logEv _ _ rfl)

theorem sr_execWith {ex : St → BOp → St} (hex : SRex ex) : SRex (execWith ex) := by
  intro a st op h
  cases op with
  | read s => exact sr_readSig h s
  | get m =>
    simp only [execWith]
    split
    · exact h
    · exact sr_getMemo hex h _
  | cleanup tag => exact h.prim (CorePrim.regCleanup _ _ _ _)
  | nested tag => exact h.prim (CorePrim.regCleanup _ _ _ _)
  | item v => exact CR.newStored h _
  | sig v => exact sr_newSignal h v
  | provide ty v => exact h.prim (CorePrim.provide _ _ _)
  | use ty => exact h.prim (CorePrim.useCtx _ _)
  | take ty => exact h.prim (CorePrim.takeCtx _ _)
  | update ty d => exact h.prim (CorePrim.updateCtx _ _ _)
  | effect b => exact sr_newEffect h b _
  | memo b => exact sr_newMemo h b
  | newOwner => exact sr_newOwnerHandle h
  | watch b hb imm => exact sr_newEffect h b _
  | render b => exact sr_newRender hex h b
  | async b => exact sr_newAsync hex h b
  | imm b sc mutf => exact sr_newImm hex h b sc mutf
  | write s v => exact sr_writeSig hex h s v
  | spawn b cancel =>
    simp only [execWith]
    split
    · exact h
    · exact sr_newTask h b cancel

theorem sr_exec (f : Nat) : SRex (exec f) := by
  induction f with
  | zero =>
    intro a st op h
    simp only [exec]
    exact sr_execWith (fun _ _ _ h => h) a st op h
  | succ n ih =>
    intro a st op h
    simp only [exec]
    exact sr_execWith ih a st op h

theorem sr_execBOp (a st : St) (op : BOp) (h : SR a st) : SR a (execBOp st op) := sr_exec _ a st op h

theorem sr_execHandlerTok (a st : St) (op : BOp) (h : SR a st) : SR a (execHandlerTok st op) := by
  cases op with
  | read s => exact sr_readSig h s
  | cleanup tag => exact SR.react (st := st.lift (regCleanup · tag false none)) (h.prim (CorePrim.regCleanup _ _ _ _)) rfl
  | item v => exact SR.react (st := st.lift (newStored · v)) (CR.newStored h _) rfl
  | sig v => exact SR.react (st := newSignal st v) (sr_newSignal h v) rfl
  | use ty => exact SR.react (st := st.lift (useCtx · ty)) (h.prim (CorePrim.useCtx _ _)) rfl
  | get m => exact h
  | nested tag => exact h
  | provide ty v => exact h
  | take ty => exact h
  | update ty d => exact h
  | effect b => exact h
  | memo b => exact h
  | newOwner => exact h
  | watch b hb imm => exact h
  | render b => exact h
  | async b => exact h
  | imm b sc mutf => exact h
  | write s v => exact h
  | spawn b cancel => exact h

theorem sr_runHandlerOld {a st : St} (h : SR a st) (e hb : Nat) : SR a (runHandlerOld st e hb) := by
  unfold runHandlerOld
  simp only
  refine SR.react (st := List.foldl execHandlerTok _ _) (sr_foldl _ sr_execHandlerTok _ ?_) rfl
  exact SR.react (st := st.lift (logEv · (Ev.h e))) (h.prim (CorePrim.logEv _ _ rfl)) rfl

theorem sr_runHandlerNew {a st : St} (h : SR a st) (e o hb : Nat) : SR a (runHandlerNew st e o hb) := by
  unfold runHandlerNew
  simp only
  have key : ∀ (body : List BOp) (S0 : St), S0.toCore = logEv (pushCur st.toCore o) (Ev.h e) →
      CoreReach a.toCore (popCur (List.foldl execHandlerTok S0 body).toCore 1) := by
    intro body S0 h0
    refine CR.popCur (sr_foldl _ sr_execHandlerTok body (a := a) (st := S0) ?_) 1
    unfold SR; rw [h0]
    exact CR.logEv (CR.pushCur h _) _ rfl
  exact key _ _ rfl

theorem sr_runHandler {a st : St} (h : SR a st) (e o hb : Nat) : SR a (runHandler st e o hb) := by
  unfold runHandler
  split
  · exact sr_runHandlerOld h e hb
  · exact sr_runHandlerNew h e o hb

theorem sr_endTask {a st : St} (h : SR a st) (e : Nat) : SR a (endTask st e) := by
  unfold endTask
  split
  · next er _ =>
    refine sr_releaseOwner ?_ er.owner
    exact h.react rfl
  · exact h

theorem sr_prepRun {a st : St} (h : SR a st) (e : Nat) (er : EffRec) : SR a (prepRun st e er) := by
  unfold prepRun
  simp only
  split
  · exact h.react rfl
  · exact h.react rfl

theorem sr_afterRun {a st : St} (h : SR a st) (e : Nat) (er : EffRec) : SR a (afterRun st e er) := by
  unfold afterRun
  split
  · split
    · exact sr_runHandler h _ _ _
    · exact h
  · exact h

theorem sr_runEffect {a st : St} (h : SR a st) (e : Nat) (er : EffRec) : SR a (runEffect st e er) := by
  unfold runEffect
  exact sr_afterRun (sr_runScoped sr_execBOp (sr_prepRun h _ _) _ _ _) _ _

theorem sr_runSeg {ex : St → BOp → St} (hex : SRex ex) {a st : St} (h : SR a st) (e : Nat) (er : EffRec) :
    SR a (runSeg ex st e er) := by
  unfold runSeg
  simp only
  have key : ∀ (body : List BOp) (S0 : St),
      S0.toCore = logEv (pushCur st.toCore er.owner) (Ev.r e) →
      ∀ x, CoreReach a.toCore (popCur (logEv (List.foldl ex S0 body).toCore (Ev.s e x)) 1) := by
    intro body S0 h0 x
    refine CR.popCur (CR.logEv (sr_foldl _ hex body (a := a) (st := S0) ?_) _ rfl) 1
    unfold SR; rw [h0]
    exact CR.logEv (CR.pushCur h _) _ rfl
  exact key _ _ rfl _

theorem sr_finishTask {a st : St} (h : SR a st) (e : Nat) : SR a (finishTask st e) := by
  unfold finishTask
  split
  · next er _ =>
    refine sr_releaseOwner ?_ er.owner
    exact h.react rfl
  · exact h

theorem sr_afterSeg {a st : St} (h : SR a st) (e : Nat) : SR a (afterSeg st e) := by
  unfold afterSeg
  split
  · split
    · exact sr_finishTask h _
    · exact h.react rfl
  · exact h

theorem sr_pollTask {a st : St} (h : SR a st) (e : Nat) (er : EffRec) : SR a (pollTask st e er) := by
  unfold pollTask
  split
  · exact sr_finishTask h _
  · refine sr_afterSeg (sr_runSeg sr_execBOp ?_ _ _) _
    exact h.react rfl

theorem sr_pollIter {a st : St} (h : SR a st) (e : Nat) : SR a (pollIter st e) := by
  unfold pollIter
  split
  · exact h
  · next er _ =>
    split
    · exact h
    · split
      · exact sr_pollTask h _ _
      · split
        · exact sr_endTask h _
        · split
          · exact h.react rfl
          · split
            · exact h.react rfl
            · split
              · exact sr_endTask (sr_runEffect h _ _) _
              · exact sr_runEffect h _ _

theorem sr_rewake {a st : St} (h : SR a st) (e : Nat) : SR a (rewake st e) := by
  unfold rewake
  split
  · exact h.react rfl
  · exact h

theorem sr_pollLoop (n : Nat) {a st : St} (h : SR a st) (e : Nat) : SR a (pollLoop n st e) := by
  induction n generalizing st with
  | zero => exact h
  | succ n ih =>
    simp only [pollLoop]
    split
    · exact sr_rewake (ih (sr_pollIter h e)) e
    · exact sr_pollIter h e

theorem sr_pollEff {a st : St} (h : SR a st) (e : Nat) : SR a (pollEff st e) := sr_pollLoop _ h e

theorem sr_pollNth {a st : St} (h : SR a st) (i : Nat) : SR a (pollNth st i) := by
  unfold pollNth
  simp only
  split
  · exact sr_pollEff h _
  · exact h

theorem sr_runIdle (n : Nat) {a st : St} (h : SR a st) : SR a (runIdle n st) := by
  induction n generalizing st with
  | zero => exact h
  | succ n ih =>
    simp only [runIdle]
    split
    · exact h
    · exact ih (sr_pollNth h _)

theorem sr_dropHandle (a st : St) (hd : Nat) (h : SR a st) : SR a (dropHandle st hd) := by
  unfold dropHandle
  split
  · next o _ =>
    refine sr_releaseOwner ?_ o
    exact h.react rfl
  · exact h

theorem sr_runWc {a st : St} (h : SR a st) (o b : Nat) : SR a (runWc st o b) := by
  unfold runWc
  simp only
  have key : ∀ (body : List BOp) (S0 : St), S0.toCore = pushCur (cleanupOwner st.toCore o) o →
      CoreReach a.toCore (popCur (List.foldl execBOp S0 body).toCore 1) := by
    intro body S0 h0
    refine CR.popCur (sr_foldl _ sr_execBOp body (a := a) (st := S0) ?_) 1
    unfold SR; rw [h0]
    exact CR.pushCur (CR.cleanupOwner h _) _
  exact key _ _ rfl

theorem sr_disposeEff {a st st' : St} (h : SR a st) {i : Nat} (hd : disposeEff st i = some st') : SR a st' := by
  unfold disposeEff at hd
  split at hd
  · next er _ =>
    split at hd
    · next k _ => simp only [Option.some.injEq] at hd; subst hd; exact CR.disposeKey h k
    · split at hd
      · cases hd
      · split at hd
        · simp only [Option.some.injEq] at hd; subst hd
          refine sr_releaseOwner ?_ _
          exact h.react rfl
        · simp only [Option.some.injEq] at hd; subst hd; exact h.react rfl
  · cases hd

/-- every op line is a composition of core primitives -/
theorem sr_stepOp {a st st' : St} {op : Op} (h0 : SR a st) (h : stepOp st op = some st') : SR a st' := by
  cases op with
  | body b => simp only [stepOp, Option.some.injEq] at h; subst h; exact h0.react rfl
  | act ins x =>
    simp only [stepOp] at h
    split at h
    · cases h
    · next os _ =>
      cases x with
      | x b =>
        simp only [Option.map_some, Option.some.injEq] at h; subst h
        exact CR.popCur (sr_execBOp a (st.lift (pushAll · os)) b (CR.pushAll h0 os)) _
      | cleanup hh =>
        simp only at h
        split at h
        · next o _ =>
          simp only [Option.map_some, Option.some.injEq] at h; subst h
          exact CR.popCur (CR.cleanupOwner (CR.pushAll h0 os) o) _
        · simp at h
      | wc hh b =>
        simp only at h
        split at h
        · next o _ =>
          simp only [Option.map_some, Option.some.injEq] at h; subst h
          exact CR.popCur (sr_runWc (st := st.lift (pushAll · os)) (CR.pushAll h0 os) o b) _
        · simp at h
  | child hh =>
    simp only [stepOp] at h
    split at h
    · next o _ =>
      simp only [Option.some.injEq] at h; subst h
      exact CR.childOwner h0 _
    · cases h
  | drop hh =>
    simp only [stepOp] at h
    split at h
    · simp only [Option.some.injEq] at h; subst h; exact sr_dropHandle _ _ _ h0
    · cases h
  | dispose k i =>
    cases k with
    | e => simp only [stepOp] at h; exact sr_disposeEff h0 h
    | i =>
      simp only [stepOp] at h
      split at h
      · next key _ => simp only [Option.some.injEq] at h; subst h; exact CR.disposeKey h0 key
      · cases h
    | s =>
      simp only [stepOp] at h
      split at h
      · next key _ => simp only [Option.some.injEq] at h; subst h; exact CR.disposeKey h0 key
      · cases h
    | m =>
      simp only [stepOp] at h
      split at h
      · next key _ => simp only [Option.some.injEq] at h; subst h; exact CR.disposeKey h0 key
      · cases h
  | set s v =>
    simp only [stepOp] at h
    split at h
    · simp only [Option.some.injEq] at h; subst h; exact sr_setSig sr_execBOp h0 _ _
    · cases h
  | pause hh =>
    simp only [stepOp] at h
    split at h
    · simp only [Option.some.injEq] at h; subst h; exact h0.prim (CorePrim.setPaused _ _ _)
    · cases h
  | resume hh =>
    simp only [stepOp] at h
    split at h
    · simp only [Option.some.injEq] at h; subst h; exact h0.prim (CorePrim.setPaused _ _ _)
    · cases h
  | poll i => simp only [stepOp, Option.some.injEq] at h; subst h; exact sr_pollNth h0 _
  | idle => simp only [stepOp, Option.some.injEq] at h; subst h; exact sr_runIdle _ h0
  | «end» =>
    simp only [stepOp, Option.some.injEq] at h; subst h
    exact sr_runIdle _ (sr_foldl _ sr_dropHandle _ h0)

theorem sr_runOps {a st : St} (h : SR a st) (ops : List Op) : SR a (runOps st ops) := by
  induction ops generalizing st with
  | nil => exact h
  | cons op rest ih =>
    simp only [runOps]
    cases hs : stepOp st op with
    | none => simpa using ih h
    | some st' => simpa using ih (sr_stepOp h hs)

/-- the core of every state of every history is reachable from the initial core -/
theorem reach_runOps (ops : List Op) : CoreReach ({} : St).toCore (runOps {} ops).toCore :=
  sr_runOps (SR.refl _) ops

end Leptos.Owner
