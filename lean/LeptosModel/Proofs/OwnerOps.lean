import LeptosModel.Proofs.OwnerInv
/-!
# Proofs/OwnerOps — every op line is a composition of core primitives (C08)

`SR st st'` : the `Core` of `st'` is reachable from the `Core` of `st` by `CorePrim` steps.
This is the single structural pass over the reactive layer and the op interpreter; every invariant
of the primitives (Proofs/OwnerInv) therefore holds along every history (`runOps`).
-/
namespace Leptos.Owner

def SR (st st' : St) : Prop := CoreReach st.toCore st'.toCore

theorem SR.refl (st : St) : SR st st := CoreReach.refl _
theorem SR.trans {a b c : St} (h1 : SR a b) (h2 : SR b c) : SR a c := CoreReach.trans h1 h2
theorem SR.react {st st' : St} (h : st'.toCore = st.toCore) : SR st st' := by
  unfold SR; rw [h]; exact CoreReach.refl _
theorem SR.lift {st : St} {f : Core → Core} (h : CoreReach st.toCore (f st.toCore)) : SR st (st.lift f) := h
theorem SR.prim {st : St} {f : Core → Core} (h : CorePrim st.toCore (f st.toCore)) : SR st (st.lift f) :=
  CoreReach.single h

theorem SR.foldl {α} (f : St → α → St) (h : ∀ st a, SR st (f st a)) (l : List α) (st : St) :
    SR st (l.foldl f st) := by
  induction l generalizing st with
  | nil => exact SR.refl _
  | cons a l ih => exact SR.trans (h st a) (ih _)

/-! ### core composites -/

theorem currentOwner_lt {st : Core} {x : Nat} (h : currentOwner st = some x) : x < st.owners.length := by
  unfold currentOwner at h
  split at h
  · next o _ =>
    split at h
    · next ha =>
      cases h
      unfold Core.aliveB at ha
      split at ha
      · next r hr => exact lt_of_getElem?_some hr
      · cases ha
    · cases h
  · cases h

theorem reach_newOwner (st : Core) : CoreReach st (newOwner st).1 :=
  CoreReach.single (CorePrim.newOwnerUnder st _ false (fun _ h => currentOwner_lt h))

theorem reach_childOwner (st : Core) (o : Nat) : CoreReach st (childOwner st o).1 := by
  unfold childOwner
  split
  · next r hr =>
    exact CoreReach.single (CorePrim.newOwnerUnder st _ _ (fun x h => by cases h; exact lt_of_getElem?_some hr))
  · exact CoreReach.single (CorePrim.newOwnerUnder st _ _ (fun x h => by cases h))

theorem reach_newItem (st : Core) (v : Val) : CoreReach st (newItem st v).1 :=
  CoreReach.single (CorePrim.newItem st v)

theorem reach_newStored (st : Core) (v : Int) : CoreReach st (newStored st v) := by
  unfold newStored
  exact CoreReach.tail (reach_newItem st _) (CorePrim.addItemHandle _ _)

theorem reach_cleanupOwner (st : Core) (o : Nat) : CoreReach st (cleanupOwner st o) :=
  CoreReach.single (CorePrim.pass st _ rfl)
theorem reach_dropOwner (st : Core) (o : Nat) : CoreReach st (dropOwner st o) :=
  CoreReach.single (CorePrim.pass st _ rfl)
theorem reach_disposeKey (st : Core) (k : Key) : CoreReach st (disposeKey st k) :=
  CoreReach.single (CorePrim.pass st _ rfl)
theorem reach_pushCur (st : Core) (o : Nat) : CoreReach st (pushCur st o) :=
  CoreReach.single (CorePrim.setCur st _)
theorem reach_popCur (st : Core) (n : Nat) : CoreReach st (popCur st n) :=
  CoreReach.single (CorePrim.setCur st _)
theorem reach_pushAll (st : Core) (os : List Nat) : CoreReach st (pushAll st os) :=
  CoreReach.single (CorePrim.setCur st _)

/-! ### reactive layer -/

theorem SR.clearSources (st : St) (me : Sub) (l : List Nat) : SR st (clearSources st me l) := SR.react rfl

theorem SR.addSource (st : St) (me : Sub) (s : Nat) : SR st (addSource st me s) := by
  unfold Leptos.Owner.addSource
  split
  · split <;> exact SR.react rfl
  · split <;> exact SR.react rfl

theorem SR.readSig (st : St) (s : Nat) : SR st (readSig st s) := by
  unfold Leptos.Owner.readSig
  split
  · split
    · simp only
      split
      · split
        · refine SR.trans (b := { st with acc := _, sigs := _ }) (SR.react rfl) (SR.addSource _ _ _)
        · exact SR.react rfl
      · exact SR.react rfl
    · exact SR.refl _
  · exact SR.refl _

theorem SR.newEffect (st : St) (b : Nat) : SR st (newEffect st b) := by
  unfold Leptos.Owner.newEffect
  exact CoreReach.trans (reach_newOwner _) (reach_newItem _ _)

theorem SR.newMemo (st : St) (b : Nat) : SR st (newMemo st b) := by
  unfold Leptos.Owner.newMemo
  exact CoreReach.trans (reach_newOwner _) (reach_newItem _ _)

theorem SR.newSignal (st : St) (v : Int) : SR st (newSignal st v) := by
  unfold Leptos.Owner.newSignal
  exact reach_newItem _ _

theorem SR.newOwnerHandle (st : St) : SR st (newOwnerHandle st) := by
  unfold Leptos.Owner.newOwnerHandle
  exact reach_newOwner _

theorem SR.execCreate (st : St) (op : BOp) : SR st (execCreate st op) := by
  cases op with
  | read s => exact SR.readSig st s
  | get m => exact SR.refl _
  | cleanup tag => exact SR.prim (CorePrim.regCleanup _ _ _)
  | nested tag => exact SR.prim (CorePrim.regCleanup _ _ _)
  | item v => exact SR.lift (reach_newStored _ _)
  | sig v => exact SR.newSignal st v
  | provide ty v => exact SR.prim (CorePrim.provide _ _ _)
  | use ty => exact SR.prim (CorePrim.useCtx _ _)
  | take ty => exact SR.prim (CorePrim.takeCtx _ _)
  | effect b => exact SR.newEffect st b
  | memo b => exact SR.newMemo st b
  | newOwner => exact SR.newOwnerHandle st

theorem CR.popCur {a b : Core} (h : CoreReach a b) (n : Nat) : CoreReach a (popCur b n) :=
  .tail h (.setCur _ _)
theorem CR.pushCur {a b : Core} (h : CoreReach a b) (o : Nat) : CoreReach a (pushCur b o) :=
  .tail h (.setCur _ _)
theorem CR.logEv {a b : Core} (h : CoreReach a b) (e : Ev) (he : e.isC = false) : CoreReach a (logEv b e) :=
  .tail h (.logEv _ _ he)
theorem CR.cleanupOwner {a b : Core} (h : CoreReach a b) (o : Nat) : CoreReach a (cleanupOwner b o) :=
  .tail h (.pass _ _ rfl)
theorem CR.dropOwner {a b : Core} (h : CoreReach a b) (o : Nat) : CoreReach a (dropOwner b o) :=
  .tail h (.pass _ _ rfl)

theorem SR.runMemo (st : St) (m : Nat) : SR st (runMemo st m) := by
  unfold Leptos.Owner.runMemo
  split
  · exact SR.refl _
  · next mr _ =>
    simp only
    have key : ∀ (body : List BOp) (S0 : St), S0.toCore = logEv (pushCur (cleanupOwner st.toCore mr.owner) mr.owner) (Ev.m m) →
        CoreReach st.toCore (popCur (List.foldl execCreate S0 body).toCore 1) := by
      intro body S0 h0
      refine CR.popCur (CoreReach.trans ?_ (SR.foldl _ SR.execCreate body S0)) 1
      rw [h0]
      exact CR.logEv (CR.pushCur (CR.cleanupOwner (CoreReach.refl _) _) _) _ rfl
    split
    · exact key _ _ rfl
    · exact key _ _ rfl

theorem SR.getMemo (st : St) (m : Nat) : SR st (getMemo st m) := by
  unfold Leptos.Owner.getMemo
  split
  · simp only
    have key : ∀ S1 : St, SR st S1 → ∀ v a, SR st (St.lift { S1 with acc := a } (logEv · (Ev.g m v))) := by
      intro S1 h1 v a
      exact CR.logEv h1 _ rfl
    apply key
    split
    · split
      · exact SR.runMemo _ _
      · exact SR.refl _
    · exact SR.refl _
  · exact SR.prim (CorePrim.logEv _ _ rfl)

theorem SR.execBOp (st : St) (op : BOp) : SR st (execBOp st op) := by
  unfold Leptos.Owner.execBOp
  split
  · split
    · exact SR.refl _
    · exact SR.getMemo _ _
  · exact SR.execCreate _ _

theorem SR.endTask (st : St) (e : Nat) : SR st (endTask st e) := by
  unfold Leptos.Owner.endTask
  split
  · next er _ => exact CR.dropOwner (CoreReach.refl _) er.owner
  · exact SR.refl _

theorem SR.runEffect (st : St) (e : Nat) (er : EffRec) : SR st (runEffect st e er) := by
  unfold Leptos.Owner.runEffect
  simp only
  have key : ∀ (body : List BOp) (S0 : St), S0.toCore = logEv (pushCur (cleanupOwner st.toCore er.owner) er.owner) (Ev.r e) →
      ∀ x, CoreReach st.toCore (popCur (logEv (List.foldl execBOp S0 body).toCore (Ev.s e x)) 1) := by
    intro body S0 h0 x
    refine CR.popCur (CR.logEv (CoreReach.trans ?_ (SR.foldl _ SR.execBOp body S0)) _ rfl) 1
    rw [h0]
    exact CR.logEv (CR.pushCur (CR.cleanupOwner (CoreReach.refl _) _) _) _ rfl
  exact key _ _ rfl _

theorem SR.pollEff (st : St) (e : Nat) : SR st (pollEff st e) := by
  unfold Leptos.Owner.pollEff
  split
  · exact SR.refl _
  · next er _ =>
    split
    · exact SR.refl _
    · split
      · exact SR.endTask _ _
      · split
        · exact SR.react rfl
        · simp only
          split
          · exact SR.react rfl
          · split
            · exact SR.trans (SR.runEffect _ _ _) (SR.endTask _ _)
            · exact SR.runEffect _ _ _

theorem SR.pollNth (st : St) (i : Nat) : SR st (pollNth st i) := by
  unfold Leptos.Owner.pollNth
  simp only
  split
  · exact SR.pollEff _ _
  · exact SR.refl _

theorem SR.runIdle (n : Nat) (st : St) : SR st (runIdle n st) := by
  induction n generalizing st with
  | zero => exact SR.refl _
  | succ n ih =>
    simp only [Leptos.Owner.runIdle]
    split
    · exact SR.refl _
    · exact SR.trans (SR.pollNth _ _) (ih _)

theorem SR.markSub (st : St) (s : Sub) : SR st (markSub st s) := by
  unfold Leptos.Owner.markSub
  split
  · split
    · split <;> exact SR.react rfl
    · exact SR.refl _
  · split
    · split <;> exact SR.react rfl
    · exact SR.refl _

theorem SR.setSig (st : St) (s : Nat) (v : Int) : SR st (setSig st s v) := by
  unfold Leptos.Owner.setSig
  split
  · split
    · exact SR.trans (SR.react rfl) (SR.foldl _ SR.markSub _ _)
    · exact SR.refl _
  · exact SR.refl _

theorem SR.dropHandle (st : St) (h : Nat) : SR st (dropHandle st h) := by
  unfold Leptos.Owner.dropHandle
  split
  · next o _ => exact CR.dropOwner (CoreReach.refl _) o
  · exact SR.refl _

/-- every op line is a composition of core primitives -/
theorem SR.stepOp {st st' : St} {op : Op} (h : stepOp st op = some st') : SR st st' := by
  cases op with
  | body b => simp only [Leptos.Owner.stepOp, Option.some.injEq] at h; subst h; exact SR.react rfl
  | act ins a =>
    simp only [Leptos.Owner.stepOp] at h
    split at h
    · cases h
    · next os _ =>
      cases a with
      | x b =>
        simp only [Option.map_some, Option.some.injEq] at h; subst h
        exact SR.trans (SR.lift (reach_pushAll _ os))
          (SR.trans (SR.execBOp _ b) (SR.lift (reach_popCur _ _)))
      | cleanup hh =>
        simp only at h
        split at h
        · next o _ =>
          simp only [Option.map_some, Option.some.injEq] at h; subst h
          exact SR.trans (SR.lift (reach_pushAll _ os))
            (SR.trans (SR.lift (reach_cleanupOwner _ o)) (SR.lift (reach_popCur _ _)))
        · simp at h
  | child hh =>
    simp only [Leptos.Owner.stepOp] at h
    split at h
    · next o _ =>
      simp only [Option.some.injEq] at h; subst h
      exact reach_childOwner _ _
    · cases h
  | drop hh =>
    simp only [Leptos.Owner.stepOp] at h
    split at h
    · simp only [Option.some.injEq] at h; subst h; exact SR.dropHandle _ _
    · cases h
  | dispose k i =>
    simp only [Leptos.Owner.stepOp] at h
    split at h
    · next key _ => simp only [Option.some.injEq] at h; subst h; exact SR.lift (reach_disposeKey _ key)
    · cases h
  | set s v =>
    simp only [Leptos.Owner.stepOp] at h
    split at h
    · simp only [Option.some.injEq] at h; subst h; exact SR.setSig _ _ _
    · cases h
  | pause hh =>
    simp only [Leptos.Owner.stepOp] at h
    split at h
    · simp only [Option.some.injEq] at h; subst h; exact SR.prim (CorePrim.setPaused _ _ _)
    · cases h
  | resume hh =>
    simp only [Leptos.Owner.stepOp] at h
    split at h
    · simp only [Option.some.injEq] at h; subst h; exact SR.prim (CorePrim.setPaused _ _ _)
    · cases h
  | poll i => simp only [Leptos.Owner.stepOp, Option.some.injEq] at h; subst h; exact SR.pollNth _ _
  | idle => simp only [Leptos.Owner.stepOp, Option.some.injEq] at h; subst h; exact SR.runIdle _ _
  | «end» =>
    simp only [Leptos.Owner.stepOp, Option.some.injEq] at h; subst h
    exact SR.trans (SR.foldl _ SR.dropHandle _ _) (SR.runIdle _ _)

theorem SR.runOps (st : St) (ops : List Op) : SR st (runOps st ops) := by
  induction ops generalizing st with
  | nil => exact SR.refl _
  | cons op rest ih =>
    simp only [Leptos.Owner.runOps]
    cases h : Leptos.Owner.stepOp st op with
    | none => simpa using ih st
    | some st' => exact SR.trans (SR.stepOp h) (by simpa using ih st')

end Leptos.Owner
