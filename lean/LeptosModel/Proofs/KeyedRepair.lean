import LeptosModel.Proofs.KeyedExact
/-!
# After the repair of F-C11-1, `settledMonotone` holds by construction (C11)

`diff` lets a moved item skip its DOM move only if its new index is above the new index of every item
seen so far that keeps its place (`last_kept`) and no unmoved item lies between its old and its new
index (`next_unmoved`); `group_adjacent_moves` keeps the flags. Hence the items that keep their place
are in the same relative order in both sequences.
-/
namespace Leptos.Keyed

/-! ### `next_unmoved` -/

theorem nextUnmovedFrom_some {f t : List Key} : ∀ {fuel start j : Nat},
    nextUnmovedFrom f t fuel start = some j →
    unmovedAt f t j = true ∧ start ≤ j ∧ ∀ j', start ≤ j' → j' < j → unmovedAt f t j' = false
  | 0, _, _, h => by simp [nextUnmovedFrom] at h
  | fuel + 1, start, j, h => by
    unfold nextUnmovedFrom at h
    split at h
    · rename_i hu
      simp only [Option.some.injEq] at h
      subst h
      exact ⟨hu, Nat.le_refl _, fun j' h1 h2 => absurd h1 (by omega)⟩
    · rename_i hu
      obtain ⟨h1, h2, h3⟩ := nextUnmovedFrom_some h
      refine ⟨h1, by omega, ?_⟩
      intro j' hj1 hj2
      by_cases hs : j' = start
      · subst hs; simpa using hu
      · exact h3 j' (by omega) hj2

theorem nextUnmovedFrom_none {f t : List Key} : ∀ {fuel start : Nat},
    nextUnmovedFrom f t fuel start = none →
    ∀ j', start ≤ j' → j' < start + fuel → unmovedAt f t j' = false
  | 0, _, _ => fun j' h1 h2 => absurd h1 (by omega)
  | fuel + 1, start, h => by
    unfold nextUnmovedFrom at h
    split at h
    · simp at h
    · rename_i hu
      intro j' hj1 hj2
      by_cases hs : j' = start
      · subst hs; simpa using hu
      · exact nextUnmovedFrom_none h j' (by omega) (by omega)

theorem unmovedAt_lt {f t : List Key} {j : Nat} (h : unmovedAt f t j = true) :
    j < min f.length t.length := by
  unfold unmovedAt at h
  cases hf : f[j]? with
  | none => simp [hf] at h
  | some a =>
    cases ht : t[j]? with
    | none => simp [hf, ht] at h
    | some b =>
      have := (List.getElem?_eq_some_iff.mp hf).1
      have := (List.getElem?_eq_some_iff.mp ht).1
      omega

theorem unmovedAt_iff {f t : List Key} {j : Nat} :
    unmovedAt f t j = true ↔ ∃ k, f[j]? = some k ∧ t[j]? = some k := by
  unfold unmovedAt
  cases hf : f[j]? <;> cases ht : t[j]? <;> simp
  exact eq_comm

/-- no unmoved item strictly between `index` and `tix` — what the `next_unmoved` test establishes -/
theorem nextUnmoved_spec {f t : List Key} {index tix : Nat}
    (h : (match nextUnmoved f t index with | some j => decide (j < tix) | none => false) = false) :
    ∀ j, index < j → j < tix → unmovedAt f t j = false := by
  intro j hj1 hj2
  unfold nextUnmoved at h
  cases hn : nextUnmovedFrom f t (min f.length t.length - (index + 1)) (index + 1) with
  | none =>
    by_cases hlt : j < min f.length t.length
    · exact nextUnmovedFrom_none hn j (by omega) (by omega)
    · cases hu : unmovedAt f t j with
      | false => rfl
      | true => exact absurd (unmovedAt_lt hu) hlt
  | some j0 =>
    rw [hn] at h
    simp only [decide_eq_false_iff_not, Nat.not_lt] at h
    obtain ⟨_, _, h3⟩ := nextUnmovedFrom_some hn
    exact h3 j (by omega) (by omega)

/-! ### one iteration of the loop of `diff`: `moved` and `last_kept` -/

theorem diffStep_cases (f t : List Key) (acc : DiffAcc) (n : Nat) :
    ((f[n]? == t[n]?) = true ∧ (diffStep f t acc n).moved = acc.moved ∧
      (diffStep f t acc n).lastKept = some n) ∨
    ((f[n]? == t[n]?) = false ∧ ∃ k tix, f[n]? = some k ∧ t.idxOf? k = some tix ∧ ∃ b : Bool,
      (diffStep f t acc n).moved = acc.moved ++ [{ from_ := n, len := 1, to_ := tix, moveInDom := b }] ∧
      (diffStep f t acc n).lastKept = (if b then acc.lastKept else some tix) ∧
      (b = false → (∀ l, acc.lastKept = some l → ¬ tix < l) ∧
        (match nextUnmoved f t n with | some j => decide (j < tix) | none => false) = false)) ∨
    ((f[n]? == t[n]?) = false ∧ (diffStep f t acc n).moved = acc.moved ∧
      (diffStep f t acc n).lastKept = acc.lastKept) := by
  unfold diffStep
  cases hf : f[n]? with
  | none =>
    by_cases heq : ((none : Option Key) == t[n]?) = true
    · left; simp [heq]
    · have heq' : ((none : Option Key) == t[n]?) = false := by simpa using heq
      right; right
      simp [heq']
  | some k =>
    by_cases heq : (some k == t[n]?) = true
    · left; simp [heq]
    · have heq' : (some k == t[n]?) = false := by simpa using heq
      right
      simp only [heq', Bool.false_eq_true, if_false]
      cases hi : List.idxOf? k t with
      | none => right; simp
      | some tix =>
        left
        refine ⟨trivial, k, tix, rfl, hi, _, rfl, rfl, ?_⟩
        intro hb
        simp only [Bool.or_eq_false_iff] at hb
        refine ⟨?_, hb.2.2⟩
        intro l hl
        have := hb.2.1
        rw [hl] at this
        simpa using this

/-! ### the loop invariant -/

/-- after the loop has run over `0..n`: `last_kept` bounds the new index of every item seen that keeps
its place, and every moved item that keeps its place (flag `false`) is above all earlier items that
keep theirs and jumps over no unmoved item -/
structure Kept (f t : List Key) (acc : DiffAcc) (n : Nat) : Prop where
  from_lt : ∀ m ∈ acc.moved, m.from_ < n
  key : ∀ m ∈ acc.moved, ∃ k, f[m.from_]? = some k ∧ t[m.to_]? = some k
  unmoved_le : ∀ j, j < n → unmovedAt f t j = true → ∃ l, acc.lastKept = some l ∧ j ≤ l
  rest_le : ∀ m ∈ acc.moved, m.moveInDom = false → ∃ l, acc.lastKept = some l ∧ m.to_ ≤ l
  after_unmoved : ∀ m ∈ acc.moved, m.moveInDom = false →
    ∀ j, j < m.from_ → unmovedAt f t j = true → j < m.to_
  after_rest : ∀ m ∈ acc.moved, m.moveInDom = false → ∀ m' ∈ acc.moved, m'.moveInDom = false →
    m'.from_ < m.from_ → m'.to_ < m.to_
  none_between : ∀ m ∈ acc.moved, m.moveInDom = false →
    ∀ j, m.from_ < j → j < m.to_ → unmovedAt f t j = false

theorem kept_init (f t : List Key) : Kept f t {} 0 :=
  ⟨by simp, by simp, by intro j h; omega, by simp, by simp, by simp, by simp⟩

theorem kept_step (f t : List Key) (hf : f.Nodup) (ht : t.Nodup) (acc : DiffAcc) (n : Nat)
    (K : Kept f t acc n) : Kept f t (diffStep f t acc n) (n + 1) := by
  rcases diffStep_cases f t acc n with ⟨heq, hm, hl⟩ | ⟨heq, k, tix, hfk, hidx, b, hm, hl, hb⟩ | ⟨heq, hm, hl⟩
  · -- same item at the same index (or beyond both lists): `last_kept = index`
    refine ⟨?_, ?_, ?_, ?_, ?_, ?_, ?_⟩ <;> (try rw [hm]) <;> (try rw [hl])
    · intro m hmm; have := K.from_lt m hmm; omega
    · exact K.key
    · intro j hj _; exact ⟨n, rfl, by omega⟩
    · intro m hmm hd
      refine ⟨n, rfl, ?_⟩
      -- `n` is unmoved (or beyond `t`), and no unmoved index lies between `m.from_` and `m.to_`
      apply Nat.le_of_not_lt
      intro hlt
      have hfrom := K.from_lt m hmm
      obtain ⟨k, _, hk2⟩ := K.key m hmm
      have hnt : n < t.length := by
        have := (List.getElem?_eq_some_iff.mp hk2).1; omega
      have hun : unmovedAt f t n = true := by
        rw [unmovedAt_iff]
        have htn : t[n]? = some t[n] := List.getElem?_eq_getElem hnt
        rw [htn] at heq
        cases hfn : f[n]? with
        | none => rw [hfn] at heq; simp at heq
        | some a =>
          rw [hfn] at heq
          simp only [beq_iff_eq, Option.some.injEq] at heq
          exact ⟨a, rfl, by rw [htn, heq]⟩
      have := K.none_between m hmm hd n hfrom hlt
      rw [hun] at this
      simp at this
    · exact K.after_unmoved
    · exact K.after_rest
    · exact K.none_between
  · -- a moved item
    have htk : t[tix]? = some k := (idxOf?_eq_some_of_nodup ht).mp hidx
    have hnun : unmovedAt f t n = false := by
      cases hu : unmovedAt f t n with
      | false => rfl
      | true =>
        obtain ⟨a, ha1, ha2⟩ := unmovedAt_iff.mp hu
        rw [ha1, ha2] at heq
        simp at heq
    -- a different `from` index holds a different key, hence has a different `to` index
    have hto_ne : ∀ m ∈ acc.moved, m.to_ ≠ tix := by
      intro m hmm heq'
      obtain ⟨k', hk1, hk2⟩ := K.key m hmm
      rw [heq', htk] at hk2
      simp only [Option.some.injEq] at hk2
      subst hk2
      have := (List.getElem?_inj (List.getElem?_eq_some_iff.mp hk1).1 hf).mp (hk1.trans hfk.symm)
      have := K.from_lt m hmm
      omega
    have hun_ne : ∀ j, unmovedAt f t j = true → j ≠ n → j ≠ tix := by
      intro j hj hjn heq'
      obtain ⟨a, ha1, ha2⟩ := unmovedAt_iff.mp hj
      rw [heq', htk] at ha2
      simp only [Option.some.injEq] at ha2
      subst ha2
      exact hjn ((List.getElem?_inj (List.getElem?_eq_some_iff.mp ha1).1 hf).mp (ha1.trans hfk.symm))
    have hmem : ∀ m, m ∈ acc.moved ++ [{ from_ := n, len := 1, to_ := tix, moveInDom := b }] ↔
        m ∈ acc.moved ∨ m = { from_ := n, len := 1, to_ := tix, moveInDom := b } := by
      intro m; simp
    refine ⟨?_, ?_, ?_, ?_, ?_, ?_, ?_⟩ <;> (try rw [hm]) <;> (try rw [hl])
    · intro m hmm
      rcases (hmem m).mp hmm with h | rfl
      · have := K.from_lt m h; omega
      · simp
    · intro m hmm
      rcases (hmem m).mp hmm with h | rfl
      · exact K.key m h
      · exact ⟨k, hfk, htk⟩
    · intro j hj hu
      have hjn : j ≠ n := by rintro rfl; rw [hnun] at hu; simp at hu
      obtain ⟨l, hl', hjl⟩ := K.unmoved_le j (by omega) hu
      cases b with
      | true => exact ⟨l, by simpa using hl', hjl⟩
      | false =>
        have := (hb rfl).1 l hl'
        exact ⟨tix, by simp, by omega⟩
    · intro m hmm hd
      rcases (hmem m).mp hmm with h | rfl
      · obtain ⟨l, hl', hml⟩ := K.rest_le m h hd
        cases b with
        | true => exact ⟨l, by simpa using hl', hml⟩
        | false =>
          have := (hb rfl).1 l hl'
          exact ⟨tix, by simp, by omega⟩
      · simp only at hd
        subst hd
        exact ⟨tix, by simp, Nat.le_refl _⟩
    · intro m hmm hd j hj hu
      rcases (hmem m).mp hmm with h | rfl
      · exact K.after_unmoved m h hd j hj hu
      · simp only at hd hj ⊢
        subst hd
        obtain ⟨l, hl', hjl⟩ := K.unmoved_le j hj hu
        have h1 := (hb rfl).1 l hl'
        have h2 := hun_ne j hu (by omega)
        omega
    · intro m hmm hd m' hmm' hd' hlt
      rcases (hmem m).mp hmm with h | rfl
      · rcases (hmem m').mp hmm' with h' | rfl
        · exact K.after_rest m h hd m' h' hd' hlt
        · simp only at hlt
          have := K.from_lt m h; omega
      · simp only at hd hlt ⊢
        subst hd
        rcases (hmem m').mp hmm' with h' | rfl
        · obtain ⟨l, hl', hml⟩ := K.rest_le m' h' hd'
          have h1 := (hb rfl).1 l hl'
          have h2 := hto_ne m' h'
          omega
        · simp only at hlt; omega
    · intro m hmm hd j hj1 hj2
      rcases (hmem m).mp hmm with h | rfl
      · exact K.none_between m h hd j hj1 hj2
      · simp only at hd hj1 hj2
        subst hd
        exact nextUnmoved_spec (hb rfl).2 j hj1 hj2
  · -- nothing is pushed to `moved`
    have hnun : unmovedAt f t n = false := by
      cases hu : unmovedAt f t n with
      | false => rfl
      | true =>
        obtain ⟨a, ha1, ha2⟩ := unmovedAt_iff.mp hu
        rw [ha1, ha2] at heq
        simp at heq
    refine ⟨?_, ?_, ?_, ?_, ?_, ?_, ?_⟩ <;> (try rw [hm]) <;> (try rw [hl])
    · intro m hmm; have := K.from_lt m hmm; omega
    · exact K.key
    · intro j hj hu
      have hjn : j ≠ n := by rintro rfl; rw [hnun] at hu; simp at hu
      exact K.unmoved_le j (by omega) hu
    · exact K.rest_le
    · exact K.after_unmoved
    · exact K.after_rest
    · exact K.none_between

theorem kept_fold (f t : List Key) (hf : f.Nodup) (ht : t.Nodup) (n : Nat) :
    Kept f t ((List.range n).foldl (diffStep f t) {}) n := by
  induction n with
  | zero => exact kept_init f t
  | succ n ih =>
    rw [List.range_succ, List.foldl_append]
    exact kept_step f t hf ht _ n ih

/-! ### from the invariant to `settledMonotone` -/

/-- after the repair, `unpack_moves (diff from to)` are exactly the moves the loop pushed, flags included -/
theorem unpack_diff_raw (f t : List Key) (hf : f ≠ []) (ht : t ≠ []) :
    (unpackMoves (diff f t)).1 = ((List.range (max f.length t.length)).foldl (diffStep f t) {}).moved := by
  rw [unpack_diff]
  have h1 : f.isEmpty = false := by cases f <;> simp_all
  have h2 : t.isEmpty = false := by cases t <;> simp_all
  simp only [diff, h1, h2, Bool.false_and, Bool.false_eq_true, if_false]
  exact group_singles _ (diffFold f t _).2.2.2

/-- a list whose members are the members of `t` that satisfy `p`, in the order of `t`, is `t.filter p` -/
theorem eq_filter_of_sorted (p : Key → Bool) : ∀ (t l : List Key), t.Nodup →
    (∀ a, a ∈ l ↔ a ∈ t ∧ p a = true) → l.Pairwise (fun a b => t.idxOf a < t.idxOf b) →
    l = t.filter p
  | [], l, _, hmem, _ => by
    simp only [List.filter_nil]
    exact List.eq_nil_iff_forall_not_mem.mpr (fun a ha => by simpa using (hmem a).mp ha)
  | x :: t, l, hnd, hmem, hpw => by
    simp only [List.nodup_cons] at hnd
    have hidx : ∀ a, a ≠ x → (x :: t).idxOf a = t.idxOf a + 1 := by
      intro a ha
      rw [List.idxOf_cons]
      have : (x == a) = false := by simpa using Ne.symm ha
      simp [this]
    by_cases hpx : p x = true
    · have hxl : x ∈ l := (hmem x).mpr ⟨by simp, hpx⟩
      cases l with
      | nil => simp at hxl
      | cons h l' =>
        simp only [List.pairwise_cons] at hpw
        have hhx : h = x := by
          apply Classical.byContradiction
          intro hne
          have hxl' : x ∈ l' := by
            simp only [List.mem_cons] at hxl
            rcases hxl with rfl | hxl
            · exact absurd rfl hne
            · exact hxl
          have := hpw.1 x hxl'
          rw [List.idxOf_cons_self] at this
          omega
        subst hhx
        have hne' : ∀ a ∈ l', a ≠ h := by
          intro a ha heq
          subst heq
          have := hpw.1 a ha
          omega
        rw [List.filter_cons_of_pos hpx]
        congr 1
        apply eq_filter_of_sorted p t l' hnd.2
        · intro a
          constructor
          · intro ha
            have := (hmem a).mp (by simp [ha])
            simp only [List.mem_cons] at this
            rcases this with ⟨rfl | h1, h2⟩
            · exact absurd rfl (hne' a ha)
            · exact ⟨h1, h2⟩
          · rintro ⟨h1, h2⟩
            have := (hmem a).mpr ⟨by simp [h1], h2⟩
            simp only [List.mem_cons] at this
            rcases this with rfl | this
            · exact absurd h1 hnd.1
            · exact this
        · refine List.Pairwise.imp_of_mem ?_ hpw.2
          intro a b ha hb hab
          rw [hidx a (hne' a ha), hidx b (hne' b hb)] at hab
          omega
    · have hxl : x ∉ l := fun h => hpx ((hmem x).mp h).2
      rw [List.filter_cons_of_neg hpx]
      apply eq_filter_of_sorted p t l hnd.2
      · intro a
        constructor
        · intro ha
          have := (hmem a).mp ha
          simp only [List.mem_cons] at this
          rcases this with ⟨rfl | h1, h2⟩
          · exact absurd ha hxl
          · exact ⟨h1, h2⟩
        · rintro ⟨h1, h2⟩
          exact (hmem a).mpr ⟨by simp [h1], h2⟩
      · refine List.Pairwise.imp_of_mem ?_ hpw
        intro a b ha hb hab
        have hax : a ≠ x := by rintro rfl; exact hxl ha
        have hbx : b ≠ x := by rintro rfl; exact hxl hb
        rw [hidx a hax, hidx b hbx] at hab
        omega

theorem idxOf_eq_of_getElem? {t : List Key} (ht : t.Nodup) {j : Nat} {a : Key} (h : t[j]? = some a) :
    t.idxOf a = j := by
  have hmem := List.mem_of_getElem? h
  have hlt := List.idxOf_lt_length_of_mem hmem
  have h1 : t[t.idxOf a]? = some a := by
    rw [List.getElem?_eq_getElem hlt, List.getElem_idxOf hlt]
  exact (List.getElem?_inj hlt ht).mp (h1.trans h.symm)

/-- **the repaired `diff` satisfies `settledMonotone` for all duplicate-free sequences** -/
theorem settledMonotone_diff (f t : List Key) (hf : f.Nodup) (ht : t.Nodup) :
    settledMonotone diff f t = true := by
  unfold settledMonotone
  simp only [beq_iff_eq]
  by_cases hfe : f = []
  · subst hfe
    simp [settled]
  by_cases hte : t = []
  · subst hte
    simp [settled]
  obtain ⟨_, sp, _, _⟩ := spec_of_diff f t hfe hte
  have hraw := unpack_diff_raw f t hfe hte
  have K := kept_fold f t hf ht (max f.length t.length)
  have hU : ∀ m, m ∈ (unpackMoves (diff f t)).1 →
      m ∈ ((List.range (max f.length t.length)).foldl (diffStep f t) {}).moved := fun m h => hraw ▸ h
  -- `settled` in terms of the unpacked moves
  have c : Ctx f t (f.map fun k => ({ key := k, nodes := [] } : Item)) (diff f t).removed
      (unpackMoves (diff f t)).1 (unpackMoves (diff f t)).2 :=
    ⟨hf, ht, by simp [List.map_map, Function.comp_def], sp⟩
  have hsett : ∀ k, settled diff f t k = true ↔
      k ∈ f ∧ k ∈ t ∧ ¬ ∃ m ∈ (unpackMoves (diff f t)).1, m.moveInDom = true ∧ f[m.from_]? = some k :=
    fun k => c.settled_iff rfl
  apply eq_filter_of_sorted (settled diff f t) t _ ht
  · intro a
    rw [List.mem_filter]
    constructor
    · rintro ⟨_, h2⟩; exact ⟨((hsett a).mp h2).2.1, h2⟩
    · rintro ⟨_, h2⟩; exact ⟨((hsett a).mp h2).1, h2⟩
  · rw [List.pairwise_filter, List.pairwise_iff_getElem]
    intro i i' hi hi' hlt hp hp'
    -- the new indices
    obtain ⟨_, hat, hnd⟩ := (hsett f[i]).mp hp
    obtain ⟨_, hat', hnd'⟩ := (hsett f[i']).mp hp'
    obtain ⟨j, hj⟩ := List.mem_iff_getElem?.mp hat
    obtain ⟨j', hj'⟩ := List.mem_iff_getElem?.mp hat'
    rw [idxOf_eq_of_getElem? ht hj, idxOf_eq_of_getElem? ht hj']
    have hfi : f[i]? = some f[i] := List.getElem?_eq_getElem hi
    have hfi' : f[i']? = some f[i'] := List.getElem?_eq_getElem hi'
    have hjj : j ≠ j' := by
      intro h
      rw [h, hj'] at hj
      simp only [Option.some.injEq] at hj
      have := (List.getElem?_inj hi hf).mp (hfi.trans (hj ▸ hfi'.symm))
      omega
    -- each of the two items is unmoved, or a moved item with `move_in_dom = false`
    have hrest : ∀ (i j : Nat) (a : Key), f[i]? = some a → t[j]? = some a →
        (¬ ∃ m ∈ (unpackMoves (diff f t)).1, m.moveInDom = true ∧ f[m.from_]? = some a) →
        (i = j ∧ unmovedAt f t i = true) ∨
        ∃ m ∈ (unpackMoves (diff f t)).1, m.from_ = i ∧ m.to_ = j ∧ m.moveInDom = false := by
      intro i j a h1 h2 h3
      by_cases hij : i = j
      · subst hij
        exact Or.inl ⟨rfl, unmovedAt_iff.mpr ⟨a, h1, h2⟩⟩
      · right
        obtain ⟨m, hm, hmf, hmt⟩ := (sp.mem_pairs ht).mpr ⟨hij, a, h1, h2⟩
        refine ⟨m, hm, hmf, hmt, ?_⟩
        cases hd : m.moveInDom with
        | false => rfl
        | true => exact absurd ⟨m, hm, hd, by rw [hmf]; exact h1⟩ h3
    rcases hrest i j f[i] hfi hj hnd with ⟨rfl, hu⟩ | ⟨m, hm, rfl, rfl, hd⟩ <;>
    rcases hrest i' j' f[i'] hfi' hj' hnd' with ⟨rfl, hu'⟩ | ⟨m', hm', rfl, rfl, hd'⟩
    · exact hlt
    · exact K.after_unmoved m' (hU m' hm') hd' _ hlt hu
    · -- a moved item that keeps its place, then an unmoved one
      apply Nat.lt_of_le_of_ne _ hjj
      apply Nat.le_of_not_lt
      intro h
      have := K.none_between m (hU m hm) hd _ hlt h
      rw [hu'] at this
      simp at this
    · exact K.after_rest m' (hU m' hm') hd' m (hU m hm) hd hlt

end Leptos.Keyed
