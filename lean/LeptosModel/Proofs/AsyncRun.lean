import LeptosModel.Proofs.Async
/-!
# Proofs/AsyncRun — fetchers with conditional / dynamic reads (C10)

What a run of the fetcher reads depends on what it has read before (`Rd.ifFlag`, `Rd.idx`), and part of the
reads happen only after the `await` (`Fetcher.post`).  `RInv` says, for a derived over plain signals:
every read of the current (or last) run is subscribed, and while the derived is `Clean` the recorded run is
exactly what the fetcher reads when it is run from scratch on the CURRENT source values — the dependency
set of the run is the set of reads of the run, for the first and for every later run.
-/
namespace Leptos.Async

/-! ## runs -/

theorem Run.execAll_append (src : List Val) (l m : List Rd) (r : Run) :
    Run.execAll src (l ++ m) r = Run.execAll src m (Run.execAll src l r) := by
  simp [Run.execAll, List.foldl_append]

theorem Run.execAll_cons (src : List Val) (rd : Rd) (l : List Rd) (r : Run) :
    Run.execAll src (rd :: l) r = Run.execAll src l (Run.exec src r rd) := rfl

/-- a step only appends to the log -/
theorem Run.exec_log (src : List Val) (r : Run) (rd : Rd) : ∃ ext, (Run.exec src r rd).log = r.log ++ ext := by
  cases rd <;> simp only [Run.exec, Run.read]
  · exact ⟨_, rfl⟩
  · split
    · exact ⟨_, rfl⟩
    · exact ⟨[], by simp⟩
  · exact ⟨_, rfl⟩

theorem Run.execAll_log (src : List Val) (l : List Rd) (r : Run) :
    ∃ ext, (Run.execAll src l r).log = r.log ++ ext := by
  induction l generalizing r with
  | nil => exact ⟨[], by simp [Run.execAll]⟩
  | cons rd l ih =>
    obtain ⟨e1, h1⟩ := Run.exec_log src r rd
    obtain ⟨e2, h2⟩ := ih (Run.exec src r rd)
    exact ⟨e1 ++ e2, by rw [Run.execAll_cons, h2, h1, List.append_assoc]⟩

theorem getD_setAt_ne (src : List Val) (i j : Nat) (v : Val) (h : j ≠ i) :
    (setAt src i v)[j]?.getD 0 = src[j]?.getD 0 := by
  induction src generalizing i j with
  | nil => simp [setAt]
  | cons x xs ih =>
    cases i with
    | zero => cases j with
      | zero => exact absurd rfl h
      | succ j => simp [setAt]
    | succ i => cases j with
      | zero => simp [setAt]
      | succ j => simp only [setAt, List.getElem?_cons_succ]; exact ih i j (by omega)

theorem length_setAt (src : List Val) (i : Nat) (v : Val) : (setAt src i v).length = src.length := by
  induction src generalizing i with
  | nil => simp [setAt]
  | cons x xs ih => cases i <;> simp [setAt, ih]

/-- reading an index other than the written one sees the same value -/
theorem Run.read_setAt (src : List Val) (i j : Nat) (v : Val) (r : Run) (h : j ≠ i) :
    r.read (setAt src i v) j = r.read src j := by
  simp [Run.read, getD_setAt_ne src i j v h]

/-- a write to a source that the run does not read leaves the run what it is -/
theorem Run.execAll_setAt (src : List Val) (i : Nat) (v : Val) (l : List Rd) (r : Run)
    (h : i ∉ (Run.execAll src l r).log.map (·.1)) :
    Run.execAll (setAt src i v) l r = Run.execAll src l r := by
  induction l generalizing r with
  | nil => rfl
  | cons rd l ih =>
    rw [Run.execAll_cons] at h ⊢
    rw [Run.execAll_cons]
    -- the step itself reads (at most) an index that ends up in the final log
    obtain ⟨ext, hext⟩ := Run.execAll_log src l (Run.exec src r rd)
    have hstep : ∀ j, (Run.exec src r rd).log = r.log ++ [(j, src[j]?.getD 0)] → j ≠ i := by
      intro j hj hji
      apply h
      rw [hext, hj, hji]
      simp
    have hex : Run.exec (setAt src i v) r rd = Run.exec src r rd := by
      cases rd with
      | src j =>
        simp only [Run.exec]
        exact Run.read_setAt src i j v r (hstep j (by simp [Run.exec, Run.read]))
      | ifFlag j =>
        simp only [Run.exec]
        split
        · rename_i hf
          exact Run.read_setAt src i j v r (hstep j (by simp [Run.exec, Run.read, hf]))
        · rfl
      | idx =>
        simp only [Run.exec, length_setAt]
        exact Run.read_setAt src i _ v r (hstep _ (by simp [Run.exec, Run.read]))
    rw [hex]
    exact ih _ h

/-! ## the invariant -/

structure RInv (s : State) : Prop where
  /-- every source the current (or last) run has read is subscribed -/
  q1 : s.viaMemo = false → ∀ p ∈ s.run.log, p.1 ∈ s.dSub
  /-- while `Clean`, the recorded run is the fetcher run from scratch on the current sources: its `sync` part
  while the fetch is in flight (or before the task has taken the initial future), all of it once the result is
  in — and then the value is the fetcher's result for these reads -/
  q2 : s.viaMemo = false → s.dstate = .clean →
        (s.pc = .waiting ∧ s.firstRun = false →
          s.run = Run.execAll s.src (s.fx.sync ++ s.fx.post) {} ∧
          (s.manualLive = false → s.value = some (fetchFn s.run.vals))) ∧
        (¬(s.pc = .waiting ∧ s.firstRun = false) → s.run = Run.execAll s.src s.fx.sync {})
  q3 : s.viaMemo = false → s.curInputs = s.run.vals

theorem RInv.init (c : Cfg) : RInv (init c) := by
  simp only [Async.init]
  generalize (c.viaMemo || c.res) = vm
  cases vm <;> constructor <;> simp <;> exact fun a b h => ⟨b, h⟩

/-- `t` agrees with `s` on everything `RInv` mentions -/
def SameRun (s t : State) : Prop :=
  t.viaMemo = s.viaMemo ∧ t.run = s.run ∧ t.dSub = s.dSub ∧ t.fx = s.fx ∧ t.src = s.src ∧ t.dstate = s.dstate ∧
  t.pc = s.pc ∧ t.firstRun = s.firstRun ∧ t.manualLive = s.manualLive ∧ t.value = s.value ∧
  t.curInputs = s.curInputs

theorem SameRun.refl (s : State) : SameRun s s := ⟨rfl, rfl, rfl, rfl, rfl, rfl, rfl, rfl, rfl, rfl, rfl⟩

theorem SameRun.trans {a b c : State} (h1 : SameRun a b) (h2 : SameRun b c) : SameRun a c := by
  obtain ⟨a1, a2, a3, a4, a5, a6, a7, a8, a9, a10, a11⟩ := h1
  obtain ⟨b1, b2, b3, b4, b5, b6, b7, b8, b9, b10, b11⟩ := h2
  exact ⟨b1.trans a1, b2.trans a2, b3.trans a3, b4.trans a4, b5.trans a5, b6.trans a6, b7.trans a7,
    b8.trans a8, b9.trans a9, b10.trans a10, b11.trans a11⟩

theorem RInv.of_same {s t : State} (h : RInv s) (e : SameRun s t) : RInv t := by
  obtain ⟨e1, e2, e3, e4, e5, e6, e7, e8, e9, e10, e11⟩ := e
  obtain ⟨q1, q2, q3⟩ := h
  refine ⟨?_, ?_, ?_⟩
  · rw [e1, e2, e3]; exact q1
  · rw [e1, e2, e4, e5, e6, e7, e8, e9, e10]; exact q2
  · rw [e1, e2, e11]; exact q3

/-! ## marks, completions, readers: nothing `RInv` mentions changes, or the derived becomes `Dirty` -/

theorem dMarkCheck_run (s : State) : SameRun s (dMarkCheck s) := by
  simp only [dMarkCheck, dNotify, SameRun]; (repeat' split) <;> simp
theorem smMarkDirty_run (s : State) : SameRun s (smMarkDirty s) :=
  SameRun.trans (b := { s with smDirty := true }) ⟨rfl, rfl, rfl, rfl, rfl, rfl, rfl, rfl, rfl, rfl, rfl⟩
    (dMarkCheck_run _)
theorem mMarkDirty_run (s : State) : SameRun s (mMarkDirty s) := by
  simp only [mMarkDirty, eMarkCheck, eNotify, SameRun]; (repeat' split) <;> simp
theorem complete_run (s : State) (f : Nat) : SameRun s (complete s f) := by
  simp only [complete, SameRun]; split <;> simp

/-- marking the derived dirty: `q2` becomes vacuous, the rest is untouched -/
theorem RInv.dMarkDirty {s : State} (h : RInv s) (hn : s.dstate ≠ .notifying) : RInv (dMarkDirty s) := by
  obtain ⟨q1, q2, q3⟩ := h
  simp only [Async.dMarkDirty, dNotify, if_neg hn]
  split <;> exact ⟨q1, fun _ hc => by simp at hc, q3⟩

theorem RInv.mMark {s : State} (h : RInv s) : RInv (if s.mRan = true then mMarkDirty s else s) := by
  split
  · exact h.of_same (mMarkDirty_run s)
  · exact h

theorem RInv.setSrc {s : State} (h : RInv s) (hi : Inv s) (i : Nat) (v : Val) : RInv (setSrc s i v) := by
  unfold Async.setSrc
  split
  · by_cases hv : s.viaMemo = true
    · -- memo modes: `RInv` says nothing
      dsimp only
      rw [if_pos hv]
      have h1 : RInv (smMarkDirty { s with src := setAt s.src i v }) := by
        refine ⟨?_, ?_, ?_⟩ <;> intro hv' <;> rw [(smMarkDirty_run _).1] at hv' <;> simp [hv] at hv'
      exact RInv.mMark h1
    · dsimp only
      rw [if_neg hv]
      have hv' : s.viaMemo = false := by simpa using hv
      by_cases hsub : i ∈ s.dSub
      · rw [if_pos hsub]
        have h0 : RInv { s with src := setAt s.src i v, dstate := .dirty } := by
          obtain ⟨q1, q2, q3⟩ := h
          exact ⟨q1, fun _ hc => by simp at hc, q3⟩
        have h1 : RInv (Async.dMarkDirty { s with src := setAt s.src i v }) := by
          have : Async.dMarkDirty { s with src := setAt s.src i v } =
              dNotify { s with src := setAt s.src i v, dstate := .dirty } := by
            simp [Async.dMarkDirty, hi.dc.r1]
          rw [this]
          refine h0.of_same ?_
          simp only [dNotify, SameRun]; split <;> simp
        exact RInv.mMark h1
      · -- a write to a source the derived has never read: the run reads the same things as before
        rw [if_neg hsub]
        have h1 : RInv { s with src := setAt s.src i v } := by
          obtain ⟨q1, q2, q3⟩ := h
          have hnot : i ∉ s.run.log.map (·.1) := by
            intro hm
            rcases List.mem_map.mp hm with ⟨p, hp, rfl⟩
            exact hsub (q1 hv' p hp)
          refine ⟨q1, ?_, q3⟩
          intro _ hc
          obtain ⟨qa, qb⟩ := q2 hv' hc
          refine ⟨fun hw => ?_, fun hw => ?_⟩
          · obtain ⟨hr, hval⟩ := qa hw
            refine ⟨?_, hval⟩
            show s.run = Run.execAll (setAt s.src i v) (s.fx.sync ++ s.fx.post) {}
            rw [Run.execAll_setAt _ _ _ _ _ (by rw [← hr]; exact hnot)]
            exact hr
          · have hr := qb hw
            show s.run = Run.execAll (setAt s.src i v) s.fx.sync {}
            rw [Run.execAll_setAt _ _ _ _ _ (by rw [← hr]; exact hnot)]
            exact hr
        exact RInv.mMark h1
  · exact h

theorem RInv.refetch {s : State} (h : RInv s) (hi : Inv s) : RInv (refetch s) := by
  unfold Async.refetch
  split
  · exact h.of_same (SameRun.trans (b := { s with rc := s.rc + 1 })
      ⟨rfl, rfl, rfl, rfl, rfl, rfl, rfl, rfl, rfl, rfl, rfl⟩ (smMarkDirty_run _))
  · exact h.dMarkDirty hi.dc.r1

/-! ## `notify_subs`, manual writes -/

theorem notifySubs_run (s : State) : (notifySubs s).run = s.run := by ns_frame
theorem notifySubs_dSub (s : State) : (notifySubs s).dSub = s.dSub := by ns_frame
theorem notifySubs_fx (s : State) : (notifySubs s).fx = s.fx := by ns_frame

theorem notifySubs_sameRun (s : State) : SameRun s (notifySubs s) :=
  ⟨by simp, notifySubs_run s, notifySubs_dSub s, notifySubs_fx s, by simp, by simp, by simp, by simp, by simp,
    by simp, by simp⟩

theorem RInv.manualSet {s : State} (h : RInv s) (v : Val) : RInv (manualSet s v) := by
  unfold Async.manualSet
  refine RInv.of_same ?_ (notifySubs_sameRun _)
  obtain ⟨q1, q2, q3⟩ := h
  refine ⟨q1, ?_, q3⟩
  intro hv hc
  obtain ⟨qa, qb⟩ := q2 hv hc
  exact ⟨fun hw => ⟨(qa hw).1, fun hm => by simp at hm⟩, qb⟩

/-! ## the derived's task -/

/-- the state in which the result of the fetch is consumed (task ids dropped, `pc` back at the loop) -/
def doneState (s : State) : State :=
  { s with
    pending := s.pending - s.idsHeld, idsHeld := 0, curStatus := .done, pc := .waiting, dataReg := false,
    lockReg := false }

theorem applyResult_eq (s : State) : Async.applyResult s =
    if s.version = s.fetchVersion then
      notifySubs { postReads (doneState s) with
        value := some (fetchFn (postReads (doneState s)).curInputs), manualLive := false }
    else postReads (doneState s) := by
  simp [Async.applyResult, doneState]

theorem RInv.applyResult {s : State} (h : RInv s) (hpc : s.pc = .fetching) (hf : s.firstRun = false)
    (hv : s.version = s.fetchVersion) : RInv (Async.applyResult s) := by
  obtain ⟨q1, q2, q3⟩ := h
  rw [applyResult_eq, if_pos hv]
  refine RInv.of_same ?_ (notifySubs_sameRun _)
  by_cases hvm : s.viaMemo = true
  · refine ⟨?_, ?_, ?_⟩ <;> intro hv' <;> simp [hvm, doneState] at hv'
  · have hvm' : s.viaMemo = false := by simpa using hvm
    have hrun : (postReads (doneState s)).run = Run.execAll s.src s.fx.post s.run := by
      simp [postReads, doneState, hvm']
    have hsub : (postReads (doneState s)).dSub = s.dSub ++ (Run.execAll s.src s.fx.post s.run).log.map (·.1) := by
      simp [postReads, doneState, hvm']
    have hcur : (postReads (doneState s)).curInputs = (Run.execAll s.src s.fx.post s.run).vals := by
      simp [postReads, doneState, hvm']
    refine ⟨?_, ?_, ?_⟩
    · intro _ p hp
      simp only [hrun, hsub] at hp ⊢
      exact List.mem_append_right _ (List.mem_map_of_mem hp)
    · intro _ hc
      have hc' : s.dstate = .clean := by simpa [doneState] using hc
      refine ⟨fun _ => ?_, fun hw => ?_⟩
      · have hr := (q2 hvm' hc').2 (by simp [hpc])
        refine ⟨?_, fun _ => ?_⟩
        · show (postReads (doneState s)).run = Run.execAll (postReads (doneState s)).src
            ((postReads (doneState s)).fx.sync ++ (postReads (doneState s)).fx.post) {}
          rw [hrun, postReads_src, postReads_fx, Run.execAll_append]
          simp only [doneState]
          rw [← hr]
        · show some (fetchFn (postReads (doneState s)).curInputs) = some (fetchFn (postReads (doneState s)).run.vals)
          rw [hcur, hrun]
      · exfalso
        apply hw
        simp [hf, doneState]
    · intro _
      show (postReads (doneState s)).curInputs = (postReads (doneState s)).run.vals
      rw [hcur, hrun]

theorem RInv.toFetch {s : State} (h : RInv s) (hm : Mid s) : RInv (fetchState s) := by
  obtain ⟨q1, q2, q3⟩ := h
  have hpc := hm.dm.pcw
  rcases fetchState_cases s with ⟨_, hi, hd, _, heq⟩ | heq
  · -- the initial future is reused
    have hfr : s.firstRun = true := by
      cases hf : s.firstRun
      · have := (hm.dm.f2 hf).1; simp [hi] at this
      · rfl
    rw [heq]
    refine ⟨q1, ?_, q3⟩
    intro hv hc
    have hq := (q2 hv hc).2 (by simp [hfr])
    exact ⟨fun hw => by simp at hw, fun _ => hq⟩
  · rw [heq]
    by_cases hvm : s.viaMemo = true
    · refine ⟨?_, ?_, ?_⟩ <;> intro hv' <;> simp [hvm] at hv'
    · have hvm' : s.viaMemo = false := by simpa using hvm
      refine ⟨?_, ?_, ?_⟩
      · intro _ p hp
        simp only [hvm', Bool.false_eq_true, if_false] at hp ⊢
        exact List.mem_append_right _ (List.mem_map_of_mem hp)
      · intro _ _
        simp [hvm']
      · intro _
        simp [hvm']

theorem RInv.dIter {s : State} (h : RInv s) (hm : Mid s) : RInv (dIter s).1 := by
  rw [dIter_def]
  by_cases hc : s.chan = false
  · rw [if_pos hc]
    exact h.of_same ⟨rfl, rfl, rfl, rfl, rfl, rfl, rfl, rfl, rfl, rfl, rfl⟩
  · rw [if_neg hc]
    by_cases hn : (chk s).2 = true ∨ (chk s).1.firstRun = true
    · rw [if_pos hn]
      have hf := h.toFetch hm
      by_cases hr : (fetchState s).tickFired = true ∧ (fetchState s).curStatus = .ready
      · rw [if_pos hr]
        by_cases hg : (fetchState s).guards = 0
        · rw [if_pos hg]
          exact hf.applyResult (fetchState_pc s) (fetchState_firstRun s) (fetchState_version s)
        · rw [if_neg hg]
          exact hf.of_same ⟨rfl, rfl, rfl, rfl, rfl, rfl, rfl, rfl, rfl, rfl, rfl⟩
      · rw [if_neg hr]
        exact hf.of_same ⟨rfl, rfl, rfl, rfl, rfl, rfl, rfl, rfl, rfl, rfl, rfl⟩
    · rw [if_neg hn]
      have hc2 : (chk s).2 = false := by
        cases h2 : (chk s).2
        · rfl
        · exact absurd (.inl h2) hn
      obtain ⟨_, _, heq⟩ := chk_false s hc2
      show RInv (chk s).1
      rw [heq]
      exact h.of_same ⟨rfl, rfl, rfl, rfl, rfl, rfl, rfl, rfl, rfl, rfl, rfl⟩

theorem RInv.dLoop (n : Nat) {s : State} (h : RInv s) (hm : Mid s) : RInv (dLoop n s) := by
  induction n generalizing s with
  | zero => exact h.of_same ⟨rfl, rfl, rfl, rfl, rfl, rfl, rfl, rfl, rfl, rfl, rfl⟩
  | succ n ih =>
    rw [Async.dLoop]
    have h1 := h.dIter hm
    split
    · rename_i hc
      exact ih h1 (hm.iter.2 hc).1
    · exact h1

theorem RInv.pollD {s : State} (h : RInv s) (hi : Inv s) : RInv (pollD s) := by
  unfold Async.pollD
  dsimp only
  split
  · rename_i hpc
    refine RInv.dLoop 3 ?_ (hi.midStart hpc)
    obtain ⟨q1, q2, q3⟩ := h
    have hfr := (hi.dr.r3 hpc).2.2.1
    show RInv (enterStart s)
    unfold enterStart
    split
    · rename_i hd
      exact ⟨q1, fun _ hc => by simp [hd] at hc, q3⟩
    · refine ⟨q1, ?_, q3⟩
      intro hv hc
      have hq := (q2 hv hc).2 (by simp [hpc])
      exact ⟨fun hw => by simp [hfr] at hw, fun _ => hq⟩
  · rename_i hpc
    exact RInv.dLoop 3 (h.of_same ⟨rfl, rfl, rfl, rfl, rfl, rfl, rfl, rfl, rfl, rfl, rfl⟩) (hi.midWaiting hpc)
  · rename_i hpc
    split
    · split
      · have h0 : RInv { s with dWoken := false } := h.of_same ⟨rfl, rfl, rfl, rfl, rfl, rfl, rfl, rfl, rfl, rfl, rfl⟩
        have hf : s.firstRun = false := (hi.dr.r4 (by simp [hpc])).1
        have hv : s.version = s.fetchVersion := ((hi.dr.r6 hpc).2.1).symm
        exact RInv.dLoop 3 (h0.applyResult hpc hf hv) (hi.midFetched hpc)
      · exact h.of_same ⟨rfl, rfl, rfl, rfl, rfl, rfl, rfl, rfl, rfl, rfl, rfl⟩
    · exact h.of_same ⟨rfl, rfl, rfl, rfl, rfl, rfl, rfl, rfl, rfl, rfl, rfl⟩

/-! ## the effect's task, every event -/

theorem effUpdate_run (s : State) : SameRun s (effUpdate s).1 := by
  unfold effUpdate
  split
  · exact ⟨rfl, rfl, rfl, rfl, rfl, rfl, rfl, rfl, rfl, rfl, rfl⟩
  · have h := Frame.effAny (if s.eFirst = true then [] else effSources s.eff) s
    exact ⟨h.viaMemo, h.run, h.dSub, h.fx, h.src, h.dstate, h.pc, h.firstRun, h.manualLive, h.value, h.curInputs⟩

theorem runEffect_run (s : State) : SameRun s (runEffect s) := by
  obtain ⟨ms, mv, mr, x, h⟩ := runEffect_spec s
  rw [h]
  exact ⟨rfl, rfl, rfl, rfl, rfl, rfl, rfl, rfl, rfl, rfl, rfl⟩

theorem eIter_run (s : State) : SameRun s (eIter s).1 := by
  rw [eIter_def]
  split
  · exact ⟨rfl, rfl, rfl, rfl, rfl, rfl, rfl, rfl, rfl, rfl, rfl⟩
  · have h1 : SameRun s { s with eReg := true, eChan := false } :=
      ⟨rfl, rfl, rfl, rfl, rfl, rfl, rfl, rfl, rfl, rfl, rfl⟩
    split
    · exact (h1.trans (effUpdate_run _)).trans (runEffect_run _)
    · exact h1.trans (effUpdate_run _)

theorem eLoop_run (n : Nat) (s : State) : SameRun s (eLoop n s) := by
  induction n generalizing s with
  | zero => exact ⟨rfl, rfl, rfl, rfl, rfl, rfl, rfl, rfl, rfl, rfl, rfl⟩
  | succ n ih =>
    rw [eLoop]
    split
    · exact (eIter_run s).trans (ih _)
    · exact eIter_run s

theorem RInv.step {s : State} (h : RInv s) (hi : Inv s) (e : Event) : RInv (step s e) := by
  cases e with
  | set i v => exact h.setSrc hi i v
  | refetch => exact h.refetch hi
  | manualSet v => exact h.manualSet v
  | complete f => exact h.of_same (complete_run s f)
  | attach => exact h.of_same ⟨rfl, rfl, rfl, rfl, rfl, rfl, rfl, rfl, rfl, rfl, rfl⟩
  | poll j =>
    simp only [Async.step, pollNth]
    split
    · rename_i t _
      cases t
      · show RInv (pollT0 s)
        unfold pollT0
        split <;> exact h.of_same ⟨rfl, rfl, rfl, rfl, rfl, rfl, rfl, rfl, rfl, rfl, rfl⟩
      · exact h.pollD hi
      · exact h.of_same (SameRun.trans (b := { s with eWoken := false })
          ⟨rfl, rfl, rfl, rfl, rfl, rfl, rfl, rfl, rfl, rfl, rfl⟩ (eLoop_run 4 _))
      · show RInv (pollA s _)
        unfold pollA wakeWriter
        dsimp only
        split <;> exact h.of_same ⟨rfl, rfl, rfl, rfl, rfl, rfl, rfl, rfl, rfl, rfl, rfl⟩
    · exact h
  | get => exact h
  | bread =>
    simp only [Async.step, bread]
    (repeat' split) <;> exact h.of_same ⟨rfl, rfl, rfl, rfl, rfl, rfl, rfl, rfl, rfl, rfl, rfl⟩
  | attachR => exact h.of_same ⟨rfl, rfl, rfl, rfl, rfl, rfl, rfl, rfl, rfl, rfl, rfl⟩
  | attachH => exact h.of_same ⟨rfl, rfl, rfl, rfl, rfl, rfl, rfl, rfl, rfl, rfl, rfl⟩
  | hold => exact h.of_same ⟨rfl, rfl, rfl, rfl, rfl, rfl, rfl, rfl, rfl, rfl, rfl⟩
  | release =>
    simp only [Async.step, release, wakeWriter]
    split <;> exact h.of_same ⟨rfl, rfl, rfl, rfl, rfl, rfl, rfl, rfl, rfl, rfl, rfl⟩
  | attachS => exact h.of_same ⟨rfl, rfl, rfl, rfl, rfl, rfl, rfl, rfl, rfl, rfl, rfl⟩
  | bdrop => exact h.of_same ⟨rfl, rfl, rfl, rfl, rfl, rfl, rfl, rfl, rfl, rfl, rfl⟩

theorem RInv.foldl {s : State} (h : RInv s) (hi : Inv s) (es : List Event) : RInv (es.foldl Async.step s) := by
  induction es generalizing s with
  | nil => exact h
  | cons e es ih => exact ih (h.step hi e) (hi.step e)

/-- every read of the last run is subscribed, and a `Clean` derived has read exactly what its fetcher reads on
the current sources — after every history -/
theorem RInv.run (c : Cfg) (es : List Event) : RInv (run c es) := (RInv.init c).foldl (Inv.init c) es

end Leptos.Async
