import LeptosModel.Proofs.RViewMZ
import LeptosModel.Proofs.RViewTop
/-!
# Proofs/RViewMTop — the invariant of every history for views over signals and memos, `Show` included
(port of `Proofs/RViewTop.lean`; the reactive steps come from the reactive core's `TopC` lemmas)
-/
namespace Leptos.RView
open Leptos.Reactive

/-- node `i` of the program is a render effect -/
def IsEff (st : St) (i : Nat) : Prop := ∃ x, st.prog[i]? = some (.eff x)

theorem IsEff.lt {st : St} {i : Nat} (h : IsEff st i) : i < st.prog.length := by
  obtain ⟨x, hx⟩ := h
  rcases Nat.lt_or_ge i st.prog.length with h' | h'
  · exact h'
  · rw [List.getElem?_eq_none h'] at hx; cases hx

theorem IsEff.kind {K : Nat} {st : St} {i : Nat} (h : IsEff st i) (hr : RM K st) : (st.rs.get i).kind = .eff := by
  obtain ⟨x, hx⟩ := h; exact hr.kind_eff hx

theorem IsEff.extM {K : Nat} {A : Nat → Prop} {st st' : St} {i : Nat} (h : IsEff st i) (hx : ExtM K A st st') :
    IsEff st' i := by
  obtain ⟨x, hp⟩ := h
  exact ⟨x, by rw [hx.prog_get (IsEff.lt ⟨x, hp⟩)]; exact hp⟩

theorem IsEff.of_prog {st st' : St} {i : Nat} (h : IsEff st i) (hp : st'.prog = st.prog) : IsEff st' i := by
  obtain ⟨x, hx⟩ := h; exact ⟨x, by rw [hp]; exact hx⟩

/-- the mounted tree `t` with the zombies around it -/
structure InvTM (K : Nat) (v : View) (st : St) (t : RState) : Prop where
  root : st.root = some t
  good : GoodM (EM K st) (ShowMemo K st) v t
  uniq : ∀ x, (effsOf t).count x + (zEffs st.zombies).count x ≤ 1
  tasks : ∀ e ∈ st.tasks, ((st.rs.get e).done = true ∧ IsEff st e) ∨ e ∈ effsOf t ∨ e ∈ zEffs st.zombies

structure InvCM (K : Nat) (v : View) (st : St) : Prop where
  rm : RM K st
  tree : ∃ t, InvTM K v st t
  zok : ∀ z ∈ st.zombies, ∀ h, z.2 = some h → ZTreeM K st h
  zdead : ∀ z ∈ st.zombies, (st.rs.get z.1).alive = false
  zb : ∀ z ∈ st.zombies, K ≤ z.1 ∧ IsEff st z.1

theorem zEffs_boundM {K : Nat} {st : St} {zs : List (Nat × Option RState)}
    (hzb : ∀ z ∈ zs, K ≤ z.1 ∧ IsEff st z.1) (hzok : ∀ z ∈ zs, ∀ h, z.2 = some h → ZTreeM K st h) :
    ∀ x ∈ zEffs zs, K ≤ x ∧ IsEff st x := by
  intro x hx
  simp only [zEffs, List.mem_flatMap, List.mem_cons] at hx
  obtain ⟨z, hz, hx⟩ := hx
  rcases hx with hx | hx
  · rw [hx]; exact hzb z hz
  · cases hh : z.2 with
    | none => rw [hh] at hx; simp [optEffs] at hx
    | some h =>
      rw [hh] at hx
      have hm : x ∈ effsOf h := by simpa [optEffs] using hx
      obtain ⟨y, cur, hp⟩ := GoodM.effP _ h (hzok z hz h hh).good x hm
      exact ⟨hp.1, y, hp.2.2⟩

theorem EM.congr {K : Nat} {st st' : St} {e : Nat} {x : Expr} {cur : Int → Prop}
    (h : EM K st e x cur) (hp : st'.prog = st.prog) (hr : st'.rs = st.rs) (ht : st'.tasks = st.tasks) :
    EM K st' e x cur :=
  ⟨h.ke, by rw [hp]; exact h.lt, by rw [hp]; exact h.prog, h.nw, by rw [hr]; exact h.kind, by rw [hr]; exact h.alive,
    by rw [hr]; exact h.done, by rw [hr]; exact h.first, by rw [ht]; exact h.task, by rw [hr]; exact h.cur⟩

theorem ShowMemo.of_prog {K : Nat} {st st' : St} {m : Nat} {c : Expr} (h : ShowMemo K st m c)
    (hp : st'.prog = st.prog) : ShowMemo K st' m c := by
  unfold ShowMemo at h ⊢; rw [hp]; exact h

theorem GoodM.congr {K : Nat} {st st' : St} (v : View) (t : RState) (h : GoodM (EM K st) (ShowMemo K st) v t)
    (hp : st'.prog = st.prog) (hr : st'.rs = st.rs) (ht : st'.tasks = st.tasks) :
    GoodM (EM K st') (ShowMemo K st') v t :=
  GoodM.map v t h (fun _ _ _ _ hk => hk.congr hp hr ht) (fun _ _ hq => hq.of_prog hp)

theorem ZTreeM.of_prog {K : Nat} {st st' : St} {h : RState} (hz : ZTreeM K st h) (hp : st'.prog = st.prog) :
    ZTreeM K st' h :=
  ⟨GoodM.map _ _ hz.good (fun _ _ _ _ hw => by unfold EffWf at hw ⊢; rw [hp]; exact hw)
    (fun _ _ hq => hq.of_prog hp), hz.wf, hz.core⟩

/-- the effects of the tree are effects of the program -/
theorem InvTM.eff {K : Nat} {v : View} {st : St} {t : RState} (ht : InvTM K v st t) {y : Nat} (hy : y ∈ effsOf t) :
    ∃ x cur, EM K st y x cur := GoodM.effP v t ht.good y hy

/-- an effect's stable part along a run of `e` and an extension that does not act on it -/
theorem stab_two {K : Nat} {A : Nat → Prop} {st s0 s1 : St} {rs' : State} {e y : Nat}
    (ra : SK (· = e) st.rs rs') (hr0 : s0.rs = rs') (hp0 : s0.prog = st.prog) (hx : ExtM K A s0 s1)
    (hk : (st.rs.get y).kind = .eff) (hlt : y < st.prog.length) (hye : y ≠ e) (hA : ¬ A y) :
    stab (s1.rs.get y) = stab (st.rs.get y) := by
  have c1 := ra.eff y hk hye
  have hk0 : (s0.rs.get y).kind = .eff := by rw [hr0, ra.kind]; exact hk
  have c2 := hx.keep y (by rw [hp0]; exact hlt) hk0 hA
  rw [hr0] at c2
  exact c2.trans c1

/-- the invariant after the root pass of the re-run of a MOUNTED effect -/
theorem InvCM.of_rerun {K : Nat} {v : View} {st : St} (h : InvCM K v st) {t : RState} (ht : InvTM K v st t)
    {e : Nat} (he : e ∈ effsOf t) {rs' : State} (ra : SK (· = e) st.rs rs') {s0 s1 : St}
    (hp0 : s0.prog = st.prog) (hr0 : s0.rs = rs') (ht0 : s0.tasks = st.tasks) (hz0 : s0.zombies = st.zombies)
    {t' : RState} (hr : RerunM K (EM K) s0 t v t' s1) (hkeep : e ∈ effsOf t') {F : St}
    (hFp : F.prog = s1.prog) (hFr : F.rs = s1.rs) (hFt : F.tasks = s1.tasks) (hFroot : F.root = some t')
    (hFz : F.zombies = st.zombies ++ newZ s0 s1) : InvCM K v F := by
  have hzbound := zEffs_boundM h.zb h.zok
  have hlen0 : s0.prog.length = st.prog.length := by rw [hp0]
  have hcnt_t : ∀ y, y ∈ effsOf t → (zEffs st.zombies).count y = 0 := by
    intro y hy
    have := ht.uniq y
    have : 1 ≤ (effsOf t).count y := List.one_le_count_iff.2 hy
    omega
  have hcnt_z : ∀ y, y ∈ zEffs st.zombies → (effsOf t).count y = 0 := by
    intro y hy
    have := ht.uniq y
    have : 1 ≤ (zEffs st.zombies).count y := List.one_le_count_iff.2 hy
    omega
  -- effects of old zombies are not acted on by the root pass
  have hnotA : ∀ y, y ∈ zEffs st.zombies → y ∉ zEffs (newZ s0 s1) := by
    intro y hy hm
    have hb := (hzbound y hy).2.lt
    have h1 := hr.cnt y (by omega)
    have h2 := hcnt_z y hy
    have : 1 ≤ (zEffs (newZ s0 s1)).count y := List.one_le_count_iff.2 hm
    omega
  have hne_z : ∀ z ∈ st.zombies, z.1 ≠ e := by
    intro z hz hh
    have h1 := hcnt_t e he
    have : 1 ≤ (zEffs st.zombies).count e := List.one_le_count_iff.2 (hh ▸ mem_zEffs_entry hz)
    omega
  have hprogF : ∀ {i : Nat}, IsEff st i → IsEff F i := by
    intro i hi
    obtain ⟨x, hx⟩ := hi
    refine ⟨x, ?_⟩
    rw [hFp, hr.ext.prog_get (by rw [hlen0]; exact IsEff.lt ⟨x, hx⟩), hp0]; exact hx
  refine ⟨hr.inv.of_rs_prog hFp hFr, ⟨t', hFroot, ?_, ?_, ?_⟩, ?_, ?_, ?_⟩
  · exact GoodM.congr v t' hr.good hFp hFr hFt
  · intro y
    rw [hFz, zEffs_append, List.count_append]
    rcases Nat.lt_or_ge y s0.prog.length with hl | hl
    · have := hr.cnt y hl; have := ht.uniq y; omega
    · have hf := hr.fresh y hl
      have hz0' : (zEffs st.zombies).count y = 0 := by
        rw [List.count_eq_zero]; intro hm; have := (hzbound y hm).2.lt; omega
      omega
  · intro y hy
    rw [hFt] at hy
    rw [hFr, hFz]
    rcases hr.tasks y hy with hy' | hy'
    · rw [ht0] at hy'
      rcases ht.tasks y hy' with hd | hd | hd
      · by_cases hye : y = e
        · subst hye; exact Or.inr (Or.inl hkeep)
        · by_cases hA : y ∈ zEffs (newZ s0 s1)
          · exact Or.inr (Or.inr (zEffs_mem_append.2 (Or.inr hA)))
          · left
            have hst := stab_two ra hr0 hp0 hr.ext (hd.2.kind h.rm) hd.2.lt hye hA
            simp only [stab, Prod.mk.injEq] at hst
            exact ⟨by rw [hst.2.2.2.1]; exact hd.1, hprogF hd.2⟩
      · have hylt : y < s0.prog.length := by
          obtain ⟨_, _, hk⟩ := ht.eff hd
          rw [hlen0]; exact hk.lt
        have h1 := hr.cnt y hylt
        have h2 : 1 ≤ (effsOf t).count y := List.one_le_count_iff.2 hd
        by_cases hin : y ∈ effsOf t'
        · exact Or.inr (Or.inl hin)
        · have : (effsOf t').count y = 0 := List.count_eq_zero.2 hin
          have : 1 ≤ (zEffs (newZ s0 s1)).count y := by omega
          exact Or.inr (Or.inr (zEffs_mem_append.2 (Or.inr (List.one_le_count_iff.1 this))))
      · exact Or.inr (Or.inr (zEffs_mem_append.2 (Or.inl hd)))
    · exact Or.inr (Or.inl hy')
  · intro z hz hh hhh
    rw [hFz] at hz
    rcases List.mem_append.1 hz with hz | hz
    · exact (((h.zok z hz hh hhh).of_prog hp0).ext hr.ext).of_prog hFp
    · exact (hr.zok z hz hh hhh).of_prog hFp
  · intro z hz
    rw [hFz] at hz
    rw [hFr]
    rcases List.mem_append.1 hz with hz | hz
    · have hb := h.zb z hz
      have hst := stab_two ra hr0 hp0 hr.ext (hb.2.kind h.rm) hb.2.lt (hne_z z hz)
        (hnotA z.1 (mem_zEffs_entry hz))
      simp only [stab, Prod.mk.injEq] at hst
      rw [hst.2.2.1]; exact h.zdead z hz
    · exact hr.zdead z hz
  · intro z hz
    rw [hFz] at hz
    rcases List.mem_append.1 hz with hz | hz
    · have := h.zb z hz; exact ⟨this.1, hprogF this.2⟩
    · have hm : z.1 ∈ zEffs (newZ s0 s1) := mem_zEffs_entry hz
      have h1 : 1 ≤ (zEffs (newZ s0 s1)).count z.1 := List.one_le_count_iff.2 hm
      rcases Nat.lt_or_ge z.1 s0.prog.length with hl | hl
      · have h2 := hr.cnt z.1 hl
        have : 1 ≤ (effsOf t).count z.1 := by omega
        obtain ⟨x, _, hk⟩ := ht.eff (List.one_le_count_iff.1 this)
        exact ⟨hk.ke, hprogF ⟨x, hk.prog⟩⟩
      · have := (hr.fresh z.1 hl).2.1; omega

/-- the invariant after the zombie pass of the re-run of an effect that lives in a zombie-held tree -/
theorem InvCM.of_zrerun {K : Nat} {v : View} {st : St} (h : InvCM K v st) {t : RState} (ht : InvTM K v st t)
    {e : Nat} (he : e ∉ effsOf t) (hke : K ≤ e) (healive : (st.rs.get e).alive = true)
    (hedone : (st.rs.get e).done = false)
    {rs' : State} (ra : SK (· = e) st.rs rs') {sZ s' : St}
    (hp0 : sZ.prog = st.prog) (hr0 : sZ.rs = rs') (ht0 : sZ.tasks = st.tasks)
    {zs' : List (Nat × Option RState)} (hz : ZResM K sZ st.zombies zs' s') {F : St}
    (hFp : F.prog = s'.prog) (hFr : F.rs = s'.rs) (hFt : F.tasks = s'.tasks) (hFroot : F.root = some t)
    (hFz : F.zombies = zs' ++ newZ sZ s') : InvCM K v F := by
  have hzbound := zEffs_boundM h.zb h.zok
  have hlen0 : sZ.prog.length = st.prog.length := by rw [hp0]
  have hcnt_t : ∀ y, y ∈ effsOf t → (zEffs st.zombies).count y = 0 := by
    intro y hy
    have := ht.uniq y
    have : 1 ≤ (effsOf t).count y := List.one_le_count_iff.2 hy
    omega
  have htb : ∀ y ∈ effsOf t, K ≤ y ∧ IsEff st y := by
    intro y hy
    obtain ⟨x, _, hk⟩ := ht.eff hy
    exact ⟨hk.ke, x, hk.prog⟩
  have hnotA : ∀ y, y ∈ effsOf t → y ∉ zEffs (newZ sZ s') := by
    intro y hy hm
    have h1 := hz.cnt y (by rw [hlen0]; exact (htb y hy).2.lt)
    have h2 := hcnt_t y hy
    have : 1 ≤ (zEffs (newZ sZ s')).count y := List.one_le_count_iff.2 hm
    omega
  -- an entry id is dead, `e` is alive
  have hne_z : ∀ z ∈ st.zombies, z.1 ≠ e := by
    intro z hz' hh
    have := h.zdead z hz'
    rw [hh, healive] at this; cases this
  have hprogF : ∀ {i : Nat}, IsEff st i → IsEff F i := by
    intro i hi
    obtain ⟨x, hx⟩ := hi
    refine ⟨x, ?_⟩
    rw [hFp, hz.ext.prog_get (by rw [hlen0]; exact IsEff.lt ⟨x, hx⟩), hp0]; exact hx
  -- the frame from `st` to `F` for the effects of the mounted tree
  have hxT : ExtM K (fun y => y = e ∨ y ∈ zEffs (newZ sZ s')) st F := by
    refine ⟨by obtain ⟨ext, he'⟩ := hz.ext.pre; exact ⟨ext, by rw [hFp, he', hp0]⟩, ?_, ?_,
      fun y hy => by rw [hFt]; exact hz.ext.tasks y (by rw [ht0]; exact hy)⟩
    · intro i hi
      rcases hi with hi | hi
      · subst hi; exact hke
      · exact hz.ext.aeff i hi
    · intro i hi hk ha
      rw [hFr]
      exact stab_two ra hr0 hp0 hz.ext hk hi (fun hh => ha (Or.inl hh)) (fun hh => ha (Or.inr hh))
  refine ⟨hz.inv.of_rs_prog hFp hFr, ⟨t, hFroot, ?_, ?_, ?_⟩, ?_, ?_, ?_⟩
  · exact GoodM.extM hxT v t ht.good (fun y hy ha => by
      rcases ha with ha | ha
      · exact he (ha ▸ hy)
      · exact hnotA y hy ha)
  · intro y
    rw [hFz, zEffs_append, List.count_append]
    rcases Nat.lt_or_ge y sZ.prog.length with hl | hl
    · have := hz.cnt y hl; have := ht.uniq y; omega
    · have hf := hz.fresh y hl
      have ht0' : (effsOf t).count y = 0 := by
        rw [List.count_eq_zero]; intro hm; have := (htb y hm).2.lt; omega
      omega
  · intro y hy
    rw [hFt] at hy
    rw [hFr, hFz]
    rcases hz.tasks y hy with hy' | hy'
    · rw [ht0] at hy'
      have hcase : ∀ (hd : y ∈ zEffs st.zombies), y ∈ zEffs (zs' ++ newZ sZ s') := by
        intro hd
        have hl : y < sZ.prog.length := by rw [hlen0]; exact (hzbound y hd).2.lt
        have h1 := hz.cnt y hl
        have h2 : 1 ≤ (zEffs st.zombies).count y := List.one_le_count_iff.2 hd
        by_cases hin : y ∈ zEffs zs'
        · exact zEffs_mem_append.2 (Or.inl hin)
        · have : (zEffs zs').count y = 0 := List.count_eq_zero.2 hin
          have : 1 ≤ (zEffs (newZ sZ s')).count y := by omega
          exact zEffs_mem_append.2 (Or.inr (List.one_le_count_iff.1 this))
      rcases ht.tasks y hy' with hd | hd | hd
      · have hye : y ≠ e := by intro hh; rw [hh, hedone] at hd; cases hd.1
        by_cases hA : y ∈ zEffs (newZ sZ s')
        · exact Or.inr (Or.inr (zEffs_mem_append.2 (Or.inr hA)))
        · left
          have hst := stab_two ra hr0 hp0 hz.ext (hd.2.kind h.rm) hd.2.lt hye hA
          simp only [stab, Prod.mk.injEq] at hst
          exact ⟨by rw [hst.2.2.2.1]; exact hd.1, hprogF hd.2⟩
      · exact Or.inr (Or.inl hd)
      · exact Or.inr (Or.inr (hcase hd))
    · exact Or.inr (Or.inr (zEffs_mem_append.2 (Or.inl hy')))
  · intro z hz' hh hhh
    rw [hFz] at hz'
    rcases List.mem_append.1 hz' with hz' | hz'
    · exact (hz.zok' z hz' hh hhh).of_prog hFp
    · exact (hz.zok z hz' hh hhh).of_prog hFp
  · intro z hz'
    rw [hFz] at hz'
    rw [hFr]
    rcases List.mem_append.1 hz' with hz' | hz'
    · obtain ⟨z0, hz0, h0⟩ := mem_map_fst_of_ids hz.ids hz'
      have hb := h.zb z0 hz0
      have hzlt : z.1 < sZ.prog.length := by rw [hlen0, ← h0]; exact hb.2.lt
      have hnA : z.1 ∉ zEffs (newZ sZ s') := by
        intro hm
        have h1 := hz.cnt z.1 hzlt
        have h2 : 1 ≤ (zEffs zs').count z.1 := List.one_le_count_iff.2 (mem_zEffs_entry hz')
        have h3 : 1 ≤ (zEffs (newZ sZ s')).count z.1 := List.one_le_count_iff.2 hm
        have h4 := ht.uniq z.1
        omega
      have hst := stab_two ra hr0 hp0 hz.ext (hb.2.kind h.rm) hb.2.lt (hne_z z0 hz0) (by rw [h0]; exact hnA)
      simp only [stab, Prod.mk.injEq] at hst
      rw [← h0, hst.2.2.1]; exact h.zdead z0 hz0
    · exact hz.zdead z hz'
  · intro z hz'
    rw [hFz] at hz'
    rcases List.mem_append.1 hz' with hz' | hz'
    · obtain ⟨z0, hz0, h0⟩ := mem_map_fst_of_ids hz.ids hz'
      have := h.zb z0 hz0
      rw [← h0]; exact ⟨this.1, hprogF this.2⟩
    · have hm : z.1 ∈ zEffs (newZ sZ s') := mem_zEffs_entry hz'
      have h1 : 1 ≤ (zEffs (newZ sZ s')).count z.1 := List.one_le_count_iff.2 hm
      rcases Nat.lt_or_ge z.1 sZ.prog.length with hl | hl
      · have h2 := hz.cnt z.1 hl
        have : 1 ≤ (zEffs st.zombies).count z.1 := by omega
        have := hzbound z.1 (List.one_le_count_iff.1 this)
        exact ⟨this.1, hprogF this.2⟩
      · have := (hz.fresh z.1 hl).2.1; omega

/-! ## a finished task lets go of what it held -/

/-- the reactive state after the task of a dropped effect was polled -/
theorem pollDeadM {K : Nat} {st : St} (h : RM K st) {e : Nat} (hk : (st.rs.get e).kind = .eff)
    (hdead : (st.rs.get e).alive = false) :
    RM K { st with rs := (st.rs.upd e fun n => { n with woken := false }).upd e fun n => { n with done := true } } := by
  have he : e < st.rs.nodes.length := st.rs.lt_of_kind_ne (by rw [hk]; simp)
  have hpe : Reactive.pollEff st.prog st.rs e =
      (st.rs.upd e fun n => { n with woken := false }).upd e fun n => { n with done := true } := by
    unfold Reactive.pollEff
    have : ((st.rs.upd e fun n => { n with woken := false }).get e).alive = false := by
      rw [State.get_upd_same _ _ he]; exact hdead
    simp only [this, Bool.not_false, if_true]
  have htop := h.top.pollEff (memoOK_of_wf h.wf) (effOK_of_wf h.wf h.tr) hk
  rw [hpe] at htop
  refine ⟨htop.congrD (fun i => ?_), h.wf, h.tr, h.kle, h.defs, ?_, h.nwAll⟩
  rotate_left
  · intro i hki
    show (((st.rs.upd e fun n => { n with woken := false }).upd e fun n => { n with done := true }).get i).first = false
    have hki' : (((st.rs.upd e fun n => { n with woken := false }).upd e fun n => { n with done := true }).get i).kind
        = .eff := hki
    rw [State.get_upd, State.get_upd] at hki' ⊢
    by_cases hie : e = i
    · subst hie
      simp only [he, and_self, if_true, State.upd, List.length_modify] at hki' ⊢
      exact h.firstF e hk
    · simp only [hie, false_and, if_false] at hki' ⊢
      exact h.firstF i hki'
  show DeadE st.rs i ↔ DeadE ((st.rs.upd e fun n => { n with woken := false }).upd e fun n => { n with done := true }) i
  simp only [DeadE]
  rw [State.get_upd, State.get_upd]
  by_cases hie : e = i
  · subst hie
    simp [he]
  · simp [hie]

theorem InvCM.dead {K : Nat} {v : View} {st : St} (h : InvCM K v st) {e : Nat} (hke : K ≤ e)
    (hie : IsEff st e) (hdead : (st.rs.get e).alive = false) : InvCM K v (pollTask st e) := by
  obtain ⟨t, ht⟩ := h.tree
  have hk := hie.kind h.rm
  have hlt' : e < st.rs.nodes.length := st.rs.lt_of_kind_ne (by rw [hk]; simp)
  have het : e ∉ effsOf t := by
    intro hm
    obtain ⟨_, _, hk'⟩ := ht.eff hm
    rw [hk'.alive] at hdead; cases hdead
  have hrm2 := pollDeadM h.rm hk hdead
  -- the reactive state after the task ended
  generalize hrs2 : ((st.rs.upd e fun n => { n with woken := false }).upd e fun n => { n with done := true }) = rs2
    at hrm2
  have hpoll : pollTask st e = releaseZombie { st with rs := rs2 } e := by
    unfold pollTask
    have : ((st.rs.upd e fun n => { n with woken := false }).get e).alive = false := by
      rw [State.get_upd_same _ _ hlt']; exact hdead
    simp only [this, Bool.not_false, if_true]
    rw [hrs2]
  have g2 : ∀ i, i ≠ e → rs2.get i = st.rs.get i := by
    intro i hi; rw [← hrs2, State.get_upd_ne _ _ (Ne.symm hi), State.get_upd_ne _ _ (Ne.symm hi)]
  have g2e : rs2.get e = { st.rs.get e with woken := false, done := true } := by
    rw [← hrs2, State.get_upd_same _ _ (by simpa using hlt'), State.get_upd_same _ _ hlt']
  have halive2 : ∀ i, (rs2.get i).alive = (st.rs.get i).alive := by
    intro i
    by_cases hie' : i = e
    · subst hie'; rw [g2e]
    · rw [g2 i hie']
  have hkind2 : ∀ i, (rs2.get i).kind = (st.rs.get i).kind := by
    intro i
    by_cases hie' : i = e
    · subst hie'; rw [g2e]
    · rw [g2 i hie']
  have hnl : NoLoc st.zombies := fun z hz tr htr =>
    ⟨GoodM.locals_nil _ tr (h.zok z hz tr htr).good, GoodM.plain _ tr (h.zok z hz tr htr).good⟩
  rw [hpoll, releaseZombie_eq { st with rs := rs2 } e hnl]
  generalize hmine : (st.zombies.filter fun z => z.1 == e) = mine
  generalize hrest : (st.zombies.filter fun z => !(z.1 == e)) = rest
  have hmine_sub : ∀ z ∈ mine, z ∈ st.zombies ∧ z.1 = e := by
    intro z hz; rw [← hmine] at hz
    have := List.mem_filter.1 hz
    exact ⟨this.1, by simpa using this.2⟩
  have hrest_sub : ∀ z ∈ rest, z ∈ st.zombies := by
    intro z hz; rw [← hrest] at hz; exact (List.mem_filter.1 hz).1
  have hsplit : ∀ y, (zEffs mine).count y + (zEffs rest).count y = (zEffs st.zombies).count y := by
    intro y; rw [← hmine, ← hrest]; exact zEffs_filter_count (fun z => z.1 == e) y st.zombies
  have hzbound := zEffs_boundM h.zb h.zok
  -- what is dropped
  have hL : ∀ z ∈ mine.flatMap heldOf, z.1 ∈ mine.flatMap (fun z => optEffs z.2) ∧
      ∀ sub, z.2 = some sub → ZTreeM K st sub := by
    intro z hz
    obtain ⟨z0, hz0, hzz⟩ := List.mem_flatMap.1 hz
    have hz0' := hmine_sub z0 hz0
    cases hh : z0.2 with
    | none => simp [heldOf, hh] at hzz
    | some tr =>
      simp only [heldOf, hh] at hzz
      have hzt := h.zok z0 hz0'.1 tr hh
      have hk' := held_okM (viewOf tr) tr hzt.good hzt.wf hzt.core z hzz
      refine ⟨List.mem_flatMap.2 ⟨z0, hz0, by rw [hh]; simpa [optEffs] using hk'.1⟩, hk'.2⟩
  have hLz : ∀ y ∈ (mine.flatMap heldOf).map (·.1), y ∈ zEffs st.zombies := by
    intro y hy
    obtain ⟨z, hz, rfl⟩ := List.mem_map.1 hy
    have h1 := (hL z hz).1
    have h2 : 1 ≤ (mine.flatMap fun z => optEffs z.2).count z.1 := List.one_le_count_iff.2 h1
    have h3 := zEffs_ids_count mine z.1
    have h4 := hsplit z.1
    exact List.one_le_count_iff.1 (by omega)
  have d := dropAll_spec (mine.flatMap heldOf) ({ ({ st with rs := rs2 } : St) with zombies := rest })
  have hrm3 : RM K ({ ({ st with rs := rs2 } : St) with zombies := rest }) := hrm2.of_rs_prog rfl rfl
  have hkindsL : ∀ z ∈ mine.flatMap heldOf,
      (({ ({ st with rs := rs2 } : St) with zombies := rest } : St).rs.get z.1).kind = .eff := by
    intro z hz
    have hb := hzbound z.1 (hLz z.1 (List.mem_map.2 ⟨z, hz, rfl⟩))
    show (rs2.get z.1).kind = .eff
    rw [hkind2]; exact hb.2.kind h.rm
  have hrmF := dropAllM (mine.flatMap heldOf) hrm3 hkindsL
  generalize hF : dropAll ({ ({ st with rs := rs2 } : St) with zombies := rest }) (mine.flatMap heldOf) = F at d hrmF
  have hdx := d.extM (K := K) (fun y hy => (hzbound y (hLz y hy)).1)
  have hFget : ∀ i, F.rs.get i = if i ∈ (mine.flatMap heldOf).map (·.1) then killed (rs2.get i) else rs2.get i :=
    d.get
  -- the frame from `st` for the effects of the mounted tree
  have hxT : ExtM K (fun y => y = e ∨ y ∈ (mine.flatMap heldOf).map (·.1)) st F := by
    refine ⟨⟨[], by rw [d.prog]; simp⟩, ?_, ?_, fun y hy => by rw [d.tasks]; exact hy⟩
    · intro i hi
      rcases hi with hi | hi
      · subst hi; exact hke
      · exact (hzbound i (hLz i hi)).1
    · intro i _ _ ha
      rw [hFget i, if_neg (fun hh => ha (Or.inr hh)), g2 i (fun hh => ha (Or.inl hh))]
  refine ⟨hrmF, ⟨t, by rw [d.root]; exact ht.root, ?_, ?_, ?_⟩, ?_, ?_, ?_⟩
  · refine GoodM.extM hxT v t ht.good ?_
    intro y hy hA
    rcases hA with hA | hA
    · exact het (hA ▸ hy)
    · have h1 := ht.uniq y
      have h2 : 1 ≤ (effsOf t).count y := List.one_le_count_iff.2 hy
      have h3 : 1 ≤ (zEffs st.zombies).count y := List.one_le_count_iff.2 (hLz y hA)
      omega
  · intro y
    rw [d.zombies]
    show (effsOf t).count y + (zEffs (rest ++ mine.flatMap heldOf)).count y ≤ 1
    rw [zEffs_append, List.count_append, zEffs_heldOf]
    have := zEffs_ids_count mine y
    have := hsplit y
    have := ht.uniq y
    omega
  · intro y hy
    have hy' : y ∈ st.tasks := by rw [d.tasks] at hy; exact hy
    have hdone_e : (F.rs.get e).done = true := by
      rw [hFget e]; split
      · rw [killed_done, g2e]
      · rw [g2e]
    by_cases hye : y = e
    · subst hye; exact Or.inl ⟨hdone_e, hie.of_prog d.prog⟩
    · rcases ht.tasks y hy' with hd | hd | hd
      · left
        refine ⟨?_, hd.2.of_prog d.prog⟩
        rw [hFget y]; split
        · rw [killed_done, g2 y hye]; exact hd.1
        · rw [g2 y hye]; exact hd.1
      · exact Or.inr (Or.inl hd)
      · right; right
        rw [d.zombies]
        show y ∈ zEffs (rest ++ mine.flatMap heldOf)
        rw [zEffs_mem_append, zEffs_heldOf]
        have h1 : 1 ≤ (zEffs st.zombies).count y := List.one_le_count_iff.2 hd
        have h2 := hsplit y
        have h3 := zEffs_ids_count mine y
        have h4 : (mine.map (·.1)).count y = 0 := by
          rw [List.count_eq_zero]; intro hm
          obtain ⟨z, hz, hzz⟩ := List.mem_map.1 hm
          exact hye (by rw [← hzz]; exact (hmine_sub z hz).2)
        by_cases hin : y ∈ zEffs rest
        · exact Or.inl hin
        · have : (zEffs rest).count y = 0 := List.count_eq_zero.2 hin
          exact Or.inr (List.one_le_count_iff.1 (by omega))
  · intro z hz sub hsub
    rw [d.zombies] at hz
    rcases List.mem_append.1 hz with hz | hz
    · exact (h.zok z (hrest_sub z hz) sub hsub).of_prog d.prog
    · exact ((hL z hz).2 sub hsub).of_prog d.prog
  · intro z hz
    rw [d.zombies] at hz
    rcases List.mem_append.1 hz with hz | hz
    · have := h.zdead z (hrest_sub z hz)
      rw [hFget z.1]; split
      · exact killed_alive_le _ (by rw [halive2]; exact this)
      · rw [halive2]; exact this
    · have hm : z.1 ∈ (mine.flatMap heldOf).map (·.1) := List.mem_map.2 ⟨z, hz, rfl⟩
      rw [hFget z.1, if_pos hm]
      have hb := hzbound z.1 (hLz z.1 hm)
      exact killed_alive_eff _ (by rw [hkind2]; exact hb.2.kind h.rm)
  · intro z hz
    rw [d.zombies] at hz
    rcases List.mem_append.1 hz with hz | hz
    · have := h.zb z (hrest_sub z hz); exact ⟨this.1, this.2.of_prog d.prog⟩
    · have := hzbound z.1 (hLz z.1 (List.mem_map.2 ⟨z, hz, rfl⟩)); exact ⟨this.1, this.2.of_prog d.prog⟩

/-! ## the DOM phase of a re-run -/

/-- **the re-run of an effect keeps the invariant**, wherever the effect lives: `rs'` is the reactive
state after the effect's body ran (every other effect kept its stable part), `w` the value it stored -/
theorem InvCM.run {K : Nat} {v : View} {st : St} (h : InvCM K v st) (hre : RerunOK K v)
    {e : Nat} (hke : K ≤ e) (hie : IsEff st e)
    (healive : (st.rs.get e).alive = true) (hedone : (st.rs.get e).done = false)
    (hwhere : ∀ t, st.root = some t → e ∈ effsOf t ∨ e ∈ zEffs st.zombies)
    {rs' : State} (ra : SK (· = e) st.rs rs') (hrm' : RM K { st with rs := rs' }) (w : Int)
    (hval : (rs'.get e).val.getD 0 = w) (hetask : e ∈ st.tasks) :
    InvCM K v (rerun { st with rs := rs' } e w) ∧
    ((rerun { st with rs := rs' } e w).rs.get e).alive = true ∧
    ((rerun { st with rs := rs' } e w).rs.get e).done = false ∧
    e ∈ (rerun { st with rs := rs' } e w).tasks ∧ IsEff (rerun { st with rs := rs' } e w) e := by
  obtain ⟨t, ht⟩ := h.tree
  have hlt := hie.lt
  have hzbound := zEffs_boundM h.zb h.zok
  have hndt : (effsOf t).Nodup := by
    rw [List.nodup_iff_count]; intro y; have := ht.uniq y; omega
  have hke_k := hie.kind h.rm
  have hlife := ra.lf e hke_k
  simp only [life, Prod.mk.injEq] at hlife
  rw [rerun_some { st with rs := rs' } e _ t ht.root]
  by_cases hm : e ∈ effsOf t
  · -- the effect is mounted
    have hi0 : RM K ({ ({ st with rs := rs' } : St) with root := none }) := hrm'.of_rs_prog rfl rfl
    have hx0 : ExtM K (· = e) st ({ ({ st with rs := rs' } : St) with root := none }) :=
      ExtM.of_sk (fun i hi => by subst hi; exact hke) rfl ra (fun _ h => h)
    have hothers : ∀ e' x'' cur', e' ≠ e → EM K st e' x'' cur' →
        EM K ({ ({ st with rs := rs' } : St) with root := none }) e' x'' cur' :=
      fun e' x'' cur' hne hk => hk.ext hx0 hne
    have hself : ∀ x'' (cur0 : Int → Prop), EM K st e x'' cur0 → ∀ cur' : Int → Prop, cur' w →
        EM K ({ ({ st with rs := rs' } : St) with root := none }) e x'' cur' := by
      intro x'' cur0 hk cur' hc'
      refine ⟨hk.ke, hk.lt, hk.prog, hk.nw, ?_, ?_, ?_, ?_, hk.task, ?_⟩
      · show (rs'.get e).kind = .eff; rw [ra.kind]; exact hk.kind
      · show (rs'.get e).alive = true; rw [hlife.1]; exact hk.alive
      · show (rs'.get e).done = false; rw [hlife.2.1]; exact hk.done
      · show (rs'.get e).first = false; rw [hlife.2.2.1]; exact hk.first
      · show cur' ((rs'.get e).val.getD 0); rw [hval]; exact hc'
    have hq : ∀ m c, ShowMemo K st m c → ShowMemo K ({ ({ st with rs := rs' } : St) with root := none }) m c :=
      fun m c hq' => hq'
    have hr := hre hi0 (e := e) (w := w) (P0 := EM K st) (Q0 := ShowMemo K st)
      hothers hself hq t ht.good hndt
    have hkeep := rerunIn_keeps e w t ({ ({ st with rs := rs' } : St) with root := none }) hm
    have hcnt_e : (zEffs (newZ ({ ({ st with rs := rs' } : St) with root := none })
        (rerunIn e w t ({ ({ st with rs := rs' } : St) with root := none })).2.1)).count e = 0 := by
      have h1 := hr.cnt e hlt
      have h2 : 1 ≤ (effsOf (rerunIn e w t ({ ({ st with rs := rs' } : St) with root := none })).1).count e :=
        List.one_le_count_iff.2 hkeep
      have h3 := List.nodup_iff_count.1 hndt e
      omega
    have hzA : (afterRoot { st with rs := rs' } e w t).zombies = st.zombies ++
        newZ ({ ({ st with rs := rs' } : St) with root := none })
          (rerunIn e w t ({ ({ st with rs := rs' } : St) with root := none })).2.1 := hr.zomb
    have habs : ∀ z ∈ (afterRoot { st with rs := rs' } e w t).zombies, ∀ hh, z.2 = some hh → e ∉ effsOf hh := by
      intro z hz hh hhh hmem
      rw [hzA] at hz
      rcases List.mem_append.1 hz with hz | hz
      · have h1 := ht.uniq e
        have h2 : 1 ≤ (effsOf t).count e := List.one_le_count_iff.2 hm
        have h3 : 1 ≤ (zEffs st.zombies).count e := List.one_le_count_iff.2 (mem_zEffs_held hz hhh hmem)
        omega
      · have h3 : 1 ≤ (zEffs (newZ ({ ({ st with rs := rs' } : St) with root := none })
            (rerunIn e w t ({ ({ st with rs := rs' } : St) with root := none })).2.1)).count e :=
          List.one_le_count_iff.2 (mem_zEffs_held hz hhh hmem)
        omega
    have hst_e := hr.ext.keep e hlt (show (rs'.get e).kind = .eff by rw [ra.kind]; exact hke_k)
      (fun hmm => by have := List.one_le_count_iff.2 hmm; omega)
    simp only [stab, Prod.mk.injEq] at hst_e
    unfold zpass
    rw [rerunZombies_absent e w _ _ habs]
    dsimp only
    refine ⟨?_, ?_, ?_, ?_, ?_⟩
    · refine InvCM.of_rerun h ht hm ra (s0 := { ({ st with rs := rs' } : St) with root := none }) rfl rfl rfl rfl hr
        hkeep rfl rfl rfl rfl ?_
      show (afterRoot { st with rs := rs' } e w t).zombies ++ [] = _
      rw [List.append_nil, hzA]
    · show ((rerunIn e w t ({ ({ st with rs := rs' } : St) with root := none })).2.1.rs.get e).alive = true
      rw [hst_e.2.2.1]; show (rs'.get e).alive = true; rw [hlife.1]; exact healive
    · show ((rerunIn e w t ({ ({ st with rs := rs' } : St) with root := none })).2.1.rs.get e).done = false
      rw [hst_e.2.2.2.1]; show (rs'.get e).done = false; rw [hlife.2.1]; exact hedone
    · exact hr.ext.tasks e hetask
    · have h1 : IsEff (rerunIn e w t ({ ({ st with rs := rs' } : St) with root := none })).2.1 e :=
        IsEff.extM (st := { ({ st with rs := rs' } : St) with root := none }) hie hr.ext
      exact h1.of_prog rfl
  · -- the effect lives in a tree held by a zombie
    have hez : e ∈ zEffs st.zombies := (hwhere t ht.root).resolve_left hm
    have hroot0 : rerunIn e w t ({ ({ st with rs := rs' } : St) with root := none }) =
        (t, { ({ st with rs := rs' } : St) with root := none }, 0) := rerunIn_absent e w t _ hm
    have hA : afterRoot { st with rs := rs' } e w t = rootSame { st with rs := rs' } t := by
      unfold afterRoot rootSame; rw [hroot0]
    rw [hA]
    have hzp : zpass (rootSame { st with rs := rs' } t) e w =
        { (rerunZombies e w st.zombies (noZ (rootSame { st with rs := rs' } t))).2 with
          zombies := (rerunZombies e w st.zombies (noZ (rootSame { st with rs := rs' } t))).1 ++
            (rerunZombies e w st.zombies (noZ (rootSame { st with rs := rs' } t))).2.zombies } := rfl
    rw [hzp]
    generalize hsZ : noZ (rootSame { st with rs := rs' } t) = sZ
    have hpZ : sZ.prog = st.prog := by rw [← hsZ]; rfl
    have hrZ : sZ.rs = rs' := by rw [← hsZ]; rfl
    have htZ : sZ.tasks = st.tasks := by rw [← hsZ]; rfl
    have hzZ : sZ.zombies = [] := by rw [← hsZ]; rfl
    have hrootZ : sZ.root = some t := by rw [← hsZ]; rfl
    have hiZ : RM K sZ := hrm'.of_rs_prog hpZ hrZ
    have hz := rerunZombies_specM (K := K) e w st.zombies sZ hiZ
      (fun z hz' hh hhh => (h.zok z hz' hh hhh).of_prog hpZ)
      (fun y => by have := ht.uniq y; omega)
      (fun y hy => by rw [hpZ]; exact (hzbound y hy).2.lt)
    have hnz : (rerunZombies e w st.zombies sZ).2.zombies = newZ sZ (rerunZombies e w st.zombies sZ).2 := by
      have := hz.zomb; rw [hzZ] at this; simpa using this
    have hkeep := rerunZombies_keeps e w st.zombies sZ hez
    have hcnt : (zEffs (newZ sZ (rerunZombies e w st.zombies sZ).2)).count e = 0 := by
      have h1 := hz.cnt e (by rw [hpZ]; exact hlt)
      have h2 : 1 ≤ (zEffs (rerunZombies e w st.zombies sZ).1).count e := List.one_le_count_iff.2 hkeep
      have h3 := ht.uniq e
      omega
    have hst_e := hz.ext.keep e (by rw [hpZ]; exact hlt) (show (sZ.rs.get e).kind = .eff by
        rw [hrZ, ra.kind]; exact hke_k)
      (fun hmm => by have := List.one_le_count_iff.2 hmm; omega)
    rw [hrZ] at hst_e
    simp only [stab, Prod.mk.injEq] at hst_e
    refine ⟨?_, ?_, ?_, ?_, ?_⟩
    · refine InvCM.of_zrerun h ht hm hke healive hedone ra hpZ hrZ htZ hz rfl rfl rfl ?_ ?_
      · show (rerunZombies e w st.zombies sZ).2.root = some t
        rw [hz.root]; exact hrootZ
      · show (rerunZombies e w st.zombies sZ).1 ++ (rerunZombies e w st.zombies sZ).2.zombies = _
        rw [hnz]
    · show ((rerunZombies e w st.zombies sZ).2.rs.get e).alive = true
      rw [hst_e.2.2.1, hlife.1]; exact healive
    · show ((rerunZombies e w st.zombies sZ).2.rs.get e).done = false
      rw [hst_e.2.2.2.1, hlife.2.1]; exact hedone
    · exact hz.ext.tasks e (by rw [htZ]; exact hetask)
    · have h1 : IsEff (rerunZombies e w st.zombies sZ).2 e := (hie.of_prog hpZ).extM hz.ext
      exact h1.of_prog rfl

end Leptos.RView
