import LeptosModel.Model.ServerFn
/-!
# Proofs/ServerFnErr — lemmas for C13, error wire format

Table facts over the *extracted* `Gen.ErrorKinds` tables are discharged by `decide` (the quantifier is the
finite source table); they are lifted to all messages by `splitOnce_append` and `assoc_mem`.
-/
namespace Leptos.ServerFn
open Leptos.Gen.ErrorKinds

theorem assoc_mem {β : Type} (k : Str) (l : List (Str × β)) (v : β) (h : assoc k l = some v) : (k, v) ∈ l := by
  induction l with
  | nil => simp [assoc] at h
  | cons kv rest ih =>
    obtain ⟨k', v'⟩ := kv
    simp only [assoc] at h
    split at h
    · next hk => simp at h; subst hk; subst h; simp
    · simp [ih h]

/-- splitting `prefix ++ sep :: msg` at the first separator returns exactly the two parts when the prefix
contains no separator — whatever the message contains -/
theorem splitOnce_append (sep : Char) (p msg : Str) (h : ∀ c ∈ p, c ≠ sep) :
    splitOnce sep (p ++ sep :: msg) = some (p, msg) := by
  induction p with
  | nil => simp [splitOnce]
  | cons c cs ih =>
    have hc : c ≠ sep := h c (by simp)
    have := ih (fun x hx => h x (by simp [hx]))
    simp [splitOnce, hc, this]

/-- a string without separator has no split -/
theorem splitOnce_none (sep : Char) (s : Str) (h : ∀ c ∈ s, c ≠ sep) : splitOnce sep s = none := by
  induction s with
  | nil => simp [splitOnce]
  | cons c cs ih =>
    have hc : c ≠ sep := h c (by simp)
    simp [splitOnce, hc, ih (fun x hx => h x (by simp [hx]))]

/-- is the variant the one wrapping the custom type -/
def isCustomKind (k : Str) : Bool := assoc k variants == some true

/-! ## facts of the extracted table (finite: `decide`) -/

/-- every `encode` arm: its variant is looked up to this very prefix (variants pairwise distinct), the prefix
contains no separator, and `decode` maps the prefix back to the same variant, through `from_str` exactly for
the custom variant -/
theorem table_encode_decode :
    ∀ vp ∈ encodeArms,
      assoc vp.1 encodeArms = some vp.2 ∧ (∀ c ∈ vp.2, c ≠ separator) ∧
      assoc vp.2 decodeArms = some (vp.1, isCustomKind vp.1) := by decide

/-- every `decode` arm: the prefix is looked up to this very arm (prefixes pairwise distinct) and `encode`
writes that prefix for the arm's variant: the two tables are inverse to each other -/
theorem table_decode_encode :
    ∀ t ∈ decodeArms, assoc t.1 decodeArms = some t.2 ∧ assoc t.2.1 encodeArms = some t.1 := by decide

theorem table_prefixes_distinct : (encodeArms.map (·.2)).Nodup := by decide

theorem table_variants_distinct : (encodeArms.map (·.1)).Nodup := by decide

theorem table_prefixes_sep_free : ∀ vp ∈ encodeArms, ∀ c ∈ vp.2, c ≠ separator := by decide

/-- `encode` has exactly one arm per variant of the enum, `decode` only produces variants of the enum -/
theorem table_covers_enum :
    encodeArms.map (·.1) = variants.map (·.1) ∧ ∀ t ∈ decodeArms, t.2.1 ∈ variants.map (·.1) := by decide

theorem deserialization_declared :
    deserializationKind ∈ variants.map (·.1) ∧ deserializationKind ≠ "UnsupportedRequestMethod".toList := by decide

end Leptos.ServerFn
