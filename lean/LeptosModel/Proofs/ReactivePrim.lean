import LeptosModel.Proofs.ReactiveMark
/-!
# Proofs/ReactivePrim — `track`, `clearSources`, `noteRun`: the start of a memo run
-/
namespace Leptos.Reactive

/-! ## subscribe -/

theorem mem_subscribe {l : List Nat} {o w : Nat} : w ∈ subscribe l o ↔ w ∈ l ∨ w = o := by
  unfold subscribe
  split
  · next h =>
    have : o ∈ l := by simpa using h
    constructor
    · exact .inl
    · rintro (h | rfl)
      · exact h
      · exact this
  · simp

theorem nodup_subscribe {l : List Nat} {o : Nat} (h : l.Nodup) : (subscribe l o).Nodup := by
  unfold subscribe
  split
  · exact h
  · next hc =>
    have hn : o ∉ l := by simpa using hc
    rw [List.nodup_append]
    refine ⟨h, by simp, ?_⟩
    intro a ha b hb
    simp only [List.mem_singleton] at hb
    subst hb
    intro hab; subst hab; exact hn ha

/-! ## the running node during the evaluation of its body -/

structure RunLoc (s : State) (m : Nat) : Prop where
  obs : s.obs = some m
  kind : (s.get m).kind = .memo
  running : (s.get m).running = true
  lowest : ∀ r, (s.get r).running = true → m ≤ r
  srcSeen : (s.get m).sources = (s.get m).seen.map (·.1)
  seenOk : ∀ e ∈ (s.get m).seen,
    (s.get e.1).st = .clean ∧ (s.get e.1).val = some e.2.1

/-! ## track -/

structure TrackPost (s s1 : State) (m x : Nat) : Prop where
  len : s1.nodes.length = s.nodes.length
  obs : s1.obs = s.obs
  log : s1.log = s.log
  gm : s1.get m = { s.get m with sources := (s.get m).sources ++ [x] }
  gx : s1.get x = { s.get x with subs := subscribe (s.get x).subs m }
  go : ∀ i, i ≠ m → i ≠ x → s1.get i = s.get i

theorem track_post {s : State} {m x : Nat} (ho : s.obs = some m) (hm : m < s.nodes.length)
    (hx : x < m) : TrackPost s (track s x) m x := by
  have hxm : x ≠ m := Nat.ne_of_lt hx
  have hxl : x < s.nodes.length := Nat.lt_trans hx hm
  unfold track
  rw [ho]
  simp only
  refine ⟨by simp, rfl, rfl, ?_, ?_, ?_⟩
  · rw [State.get_upd_ne _ _ hxm, State.get_upd_same _ _ hm]
  · rw [State.get_upd_same _ _ (by simpa using hxl), State.get_upd_ne _ _ (Ne.symm hxm)]
  · intro i him hix
    rw [State.get_upd_ne _ _ (Ne.symm hix), State.get_upd_ne _ _ (Ne.symm him)]

section
variable {s s1 : State} {m x : Nat}

theorem TrackPost.kind (t : TrackPost s s1 m x) (i : Nat) : (s1.get i).kind = (s.get i).kind := by
  by_cases h1 : i = m
  · subst h1; rw [t.gm]
  · by_cases h2 : i = x
    · subst h2; rw [t.gx]
    · rw [t.go i h1 h2]
theorem TrackPost.val (t : TrackPost s s1 m x) (i : Nat) : (s1.get i).val = (s.get i).val := by
  by_cases h1 : i = m
  · subst h1; rw [t.gm]
  · by_cases h2 : i = x
    · subst h2; rw [t.gx]
    · rw [t.go i h1 h2]
theorem TrackPost.st (t : TrackPost s s1 m x) (i : Nat) : (s1.get i).st = (s.get i).st := by
  by_cases h1 : i = m
  · subst h1; rw [t.gm]
  · by_cases h2 : i = x
    · subst h2; rw [t.gx]
    · rw [t.go i h1 h2]
theorem TrackPost.running (t : TrackPost s s1 m x) (i : Nat) :
    (s1.get i).running = (s.get i).running := by
  by_cases h1 : i = m
  · subst h1; rw [t.gm]
  · by_cases h2 : i = x
    · subst h2; rw [t.gx]
    · rw [t.go i h1 h2]
theorem TrackPost.seen (t : TrackPost s s1 m x) (i : Nat) : (s1.get i).seen = (s.get i).seen := by
  by_cases h1 : i = m
  · subst h1; rw [t.gm]
  · by_cases h2 : i = x
    · subst h2; rw [t.gx]
    · rw [t.go i h1 h2]
theorem TrackPost.ver (t : TrackPost s s1 m x) (i : Nat) : (s1.get i).ver = (s.get i).ver := by
  by_cases h1 : i = m
  · subst h1; rw [t.gm]
  · by_cases h2 : i = x
    · subst h2; rw [t.gx]
    · rw [t.go i h1 h2]
theorem TrackPost.runs (t : TrackPost s s1 m x) (i : Nat) : (s1.get i).runs = (s.get i).runs := by
  by_cases h1 : i = m
  · subst h1; rw [t.gm]
  · by_cases h2 : i = x
    · subst h2; rw [t.gx]
    · rw [t.go i h1 h2]
theorem TrackPost.sources (t : TrackPost s s1 m x) (hxm : x ≠ m) (i : Nat) (hi : i ≠ m) :
    (s1.get i).sources = (s.get i).sources := by
  by_cases h2 : i = x
  · subst h2; rw [t.gx]
  · rw [t.go i hi h2]
theorem TrackPost.subs (t : TrackPost s s1 m x) (hxm : x ≠ m) (i : Nat) (hi : i ≠ x) :
    (s1.get i).subs = (s.get i).subs := by
  by_cases h1 : i = m
  · subst h1; rw [t.gm]
  · rw [t.go i h1 hi]
theorem TrackPost.sources_m (t : TrackPost s s1 m x) :
    (s1.get m).sources = (s.get m).sources ++ [x] := by rw [t.gm]
theorem TrackPost.subs_x (t : TrackPost s s1 m x) :
    (s1.get x).subs = subscribe (s.get x).subs m := by rw [t.gx]
theorem TrackPost.core (t : TrackPost s s1 m x) (i : Nat) (h1 : i ≠ m) (h2 : i ≠ x) :
    (s1.get i).core = (s.get i).core := by rw [t.go i h1 h2]

end

theorem track_inv {p : Prog} {s s1 : State} {m x : Nat} (h : InvR p s) (t : TrackPost s s1 m x)
    (hx : x < m) (hmr : (s.get m).kind = .memo → (s.get m).running = true)
    (hkx : (s.get x).kind ≠ .eff) : InvR p s1 := by
  have hxm : x ≠ m := Nat.ne_of_lt hx
  constructor
  · exact t.len.trans h.len
  · intro i d hd; rw [t.kind]; exact h.kind i d hd
  · intro i hi hki; rw [t.kind] at hki; rw [t.st, t.running, t.val]; exact h.sigOk i hi hki
  · intro o ho; rw [t.obs] at ho; rw [t.running]; exact h.obsRun o ho
  · intro a w
    by_cases ha : a = x
    · subst ha
      rw [t.subs_x, mem_subscribe]
      by_cases hw : w = m
      · subst hw; rw [t.sources_m]; simp
      · rw [t.sources hxm w hw, ← h.edge]; simp [hw]
    · rw [t.subs hxm a ha]
      by_cases hw : w = m
      · subst hw; rw [t.sources_m, h.edge]; simp [ha]
      · rw [t.sources hxm w hw]; exact h.edge a w
  · intro a
    by_cases ha : a = x
    · subst ha; rw [t.subs_x]; exact nodup_subscribe (h.nodup a)
    · rw [t.subs hxm a ha]; exact h.nodup a
  · intro w a ha
    by_cases hw : w = m
    · subst hw
      rw [t.sources_m, List.mem_append, List.mem_singleton] at ha
      rcases ha with ha | rfl
      · exact h.srcLt w a ha
      · exact hx
    · rw [t.sources hxm w hw] at ha; exact h.srcLt w a ha
  · intro r hkr hrr; rw [t.kind] at hkr; rw [t.running] at hrr; rw [t.st]; exact h.runNC r hkr hrr
  · intro a w hka hsa hw hkw
    rw [t.kind] at hka hkw; rw [t.st] at hsa ⊢
    by_cases ha : a = x
    · subst ha
      rw [t.subs_x, mem_subscribe] at hw
      rcases hw with hw | rfl
      · exact h.closed a w hka hsa hw hkw
      · exact h.runNC w hkw (hmr hkw)
    · rw [t.subs hxm a ha] at hw; exact h.closed a w hka hsa hw hkw
  · intro i hki hri
    rw [t.kind] at hki; rw [t.running] at hri
    have him : i ≠ m := by intro e; subst e; rw [hmr hki] at hri; cases hri
    rw [t.sources hxm i him, t.seen]; exact h.srcSeen i hki hri
  · intro i hki hri hv
    rw [t.kind] at hki; rw [t.running] at hri; rw [t.val] at hv; rw [t.st]
    exact h.valNone i hki hri hv
  · intro i hki hri hst
    rw [t.kind] at hki; rw [t.running] at hri; rw [t.st] at hst
    exact (h.replay i hki hri hst).congr (t.seen i) (t.val i)
  · intro i hki hri hst e he
    rw [t.kind] at hki; rw [t.running] at hri; rw [t.st] at hst; rw [t.seen] at he
    rw [t.running, t.val]
    exact h.srcVal i hki hri hst e he
  · intro i hki hri hst hruns
    rw [t.kind] at hki; rw [t.running] at hri; rw [t.st] at hst; rw [t.runs] at hruns
    obtain ⟨e, he, hne⟩ := h.verDirty i hki hri hst hruns
    exact ⟨e, by rw [t.seen]; exact he, by rw [t.ver]; exact hne⟩
  · intro w e he
    rw [t.seen] at he; rw [t.ver]; exact h.verLe w e he
  · intro w a ha
    rw [t.kind]
    by_cases hw : w = m
    · subst hw
      rw [t.sources_m, List.mem_append, List.mem_singleton] at ha
      rcases ha with ha | rfl
      · exact h.srcData w a ha
      · exact hkx
    · rw [t.sources hxm w hw] at ha; exact h.srcData w a ha

theorem track_frame {s s1 : State} {m x : Nat} (t : TrackPost s s1 m x) (hx : x < m)
    (hkm : (s.get m).kind = .memo) (hkx : (s.get x).kind ≠ .eff) :
    Frame s s1 (m + 1) where
  len := t.len
  kind := t.kind
  clean i hi := ⟨by rw [t.st]; exact hi, t.val i⟩
  verMono i := by rw [t.ver]; exact Nat.le_refl _
  sigVer i _ := t.ver i
  above i hi := ⟨t.core i (by omega) (by omega), .inl (t.st i)⟩
  log hl := by intro i; rw [t.log]; exact hl i
  effCore i hk := by
    by_cases h1 : i = m
    · subst h1; rw [hkm] at hk; cases hk
    · by_cases h2 : i = x
      · subst h2; exact absurd hk hkx
      · exact t.core i h1 h2
  effD i _ hd := by
    by_cases h1 : i = m
    · subst h1; rw [t.gm] at hd; exact .inl hd
    · by_cases h2 : i = x
      · subst h2; rw [t.gx] at hd; exact .inl hd
      · rw [t.go i h1 h2] at hd; exact .inl hd
  flags := FlagRel.of_same (fun i => by
    by_cases h1 : i = m
    · subst h1; rw [t.gm]; exact ⟨rfl, rfl, rfl⟩
    · by_cases h2 : i = x
      · subst h2; rw [t.gx]; exact ⟨rfl, rfl, rfl⟩
      · rw [t.go i h1 h2]; exact ⟨rfl, rfl, rfl⟩)
  logx := LogExt.of_eq t.log
  runsx := RunsX.of_quiet (LogExt.of_eq t.log) t.runs

/-! ## clearSources -/

theorem foldl_erase_get (id : Nat) : ∀ (l : List Nat) (s : State), (∀ i, (s.get i).subs.Nodup) → ∀ i,
    (l.foldl (fun s src => s.upd src fun n => { n with subs := n.subs.erase id }) s).get i =
      if i ∈ l then { s.get i with subs := (s.get i).subs.erase id } else s.get i
  | [], s, _, i => by simp
  | x :: l, s, hnd, i => by
    rw [List.foldl_cons]
    have hnd1 : ∀ i, ((s.upd x fun n => { n with subs := n.subs.erase id }).get i).subs.Nodup := by
      intro j
      rw [State.get_upd]; split
      · exact (hnd j).erase id
      · exact hnd j
    rw [foldl_erase_get id l _ hnd1 i]
    by_cases hix : i = x
    · subst hix
      simp only [List.mem_cons, true_or, if_true]
      rcases Nat.lt_or_ge i s.nodes.length with hlt | hge
      · rw [State.get_upd_same _ _ hlt]
        split
        · have hn : id ∉ (s.get i).subs.erase id := by
            intro hmem
            exact ((hnd i).mem_erase_iff.1 hmem).1 rfl
          simp only [List.erase_of_not_mem hn]
        · rfl
      · have e1 : (s.upd i fun n => { n with subs := n.subs.erase id }).get i = {} := by
          apply State.get_default; simpa using hge
        rw [e1, State.get_default s hge]
        split <;> rfl
    · rw [State.get_upd_ne _ _ (Ne.symm hix)]
      simp only [List.mem_cons, hix, false_or]

theorem foldl_erase_len (id : Nat) : ∀ (l : List Nat) (s : State),
    (l.foldl (fun s src => s.upd src fun n => { n with subs := n.subs.erase id }) s).nodes.length =
      s.nodes.length
  | [], _ => rfl
  | x :: l, s => by rw [List.foldl_cons, foldl_erase_len id l]; simp

theorem foldl_erase_log (id : Nat) : ∀ (l : List Nat) (s : State),
    (l.foldl (fun s src => s.upd src fun n => { n with subs := n.subs.erase id }) s).log = s.log
  | [], _ => rfl
  | x :: l, s => by rw [List.foldl_cons, foldl_erase_log id l]; rfl

theorem foldl_erase_obs (id : Nat) : ∀ (l : List Nat) (s : State),
    (l.foldl (fun s src => s.upd src fun n => { n with subs := n.subs.erase id }) s).obs = s.obs
  | [], _ => rfl
  | x :: l, s => by rw [List.foldl_cons, foldl_erase_obs id l]; rfl

theorem noteRun_get (s : State) (id i : Nat) :
    (noteRun s id).get i =
      if id = i ∧ i < s.nodes.length then
        { s.get i with seen := [], runs := (s.get i).runs + 1, running := true }
      else s.get i := by
  unfold noteRun
  simp only [State.emit_get]
  split
  · rw [State.get_upd]
  · rw [State.get_upd]; simp only [State.emit_get, State.emit_nodes]; rfl

theorem noteRun_len (s : State) (id : Nat) : (noteRun s id).nodes.length = s.nodes.length := by
  unfold noteRun; simp only [State.emit_nodes, State.upd_length]; split <;> rfl

theorem noteRun_log (s : State) (id : Nat) :
    (noteRun s id).log = s.log ++ ((if justified s id then [] else [Ev.unjust id]) ++ [Ev.ran id]) := by
  unfold noteRun
  simp only [State.emit_log, State.upd_log]
  split <;> simp

theorem countRan_noteRun (s : State) (id i : Nat) :
    countRan i ((if justified s id then [] else [Ev.unjust id]) ++ [Ev.ran id]) = if id = i then 1 else 0 := by
  rw [countRan_append]
  have h1 : countRan i (if justified s id then [] else [Ev.unjust id]) = 0 := by
    split <;> simp [countRan]
  rw [h1]
  by_cases h : id = i
  · subst h; simp [countRan]
  · simp only [h, if_false, countRan, Nat.zero_add]
    rw [List.countP_eq_zero]
    intro ev hev
    rw [List.mem_singleton.1 hev]
    simp only [decide_eq_true_eq]
    intro hc; cases hc; exact h rfl

/-- the state at the start of a memo run -/
def startRun (s : State) (id : Nat) : State :=
  let s := s.upd id fun n => { n with val := none }
  let s := clearSources s id
  let s := noteRun s id
  { s with obs := some id }

structure StartPost (s s4 : State) (m : Nat) : Prop where
  len : s4.nodes.length = s.nodes.length
  obs : s4.obs = some m
  gm : s4.get m = { s.get m with val := none, sources := [], seen := [], runs := (s.get m).runs + 1, running := true }
  go : ∀ i, i ≠ m → s4.get i = { s.get i with subs := (s.get i).subs.erase m }
  log : LogOK s → ((s.get m).runs ≠ 0 → ∃ e ∈ (s.get m).seen, (s.get e.1).ver ≠ e.2.2) → LogOK s4
  logx : LogExt (fun ev => ev = .unjust m ∨ ev = .ran m) s s4
  runsx : RunsX s s4
  logs : ∃ pre, s4.log = s.log ++ (pre ++ [Ev.ran m]) ∧ ∀ ev ∈ pre, ev = Ev.unjust m

theorem startRun_post {s : State} {m : Nat} (hnd : ∀ i, (s.get i).subs.Nodup)
    (hedge : ∀ i, i ∉ (s.get m).sources → m ∉ (s.get i).subs) (hself : m ∉ (s.get m).sources)
    (hm : m < s.nodes.length) : StartPost s (startRun s m) m := by
  generalize hs1 : (s.upd m fun n => { n with val := none }) = s1
  have g1m : s1.get m = { s.get m with val := none } := by subst hs1; rw [State.get_upd_same _ _ hm]
  have g1o : ∀ i, i ≠ m → s1.get i = s.get i := by
    intro i hi; subst hs1; rw [State.get_upd_ne _ _ (Ne.symm hi)]
  have subs1 : ∀ i, (s1.get i).subs = (s.get i).subs := by
    intro i; by_cases hi : i = m
    · subst hi; rw [g1m]
    · rw [g1o i hi]
  have len1 : s1.nodes.length = s.nodes.length := by subst hs1; simp
  have hnd1 : ∀ i, (s1.get i).subs.Nodup := fun i => by rw [subs1]; exact hnd i
  have src1 : (s1.get m).sources = (s.get m).sources := by rw [g1m]
  generalize hs2 : ((s1.get m).sources.foldl
    (fun s src => s.upd src fun n => { n with subs := n.subs.erase m }) s1) = s2
  have g2 : ∀ i, s2.get i = if i ∈ (s1.get m).sources then
      { s1.get i with subs := (s1.get i).subs.erase m } else s1.get i := by
    intro i; subst hs2; exact foldl_erase_get m _ s1 hnd1 i
  have len2 : s2.nodes.length = s.nodes.length := by
    subst hs2; rw [foldl_erase_len]; exact len1
  have log2 : s2.log = s.log := by
    subst hs2; rw [foldl_erase_log]; subst hs1; rfl
  have hms : m ∉ (s1.get m).sources := by rw [src1]; exact hself
  -- the state after clearSources
  have g2m : s2.get m = { s.get m with val := none } := by rw [g2 m, if_neg hms, g1m]
  have g2o : ∀ i, i ≠ m → s2.get i = { s.get i with subs := (s.get i).subs.erase m } := by
    intro i hi
    rw [g2 i, g1o i hi]
    split
    · rfl
    · next hni =>
      rw [src1] at hni
      have := hedge i hni
      simp only [List.erase_of_not_mem this]
  have hm2 : m < s2.nodes.length := by rw [len2]; exact hm
  have e : startRun s m =
      { (noteRun ((s2.upd m fun n => { n with sources := [] })) m) with obs := some m } := by
    subst hs2 hs1; rfl
  rw [e]
  generalize hs3 : (s2.upd m fun n => { n with sources := [] }) = s3
  have g3m : s3.get m = { s.get m with val := none, sources := [] } := by
    subst hs3; rw [State.get_upd_same _ _ hm2, g2m]
  have g3o : ∀ i, i ≠ m → s3.get i = { s.get i with subs := (s.get i).subs.erase m } := by
    intro i hi; subst hs3; rw [State.get_upd_ne _ _ (Ne.symm hi), g2o i hi]
  have len3 : s3.nodes.length = s.nodes.length := by subst hs3; simpa using len2
  have log3 : s3.log = s.log := by subst hs3; exact log2
  have hm3 : m < s3.nodes.length := by rw [len3]; exact hm
  have ver3 : ∀ i, (s3.get i).ver = (s.get i).ver := by
    intro i; by_cases hi : i = m
    · subst hi; rw [g3m]
    · rw [g3o i hi]
  have hrx : RunsX s ({ noteRun s3 m with obs := some m } : State) := by
    refine ⟨_, by show (noteRun s3 m).log = _; rw [noteRun_log, log3], fun i => ?_⟩
    rw [countRan_noteRun]
    show ((noteRun s3 m).get i).runs = _
    rw [noteRun_get]
    by_cases hmi : m = i
    · subst hmi
      rw [if_pos ⟨rfl, hm3⟩, if_pos rfl, g3m]
    · rw [if_neg (fun hc => hmi hc.1), if_neg hmi, g3o i (Ne.symm hmi)]; rfl
  unfold noteRun at hrx ⊢
  refine ⟨?_, rfl, ?_, ?_, ?_, ?_, hrx, ?_⟩
  · simp only [State.emit_nodes, State.upd_length]
    split <;> simpa using len3
  · simp only [State.setObs_get, State.emit_get]
    split
    · rw [State.get_upd_same _ _ hm3, g3m]
    · rw [State.get_upd_same _ _ (by simpa using hm3), State.emit_get, g3m]
  · intro i hi
    simp only [State.setObs_get, State.emit_get]
    split
    · rw [State.get_upd_ne _ _ (Ne.symm hi), g3o i hi]
    · rw [State.get_upd_ne _ _ (Ne.symm hi), State.emit_get, g3o i hi]
  · intro hl hj
    have hjust : justified s3 m = true := by
      unfold justified
      rw [g3m]
      simp only [Bool.or_eq_true, beq_iff_eq, List.any_eq_true]
      by_cases hr : (s.get m).runs = 0
      · exact .inl hr
      · obtain ⟨e, he, hne⟩ := hj hr
        refine .inr ⟨e, he, ?_⟩
        obtain ⟨x, v, vx⟩ := e
        simp only [ver3]
        simpa using hne
    rw [hjust]
    simp only [if_true]
    intro i hi
    simp only [State.emit_log, State.upd_log, List.mem_append, List.mem_singleton] at hi
    rcases hi with hi | hi
    · rw [log3] at hi; exact hl i hi
    · cases hi
  · simp only
    split
    · exact ⟨[.ran m], by simp [log3], fun ev hev => by
        rw [List.mem_singleton.1 hev]; exact .inr rfl⟩
    · exact ⟨[.unjust m, .ran m], by simp [log3], fun ev hev => by
        simp only [List.mem_cons, List.not_mem_nil, or_false] at hev
        rcases hev with h' | h'
        · exact .inl h'
        · exact .inr h'⟩
  · simp only
    split
    · exact ⟨[], by simp [log3], fun ev hev => by cases hev⟩
    · exact ⟨[.unjust m], by simp [log3], fun ev hev => List.mem_singleton.1 hev⟩

section
variable {s s4 : State} {m : Nat}

theorem StartPost.kind (t : StartPost s s4 m) (i : Nat) : (s4.get i).kind = (s.get i).kind := by
  by_cases h1 : i = m
  · subst h1; rw [t.gm]
  · rw [t.go i h1]
theorem StartPost.st (t : StartPost s s4 m) (i : Nat) : (s4.get i).st = (s.get i).st := by
  by_cases h1 : i = m
  · subst h1; rw [t.gm]
  · rw [t.go i h1]
theorem StartPost.ver (t : StartPost s s4 m) (i : Nat) : (s4.get i).ver = (s.get i).ver := by
  by_cases h1 : i = m
  · subst h1; rw [t.gm]
  · rw [t.go i h1]
theorem StartPost.val (t : StartPost s s4 m) (i : Nat) (h1 : i ≠ m) : (s4.get i).val = (s.get i).val := by
  rw [t.go i h1]
theorem StartPost.running (t : StartPost s s4 m) (i : Nat) (h1 : i ≠ m) :
    (s4.get i).running = (s.get i).running := by rw [t.go i h1]
theorem StartPost.seen (t : StartPost s s4 m) (i : Nat) (h1 : i ≠ m) :
    (s4.get i).seen = (s.get i).seen := by rw [t.go i h1]
theorem StartPost.runs (t : StartPost s s4 m) (i : Nat) (h1 : i ≠ m) :
    (s4.get i).runs = (s.get i).runs := by rw [t.go i h1]
theorem StartPost.sources (t : StartPost s s4 m) (i : Nat) (h1 : i ≠ m) :
    (s4.get i).sources = (s.get i).sources := by rw [t.go i h1]
theorem StartPost.subs (t : StartPost s s4 m) (i : Nat) (h1 : i ≠ m) :
    (s4.get i).subs = (s.get i).subs.erase m := by rw [t.go i h1]
theorem StartPost.subs_m (t : StartPost s s4 m) : (s4.get m).subs = (s.get m).subs := by rw [t.gm]
theorem StartPost.running_m (t : StartPost s s4 m) : (s4.get m).running = true := by rw [t.gm]
theorem StartPost.seen_m (t : StartPost s s4 m) : (s4.get m).seen = [] := by rw [t.gm]
theorem StartPost.sources_m (t : StartPost s s4 m) : (s4.get m).sources = [] := by rw [t.gm]
end

theorem startRun_inv {p : Prog} {s s4 : State} {m : Nat} (h : InvR p s) (t : StartPost s s4 m)
    (hk : (s.get m).kind = .memo) (hr : (s.get m).running = false) (hst : (s.get m).st ≠ .clean)
    (hlow : ∀ r, (s.get r).running = true → m < r) : InvR p s4 ∧ RunLoc s4 m := by
  have mem_subs : ∀ a w, a ≠ m → (w ∈ (s4.get a).subs ↔ w ≠ m ∧ w ∈ (s.get a).subs) := by
    intro a w ha; rw [t.subs a ha]; exact (h.nodup a).mem_erase_iff
  have hmm : m ∉ (s.get m).subs := by
    intro hc; exact Nat.lt_irrefl m (h.srcLt m m ((h.edge m m).1 hc))
  have sub_of : ∀ a w, w ∈ (s4.get a).subs → w ∈ (s.get a).subs := by
    intro a w hw
    by_cases ha : a = m
    · subst ha; rw [t.subs_m] at hw; exact hw
    · exact ((mem_subs a w ha).1 hw).2
  refine ⟨?_, ⟨t.obs, by rw [t.kind]; exact hk, t.running_m, ?_, by rw [t.sources_m, t.seen_m]; rfl,
    by rw [t.seen_m]; intro e he; cases he⟩⟩
  · constructor
    · exact t.len.trans h.len
    · intro i d hd; rw [t.kind]; exact h.kind i d hd
    · intro i hi hki
      rw [t.kind] at hki
      have him : i ≠ m := by intro e; subst e; rw [hk] at hki; cases hki
      rw [t.st, t.running i him, t.val i him]; exact h.sigOk i hi hki
    · intro o ho; rw [t.obs] at ho; cases ho; exact t.running_m
    · intro a w
      by_cases ha : a = m
      · subst ha
        rw [t.subs_m]
        by_cases hw : w = a
        · subst hw; rw [t.sources_m]; simp [hmm]
        · rw [t.sources w hw]; exact h.edge a w
      · rw [mem_subs a w ha]
        by_cases hw : w = m
        · subst hw; rw [t.sources_m]; simp
        · rw [t.sources w hw, ← h.edge]; simp [hw]
    · intro a
      by_cases ha : a = m
      · subst ha; rw [t.subs_m]; exact h.nodup a
      · rw [t.subs a ha]; exact (h.nodup a).erase m
    · intro w a ha
      by_cases hw : w = m
      · subst hw; rw [t.sources_m] at ha; cases ha
      · rw [t.sources w hw] at ha; exact h.srcLt w a ha
    · intro r hkr hrr
      rw [t.kind] at hkr; rw [t.st]
      by_cases hrm : r = m
      · subst hrm; exact hst
      · rw [t.running r hrm] at hrr; exact h.runNC r hkr hrr
    · intro a w hka hsa hw hkw
      rw [t.kind] at hka hkw; rw [t.st] at hsa ⊢
      exact h.closed a w hka hsa (sub_of a w hw) hkw
    · intro i hki hri
      rw [t.kind] at hki
      have him : i ≠ m := by intro e; subst e; rw [t.running_m] at hri; cases hri
      rw [t.running i him] at hri
      rw [t.sources i him, t.seen i him]; exact h.srcSeen i hki hri
    · intro i hki hri hv
      rw [t.kind] at hki
      have him : i ≠ m := by intro e; subst e; rw [t.running_m] at hri; cases hri
      rw [t.running i him] at hri; rw [t.val i him] at hv; rw [t.st]
      exact h.valNone i hki hri hv
    · intro i hki hri hsi
      rw [t.kind] at hki
      have him : i ≠ m := by intro e; subst e; rw [t.running_m] at hri; cases hri
      rw [t.running i him] at hri; rw [t.st] at hsi
      exact (h.replay i hki hri hsi).congr (t.seen i him) (t.val i him)
    · intro i hki hri hsi e he
      rw [t.kind] at hki
      have him : i ≠ m := by intro e; subst e; rw [t.running_m] at hri; cases hri
      rw [t.running i him] at hri; rw [t.st] at hsi; rw [t.seen i him] at he
      by_cases hem : e.1 = m
      · rw [hem]; exact .inl t.running_m
      · rw [t.running _ hem, t.val _ hem]; exact h.srcVal i hki hri hsi e he
    · intro i hki hri hsi hruns
      rw [t.kind] at hki
      have him : i ≠ m := by intro e; subst e; rw [t.running_m] at hri; cases hri
      rw [t.running i him] at hri; rw [t.st] at hsi; rw [t.runs i him] at hruns
      obtain ⟨e, he, hne⟩ := h.verDirty i hki hri hsi hruns
      exact ⟨e, by rw [t.seen i him]; exact he, by rw [t.ver]; exact hne⟩
    · intro w e he
      by_cases hw : w = m
      · subst hw; rw [t.seen_m] at he; cases he
      · rw [t.seen w hw] at he; rw [t.ver]; exact h.verLe w e he
    · intro w a ha
      rw [t.kind]
      by_cases hw : w = m
      · subst hw; rw [t.sources_m] at ha; cases ha
      · rw [t.sources w hw] at ha; exact h.srcData w a ha
  · intro r hrr
    by_cases hrm : r = m
    · subst hrm; exact Nat.le_refl _
    · rw [t.running r hrm] at hrr; exact Nat.le_of_lt (hlow r hrr)

theorem startRun_frame {p : Prog} {s s4 : State} {m : Nat} (h : InvR p s) (t : StartPost s s4 m)
    (hkm : (s.get m).kind = .memo) (hst : (s.get m).st ≠ .clean)
    (hj : (s.get m).runs ≠ 0 → ∃ e ∈ (s.get m).seen, (s.get e.1).ver ≠ e.2.2) :
    Frame s s4 (m + 1) where
  len := t.len
  kind := t.kind
  clean i hi := by
    have him : i ≠ m := by intro e; subst e; exact hst hi
    exact ⟨by rw [t.st]; exact hi, t.val i him⟩
  verMono i := by rw [t.ver]; exact Nat.le_refl _
  sigVer i _ := t.ver i
  above i hi := by
    have him : i ≠ m := by omega
    refine ⟨?_, .inl (t.st i)⟩
    rw [t.go i him]
    have : m ∉ (s.get i).subs := by
      intro hc
      have := h.srcLt m i ((h.edge i m).1 hc)
      omega
    simp only [List.erase_of_not_mem this]
  log hl := t.log hl hj
  effCore i hk := by
    have him : i ≠ m := by intro e; subst e; rw [hkm] at hk; cases hk
    rw [t.go i him]
    have : m ∉ (s.get i).subs := by
      intro hc
      exact h.srcData m i ((h.edge i m).1 hc) hk
    simp only [List.erase_of_not_mem this]
  effD i hk hd := by
    have him : i ≠ m := by intro e; subst e; rw [hkm] at hk; cases hk
    rw [t.go i him] at hd; exact .inl hd
  flags := FlagRel.of_same (fun i => by
    by_cases h1 : i = m
    · subst h1; rw [t.gm]; exact ⟨rfl, rfl, rfl⟩
    · rw [t.go i h1]; exact ⟨rfl, rfl, rfl⟩)
  logx := t.logx.mono (fun ev hev i hi => by
    rcases hev with h' | h'
    · rw [h'] at hi; cases hi
    · rw [h'] at hi; cases hi; exact hkm)
  runsx := t.runsx

end Leptos.Reactive
