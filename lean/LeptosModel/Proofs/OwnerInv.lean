import LeptosModel.Proofs.OwnerPass
/-!
# Proofs/OwnerInv — what every history preserves (C08)

`CorePrim` lists the primitive transformers of the property-relevant state (`Core`); `CoreReach` is
their reflexive-transitive closure.  `Proofs/OwnerOps` shows that every op line of the harness
grammar is a `CoreReach` step, so an invariant proved here for the primitives (and, for the three
pass primitives, for every machine step) holds along every history.
-/
namespace Leptos.Owner

/-! ## sums over the owner table -/

def sumW (w : OwnerRec → Nat) (l : List OwnerRec) : Nat := (l.map w).sum

theorem sumW_set {w : OwnerRec → Nat} {l : List OwnerRec} {o : Nat} {r : OwnerRec}
    (h : l[o]? = some r) (r' : OwnerRec) : sumW w (l.set o r') + w r = sumW w l + w r' := by
  induction l generalizing o with
  | nil => simp at h
  | cons a l ih =>
    cases o with
    | zero =>
      simp at h; subst h
      simp [sumW]; omega
    | succ o =>
      simp at h
      have := ih h
      simp [sumW] at this ⊢; omega

@[simp] theorem sumW_append (w : OwnerRec → Nat) (a b : List OwnerRec) :
    sumW w (a ++ b) = sumW w a + sumW w b := by simp [sumW]

@[simp] theorem sumW_singleton (w : OwnerRec → Nat) (a : OwnerRec) : sumW w [a] = w a := by simp [sumW]

theorem sumW_modOwner_eq (w : OwnerRec → Nat) (st : Core) (o : Nat) (f : OwnerRec → OwnerRec)
    (hf : ∀ r, w (f r) = w r) : sumW w (st.modOwner o f).owners = sumW w st.owners := by
  unfold Core.modOwner
  split
  · next r hr =>
    have := sumW_set (w := w) hr (f r)
    have := hf r
    simp only [Core.setOwner]; omega
  · rfl

/-! ## reachability -/

def Ev.isC : Ev → Bool
  | .c _ _ _ _ => true
  | _ => false

/-- the frames a pass starts from -/
def Frame.isRoot : Frame → Bool
  | .run _ _ _ => false
  | _ => true

inductive CorePrim : Core → Core → Prop
  | regCleanup (st : Core) (tag : Nat) (nested : Bool) (drops : Option Nat) : CorePrim st (regCleanup st tag nested drops)
  | newItem (st : Core) (v : Val) : CorePrim st (newItem st v).1
  | addItemHandle (st : Core) (k : Key) : CorePrim st { st with items := st.items ++ [k] }
  | newOwnerUnder (st : Core) (p : Option Nat) (paused : Bool) (hp : ∀ x, p = some x → x < st.owners.length) :
      CorePrim st (newOwnerUnder st p paused).1
  | pass (st : Core) (f : Frame) (hf : f.isRoot = true) : CorePrim st (runPass st [f])
  | provide (st : Core) (ty : Nat) (v : Int) : CorePrim st (provide st ty v)
  | useCtx (st : Core) (ty : Nat) : CorePrim st (useCtx st ty)
  | takeCtx (st : Core) (ty : Nat) : CorePrim st (takeCtx st ty)
  | updateCtx (st : Core) (ty : Nat) (d : Int) : CorePrim st (updateCtx st ty d)
  | setPaused (st : Core) (o : Nat) (p : Bool) : CorePrim st (setPaused st o p)
  | setCur (st : Core) (cur : List Nat) : CorePrim st { st with cur := cur }
  | logEv (st : Core) (e : Ev) (h : e.isC = false) : CorePrim st (logEv st e)

inductive CoreReach : Core → Core → Prop
  | refl (a : Core) : CoreReach a a
  | tail {a b c : Core} : CoreReach a b → CorePrim b c → CoreReach a c

theorem CoreReach.single {a b : Core} (h : CorePrim a b) : CoreReach a b := .tail (.refl a) h

theorem CoreReach.trans {a b c : Core} (h1 : CoreReach a b) (h2 : CoreReach b c) : CoreReach a c := by
  induction h2 with
  | refl => exact h1
  | tail _ hp ih => exact .tail ih hp

/-- an invariant of all primitives is an invariant of every reachable state -/
theorem CoreReach.inv {P : Core → Prop} (hp : ∀ a b, CorePrim a b → P a → P b) {a b : Core}
    (h : CoreReach a b) (ha : P a) : P b := by
  induction h with
  | refl => exact ha
  | tail _ hp' ih => exact hp _ _ hp' ih

/-- a reflexive-transitive relation that holds for all primitives holds along every reach -/
theorem CoreReach.rel {R : Core → Core → Prop} (hrefl : ∀ a, R a a)
    (htrans : ∀ a b c, R a b → R b c → R a c) (hp : ∀ a b, CorePrim a b → R a b) {a b : Core}
    (h : CoreReach a b) : R a b := by
  induction h with
  | refl => exact hrefl _
  | tail _ hp' ih => exact htrans _ _ _ ih (hp _ _ hp')

/-- same lifting for the machine: a relation on cores that holds for every step -/
theorem runFrames_rel {R : Core → Core → Prop} (hrefl : ∀ a, R a a)
    (htrans : ∀ a b c, R a b → R b c → R a c) (hstep : ∀ st f, R st (stepFrame st f).1)
    (n : Nat) (st : Core) (fs : List Frame) : R st (runFrames n st fs).1 := by
  induction n generalizing st fs with
  | zero => exact hrefl _
  | succ n ih =>
    cases fs with
    | nil => exact hrefl _
    | cons f fs => exact htrans _ _ _ (hstep st f) (ih _ _)

/-! ## unfolding helpers -/

@[simp] theorem logEv_owners (st : Core) (e : Ev) : (logEv st e).owners = st.owners := rfl
@[simp] theorem logEv_arena (st : Core) (e : Ev) : (logEv st e).arena = st.arena := rfl
@[simp] theorem logEv_nextCid (st : Core) (e : Ev) : (logEv st e).nextCid = st.nextCid := rfl
@[simp] theorem logEv_log (st : Core) (e : Ev) : (logEv st e).log = st.log ++ [e] := rfl
@[simp] theorem logEv_cur (st : Core) (e : Ev) : (logEv st e).cur = st.cur := rfl
@[simp] theorem logEv_unowned (st : Core) (e : Ev) : (logEv st e).unowned = st.unowned := rfl

@[simp] theorem setOwner_arena (st : Core) (o : Nat) (r : OwnerRec) : (st.setOwner o r).arena = st.arena := rfl
@[simp] theorem setOwner_log (st : Core) (o : Nat) (r : OwnerRec) : (st.setOwner o r).log = st.log := rfl
@[simp] theorem setOwner_nextCid (st : Core) (o : Nat) (r : OwnerRec) : (st.setOwner o r).nextCid = st.nextCid := rfl
@[simp] theorem setOwner_cur (st : Core) (o : Nat) (r : OwnerRec) : (st.setOwner o r).cur = st.cur := rfl
@[simp] theorem setOwner_unowned (st : Core) (o : Nat) (r : OwnerRec) : (st.setOwner o r).unowned = st.unowned := rfl
@[simp] theorem setOwner_owners (st : Core) (o : Nat) (r : OwnerRec) : (st.setOwner o r).owners = st.owners.set o r := rfl

theorem modOwner_arena (st : Core) (o : Nat) (f : OwnerRec → OwnerRec) : (st.modOwner o f).arena = st.arena := by
  unfold Core.modOwner; split <;> rfl
theorem modOwner_log (st : Core) (o : Nat) (f : OwnerRec → OwnerRec) : (st.modOwner o f).log = st.log := by
  unfold Core.modOwner; split <;> rfl
theorem modOwner_nextCid (st : Core) (o : Nat) (f : OwnerRec → OwnerRec) : (st.modOwner o f).nextCid = st.nextCid := by
  unfold Core.modOwner; split <;> rfl
theorem modOwner_cur (st : Core) (o : Nat) (f : OwnerRec → OwnerRec) : (st.modOwner o f).cur = st.cur := by
  unfold Core.modOwner; split <;> rfl
theorem modOwner_unowned (st : Core) (o : Nat) (f : OwnerRec → OwnerRec) : (st.modOwner o f).unowned = st.unowned := by
  unfold Core.modOwner; split <;> rfl
theorem modOwner_owners_length (st : Core) (o : Nat) (f : OwnerRec → OwnerRec) :
    (st.modOwner o f).owners.length = st.owners.length := by
  unfold Core.modOwner; split <;> simp

/-- the record at `x` after `modOwner o f` -/
theorem modOwner_get (st : Core) (o : Nat) (f : OwnerRec → OwnerRec) (x : Nat) :
    (st.modOwner o f).owners[x]? = if x = o then (st.owners[x]?).map f else st.owners[x]? := by
  unfold Core.modOwner
  split
  · next r hr =>
    simp only [Core.setOwner]
    by_cases hx : x = o
    · subst hx
      rw [List.getElem?_set_self (lt_of_getElem?_some hr)]; simp [hr]
    · rw [List.getElem?_set_ne (Ne.symm hx)]; simp [hx]
  · next hn =>
    by_cases hx : x = o
    · subst hx; simp [hn]
    · simp [hx]

/-! ## I1 — every registered cleanup is in exactly one place -/

def evCid : Ev → Option Nat
  | .c _ cid _ _ => some cid
  | _ => none

def logCount (cid : Nat) (l : List Ev) : Nat := (l.filterMap evCid).count cid

def recCount (cid : Nat) (r : OwnerRec) : Nat := (r.cleanups.map (·.cid)).count cid

def frameCid : Frame → Option Nat
  | .run c _ _ => some c.cid
  | _ => none

def frCount (cid : Nat) (fs : List Frame) : Nat := (fs.filterMap frameCid).count cid

/-- number of places (log, owners' lists, pending frames) where cleanup `cid` occurs -/
def occ (cid : Nat) (st : Core) (fs : List Frame) : Nat :=
  logCount cid st.log + sumW (recCount cid) st.owners + frCount cid fs

def CidInv (st : Core) (fs : List Frame) : Prop :=
  ∀ cid, occ cid st fs ≤ 1 ∧ (st.nextCid ≤ cid → occ cid st fs = 0)

@[simp] theorem frCount_nil (cid : Nat) : frCount cid [] = 0 := rfl
@[simp] theorem frCount_append (cid : Nat) (a b : List Frame) : frCount cid (a ++ b) = frCount cid a + frCount cid b := by
  simp [frCount, List.filterMap_append, List.count_append]
theorem frCount_cons (cid : Nat) (f : Frame) (fs : List Frame) :
    frCount cid (f :: fs) = frCount cid [f] + frCount cid fs := by
  rw [← frCount_append]; rfl

theorem frCount_visit (cid : Nat) (l : List Nat) (late : Bool) : frCount cid (l.map (Frame.visit · late)) = 0 := by
  induction l with
  | nil => rfl
  | cons a l ih => rw [List.map_cons, frCount_cons, ih]; rfl

theorem frCount_remove (cid : Nat) (l : List Key) (late : Bool) : frCount cid (l.map (Frame.remove · late)) = 0 := by
  induction l with
  | nil => rfl
  | cons a l ih => rw [List.map_cons, frCount_cons, ih]; rfl

theorem frCount_run (cid : Nat) (l : List Cleanup) (o : Nat) (late : Bool) :
    frCount cid (l.map (Frame.run · o late)) = (l.map (·.cid)).count cid := by
  induction l with
  | nil => rfl
  | cons a l ih =>
    rw [List.map_cons, frCount_cons, ih]
    simp [frCount, frameCid, List.count_cons]; omega

theorem frCount_expand (cid : Nat) (r : OwnerRec) (o : Nat) (late : Bool) :
    frCount cid (expand r o late) = recCount cid r := by
  simp [expand, frCount_visit, frCount_remove, frCount_run, recCount]

theorem logCount_append (cid : Nat) (a b : List Ev) : logCount cid (a ++ b) = logCount cid a + logCount cid b := by
  simp [logCount, List.filterMap_append, List.count_append]

theorem logCount_notC (cid : Nat) (e : Ev) (h : e.isC = false) : logCount cid [e] = 0 := by
  cases e <;> first | rfl | simp [Ev.isC] at h

theorem recCount_cleared (cid : Nat) (r : OwnerRec) : recCount cid (clearedRec r) = 0 := by
  simp [recCount, clearedRec]
theorem recCount_dead (cid : Nat) (r : OwnerRec) : recCount cid (deadRec r) = 0 := by
  simp [recCount, deadRec]

theorem regCleanup_nextCid (st : Core) (tag : Nat) (nested : Bool) (drops : Option Nat) :
    (regCleanup st tag nested drops).nextCid = st.nextCid + 1 := by
  unfold regCleanup; simp only; split
  · rw [modOwner_nextCid]
  · rfl

theorem regCleanup_log (st : Core) (tag : Nat) (nested : Bool) (drops : Option Nat) : (regCleanup st tag nested drops).log = st.log := by
  unfold regCleanup; simp only; split
  · rw [modOwner_log]
  · rfl

theorem regCleanup_arena (st : Core) (tag : Nat) (nested : Bool) (drops : Option Nat) : (regCleanup st tag nested drops).arena = st.arena := by
  unfold regCleanup; simp only; split
  · rw [modOwner_arena]
  · rfl

theorem recCount_push (cid : Nat) (r : OwnerRec) (c : Cleanup) :
    recCount cid { r with cleanups := r.cleanups ++ [c] } = recCount cid r + (if c.cid = cid then 1 else 0) := by
  simp [recCount, List.count_append, List.count_singleton]

theorem regCleanup_count (st : Core) (tag : Nat) (nested : Bool) (drops : Option Nat) (cid : Nat) :
    ∃ d, sumW (recCount cid) (regCleanup st tag nested drops).owners = sumW (recCount cid) st.owners + d ∧
      d ≤ 1 ∧ (cid ≠ st.nextCid → d = 0) := by
  unfold regCleanup
  simp only
  cases hc : currentOwner { st with nextCid := st.nextCid + 1 } with
  | none => exact ⟨0, by simp⟩
  | some o =>
    simp only
    unfold Core.modOwner
    simp only
    cases hr : st.owners[o]? with
    | none => exact ⟨0, by simp⟩
    | some r =>
      simp only
      have h1 := sumW_set (w := recCount cid) hr { r with cleanups := r.cleanups ++ [⟨st.nextCid, tag, nested, drops⟩] }
      rw [recCount_push] at h1
      simp only [Core.setOwner]
      simp only at h1
      by_cases h : st.nextCid = cid
      · refine ⟨1, ?_, by omega, fun h' => absurd h.symm h'⟩
        rw [if_pos h] at h1; omega
      · refine ⟨0, ?_, by omega, fun _ => rfl⟩
        rw [if_neg h] at h1; omega

theorem newItem_log (st : Core) (v : Val) : (newItem st v).1.log = st.log := by
  unfold newItem; simp only; split
  · rw [modOwner_log]
  · rfl
theorem newItem_nextCid (st : Core) (v : Val) : (newItem st v).1.nextCid = st.nextCid := by
  unfold newItem; simp only; split
  · rw [modOwner_nextCid]
  · rfl
theorem newItem_count (st : Core) (v : Val) (cid : Nat) :
    sumW (recCount cid) (newItem st v).1.owners = sumW (recCount cid) st.owners := by
  unfold newItem; simp only; split
  · exact sumW_modOwner_eq _ _ _ _ (fun r => by simp [recCount])
  · rfl

theorem newStored_log (st : Core) (v : Int) : (newStored st v).log = st.log := by
  unfold newStored; exact newItem_log st _
theorem newStored_nextCid (st : Core) (v : Int) : (newStored st v).nextCid = st.nextCid := by
  unfold newStored; exact newItem_nextCid st _
theorem newStored_count (st : Core) (v : Int) (cid : Nat) :
    sumW (recCount cid) (newStored st v).owners = sumW (recCount cid) st.owners := by
  unfold newStored; exact newItem_count st _ cid

/-- machine steps keep every cleanup in exactly one place -/
theorem CidInv.step (st : Core) (f : Frame) (fs : List Frame) (h : CidInv st (f :: fs)) :
    CidInv (stepFrame st f).1 ((stepFrame st f).2 ++ fs) := by
  intro cid
  obtain ⟨h, hb⟩ := h cid
  unfold occ at h hb ⊢
  rw [frCount_cons] at h hb
  cases f with
  | visit o late =>
    have h0 : frCount cid [Frame.visit o late] = 0 := rfl
    cases hr : st.owners[o]? with
    | none => simp only [stepFrame, hr, List.nil_append]; omega
    | some r =>
      by_cases ha : r.alive = true
      · have h1 := sumW_set (w := recCount cid) hr (clearedRec r)
        rw [recCount_cleared] at h1
        simp only [stepFrame, hr, ha, if_true, frCount_append, frCount_expand, setOwner_log,
          setOwner_nextCid, setOwner_owners]
        omega
      · simp only [stepFrame, hr, ha, if_false, Bool.false_eq_true, List.nil_append]; omega
  | drop o late =>
    have h0 : frCount cid [Frame.drop o late] = 0 := rfl
    cases hr : st.owners[o]? with
    | none => simp only [stepFrame, hr, List.nil_append]; omega
    | some r =>
      have h1 := sumW_set (w := recCount cid) hr (deadRec r)
      rw [recCount_dead] at h1
      simp only [stepFrame, hr, frCount_append, frCount_expand, setOwner_log, setOwner_nextCid, setOwner_owners]
      omega
  | run c ow late =>
    have hl : logCount cid (st.log ++ [Ev.c c.tag c.cid ow late]) = logCount cid st.log + frCount cid [Frame.run c ow late] := by
      rw [logCount_append]; simp [logCount, evCid, frCount, frameCid]
    have hcf : frCount cid (closureFrames st.cur c) = 0 := by
      unfold closureFrames
      split
      · split <;> rfl
      · rfl
    by_cases hn : c.nested = true
    · obtain ⟨d, h2, hd1, hd2⟩ := regCleanup_count (logEv st (Ev.c c.tag c.cid ow late)) (c.tag + 100) false none cid
      simp only [stepFrame, hn, if_true, newStored_log, newStored_nextCid, newStored_count, regCleanup_log,
        regCleanup_nextCid, logEv_log, logEv_nextCid, logEv_owners, frCount_append, hcf] at h2 hd2 ⊢
      rw [hl, h2]
      by_cases hc : cid = st.nextCid
      · have := hb (by omega); omega
      · have := hd2 hc; omega
    · simp only [stepFrame, hn, if_false, Bool.false_eq_true, logEv_log, logEv_nextCid, logEv_owners,
        frCount_append, hcf]
      rw [hl]; omega
  | remove k late =>
    have h0 : frCount cid [Frame.remove k late] = 0 := rfl
    have h1 : frCount cid (dropFrames (st.arena.remove k).2) = 0 := by
      unfold dropFrames; split <;> rfl
    simp only [stepFrame, frCount_append, h1]
    omega

theorem CidInv.pass {st : Core} {fs : List Frame} (h : CidInv st fs) : CidInv (runPass st fs) [] :=
  runPass_inv CidInv CidInv.step st fs h

theorem frCount_root (cid : Nat) (f : Frame) (hf : f.isRoot = true) : frCount cid [f] = 0 := by
  cases f <;> first | rfl | simp [Frame.isRoot] at hf

theorem sumW_newOwnerUnder (w : OwnerRec → Nat) (st : Core) (p : Option Nat) (paused : Bool)
    (hw0 : w (freshOwner p paused) = 0)
    (hf : ∀ r id, w { r with children := r.children ++ [id] } = w r) :
    sumW w (newOwnerUnder st p paused).1.owners = sumW w st.owners := by
  unfold newOwnerUnder
  simp only
  split
  · rw [sumW_modOwner_eq _ _ _ _ (fun r => hf r _)]
    simp [hw0]
  · simp [hw0]

theorem newOwnerUnder_log (st : Core) (p : Option Nat) (paused : Bool) : (newOwnerUnder st p paused).1.log = st.log := by
  unfold newOwnerUnder; simp only; split
  · rw [modOwner_log]
  · rfl
theorem newOwnerUnder_nextCid (st : Core) (p : Option Nat) (paused : Bool) :
    (newOwnerUnder st p paused).1.nextCid = st.nextCid := by
  unfold newOwnerUnder; simp only; split
  · rw [modOwner_nextCid]
  · rfl
theorem newOwnerUnder_arena (st : Core) (p : Option Nat) (paused : Bool) :
    (newOwnerUnder st p paused).1.arena = st.arena := by
  unfold newOwnerUnder; simp only; split
  · rw [modOwner_arena]
  · rfl

theorem provide_log (st : Core) (ty : Nat) (v : Int) : (provide st ty v).log = st.log := by
  unfold provide; split
  · rw [modOwner_log]
  · rfl
theorem provide_nextCid (st : Core) (ty : Nat) (v : Int) : (provide st ty v).nextCid = st.nextCid := by
  unfold provide; split
  · rw [modOwner_nextCid]
  · rfl
theorem provide_arena (st : Core) (ty : Nat) (v : Int) : (provide st ty v).arena = st.arena := by
  unfold provide; split
  · rw [modOwner_arena]
  · rfl

theorem pauseWalk_log (n : Nat) (st : Core) (l : List Nat) (p : Bool) : (pauseWalk n st l p).log = st.log := by
  induction n generalizing st l with
  | zero => rfl
  | succ n ih =>
    cases l with
    | nil => rfl
    | cons o rest =>
      simp only [pauseWalk]
      split
      · split
        · rw [ih]; rfl
        · rw [ih]
      · rw [ih]
theorem pauseWalk_nextCid (n : Nat) (st : Core) (l : List Nat) (p : Bool) : (pauseWalk n st l p).nextCid = st.nextCid := by
  induction n generalizing st l with
  | zero => rfl
  | succ n ih =>
    cases l with
    | nil => rfl
    | cons o rest =>
      simp only [pauseWalk]
      split
      · split
        · rw [ih]; rfl
        · rw [ih]
      · rw [ih]
theorem pauseWalk_arena (n : Nat) (st : Core) (l : List Nat) (p : Bool) : (pauseWalk n st l p).arena = st.arena := by
  induction n generalizing st l with
  | zero => rfl
  | succ n ih =>
    cases l with
    | nil => rfl
    | cons o rest =>
      simp only [pauseWalk]
      split
      · split
        · rw [ih]; rfl
        · rw [ih]
      · rw [ih]

theorem pauseWalk_sumW (w : OwnerRec → Nat) (hw : ∀ r p, w { r with paused := p } = w r)
    (n : Nat) (st : Core) (l : List Nat) (p : Bool) :
    sumW w (pauseWalk n st l p).owners = sumW w st.owners := by
  induction n generalizing st l with
  | zero => rfl
  | succ n ih =>
    cases l with
    | nil => rfl
    | cons o rest =>
      simp only [pauseWalk]
      split
      · next r hr =>
        split
        · rw [ih]
          have := sumW_set (w := w) hr { r with paused := p }
          have := hw r p
          simp only [setOwner_owners]; omega
        · rw [ih]
      · rw [ih]

/-- `CidInv` only looks at the cleanup entries of the log, the cleanup lists and `nextCid` -/
theorem CidInv.congr {a b : Core} (h : CidInv a [])
    (hl : ∀ cid, logCount cid b.log = logCount cid a.log)
    (ho : ∀ cid, sumW (recCount cid) b.owners = sumW (recCount cid) a.owners)
    (hn : b.nextCid = a.nextCid) : CidInv b [] := by
  intro cid
  have h := h cid
  unfold occ at h ⊢
  rw [hl, ho, hn]; exact h

theorem logCount_snoc_notC (cid : Nat) (l : List Ev) (e : Ev) (h : e.isC = false) :
    logCount cid (l ++ [e]) = logCount cid l := by
  rw [logCount_append, logCount_notC cid e h]; rfl

/-- every primitive keeps every cleanup in exactly one place -/
theorem CidInv.prim {a b : Core} (hp : CorePrim a b) (h : CidInv a []) : CidInv b [] := by
  cases hp with
  | regCleanup tag nested drops =>
    intro cid
    obtain ⟨h, hb⟩ := h cid
    obtain ⟨d, h2, hd1, hd2⟩ := regCleanup_count a tag nested drops cid
    unfold occ at h hb ⊢
    rw [regCleanup_log, regCleanup_nextCid, h2]
    simp only [frCount_nil] at h hb ⊢
    by_cases hc : cid = a.nextCid
    · have := hb (by omega); omega
    · have := hd2 hc; omega
  | newItem v =>
    exact h.congr (fun _ => by rw [newItem_log]) (fun _ => newItem_count _ _ _) (newItem_nextCid _ _)
  | addItemHandle k => exact h
  | newOwnerUnder p paused hp =>
    exact h.congr (fun _ => by rw [newOwnerUnder_log])
      (fun cid => sumW_newOwnerUnder _ _ _ _ (by simp [recCount, freshOwner]) (by intros; simp [recCount]))
      (newOwnerUnder_nextCid _ _ _)
  | pass f hf =>
    apply CidInv.pass
    intro cid
    have h := h cid
    unfold occ at h ⊢
    rw [frCount_root cid f hf]; exact h
  | provide ty v =>
    refine h.congr (fun _ => by rw [provide_log]) (fun cid => ?_) (provide_nextCid _ _ _)
    unfold provide; split
    · exact sumW_modOwner_eq _ _ _ _ (fun r => by simp [recCount])
    · rfl
  | useCtx ty =>
    unfold useCtx
    split
    · exact h.congr (fun cid => logCount_snoc_notC cid _ _ rfl) (fun _ => rfl) rfl
    · exact h.congr (fun cid => logCount_snoc_notC cid _ _ rfl) (fun _ => rfl) rfl
  | takeCtx ty =>
    unfold takeCtx
    split
    · refine h.congr (fun cid => ?_) (fun cid => ?_) ?_
      · simp only; rw [logCount_snoc_notC cid _ _ rfl, modOwner_log]
      · simp only; exact sumW_modOwner_eq _ _ _ _ (fun r => by simp [recCount])
      · simp only; rw [modOwner_nextCid]
    · exact h.congr (fun cid => logCount_snoc_notC cid _ _ rfl) (fun _ => rfl) rfl
  | updateCtx ty d =>
    unfold updateCtx
    split
    · refine h.congr (fun cid => ?_) (fun cid => ?_) ?_
      · simp only; rw [logCount_snoc_notC cid _ _ rfl, modOwner_log]
      · simp only; exact sumW_modOwner_eq _ _ _ _ (fun r => by simp [recCount])
      · simp only; rw [modOwner_nextCid]
    · exact h.congr (fun cid => logCount_snoc_notC cid _ _ rfl) (fun _ => rfl) rfl
  | setPaused o p =>
    unfold setPaused
    exact h.congr (fun _ => by rw [pauseWalk_log]) (fun cid => pauseWalk_sumW _ (by intros; simp [recCount]) _ _ _ _)
      (pauseWalk_nextCid _ _ _ _)
  | setCur cur => exact h
  | logEv e he =>
    exact h.congr (fun cid => logCount_snoc_notC cid _ _ he) (fun _ => rfl) rfl

theorem CidInv.init : CidInv {} [] := by
  intro cid; simp [occ, logCount, sumW, frCount]

/-! ## I2 — arena versions only move forward -/

structure ArenaLe (a a' : Arena) : Prop where
  dead : ∀ k, KeyDead a k → KeyDead a' k
  issued : ∀ k, Issued a k → Issued a' k

theorem ArenaLe.refl (a : Arena) : ArenaLe a a := ⟨fun _ h => h, fun _ h => h⟩
theorem ArenaLe.trans {a b c : Arena} (h1 : ArenaLe a b) (h2 : ArenaLe b c) : ArenaLe a c :=
  ⟨fun k h => h2.dead k (h1.dead k h), fun k h => h2.issued k (h1.issued k h)⟩
theorem ArenaLe.insert (a : Arena) (v : Val) : ArenaLe a (a.insert v).1 :=
  ⟨fun _ h => h.insert v, fun _ h => h.insert v⟩
theorem ArenaLe.remove (a : Arena) (k : Key) : ArenaLe a (a.remove k).1 :=
  ⟨fun _ h => h.remove k, fun _ h => h.remove k⟩

theorem newItem_arena (st : Core) (v : Val) : (newItem st v).1.arena = (st.arena.insert v).1 := by
  unfold newItem; simp only; split
  · rw [modOwner_arena]
  · rfl

theorem newStored_arena (st : Core) (v : Int) : (newStored st v).arena = (st.arena.insert (Val.num v)).1 := by
  unfold newStored; exact newItem_arena st _

theorem ArenaLe.step (st : Core) (f : Frame) : ArenaLe st.arena (stepFrame st f).1.arena := by
  cases f with
  | visit o late =>
    simp only [stepFrame]; split
    · split <;> exact ArenaLe.refl _
    · exact ArenaLe.refl _
  | drop o late =>
    simp only [stepFrame]; split <;> exact ArenaLe.refl _
  | run c ow late =>
    simp only [stepFrame]; split
    · rw [newStored_arena, regCleanup_arena]; exact ArenaLe.insert _ _
    · exact ArenaLe.refl _
  | remove k late =>
    simp only [stepFrame]
    exact ArenaLe.remove _ _

theorem ArenaLe.frames (n : Nat) (st : Core) (fs : List Frame) : ArenaLe st.arena (runFrames n st fs).1.arena :=
  runFrames_rel (R := fun a b => ArenaLe a.arena b.arena) (fun _ => ArenaLe.refl _)
    (fun _ _ _ => ArenaLe.trans) ArenaLe.step n st fs

theorem ArenaLe.prim {a b : Core} (hp : CorePrim a b) : ArenaLe a.arena b.arena := by
  cases hp with
  | regCleanup tag nested drops => rw [regCleanup_arena]; exact ArenaLe.refl _
  | newItem v => rw [newItem_arena]; exact ArenaLe.insert _ _
  | addItemHandle k => exact ArenaLe.refl _
  | newOwnerUnder p paused hp => rw [newOwnerUnder_arena]; exact ArenaLe.refl _
  | pass f hf => exact ArenaLe.frames _ _ _
  | provide ty v => rw [provide_arena]; exact ArenaLe.refl _
  | useCtx ty => unfold useCtx; split <;> exact ArenaLe.refl _
  | takeCtx ty =>
    unfold takeCtx; split
    · simp only; rw [modOwner_arena]; exact ArenaLe.refl _
    · exact ArenaLe.refl _
  | updateCtx ty d =>
    unfold updateCtx; split
    · simp only; rw [modOwner_arena]; exact ArenaLe.refl _
    · exact ArenaLe.refl _
  | setPaused o p => unfold setPaused; rw [pauseWalk_arena]; exact ArenaLe.refl _
  | setCur cur => exact ArenaLe.refl _
  | logEv e he => exact ArenaLe.refl _

theorem ArenaLe.reach {a b : Core} (h : CoreReach a b) : ArenaLe a.arena b.arena :=
  CoreReach.rel (R := fun a b => ArenaLe a.arena b.arena) (fun _ => ArenaLe.refl _)
    (fun _ _ _ => ArenaLe.trans) (fun _ _ => ArenaLe.prim) h

end Leptos.Owner
