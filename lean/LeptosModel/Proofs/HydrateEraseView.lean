import LeptosModel.Proofs.HydrateErase
import LeptosModel.Proofs.HydrateSettle
import LeptosModel.Proofs.ViewBuild
/-! Helper lemmas for C05, part 8: erasing inert nodes commutes with `mount`, `unmount`,
`insert_before_this`, `mount_before`, `build` and `rebuild` of a state that owns none of them. -/
namespace Leptos.Hydrate
open Leptos.Dom Leptos.View

/-- `d'` comes after `d`: ids are only added, the kind of an allocated id never changes -/
structure Grow (d d' : Dom) : Prop where
  next_le : d.next ≤ d'.next
  kind : ∀ x, x < d.next → d'.kindOf x = d.kindOf x

theorem Grow.refl (d : Dom) : Grow d d := ⟨Nat.le_refl _, fun _ _ => rfl⟩

theorem Grow.trans {a b c : Dom} (h1 : Grow a b) (h2 : Grow b c) : Grow a c :=
  ⟨Nat.le_trans h1.next_le h2.next_le,
    fun x hx => (h2.kind x (Nat.lt_of_lt_of_le hx h1.next_le)).trans (h1.kind x hx)⟩

theorem grow_of_sameShape {d d' : Dom} (h : SameShape d d') (hn : d'.next = d.next) : Grow d d' :=
  ⟨by rw [hn]; exact Nat.le_refl _, fun x _ => h.kind x⟩

theorem grow_modify (d : Dom) (x : Id) (f : NodeRec → NodeRec) (hf : ∀ r, (f r).kind = r.kind) :
    Grow d (d.modify x f) := by
  refine ⟨Nat.le_refl _, fun y _ => ?_⟩
  simp only [Dom.kindOf, Dom.get?_modify]
  by_cases h : y = x
  · subst h; cases d.get? y <;> simp [hf]
  · simp [h]

theorem grow_err (d : Dom) (m : String) : Grow d (d.err m) := ⟨Nat.le_refl _, fun _ _ => rfl⟩

theorem grow_create (d : Dom) (k : Kind) (s : String) : Grow d (d.create k s).1 := by
  refine ⟨by simp, fun y hy => ?_⟩
  have : y ≠ d.next := by omega_nat
  simp [Dom.kindOf, Dom.get?_create, this]

theorem grow_setText (d : Dom) (x : Id) (s : String) : Grow d (d.setText x s) :=
  grow_of_sameShape (sameShape_setText d x s) (by simp)

theorem grow_setAttribute (d : Dom) (x : Id) (n v : String) : Grow d (d.setAttribute x n v) := by
  unfold Dom.setAttribute
  split
  · exact grow_modify d x _ (fun _ => rfl)
  · exact grow_err d _

theorem grow_removeAttribute (d : Dom) (x : Id) (n : String) : Grow d (d.removeAttribute x n) := by
  unfold Dom.removeAttribute
  split
  · exact grow_modify d x _ (fun r => by cases getA r.attrs n <;> rfl)
  · exact Grow.refl d

theorem grow_detach (d : Dom) (c : Id) : Grow d (d.detach c) := by
  unfold Dom.detach
  split
  · exact Grow.refl d
  · refine Grow.trans ?_ (grow_modify _ c _ ?_)
    · apply grow_modify; intro r; rfl
    · intro r; rfl

theorem grow_remove (d : Dom) (c : Id) : Grow d (d.remove c) := grow_detach d c

theorem grow_insertNode (d : Dom) (p c : Id) (m : Option Id) : Grow d (d.insertNode p c m) := by
  have core : ∀ an : Option Id, Grow d (((d.detach c).modify p fun r =>
      { r with kids := insAt r.kids c an, muts := r.muts + 1 }).modify c fun r => { r with parent := some p }) := by
    intro an
    refine Grow.trans ?_ (grow_modify _ c _ ?_)
    · refine Grow.trans (grow_detach d c) ?_
      apply grow_modify; intro r; rfl
    · intro r; rfl
  unfold Dom.insertNode
  split
  · exact grow_err d _
  · cases m with
    | none => simpa using core none
    | some a =>
      simp only []
      split
      · exact grow_err d _
      · exact core _

/-- no node of `Z` is an element, and all of `Z` is allocated -/
structure SideZ (d : Dom) (Z : List Id) : Prop where
  lt : ∀ z ∈ Z, z < d.next
  notEl : ∀ z ∈ Z, d.isElement z = false

theorem SideZ.grow {d d' : Dom} {Z : List Id} (h : SideZ d Z) (g : Grow d d') : SideZ d' Z :=
  ⟨fun z hz => Nat.lt_of_lt_of_le (h.lt z hz) g.next_le,
    fun z hz => by rw [isElement_kindOf, g.kind z (h.lt z hz), ← isElement_kindOf]; exact h.notEl z hz⟩

/-! ### mount / unmount -/

mutual
theorem grow_mount : (st : State) → ∀ (d : Dom) (p : Id) (m : Option Id), Grow d (mount st d p m)
  | .text id _, d, p, m => grow_insertNode d p id m
  | .unit id, d, p, m => grow_insertNode d p id m
  | .elem id _ _, d, p, m => grow_insertNode d p id m
  | .tuple sts, d, p, m => by simpa [mount] using grow_mountList sts d p m
  | .either _ st, d, p, m => by simpa [mount] using grow_mount st d p m
  | .vec sts mk, d, p, m => by
    simp only [mount]
    exact (grow_mountList sts d p m).trans (grow_insertNode _ p mk m)
  | .any _ st, d, p, m => by simpa [mount] using grow_mount st d p m
theorem grow_mountList : (sts : List State) → ∀ (d : Dom) (p : Id) (m : Option Id), Grow d (mountList sts d p m)
  | [], d, _, _ => Grow.refl d
  | s :: ss, d, p, m => by
    simp only [mountList]
    exact (grow_mount s d p m).trans (grow_mountList ss _ p m)
end

mutual
theorem grow_unmount : (st : State) → ∀ (d : Dom), Grow d (unmount st d)
  | .text id _, d => grow_remove d id
  | .unit id, d => grow_remove d id
  | .elem id _ _, d => grow_remove d id
  | .tuple sts, d => by simpa [unmount] using grow_unmountList sts d
  | .either _ st, d => by simpa [unmount] using grow_unmount st d
  | .vec sts mk, d => by
    simp only [unmount]
    exact (grow_unmountList sts d).trans (grow_remove _ mk)
  | .any _ st, d => by simpa [unmount] using grow_unmount st d
theorem grow_unmountList : (sts : List State) → ∀ (d : Dom), Grow d (unmountList sts d)
  | [], d => Grow.refl d
  | s :: ss, d => by
    simp only [unmountList]
    exact (grow_unmount s d).trans (grow_unmountList ss _)
end

/-- every root of the state is outside `Z` and different from the anchor -/
def RootsOk (Z : List Id) (st : State) (m : Option Id) : Prop :=
  ∀ x ∈ st.roots, x ∉ Z ∧ m ≠ some x

def RootsOkL (Z : List Id) (sts : List State) (m : Option Id) : Prop :=
  ∀ x ∈ State.rootsList sts, x ∉ Z ∧ m ≠ some x

mutual
theorem erase_mount (Z : List Id) : (st : State) → ∀ (d : Dom) (p : Id) (m : Option Id), SideZ d Z →
    RootsOk Z st m → (∀ a, m = some a → a ∉ Z) →
    erase (mount st d p m) Z = mount st (erase d Z) p m
  | .text id _, d, p, m, hs, hr, hm => by
    have := hr id (by simp [State.roots])
    exact erase_insertNode d Z p id m hs.notEl this.1 (fun a ha => ⟨hm a ha, fun e => this.2 (by rw [ha, e])⟩)
  | .unit id, d, p, m, hs, hr, hm => by
    have := hr id (by simp [State.roots])
    exact erase_insertNode d Z p id m hs.notEl this.1 (fun a ha => ⟨hm a ha, fun e => this.2 (by rw [ha, e])⟩)
  | .elem id _ _, d, p, m, hs, hr, hm => by
    have := hr id (by simp [State.roots])
    exact erase_insertNode d Z p id m hs.notEl this.1 (fun a ha => ⟨hm a ha, fun e => this.2 (by rw [ha, e])⟩)
  | .tuple sts, d, p, m, hs, hr, hm => by
    simpa [mount] using erase_mountList Z sts d p m hs (by simpa [RootsOk, RootsOkL, State.roots] using hr) hm
  | .either _ st, d, p, m, hs, hr, hm => by
    simpa [mount] using erase_mount Z st d p m hs (by simpa [RootsOk, State.roots] using hr) hm
  | .any _ st, d, p, m, hs, hr, hm => by
    simpa [mount] using erase_mount Z st d p m hs (by simpa [RootsOk, State.roots] using hr) hm
  | .vec sts mk, d, p, m, hs, hr, hm => by
    simp only [mount]
    have hmk := hr mk (by simp [State.roots])
    have hl : RootsOkL Z sts m := fun x hx => hr x (by simp [State.roots, hx])
    rw [erase_insertNode _ Z p mk m (hs.grow (grow_mountList sts d p m)).notEl hmk.1
      (fun a ha => ⟨hm a ha, fun e => hmk.2 (by rw [ha, e])⟩), erase_mountList Z sts d p m hs hl hm]
theorem erase_mountList (Z : List Id) : (sts : List State) → ∀ (d : Dom) (p : Id) (m : Option Id), SideZ d Z →
    RootsOkL Z sts m → (∀ a, m = some a → a ∉ Z) →
    erase (mountList sts d p m) Z = mountList sts (erase d Z) p m
  | [], d, _, _, _, _, _ => rfl
  | s :: ss, d, p, m, hs, hr, hm => by
    simp only [mountList]
    have h1 : RootsOk Z s m := fun x hx => hr x (by simp [State.rootsList, hx])
    have h2 : RootsOkL Z ss m := fun x hx => hr x (by simp [State.rootsList, hx])
    rw [erase_mountList Z ss _ p m (hs.grow (grow_mount s d p m)) h2 hm, erase_mount Z s d p m hs h1 hm]
end

mutual
theorem erase_unmount (Z : List Id) : (st : State) → ∀ (d : Dom), (∀ x ∈ st.roots, x ∉ Z) →
    erase (unmount st d) Z = unmount st (erase d Z)
  | .text id _, d, hr => erase_remove d Z id (hr id (by simp [State.roots]))
  | .unit id, d, hr => erase_remove d Z id (hr id (by simp [State.roots]))
  | .elem id _ _, d, hr => erase_remove d Z id (hr id (by simp [State.roots]))
  | .tuple sts, d, hr => by
    simpa [unmount] using erase_unmountList Z sts d (by simpa [State.roots] using hr)
  | .either _ st, d, hr => by simpa [unmount] using erase_unmount Z st d (by simpa [State.roots] using hr)
  | .any _ st, d, hr => by simpa [unmount] using erase_unmount Z st d (by simpa [State.roots] using hr)
  | .vec sts mk, d, hr => by
    simp only [unmount]
    rw [erase_remove _ Z mk (hr mk (by simp [State.roots])),
      erase_unmountList Z sts d (fun x hx => hr x (by simp [State.roots, hx]))]
theorem erase_unmountList (Z : List Id) : (sts : List State) → ∀ (d : Dom), (∀ x ∈ State.rootsList sts, x ∉ Z) →
    erase (unmountList sts d) Z = unmountList sts (erase d Z)
  | [], _, _ => rfl
  | s :: ss, d, hr => by
    simp only [unmountList]
    rw [erase_unmountList Z ss _ (fun x hx => hr x (by simp [State.rootsList, hx])),
      erase_unmount Z s d (fun x hx => hr x (by simp [State.rootsList, hx]))]
end

/-! ### insert_before_this / mount_before / replace -/

theorem grow_nodeInsertBefore (id : Id) (c : State) (d : Dom) : Grow d (nodeInsertBefore id c d).1 := by
  unfold nodeInsertBefore
  split
  · split
    · exact grow_mount c d _ _
    · exact Grow.refl d
  · exact Grow.refl d

mutual
theorem grow_ibt : (s c : State) → ∀ (d : Dom), Grow d (insertBeforeThis s c d).1
  | .text id _, c, d => grow_nodeInsertBefore id c d
  | .unit id, c, d => grow_nodeInsertBefore id c d
  | .elem id _ _, c, d => grow_nodeInsertBefore id c d
  | .tuple sts, c, d => by simpa [insertBeforeThis] using grow_ibtFirst sts c d
  | .either _ st, c, d => by simpa [insertBeforeThis] using grow_ibt st c d
  | .any _ st, c, d => by simpa [insertBeforeThis] using grow_ibt st c d
  | .vec sts mk, c, d => by
    simp only [insertBeforeThis]
    have h1 := grow_ibtFirst sts c d
    cases h : insertBeforeFirst sts c d with
    | mk d' b =>
      rw [h] at h1
      cases b with
      | true => exact h1
      | false => exact h1.trans (grow_nodeInsertBefore mk c d')
theorem grow_ibtFirst : (ss : List State) → (c : State) → ∀ (d : Dom), Grow d (insertBeforeFirst ss c d).1
  | [], _, d => Grow.refl d
  | s :: ss, c, d => by
    simp only [insertBeforeFirst]
    have h1 := grow_ibt s c d
    cases h : insertBeforeThis s c d with
    | mk d' b =>
      rw [h] at h1
      cases b with
      | true => exact h1
      | false => exact h1.trans (grow_ibtFirst ss c d')
end

theorem grow_mountBefore (c : State) (mk : Id) (d : Dom) : Grow d (mountBefore c mk d) := by
  unfold mountBefore
  split
  · split
    · exact grow_mount c d _ _
    · exact grow_err d _
  · exact grow_err d _

theorem grow_mountBeforeEach : ∀ (ss : List State) (mk : Id) (d : Dom), Grow d (mountBeforeEach ss mk d)
  | [], _, d => Grow.refl d
  | s :: ss, mk, d => by
    simp only [mountBeforeEach]
    exact (grow_mountBefore s mk d).trans (grow_mountBeforeEach ss mk _)

theorem grow_replaceState (old new : State) (d : Dom) : Grow d (replaceState old new d) := by
  unfold replaceState
  exact (grow_ibt old new d).trans (grow_unmount old _)

/-- the roots of `c` are outside `Z` and are not `id` -/
theorem erase_nodeInsertBefore (Z : List Id) (id : Id) (c : State) (d : Dom) (hs : SideZ d Z) (hid : id ∉ Z)
    (hc : ∀ y ∈ c.roots, y ∉ Z ∧ y ≠ id) :
    nodeInsertBefore id c (erase d Z) = (erase (nodeInsertBefore id c d).1 Z, (nodeInsertBefore id c d).2) := by
  unfold nodeInsertBefore
  rw [getParent_erase d hid]
  cases hp : d.getParent id with
  | none => rfl
  | some p =>
    simp only []
    by_cases hpz : p ∈ Z
    · simp [hs.notEl p hpz, isElement_erase_mem d hpz]
    · rw [isElement_erase d hpz]
      by_cases hel : d.isElement p = true
      · simp only [hel, if_true]
        rw [erase_mount Z c d p (some id) hs (fun y hy => ⟨(hc y hy).1, fun e => (hc y hy).2 (by cases e; rfl)⟩)
          (fun a ha => by cases ha; exact hid)]
      · simp [hel]

mutual
theorem erase_ibt (Z : List Id) : (s c : State) → ∀ (d : Dom), SideZ d Z → (∀ x ∈ s.roots, x ∉ Z) →
    (∀ y ∈ c.roots, y ∉ Z ∧ y ∉ s.roots) →
    insertBeforeThis s c (erase d Z) = (erase (insertBeforeThis s c d).1 Z, (insertBeforeThis s c d).2)
  | .text id _, c, d, hs, hr, hc =>
    erase_nodeInsertBefore Z id c d hs (hr id (by simp [State.roots]))
      (fun y hy => ⟨(hc y hy).1, fun e => (hc y hy).2 (by simp [State.roots, e])⟩)
  | .unit id, c, d, hs, hr, hc =>
    erase_nodeInsertBefore Z id c d hs (hr id (by simp [State.roots]))
      (fun y hy => ⟨(hc y hy).1, fun e => (hc y hy).2 (by simp [State.roots, e])⟩)
  | .elem id _ _, c, d, hs, hr, hc =>
    erase_nodeInsertBefore Z id c d hs (hr id (by simp [State.roots]))
      (fun y hy => ⟨(hc y hy).1, fun e => (hc y hy).2 (by simp [State.roots, e])⟩)
  | .tuple sts, c, d, hs, hr, hc => by
    simpa [insertBeforeThis] using erase_ibtFirst Z sts c d hs (by simpa [State.roots] using hr)
      (by simpa [State.roots] using hc)
  | .either _ st, c, d, hs, hr, hc => by
    simpa [insertBeforeThis] using erase_ibt Z st c d hs (by simpa [State.roots] using hr)
      (by simpa [State.roots] using hc)
  | .any _ st, c, d, hs, hr, hc => by
    simpa [insertBeforeThis] using erase_ibt Z st c d hs (by simpa [State.roots] using hr)
      (by simpa [State.roots] using hc)
  | .vec sts mk, c, d, hs, hr, hc => by
    simp only [insertBeforeThis]
    have h1 := erase_ibtFirst Z sts c d hs (fun x hx => hr x (by simp [State.roots, hx]))
      (fun y hy => ⟨(hc y hy).1, fun e => (hc y hy).2 (by simp [State.roots, e])⟩)
    have hg := grow_ibtFirst sts c d
    rw [h1]
    cases h : insertBeforeFirst sts c d with
    | mk d' b =>
      rw [h] at hg
      cases b with
      | true => rfl
      | false =>
        simp only []
        exact erase_nodeInsertBefore Z mk c d' (hs.grow hg) (hr mk (by simp [State.roots]))
          (fun y hy => ⟨(hc y hy).1, fun e => (hc y hy).2 (by simp [State.roots, e])⟩)
theorem erase_ibtFirst (Z : List Id) : (ss : List State) → (c : State) → ∀ (d : Dom), SideZ d Z →
    (∀ x ∈ State.rootsList ss, x ∉ Z) → (∀ y ∈ c.roots, y ∉ Z ∧ y ∉ State.rootsList ss) →
    insertBeforeFirst ss c (erase d Z) = (erase (insertBeforeFirst ss c d).1 Z, (insertBeforeFirst ss c d).2)
  | [], _, _, _, _, _ => rfl
  | s :: ss, c, d, hs, hr, hc => by
    simp only [insertBeforeFirst]
    have h1 := erase_ibt Z s c d hs (fun x hx => hr x (by simp [State.rootsList, hx]))
      (fun y hy => ⟨(hc y hy).1, fun e => (hc y hy).2 (by simp [State.rootsList, e])⟩)
    have hg := grow_ibt s c d
    rw [h1]
    cases h : insertBeforeThis s c d with
    | mk d' b =>
      rw [h] at hg
      cases b with
      | true => rfl
      | false =>
        simp only []
        exact erase_ibtFirst Z ss c d' (hs.grow hg) (fun x hx => hr x (by simp [State.rootsList, hx]))
          (fun y hy => ⟨(hc y hy).1, fun e => (hc y hy).2 (by simp [State.rootsList, e])⟩)
end

theorem erase_mountBefore (Z : List Id) (c : State) (mk : Id) (d : Dom) (hs : SideZ d Z) (hmk : mk ∉ Z)
    (hc : ∀ y ∈ c.roots, y ∉ Z ∧ y ≠ mk) :
    erase (mountBefore c mk d) Z = mountBefore c mk (erase d Z) := by
  unfold mountBefore
  rw [getParent_erase d hmk]
  cases hp : d.getParent mk with
  | none => rfl
  | some p =>
    simp only []
    by_cases hpz : p ∈ Z
    · simp [hs.notEl p hpz, isElement_erase_mem d hpz, erase_err]
    · rw [isElement_erase d hpz]
      by_cases hel : d.isElement p = true
      · simp only [hel, if_true]
        exact erase_mount Z c d p (some mk) hs (fun y hy => ⟨(hc y hy).1, fun e => (hc y hy).2 (by cases e; rfl)⟩)
          (fun a ha => by cases ha; exact hmk)
      · simp [hel, erase_err]

theorem erase_mountBeforeEach (Z : List Id) : ∀ (ss : List State) (mk : Id) (d : Dom), SideZ d Z → mk ∉ Z →
    (∀ y ∈ State.rootsList ss, y ∉ Z ∧ y ≠ mk) →
    erase (mountBeforeEach ss mk d) Z = mountBeforeEach ss mk (erase d Z)
  | [], _, _, _, _, _ => rfl
  | s :: ss, mk, d, hs, hmk, hc => by
    simp only [mountBeforeEach]
    rw [erase_mountBeforeEach Z ss mk _ (hs.grow (grow_mountBefore s mk d)) hmk
        (fun y hy => hc y (by simp [State.rootsList, hy])),
      erase_mountBefore Z s mk d hs hmk (fun y hy => hc y (by simp [State.rootsList, hy]))]

theorem erase_replaceState (Z : List Id) (old new : State) (d : Dom) (hs : SideZ d Z)
    (hr : ∀ x ∈ old.roots, x ∉ Z) (hc : ∀ y ∈ new.roots, y ∉ Z ∧ y ∉ old.roots) :
    erase (replaceState old new d) Z = replaceState old new (erase d Z) := by
  unfold replaceState
  rw [erase_ibt Z old new d hs hr hc, erase_unmount Z old _ hr]

end Leptos.Hydrate
