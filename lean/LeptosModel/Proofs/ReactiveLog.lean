import LeptosModel.Proofs.ReactiveJust
/-!
# Proofs/ReactiveLog — a disposed or paused effect never runs (C02 lifecycle clauses)
-/
namespace Leptos.Reactive

variable {dead : Bool}

/-- effect `e` cannot run (disposed or paused) and the log has grown since `s0` without any `ran e` -/
structure QLd (dead : Bool) (e : Nat) (s0 s : State) : Prop where
  kind : (s.get e).kind = .eff
  norun : if dead = true then (s.get e).alive = false else (s.get e).paused = true
  ext : LogExt (· ≠ .ran e) s0 s

theorem QLd.of_nodes {e : Nat} {s0 s s' : State} (h : QLd dead e s0 s) (hn : s'.nodes = s.nodes)
    (hl : s'.log = s.log) : QLd dead e s0 s' := by
  have g : ∀ i, s'.get i = s.get i := by intro i; simp only [State.get, hn]
  exact ⟨by rw [g]; exact h.kind, by rw [g]; exact h.norun, h.ext.trans (LogExt.of_eq hl)⟩

theorem QLd.emit {e : Nat} {s0 s : State} (h : QLd dead e s0 s) (ev : Ev) (hev : ev ≠ .ran e) :
    QLd dead e s0 (s.emit ev) :=
  ⟨h.kind, h.norun, h.ext.trans (LogExt.emit hev)⟩

theorem QLd.upd {e : Nat} {s0 s : State} (h : QLd dead e s0 s) (i : Nat) (g : Node → Node)
    (hg : i = e → (g (s.get e)).kind = (s.get e).kind ∧ (g (s.get e)).alive = (s.get e).alive ∧
      (g (s.get e)).paused = (s.get e).paused) : QLd dead e s0 (s.upd i g) := by
  have he : e < s.nodes.length := s.lt_of_kind_ne (by rw [h.kind]; simp)
  have key : ((s.upd i g).get e).kind = (s.get e).kind ∧ ((s.upd i g).get e).alive = (s.get e).alive ∧
      ((s.upd i g).get e).paused = (s.get e).paused := by
    by_cases hie : i = e
    · subst hie; rw [State.get_upd_same _ _ he]; exact hg rfl
    · rw [State.get_upd_ne _ _ hie]; exact ⟨rfl, rfl, rfl⟩
  exact ⟨by rw [key.1]; exact h.kind, by rw [key.2.1, key.2.2]; exact h.norun,
    h.ext.trans (LogExt.of_eq rfl)⟩

theorem QLd.of_frame {e : Nat} {s0 s s' : State} {k : Nat} (h : QLd dead e s0 s) (fr : Frame s s' k) :
    QLd dead e s0 s' := by
  have hc := fr.effCore e h.kind
  have cl := Node.core_life hc
  refine ⟨by rw [fr.kind]; exact h.kind, by rw [cl.1, cl.2.1]; exact h.norun, h.ext.trans (fr.logx.mono ?_)⟩
  intro ev hev hc'
  have := hev e hc'
  rw [h.kind] at this; cases this

theorem QLd.of_set {p : Prog} {e : Nat} {s0 s : State} (h : QLd dead e s0 s) (hi : InvR p s) {x : Nat} {v0 : Int}
    (hx : p[x]? = some (.sig v0)) (v : Int) {f : Nat} (sp : SetPost s (setSignal f s x v) x v) :
    QLd dead e s0 (setSignal f s x v) := by
  have hex : e ≠ x := by
    intro hc; subst hc
    have := hi.kind e _ hx
    rw [h.kind] at this; cases this
  have cl := Node.core_life (setSignal_core f s x v e hex)
  exact ⟨by rw [sp.kind]; exact h.kind, by rw [cl.1, cl.2.1]; exact h.norun,
    h.ext.trans (sp.logx.mono (fun ev hev => hev.2 e))⟩

theorem QLd.of_track {e : Nat} {s0 s s1 : State} {m x : Nat} (h : QLd dead e s0 s) (t : TrackPost s s1 m x) :
    QLd dead e s0 s1 := by
  have key : (s1.get e).kind = (s.get e).kind ∧ (s1.get e).alive = (s.get e).alive ∧
      (s1.get e).paused = (s.get e).paused := by
    by_cases h1 : e = m
    · subst h1; rw [t.gm]; exact ⟨rfl, rfl, rfl⟩
    · by_cases h2 : e = x
      · subst h2; rw [t.gx]; exact ⟨rfl, rfl, rfl⟩
      · rw [t.go e h1 h2]; exact ⟨rfl, rfl, rfl⟩
  exact ⟨by rw [key.1]; exact h.kind, by rw [key.2.1, key.2.2]; exact h.norun,
    h.ext.trans (LogExt.of_eq t.log)⟩

/-! ## the body of another effect `e'` -/

theorem hreadL {p : Prog} {u : State → Nat → State × Bool} {f : Nat} (hu : UpdOK p u f)
    {e e' : Nat} (hne : e' ≠ e) (s0 : State) (hef : e' ≤ f) (s : State) (x : Nat) (h : InvR p s)
    (hl : EffLoc s e') (hq : QLd dead e s0 s) (hx : x < e') (hkx : (s.get x).kind ≠ .eff) :
    QLd dead e s0 (((readNode u s x).1.upd e' fun n =>
        { n with seen := n.seen ++ [(x, (readNode u s x).2, ((readNode u s x).1.get x).ver)] }).emit
          (.rdv e' x (readNode u s x).2)) := by
  obtain ⟨s1, s2, v, ch, hrd, t, h1, up, _, _⟩ := readEff_cases hu hef h hl hx hkx
  rw [hrd]
  simp only
  exact (((hq.of_track t).of_frame up.frame).upd e' _ (fun hc => absurd hc hne)).emit _ (by simp)

theorem hureadL {p : Prog} {u : State → Nat → State × Bool} {f : Nat} (hu : UpdOK p u f)
    {e e' : Nat} (s0 : State) (hef : e' ≤ f) (s : State) (x : Nat) (h : InvR p s)
    (hl : EffLoc s e') (hq : QLd dead e s0 s) (hx : x < e') (hkx : (s.get x).kind ≠ .eff) :
    QLd dead e s0 ({ (readNode u { s with obs := none } x).1 with obs := s.obs }) := by
  obtain ⟨s2, v, ch, hrd, up⟩ := readEffU_cases hu hef h hl hx hkx
  rw [hrd]
  simp only
  have q1 : QLd dead e s0 ({ s with obs := none } : State) := hq.of_nodes rfl rfl
  exact (q1.of_frame up.frame).of_nodes rfl rfl

theorem hwriteL {p : Prog} {e e' : Nat} (s0 : State) (F : Nat) (hF : p.length ≤ F) (s : State) (x : Nat)
    (v0 v : Int) (h : InvR p s) (_hl : EffLoc s e') (hq : QLd dead e s0 s) (hx : p[x]? = some (.sig v0)) :
    QLd dead e s0 (setSignal F s x v) := by
  obtain ⟨_, sp⟩ := setSignal_inv h hx v (f := F) (by rw [h.len]; exact hF)
  exact hq.of_set h hx v sp

/-! ## the effect task -/

/-- the state in which the body of effect `e` starts to be evaluated -/
def effStart (s : State) (e : Nat) : State :=
  { noteRun (clearSources (s.upd e fun n => { n with first := false }) e) e with obs := some e }

theorem effRun_eq (p : Prog) (f : Nat) (s : State) (e : Nat) (saved : Option Nat) :
    effRun p f s e saved =
      ({ (evalE (readNode (upd p f)) (setSignal f) e (bodyOf p e) (effStart s e)).1 with obs := saved } : State).upd e
        fun n => { n with val := some (evalE (readNode (upd p f)) (setSignal f) e (bodyOf p e) (effStart s e)).2,
                          running := false,
                          ver := (if ((clearSources (s.upd e fun n => { n with first := false }) e).get e).val !=
                            some (evalE (readNode (upd p f)) (setSignal f) e (bodyOf p e) (effStart s e)).2
                            then n.ver + 1 else n.ver) } := rfl

theorem effStart_spec {p : Prog} {s : State} {e : Nat} (h : Quiet p s) (hk : (s.get e).kind = .eff) :
    InvR p (effStart s e) ∧ EffLoc (effStart s e) e := by
  have he : e < s.nodes.length := s.lt_of_kind_ne (by rw [hk]; simp)
  have q1 := h.updEff hk (fun n => { n with first := false }) hk rfl rfl (fun _ hx => hx)
    (Nat.le_refl _) (h.idle e)
  unfold effStart
  generalize hs1 : (s.upd e fun n => { n with first := false }) = s1 at q1
  have hk1 : (s1.get e).kind = .eff := by subst hs1; rw [State.get_upd_same _ _ he]; exact hk
  have he1 : e < s1.nodes.length := by subst hs1; simpa using he
  have t := clearSources_post (s := s1) (m := e) q1.inv.nodup
    (fun i hni hc => hni ((q1.inv.edge i e).1 hc))
    (fun hc => Nat.lt_irrefl e (q1.inv.srcLt e e hc)) he1
  have h2 := clearSources_inv_eff q1.inv t hk1
  generalize clearSources s1 e = s2 at t h2
  have hk2 : (s2.get e).kind = .eff := by rw [t.gm]; exact hk1
  have he2 : e < s2.nodes.length := by rw [t.len]; exact he1
  have idle2 : ∀ i, (s2.get i).running = false := by
    intro i; by_cases hi : i = e
    · subst hi; rw [t.gm]; exact q1.idle i
    · rw [t.go i hi]; exact q1.idle i
  generalize hs4 : ({ noteRun s2 e with obs := some e } : State) = s4
  have g4 : ∀ i, s4.get i = if e = i ∧ i < s2.nodes.length then
      { s2.get i with seen := [], runs := (s2.get i).runs + 1, running := true } else s2.get i := by
    intro i; subst hs4; exact noteRun_get s2 e i
  have g4e : s4.get e = { s2.get e with seen := [], runs := (s2.get e).runs + 1, running := true } := by
    rw [g4 e, if_pos ⟨rfl, he2⟩]
  have g4o : ∀ i, i ≠ e → s4.get i = s2.get i := by
    intro i hi; rw [g4 i, if_neg (fun hc => hi hc.1.symm)]
  refine ⟨?_, by subst hs4; rfl, by rw [g4e]; exact hk2, by rw [g4e], ?_⟩
  · have h3 := h2.updEff hk2 (fun n => { n with seen := [], runs := n.runs + 1, running := true })
      hk2 rfl rfl (fun _ hx => by cases hx) (Nat.le_refl _) (fun _ => rfl)
    refine h3.reobs (s' := s4) ?_ ?_
    · subst hs4
      unfold noteRun
      simp only [State.emit_nodes]
      split <;> rfl
    · intro o ho
      have : o = e := by subst hs4; simpa using ho.symm
      subst this
      rw [State.get_upd_same _ _ he2]
  · intro r hr
    by_cases hre : r = e
    · exact hre
    · rw [g4o r hre, idle2 r] at hr; cases hr

theorem QLd.of_clear {e : Nat} {s0 s s2 : State} {m : Nat} (h : QLd dead e s0 s) (t : ClearPost s s2 m) :
    QLd dead e s0 s2 := by
  have key : (s2.get e).kind = (s.get e).kind ∧ (s2.get e).alive = (s.get e).alive ∧
      (s2.get e).paused = (s.get e).paused := by
    by_cases h1 : e = m
    · subst h1; rw [t.gm]; exact ⟨rfl, rfl, rfl⟩
    · rw [t.go e h1]; exact ⟨rfl, rfl, rfl⟩
  exact ⟨by rw [key.1]; exact h.kind, by rw [key.2.1, key.2.2]; exact h.norun,
    h.ext.trans (LogExt.of_eq t.log)⟩

theorem QLd.of_noteRun {e : Nat} {s0 s : State} (h : QLd dead e s0 s) (id : Nat) (hne : id ≠ e) :
    QLd dead e s0 (noteRun s id) := by
  unfold noteRun
  simp only
  have hr : Ev.ran id ≠ Ev.ran e := by intro hc; cases hc; exact hne rfl
  split
  · exact (h.upd id _ (fun hc => absurd hc hne)).emit _ hr
  · exact ((h.emit (.unjust id) (by simp)).upd id _ (fun hc => absurd hc hne)).emit _ hr

theorem effStart_QL {p : Prog} {e e' : Nat} {s0 s : State} (hq : Quiet p s) (hk : (s.get e').kind = .eff)
    (h : QLd dead e s0 s) (hne : e' ≠ e) : QLd dead e s0 (effStart s e') := by
  have he : e' < s.nodes.length := s.lt_of_kind_ne (by rw [hk]; simp)
  have q1 := hq.updEff hk (fun n => { n with first := false }) hk rfl rfl (fun _ hx => hx)
    (Nat.le_refl _) (hq.idle e')
  have l1 : QLd dead e s0 (s.upd e' fun n => { n with first := false }) := h.upd e' _ (fun hc => absurd hc hne)
  unfold effStart
  generalize hs1 : (s.upd e' fun n => { n with first := false }) = s1 at q1 l1
  have he1 : e' < s1.nodes.length := by subst hs1; simpa using he
  have t := clearSources_post (s := s1) (m := e') q1.inv.nodup
    (fun i hni hc => hni ((q1.inv.edge i e').1 hc))
    (fun hc => Nat.lt_irrefl e' (q1.inv.srcLt e' e' hc)) he1
  exact ((l1.of_clear t).of_noteRun e' hne).of_nodes rfl rfl

theorem effRun_specL {p : Prog} {f : Nat} (hu : UpdOK p (upd p f) f) (hf : p.length < f)
    (hpe : EffOKU p) {e e' : Nat} {s0 s : State} (hq : Quiet p s) (hk : (s.get e').kind = .eff)
    (h : QLd dead e s0 s) (hne : e' ≠ e) : QLd dead e s0 (effRun p f s e' none) := by
  have he : e' < s.nodes.length := s.lt_of_kind_ne (by rw [hk]; simp)
  have hep : e' < p.length := by rw [← hq.inv.len]; exact he
  obtain ⟨h4, l4⟩ := effStart_spec hq hk
  have q4 := effStart_QL hq hk h hne
  obtain ⟨b, hb⟩ : ∃ b, p[e']? = some (.eff b) := by
    have hd' : p[e']? = some p[e'] := List.getElem?_eq_getElem hep
    have := hq.inv.kind e' _ hd'
    rw [hk] at this
    cases hp : p[e'] with
    | eff b => exact ⟨b, by rw [hd', hp]⟩
    | sig v => rw [hp] at this; cases this
    | memo b => rw [hp] at this; cases this
  have hbody := hpe e' b hb
  have hbo : bodyOf p e' = b := by simp only [bodyOf, hb]
  have evq := evalEff_gen hu (e := e') (by omega) f (by omega) (fun s => QLd dead e s0 s)
    (fun s x h' hl' hq' hx hkx => hreadL hu hne s0 (by omega) s x h' hl' hq' hx hkx)
    (fun s x h' hl' hq' hx hkx => hureadL hu s0 (by omega) s x h' hl' hq' hx hkx)
    (fun s x v0 v h' hl' hq' hx => hwriteL s0 f (by omega) s x v0 v h' hl' hq' hx)
    (bodyOf p e') (effStart s e') h4 l4 q4
    (by rw [hbo]; exact hbody.1) (by rw [hbo]; exact hbody.2)
  rw [effRun_eq]
  exact (evalq_store evq hne)
where
  evalq_store {e e' : Nat} {s0 s8 : State} {g : Node → Node} (h : QLd dead e s0 s8) (hne : e' ≠ e) :
      QLd dead e s0 (({ s8 with obs := none } : State).upd e' g) :=
    (h.of_nodes (s' := { s8 with obs := none }) rfl rfl).upd e' g (fun hc => absurd hc hne)

theorem walk_specL {p : Prog} {u : State → Nat → State × Bool} {f : Nat} (hu : UpdOK p u f)
    {e : Nat} {s0 : State} (self : Nat) : ∀ (l : List Nat) (s : State), (∀ x ∈ l, x < f) → Quiet p s →
      QLd dead e s0 s → QLd dead e s0 (anySrc u false self l s).1
  | [], _, _, _, h => h
  | x :: l, s, hl, hq, h => by
    have up := hu s x hq.inv (hl x List.mem_cons_self) (hq.idle x)
      (fun r hr => by rw [hq.idle r] at hr; cases hr)
    unfold anySrc
    generalize u s x = r at up
    obtain ⟨s1, ch⟩ := r
    have q1 : Quiet p s1 := ⟨up.inv, fun i => (up.running i).trans (hq.idle i)⟩
    have l1 : QLd dead e s0 s1 := h.of_frame up.frame
    simp only
    split
    · exact l1
    · exact walk_specL hu self l s1 (fun y hy => hl y (List.mem_cons_of_mem _ hy)) q1 l1

theorem effUpdate_specL {p : Prog} {f : Nat} (hu : UpdOK p (upd p f) f) (hf : p.length ≤ f)
    {e e' : Nat} {s0 s : State} (hq : Quiet p s) (hk : (s.get e').kind = .eff) (h : QLd dead e s0 s) :
    QLd dead e s0 ({ (effUpdate p f { s with obs := some e' } e').1 with obs := none }) := by
  have hobs := hq.obs
  cases hd : (s.get e').dirty with
  | true =>
    rw [effUpdate_dirty p f { s with obs := some e' } e' hd]
    have e1 : ({ (({ s with obs := some e' } : State).upd e' fun n => { n with dirty := false }) with
        obs := none } : State) = ({ s with obs := none } : State).upd e' fun n => { n with dirty := false } := rfl
    simp only
    rw [e1, State.setObs_none_eq hobs]
    exact h.upd e' _ (fun _ => ⟨rfl, rfl, rfl⟩)
  | false =>
    rw [effUpdate_clean p f { s with obs := some e' } e' hd]
    have e0 : ({ ({ s with obs := some e' } : State) with obs := none } : State) = s :=
      State.setObs_none_eq hobs
    simp only [State.setObs_get]
    rw [e0]
    have hw := walk_spec hu e' (s.get e').sources s (fun x hx => by
      have := hq.inv.srcLt e' x hx
      have := hq.inv.len
      have := s.lt_of_kind_ne (i := e') (by rw [hk]; simp)
      omega) hq
    have lw := walk_specL hu (e := e) (s0 := s0) e' (s.get e').sources s (fun x hx => by
      have := hq.inv.srcLt e' x hx
      have := hq.inv.len
      have := s.lt_of_kind_ne (i := e') (by rw [hk]; simp)
      omega) hq h
    generalize anySrc (upd p f) false e' (s.get e').sources s = r at hw lw
    obtain ⟨s2, any⟩ := r
    simp only at hw lw ⊢
    have e1 : ({ (({ s2 with obs := some e' } : State).upd e' fun n => { n with dirty := false }) with
        obs := none } : State) = ({ s2 with obs := none } : State).upd e' fun n => { n with dirty := false } := rfl
    rw [e1, State.setObs_none_eq hw.1.obs]
    exact lw.upd e' _ (fun _ => ⟨rfl, rfl, rfl⟩)

theorem effLoop_specL {p : Prog} {f : Nat} (hu : UpdOK p (upd p f) f) (hf : p.length < f)
    (hpe : EffOKU p) {e : Nat} {s0 : State} (e' : Nat) : ∀ (k : Nat) (s : State), TopJ p s →
      (s.get e').kind = .eff → QLd dead e s0 s → (e' = e → (s.get e).paused = true) →
      QLd dead e s0 (effLoop p f k s e')
  | 0, _, _, _, h, _ => h
  | k + 1, s, ht, hk, h, hp => by
    rw [effLoop_succ]
    split
    · exact h
    · obtain ⟨q1, hk1⟩ := ht.flagEff' hk (fun n => { n with chan := false })
        (fun _ => ⟨rfl, rfl, rfl, rfl, rfl, rfl, rfl, rfl, rfl⟩)
      have l1 : QLd dead e s0 (s.upd e' fun n => { n with chan := false }) :=
        h.upd e' _ (fun _ => ⟨rfl, rfl, rfl⟩)
      have hp1 : e' = e → ((s.upd e' fun n => { n with chan := false }).get e).paused = true := by
        intro hc
        have he : e' < s.nodes.length := s.lt_of_kind_ne (by rw [hk]; simp)
        subst hc
        rw [State.get_upd_same _ _ he]; exact hp rfl
      simp only
      generalize (s.upd e' fun n => { n with chan := false }) = s1 at q1 hk1 l1 hp1
      split
      · exact effLoop_specL hu hf hpe e' k s1 q1 hk1 l1 hp1
      · next hnp =>
        have hne : e' ≠ e := by
          intro hc
          have := hp1 hc
          rw [← hc] at this
          exact hnp this
        obtain ⟨q3, hk3, hd3, hw3⟩ := effUpdate_specJ hu (by omega) q1 hk1
        have l3 := effUpdate_specL hu (by omega) q1.quiet hk1 l1
        rw [q1.quiet.obs]
        generalize effUpdate p f { s1 with obs := some e' } e' = r at q3 hk3 hd3 hw3 l3
        obtain ⟨s2, need⟩ := r
        simp only at q3 hk3 hd3 hw3 l3 ⊢
        have hk3' : (({ s2 with obs := none } : State).get e').kind = .eff := hk3
        split
        · next hc =>
          have hj : (({ s2 with obs := none } : State).get e').runs ≠ 0 →
              ∃ z ∈ (({ s2 with obs := none } : State).get e').seen,
                (({ s2 with obs := none } : State).get z.1).ver ≠ z.2.2 := by
            intro hruns
            by_cases hn : need = true
            · exact hw3 hn hruns
            · have hfirst : (({ s2 with obs := none } : State).get e').first = true := by
                simp only [Bool.or_eq_true] at hc
                rcases hc with hc | hc
                · exact absurd hc hn
                · exact hc
              exact absurd ((q3.effJ e' hk3' (q3.quiet.idle e')).firstJ hfirst) hruns
          obtain ⟨q4, hk4⟩ := effRun_specJ hu hf hpe q3 hk3' hd3 hj
          have l4 := effRun_specL hu hf hpe q3.quiet hk3' l3 hne
          exact effLoop_specL hu hf hpe e' k _ q4 hk4 l4 (fun hc => absurd hc hne)
        · exact effLoop_specL hu hf hpe e' k _ q3 hk3' l3 (fun hc => absurd hc hne)

theorem pollEff_specL {p : Prog} (hp : MemoOK p) (hpe : EffOKU p) {e e' : Nat} {s0 s : State}
    (ht : TopJ p s) (hk : (s.get e').kind = .eff) (h : QLd dead e s0 s) : QLd dead e s0 (pollEff p s e') := by
  unfold pollEff
  have he : e' < s.nodes.length := s.lt_of_kind_ne (by rw [hk]; simp)
  obtain ⟨q1, hk1⟩ := ht.flagEff' hk (fun n => { n with woken := false })
    (fun _ => ⟨rfl, rfl, rfl, rfl, rfl, rfl, rfl, rfl, rfl⟩)
  have l1 : QLd dead e s0 (s.upd e' fun n => { n with woken := false }) := h.upd e' _ (fun _ => ⟨rfl, rfl, rfl⟩)
  have ge : (s.upd e' fun n => { n with woken := false }).get e' = { s.get e' with woken := false } :=
    State.get_upd_same _ _ he
  simp only
  split
  · exact l1.upd e' _ (fun _ => ⟨rfl, rfl, rfl⟩)
  · next hal =>
    refine effLoop_specL (upd_ok hp (fuelFor p)) (by simp [fuelFor]) hpe e' 64 _ q1 hk1 l1 ?_
    intro hc
    subst hc
    have hn := l1.norun
    cases dead with
    | true => simp only [if_true] at hn; rw [hn] at hal; simp at hal
    | false => simpa using hn

theorem pollNth_specL {p : Prog} (hp : MemoOK p) (hpe : EffOKU p) {e : Nat} {s0 s : State} (ht : TopJ p s)
    (h : QLd dead e s0 s) (i : Nat) : QLd dead e s0 (pollNth p s i) := by
  unfold pollNth
  simp only
  split
  · exact h
  · next hne =>
    apply pollEff_specL hp hpe ht _ h
    apply ready_kind
    have hpos : 0 < (ready s).length := by
      cases hr : ready s with
      | nil => rw [hr] at hne; simp at hne
      | cons a l => simp
    have hlt : i % (ready s).length < (ready s).length := Nat.mod_lt _ hpos
    rw [List.getD_eq_getElem?_getD, List.getElem?_eq_getElem hlt]
    exact List.getElem_mem hlt

theorem runIdle_specL {p : Prog} (hp : MemoOK p) (hpe : EffOKU p) {e : Nat} {s0 : State} :
    ∀ (k : Nat) (s : State), TopJ p s → QLd dead e s0 s → QLd dead e s0 (runIdle p k s)
  | 0, _, _, h => h
  | k + 1, s, ht, h => by
    unfold runIdle
    split
    · exact h
    · exact runIdle_specL hp hpe k _ (pollNth_specJ hp hpe ht 0) (pollNth_specL hp hpe ht h 0)

theorem QLd.upd' {e : Nat} {s0 s : State} (h : QLd dead e s0 s) (i : Nat) (g : Node → Node)
    (hk : (g (s.get e)).kind = (s.get e).kind)
    (hn : i = e → if dead = true then (g (s.get e)).alive = false else (g (s.get e)).paused = true) :
    QLd dead e s0 (s.upd i g) := by
  have he : e < s.nodes.length := s.lt_of_kind_ne (by rw [h.kind]; simp)
  by_cases hie : i = e
  · subst hie
    refine ⟨by rw [State.get_upd_same _ _ he, hk]; exact h.kind,
      by rw [State.get_upd_same _ _ he]; exact hn rfl, h.ext.trans (LogExt.of_eq rfl)⟩
  · exact h.upd i g (fun hc => absurd hc hie)

theorem step_specL {p : Prog} (hp : MemoOK p) (hpe : EffOKU p) {e : Nat} {s0 s : State}
    (ht : TopJ p s) (h : QLd dead e s0 s) (o : Op) (ho : o = .resume e → dead = true) :
    QLd dead e s0 (step p s o).1 := by
  cases o with
  | set id v =>
    simp only [step]
    split
    · next v0 hx =>
      have hf : s.nodes.length ≤ fuelFor p := by rw [ht.quiet.inv.len]; simp [fuelFor]
      obtain ⟨_, sp⟩ := setSignal_inv ht.quiet.inv hx v hf
      exact h.of_set ht.quiet.inv hx v sp
    · exact h
  | read m =>
    simp only [step]
    have htrack : track s m = s := by unfold track; rw [ht.quiet.obs]
    unfold readNode
    rw [htrack]
    simp only
    cases hk : (s.get m).kind with
    | eff => exact h
    | sig => exact h
    | memo =>
      simp only
      have hm : m < p.length := ht.quiet.inv.memo_lt hk
      have post := upd_ok hp (fuelFor p) s m ht.quiet.inv (by simp only [fuelFor]; omega) (ht.quiet.idle m)
        (fun r hr => by rw [ht.quiet.idle r] at hr; cases hr)
      exact h.of_frame post.frame
  | poll i => exact pollNth_specL hp hpe ht h i
  | idle => exact runIdle_specL hp hpe 256 s ht h
  | pause e'' =>
    simp only [step]
    split
    · refine h.upd' e'' _ rfl (fun _ => ?_)
      have hn := h.norun
      cases dead with
      | true => simpa using hn
      | false => simp
    · exact h
  | resume e'' =>
    simp only [step]
    split
    · refine h.upd' e'' _ rfl (fun hc => ?_)
      subst hc
      have hd := ho rfl
      subst hd
      have hn := h.norun
      simpa using hn
    · exact h
  | dispose e'' =>
    simp only [step]
    split
    · have q := h.upd' e'' (fun n => { n with alive := false, woken := true }) rfl (fun _ => by
        have hn := h.norun
        cases dead with
        | true => simp
        | false => simpa using hn)
      split
      · exact q.emit _ (by simp)
      · exact q
    · exact h

/-- from a state in which effect `e` is disposed (`dead = true`), or paused and never resumed
(`dead = false`), no `ran e` is logged -/
theorem norun_suffix {p : Prog} (hwf : WF p = true) {e : Nat} (ops : List Op)
    (hres : dead = false → ∀ o ∈ ops, o ≠ .resume e) (s : State) (ht : TopJ p s)
    (hk : (s.get e).kind = .eff)
    (hc : if dead = true then (s.get e).alive = false else (s.get e).paused = true) :
    ∃ suf, (ops.foldl (fun s o => (step p s o).1) s).log = s.log ++ suf ∧ Ev.ran e ∉ suf := by
  suffices ∀ (ops : List Op) (s' : State), (dead = false → ∀ o ∈ ops, o ≠ .resume e) → TopJ p s' →
      QLd dead e s s' → QLd dead e s (ops.foldl (fun s o => (step p s o).1) s') by
    have h0 : QLd dead e s s := ⟨hk, hc, LogExt.refl _ s⟩
    obtain ⟨suf, hs, hg⟩ := (this ops s hres ht h0).ext
    exact ⟨suf, hs, fun hm => hg _ hm rfl⟩
  intro ops
  induction ops with
  | nil => intro s' _ _ h; exact h
  | cons o ops ih =>
    intro s' hr ht' h
    have ho : o = .resume e → dead = true := by
      intro hoe
      cases hd : dead with
      | true => rfl
      | false => exact absurd hoe (hr hd o List.mem_cons_self)
    have h1 := step_specL (memoOK_of_wf hwf) (effOKU_of_wf hwf) ht' h o ho
    have t1 := step_topJ (memoOK_of_wf hwf) (effOKU_of_wf hwf) ht' o
    exact ih _ (fun hd o' ho' => hr hd o' (List.mem_cons_of_mem _ ho')) t1 h1

end Leptos.Reactive
