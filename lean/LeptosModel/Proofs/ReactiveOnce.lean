import LeptosModel.Proofs.ReactiveGlitch
/-!
# Proofs/ReactiveOnce — at most one run per change, at the level of the log

`ChgRel p s0 s` (see `Proofs/ReactiveInv.lean`): the log written between `s0` and `s` contains, before
every `ran w` that is not the first run of `w`, a tracked read `rdv w x v` made by the previous run of `w`
and, after that read, a change event of `x` (`set x` or `changed x`).  This file carries the relation
through the effect machinery; the memo machinery carries it in the `cr` fields of `UpdPost` etc.
-/
namespace Leptos.Reactive

theorem ChgRel.of_nodes {p : Prog} {s0 s s' : State} (h : ChgRel p s0 s) (hn : s'.nodes = s.nodes)
    (hl : s'.log = s.log) : ChgRel p s0 s' := by
  have g : ∀ i, s'.get i = s.get i := by intro i; simp only [State.get, hn]
  exact h.trans (ChgRel.of_same hl (fun w => by rw [g]) (fun w => by rw [g]) (fun w => by rw [g]))

/-- updating a node without touching `seen`, `runs`, and `ver` (or only the `ver` of an effect) -/
theorem ChgRel.upd {p : Prog} {s0 s : State} (h : ChgRel p s0 s) (i : Nat) (g : Node → Node)
    (hg : ∀ n, (g n).seen = n.seen ∧ (g n).runs = n.runs)
    (hv : (∀ n, (g n).ver = n.ver) ∨ ¬ notEffP p i) : ChgRel p s0 (s.upd i g) := by
  refine h.trans (ChgRel.of_noRan (suf := []) (by simp) (fun _ h => by cases h) (fun w => ?_)
    (fun x hx hne => ?_) (fun w hw => ?_))
  · rw [State.get_upd]; split
    · exact (hg _).1
    · rfl
  · exfalso
    apply hne
    rw [State.get_upd]; split
    · next hc =>
      obtain ⟨rfl, _⟩ := hc
      rcases hv with hv | hv
      · exact hv _
      · exact absurd hx hv
    · rfl
  · rw [State.get_upd]; split
    · rw [(hg _).2]; exact hw
    · exact hw

theorem ChgRel.emit {p : Prog} {s0 s : State} (h : ChgRel p s0 s) (ev : Ev) (hev : ∀ w, ev ≠ .ran w) :
    ChgRel p s0 (s.emit ev) :=
  h.trans (ChgRel.of_noRan (suf := [ev]) rfl
    (fun w hw => hev w (List.mem_singleton.1 hw).symm) (fun _ => rfl) (fun _ _ hne => absurd rfl hne)
    (fun _ hw => hw))

theorem InvR.eff_isEffP {p : Prog} {s : State} (h : InvR p s) {e : Nat} (hk : (s.get e).kind = .eff) :
    ¬ Leptos.Reactive.notEffP p e := by
  intro hn
  have he : e < s.nodes.length := s.lt_of_kind_ne (by rw [hk]; simp)
  have hep : e < p.length := by rw [← h.len]; exact he
  have hd' : p[e]? = some p[e] := List.getElem?_eq_getElem hep
  have := h.kind e _ hd'
  rw [hk] at this
  cases hp : p[e] with
  | eff b => exact hn b (by rw [hd', hp])
  | sig v => rw [hp] at this; cases this
  | memo b => rw [hp] at this; cases this

theorem SetPost.cr (p : Prog) {s s' : State} {x : Nat} {v : Int} (h : SetPost s s' x v) : ChgRel p s s' := by
  obtain ⟨w, hw, gw⟩ := h.logs
  refine ChgRel.of_noRan hw (fun i hi => ?_) h.seen (fun y _ hne => ?_) (fun i hi => by rw [h.runs]; exact hi)
  · rcases List.mem_cons.1 hi with hi | hi
    · cases hi
    · obtain ⟨j, hj⟩ := gw _ hi; cases hj
  · by_cases hy : y = x
    · subst hy; exact .inl List.mem_cons_self
    · exact absurd (h.ver y hy) hne

theorem ChgRel.of_track {p : Prog} {s0 s s1 : State} {m x : Nat} (h : ChgRel p s0 s)
    (t : TrackPost s s1 m x) : ChgRel p s0 s1 :=
  h.trans (ChgRel.of_same t.log t.seen t.ver t.runs)

/-! ## the body of an effect -/

section
variable {p : Prog} {s0 : State} (hc0 : CInv p s0)
include hc0

theorem hreadO {u : State → Nat → State × Bool} {f : Nat} (hu : UpdOK p u f)
    {e' : Nat} (hef : e' ≤ f) (s : State) (x : Nat) (h : InvR p s)
    (hl : EffLoc s e') (hq : ChgRel p s0 s) (hx : x < e') (hkx : (s.get x).kind ≠ .eff) :
    ChgRel p s0 (((readNode u s x).1.upd e' fun n =>
        { n with seen := n.seen ++ [(x, (readNode u s x).2, ((readNode u s x).1.get x).ver)] }).emit
          (.rdv e' x (readNode u s x).2)) := by
  obtain ⟨s1, s2, v, ch, hrd, t, h1, up, hc, hv⟩ := readEff_cases hu hef h hl hx hkx
  rw [hrd]
  simp only
  have q1 : ChgRel p s0 s1 := hq.of_track t
  have q2 : ChgRel p s0 s2 := q1.trans (up.cr (hc0.step q1))
  have hm2 : e' < s2.nodes.length :=
    s2.lt_of_running (by rw [up.running, t.running]; exact hl.running)
  refine q2.trans (ChgRel.of_rdv (w := e') (x := x) (v := v) rfl ?_ ?_ ?_ ?_)
  · rw [State.emit_get, State.get_upd_same _ _ hm2]
  · intro i hi; rw [State.emit_get, State.get_upd_ne _ _ (Ne.symm hi)]
  · intro i; rw [State.emit_get, State.get_upd]; split <;> rfl
  · intro i; rw [State.emit_get, State.get_upd]; split <;> rfl

theorem hureadO {u : State → Nat → State × Bool} {f : Nat} (hu : UpdOK p u f)
    {e' : Nat} (hef : e' ≤ f) (s : State) (x : Nat) (h : InvR p s)
    (hl : EffLoc s e') (hq : ChgRel p s0 s) (hx : x < e') (hkx : (s.get x).kind ≠ .eff) :
    ChgRel p s0 ({ (readNode u { s with obs := none } x).1 with obs := s.obs }) := by
  obtain ⟨s2, v, ch, hrd, up⟩ := readEffU_cases hu hef h hl hx hkx
  rw [hrd]
  simp only
  have q1 : ChgRel p s0 ({ s with obs := none } : State) := hq.of_nodes rfl rfl
  exact (q1.trans (up.cr (hc0.step q1))).of_nodes rfl rfl

omit hc0 in
theorem hwriteO {e' : Nat} (F : Nat) (hF : p.length ≤ F) (s : State) (x : Nat)
    (v0 v : Int) (h : InvR p s) (_hl : EffLoc s e') (hq : ChgRel p s0 s) (hx : p[x]? = some (.sig v0)) :
    ChgRel p s0 (setSignal F s x v) := by
  obtain ⟨_, sp⟩ := setSignal_inv h hx v (f := F) (by rw [h.len]; exact hF)
  exact hq.trans (sp.cr p)

/-! ## the effect task -/

theorem effStart_O {e' : Nat} {s : State} (hq : Quiet p s) (hk : (s.get e').kind = .eff)
    (h : ChgRel p s0 s) (hss : (s.get e').sources = (s.get e').seen.map (·.1))
    (hj : (s.get e').runs ≠ 0 → ∃ z ∈ (s.get e').seen, (s.get z.1).ver ≠ z.2.2) :
    ChgRel p s0 (effStart s e') := by
  have he : e' < s.nodes.length := s.lt_of_kind_ne (by rw [hk]; simp)
  have q1 := hq.updEff hk (fun n => { n with first := false }) hk rfl rfl (fun _ hx => hx)
    (Nat.le_refl _) (hq.idle e')
  have l1 : ChgRel p s0 (s.upd e' fun n => { n with first := false }) :=
    h.upd e' _ (fun _ => ⟨rfl, rfl⟩) (.inl fun _ => rfl)
  have g1 : ∀ i, ((s.upd e' fun n => { n with first := false }).get i).seen = (s.get i).seen ∧
      ((s.upd e' fun n => { n with first := false }).get i).ver = (s.get i).ver ∧
      ((s.upd e' fun n => { n with first := false }).get i).runs = (s.get i).runs := by
    intro i; rw [State.get_upd]; split <;> exact ⟨rfl, rfl, rfl⟩
  unfold effStart
  generalize hs1 : (s.upd e' fun n => { n with first := false }) = s1 at q1 l1 g1
  have he1 : e' < s1.nodes.length := by subst hs1; simpa using he
  have t := clearSources_post (s := s1) (m := e') q1.inv.nodup
    (fun i hni hc => hni ((q1.inv.edge i e').1 hc))
    (fun hc => Nat.lt_irrefl e' (q1.inv.srcLt e' e' hc)) he1
  have g2 : ∀ i, ((clearSources s1 e').get i).seen = (s.get i).seen ∧
      ((clearSources s1 e').get i).ver = (s.get i).ver ∧
      ((clearSources s1 e').get i).runs = (s.get i).runs := by
    intro i
    by_cases hi : i = e'
    · subst hi; rw [t.gm]; exact g1 i
    · rw [t.go i hi]; exact g1 i
  have l2 : ChgRel p s0 (clearSources s1 e') :=
    l1.trans (ChgRel.of_same t.log (fun i => by rw [(g2 i).1, (g1 i).1]) (fun i => by rw [(g2 i).2.1, (g1 i).2.1])
      (fun i => by rw [(g2 i).2.2, (g1 i).2.2]))
  generalize clearSources s1 e' = s2 at t g2 l2
  have he2 : e' < s2.nodes.length := by rw [t.len]; exact he1
  have c2 := hc0.step l2
  have l3 : ChgRel p s2 (noteRun s2 e') := by
    have hget := noteRun_get s2 e'
    refine ChgRel.of_ran (m := e') (pre := if justified s2 e' then [] else [Ev.unjust e']) c2
      (noteRun_log s2 e') (fun ev hev => ?_) ?_ (fun i hi => ?_) (fun i => ?_) ?_ (fun i hi => ?_) (fun hruns => ?_)
    · split at hev
      · cases hev
      · exact List.mem_singleton.1 hev
    · rw [hget, if_pos ⟨rfl, he2⟩]
    · rw [hget, if_neg (fun hc => hi hc.1.symm)]
    · rw [hget]; split <;> rfl
    · rw [hget, if_pos ⟨rfl, he2⟩]; simp
    · rw [hget, if_neg (fun hc => hi hc.1.symm)]
    · rw [(g2 e').2.2] at hruns
      obtain ⟨z, hz, hne⟩ := hj hruns
      refine ⟨z, by rw [(g2 e').1]; exact hz, ?_, by rw [(g2 z.1).2.1]; exact hne⟩
      have hsrc : z.1 ∈ (s.get e').sources := by rw [hss]; exact List.mem_map_of_mem hz
      exact hq.inv.notEffP (hq.inv.srcData e' z.1 hsrc)
  exact (l2.trans l3).of_nodes rfl rfl

theorem effRun_specO {f : Nat} (hu : UpdOK p (upd p f) f) (hf : p.length < f)
    (hpe : EffOKU p) {e' : Nat} {s : State} (hq : Quiet p s) (hk : (s.get e').kind = .eff)
    (h : ChgRel p s0 s) (hss : (s.get e').sources = (s.get e').seen.map (·.1))
    (hj : (s.get e').runs ≠ 0 → ∃ z ∈ (s.get e').seen, (s.get z.1).ver ≠ z.2.2) :
    ChgRel p s0 (effRun p f s e' none) := by
  have he : e' < s.nodes.length := s.lt_of_kind_ne (by rw [hk]; simp)
  have hep : e' < p.length := by rw [← hq.inv.len]; exact he
  obtain ⟨h4, l4⟩ := effStart_spec hq hk
  have q4 := effStart_O hc0 hq hk h hss hj
  obtain ⟨b, hb⟩ : ∃ b, p[e']? = some (.eff b) := by
    have hd' : p[e']? = some p[e'] := List.getElem?_eq_getElem hep
    have := hq.inv.kind e' _ hd'
    rw [hk] at this
    cases hp : p[e'] with
    | eff b => exact ⟨b, by rw [hd', hp]⟩
    | sig v => rw [hp] at this; cases this
    | memo b => rw [hp] at this; cases this
  have hbody := hpe e' b hb
  have hbo : bodyOf p e' = b := by simp only [bodyOf, hb]
  have evq := evalEff_gen hu (e := e') (by omega) f (by omega) (fun s => ChgRel p s0 s)
    (fun s x h' hl' hq' hx hkx => hreadO hc0 hu (by omega) s x h' hl' hq' hx hkx)
    (fun s x h' hl' hq' hx hkx => hureadO hc0 hu (by omega) s x h' hl' hq' hx hkx)
    (fun s x v0 v h' hl' hq' hx => hwriteO f (by omega) s x v0 v h' hl' hq' hx)
    (bodyOf p e') (effStart s e') h4 l4 q4
    (by rw [hbo]; exact hbody.1) (by rw [hbo]; exact hbody.2)
  rw [effRun_eq]
  exact store evq (hq.inv.eff_isEffP hk)
where
  store {p : Prog} {s0 s8 : State} {e' : Nat} {v : Int} {c : Bool} (h : ChgRel p s0 s8) (hne : ¬ notEffP p e') :
      ChgRel p s0 (({ s8 with obs := none } : State).upd e' fun n =>
        { n with val := some v, running := false, ver := (if c then n.ver + 1 else n.ver) }) :=
    (h.of_nodes (s' := { s8 with obs := none }) rfl rfl).upd e' _ (fun _ => ⟨rfl, rfl⟩) (.inr hne)

theorem walk_specO {u : State → Nat → State × Bool} {f : Nat} (hu : UpdOK p u f)
    (self : Nat) : ∀ (l : List Nat) (s : State), (∀ x ∈ l, x < f) → Quiet p s →
      ChgRel p s0 s → ChgRel p s0 (anySrc u false self l s).1
  | [], _, _, _, h => h
  | x :: l, s, hl, hq, h => by
    have up := hu s x hq.inv (hl x List.mem_cons_self) (hq.idle x)
      (fun r hr => by rw [hq.idle r] at hr; cases hr)
    unfold anySrc
    generalize u s x = r at up
    obtain ⟨s1, ch⟩ := r
    have q1 : Quiet p s1 := ⟨up.inv, fun i => (up.running i).trans (hq.idle i)⟩
    have l1 : ChgRel p s0 s1 := h.trans (up.cr (hc0.step h))
    simp only
    split
    · exact l1
    · exact walk_specO hu self l s1 (fun y hy => hl y (List.mem_cons_of_mem _ hy)) q1 l1

theorem effUpdate_specO {f : Nat} (hu : UpdOK p (upd p f) f) (hf : p.length ≤ f)
    {e' : Nat} {s : State} (hq : Quiet p s) (hk : (s.get e').kind = .eff) (h : ChgRel p s0 s) :
    ChgRel p s0 ({ (effUpdate p f { s with obs := some e' } e').1 with obs := none }) := by
  have hobs := hq.obs
  cases hd : (s.get e').dirty with
  | true =>
    rw [effUpdate_dirty p f { s with obs := some e' } e' hd]
    have e1 : ({ (({ s with obs := some e' } : State).upd e' fun n => { n with dirty := false }) with
        obs := none } : State) = ({ s with obs := none } : State).upd e' fun n => { n with dirty := false } := rfl
    simp only
    rw [e1, State.setObs_none_eq hobs]
    exact h.upd e' _ (fun _ => ⟨rfl, rfl⟩) (.inl fun _ => rfl)
  | false =>
    rw [effUpdate_clean p f { s with obs := some e' } e' hd]
    have e0 : ({ ({ s with obs := some e' } : State) with obs := none } : State) = s :=
      State.setObs_none_eq hobs
    simp only [State.setObs_get]
    rw [e0]
    have hw := walk_spec hu e' (s.get e').sources s (fun x hx => by
      have := hq.inv.srcLt e' x hx
      have := hq.inv.len
      have := s.lt_of_kind_ne (i := e') (by rw [hk]; simp)
      omega) hq
    have lw := walk_specO hc0 hu e' (s.get e').sources s (fun x hx => by
      have := hq.inv.srcLt e' x hx
      have := hq.inv.len
      have := s.lt_of_kind_ne (i := e') (by rw [hk]; simp)
      omega) hq h
    generalize anySrc (upd p f) false e' (s.get e').sources s = r at hw lw
    obtain ⟨s2, any⟩ := r
    simp only at hw lw ⊢
    have e1 : ({ (({ s2 with obs := some e' } : State).upd e' fun n => { n with dirty := false }) with
        obs := none } : State) = ({ s2 with obs := none } : State).upd e' fun n => { n with dirty := false } := rfl
    rw [e1, State.setObs_none_eq hw.1.obs]
    exact lw.upd e' _ (fun _ => ⟨rfl, rfl⟩) (.inl fun _ => rfl)

theorem effLoop_specO {f : Nat} (hu : UpdOK p (upd p f) f) (hf : p.length < f)
    (hpe : EffOKU p) (e' : Nat) : ∀ (k : Nat) (s : State), TopJ p s →
      (s.get e').kind = .eff → ChgRel p s0 s → ChgRel p s0 (effLoop p f k s e')
  | 0, _, _, _, h => h
  | k + 1, s, ht, hk, h => by
    rw [effLoop_succ]
    split
    · exact h
    · obtain ⟨q1, hk1⟩ := ht.flagEff' hk (fun n => { n with chan := false })
        (fun _ => ⟨rfl, rfl, rfl, rfl, rfl, rfl, rfl, rfl, rfl⟩)
      have l1 : ChgRel p s0 (s.upd e' fun n => { n with chan := false }) :=
        h.upd e' _ (fun _ => ⟨rfl, rfl⟩) (.inl fun _ => rfl)
      simp only
      generalize (s.upd e' fun n => { n with chan := false }) = s1 at q1 hk1 l1
      split
      · exact effLoop_specO hu hf hpe e' k s1 q1 hk1 l1
      · obtain ⟨q3, hk3, hd3, hw3⟩ := effUpdate_specJ hu (by omega) q1 hk1
        have l3 := effUpdate_specO hc0 hu (by omega) q1.quiet hk1 l1
        rw [q1.quiet.obs]
        generalize effUpdate p f { s1 with obs := some e' } e' = r at q3 hk3 hd3 hw3 l3
        obtain ⟨s2, need⟩ := r
        simp only at q3 hk3 hd3 hw3 l3 ⊢
        have hk3' : (({ s2 with obs := none } : State).get e').kind = .eff := hk3
        split
        · next hc =>
          have hj : (({ s2 with obs := none } : State).get e').runs ≠ 0 →
              ∃ z ∈ (({ s2 with obs := none } : State).get e').seen,
                (({ s2 with obs := none } : State).get z.1).ver ≠ z.2.2 := by
            intro hruns
            by_cases hn : need = true
            · exact hw3 hn hruns
            · have hfirst : (({ s2 with obs := none } : State).get e').first = true := by
                simp only [Bool.or_eq_true] at hc
                rcases hc with hc | hc
                · exact absurd hc hn
                · exact hc
              exact absurd ((q3.effJ e' hk3' (q3.quiet.idle e')).firstJ hfirst) hruns
          obtain ⟨q4, hk4⟩ := effRun_specJ hu hf hpe q3 hk3' hd3 hj
          have l4 := effRun_specO hc0 hu hf hpe q3.quiet hk3' l3
            (q3.effJ e' hk3' (q3.quiet.idle e')).srcSeen hj
          exact effLoop_specO hu hf hpe e' k _ q4 hk4 l4
        · exact effLoop_specO hu hf hpe e' k _ q3 hk3' l3

theorem pollEff_specO (hp : MemoOK p) (hpe : EffOKU p) {e' : Nat} {s : State}
    (ht : TopJ p s) (hk : (s.get e').kind = .eff) (h : ChgRel p s0 s) : ChgRel p s0 (pollEff p s e') := by
  unfold pollEff
  obtain ⟨q1, hk1⟩ := ht.flagEff' hk (fun n => { n with woken := false })
    (fun _ => ⟨rfl, rfl, rfl, rfl, rfl, rfl, rfl, rfl, rfl⟩)
  have l1 : ChgRel p s0 (s.upd e' fun n => { n with woken := false }) :=
    h.upd e' _ (fun _ => ⟨rfl, rfl⟩) (.inl fun _ => rfl)
  simp only
  split
  · exact l1.upd e' _ (fun _ => ⟨rfl, rfl⟩) (.inl fun _ => rfl)
  · exact effLoop_specO hc0 (upd_ok hp (fuelFor p)) (by simp [fuelFor]) hpe e' 64 _ q1 hk1 l1

theorem pollNth_specO (hp : MemoOK p) (hpe : EffOKU p) {s : State} (ht : TopJ p s)
    (h : ChgRel p s0 s) (i : Nat) : ChgRel p s0 (pollNth p s i) := by
  unfold pollNth
  simp only
  split
  · exact h
  · next hne =>
    apply pollEff_specO hc0 hp hpe ht _ h
    apply ready_kind
    have hpos : 0 < (ready s).length := by
      cases hr : ready s with
      | nil => rw [hr] at hne; simp at hne
      | cons a l => simp
    have hlt : i % (ready s).length < (ready s).length := Nat.mod_lt _ hpos
    rw [List.getD_eq_getElem?_getD, List.getElem?_eq_getElem hlt]
    exact List.getElem_mem hlt

theorem runIdle_specO (hp : MemoOK p) (hpe : EffOKU p) :
    ∀ (k : Nat) (s : State), TopJ p s → ChgRel p s0 s → ChgRel p s0 (runIdle p k s)
  | 0, _, _, h => h
  | k + 1, s, ht, h => by
    unfold runIdle
    split
    · exact h
    · exact runIdle_specO hp hpe k _ (pollNth_specJ hp hpe ht 0) (pollNth_specO hc0 hp hpe ht h 0)

theorem step_specO (hp : MemoOK p) (hpe : EffOKU p) {s : State}
    (ht : TopJ p s) (h : ChgRel p s0 s) (o : Op) : ChgRel p s0 (step p s o).1 := by
  cases o with
  | set id v =>
    simp only [step]
    split
    · next v0 hx =>
      have hf : s.nodes.length ≤ fuelFor p := by rw [ht.quiet.inv.len]; simp [fuelFor]
      obtain ⟨_, sp⟩ := setSignal_inv ht.quiet.inv hx v hf
      exact h.trans (sp.cr p)
    · exact h
  | read m =>
    simp only [step]
    have htrack : track s m = s := by unfold track; rw [ht.quiet.obs]
    unfold readNode
    rw [htrack]
    simp only
    cases hk : (s.get m).kind with
    | eff => exact h
    | sig => exact h
    | memo =>
      simp only
      have hm : m < p.length := ht.quiet.inv.memo_lt hk
      have post := upd_ok hp (fuelFor p) s m ht.quiet.inv (by simp only [fuelFor]; omega) (ht.quiet.idle m)
        (fun r hr => by rw [ht.quiet.idle r] at hr; cases hr)
      exact h.trans (post.cr (hc0.step h))
  | poll i => exact pollNth_specO hc0 hp hpe ht h i
  | idle => exact runIdle_specO hc0 hp hpe 256 s ht h
  | pause e'' =>
    simp only [step]
    split
    · exact h.upd e'' _ (fun _ => ⟨rfl, rfl⟩) (.inl fun _ => rfl)
    · exact h
  | resume e'' =>
    simp only [step]
    split
    · exact h.upd e'' _ (fun _ => ⟨rfl, rfl⟩) (.inl fun _ => rfl)
    · exact h
  | dispose e'' =>
    simp only [step]
    split
    · have q := h.upd e'' (fun n => { n with alive := false, woken := true }) (fun _ => ⟨rfl, rfl⟩)
        (.inl fun _ => rfl)
      split
      · exact q.emit _ (fun w hw => by cases hw)
      · exact q
    · exact h

end

theorem init_cinv (p : Prog) : CInv p (initState p) :=
  ⟨fun _ _ _ _ _ _ h => (by cases h), fun _ h => (by cases h)⟩

theorem run_chgRel {p : Prog} (hwf : WF p = true) (ops : List Op) : ChgRel p (initState p) (run p ops) := by
  have hp := memoOK_of_wf hwf
  have hpe := effOKU_of_wf hwf
  unfold run
  suffices ∀ s, TopJ p s → ChgRel p (initState p) s →
      ChgRel p (initState p) (ops.foldl (fun s o => (step p s o).1) s) from
    this _ (init_topJ p) (ChgRel.refl p _)
  induction ops with
  | nil => intro s _ h; exact h
  | cons o ops ih =>
    intro s ht h
    exact ih _ (step_topJ hp hpe ht o) (step_specO (init_cinv p) hp hpe ht h o)

/-- in the log of every history of a WF program, every run of a node that is not its first run comes after
a tracked read made by its previous run whose source has changed since (the change is in the log between
the read and the run) -/
theorem run_once {p : Prog} (hwf : WF p = true) (ops : List Op) {w : Nat} {a b : List Ev}
    (hl : (run p ops).log = a ++ Ev.ran w :: b) (hm : Ev.ran w ∈ a) : RunJust a w := by
  obtain ⟨suf, r⟩ := run_chgRel hwf ops
  have hlog : (run p ops).log = suf := by rw [r.log]; rfl
  have hs : SepFrom [] suf := r.sep
  have := hs.split (a := a) (b := b) (w := w) (by rw [← hlog]; exact hl) (by simpa using hm)
  simpa using this

end Leptos.Reactive
