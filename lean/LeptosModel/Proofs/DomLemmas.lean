import LeptosModel.Model.Dom
/-!
# Proofs/DomLemmas — what each DOM primitive does to the node table (used by C03, C04, C05)

Every lemma has the shape "`(op d).get? x = if x = … then … else d.get? x`" under the
precondition the views establish (the child has no parent yet, the anchor is a child of the
parent, …), so that proofs about views never unfold the primitives again.
-/
namespace Leptos.Dom

/-- `omega` does not look through the abbreviation `Id := Nat` in the type of an (in)equality -/
macro "omega_nat" : tactic => `(tactic| ((try unfold Leptos.Dom.Id at *); omega))

theorem getL_modL (f : NodeRec → NodeRec) (l : List (Id × NodeRec)) (x y : Id) :
    getL (modL f l x) y = if y = x then (getL l x).map f else getL l y := by
  induction l with
  | nil => simp [modL, getL]
  | cons h t ih =>
    obtain ⟨i, r⟩ := h
    by_cases hix : i = x
    · subst hix
      by_cases hy : y = i
      · subst hy; simp [modL, getL]
      · have : ¬ i = y := fun h => hy h.symm
        simp [modL, getL, hy, this]
    · by_cases hy : y = x
      · subst hy; simp [modL, getL, hix, ih]
      · by_cases hiy : i = y
        · simp [modL, getL, hiy, hy]
        · simp [modL, getL, hix, hiy, hy, ih]

theorem Dom.get?_modify (d : Dom) (x y : Id) (f : NodeRec → NodeRec) :
    (d.modify x f).get? y = if y = x then (d.get? x).map f else d.get? y := by
  simp [Dom.modify, Dom.get?, getL_modL]

@[simp] theorem Dom.next_modify (d : Dom) (x : Id) (f : NodeRec → NodeRec) :
    (d.modify x f).next = d.next := rfl

@[simp] theorem Dom.next_err (d : Dom) (m : String) : (d.err m).next = d.next := rfl

@[simp] theorem Dom.get?_err (d : Dom) (m : String) (y : Id) : (d.err m).get? y = d.get? y := rfl

theorem Dom.get?_create (d : Dom) (k : Kind) (s : String) (y : Id) :
    (d.create k s).1.get? y =
      if y = d.next then some { kind := k, data := s } else d.get? y := by
  by_cases h : y = d.next
  · subst h; simp [Dom.create, Dom.get?, getL]
  · have : ¬ d.next = y := fun e => h e.symm
    simp [Dom.create, Dom.get?, getL, h, this]

@[simp] theorem Dom.create_snd (d : Dom) (k : Kind) (s : String) : (d.create k s).2 = d.next := rfl

@[simp] theorem Dom.next_create (d : Dom) (k : Kind) (s : String) :
    (d.create k s).1.next = d.next + 1 := rfl

theorem insBefore_split (l1 l2 : List Id) (c a : Id) (h : a ∉ l1) :
    insBefore (l1 ++ a :: l2) c a = l1 ++ c :: a :: l2 := by
  induction l1 with
  | nil => simp [insBefore]
  | cons k ks ih =>
    have hk : ¬ k = a := fun e => h (by simp [e])
    have hks : a ∉ ks := fun m => h (by simp [m])
    simp [insBefore, hk, ih hks]

/-- where a new child goes: `l1` stays in front, `l2` (empty for "append", starting with the
anchor otherwise) stays behind -/
def SplitAt (d : Dom) (p c : Id) (m : Option Id) (l1 l2 : List Id) : Prop :=
  match m with
  | none => l2 = []
  | some a => ∃ l2', l2 = a :: l2' ∧ a ∉ l1 ∧ d.getParent a = some p ∧ a ≠ c

theorem insAt_split (d : Dom) (p c : Id) (m : Option Id) (l1 l2 : List Id)
    (h : SplitAt d p c m l1 l2) : insAt (l1 ++ l2) c m = l1 ++ c :: l2 := by
  cases m with
  | none => simp [SplitAt] at h; subst h; simp [insAt]
  | some a =>
    obtain ⟨l2', rfl, ha, _, _⟩ := h
    simp [insAt, insBefore_split _ _ _ _ ha]

/-- `insert_node` of a child that has no parent yet -/
theorem Dom.get?_insertNode (d : Dom) (p c : Id) (m : Option Id) (rp rc : NodeRec)
    (l1 l2 : List Id)
    (hp : d.get? p = some rp) (hpe : rp.kind.isElem = true) (hc : d.get? c = some rc)
    (hcp : rc.parent = none) (hne : c ≠ p) (hk : rp.kids = l1 ++ l2)
    (hm : SplitAt d p c m l1 l2) (x : Id) :
    (d.insertNode p c m).get? x =
      if x = c then some { rc with parent := some p }
      else if x = p then some { rp with kids := l1 ++ c :: l2, muts := rp.muts + 1 }
      else d.get? x := by
  have hel : d.isElement p = true := by simp [Dom.isElement, hp, hpe]
  have hdet : d.detach c = d := by simp [Dom.detach, Dom.getParent, hc, hcp]
  cases m with
  | none =>
    have hins := insAt_split d p c none l1 l2 hm
    simp only [Dom.insertNode, hel, hdet, Bool.not_true, Bool.false_eq_true, if_false,
      Dom.get?_modify]
    by_cases hxc : x = c
    · subst hxc; simp [hne, hc]
    · by_cases hxp : x = p
      · subst hxp; simp [hxc, hp, hk, hins]
      · simp [hxc, hxp]
  | some a =>
    have hins := insAt_split d p c (some a) l1 l2 hm
    obtain ⟨l2', hl2, ha, hpa, hac⟩ := hm
    simp only [Dom.insertNode, hel, hdet, hpa, hac, Bool.not_true, Bool.false_eq_true, if_false,
      bne_self_eq_false, Dom.get?_modify]
    by_cases hxc : x = c
    · subst hxc; simp [hne, hc]
    · by_cases hxp : x = p
      · subst hxp; simp [hxc, hp, hk, hins]
      · simp [hxc, hxp]

@[simp] theorem Dom.next_detach (d : Dom) (c : Id) : (d.detach c).next = d.next := by
  unfold Dom.detach; split <;> rfl

@[simp] theorem Dom.next_insertNode (d : Dom) (p c : Id) (m : Option Id) :
    (d.insertNode p c m).next = d.next := by
  unfold Dom.insertNode
  cases m <;> simp only [] <;> (repeat' split) <;> simp

@[simp] theorem Dom.next_remove (d : Dom) (c : Id) : (d.remove c).next = d.next := by
  simp [Dom.remove]

/-- `remove` of a node whose parent is `p` -/
theorem Dom.get?_remove (d : Dom) (p c : Id) (rp rc : NodeRec)
    (hp : d.get? p = some rp) (hc : d.get? c = some rc) (hcp : rc.parent = some p) (hne : c ≠ p)
    (x : Id) :
    (d.remove c).get? x =
      if x = c then some { rc with parent := none }
      else if x = p then some { rp with kids := rp.kids.filter (· != c), muts := rp.muts + 1 }
      else d.get? x := by
  simp only [Dom.remove, Dom.detach, Dom.getParent, hc, hcp, Option.bind_some, Dom.get?_modify]
  by_cases hxc : x = c
  · subst hxc; simp [hne]
  · by_cases hxp : x = p
    · subst hxp; simp [hxc, hp]
    · simp [hxc, hxp]

theorem filter_ne_middle (l1 l2 : List Id) (c : Id) (h1 : c ∉ l1) (h2 : c ∉ l2) :
    (l1 ++ c :: l2).filter (· != c) = l1 ++ l2 := by
  have f1 : l1.filter (· != c) = l1 := by
    apply List.filter_eq_self.mpr; intro a ha; simp; intro e; exact h1 (e ▸ ha)
  have f2 : l2.filter (· != c) = l2 := by
    apply List.filter_eq_self.mpr; intro a ha; simp; intro e; exact h2 (e ▸ ha)
  simp [List.filter_append, f1, f2]

@[simp] theorem Dom.next_setText (d : Dom) (x : Id) (s : String) : (d.setText x s).next = d.next := by
  unfold Dom.setText; split <;> rfl

theorem Dom.get?_setText (d : Dom) (x : Id) (s : String) (r : NodeRec)
    (hx : d.get? x = some r) (hk : r.kind = .text ∨ r.kind = .comment) (y : Id) :
    (d.setText x s).get? y =
      if y = x then some { r with data := s, muts := r.muts + 1 } else d.get? y := by
  have : d.kindOf x = some r.kind := by simp [Dom.kindOf, hx]
  rcases hk with hk | hk <;>
    simp only [Dom.setText, this, hk, Dom.get?_modify, hx, Option.map_some]

@[simp] theorem Dom.next_setAttribute (d : Dom) (x : Id) (n v : String) :
    (d.setAttribute x n v).next = d.next := by
  unfold Dom.setAttribute; split <;> rfl

theorem Dom.get?_setAttribute (d : Dom) (x : Id) (n v : String) (r : NodeRec)
    (hx : d.get? x = some r) (hk : r.kind.isElem = true) (y : Id) :
    (d.setAttribute x n v).get? y =
      if y = x then some { r with attrs := setA r.attrs n v, muts := r.muts + 1 } else d.get? y := by
  have : d.isElement x = true := by simp [Dom.isElement, hx, hk]
  simp only [Dom.setAttribute, this, if_true, Dom.get?_modify, hx, Option.map_some]

end Leptos.Dom
