import LeptosModel.Proofs.ViewBuild
namespace Leptos.View
open Leptos.Dom

-- `R`: how the attribute list of an element relates to the fresh render's (`Eq` for the static
-- fragment, lookup-equality `AttrsEq` where removal and re-insertion change the order)
variable {R : List (String × String) → List (String × String) → Prop}

/-! ## insert_before_this -/

mutual
theorem ibt_nil : ∀ (s ns : State) (d : Dom), s.roots = [] → insertBeforeThis s ns d = (d, false)
  | .text _ _, ns, d, h => by simp [State.roots] at h
  | .unit _, ns, d, h => by simp [State.roots] at h
  | .elem _ _ _, ns, d, h => by simp [State.roots] at h
  | .tuple sts, ns, d, h => by
    simp only [insertBeforeThis]; exact ibtFirst_nil sts ns d (by simpa [State.roots] using h)
  | .either _ st, ns, d, h => by
    simp only [insertBeforeThis]; exact ibt_nil st ns d (by simpa [State.roots] using h)
  | .vec sts mk, ns, d, h => by simp [State.roots] at h
  | .any _ st, ns, d, h => by
    simp only [insertBeforeThis]; exact ibt_nil st ns d (by simpa [State.roots] using h)
theorem ibtFirst_nil : ∀ (ss : List State) (ns : State) (d : Dom), State.rootsList ss = [] →
    insertBeforeFirst ss ns d = (d, false)
  | [], ns, d, _ => by simp [insertBeforeFirst]
  | s :: ss, ns, d, h => by
    simp [State.rootsList] at h
    simp only [insertBeforeFirst, ibt_nil s ns d h.1]
    exact ibtFirst_nil ss ns d h.2
end

theorem nodeInsertBefore_spec (id : Id) (ns : State) (d : Dom) (p : Id)
    (hp : d.getParent id = some p) (he : d.isElement p = true) :
    nodeInsertBefore id ns d = (mount ns d p (some id), true) := by
  simp [nodeInsertBefore, hp, he]

mutual
theorem ibt_cons : ∀ (s ns : State) (d : Dom) (p r : Id) (rs : List Id), s.roots = r :: rs →
    d.getParent r = some p → d.isElement p = true →
    insertBeforeThis s ns d = (mount ns d p (some r), true)
  | .text id _, ns, d, p, r, rs, h, hp, he => by
    simp [State.roots] at h; obtain ⟨rfl, _⟩ := h
    simp only [insertBeforeThis]; exact nodeInsertBefore_spec _ ns d p hp he
  | .unit id, ns, d, p, r, rs, h, hp, he => by
    simp [State.roots] at h; obtain ⟨rfl, _⟩ := h
    simp only [insertBeforeThis]; exact nodeInsertBefore_spec _ ns d p hp he
  | .elem id _ _, ns, d, p, r, rs, h, hp, he => by
    simp [State.roots] at h; obtain ⟨rfl, _⟩ := h
    simp only [insertBeforeThis]; exact nodeInsertBefore_spec _ ns d p hp he
  | .tuple sts, ns, d, p, r, rs, h, hp, he => by
    simp only [insertBeforeThis]
    exact ibtFirst_cons sts ns d p r rs (by simpa [State.roots] using h) hp he
  | .either _ st, ns, d, p, r, rs, h, hp, he => by
    simp only [insertBeforeThis]
    exact ibt_cons st ns d p r rs (by simpa [State.roots] using h) hp he
  | .vec sts mk, ns, d, p, r, rs, h, hp, he => by
    simp only [insertBeforeThis]
    simp only [State.roots] at h
    cases hl : State.rootsList sts with
    | nil =>
      rw [hl] at h; simp at h; obtain ⟨rfl, _⟩ := h
      rw [ibtFirst_nil sts ns d hl]
      exact nodeInsertBefore_spec _ ns d p hp he
    | cons r' rs' =>
      rw [hl] at h; simp at h; obtain ⟨rfl, _⟩ := h
      rw [ibtFirst_cons sts ns d p r' rs' hl hp he]
  | .any _ st, ns, d, p, r, rs, h, hp, he => by
    simp only [insertBeforeThis]
    exact ibt_cons st ns d p r rs (by simpa [State.roots] using h) hp he
theorem ibtFirst_cons : ∀ (ss : List State) (ns : State) (d : Dom) (p r : Id) (rs : List Id),
    State.rootsList ss = r :: rs → d.getParent r = some p → d.isElement p = true →
    insertBeforeFirst ss ns d = (mount ns d p (some r), true)
  | [], ns, d, p, r, rs, h, _, _ => by simp [State.rootsList] at h
  | s :: ss, ns, d, p, r, rs, h, hp, he => by
    simp only [State.rootsList] at h
    simp only [insertBeforeFirst]
    cases hl : s.roots with
    | nil =>
      rw [hl] at h; simp at h
      rw [ibt_nil s ns d hl]
      exact ibtFirst_cons ss ns d p r rs h hp he
    | cons r' rs' =>
      rw [hl] at h; simp at h; obtain ⟨rfl, _⟩ := h
      rw [ibt_cons s ns d p r' rs' hl hp he]
end

/-! ## the mounted-state invariant, over the root / owned id lists -/

/-- `R` (a run of children of `p`, between `pre` and `post`) are the roots and `O` all the nodes of
a mounted state: the separation facts every step needs -/
structure Inv (d : Dom) (R O : List Id) (p : Id) (pre post : List Id) : Prop where
  par : ∃ rp, d.get? p = some rp ∧ rp.kind.isElem = true ∧ rp.kids = pre ++ R ++ post
  sub : ∀ x, x ∈ R → x ∈ O
  nodup : O.Nodup
  rnodup : R.Nodup
  pnot : p ∉ O
  sib : ∀ x, x ∈ pre ++ post → x ∉ O
  lt : ∀ x, x ∈ O → x < d.next
  plt : p < d.next
  siblt : ∀ x, x ∈ pre ++ post → x < d.next

/-- what a step `d ↦ d'` that turns a state with nodes `O` into one with roots `R'` / nodes `O'`
guarantees to its surroundings -/
structure Res (d d' : Dom) (O R' O' : List Id) (p : Id) (pre post : List Id) : Prop where
  inv : Inv d' R' O' p pre post
  next_le : d.next ≤ d'.next
  frame : ∀ x, x < d.next → x ∉ O → x ≠ p → d'.get? x = d.get? x
  pframe : ∀ rp, d.get? p = some rp → ∃ rp', d'.get? p = some rp' ∧ EqModKids rp rp'
  own : ∀ x, x ∈ O' → x ∈ O ∨ d.next ≤ x

theorem Inv.ofState {d : Dom} {st : State} {p : Id} {pre post : List Id}
    (hp : ∃ rp, d.get? p = some rp ∧ rp.kind.isElem = true ∧ rp.kids = pre ++ st.roots ++ post)
    (hn : (owned st).Nodup) (hpn : p ∉ owned st) (hs : ∀ x, x ∈ pre ++ post → x ∉ owned st)
    (hl : ∀ x, x ∈ owned st → x < d.next) (hpl : p < d.next)
    (hsl : ∀ x, x ∈ pre ++ post → x < d.next) : Inv d st.roots (owned st) p pre post :=
  ⟨hp, roots_sub_owned st, hn, roots_nodup hn, hpn, hs, hl, hpl, hsl⟩

/-- nothing changed: the identity step -/
theorem Res.refl {d : Dom} {R O : List Id} {p : Id} {pre post : List Id}
    (h : Inv d R O p pre post) : Res d d O R O p pre post :=
  ⟨h, Nat.le_refl _, fun _ _ _ _ => rfl, fun rp hrp => ⟨rp, hrp, EqModKids.refl _⟩,
    fun _ hx => Or.inl hx⟩

theorem getParent_of {d : Dom} {x : Id} {r : NodeRec} {p : Option Id}
    (h : d.get? x = some r) (hp : r.parent = p) : d.getParent x = p := by
  simp [Dom.getParent, h, hp]

theorem isElement_of {d : Dom} {x : Id} {r : NodeRec}
    (h : d.get? x = some r) (hk : r.kind.isElem = true) : d.isElement x = true := by
  simp [Dom.isElement, h, hk]

/-- a branch switch (`Either`, `Option`, `AnyView` with another type): build the new state, insert
it before the old one, unmount the old one — the new state takes the old one's place -/
theorem replace_spec (a b : View) (old : State) (d : Dom) (p : Id) (pre post : List Id)
    (hrep : Rep R d a old (some p)) (hinv : Inv d old.roots (owned old) p pre post)
    (hne : old.roots ≠ []) (hb : AllEl (AttrsFresh R) b) :
    Rep R (replaceState old (build b d).2 (build b d).1) b (build b d).2 (some p) ∧
    Res d (replaceState old (build b d).2 (build b d).1) (owned old) (build b d).2.roots
      (owned (build b d).2) p pre post := by
  have hB := build_spec b d hb
  generalize build b d = bd at hB ⊢
  obtain ⟨d1, ns⟩ := bd
  dsimp only at hB ⊢
  obtain ⟨rp, hp, hpe, hk⟩ := hinv.par
  cases hro : old.roots with
  | nil => exact absurd hro hne
  | cons r0 rs =>
  have hr0 : r0 ∈ old.roots := by simp [hro]
  have hold := Rep.roots_parent a old (some p) hrep
  -- in d1 everything old is untouched
  have hfr1 : ∀ x, x < d.next → d1.get? x = d.get? x := hB.frame
  have hp1 : d1.get? p = some rp := by rw [hfr1 p hinv.plt]; exact hp
  have hold1 : ∀ r ∈ old.roots, ∃ rr, d1.get? r = some rr ∧ rr.parent = some p := by
    intro r hr
    obtain ⟨rr, h1, h2⟩ := hold r hr
    exact ⟨rr, by rw [hfr1 r (hinv.lt r (hinv.sub r hr))]; exact h1, h2⟩
  obtain ⟨rr0, hg0, hpar0⟩ := hold1 r0 hr0
  have hibt : insertBeforeThis old ns d1 = (mount ns d1 p (some r0), true) :=
    ibt_cons old ns d1 p r0 rs hro (getParent_of hg0 hpar0) (isElement_of hp1 hpe)
  have hnsge : ∀ x, x ∈ owned ns → d.next ≤ x := fun x hx => (hB.range x hx).1
  have hnsroots := Rep.roots_parent b ns none hB.rep
  -- mount the new state before r0
  have hk1 : rp.kids = pre ++ (r0 :: (rs ++ post)) := by rw [hk, hro]; simp
  have hr0pre : r0 ∉ pre := fun h => hinv.sib r0 (by simp [h]) (hinv.sub r0 hr0)
  have hspec := insertAll_spec ns.roots d1 p (some r0) rp pre (r0 :: (rs ++ post)) hp1 hpe hk1
    ⟨rs ++ post, rfl, hr0pre, getParent_of hg0 hpar0⟩ (roots_nodup hB.nodup) hnsroots
    (by intro hm; have := hnsge p (roots_sub_owned ns p hm); have := hinv.plt; omega_nat)
    (by
      intro r hr
      have hge := hnsge r (roots_sub_owned ns r hr)
      constructor
      · intro hm; have := hinv.siblt r (by simp [hm]); omega_nat
      · intro hm
        simp at hm
        rcases hm with hm | hm | hm
        · subst hm; have := hinv.lt _ (hinv.sub _ hr0); omega_nat
        · have := hinv.lt r (hinv.sub r (by simp [hro, hm])); omega_nat
        · have := hinv.siblt r (by simp [hm]); omega_nat)
  obtain ⟨⟨rp2, hp2, he2, hk2⟩, hkids2, hoth2, hnx2⟩ := hspec
  -- unmount the old state
  have hk2' : rp2.kids = (pre ++ ns.roots) ++ old.roots ++ post := by rw [hk2, hro]; simp
  have hold2 : ∀ r ∈ old.roots, ∃ rr, (insertAll d1 p (some r0) ns.roots).get? r = some rr ∧
      rr.parent = some p := by
    intro r hr
    obtain ⟨rr, h1, h2⟩ := hold1 r hr
    refine ⟨rr, ?_, h2⟩
    rw [hoth2 r ?_ ?_]; exact h1
    · intro e; subst e; exact hinv.pnot (hinv.sub _ hr)
    · intro hm; have := hnsge r (roots_sub_owned ns r hm)
      have := hinv.lt r (hinv.sub r hr); omega_nat
  have hspec3 := removeAll_spec old.roots (insertAll d1 p (some r0) ns.roots) p rp2
    (pre ++ ns.roots) post hp2 hk2' hinv.rnodup hold2
    (fun hm => hinv.pnot (hinv.sub p hm))
    (by
      intro r hr
      constructor
      · intro hm
        simp at hm
        rcases hm with hm | hm
        · exact hinv.sib r (by simp [hm]) (hinv.sub r hr)
        · have := hnsge r (roots_sub_owned ns r hm)
          have := hinv.lt r (hinv.sub r hr); omega_nat
      · intro hm; exact hinv.sib r (by simp [hm]) (hinv.sub r hr))
  obtain ⟨⟨rp3, hp3, he3, hk3⟩, hoth3, hnx3⟩ := hspec3
  have hrs : replaceState old ns d1 = removeAll (insertAll d1 p (some r0) ns.roots) old.roots := by
    simp [replaceState, hibt, unmount_eq, mount_eq]
  rw [hrs]
  have hnl := hB.next_le
  have hlt1 : ∀ x, x ∈ owned ns → x < d1.next := fun x hx => (hB.range x hx).2
  refine ⟨?_, ⟨⟨?_, roots_sub_owned ns, hB.nodup, roots_nodup hB.nodup, ?_, ?_, ?_, ?_, ?_⟩, ?_, ?_, ?_, ?_⟩⟩
  · -- Rep
    apply Rep.congr b ns (some p) ?_
      (Rep.reparent b ns none (some p) hB.nodup ?_ hkids2 hB.rep)
    · intro x hx
      apply hoth3 x
      · intro e; subst e; have := hnsge _ hx; have := hinv.plt; omega_nat
      · intro hm; have := hnsge _ hx; have := hinv.lt x (hinv.sub x hm); omega_nat
    · intro x hx hxr
      apply hoth2 x ?_ hxr
      intro e; subst e; have := hnsge _ hx; have := hinv.plt; omega_nat
  · exact ⟨rp3, hp3, by rw [he3.1, he2.1]; exact hpe, by rw [hk3]⟩
  · intro hm; have := hnsge p hm; have := hinv.plt; omega_nat
  · intro x hx hm; have := hnsge x hm; have := hinv.siblt x hx; omega_nat
  · intro x hx; rw [hnx3, hnx2]; exact hlt1 x hx
  · rw [hnx3, hnx2]; have := hinv.plt; omega_nat
  · intro x hx; rw [hnx3, hnx2]; have := hinv.siblt x hx; omega_nat
  · rw [hnx3, hnx2]; exact hnl
  · intro x hx hxo hxp
    rw [hoth3 x hxp (fun hm => hxo (hinv.sub x hm)), hoth2 x hxp ?_, hfr1 x hx]
    intro hm; have := hnsge x (roots_sub_owned ns x hm); omega_nat
  · intro rp' hrp'
    rw [hp] at hrp'; cases hrp'
    exact ⟨rp3, hp3, he2.trans he3⟩
  · intro x hx; exact Or.inr (hnsge x hx)

theorem Inv.left {d : Dom} {R1 R2 O1 O2 : List Id} {p : Id} {pre post : List Id}
    (h : Inv d (R1 ++ R2) (O1 ++ O2) p pre post)
    (h1 : ∀ x, x ∈ R1 → x ∈ O1) (h2 : ∀ x, x ∈ R2 → x ∈ O2) :
    Inv d R1 O1 p pre (R2 ++ post) := by
  obtain ⟨hn1, hn2, hn3⟩ := nodup_app h.nodup
  obtain ⟨rn1, _, _⟩ := nodup_app h.rnodup
  refine ⟨?_, h1, hn1, rn1, fun hm => h.pnot (by simp [hm]), ?_, fun x hx => h.lt x (by simp [hx]),
    h.plt, ?_⟩
  · obtain ⟨rp, a, b, c⟩ := h.par; exact ⟨rp, a, b, by rw [c]; simp⟩
  · intro x hx hm
    simp at hx
    rcases hx with hx | hx | hx
    · exact h.sib x (by simp [hx]) (by simp [hm])
    · exact hn3 x hm (h2 x hx)
    · exact h.sib x (by simp [hx]) (by simp [hm])
  · intro x hx
    simp at hx
    rcases hx with hx | hx | hx
    · exact h.siblt x (by simp [hx])
    · exact h.lt x (by simp [h2 x hx])
    · exact h.siblt x (by simp [hx])

theorem Inv.right {d d1 : Dom} {R1 R2 O1 O2 R1' O1' : List Id} {p : Id} {pre post : List Id}
    (h : Inv d (R1 ++ R2) (O1 ++ O2) p pre post) (h2 : ∀ x, x ∈ R2 → x ∈ O2)
    (s1 : Res d d1 O1 R1' O1' p pre (R2 ++ post)) :
    Inv d1 R2 O2 p (pre ++ R1') post := by
  obtain ⟨_, hn2, hn3⟩ := nodup_app h.nodup
  obtain ⟨_, rn2, _⟩ := nodup_app h.rnodup
  have hle := s1.next_le
  refine ⟨?_, h2, hn2, rn2, fun hm => h.pnot (by simp [hm]), ?_, ?_, ?_, ?_⟩
  · obtain ⟨rp, a, b, c⟩ := s1.inv.par; exact ⟨rp, a, b, by rw [c]; simp⟩
  · intro x hx hm
    simp at hx
    rcases hx with hx | hx | hx
    · exact h.sib x (by simp [hx]) (by simp [hm])
    · rcases s1.own x (s1.inv.sub x hx) with ho | ho
      · exact hn3 x ho hm
      · have := h.lt x (by simp [hm]); omega_nat
    · exact h.sib x (by simp [hx]) (by simp [hm])
  · intro x hx; have := h.lt x (by simp [hx]); omega_nat
  · have := h.plt; omega_nat
  · intro x hx
    simp at hx
    rcases hx with hx | hx | hx
    · have := h.siblt x (by simp [hx]); omega_nat
    · exact s1.inv.lt x (s1.inv.sub x hx)
    · have := h.siblt x (by simp [hx]); omega_nat

theorem Res.seq {d d1 d2 : Dom} {R1 R2 O1 O2 R1' O1' R2' O2' : List Id} {p : Id}
    {pre post : List Id}
    (h : Inv d (R1 ++ R2) (O1 ++ O2) p pre post)
    (s1 : Res d d1 O1 R1' O1' p pre (R2 ++ post))
    (s2 : Res d1 d2 O2 R2' O2' p (pre ++ R1') post) :
    Res d d2 (O1 ++ O2) (R1' ++ R2') (O1' ++ O2') p pre post := by
  obtain ⟨_, _, hn3⟩ := nodup_app h.nodup
  have hle1 := s1.next_le
  have hle2 := s2.next_le
  have hdisj : ∀ x, x ∈ O1' → x ∉ O2' := by
    intro x hx1 hx2
    have l1 := s1.inv.lt x hx1
    rcases s1.own x hx1 with ho1 | ho1 <;> rcases s2.own x hx2 with ho2 | ho2
    · exact hn3 x ho1 ho2
    · omega_nat
    · have := h.lt x (by simp [ho2]); omega_nat
    · omega_nat
  refine ⟨⟨?_, ?_, ?_, ?_, ?_, ?_, ?_, s2.inv.plt, ?_⟩, by omega_nat, ?_, ?_, ?_⟩
  · obtain ⟨rp, a, b, c⟩ := s2.inv.par; exact ⟨rp, a, b, by rw [c]; simp⟩
  · intro x hx; simp at hx ⊢
    rcases hx with hx | hx
    · exact Or.inl (s1.inv.sub x hx)
    · exact Or.inr (s2.inv.sub x hx)
  · rw [List.nodup_append]
    exact ⟨s1.inv.nodup, s2.inv.nodup, fun a ha b hb e => hdisj a ha (e ▸ hb)⟩
  · rw [List.nodup_append]
    exact ⟨s1.inv.rnodup, s2.inv.rnodup,
      fun a ha b hb e => hdisj a (s1.inv.sub a ha) (e ▸ s2.inv.sub b hb)⟩
  · intro hm; simp at hm
    rcases hm with hm | hm
    · exact s1.inv.pnot hm
    · exact s2.inv.pnot hm
  · intro x hx hm; simp at hm hx
    rcases hm with hm | hm
    · rcases hx with hx | hx
      · exact s1.inv.sib x (by simp [hx]) hm
      · exact s1.inv.sib x (by simp [hx]) hm
    · rcases hx with hx | hx
      · exact s2.inv.sib x (by simp [hx]) hm
      · exact s2.inv.sib x (by simp [hx]) hm
  · intro x hx; simp at hx
    rcases hx with hx | hx
    · have := s1.inv.lt x hx; omega_nat
    · exact s2.inv.lt x hx
  · intro x hx; simp at hx
    rcases hx with hx | hx
    · exact s2.inv.siblt x (by simp [hx])
    · exact s2.inv.siblt x (by simp [hx])
  · intro x hx hxo hxp
    simp at hxo
    rw [s2.frame x (by omega_nat) hxo.2 hxp, s1.frame x hx hxo.1 hxp]
  · intro rp hrp
    obtain ⟨rp1, h1, e1⟩ := s1.pframe rp hrp
    obtain ⟨rp2, h2, e2⟩ := s2.pframe rp1 h1
    exact ⟨rp2, h2, e1.trans e2⟩
  · intro x hx; simp at hx ⊢
    rcases hx with hx | hx
    · rcases s1.own x hx with ho | ho
      · exact Or.inl (Or.inl ho)
      · exact Or.inr ho
    · rcases s2.own x hx with ho | ho
      · exact Or.inl (Or.inr ho)
      · exact Or.inr (by omega_nat)

/-- a step that changes a single owned node and nothing else -/
theorem Res.single {d d' : Dom} {R O : List Id} {p : Id} {pre post : List Id} (x : Id)
    (h : Inv d R O p pre post) (hx : x ∈ O) (hn : d'.next = d.next)
    (hf : ∀ y, y ≠ x → d'.get? y = d.get? y) : Res d d' O R O p pre post := by
  have hpx : p ≠ x := fun e => h.pnot (e ▸ hx)
  refine ⟨⟨?_, h.sub, h.nodup, h.rnodup, h.pnot, h.sib, ?_, ?_, ?_⟩, by omega_nat, ?_, ?_, fun y hy => Or.inl hy⟩
  · obtain ⟨rp, a, b, c⟩ := h.par; exact ⟨rp, by rw [hf p hpx]; exact a, b, c⟩
  · intro y hy; rw [hn]; exact h.lt y hy
  · rw [hn]; exact h.plt
  · intro y hy; rw [hn]; exact h.siblt y hy
  · intro y _ hyo _; exact hf y (fun e => hyo (e ▸ hx))
  · intro rp hrp; exact ⟨rp, by rw [hf p hpx]; exact hrp, EqModKids.refl _⟩

end Leptos.View
