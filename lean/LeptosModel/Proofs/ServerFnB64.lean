import LeptosModel.Model.ServerFn
/-!
# Proofs/ServerFnB64 — base64 (URL-safe, padded) decode ∘ encode = id over all byte strings
-/
namespace Leptos.ServerFn

def IsBytes (s : Bytes) : Prop := ∀ b ∈ s, b < 256

theorem b64Val_b64Sym : ∀ n, n < 64 → b64Val (b64Sym n) = some n := by decide

theorem b64Sym_ne_pad : ∀ n, n < 64 → b64Sym n ≠ 61 := by decide

theorem b64Sym_lt : ∀ n, n < 64 → b64Sym n < 128 := by decide

/-- the encoder always emits whole quads -/
theorem b64Encode_length (bs : Bytes) : (b64Encode bs).length % 4 = 0 := by
  fun_induction b64Encode bs with
  | case1 => rfl
  | case2 => simp
  | case3 => simp
  | case4 a b c rest ih => simp only [List.length_cons]; omega

theorem b64Encode_cons_ne_nil (x : Nat) (xs : Bytes) : ∃ r tail, b64Encode (x :: xs) = r :: tail := by
  match xs with
  | [] => exact ⟨_, _, rfl⟩
  | [_] => exact ⟨_, _, rfl⟩
  | _ :: _ :: _ => exact ⟨_, _, rfl⟩

/-- a final group of one byte -/
theorem b64Suffix_one (ne : Bool) (idx a : Nat) (ha : a < 256) :
    b64Suffix ne idx [b64Sym (a / 4), b64Sym (a % 4 * 16), 61, 61] = .ok [a] := by
  have h0 := b64Val_b64Sym (a / 4) (by omega)
  have h1 := b64Val_b64Sym (a % 4 * 16) (by omega)
  have n0 := b64Sym_ne_pad (a / 4) (by omega)
  have n1 := b64Sym_ne_pad (a % 4 * 16) (by omega)
  simp [b64Suffix, sufLoop, h0, h1, n0, n1]
  omega

/-- a final group of two bytes -/
theorem b64Suffix_two (ne : Bool) (idx a b : Nat) (ha : a < 256) (hb : b < 256) :
    b64Suffix ne idx [b64Sym (a / 4), b64Sym (a % 4 * 16 + b / 16), b64Sym (b % 16 * 4), 61] = .ok [a, b] := by
  have h0 := b64Val_b64Sym (a / 4) (by omega)
  have h1 := b64Val_b64Sym (a % 4 * 16 + b / 16) (by omega)
  have h2 := b64Val_b64Sym (b % 16 * 4) (by omega)
  have n0 := b64Sym_ne_pad (a / 4) (by omega)
  have n1 := b64Sym_ne_pad (a % 4 * 16 + b / 16) (by omega)
  have n2 := b64Sym_ne_pad (b % 16 * 4) (by omega)
  simp [b64Suffix, sufLoop, h0, h1, h2, n0, n1, n2]
  omega

/-- a final group of three bytes (no padding) -/
theorem b64Suffix_three (ne : Bool) (idx a b c : Nat) (ha : a < 256) (hb : b < 256) (hc : c < 256) :
    b64Suffix ne idx [b64Sym (a / 4), b64Sym (a % 4 * 16 + b / 16), b64Sym (b % 16 * 4 + c / 64), b64Sym (c % 64)]
      = .ok [a, b, c] := by
  have h0 := b64Val_b64Sym (a / 4) (by omega)
  have h1 := b64Val_b64Sym (a % 4 * 16 + b / 16) (by omega)
  have h2 := b64Val_b64Sym (b % 16 * 4 + c / 64) (by omega)
  have h3 := b64Val_b64Sym (c % 64) (by omega)
  have n0 := b64Sym_ne_pad (a / 4) (by omega)
  have n1 := b64Sym_ne_pad (a % 4 * 16 + b / 16) (by omega)
  have n2 := b64Sym_ne_pad (b % 16 * 4 + c / 64) (by omega)
  have n3 := b64Sym_ne_pad (c % 64) (by omega)
  simp [b64Suffix, sufLoop, h0, h1, h2, h3, n0, n1, n2, n3]
  omega

theorem b64Quad_three (idx a b c : Nat) (ha : a < 256) (hb : b < 256) (hc : c < 256) :
    b64Quad idx (b64Sym (a / 4)) (b64Sym (a % 4 * 16 + b / 16)) (b64Sym (b % 16 * 4 + c / 64)) (b64Sym (c % 64))
      = .ok [a, b, c] := by
  have h0 := b64Val_b64Sym (a / 4) (by omega)
  have h1 := b64Val_b64Sym (a % 4 * 16 + b / 16) (by omega)
  have h2 := b64Val_b64Sym (b % 16 * 4 + c / 64) (by omega)
  have h3 := b64Val_b64Sym (c % 64) (by omega)
  simp [b64Quad, h0, h1, h2, h3]
  omega

/-- the decoding loop inverts the encoder on every non-empty byte string, at every offset -/
theorem b64Go_encode (ne : Bool) (bs : Bytes) (hb : IsBytes bs) (hne : bs ≠ []) :
    ∀ idx, b64Go ne idx (b64Encode bs) = .ok bs := by
  fun_induction b64Encode bs with
  | case1 => exact absurd rfl hne
  | case2 a =>
    intro idx
    have ha : a < 256 := hb a (by simp)
    simp only [b64Go]
    exact b64Suffix_one ne idx a ha
  | case3 a b =>
    intro idx
    have ha : a < 256 := hb a (by simp)
    have hb' : b < 256 := hb b (by simp)
    simp only [b64Go]
    exact b64Suffix_two ne idx a b ha hb'
  | case4 a b c rest ih =>
    intro idx
    have ha : a < 256 := hb a (by simp)
    have hb' : b < 256 := hb b (by simp)
    have hc : c < 256 := hb c (by simp)
    match rest, ih with
    | [], _ =>
      simp only [b64Encode, b64Go]
      exact b64Suffix_three ne idx a b c ha hb' hc
    | x :: xs, ih =>
      obtain ⟨r, tail, hr⟩ := b64Encode_cons_ne_nil x xs
      have hrest : IsBytes (x :: xs) := fun y hy => hb y (by simp [hy])
      have ih' := ih hrest (by simp) (idx + 4)
      rw [hr] at ih' ⊢
      simp only [b64Go, b64Quad_three idx a b c ha hb' hc, ih']
      simp

theorem b64Precheck_encode (bs : Bytes) : b64Precheck (b64Encode bs) = none := by
  have := b64Encode_length bs
  simp [b64Precheck, this]

/-- **base64url decode ∘ encode = id** on every byte string -/
theorem b64Decode_encode (bs : Bytes) (hb : IsBytes bs) : b64Decode (b64Encode bs) = .ok bs := by
  match bs, hb with
  | [], _ => rfl
  | x :: xs, hb =>
    obtain ⟨r, tail, hr⟩ := b64Encode_cons_ne_nil x xs
    have hgo := b64Go_encode (!(b64Encode (x :: xs)).isEmpty) (x :: xs) hb (by simp) 0
    simp only [b64Decode, b64Precheck_encode]
    exact hgo

/-- the encoder's output is ASCII (so it is a valid Rust `String` and survives form-decoding) -/
theorem b64Encode_ascii (bs : Bytes) (hb : IsBytes bs) : ∀ x ∈ b64Encode bs, x < 128 := by
  fun_induction b64Encode bs with
  | case1 => simp
  | case2 a =>
    have ha : a < 256 := hb a (by simp)
    intro x hx
    simp only [List.mem_cons, List.mem_nil_iff, or_false] at hx
    rcases hx with h | h | h | h <;> subst h
    · exact b64Sym_lt _ (by omega)
    · exact b64Sym_lt _ (by omega)
    · omega
    · omega
  | case3 a b =>
    have ha : a < 256 := hb a (by simp)
    have hb' : b < 256 := hb b (by simp)
    intro x hx
    simp only [List.mem_cons, List.mem_nil_iff, or_false] at hx
    rcases hx with h | h | h | h <;> subst h
    · exact b64Sym_lt _ (by omega)
    · exact b64Sym_lt _ (by omega)
    · exact b64Sym_lt _ (by omega)
    · omega
  | case4 a b c rest ih =>
    have ha : a < 256 := hb a (by simp)
    have hb' : b < 256 := hb b (by simp)
    have hc : c < 256 := hb c (by simp)
    have hrest : IsBytes rest := fun y hy => hb y (by simp [hy])
    intro x hx
    simp only [List.mem_cons] at hx
    rcases hx with h | h | h | h | h
    · subst h; exact b64Sym_lt _ (by omega)
    · subst h; exact b64Sym_lt _ (by omega)
    · subst h; exact b64Sym_lt _ (by omega)
    · subst h; exact b64Sym_lt _ (by omega)
    · exact ih hrest x h

end Leptos.ServerFn
