import LeptosModel.Proofs.RViewInv
import LeptosModel.Proofs.RViewNodes
/-!
# Proofs/RViewPoll — one poll of a render-effect task
-/
namespace Leptos.RView
open Leptos.Reactive

theorem setObs_upd_none (s : State) (o : Option Nat) (e : Nat) (f : Node → Node) (h : s.obs = none) :
    ({ ({ s with obs := o } : State).upd e f with obs := none } : State) = s.upd e f := by
  cases s with
  | mk nodes obs log => simp only at h; subst h; rfl

theorem setObs_self_none (s : State) (o : Option Nat) (h : s.obs = none) :
    ({ ({ s with obs := o } : State) with obs := none } : State) = s := by
  cases s with
  | mk nodes obs log => simp only at h; subst h; rfl

theorem effLoop_nochan (k : Nat) (st : St) (e : Nat) (h : (st.rs.get e).chan = false) :
    effLoop k st e = st := by
  cases k with
  | zero => rfl
  | succ k => simp [effLoop, h]

/-- the reactive state after the run of a dirty effect -/
def ranRs (st : St) (e : Nat) : State :=
  runEffBody st.prog st.fuel
    ((st.rs.upd e fun n => { n with chan := false }).upd e fun n => { n with dirty := false }) e

theorem effLoop_dirty (k : Nat) (st : St) (e : Nat) (hlt : e < st.rs.nodes.length)
    (hc : (st.rs.get e).chan = true) (hd : (st.rs.get e).dirty = true) (ho : st.rs.obs = none) :
    effLoop (k + 1) st e =
      effLoop k (rerun { st with rs := ranRs st e } e (((ranRs st e).get e).val.getD 0)) e := by
  have hd' : ((st.rs.upd e fun n => { n with chan := false }).get e).dirty = true := by
    rw [State.get_upd_same _ _ hlt]; exact hd
  have ho' : (st.rs.upd e fun n => { n with chan := false }).obs = none := ho
  simp only [effLoop, hc, Bool.not_true, Bool.false_eq_true, ↓reduceIte]
  rw [effUpdate_dirty _ _ _ _ (by rw [State.setObs_get]; exact hd')]
  simp only [↓reduceIte]
  rw [show (st.rs.upd e fun n => { n with chan := false }).obs = none from ho']
  rw [setObs_upd_none _ _ _ _ ho']
  rfl

theorem effLoop_clean (k : Nat) (st : St) (e : Nat) (hlt : e < st.rs.nodes.length)
    (hc : (st.rs.get e).chan = true) (hd : (st.rs.get e).dirty = false) (ho : st.rs.obs = none)
    (hs : ∀ x ∈ (st.rs.get e).sources, (st.rs.get x).kind ≠ .memo) :
    effLoop (k + 1) st e = effLoop k { st with rs := st.rs.upd e fun n => { n with chan := false } } e := by
  have hd' : ((st.rs.upd e fun n => { n with chan := false }).get e).dirty = false := by
    rw [State.get_upd_same _ _ hlt]; exact hd
  have ho' : (st.rs.upd e fun n => { n with chan := false }).obs = none := ho
  have hs' : ∀ x ∈ ((st.rs.upd e fun n => { n with chan := false }).get e).sources,
      ((st.rs.upd e fun n => { n with chan := false }).get x).kind ≠ .memo := by
    intro x hx
    rw [State.get_upd_same _ _ hlt] at hx
    rw [State.get_upd]; split
    · next hh => obtain ⟨rfl, _⟩ := hh; exact hs _ hx
    · exact hs x hx
  simp only [effLoop, hc, Bool.not_true, Bool.false_eq_true, ↓reduceIte]
  rw [effUpdate_clean _ _ _ _ _ hd' hs']
  simp only [Bool.false_eq_true, ↓reduceIte]


/-! ## the reactive state after effect `e` acted -/

theorem RInv.acts {K : Nat} {st : St} (hi : RInv K st) {e : Nat} {rs' : State} (ha : Acts e st.rs rs')
    (hke : K ≤ e) (hlt : e < st.prog.length) (hk : (rs'.get e).kind = .eff)
    (hs : ∀ x ∈ (rs'.get e).sources, x < K) (hnd : ∀ i, (rs'.get i).subs.Nodup)
    (hex : ∀ i, e ∈ (rs'.get i).subs → i ∈ (rs'.get e).sources) : RInv K { st with rs := rs' } := by
  refine ⟨?_, ?_, hi.kle, ?_, hi.sigp, hi.effp, ?_, ?_, ?_, ?_, hnd, ?_⟩
  · show st.prog.length = rs'.nodes.length; rw [ha.len]; exact hi.len
  · show rs'.obs = none; rw [ha.obs]; exact hi.obs
  · intro i h
    have := ha.ctl i (by omega)
    simp only [RView.ctl, Prod.mk.injEq] at this
    show (rs'.get i).kind = _; rw [this.1]; exact hi.sigs i h
  · intro i h1 h2
    by_cases hie : i = e
    · subst hie; exact hk
    · have := ha.ctl i hie
      simp only [RView.ctl, Prod.mk.injEq] at this
      show (rs'.get i).kind = _; rw [this.1]; exact hi.effk i h1 h2
  · intro i h1 x hx
    by_cases hie : i = e
    · subst hie; exact hs x hx
    · have hx' : x ∈ (rs'.get i).sources := hx
      rw [ha.srcs i hie] at hx'; exact hi.srcs i h1 x hx'
  · intro i h1 x hx
    by_cases hxe : x = e
    · subst hxe; exact ⟨hke, hlt⟩
    · have hx' : x ∈ (rs'.get i).subs := hx
      rw [ha.subs i x hxe] at hx'; exact hi.subs i h1 x hx'
  · intro i h1
    apply List.eq_nil_iff_forall_not_mem.2
    intro y hy
    have hy' : y ∈ (rs'.get i).subs := hy
    by_cases hye : y = e
    · subst hye
      have := hs i (hex i hy'); omega
    · rw [ha.subs i y hye, hi.esubs i h1] at hy'; simp at hy'
  · intro i y hy
    have hy' : y ∈ (rs'.get i).subs := hy
    show i ∈ (rs'.get y).sources
    by_cases hye : y = e
    · subst hye; exact hex i hy'
    · rw [ha.subs i y hye] at hy'
      rw [ha.srcs y hye]; exact hi.exact i y hy'

theorem EffOK.acts {K : Nat} {st : St} {e e' : Nat} {x : Expr} {cur : Int → Prop}
    (h : EffOK K st e' x cur) (hi : RInv K st) {rs' : State} (ha : Acts e st.rs rs') (hne : e' ≠ e)
    (hke : K ≤ e) : EffOK K { st with rs := rs' } e' x cur := by
  have hc := ha.ctl e' hne
  simp only [RView.ctl, Prod.mk.injEq] at hc
  have hs := h.sigOnly hi
  simp only [RView.sigOnly, Bool.and_eq_true] at hs
  have henv : ∀ i, i < K → Reactive.envOf rs' i = Reactive.envOf st.rs i := by
    intro i hlt
    have := ha.ctl i (by omega)
    simp only [RView.ctl, Prod.mk.injEq] at this
    simp only [Reactive.envOf, this.2.1]
  have hd := reads_determine (ρ := Reactive.envOf rs') (ρ' := Reactive.envOf st.rs) x hs.1.2
    (fun i hr => henv i (readsU_below x hs.1.1 i hr))
  refine ⟨h.ke, h.lt, h.prog, ?_, ?_, h.task, ?_⟩
  · show (rs'.get e').alive = true; rw [hc.2.2.2.2.2.2.2.2.1]; exact h.alive
  · show (rs'.get e').done = false; rw [hc.2.2.2.2.2.2.2.2.2]; exact h.done
  · rcases h.ok with hp | hcur
    · left
      exact ⟨by show (rs'.get e').dirty = true; rw [hc.2.2.2.1]; exact hp.1,
        by show (rs'.get e').chan = true; rw [hc.2.2.2.2.1]; exact hp.2.1,
        by show (rs'.get e').woken = true; rw [hc.2.2.2.2.2.1]; exact hp.2.2⟩
    · right
      refine ⟨by show (rs'.get e').dirty = false; rw [hc.2.2.2.1]; exact hcur.1, ?_, ?_⟩
      · show cur (evalPure (Reactive.envOf rs') x); rw [hd.1]; exact hcur.2.1
      · intro i hr
        have hr' : i ∈ readsU (Reactive.envOf rs') x := hr
        rw [hd.2] at hr'
        show e' ∈ (rs'.get i).subs
        exact (ha.subs i e' hne).2 (hcur.2.2 i hr')

/-- what the run of a dirty, notified effect leaves behind -/
structure Ran (K : Nat) (st : St) (e : Nat) (x : Expr) (rs' : State) : Prop where
  acts : Acts e st.rs rs'
  kind : (rs'.get e).kind = .eff
  val : (rs'.get e).val = some (evalPure (Reactive.envOf st.rs) x)
  dirty : (rs'.get e).dirty = false
  chan : (rs'.get e).chan = false
  woken : (rs'.get e).woken = (st.rs.get e).woken
  alive : (rs'.get e).alive = (st.rs.get e).alive
  done : (rs'.get e).done = (st.rs.get e).done
  subd : ∀ i ∈ readsU (Reactive.envOf st.rs) x, e ∈ (rs'.get i).subs
  srcs : (rs'.get e).sources = readsU (Reactive.envOf st.rs) x
  nodup : ∀ i, (rs'.get i).subs.Nodup
  only : ∀ i, e ∈ (rs'.get i).subs → i ∈ readsU (Reactive.envOf st.rs) x

theorem ranRs_spec {K : Nat} {st : St} (hi : RInv K st) {e : Nat} {x : Expr} (hke : K ≤ e)
    (hlt : e < st.prog.length) (hp : st.prog[e]? = some (.eff x)) (hs : sigOnly K x = true) :
    Ran K st e x (ranRs st e) := by
  simp only [sigOnly, Bool.and_eq_true] at hs
  have hlt' : e < st.rs.nodes.length := by rw [← hi.len]; exact hlt
  generalize hs1 : ((st.rs.upd e fun n => { n with chan := false }).upd e fun n => { n with dirty := false }) = s1
  have a1 : Acts e st.rs s1 := by
    rw [← hs1]
    exact (Acts.of_upd st.rs e (fun n => { n with chan := false }) (fun _ => rfl)).trans
      (Acts.of_upd _ e (fun n => { n with dirty := false }) (fun _ => rfl))
  have g1 : ∀ i, i ≠ e → s1.get i = st.rs.get i := by
    intro i hne; rw [← hs1, State.get_upd_ne _ _ (Ne.symm hne), State.get_upd_ne _ _ (Ne.symm hne)]
  have g1e : s1.get e = { st.rs.get e with chan := false, dirty := false } := by
    rw [← hs1, State.get_upd_same _ _ (by simpa using hlt'), State.get_upd_same _ _ hlt']
  have henv : Reactive.envOf s1 = Reactive.envOf st.rs := by
    funext i
    simp only [Reactive.envOf]
    by_cases hie : i = e
    · subst hie; rw [g1e]
    · rw [g1 i hie]
  have hbody : bodyOf st.prog e = x := by simp [bodyOf, hp]
  have run := runEffBody_sig (p := st.prog) (f := st.fuel) (K := K) (e := e) (x := x) (s := s1) hke
    (by rw [a1.len]; exact hlt')
    (fun i h => by rw [g1 i (by omega)]; exact hi.sigs i h) hbody hs.1.1 hs.1.2 hs.2
  have hr : ranRs st e = runEffBody st.prog st.fuel s1 e := by rw [ranRs, hs1]
  rw [hr]
  have hc := run.ctl_e
  rw [g1e, henv] at hc
  simp only [RView.ctl, Prod.mk.injEq] at hc
  have hsub1 : ∀ i, (s1.get i).subs = (st.rs.get i).subs := by
    intro i
    by_cases hie : i = e
    · subst hie; rw [g1e]
    · rw [g1 i hie]
  have hnd1 : ∀ i, (s1.get i).subs.Nodup := fun i => by rw [hsub1]; exact hi.nd i
  have hex1 : ∀ i, e ∈ (s1.get i).subs → i ∈ (s1.get e).sources := by
    intro i hm; rw [hsub1] at hm; rw [g1e]; exact hi.exact i e hm
  refine ⟨a1.trans run.acts, ?_, hc.2.1, hc.2.2.2.1, hc.2.2.2.2.1, hc.2.2.2.2.2.1, hc.2.2.2.2.2.2.2.2.1,
    hc.2.2.2.2.2.2.2.2.2, ?_, ?_, run.nodup hnd1, ?_⟩
  · rw [hc.1]; exact hi.effk e hke hlt
  · intro i hr; exact run.subd i (by rw [henv]; exact hr)
  · rw [run.srcs_e, henv]
  · intro i hm; have := run.only hnd1 hex1 i hm; rw [henv] at this; exact this


/-! ## re-running a dynamic leaf -/

/-- only static structure and dynamic leaves (text, attribute, class, style) -/
def View.leaves : View → Bool
  | .text _ => true
  | .unit => true
  | .elem _ _ kid => kid.leaves
  | .seq a b => a.leaves && b.leaves
  | .dynText _ => true
  | .either _ _ _ => false
  | .show _ _ _ => false
  | .forKeyed _ _ => false
  | .scope _ _ _ => false
  | .forRows _ _ _ _ => false
  | .eb _ => false
  | .res _ _ => false

theorem View.leaves_core : ∀ (v : View), v.leaves = true → v.core = true
  | .text _, _ => rfl
  | .unit, _ => rfl
  | .elem _ _ kid, h => View.leaves_core kid h
  | .seq a b, h => by
    simp only [View.leaves, Bool.and_eq_true] at h
    simp [View.core, View.leaves_core a h.1, View.leaves_core b h.2]
  | .dynText _, _ => rfl
  | .either _ _ _, h => by simp [View.leaves] at h
  | .show _ _ _, h => by simp [View.leaves] at h
  | .forKeyed _ _, h => by simp [View.leaves] at h
  | .scope _ _ _, h => by simp [View.leaves] at h
  | .forRows _ _ _ _, h => by simp [View.leaves] at h

section rerunLeaf
variable {K : Nat} {st st' : St} {e : Nat} {w : Int}
variable (hothers : ∀ e' x cur, e' ≠ e → EffOK K st e' x cur → EffOK K st' e' x cur)
variable (hself : ∀ x (cur : Int → Prop), EffOK K st e x cur → ∀ cur' : Int → Prop, cur' w → EffOK K st' e x cur')
include hothers hself

theorem rerunAttr_good : ∀ {a : Attr} {s : AState}, GoodAttr K st a s →
    GoodAttr K st' a (rerunAttr e w s).1 ∧ (rerunAttr e w s).1.effs = s.effs
  | .stat _ _, .stat _ _, h => ⟨h, rfl⟩
  | .dyn _ _, .dyn e' _ _ _, h => by
    simp only [rerunAttr]
    by_cases he : e' = e
    · subst he; rw [if_pos rfl]
      exact ⟨⟨h.1, h.2.1, hself _ _ h.2.2 _ rfl⟩, rfl⟩
    · rw [if_neg he]
      exact ⟨⟨h.1, h.2.1, hothers _ _ _ he h.2.2⟩, rfl⟩
  | .cls _ _, .cls e' _ _ _, h => by
    simp only [rerunAttr]
    by_cases he : e' = e
    · subst he; rw [if_pos rfl]
      exact ⟨⟨h.1, h.2.1, hself _ _ h.2.2 _ rfl⟩, rfl⟩
    · rw [if_neg he]
      exact ⟨⟨h.1, h.2.1, hothers _ _ _ he h.2.2⟩, rfl⟩
  | .sty _ _, .sty e' _ _ _, h => by
    simp only [rerunAttr]
    by_cases he : e' = e
    · subst he; rw [if_pos rfl]
      exact ⟨⟨h.1, h.2.1, hself _ _ h.2.2 _ rfl⟩, rfl⟩
    · rw [if_neg he]
      exact ⟨⟨h.1, h.2.1, hothers _ _ _ he h.2.2⟩, rfl⟩
  | .stat _ _, .dyn _ _ _ _, h => h.elim
  | .stat _ _, .cls _ _ _ _, h => h.elim
  | .stat _ _, .sty _ _ _ _, h => h.elim
  | .dyn _ _, .stat _ _, h => h.elim
  | .dyn _ _, .cls _ _ _ _, h => h.elim
  | .dyn _ _, .sty _ _ _ _, h => h.elim
  | .cls _ _, .stat _ _, h => h.elim
  | .cls _ _, .dyn _ _ _ _, h => h.elim
  | .cls _ _, .sty _ _ _ _, h => h.elim
  | .sty _ _, .stat _ _, h => h.elim
  | .sty _ _, .dyn _ _ _ _, h => h.elim
  | .sty _ _, .cls _ _ _ _, h => h.elim

theorem rerunAttrs_good : ∀ {as : List Attr} {ss : List AState}, GoodAttrs K st as ss →
    GoodAttrs K st' as (rerunAttrs e w ss).1 ∧
      (rerunAttrs e w ss).1.flatMap AState.effs = ss.flatMap AState.effs
  | [], [], _ => ⟨trivial, rfl⟩
  | _ :: _, s :: ss, h => by
    have h1 := rerunAttr_good hothers hself h.1
    have h2 := rerunAttrs_good h.2
    simp only [rerunAttrs]
    exact ⟨⟨h1.1, h2.1⟩, by simp only [List.flatMap_cons, h1.2, h2.2]⟩
  | [], _ :: _, h => h.elim
  | _ :: _, [], h => h.elim

theorem rerunIn_leaf : ∀ (v : View) (t : RState) (s0 : St), Good K st v t → v.leaves = true →
    (rerunIn e w t s0).2.1 = s0 ∧ Good K st' v (rerunIn e w t s0).1 ∧
      effsOf (rerunIn e w t s0).1 = effsOf t := by
  intro v
  induction v with
  | text s =>
    intro t s0 h _
    cases t <;> simp only [Good] at h
    exact ⟨rfl, by simp only [rerunIn, Good]; exact h, rfl⟩
  | unit =>
    intro t s0 h _
    cases t <;> simp only [Good] at h
    exact ⟨rfl, by simp only [rerunIn, Good], rfl⟩
  | elem tag attrs kid ih =>
    intro t s0 h hl
    cases t <;> simp only [Good] at h
    next n tag' as k =>
      have h1 := rerunAttrs_good hothers hself h.2.1
      have h2 := ih k s0 h.2.2 hl
      simp only [rerunIn]
      refine ⟨h2.1, ?_, ?_⟩
      · simp only [Good]; exact ⟨h.1, h1.1, h2.2.1⟩
      · simp only [effsOf, h1.2, h2.2.2]
  | seq a b iha ihb =>
    intro t s0 h hl
    simp only [View.leaves, Bool.and_eq_true] at hl
    cases t <;> simp only [Good] at h
    next sa sb =>
      have h1 := iha sa s0 h.1 hl.1
      have h2 := ihb sb (rerunIn e w sa s0).2.1 h.2 hl.2
      simp only [rerunIn]
      refine ⟨by rw [h2.1, h1.1], ?_, ?_⟩
      · simp only [Good]; exact ⟨h1.2.1, h2.2.1⟩
      · simp only [effsOf, h1.2.2, h2.2.2]
  | dynText x =>
    intro t s0 h _
    cases t <;> simp only [Good] at h
    next e' x' n last =>
      simp only [rerunIn]
      by_cases he : e' = e
      · subst he; rw [if_pos rfl]
        exact ⟨rfl, by simp only [Good]; exact ⟨h.1, hself _ _ h.2 _ rfl⟩, rfl⟩
      · rw [if_neg he]
        exact ⟨rfl, by simp only [Good]; exact ⟨h.1, hothers _ _ _ he h.2⟩, rfl⟩
  | either c a b _ _ => intro t s0 _ hl; simp [View.leaves] at hl
  | «show» c a b _ _ => intro t s0 _ hl; simp [View.leaves] at hl
  | scope sid d kid _ => intro t s0 _ hl; simp [View.leaves] at hl
  | forRows en sel lists row _ => intro t s0 _ hl; simp [View.leaves] at hl
  | eb kid _ => intro t s0 _ hl; simp [View.leaves] at hl
  | res c x => intro t s0 _ hl; simp [View.leaves] at hl
  | forKeyed sel lists => intro t s0 _ hl; simp [View.leaves] at hl

end rerunLeaf


/-! ## the invariant for views made of static structure and dynamic leaves -/

theorem EffOK.congr {K : Nat} {st st' : St} {e : Nat} {x : Expr} {cur : Int → Prop}
    (h : EffOK K st e x cur) (hp : st'.prog = st.prog) (hr : st'.rs = st.rs) (ht : st'.tasks = st.tasks) :
    EffOK K st' e x cur := by
  refine ⟨h.ke, by rw [hp]; exact h.lt, by rw [hp]; exact h.prog, by rw [hr]; exact h.alive,
    by rw [hr]; exact h.done, by rw [ht]; exact h.task, ?_⟩
  simp only [pending, hr]; exact h.ok

structure Inv0 (K : Nat) (v : View) (st : St) : Prop where
  rinv : RInv K st
  zomb : st.zombies = []
  tree : ∃ t, st.root = some t ∧ Good K st v t ∧ ∀ e ∈ st.tasks, e ∈ effsOf t

/-- clearing notification flags of an effect that is not dirty keeps the invariant -/
theorem Inv0.flags {K : Nat} {v : View} {st : St} (h : Inv0 K v st) {e : Nat} (g : Node → Node)
    (hg : ∀ n, (g n).kind = n.kind ∧ (g n).val = n.val ∧ (g n).dirty = n.dirty ∧ (g n).alive = n.alive ∧
      (g n).done = n.done ∧ (g n).subs = n.subs ∧ (g n).sources = n.sources)
    (hke : K ≤ e) (hlt : e < st.prog.length) (hd : (st.rs.get e).dirty = false) :
    Inv0 K v { st with rs := st.rs.upd e g } := by
  obtain ⟨t, hroot, hgood, htasks⟩ := h.tree
  have hlt' : e < st.rs.nodes.length := by rw [← h.rinv.len]; exact hlt
  have ha : Acts e st.rs (st.rs.upd e g) := Acts.of_upd _ e g (fun n => (hg n).2.2.2.2.2.1)
  have hge : (st.rs.upd e g).get e = g (st.rs.get e) := State.get_upd_same _ _ hlt'
  have hi' : RInv K { st with rs := st.rs.upd e g } :=
    h.rinv.acts ha hke hlt (by rw [hge, (hg _).1]; exact h.rinv.effk e hke hlt)
      (by intro x hx; rw [hge, (hg _).2.2.2.2.2.2] at hx; exact h.rinv.srcs e hke x hx)
      (by
        intro i; rw [State.get_upd]; split
        · rw [(hg _).2.2.2.2.2.1]; exact h.rinv.nd i
        · exact h.rinv.nd i)
      (by
        intro i hm
        rw [hge, (hg _).2.2.2.2.2.2]
        rw [State.get_upd] at hm; split at hm
        · rw [(hg _).2.2.2.2.2.1] at hm; exact h.rinv.exact i e hm
        · exact h.rinv.exact i e hm)
  refine ⟨hi', h.zomb, t, hroot, ?_, htasks⟩
  refine Good.map v t hgood ?_
  intro e' x cur _ hok
  by_cases hne : e' = e
  · subst hne
    have henv : Reactive.envOf (st.rs.upd e' g) = Reactive.envOf st.rs := by
      funext i
      simp only [Reactive.envOf]
      rw [State.get_upd]; split
      · next hh => obtain ⟨rfl, _⟩ := hh; rw [(hg _).2.1]
      · rfl
    refine ⟨hok.ke, hok.lt, hok.prog, ?_, ?_, hok.task, Or.inr ⟨?_, ?_, ?_⟩⟩
    · show ((st.rs.upd e' g).get e').alive = true; rw [hge, (hg _).2.2.2.1]; exact hok.alive
    · show ((st.rs.upd e' g).get e').done = false; rw [hge, (hg _).2.2.2.2.1]; exact hok.done
    · show ((st.rs.upd e' g).get e').dirty = false; rw [hge, (hg _).2.2.1]; exact hd
    · show cur (evalPure (Reactive.envOf (st.rs.upd e' g)) x)
      rw [henv]
      rcases hok.ok with hp | hc
      · rw [hp.1] at hd; cases hd
      · exact hc.2.1
    · intro i hr
      have hr' : i ∈ readsU (Reactive.envOf (st.rs.upd e' g)) x := hr
      rw [henv] at hr'
      show e' ∈ ((st.rs.upd e' g).get i).subs
      rcases hok.ok with hp | hc
      · rw [hp.1] at hd; cases hd
      · rw [State.get_upd]; split
        · next hh => obtain ⟨rfl, _⟩ := hh; rw [(hg _).2.2.2.2.2.1]; exact hc.2.2 _ hr'
        · exact hc.2.2 i hr'
  · exact hok.acts h.rinv ha hne hke


theorem rerun_leaf {st : St} {e : Nat} {w : Int} {t : RState} (hroot : st.root = some t)
    (hz : st.zombies = [])
    (h : (rerunIn e w t { st with root := none }).2.1 = { st with root := none }) :
    rerun st e w = { st with root := some (rerunIn e w t { st with root := none }).1,
                             rootN := ⟨st.rootN.id, st.rootN.muts + (rerunIn e w t { st with root := none }).2.2⟩ } := by
  unfold rerun
  simp only [hroot]
  generalize hr : rerunIn e w t { st with root := none } = r at h ⊢
  obtain ⟨t', s0, d⟩ := r
  simp only at h
  subst h
  simp [rerunZombies, hz]


theorem envOf_acts_expr {K e : Nat} {rs rs' : State} (ha : Acts e rs rs') (hke : K ≤ e) {x : Expr}
    (hs : sigOnly K x = true) :
    evalPure (Reactive.envOf rs') x = evalPure (Reactive.envOf rs) x ∧
      readsU (Reactive.envOf rs') x = readsU (Reactive.envOf rs) x := by
  simp only [sigOnly, Bool.and_eq_true] at hs
  have henv : ∀ i, i < K → Reactive.envOf rs' i = Reactive.envOf rs i := by
    intro i hlt
    have := ha.ctl i (by omega)
    simp only [RView.ctl, Prod.mk.injEq] at this
    simp only [Reactive.envOf, this.2.1]
  exact reads_determine x hs.1.2 (fun i hr => henv i (readsU_below x hs.1.1 i hr))

theorem pollTask_alive (st : St) (e : Nat) (hlt : e < st.rs.nodes.length) (ha : (st.rs.get e).alive = true) :
    pollTask st e = effLoop 64 { st with rs := st.rs.upd e fun n => { n with woken := false } } e := by
  unfold pollTask
  have : ((st.rs.upd e fun n => { n with woken := false }).get e).alive = true := by
    rw [State.get_upd_same _ _ hlt]; exact ha
  simp [this]

/-- what one poll of task `e` does to a state satisfying the leaf invariant -/
structure PollRes (K : Nat) (v : View) (st : St) (e : Nat) (st' : St) : Prop where
  inv : Inv0 K v st'
  /-- other nodes of the reactive graph keep their control part and their sources -/
  others : ∀ i, i ≠ e → ctl (st'.rs.get i) = ctl (st.rs.get i) ∧ (st'.rs.get i).sources = (st.rs.get i).sources
  /-- an effect that is not dirty does not run: the DOM and the effect's sources are unchanged -/
  clean : (st.rs.get e).dirty = false →
    st'.root = st.root ∧ st'.rootN = st.rootN ∧ (st'.rs.get e).sources = (st.rs.get e).sources
  /-- afterwards the effect is not dirty -/
  after : (st'.rs.get e).dirty = false
  /-- every DOM node that `e` does not govern keeps its identity and its mutation counter -/
  nodes : ∀ n g, (n, g) ∈ st.nodes → e ∉ g → (n, g) ∈ st'.nodes

theorem PollRes.of_flags {K : Nat} {v : View} {st : St} {e : Nat} {rs' : State}
    (hinv : Inv0 K v { st with rs := rs' }) (ho : ∀ i, i ≠ e → rs'.get i = st.rs.get i)
    (hs : (rs'.get e).sources = (st.rs.get e).sources) (hd : (rs'.get e).dirty = false) :
    PollRes K v st e { st with rs := rs' } :=
  ⟨hinv, fun i hi => by show RView.ctl (rs'.get i) = _ ∧ (rs'.get i).sources = _; rw [ho i hi]; exact ⟨rfl, rfl⟩,
   fun _ => ⟨rfl, rfl, hs⟩, hd, fun _ _ hm _ => hm⟩

theorem poll_res {K : Nat} {v : View} {st : St} (h : Inv0 K v st) (hl : v.leaves = true) {e : Nat}
    (he : e ∈ st.tasks) : PollRes K v st e (pollTask st e) := by
  obtain ⟨t, hroot, hgood, htasks⟩ := h.tree
  obtain ⟨x, cur, hok⟩ := Good.effOK v t hgood e (htasks e he)
  have hs := hok.sigOnly h.rinv
  have hlt' : e < st.rs.nodes.length := by rw [← h.rinv.len]; exact hok.lt
  rw [pollTask_alive st e hlt' hok.alive]
  generalize hsA : ({ st with rs := st.rs.upd e fun n => { n with woken := false } } : St) = stA
  have hAget : stA.rs.get e = { st.rs.get e with woken := false } := by
    rw [← hsA]; exact State.get_upd_same _ _ hlt'
  have hAlen : stA.rs.nodes.length = st.rs.nodes.length := by rw [← hsA]; simp
  have hAobs : stA.rs.obs = none := by rw [← hsA]; exact h.rinv.obs
  have hAprog : stA.prog = st.prog := by rw [← hsA]
  by_cases hd : (st.rs.get e).dirty = true
  · -- pending: the effect runs
    have hpend : pending st e := by
      rcases hok.ok with hp | hc
      · exact hp
      · rw [hc.1] at hd; cases hd
    have aA : Acts e st.rs stA.rs := by
      rw [← hsA]; exact Acts.of_upd st.rs e (fun n => { n with woken := false }) (fun _ => rfl)
    have hiA : RInv K stA := by
      have hsubA : ∀ i, (stA.rs.get i).subs = (st.rs.get i).subs := by
        intro i; rw [← hsA]; show ((st.rs.upd e _).get i).subs = _
        rw [State.get_upd]; split <;> rfl
      have := h.rinv.acts aA hok.ke hok.lt (by rw [hAget]; exact h.rinv.effk e hok.ke hok.lt)
        (by intro y hy; rw [hAget] at hy; exact h.rinv.srcs e hok.ke y hy)
        (by intro i; rw [hsubA]; exact h.rinv.nd i)
        (by intro i hm; rw [hsubA] at hm; rw [hAget]; exact h.rinv.exact i e hm)
      have e2 : ({ st with rs := stA.rs } : St) = stA := by rw [← hsA]
      rw [e2] at this; exact this
    rw [effLoop_dirty 63 stA e (by rw [hAlen]; exact hlt') (by rw [hAget]; exact hpend.2.1)
      (by rw [hAget]; exact hpend.1) hAobs]
    have ran := ranRs_spec hiA hok.ke (by rw [hAprog]; exact hok.lt) (by rw [hAprog]; exact hok.prog) hs
    generalize hrsR : ranRs stA e = rsR at ran
    have aR : Acts e st.rs rsR := aA.trans ran.acts
    have envA := envOf_acts_expr aA hok.ke hs
    have envR := envOf_acts_expr aR hok.ke hs
    have hw : ((rsR.get e).val.getD 0) = evalPure (Reactive.envOf st.rs) x := by
      rw [ran.val, envA.1]; rfl
    rw [hw]
    -- the state before the tree is updated
    have hsB : ({ stA with rs := rsR } : St) = { st with rs := rsR } := by rw [← hsA]
    rw [hsB]
    have hiB : RInv K { st with rs := rsR } :=
      h.rinv.acts aR hok.ke hok.lt ran.kind (by
        intro y hy; rw [ran.srcs] at hy
        simp only [sigOnly, Bool.and_eq_true] at hs
        exact readsU_below x hs.1.1 y hy) ran.nodup (by
        intro i hm; rw [ran.srcs]; exact ran.only i hm)
    have hothers : ∀ e' x' cur', e' ≠ e → EffOK K st e' x' cur' → EffOK K { st with rs := rsR } e' x' cur' :=
      fun e' x' cur' hne hk => hk.acts h.rinv aR hne hok.ke
    have hself : ∀ x' (cur0 : Int → Prop), EffOK K st e x' cur0 → ∀ cur' : Int → Prop,
        cur' (evalPure (Reactive.envOf st.rs) x) → EffOK K { st with rs := rsR } e x' cur' := by
      intro x' cur0 hk cur' hc'
      have hxx : x' = x := by
        have h1 := hk.prog; rw [hok.prog] at h1; cases h1; rfl
      subst hxx
      refine ⟨hk.ke, hk.lt, hk.prog, ?_, ?_, hk.task, Or.inr ⟨ran.dirty, ?_, ?_⟩⟩
      · show (rsR.get e).alive = true; rw [ran.alive, hAget]; exact hk.alive
      · show (rsR.get e).done = false; rw [ran.done, hAget]; exact hk.done
      · show cur' (evalPure (Reactive.envOf rsR) x'); rw [envR.1]; exact hc'
      · intro i hr
        have hr' : i ∈ readsU (Reactive.envOf rsR) x' := hr
        rw [envR.2, ← envA.2] at hr'
        exact ran.subd i hr'
    have leaf := rerunIn_leaf (w := evalPure (Reactive.envOf st.rs) x) hothers hself v t
      { ({ st with rs := rsR } : St) with root := none } hgood hl
    have hrr := rerun_leaf (st := { st with rs := rsR }) (e := e) (w := evalPure (Reactive.envOf st.rs) x)
      (t := t) hroot h.zomb leaf.1
    rw [hrr]
    rw [effLoop_nochan _ _ _ (by exact ran.chan)]
    refine ⟨⟨hiB.of_rs_prog rfl rfl, h.zomb, _, rfl, ?_, ?_⟩, ?_, ?_, ran.dirty, ?_⟩
    · exact Good.map v _ leaf.2.1 (fun _ _ _ _ hk => hk.congr rfl rfl rfl)
    · intro e' he'; rw [leaf.2.2]; exact htasks e' he'
    · intro i hi; exact ⟨aR.ctl i hi, aR.srcs i hi⟩
    · intro hcl; rw [hcl] at hd; cases hd
    · intro n g hm hg
      simp only [St.nodes, hroot, List.mem_cons] at hm
      simp only [St.nodes, List.mem_cons]
      rcases hm with hm | hm
      · left
        have hn : n = st.rootN := (Prod.mk.inj hm).1
        have hgg : g = structEffs t := (Prod.mk.inj hm).2
        subst hgg
        have hst := rerunIn_struct e (evalPure (Reactive.envOf st.rs) x) t
          { ({ st with rs := rsR } : St) with root := none } hg
        rw [hst.1, hst.2, hn]
        rfl
      · right
        exact rerunIn_nodes e _ t _ n g hm hg
  · -- not dirty: nothing runs
    have hd' : (st.rs.get e).dirty = false := by simpa using hd
    have hA : Inv0 K v stA := by
      rw [← hsA]
      exact h.flags (fun n => { n with woken := false })
        (fun _ => ⟨rfl, rfl, rfl, rfl, rfl, rfl, rfl⟩) hok.ke hok.lt hd'
    by_cases hc : (stA.rs.get e).chan = true
    · rw [effLoop_clean 63 stA e (by rw [hAlen]; exact hlt') hc (by rw [hAget]; exact hd') hAobs
        (by
          intro y hy; rw [hAget] at hy
          have hyK := h.rinv.srcs e hok.ke y hy
          have := hA.rinv.sigs y hyK
          rw [this]; simp)]
      have hB := hA.flags (e := e) (fun n => { n with chan := false })
        (fun _ => ⟨rfl, rfl, rfl, rfl, rfl, rfl, rfl⟩) hok.ke (by rw [hAprog]; exact hok.lt)
        (by rw [hAget]; exact hd')
      rw [effLoop_nochan _ _ _ (by
        show ((stA.rs.upd e fun n => { n with chan := false }).get e).chan = false
        rw [State.get_upd_same _ _ (by rw [hAlen]; exact hlt')])]
      have e3 : ({ stA with rs := stA.rs.upd e fun n => { n with chan := false } } : St) =
          { st with rs := stA.rs.upd e fun n => { n with chan := false } } := by rw [← hsA]
      rw [e3] at hB ⊢
      refine PollRes.of_flags hB ?_ ?_ ?_
      · intro i hi; rw [State.get_upd_ne _ _ (Ne.symm hi), ← hsA]; exact State.get_upd_ne _ _ (Ne.symm hi)
      · rw [State.get_upd_same _ _ (by rw [hAlen]; exact hlt'), hAget]
      · rw [State.get_upd_same _ _ (by rw [hAlen]; exact hlt'), hAget]; exact hd'
    · rw [effLoop_nochan _ _ _ (by simpa using hc)]
      have e3 : stA = { st with rs := stA.rs } := by rw [← hsA]
      rw [e3] at hA ⊢
      refine PollRes.of_flags hA ?_ ?_ ?_
      · intro i hi; rw [← hsA]; exact State.get_upd_ne _ _ (Ne.symm hi)
      · rw [hAget]
      · rw [hAget]; exact hd'

theorem Inv0.poll {K : Nat} {v : View} {st : St} (h : Inv0 K v st) (hl : v.leaves = true) {e : Nat}
    (he : e ∈ st.tasks) : Inv0 K v (pollTask st e) := (poll_res h hl he).inv

end Leptos.RView
