import LeptosModel.Proofs.RViewReactive
import LeptosModel.Proofs.RViewFor
/-!
# Proofs/RViewInv — the invariant of mounted reactive views whose dynamic parts read signals only
-/
namespace Leptos.RView
open Leptos.Reactive

/-! ## appended nodes -/

theorem get_append_lt (s : State) (n : Node) {i : Nat} (h : i < s.nodes.length) :
    ({ s with nodes := s.nodes ++ [n] } : State).get i = s.get i := by
  simp only [State.get, List.getElem?_append_left h]

theorem get_append_len (s : State) (n : Node) :
    ({ s with nodes := s.nodes ++ [n] } : State).get s.nodes.length = n := by
  simp [State.get]

theorem get_append_ge (s : State) (n : Node) {i : Nat} (h : s.nodes.length < i) :
    ({ s with nodes := s.nodes ++ [n] } : State).get i = {} := by
  simp only [State.get]
  rw [List.getElem?_eq_none (by simp; omega)]
  rfl

/-! ## the invariant of the reactive state -/

def sigOnly (K : Nat) (x : Expr) : Bool := x.readsBelow K && x.noWrite && x.noUntracked

/-- `K` signals first, then render effects whose bodies read signals only -/
structure RInv (K : Nat) (st : St) : Prop where
  len : st.prog.length = st.rs.nodes.length
  obs : st.rs.obs = none
  kle : K ≤ st.prog.length
  sigs : ∀ i, i < K → (st.rs.get i).kind = .sig
  sigp : ∀ i, i < K → ∃ v, st.prog[i]? = some (.sig v)
  effp : ∀ i, K ≤ i → i < st.prog.length → ∃ x, st.prog[i]? = some (.eff x) ∧ sigOnly K x = true
  effk : ∀ i, K ≤ i → i < st.prog.length → (st.rs.get i).kind = .eff
  srcs : ∀ i, K ≤ i → ∀ x ∈ (st.rs.get i).sources, x < K
  subs : ∀ i, i < K → ∀ x ∈ (st.rs.get i).subs, K ≤ x ∧ x < st.prog.length
  /-- nothing subscribes to an effect -/
  esubs : ∀ i, K ≤ i → (st.rs.get i).subs = []
  nd : ∀ i, (st.rs.get i).subs.Nodup
  /-- exact subscriptions: a subscriber of `i` has `i` among the sources of its last run -/
  exact : ∀ i e, e ∈ (st.rs.get i).subs → i ∈ (st.rs.get e).sources

/-- the from-scratch environment restricted to signals is the stored values -/
theorem RInv.env_sig {K : Nat} {st : St} (h : RInv K st) {i : Nat} (hi : i < K) :
    st.env i = Reactive.envOf st.rs i := by
  obtain ⟨v, hv⟩ := h.sigp i hi
  simp only [St.env, specVal, fuelFor, scratch, hv]

theorem evalPure_env {K : Nat} {st : St} (h : RInv K st) {x : Expr} (hx : x.readsBelow K = true) :
    evalPure st.env x = evalPure (Reactive.envOf st.rs) x :=
  evalPure_congr (fun _ hj => h.env_sig hj) x hx

/-- `st'` extends `st`: new nodes were appended; of the old nodes only those in `A` (effects) may
have changed their control part or their subscriptions -/
structure Ext (K : Nat) (A : Nat → Prop) (st st' : St) : Prop where
  pre : ∃ ext, st'.prog = st.prog ++ ext
  aeff : ∀ i, A i → K ≤ i
  ctl : ∀ i, i < st.prog.length → ¬ A i → ctl (st'.rs.get i) = ctl (st.rs.get i)
  subs : ∀ i x, x < st.prog.length → ¬ A x → (x ∈ (st'.rs.get i).subs ↔ x ∈ (st.rs.get i).subs)
  tasks : ∀ e, e ∈ st.tasks → e ∈ st'.tasks

theorem Ext.refl (K : Nat) (A : Nat → Prop) (hA : ∀ i, A i → K ≤ i) (st : St) : Ext K A st st :=
  ⟨⟨[], by simp⟩, hA, fun _ _ _ => rfl, fun _ _ _ _ => Iff.rfl, fun _ h => h⟩

theorem Ext.len_le {K : Nat} {A : Nat → Prop} {st st' : St} (h : Ext K A st st') :
    st.prog.length ≤ st'.prog.length := by
  obtain ⟨ext, he⟩ := h.pre; rw [he]; simp

theorem Ext.trans {K : Nat} {A : Nat → Prop} {a b c : St} (h1 : Ext K A a b) (h2 : Ext K A b c) :
    Ext K A a c where
  pre := by
    obtain ⟨e1, h1'⟩ := h1.pre; obtain ⟨e2, h2'⟩ := h2.pre
    exact ⟨e1 ++ e2, by rw [h2', h1']; simp⟩
  aeff := h1.aeff
  ctl i hi ha := (h2.ctl i (by have := h1.len_le; omega) ha).trans (h1.ctl i hi ha)
  subs i x hx ha := (h2.subs i x (by have := h1.len_le; omega) ha).trans (h1.subs i x hx ha)
  tasks e he := h2.tasks e (h1.tasks e he)

theorem Ext.prog_get {K : Nat} {A : Nat → Prop} {st st' : St} (h : Ext K A st st') {i : Nat}
    (hi : i < st.prog.length) : st'.prog[i]? = st.prog[i]? := by
  obtain ⟨ext, he⟩ := h.pre
  rw [he, List.getElem?_append_left hi]

theorem Ext.envOf_sig {K : Nat} {A : Nat → Prop} {st st' : St} (h : Ext K A st st')
    (hk : K ≤ st.prog.length) {i : Nat} (hi : i < K) :
    Reactive.envOf st'.rs i = Reactive.envOf st.rs i := by
  have := h.ctl i (by omega) (fun ha => by have := h.aeff i ha; omega)
  simp only [RView.ctl, Prod.mk.injEq] at this
  simp only [Reactive.envOf, this.2.1]

/-- weaken the acting set -/
theorem Ext.mono {K : Nat} {A B : Nat → Prop} {st st' : St} (h : Ext K A st st')
    (hAB : ∀ i, A i → B i) (hB : ∀ i, B i → K ≤ i) : Ext K B st st' :=
  ⟨h.pre, hB, fun i hi hb => h.ctl i hi (fun ha => hb (hAB i ha)),
   fun i x hx hb => h.subs i x hx (fun ha => hb (hAB x ha)), h.tasks⟩


/-! ## creating a render effect -/

structure NewEff (K : Nat) (st : St) (x : Expr) (e : Nat) (v : Int) (st' : St) : Prop where
  he : e = st.prog.length
  hv : v = evalPure (Reactive.envOf st.rs) x
  inv : RInv K st'
  prog : st'.prog = st.prog ++ [.eff x]
  ext : Ext K (fun _ => False) st st'
  node : ctl (st'.rs.get e) = (.eff, some v, .dirty, false, false, true, false, false, true, false)
  subd : ∀ i ∈ readsU (Reactive.envOf st.rs) x, e ∈ (st'.rs.get i).subs
  next : st'.next = st.next
  tasks : st'.tasks = st.tasks
  zombies : st'.zombies = st.zombies
  root : st'.root = st.root
  rootN : st'.rootN = st.rootN
  disposed : st'.disposed = st.disposed

theorem newEff_spec {K : Nat} {st : St} (h : RInv K st) {x : Expr} (hx : sigOnly K x = true) :
    NewEff K st x (newEff st x).1 (newEff st x).2.1 (newEff st x).2.2 := by
  simp only [sigOnly, Bool.and_eq_true] at hx
  obtain ⟨⟨hb, hw⟩, ht⟩ := hx
  -- name the intermediate states
  have he : (newEff st x).1 = st.prog.length := rfl
  generalize hs0 : ({ st.rs with nodes := st.rs.nodes ++ [initNode (.eff x)] } : State) = s0
  generalize hs1 : (s0.upd st.prog.length fun n =>
      { n with dirty := false, chan := false, woken := true, first := false }) = s1
  have hrs : (newEff st x).2.2.rs =
      runEffBody (st.prog ++ [.eff x]) (fuelFor (st.prog ++ [.eff x])) s1 st.prog.length := by
    rw [← hs1, ← hs0]; rfl
  have hval : (newEff st x).2.1 = (((newEff st x).2.2.rs).get st.prog.length).val.getD 0 := rfl
  have hprog : (newEff st x).2.2.prog = st.prog ++ [.eff x] := rfl
  have hl0 : s0.nodes.length = st.rs.nodes.length + 1 := by rw [← hs0]; simp
  have hl1 : s1.nodes.length = st.rs.nodes.length + 1 := by rw [← hs1]; simp [hl0]
  have hlen := h.len
  have g0lt : ∀ i, i < st.prog.length → s0.get i = st.rs.get i := by
    intro i hi; rw [← hs0]; exact get_append_lt _ _ (by omega)
  have g1lt : ∀ i, i < st.prog.length → s1.get i = st.rs.get i := by
    intro i hi; rw [← hs1, State.get_upd_ne _ _ (by omega)]; exact g0lt i hi
  have g1gt : ∀ i, st.prog.length < i → s1.get i = {} := by
    intro i hi; rw [← hs1, State.get_upd_ne _ _ (by omega), ← hs0]; exact get_append_ge _ _ (by omega)
  have g1e : s1.get st.prog.length =
      { (initNode (.eff x)) with dirty := false, chan := false, woken := true, first := false } := by
    rw [← hs1, State.get_upd_same _ _ (by omega), ← hs0, hlen]
    rw [get_append_len]
  have henv1 : ∀ i, i < K → Reactive.envOf s1 i = Reactive.envOf st.rs i := by
    intro i hi; simp only [Reactive.envOf]; rw [g1lt i (by have := h.kle; omega)]
  have hbody : bodyOf (st.prog ++ [.eff x]) st.prog.length = x := by
    simp [bodyOf]
  have run := runEffBody_sig (p := st.prog ++ [.eff x]) (f := fuelFor (st.prog ++ [.eff x]))
    (K := K) (e := st.prog.length) (x := x) (s := s1) h.kle (by omega)
    (fun i hi => by rw [g1lt i (by have := h.kle; omega)]; exact h.sigs i hi) hbody hb hw ht
  rw [← hrs] at run
  have hev : evalPure (Reactive.envOf s1) x = evalPure (Reactive.envOf st.rs) x :=
    evalPure_congr (fun j hj => henv1 j hj) x hb
  have hrd : readsU (Reactive.envOf s1) x = readsU (Reactive.envOf st.rs) x :=
    (reads_determine x hw (fun i hi => henv1 i (readsU_below x hb i hi))).2
  have hctle := run.ctl_e
  rw [g1e, hev] at hctle
  have hv : (newEff st x).2.1 = evalPure (Reactive.envOf st.rs) x := by
    rw [hval]
    simp only [RView.ctl, Prod.mk.injEq] at hctle
    rw [hctle.2.1]; rfl
  have hlen' : (newEff st x).2.2.rs.nodes.length = st.rs.nodes.length + 1 := by
    rw [run.acts.len]; exact hl1
  refine ⟨he, hv, ?_, hprog, ?_, ?_, ?_, rfl, rfl, rfl, rfl, rfl, rfl⟩
  · -- RInv
    have hnd1 : ∀ i, (s1.get i).subs.Nodup := by
      intro i
      rcases Nat.lt_trichotomy i st.prog.length with hlt | heq | hgt
      · rw [g1lt i hlt]; exact h.nd i
      · subst heq; rw [g1e]; simp [initNode]
      · rw [g1gt i hgt]; simp
    have hfresh1 : ∀ i, st.prog.length ∉ (s1.get i).subs := by
      intro i hm
      rcases Nat.lt_trichotomy i st.prog.length with hlt | heq | hgt
      · rw [g1lt i hlt] at hm
        rcases Nat.lt_or_ge i K with hk | hk
        · have := h.subs i hk _ hm; omega
        · rw [h.esubs i hk] at hm; simp at hm
      · subst heq; rw [g1e] at hm; simp [initNode] at hm
      · rw [g1gt i hgt] at hm; simp at hm
    have honly := run.only hnd1 (fun i hm => absurd hm (hfresh1 i))
    refine ⟨by rw [hprog, hlen']; simp [hlen], ?_, by rw [hprog]; simp; have := h.kle; omega, ?_, ?_, ?_, ?_, ?_, ?_,
      ?_, run.nodup hnd1, ?_⟩
    · rw [run.acts.obs, ← hs1]; show s0.obs = none; rw [← hs0]; exact h.obs
    · intro i hi
      have hne : i ≠ st.prog.length := by have := h.kle; omega
      have := run.acts.ctl i hne
      simp only [RView.ctl, Prod.mk.injEq] at this
      rw [this.1, g1lt i (by have := h.kle; omega)]; exact h.sigs i hi
    · intro i hi
      obtain ⟨v, hv⟩ := h.sigp i hi
      exact ⟨v, by rw [hprog, List.getElem?_append_left (by have := h.kle; omega)]; exact hv⟩
    · intro i hki hi
      rw [hprog] at hi ⊢
      simp only [List.length_append, List.length_singleton] at hi
      by_cases hie : i = st.prog.length
      · subst hie
        exact ⟨x, by simp, by simp [sigOnly, hb, hw, ht]⟩
      · have hlt : i < st.prog.length := by omega
        obtain ⟨y, hy⟩ := h.effp i hki hlt
        exact ⟨y, by rw [List.getElem?_append_left hlt]; exact hy.1, hy.2⟩
    · intro i hki hi
      rw [hprog] at hi
      simp only [List.length_append, List.length_singleton] at hi
      by_cases hie : i = st.prog.length
      · subst hie
        have := hctle; simp only [RView.ctl, Prod.mk.injEq] at this
        rw [this.1]; rfl
      · have hlt : i < st.prog.length := by omega
        have := run.acts.ctl i hie
        simp only [RView.ctl, Prod.mk.injEq] at this
        rw [this.1, g1lt i hlt]; exact h.effk i hki hlt
    · intro i hki y hy
      by_cases hie : i = st.prog.length
      · subst hie
        rw [run.srcs_e] at hy
        exact readsU_below x hb y hy
      · rw [run.acts.srcs i hie] at hy
        rcases Nat.lt_or_ge i st.prog.length with hlt | hge
        · rw [g1lt i hlt] at hy; exact h.srcs i hki y hy
        · rw [g1gt i (by omega)] at hy; simp at hy
    · intro i hi y hy
      rw [hprog]; simp only [List.length_append, List.length_singleton]
      by_cases hye : y = st.prog.length
      · subst hye; exact ⟨h.kle, by omega⟩
      · rw [run.acts.subs i y hye, g1lt i (by have := h.kle; omega)] at hy
        have := h.subs i hi y hy
        exact ⟨this.1, by omega⟩
    · -- esubs
      intro i hki
      apply List.eq_nil_iff_forall_not_mem.2
      intro y hy
      by_cases hye : y = st.prog.length
      · subst hye
        have := honly i hy
        have := readsU_below x hb i (by rw [← hrd]; exact this)
        omega
      · rw [run.acts.subs i y hye] at hy
        rcases Nat.lt_trichotomy i st.prog.length with hlt | heq | hgt
        · rw [g1lt i hlt, h.esubs i hki] at hy; simp at hy
        · subst heq; rw [g1e] at hy; simp [initNode] at hy
        · rw [g1gt i hgt] at hy; simp at hy
    · -- exact
      intro i y hy
      by_cases hye : y = st.prog.length
      · subst hye
        rw [run.srcs_e]; exact honly i hy
      · rw [run.acts.subs i y hye] at hy
        rw [run.acts.srcs y hye]
        rcases Nat.lt_trichotomy i st.prog.length with hlt | heq | hgt
        · rw [g1lt i hlt] at hy
          have hylt : y < st.prog.length := by
            rcases Nat.lt_or_ge i K with hk | hk
            · exact (h.subs i hk y hy).2
            · rw [h.esubs i hk] at hy; simp at hy
          rw [g1lt y hylt]; exact h.exact i y hy
        · subst heq; rw [g1e] at hy; simp [initNode] at hy
        · rw [g1gt i hgt] at hy; simp at hy
  · -- Ext
    refine ⟨⟨[.eff x], hprog⟩, fun _ hf => hf.elim, ?_, ?_, fun _ ht => ht⟩
    · intro i hi _
      rw [run.acts.ctl i (by omega), g1lt i hi]
    · intro i y hy _
      rw [run.acts.subs i y (by omega)]
      rcases Nat.lt_or_ge i st.prog.length with hlt | hge
      · rw [g1lt i hlt]
      · rcases Nat.lt_or_ge st.prog.length i with hgt | hle
        · rw [g1gt i hgt, State.get_default st.rs (by omega)]
        · have : i = st.prog.length := by omega
          subst this
          rw [g1e, State.get_default st.rs (by omega)]; rfl
  · rw [hv]; exact hctle
  · intro i hi
    exact run.subd i (by rw [hrd]; exact hi)


/-! ## mounted effects are pending or current -/

/-- the effect is marked dirty, notified, and its task is woken -/
def pending (st : St) (e : Nat) : Prop :=
  (st.rs.get e).dirty = true ∧ (st.rs.get e).chan = true ∧ (st.rs.get e).woken = true

/-- a live render effect of the mounted view with body `x`: either it is pending, or what it last
rendered (`cur`) is the current value of its body and it is subscribed to everything the body reads -/
structure EffOK (K : Nat) (st : St) (e : Nat) (x : Expr) (cur : Int → Prop) : Prop where
  ke : K ≤ e
  lt : e < st.prog.length
  prog : st.prog[e]? = some (.eff x)
  alive : (st.rs.get e).alive = true
  done : (st.rs.get e).done = false
  task : e ∈ st.tasks
  ok : pending st e ∨ ((st.rs.get e).dirty = false ∧ cur (evalPure (Reactive.envOf st.rs) x) ∧
        ∀ i ∈ readsU (Reactive.envOf st.rs) x, e ∈ (st.rs.get i).subs)

theorem EffOK.sigOnly {K : Nat} {st : St} {e : Nat} {x : Expr} {cur : Int → Prop}
    (h : EffOK K st e x cur) (hi : RInv K st) : sigOnly K x = true := by
  obtain ⟨y, hy, hs⟩ := hi.effp e h.ke h.lt
  rw [h.prog] at hy
  cases hy
  exact hs

theorem envOf_ext_expr {K : Nat} {A : Nat → Prop} {st st' : St} (hx : Ext K A st st') (hi : RInv K st)
    {x : Expr} (hs : sigOnly K x = true) :
    evalPure (Reactive.envOf st'.rs) x = evalPure (Reactive.envOf st.rs) x ∧
      readsU (Reactive.envOf st'.rs) x = readsU (Reactive.envOf st.rs) x := by
  simp only [sigOnly, Bool.and_eq_true] at hs
  exact reads_determine x hs.1.2 (fun i hr => hx.envOf_sig hi.kle (readsU_below x hs.1.1 i hr))

theorem EffOK.ext {K : Nat} {A : Nat → Prop} {st st' : St} {e : Nat} {x : Expr} {cur : Int → Prop}
    (h : EffOK K st e x cur) (hi : RInv K st) (hx : Ext K A st st') (ha : ¬ A e) : EffOK K st' e x cur := by
  have hc := hx.ctl e h.lt ha
  simp only [RView.ctl, Prod.mk.injEq] at hc
  have hs := h.sigOnly hi
  have henv := envOf_ext_expr hx hi hs
  refine ⟨h.ke, by have := hx.len_le; have := h.lt; omega, by rw [hx.prog_get h.lt]; exact h.prog,
    by rw [hc.2.2.2.2.2.2.2.2.1]; exact h.alive, by rw [hc.2.2.2.2.2.2.2.2.2]; exact h.done,
    hx.tasks e h.task, ?_⟩
  rcases h.ok with hp | hcur
  · left
    exact ⟨by rw [hc.2.2.2.1]; exact hp.1, by rw [hc.2.2.2.2.1]; exact hp.2.1,
      by rw [hc.2.2.2.2.2.1]; exact hp.2.2⟩
  · right
    refine ⟨by rw [hc.2.2.2.1]; exact hcur.1, by rw [henv.1]; exact hcur.2.1, ?_⟩
    intro i hr
    rw [henv.2] at hr
    exact (hx.subs i e h.lt ha).2 (hcur.2.2 i hr)

/-! ## the mounted tree -/

def GoodAttr (K : Nat) (st : St) : Attr → AState → Prop
  | .stat n v, .stat n' v' => n = n' ∧ v = v'
  | .dyn n x, .dyn e n' x' last => n = n' ∧ x = x' ∧ EffOK K st e x (fun v => last = v)
  | .cls n x, .cls e n' x' last => n = n' ∧ x = x' ∧ EffOK K st e x (fun v => last = (v != 0))
  | .sty n x, .sty e n' x' last => n = n' ∧ x = x' ∧ EffOK K st e x (fun v => last = v)
  | _, _ => False

def GoodAttrs (K : Nat) (st : St) : List Attr → List AState → Prop
  | [], [] => True
  | a :: as, s :: ss => GoodAttr K st a s ∧ GoodAttrs K st as ss
  | _, _ => False

/-- the state `t` is a state of the view `v`, and every effect in it is pending or current -/
def Good (K : Nat) (st : St) : View → RState → Prop
  | .text s, .text _ s' => s = s'
  | .unit, .unit _ => True
  | .elem tag attrs kid, .elem _ tag' as k => tag = tag' ∧ GoodAttrs K st attrs as ∧ Good K st kid k
  | .seq a b, .seq sa sb => Good K st a sa ∧ Good K st b sb
  | .dynText x, .dynText e x' _ last => x = x' ∧ EffOK K st e x (fun v => last = v)
  | .either c a b, .either e c' a' b' left inner =>
    c = c' ∧ a = a' ∧ b = b' ∧ EffOK K st e c (fun v => left = (v != 0)) ∧
      (left = true → Good K st a inner) ∧ (left = false → Good K st b inner)
  | .forKeyed sel lists, .forK e sel' lists' ks _ =>
    sel = sel' ∧ lists = lists' ∧ EffOK K st e sel (fun v => ks.hashed = listAt lists v) ∧ KOK ks
  | _, _ => False

def AState.effs : AState → List Nat
  | .stat _ _ => []
  | .dyn e _ _ _ => [e]
  | .cls e _ _ _ => [e]
  | .sty e _ _ _ => [e]

/-- every render effect in a state tree, nested ones included -/
def effsOf : RState → List Nat
  | .text _ _ => []
  | .unit _ => []
  | .elem _ _ as kid => as.flatMap AState.effs ++ effsOf kid
  | .seq a b => effsOf a ++ effsOf b
  | .dynText e _ _ _ => [e]
  | .either e _ _ _ _ inner => e :: effsOf inner
  | .show e _ _ _ _ _ inner => e :: effsOf inner
  | .forK e _ _ _ _ => [e]
  | .scope _ _ _ inner => effsOf inner
  | .rows e _ _ _ _ _ items => e :: effsOf items
  | .rowCons _ _ r rest => effsOf r ++ effsOf rest
  | .rowNil => []
  | .errb e _ _ _ kid => e :: effsOf kid
  | .res e _ _ _ _ _ => [e]
  | .hooked _ inner => effsOf inner
  | .errTok _ => []

theorem GoodAttr.ext {K : Nat} {A : Nat → Prop} {st st' : St} (hi : RInv K st) (hx : Ext K A st st') :
    ∀ {a : Attr} {s : AState}, GoodAttr K st a s → (∀ e ∈ s.effs, ¬ A e) → GoodAttr K st' a s
  | .stat _ _, .stat _ _, h, _ => h
  | .dyn _ _, .dyn e _ _ _, h, ha => ⟨h.1, h.2.1, h.2.2.ext hi hx (ha e (by simp [AState.effs]))⟩
  | .cls _ _, .cls e _ _ _, h, ha => ⟨h.1, h.2.1, h.2.2.ext hi hx (ha e (by simp [AState.effs]))⟩
  | .sty _ _, .sty e _ _ _, h, ha => ⟨h.1, h.2.1, h.2.2.ext hi hx (ha e (by simp [AState.effs]))⟩
  | .stat _ _, .dyn _ _ _ _, h, _ => h.elim
  | .stat _ _, .cls _ _ _ _, h, _ => h.elim
  | .stat _ _, .sty _ _ _ _, h, _ => h.elim
  | .dyn _ _, .stat _ _, h, _ => h.elim
  | .dyn _ _, .cls _ _ _ _, h, _ => h.elim
  | .dyn _ _, .sty _ _ _ _, h, _ => h.elim
  | .cls _ _, .stat _ _, h, _ => h.elim
  | .cls _ _, .dyn _ _ _ _, h, _ => h.elim
  | .cls _ _, .sty _ _ _ _, h, _ => h.elim
  | .sty _ _, .stat _ _, h, _ => h.elim
  | .sty _ _, .dyn _ _ _ _, h, _ => h.elim
  | .sty _ _, .cls _ _ _ _, h, _ => h.elim

theorem GoodAttrs.ext {K : Nat} {A : Nat → Prop} {st st' : St} (hi : RInv K st) (hx : Ext K A st st') :
    ∀ {as : List Attr} {ss : List AState}, GoodAttrs K st as ss → (∀ e ∈ ss.flatMap AState.effs, ¬ A e) →
      GoodAttrs K st' as ss
  | [], [], _, _ => trivial
  | _ :: _, s :: ss, h, ha =>
    ⟨h.1.ext hi hx (fun e he => ha e (by simp [he])),
     GoodAttrs.ext hi hx h.2 (fun e he => ha e (by
       simp only [List.flatMap_cons, List.mem_append]; exact Or.inr he))⟩
  | [], _ :: _, h, _ => h.elim
  | _ :: _, [], h, _ => h.elim


theorem Good.ext {K : Nat} {A : Nat → Prop} {st st' : St} (hi : RInv K st) (hx : Ext K A st st') :
    ∀ (v : View) (t : RState), Good K st v t → (∀ e ∈ effsOf t, ¬ A e) → Good K st' v t := by
  intro v
  induction v with
  | text s => intro t h _; cases t <;> simp only [Good] at h ⊢ <;> exact h
  | unit => intro t h _; cases t <;> simp only [Good] at h ⊢
  | elem tag attrs kid ih =>
    intro t h ha
    cases t <;> simp only [Good] at h ⊢
    next n tag' as k =>
      refine ⟨h.1, GoodAttrs.ext hi hx h.2.1 (fun e he => ha e (by simp [effsOf, he])), ?_⟩
      exact ih k h.2.2 (fun e he => ha e (by simp [effsOf, he]))
  | seq a b iha ihb =>
    intro t h ha
    cases t <;> simp only [Good] at h ⊢
    next sa sb =>
      exact ⟨iha sa h.1 (fun e he => ha e (by simp [effsOf, he])),
        ihb sb h.2 (fun e he => ha e (by simp [effsOf, he]))⟩
  | dynText x =>
    intro t h ha
    cases t <;> simp only [Good] at h ⊢
    next e x' n last => exact ⟨h.1, h.2.ext hi hx (ha e (by simp [effsOf]))⟩
  | either c a b iha ihb =>
    intro t h ha
    cases t <;> simp only [Good] at h ⊢
    next e c' a' b' left inner =>
      refine ⟨h.1, h.2.1, h.2.2.1, h.2.2.2.1.ext hi hx (ha e (by simp [effsOf])), ?_, ?_⟩
      · intro hl; exact iha inner (h.2.2.2.2.1 hl) (fun e he => ha e (by simp [effsOf, he]))
      · intro hl; exact ihb inner (h.2.2.2.2.2 hl) (fun e he => ha e (by simp [effsOf, he]))
  | «show» c a b _ _ => intro t h _; cases t <;> simp only [Good] at h
  | scope sid d kid _ => intro t h _; cases t <;> simp only [Good] at h
  | forRows en sel lists row _ => intro t h _; cases t <;> simp only [Good] at h
  | eb kid _ => intro t h _; cases t <;> simp only [Good] at h
  | res c x => intro t h _; cases t <;> simp only [Good] at h
  | forKeyed sel lists =>
    intro t h ha
    cases t <;> simp only [Good] at h ⊢
    next e sel' lists' ks texts => exact ⟨h.1, h.2.1, h.2.2.1.ext hi hx (ha e (by simp [effsOf])), h.2.2.2⟩


/-! ## a tree without pending effects shows the fresh render -/

theorem EffOK.cur_of_idle {K : Nat} {st : St} {e : Nat} {x : Expr} {cur : Int → Prop}
    (h : EffOK K st e x cur) (hn : ¬ pending st e) : cur (evalPure (Reactive.envOf st.rs) x) := by
  rcases h.ok with hp | hc
  · exact (hn hp).elim
  · exact hc.2.1

theorem GoodAttr.out {K : Nat} {st : St} : ∀ {a : Attr} {s : AState}, GoodAttr K st a s →
    (∀ e ∈ s.effs, ¬ pending st e) → s.out = renderAttr (Reactive.envOf st.rs) a
  | .stat _ _, .stat _ _, h, _ => by simp only [GoodAttr] at h; simp [AState.out, renderAttr, h.1, h.2]
  | .dyn _ _, .dyn e _ _ _, h, hn => by
    have := h.2.2.cur_of_idle (hn e (by simp [AState.effs]))
    simp [AState.out, renderAttr, h.1, h.2.1, this]
  | .cls _ _, .cls e _ _ _, h, hn => by
    have := h.2.2.cur_of_idle (hn e (by simp [AState.effs]))
    simp [AState.out, renderAttr, h.1, ← h.2.1, this]
  | .sty _ _, .sty e _ _ _, h, hn => by
    have := h.2.2.cur_of_idle (hn e (by simp [AState.effs]))
    simp [AState.out, renderAttr, h.1, h.2.1, this]
  | .stat _ _, .dyn _ _ _ _, h, _ => h.elim
  | .stat _ _, .cls _ _ _ _, h, _ => h.elim
  | .stat _ _, .sty _ _ _ _, h, _ => h.elim
  | .dyn _ _, .stat _ _, h, _ => h.elim
  | .dyn _ _, .cls _ _ _ _, h, _ => h.elim
  | .dyn _ _, .sty _ _ _ _, h, _ => h.elim
  | .cls _ _, .stat _ _, h, _ => h.elim
  | .cls _ _, .dyn _ _ _ _, h, _ => h.elim
  | .cls _ _, .sty _ _ _ _, h, _ => h.elim
  | .sty _ _, .stat _ _, h, _ => h.elim
  | .sty _ _, .dyn _ _ _ _, h, _ => h.elim
  | .sty _ _, .cls _ _ _ _, h, _ => h.elim

theorem GoodAttrs.out {K : Nat} {st : St} : ∀ {as : List Attr} {ss : List AState}, GoodAttrs K st as ss →
    (∀ e ∈ ss.flatMap AState.effs, ¬ pending st e) →
    ss.map AState.out = as.map (renderAttr (Reactive.envOf st.rs))
  | [], [], _, _ => rfl
  | _ :: _, s :: ss, h, hn => by
    simp only [List.map_cons]
    rw [h.1.out (fun e he => hn e (by simp [he])),
      GoodAttrs.out h.2 (fun e he => hn e (by
        simp only [List.flatMap_cons, List.mem_append]; exact Or.inr he))]
  | [], _ :: _, h, _ => h.elim
  | _ :: _, [], h, _ => h.elim

theorem Good.serialize_eq {K : Nat} {st : St} :
    ∀ (v : View) (t : RState), Good K st v t → (∀ e ∈ effsOf t, ¬ pending st e) →
      serialize t = render (Reactive.envOf st.rs) v := by
  intro v
  induction v with
  | text s => intro t h _; cases t <;> simp only [Good] at h; simp [RView.serialize, render, h]
  | unit => intro t h _; cases t <;> simp only [Good] at h; simp [RView.serialize, render]
  | elem tag attrs kid ih =>
    intro t h hn
    cases t <;> simp only [Good] at h
    next n tag' as k =>
      simp only [RView.serialize, render]
      rw [h.2.1.out (fun e he => hn e (by simp [effsOf, he])),
        ih k h.2.2 (fun e he => hn e (by simp [effsOf, he])), h.1]
  | seq a b iha ihb =>
    intro t h hn
    cases t <;> simp only [Good] at h
    next sa sb =>
      simp only [RView.serialize, render]
      rw [iha sa h.1 (fun e he => hn e (by simp [effsOf, he])),
        ihb sb h.2 (fun e he => hn e (by simp [effsOf, he]))]
  | dynText x =>
    intro t h hn
    cases t <;> simp only [Good] at h
    next e x' n last =>
      have := h.2.cur_of_idle (hn e (by simp [effsOf]))
      simp only [RView.serialize, render, this]
  | either c a b iha ihb =>
    intro t h hn
    cases t <;> simp only [Good] at h
    next e c' a' b' left inner =>
      have hc := h.2.2.2.1.cur_of_idle (hn e (by simp [effsOf]))
      simp only [RView.serialize, render]
      cases hl : left with
      | true =>
        rw [hl] at hc
        rw [← hc]; simp only [if_true]
        exact iha inner (h.2.2.2.2.1 hl) (fun e he => hn e (by simp [effsOf, he]))
      | false =>
        rw [hl] at hc
        rw [← hc]; simp only [Bool.false_eq_true, if_false]
        exact ihb inner (h.2.2.2.2.2 hl) (fun e he => hn e (by simp [effsOf, he]))
  | «show» c a b _ _ => intro t h _; cases t <;> simp only [Good] at h
  | scope sid d kid _ => intro t h _; cases t <;> simp only [Good] at h
  | forRows en sel lists row _ => intro t h _; cases t <;> simp only [Good] at h
  | eb kid _ => intro t h _; cases t <;> simp only [Good] at h
  | res c x => intro t h _; cases t <;> simp only [Good] at h
  | forKeyed sel lists =>
    intro t h hn
    cases t <;> simp only [Good] at h
    next e sel' lists' ks texts =>
      have := h.2.2.1.cur_of_idle (hn e (by simp [effsOf]))
      simp only [RView.serialize, render, forRows_eq h.2.2.2, this]


/-! ## build -/

/-- the bookkeeping that `build` does not touch -/
structure Same (st st' : St) : Prop where
  zombies : st'.zombies = st.zombies
  root : st'.root = st.root
  rootN : st'.rootN = st.rootN
  disposed : st'.disposed = st.disposed

theorem Same.refl (st : St) : Same st st := ⟨rfl, rfl, rfl, rfl⟩
theorem Same.trans {a b c : St} (h1 : Same a b) (h2 : Same b c) : Same a c :=
  ⟨h2.zombies.trans h1.zombies, h2.root.trans h1.root, h2.rootN.trans h1.rootN,
   h2.disposed.trans h1.disposed⟩

theorem RInv.of_rs_prog {K : Nat} {st st' : St} (h : RInv K st) (hp : st'.prog = st.prog) (hr : st'.rs = st.rs) :
    RInv K st' := by
  refine ⟨?_, ?_, ?_, ?_, ?_, ?_, ?_, ?_, ?_, ?_, ?_, ?_⟩
  · rw [hp, hr]; exact h.len
  · rw [hr]; exact h.obs
  · rw [hp]; exact h.kle
  · rw [hr]; exact h.sigs
  · rw [hp]; exact h.sigp
  · rw [hp]; exact h.effp
  · rw [hp, hr]; exact h.effk
  · rw [hr]; exact h.srcs
  · rw [hp, hr]; exact h.subs
  · rw [hr]; exact h.esubs
  · rw [hr]; exact h.nd
  · rw [hr]; exact h.exact

theorem Ext.of_rs_prog {K : Nat} (A : Nat → Prop) (hA : ∀ i, A i → K ≤ i) {st st' : St}
    (hp : st'.prog = st.prog) (hr : st'.rs = st.rs) (ht : ∀ e, e ∈ st.tasks → e ∈ st'.tasks) : Ext K A st st' :=
  ⟨⟨[], by rw [hp]; simp⟩, hA, fun _ _ _ => by rw [hr], fun _ _ _ _ => by rw [hr], ht⟩

theorem NewEff.effOK {K : Nat} {st st1 st2 : St} {x : Expr} {e : Nat} {v : Int} {cur : Int → Prop}
    (hn : NewEff K st x e v st1) (hi : RInv K st) (hx : Ext K (fun _ => False) st1 st2) (ht : e ∈ st2.tasks)
    (hc : cur v) : EffOK K st2 e x cur := by
  have hs : sigOnly K x = true := by
    obtain ⟨y, hy, hs⟩ := hn.inv.effp e (by rw [hn.he]; exact hi.kle) (by rw [hn.prog, hn.he]; simp)
    rw [hn.prog, hn.he] at hy
    simp at hy
    rw [hy]; exact hs
  have henv := envOf_ext_expr hn.ext hi hs
  have hnode := hn.node
  simp only [RView.ctl, Prod.mk.injEq] at hnode
  have h1 : EffOK K { st1 with tasks := [e] } e x cur := by
    refine ⟨by rw [hn.he]; exact hi.kle, ?_, ?_, hnode.2.2.2.2.2.2.2.2.1, hnode.2.2.2.2.2.2.2.2.2,
      by simp, Or.inr ⟨hnode.2.2.2.1, ?_, ?_⟩⟩
    · show e < st1.prog.length; rw [hn.prog, hn.he]; simp
    · show st1.prog[e]? = _; rw [hn.prog, hn.he]; simp
    · show cur (evalPure (Reactive.envOf st1.rs) x); rw [henv.1, ← hn.hv]; exact hc
    · intro i hr
      have hr' : i ∈ readsU (Reactive.envOf st1.rs) x := hr
      rw [henv.2] at hr'
      exact hn.subd i hr'
  have hi1 : RInv K { st1 with tasks := [e] } := hn.inv.of_rs_prog rfl rfl
  have hx1 : Ext K (fun _ => False) { st1 with tasks := [e] } st2 :=
    ⟨hx.pre, hx.aeff, hx.ctl, hx.subs, fun e' he' => by
      have : e' = e := by simpa using he'
      rw [this]; exact ht⟩
  exact h1.ext hi1 hx1 (fun hf => hf)

/-- result of building one attribute -/
structure BuiltAttr (K : Nat) (st : St) (a : Attr) (s : AState) (st' : St) : Prop where
  inv : RInv K st'
  ext : Ext K (fun _ => False) st st'
  good : GoodAttr K st' a s
  fresh : ∀ e ∈ s.effs, st.prog.length ≤ e ∧ e < st'.prog.length
  same : Same st st'

theorem spawn_ext {K : Nat} (st : St) (e : Nat) : Ext K (fun _ => False) st (st.spawn e) :=
  Ext.of_rs_prog _ (fun _ hf => hf.elim) rfl rfl (fun e' he' => by simp [St.spawn, he'])

theorem buildAttr_spec {K : Nat} {st : St} (hi : RInv K st) :
    ∀ (a : Attr), a.exprOk K = true →
      BuiltAttr K st a (buildAttr st a).1 (buildAttr st a).2.1
  | .stat n v, _ => ⟨hi, Ext.refl _ _ (fun _ hf => hf.elim) _, ⟨rfl, rfl⟩, by simp [buildAttr, AState.effs], Same.refl _⟩
  | .dyn n x, hx => by
    have hs : sigOnly K x = true := by simpa [Attr.exprOk, sigOnly] using hx
    have hr : st.res x = x := st.res_eq (by simp only [Attr.exprOk, Bool.and_eq_true] at hx; exact hx.2)
    have hn := newEff_spec hi hs
    simp only [buildAttr, hr]
    refine ⟨hn.inv.of_rs_prog rfl rfl, hn.ext.trans (spawn_ext _ _), ?_, ?_, ?_⟩
    · exact ⟨rfl, rfl, hn.effOK hi (spawn_ext _ _) (by simp [St.spawn]) rfl⟩
    · intro e he
      simp only [AState.effs, List.mem_singleton] at he
      rw [he, hn.he]; show _ ∧ _ < (newEff st x).2.2.prog.length; rw [hn.prog]; simp
    · exact ⟨hn.zombies, hn.root, hn.rootN, hn.disposed⟩
  | .cls n x, hx => by
    have hs : sigOnly K x = true := by simpa [Attr.exprOk, sigOnly] using hx
    have hr : st.res x = x := st.res_eq (by simp only [Attr.exprOk, Bool.and_eq_true] at hx; exact hx.2)
    have hn := newEff_spec hi hs
    simp only [buildAttr, hr]
    refine ⟨hn.inv.of_rs_prog rfl rfl, hn.ext.trans (spawn_ext _ _), ?_, ?_, ?_⟩
    · exact ⟨rfl, rfl, hn.effOK hi (spawn_ext _ _) (by simp [St.spawn]) rfl⟩
    · intro e he
      simp only [AState.effs, List.mem_singleton] at he
      rw [he, hn.he]; show _ ∧ _ < (newEff st x).2.2.prog.length; rw [hn.prog]; simp
    · exact ⟨hn.zombies, hn.root, hn.rootN, hn.disposed⟩
  | .sty n x, hx => by
    have hs : sigOnly K x = true := by simpa [Attr.exprOk, sigOnly] using hx
    have hr : st.res x = x := st.res_eq (by simp only [Attr.exprOk, Bool.and_eq_true] at hx; exact hx.2)
    have hn := newEff_spec hi hs
    simp only [buildAttr, hr]
    refine ⟨hn.inv.of_rs_prog rfl rfl, hn.ext.trans (spawn_ext _ _), ?_, ?_, ?_⟩
    · exact ⟨rfl, rfl, hn.effOK hi (spawn_ext _ _) (by simp [St.spawn]) rfl⟩
    · intro e he
      simp only [AState.effs, List.mem_singleton] at he
      rw [he, hn.he]; show _ ∧ _ < (newEff st x).2.2.prog.length; rw [hn.prog]; simp
    · exact ⟨hn.zombies, hn.root, hn.rootN, hn.disposed⟩



/-! equation lemmas in projection form -/

theorem buildAttrs_cons (a : Attr) (as : List Attr) (st : St) :
    buildAttrs (a :: as) st =
      ((buildAttr st a).1 :: (buildAttrs as (buildAttr st a).2.1).1,
       (buildAttrs as (buildAttr st a).2.1).2.1,
       (buildAttr st a).2.2 + (buildAttrs as (buildAttr st a).2.1).2.2) := rfl

theorem build_elem (tag : String) (attrs : List Attr) (kid : View) (st : St) :
    build (.elem tag attrs kid) st =
      (.elem ⟨st.alloc.1.id, (buildAttrs attrs st.alloc.2).2.2 +
          (build kid (buildAttrs attrs st.alloc.2).2.1).1.tops⟩ tag (buildAttrs attrs st.alloc.2).1
          (build kid (buildAttrs attrs st.alloc.2).2.1).1,
       (build kid (buildAttrs attrs st.alloc.2).2.1).2) := rfl

theorem build_seq (a b : View) (st : St) :
    build (.seq a b) st = (.seq (build a st).1 (build b (build a st).2).1, (build b (build a st).2).2) := rfl

theorem build_dynText (x : Expr) (st : St) :
    build (.dynText x) st =
      (.dynText (newEff st (st.res x)).1 x (newEff st (st.res x)).2.2.alloc.1 (newEff st (st.res x)).2.1,
       (newEff st (st.res x)).2.2.alloc.2.spawn (newEff st (st.res x)).1) := rfl

theorem build_either (c : Expr) (a b : View) (st : St) :
    build (.either c a b) st =
      (.either (newEff st (st.res c)).1 c a b ((newEff st (st.res c)).2.1 != 0)
          (if (newEff st (st.res c)).2.1 != 0 then build a (newEff st (st.res c)).2.2 else build b (newEff st (st.res c)).2.2).1,
       (if (newEff st (st.res c)).2.1 != 0 then build a (newEff st (st.res c)).2.2 else build b (newEff st (st.res c)).2.2).2.spawn
          (newEff st (st.res c)).1) := by
  simp only [build]

structure BuiltAttrs (K : Nat) (st : St) (as : List Attr) (ss : List AState) (st' : St) : Prop where
  inv : RInv K st'
  ext : Ext K (fun _ => False) st st'
  good : GoodAttrs K st' as ss
  fresh : ∀ e ∈ ss.flatMap AState.effs, st.prog.length ≤ e ∧ e < st'.prog.length
  nodup : (ss.flatMap AState.effs).Nodup
  same : Same st st'

theorem AState.effs_nodup : ∀ (s : AState), s.effs.Nodup
  | .stat _ _ => by simp [AState.effs]
  | .dyn _ _ _ _ => by simp [AState.effs]
  | .cls _ _ _ _ => by simp [AState.effs]
  | .sty _ _ _ _ => by simp [AState.effs]

theorem buildAttrs_spec {K : Nat} : ∀ (as : List Attr) (st : St), RInv K st → as.all (Attr.exprOk K) = true →
    BuiltAttrs K st as (buildAttrs as st).1 (buildAttrs as st).2.1
  | [], st, hi, _ => ⟨hi, Ext.refl _ _ (fun _ hf => hf.elim) _, trivial, by simp [buildAttrs], by simp [buildAttrs], Same.refl _⟩
  | a :: as, st, hi, ha => by
    simp only [List.all_cons, Bool.and_eq_true] at ha
    have h1 := buildAttr_spec hi a ha.1
    have h2 := buildAttrs_spec as (buildAttr st a).2.1 h1.inv ha.2
    rw [buildAttrs_cons]
    dsimp only
    refine ⟨h2.inv, h1.ext.trans h2.ext, ⟨h1.good.ext h1.inv h2.ext (fun _ _ hf => hf), h2.good⟩, ?_, ?_,
      h1.same.trans h2.same⟩
    · intro e he
      simp only [List.flatMap_cons, List.mem_append] at he
      rcases he with he | he
      · have := h1.fresh e he; have := h2.ext.len_le; omega
      · have := h2.fresh e he; have := h1.ext.len_le; omega
    · simp only [List.flatMap_cons]
      refine List.nodup_append.2 ⟨AState.effs_nodup _, h2.nodup, ?_⟩
      intro x hx y hy hxy
      have := h1.fresh x hx; have := h2.fresh y hy; omega

/-- the view contains only the constructors covered by the proof: static structure, dynamic leaves
and `either` -/
def View.core : View → Bool
  | .text _ => true
  | .unit => true
  | .elem _ _ kid => kid.core
  | .seq a b => a.core && b.core
  | .dynText _ => true
  | .either _ a b => a.core && b.core
  | .show _ _ _ => false
  | .forKeyed _ _ => true
  | .scope _ _ _ => false
  | .forRows _ _ _ _ => false
  | .eb _ => false
  | .res _ _ => false

structure Built (K : Nat) (st : St) (v : View) (t : RState) (st' : St) : Prop where
  inv : RInv K st'
  ext : Ext K (fun _ => False) st st'
  good : Good K st' v t
  fresh : ∀ e ∈ effsOf t, st.prog.length ≤ e ∧ e < st'.prog.length
  nodup : (effsOf t).Nodup
  same : Same st st'

theorem alloc_inv {K : Nat} {st : St} (hi : RInv K st) : RInv K st.alloc.2 := hi.of_rs_prog rfl rfl
theorem alloc_ext {K : Nat} (st : St) : Ext K (fun _ => False) st st.alloc.2 :=
  Ext.of_rs_prog _ (fun _ hf => hf.elim) rfl rfl (fun _ h => h)
theorem alloc_same (st : St) : Same st st.alloc.2 := ⟨rfl, rfl, rfl, rfl⟩
theorem spawn_inv {K : Nat} {st : St} (hi : RInv K st) (e : Nat) : RInv K (st.spawn e) := hi.of_rs_prog rfl rfl
theorem spawn_same (st : St) (e : Nat) : Same st (st.spawn e) := ⟨rfl, rfl, rfl, rfl⟩

theorem build_spec {K : Nat} : ∀ (v : View) (st : St), RInv K st → v.wf K = true → v.core = true →
    Built K st v (build v st).1 (build v st).2 := by
  intro v
  induction v with
  | text s =>
    intro st hi _ _
    exact ⟨alloc_inv hi, alloc_ext st, rfl, by simp [build, effsOf], by simp [build, effsOf], alloc_same st⟩
  | unit =>
    intro st hi _ _
    exact ⟨alloc_inv hi, alloc_ext st, trivial, by simp [build, effsOf], by simp [build, effsOf], alloc_same st⟩
  | elem tag attrs kid ih =>
    intro st hi hw hc
    simp only [View.wf, Bool.and_eq_true] at hw
    simp only [View.core] at hc
    have h1 := buildAttrs_spec attrs st.alloc.2 (alloc_inv hi) hw.1.1
    have h2 := ih (buildAttrs attrs st.alloc.2).2.1 h1.inv hw.2 hc
    rw [build_elem]
    dsimp only
    refine ⟨h2.inv, ((alloc_ext st).trans h1.ext).trans h2.ext,
      ⟨rfl, h1.good.ext h1.inv h2.ext (fun _ _ hf => hf), h2.good⟩, ?_, ?_,
      ((alloc_same st).trans h1.same).trans h2.same⟩
    · intro e he
      simp only [effsOf, List.mem_append] at he
      rcases he with he | he
      · have := h1.fresh e he; have := h2.ext.len_le
        have : st.alloc.2.prog.length = st.prog.length := rfl
        omega
      · have := h2.fresh e he; have := h1.ext.len_le
        have : st.alloc.2.prog.length = st.prog.length := rfl
        omega
    · simp only [effsOf]
      refine List.nodup_append.2 ⟨h1.nodup, h2.nodup, ?_⟩
      intro x hx y hy hxy
      have := h1.fresh x hx; have := h2.fresh y hy; omega
  | seq a b iha ihb =>
    intro st hi hw hc
    simp only [View.wf, Bool.and_eq_true] at hw
    simp only [View.core, Bool.and_eq_true] at hc
    have h1 := iha st hi hw.1 hc.1
    have h2 := ihb (build a st).2 h1.inv hw.2 hc.2
    rw [build_seq]
    dsimp only
    refine ⟨h2.inv, h1.ext.trans h2.ext, ⟨Good.ext h1.inv h2.ext _ _ h1.good (fun _ _ hf => hf), h2.good⟩,
      ?_, ?_, h1.same.trans h2.same⟩
    · intro e he
      simp only [effsOf, List.mem_append] at he
      rcases he with he | he
      · have := h1.fresh e he; have := h2.ext.len_le; omega
      · have := h2.fresh e he; have := h1.ext.len_le; omega
    · simp only [effsOf]
      refine List.nodup_append.2 ⟨h1.nodup, h2.nodup, ?_⟩
      intro x hx y hy hxy
      have := h1.fresh x hx; have := h2.fresh y hy; omega
  | dynText x =>
    intro st hi hw _
    have hs : sigOnly K x = true := by simpa [View.wf, sigOnly] using hw
    have hn := newEff_spec hi hs
    rw [build_dynText, st.res_eq (by simp only [View.wf, Bool.and_eq_true] at hw; exact hw.2)]
    dsimp only
    have hx2 : Ext K (fun _ => False) (newEff st x).2.2 ((newEff st x).2.2.alloc.2.spawn (newEff st x).1) :=
      (alloc_ext _).trans (spawn_ext _ _)
    refine ⟨spawn_inv (alloc_inv hn.inv) _, hn.ext.trans hx2,
      ⟨rfl, hn.effOK hi hx2 (by simp [St.spawn]) rfl⟩, ?_, by simp [effsOf],
      ⟨hn.zombies, hn.root, hn.rootN, hn.disposed⟩⟩
    intro e he
    simp only [effsOf, List.mem_singleton] at he
    rw [he, hn.he]
    show _ ∧ _ < (newEff st x).2.2.prog.length
    rw [hn.prog]; simp
  | either c a b iha ihb =>
    intro st hi hw hc
    simp only [View.wf, Bool.and_eq_true] at hw
    simp only [View.core, Bool.and_eq_true] at hc
    have hs : sigOnly K c = true := by simp [sigOnly, hw.1.1.1.1, hw.1.1.1.2, hw.1.1.2]
    have hn := newEff_spec hi hs
    rw [build_either, st.res_eq hw.1.1.2]
    dsimp only
    by_cases hv : ((newEff st c).2.1 != 0) = true
    · simp only [hv, if_true]
      have h2 := iha (newEff st c).2.2 hn.inv hw.1.2 hc.1
      have hx2 : Ext K (fun _ => False) (newEff st c).2.2 ((build a (newEff st c).2.2).2.spawn (newEff st c).1) :=
        h2.ext.trans (spawn_ext _ _)
      refine ⟨spawn_inv h2.inv _, hn.ext.trans hx2, ?_, ?_, ?_,
        (Same.mk hn.zombies hn.root hn.rootN hn.disposed).trans (h2.same.trans (spawn_same _ _))⟩
      · refine ⟨rfl, rfl, rfl, hn.effOK hi hx2 (by simp [St.spawn]) (by simp [hv]), ?_, ?_⟩
        · intro _; exact Good.ext h2.inv (spawn_ext _ _) _ _ h2.good (fun _ _ hf => hf)
        · intro hf; simp at hf
      · intro e he
        simp only [effsOf, List.mem_cons] at he
        have hl1 : (newEff st c).2.2.prog.length = st.prog.length + 1 := by rw [hn.prog]; simp
        show st.prog.length ≤ e ∧ e < (build a (newEff st c).2.2).2.prog.length
        have := h2.ext.len_le
        rcases he with he | he
        · have : e = st.prog.length := he.trans hn.he
          omega
        · have := h2.fresh e he; omega
      · simp only [effsOf]
        refine List.nodup_cons.2 ⟨?_, h2.nodup⟩
        intro hm
        have := h2.fresh _ hm
        rw [hn.he] at this
        have hl1 : (newEff st c).2.2.prog.length = st.prog.length + 1 := by rw [hn.prog]; simp
        omega
    · simp only [hv, Bool.false_eq_true, if_false]
      have h2 := ihb (newEff st c).2.2 hn.inv hw.2 hc.2
      have hx2 : Ext K (fun _ => False) (newEff st c).2.2 ((build b (newEff st c).2.2).2.spawn (newEff st c).1) :=
        h2.ext.trans (spawn_ext _ _)
      refine ⟨spawn_inv h2.inv _, hn.ext.trans hx2, ?_, ?_, ?_,
        (Same.mk hn.zombies hn.root hn.rootN hn.disposed).trans (h2.same.trans (spawn_same _ _))⟩
      · refine ⟨rfl, rfl, rfl, hn.effOK hi hx2 (by simp [St.spawn]) (by simp [hv]), ?_, ?_⟩
        · intro hf; simp at hf
        · intro _; exact Good.ext h2.inv (spawn_ext _ _) _ _ h2.good (fun _ _ hf => hf)
      · intro e he
        simp only [effsOf, List.mem_cons] at he
        have hl1 : (newEff st c).2.2.prog.length = st.prog.length + 1 := by rw [hn.prog]; simp
        show st.prog.length ≤ e ∧ e < (build b (newEff st c).2.2).2.prog.length
        have := h2.ext.len_le
        rcases he with he | he
        · have : e = st.prog.length := he.trans hn.he
          omega
        · have := h2.fresh e he; omega
      · simp only [effsOf]
        refine List.nodup_cons.2 ⟨?_, h2.nodup⟩
        intro hm
        have := h2.fresh _ hm
        rw [hn.he] at this
        have hl1 : (newEff st c).2.2.prog.length = st.prog.length + 1 := by rw [hn.prog]; simp
        omega
  | «show» c a b _ _ => intro st _ _ hc; simp [View.core] at hc
  | scope sid d kid _ => intro st _ _ hc; simp [View.core] at hc
  | forRows en sel lists row _ => intro st _ _ hc; simp [View.core] at hc
  | eb kid _ => intro st _ _ hc; simp [View.core] at hc
  | res c x => intro st _ _ hc; simp [View.core] at hc
  | forKeyed sel lists =>
    intro st hi hw _
    obtain ⟨hsel, hl⟩ := wf_forKeyed hw
    have hs : sigOnly K sel = true := by simp [sigOnly, hsel.1, hsel.2.1, hsel.2.2]
    have hn := newEff_spec hi hs
    rw [build_forKeyed, st.res_eq hsel.2.2]
    dsimp only
    obtain ⟨n, hbn⟩ := buildFor_st (newEff st sel).2.2 (listAt lists (newEff st sel).2.1)
    have hx2 : Ext K (fun _ => False) (newEff st sel).2.2
        ((buildFor (newEff st sel).2.2 (listAt lists (newEff st sel).2.1)).2.2.spawn (newEff st sel).1) := by
      rw [hbn]
      have h1 : Ext K (fun _ => False) (newEff st sel).2.2 { (newEff st sel).2.2 with next := n } :=
        Ext.of_rs_prog _ (fun _ hf => hf.elim) rfl rfl (fun _ h => h)
      exact h1.trans (spawn_ext _ _)
    refine ⟨?_, hn.ext.trans hx2,
      ⟨rfl, rfl, hn.effOK hi hx2 (by simp [St.spawn]) (buildFor_hashed _ _),
        buildFor_kok _ (listAt_nodup hl _)⟩, ?_, by simp [effsOf], ?_⟩
    · rw [hbn]
      have h1 : RInv K { (newEff st sel).2.2 with next := n } := hn.inv.of_rs_prog rfl rfl
      exact spawn_inv h1 _
    · intro e he
      simp only [effsOf, List.mem_singleton] at he
      rw [he, hn.he, hbn]
      show _ ∧ _ < (newEff st sel).2.2.prog.length
      rw [hn.prog]; simp
    · rw [hbn]; exact ⟨hn.zombies, hn.root, hn.rootN, hn.disposed⟩


/-! ## writing a signal -/

theorem setSig_get {K : Nat} {st : St} (hi : RInv K st) {id : Nat} (hid : id < K) (v : Int) :
    (setSig st id v).rs.nodes.length = st.rs.nodes.length ∧ (setSig st id v).rs.obs = st.rs.obs ∧
    ∀ i, (setSig st id v).rs.get i =
      if i = id then { st.rs.get id with val := some v, ver := (st.rs.get id).ver + 1 }
      else if i ∈ (st.rs.get id).subs then wake (st.rs.get i) else st.rs.get i := by
  obtain ⟨w, hw⟩ := hi.sigp id hid
  have : (setSig st id v).rs = setSignal (fuelFor st.prog) st.rs id v := by
    simp only [setSig, Reactive.step, hw]
  rw [this]
  refine setSignal_eff _ _ _ _ (by rw [← hi.len]; have := hi.kle; omega) ?_
  intro x hx
  have := hi.subs id hid x hx
  exact ⟨hi.effk x this.1 this.2, by rw [← hi.len]; exact this.2, by omega⟩

theorem setSig_noop {K : Nat} {st : St} (hi : RInv K st) {id : Nat} (hid : K ≤ id) (v : Int) :
    (setSig st id v).rs = st.rs := by
  simp only [setSig, Reactive.step]
  rcases Nat.lt_or_ge id st.prog.length with hlt | hge
  · obtain ⟨x, hx, _⟩ := hi.effp id hid hlt
    simp [hx]
  · rw [List.getElem?_eq_none hge]

theorem setSig_inv {K : Nat} {st : St} (hi : RInv K st) (id : Nat) (v : Int) : RInv K (setSig st id v) := by
  rcases Nat.lt_or_ge id K with hid | hid
  · have g := setSig_get hi hid v
    have hkind : ∀ i, ((setSig st id v).rs.get i).kind = (st.rs.get i).kind := by
      intro i; rw [g.2.2 i]; split
      · next h => subst h; rfl
      · split
        · exact wake_kind _
        · rfl
    have hsrc : ∀ i, ((setSig st id v).rs.get i).sources = (st.rs.get i).sources := by
      intro i; rw [g.2.2 i]; split
      · next h => subst h; rfl
      · split
        · exact wake_sources _
        · rfl
    have hsub : ∀ i, ((setSig st id v).rs.get i).subs = (st.rs.get i).subs := by
      intro i; rw [g.2.2 i]; split
      · next h => subst h; rfl
      · split
        · exact wake_subs _
        · rfl
    refine ⟨?_, ?_, hi.kle, ?_, hi.sigp, hi.effp, ?_, ?_, ?_, ?_, ?_, ?_⟩
    · show st.prog.length = _; rw [g.1]; exact hi.len
    · rw [g.2.1]; exact hi.obs
    · intro i h; rw [hkind]; exact hi.sigs i h
    · intro i h1 h2; rw [hkind]; exact hi.effk i h1 h2
    · intro i h1 x hx; rw [hsrc] at hx; exact hi.srcs i h1 x hx
    · intro i h1 x hx; rw [hsub] at hx; exact hi.subs i h1 x hx
    · intro i h1; rw [hsub]; exact hi.esubs i h1
    · intro i; rw [hsub]; exact hi.nd i
    · intro i y hy; rw [hsub] at hy; rw [hsrc]; exact hi.exact i y hy
  · exact hi.of_rs_prog rfl (setSig_noop hi hid v)

theorem EffOK.after_set {K : Nat} {st : St} {e : Nat} {x : Expr} {cur : Int → Prop}
    (h : EffOK K st e x cur) (hi : RInv K st) (id : Nat) (v : Int) : EffOK K (setSig st id v) e x cur := by
  rcases Nat.lt_or_ge id K with hid | hid
  · have g := setSig_get hi hid v
    have hne : e ≠ id := by have := h.ke; omega
    have hs := h.sigOnly hi
    simp only [RView.sigOnly, Bool.and_eq_true] at hs
    have ge : (setSig st id v).rs.get e =
        if e ∈ (st.rs.get id).subs then wake (st.rs.get e) else st.rs.get e := by
      rw [g.2.2 e]; simp [hne]
    by_cases hm : e ∈ (st.rs.get id).subs
    · -- woken: pending
      have ge' : (setSig st id v).rs.get e = wake (st.rs.get e) := by rw [ge]; simp [hm]
      refine ⟨h.ke, h.lt, h.prog, by rw [ge', wake_alive]; exact h.alive,
        by rw [ge', wake_done]; exact h.done, h.task, Or.inl ?_⟩
      simp only [pending, ge', wake, h.alive, if_true, and_self]
    · have ge' : (setSig st id v).rs.get e = st.rs.get e := by rw [ge]; simp [hm]
      refine ⟨h.ke, h.lt, h.prog, by rw [ge']; exact h.alive, by rw [ge']; exact h.done, h.task, ?_⟩
      rcases h.ok with hp | hc
      · left; simp only [pending, ge']; exact hp
      · right
        -- `id` is not read by `x` under the old environment
        have hnr : id ∉ readsU (Reactive.envOf st.rs) x := fun hr => hm (hc.2.2 id hr)
        have hag : ∀ i ∈ readsU (Reactive.envOf st.rs) x,
            Reactive.envOf st.rs i = Reactive.envOf (setSig st id v).rs i := by
          intro i hr
          have hii : i ≠ id := fun hh => hnr (hh ▸ hr)
          simp only [Reactive.envOf]
          rw [g.2.2 i]; simp only [hii, if_false]
          split
          · rw [wake_val]
          · rfl
        have hd := reads_determine x hs.1.2 hag
        refine ⟨by rw [ge']; exact hc.1, by rw [← hd.1]; exact hc.2.1, ?_⟩
        intro i hr
        rw [← hd.2] at hr
        have hii : i ≠ id := fun hh => hnr (hh ▸ hr)
        have : ((setSig st id v).rs.get i).subs = (st.rs.get i).subs := by
          rw [g.2.2 i]; simp only [hii, if_false]
          split
          · exact wake_subs _
          · rfl
        rw [this]; exact hc.2.2 i hr
  · have hr := setSig_noop hi hid v
    refine ⟨h.ke, h.lt, h.prog, by rw [hr]; exact h.alive, by rw [hr]; exact h.done, h.task, ?_⟩
    simp only [pending, hr]
    exact h.ok


/-! ## transporting `Good` along a change of state that keeps every effect of the tree OK -/

theorem GoodAttr.map {K : Nat} {st st' : St} :
    ∀ {a : Attr} {s : AState}, GoodAttr K st a s →
      (∀ e x cur, e ∈ s.effs → EffOK K st e x cur → EffOK K st' e x cur) → GoodAttr K st' a s
  | .stat _ _, .stat _ _, h, _ => h
  | .dyn _ _, .dyn e _ _ _, h, hm => ⟨h.1, h.2.1, hm e _ _ (by simp [AState.effs]) h.2.2⟩
  | .cls _ _, .cls e _ _ _, h, hm => ⟨h.1, h.2.1, hm e _ _ (by simp [AState.effs]) h.2.2⟩
  | .sty _ _, .sty e _ _ _, h, hm => ⟨h.1, h.2.1, hm e _ _ (by simp [AState.effs]) h.2.2⟩
  | .stat _ _, .dyn _ _ _ _, h, _ => h.elim
  | .stat _ _, .cls _ _ _ _, h, _ => h.elim
  | .stat _ _, .sty _ _ _ _, h, _ => h.elim
  | .dyn _ _, .stat _ _, h, _ => h.elim
  | .dyn _ _, .cls _ _ _ _, h, _ => h.elim
  | .dyn _ _, .sty _ _ _ _, h, _ => h.elim
  | .cls _ _, .stat _ _, h, _ => h.elim
  | .cls _ _, .dyn _ _ _ _, h, _ => h.elim
  | .cls _ _, .sty _ _ _ _, h, _ => h.elim
  | .sty _ _, .stat _ _, h, _ => h.elim
  | .sty _ _, .dyn _ _ _ _, h, _ => h.elim
  | .sty _ _, .cls _ _ _ _, h, _ => h.elim

theorem GoodAttrs.map {K : Nat} {st st' : St} :
    ∀ {as : List Attr} {ss : List AState}, GoodAttrs K st as ss →
      (∀ e x cur, e ∈ ss.flatMap AState.effs → EffOK K st e x cur → EffOK K st' e x cur) →
      GoodAttrs K st' as ss
  | [], [], _, _ => trivial
  | _ :: _, s :: ss, h, hm =>
    ⟨h.1.map (fun e x cur he => hm e x cur (by simp [he])),
     GoodAttrs.map h.2 (fun e x cur he => hm e x cur (by
       simp only [List.flatMap_cons, List.mem_append]; exact Or.inr he))⟩
  | [], _ :: _, h, _ => h.elim
  | _ :: _, [], h, _ => h.elim

theorem Good.map {K : Nat} {st st' : St} :
    ∀ (v : View) (t : RState), Good K st v t →
      (∀ e x cur, e ∈ effsOf t → EffOK K st e x cur → EffOK K st' e x cur) → Good K st' v t := by
  intro v
  induction v with
  | text s => intro t h _; cases t <;> simp only [Good] at h ⊢ <;> exact h
  | unit => intro t h _; cases t <;> simp only [Good] at h ⊢
  | elem tag attrs kid ih =>
    intro t h hm
    cases t <;> simp only [Good] at h ⊢
    next n tag' as k =>
      exact ⟨h.1, h.2.1.map (fun e x cur he => hm e x cur (by simp [effsOf, he])),
        ih k h.2.2 (fun e x cur he => hm e x cur (by simp [effsOf, he]))⟩
  | seq a b iha ihb =>
    intro t h hm
    cases t <;> simp only [Good] at h ⊢
    next sa sb =>
      exact ⟨iha sa h.1 (fun e x cur he => hm e x cur (by simp [effsOf, he])),
        ihb sb h.2 (fun e x cur he => hm e x cur (by simp [effsOf, he]))⟩
  | dynText x =>
    intro t h hm
    cases t <;> simp only [Good] at h ⊢
    next e x' n last => exact ⟨h.1, hm e _ _ (by simp [effsOf]) h.2⟩
  | either c a b iha ihb =>
    intro t h hm
    cases t <;> simp only [Good] at h ⊢
    next e c' a' b' left inner =>
      refine ⟨h.1, h.2.1, h.2.2.1, hm e _ _ (by simp [effsOf]) h.2.2.2.1, ?_, ?_⟩
      · intro hl; exact iha inner (h.2.2.2.2.1 hl) (fun e x cur he => hm e x cur (by simp [effsOf, he]))
      · intro hl; exact ihb inner (h.2.2.2.2.2 hl) (fun e x cur he => hm e x cur (by simp [effsOf, he]))
  | «show» c a b _ _ => intro t h _; cases t <;> simp only [Good] at h
  | scope sid d kid _ => intro t h _; cases t <;> simp only [Good] at h
  | forRows en sel lists row _ => intro t h _; cases t <;> simp only [Good] at h
  | eb kid _ => intro t h _; cases t <;> simp only [Good] at h
  | res c x => intro t h _; cases t <;> simp only [Good] at h
  | forKeyed sel lists =>
    intro t h hm
    cases t <;> simp only [Good] at h ⊢
    next e sel' lists' ks texts => exact ⟨h.1, h.2.1, hm e _ _ (by simp [effsOf]) h.2.2.1, h.2.2.2⟩

theorem Good.after_set {K : Nat} {st : St} (hi : RInv K st) (v : View) (t : RState) (h : Good K st v t)
    (id : Nat) (w : Int) : Good K (setSig st id w) v t :=
  Good.map v t h (fun _ _ _ _ he => he.after_set hi id w)

/-- every effect of a good tree has its `EffOK` -/
theorem GoodAttr.effOK {K : Nat} {st : St} : ∀ {a : Attr} {s : AState}, GoodAttr K st a s →
    ∀ e ∈ s.effs, ∃ x cur, EffOK K st e x cur
  | .stat _ _, .stat _ _, _, e, he => by simp [AState.effs] at he
  | .dyn _ x, .dyn e' _ _ _, h, e, he => by
    simp only [AState.effs, List.mem_singleton] at he; subst he; exact ⟨x, _, h.2.2⟩
  | .cls _ x, .cls e' _ _ _, h, e, he => by
    simp only [AState.effs, List.mem_singleton] at he; subst he; exact ⟨x, _, h.2.2⟩
  | .sty _ x, .sty e' _ _ _, h, e, he => by
    simp only [AState.effs, List.mem_singleton] at he; subst he; exact ⟨x, _, h.2.2⟩
  | .stat _ _, .dyn _ _ _ _, h, _, _ => h.elim
  | .stat _ _, .cls _ _ _ _, h, _, _ => h.elim
  | .stat _ _, .sty _ _ _ _, h, _, _ => h.elim
  | .dyn _ _, .stat _ _, h, _, _ => h.elim
  | .dyn _ _, .cls _ _ _ _, h, _, _ => h.elim
  | .dyn _ _, .sty _ _ _ _, h, _, _ => h.elim
  | .cls _ _, .stat _ _, h, _, _ => h.elim
  | .cls _ _, .dyn _ _ _ _, h, _, _ => h.elim
  | .cls _ _, .sty _ _ _ _, h, _, _ => h.elim
  | .sty _ _, .stat _ _, h, _, _ => h.elim
  | .sty _ _, .dyn _ _ _ _, h, _, _ => h.elim
  | .sty _ _, .cls _ _ _ _, h, _, _ => h.elim

theorem GoodAttrs.effOK {K : Nat} {st : St} : ∀ {as : List Attr} {ss : List AState}, GoodAttrs K st as ss →
    ∀ e ∈ ss.flatMap AState.effs, ∃ x cur, EffOK K st e x cur
  | [], [], _, e, he => by simp at he
  | _ :: _, s :: ss, h, e, he => by
    simp only [List.flatMap_cons, List.mem_append] at he
    rcases he with he | he
    · exact h.1.effOK e he
    · exact GoodAttrs.effOK h.2 e he
  | [], _ :: _, h, _, _ => h.elim
  | _ :: _, [], h, _, _ => h.elim

theorem Good.effOK {K : Nat} {st : St} :
    ∀ (v : View) (t : RState), Good K st v t → ∀ e ∈ effsOf t, ∃ x cur, EffOK K st e x cur := by
  intro v
  induction v with
  | text s => intro t h e he; cases t <;> simp only [Good] at h; simp [effsOf] at he
  | unit => intro t h e he; cases t <;> simp only [Good] at h; simp [effsOf] at he
  | elem tag attrs kid ih =>
    intro t h e he
    cases t <;> simp only [Good] at h
    next n tag' as k =>
      simp only [effsOf, List.mem_append] at he
      rcases he with he | he
      · exact h.2.1.effOK e he
      · exact ih k h.2.2 e he
  | seq a b iha ihb =>
    intro t h e he
    cases t <;> simp only [Good] at h
    next sa sb =>
      simp only [effsOf, List.mem_append] at he
      rcases he with he | he
      · exact iha sa h.1 e he
      · exact ihb sb h.2 e he
  | dynText x =>
    intro t h e he
    cases t <;> simp only [Good] at h
    next e' x' n last =>
      simp only [effsOf, List.mem_singleton] at he; subst he; exact ⟨x, _, h.2⟩
  | either c a b iha ihb =>
    intro t h e he
    cases t <;> simp only [Good] at h
    next e' c' a' b' left inner =>
      simp only [effsOf, List.mem_cons] at he
      rcases he with he | he
      · subst he; exact ⟨c, _, h.2.2.2.1⟩
      · cases hl : left with
        | true => exact iha inner (h.2.2.2.2.1 hl) e he
        | false => exact ihb inner (h.2.2.2.2.2 hl) e he
  | «show» c a b _ _ => intro t h _ _; cases t <;> simp only [Good] at h
  | scope sid d kid _ => intro t h _ _; cases t <;> simp only [Good] at h
  | forRows en sel lists row _ => intro t h _ _; cases t <;> simp only [Good] at h
  | eb kid _ => intro t h _ _; cases t <;> simp only [Good] at h
  | res c x => intro t h _ _; cases t <;> simp only [Good] at h
  | forKeyed sel lists =>
    intro t h e he
    cases t <;> simp only [Good] at h
    next e' sel' lists' ks texts =>
      simp only [effsOf, List.mem_singleton] at he; subst he; exact ⟨sel, _, h.2.2.1⟩

end Leptos.RView
