import LeptosModel.Proofs.RViewReactive
/-!
# Proofs/RViewInv — the invariant of mounted reactive views whose dynamic parts read signals only
-/
namespace Leptos.RView
open Leptos.Reactive

/-! ## appended nodes -/

theorem get_append_lt (s : State) (n : Node) {i : Nat} (h : i < s.nodes.length) :
    ({ s with nodes := s.nodes ++ [n] } : State).get i = s.get i := by
  simp only [State.get, List.getElem?_append_left h]

theorem get_append_len (s : State) (n : Node) :
    ({ s with nodes := s.nodes ++ [n] } : State).get s.nodes.length = n := by
  simp [State.get]

theorem get_append_ge (s : State) (n : Node) {i : Nat} (h : s.nodes.length < i) :
    ({ s with nodes := s.nodes ++ [n] } : State).get i = {} := by
  simp only [State.get]
  rw [List.getElem?_eq_none (by simp; omega)]
  rfl

/-! ## the invariant of the reactive state -/

def sigOnly (K : Nat) (x : Expr) : Bool := x.readsBelow K && x.noWrite && x.noUntracked

/-- `K` signals first, then render effects whose bodies read signals only -/
structure RInv (K : Nat) (st : St) : Prop where
  len : st.prog.length = st.rs.nodes.length
  obs : st.rs.obs = none
  kle : K ≤ st.prog.length
  sigs : ∀ i, i < K → (st.rs.get i).kind = .sig
  sigp : ∀ i, i < K → ∃ v, st.prog[i]? = some (.sig v)
  effp : ∀ i, K ≤ i → i < st.prog.length → ∃ x, st.prog[i]? = some (.eff x) ∧ sigOnly K x = true
  effk : ∀ i, K ≤ i → i < st.prog.length → (st.rs.get i).kind = .eff
  srcs : ∀ i, K ≤ i → ∀ x ∈ (st.rs.get i).sources, x < K
  subs : ∀ i, i < K → ∀ x ∈ (st.rs.get i).subs, K ≤ x ∧ x < st.prog.length

/-- the from-scratch environment restricted to signals is the stored values -/
theorem RInv.env_sig {K : Nat} {st : St} (h : RInv K st) {i : Nat} (hi : i < K) :
    st.env i = Reactive.envOf st.rs i := by
  obtain ⟨v, hv⟩ := h.sigp i hi
  simp only [St.env, specVal, fuelFor, scratch, hv]

theorem evalPure_env {K : Nat} {st : St} (h : RInv K st) {x : Expr} (hx : x.readsBelow K = true) :
    evalPure st.env x = evalPure (Reactive.envOf st.rs) x :=
  evalPure_congr (fun _ hj => h.env_sig hj) x hx

/-- `st'` extends `st`: new nodes were appended; of the old nodes only those in `A` (effects) may
have changed their control part or their subscriptions -/
structure Ext (K : Nat) (A : Nat → Prop) (st st' : St) : Prop where
  pre : ∃ ext, st'.prog = st.prog ++ ext
  aeff : ∀ i, A i → K ≤ i
  ctl : ∀ i, i < st.prog.length → ¬ A i → ctl (st'.rs.get i) = ctl (st.rs.get i)
  subs : ∀ i x, x < st.prog.length → ¬ A x → (x ∈ (st'.rs.get i).subs ↔ x ∈ (st.rs.get i).subs)
  tasks : ∀ e, e ∈ st.tasks → e ∈ st'.tasks

theorem Ext.refl (K : Nat) (A : Nat → Prop) (hA : ∀ i, A i → K ≤ i) (st : St) : Ext K A st st :=
  ⟨⟨[], by simp⟩, hA, fun _ _ _ => rfl, fun _ _ _ _ => Iff.rfl, fun _ h => h⟩

theorem Ext.len_le {K : Nat} {A : Nat → Prop} {st st' : St} (h : Ext K A st st') :
    st.prog.length ≤ st'.prog.length := by
  obtain ⟨ext, he⟩ := h.pre; rw [he]; simp

theorem Ext.trans {K : Nat} {A : Nat → Prop} {a b c : St} (h1 : Ext K A a b) (h2 : Ext K A b c) :
    Ext K A a c where
  pre := by
    obtain ⟨e1, h1'⟩ := h1.pre; obtain ⟨e2, h2'⟩ := h2.pre
    exact ⟨e1 ++ e2, by rw [h2', h1']; simp⟩
  aeff := h1.aeff
  ctl i hi ha := (h2.ctl i (by have := h1.len_le; omega) ha).trans (h1.ctl i hi ha)
  subs i x hx ha := (h2.subs i x (by have := h1.len_le; omega) ha).trans (h1.subs i x hx ha)
  tasks e he := h2.tasks e (h1.tasks e he)

theorem Ext.prog_get {K : Nat} {A : Nat → Prop} {st st' : St} (h : Ext K A st st') {i : Nat}
    (hi : i < st.prog.length) : st'.prog[i]? = st.prog[i]? := by
  obtain ⟨ext, he⟩ := h.pre
  rw [he, List.getElem?_append_left hi]

theorem Ext.envOf_sig {K : Nat} {A : Nat → Prop} {st st' : St} (h : Ext K A st st')
    (hk : K ≤ st.prog.length) {i : Nat} (hi : i < K) :
    Reactive.envOf st'.rs i = Reactive.envOf st.rs i := by
  have := h.ctl i (by omega) (fun ha => by have := h.aeff i ha; omega)
  simp only [RView.ctl, Prod.mk.injEq] at this
  simp only [Reactive.envOf, this.2.1]

/-- weaken the acting set -/
theorem Ext.mono {K : Nat} {A B : Nat → Prop} {st st' : St} (h : Ext K A st st')
    (hAB : ∀ i, A i → B i) (hB : ∀ i, B i → K ≤ i) : Ext K B st st' :=
  ⟨h.pre, hB, fun i hi hb => h.ctl i hi (fun ha => hb (hAB i ha)),
   fun i x hx hb => h.subs i x hx (fun ha => hb (hAB x ha)), h.tasks⟩


/-! ## creating a render effect -/

structure NewEff (K : Nat) (st : St) (x : Expr) (e : Nat) (v : Int) (st' : St) : Prop where
  he : e = st.prog.length
  hv : v = evalPure (Reactive.envOf st.rs) x
  inv : RInv K st'
  prog : st'.prog = st.prog ++ [.eff x]
  ext : Ext K (fun _ => False) st st'
  node : ctl (st'.rs.get e) = (.eff, some v, .dirty, false, false, true, false, false, true, false)
  subd : ∀ i ∈ readsU (Reactive.envOf st.rs) x, e ∈ (st'.rs.get i).subs
  next : st'.next = st.next
  tasks : st'.tasks = st.tasks
  zombies : st'.zombies = st.zombies
  root : st'.root = st.root
  rootN : st'.rootN = st.rootN
  disposed : st'.disposed = st.disposed

theorem newEff_spec {K : Nat} {st : St} (h : RInv K st) {x : Expr} (hx : sigOnly K x = true) :
    NewEff K st x (newEff st x).1 (newEff st x).2.1 (newEff st x).2.2 := by
  simp only [sigOnly, Bool.and_eq_true] at hx
  obtain ⟨⟨hb, hw⟩, ht⟩ := hx
  -- name the intermediate states
  have he : (newEff st x).1 = st.prog.length := rfl
  generalize hs0 : ({ st.rs with nodes := st.rs.nodes ++ [initNode (.eff x)] } : State) = s0
  generalize hs1 : (s0.upd st.prog.length fun n =>
      { n with dirty := false, chan := false, woken := true, first := false }) = s1
  have hrs : (newEff st x).2.2.rs =
      runEffBody (st.prog ++ [.eff x]) (fuelFor (st.prog ++ [.eff x])) s1 st.prog.length := by
    rw [← hs1, ← hs0]; rfl
  have hval : (newEff st x).2.1 = (((newEff st x).2.2.rs).get st.prog.length).val.getD 0 := rfl
  have hprog : (newEff st x).2.2.prog = st.prog ++ [.eff x] := rfl
  have hl0 : s0.nodes.length = st.rs.nodes.length + 1 := by rw [← hs0]; simp
  have hl1 : s1.nodes.length = st.rs.nodes.length + 1 := by rw [← hs1]; simp [hl0]
  have hlen := h.len
  have g0lt : ∀ i, i < st.prog.length → s0.get i = st.rs.get i := by
    intro i hi; rw [← hs0]; exact get_append_lt _ _ (by omega)
  have g1lt : ∀ i, i < st.prog.length → s1.get i = st.rs.get i := by
    intro i hi; rw [← hs1, State.get_upd_ne _ _ (by omega)]; exact g0lt i hi
  have g1gt : ∀ i, st.prog.length < i → s1.get i = {} := by
    intro i hi; rw [← hs1, State.get_upd_ne _ _ (by omega), ← hs0]; exact get_append_ge _ _ (by omega)
  have g1e : s1.get st.prog.length =
      { (initNode (.eff x)) with dirty := false, chan := false, woken := true, first := false } := by
    rw [← hs1, State.get_upd_same _ _ (by omega), ← hs0, hlen]
    rw [get_append_len]
  have henv1 : ∀ i, i < K → Reactive.envOf s1 i = Reactive.envOf st.rs i := by
    intro i hi; simp only [Reactive.envOf]; rw [g1lt i (by have := h.kle; omega)]
  have hbody : bodyOf (st.prog ++ [.eff x]) st.prog.length = x := by
    simp [bodyOf]
  have run := runEffBody_sig (p := st.prog ++ [.eff x]) (f := fuelFor (st.prog ++ [.eff x]))
    (K := K) (e := st.prog.length) (x := x) (s := s1) h.kle (by omega)
    (fun i hi => by rw [g1lt i (by have := h.kle; omega)]; exact h.sigs i hi) hbody hb hw ht
  rw [← hrs] at run
  have hev : evalPure (Reactive.envOf s1) x = evalPure (Reactive.envOf st.rs) x :=
    evalPure_congr (fun j hj => henv1 j hj) x hb
  have hrd : readsU (Reactive.envOf s1) x = readsU (Reactive.envOf st.rs) x :=
    (reads_determine x hw (fun i hi => henv1 i (readsU_below x hb i hi))).2
  have hctle := run.ctl_e
  rw [g1e, hev] at hctle
  have hv : (newEff st x).2.1 = evalPure (Reactive.envOf st.rs) x := by
    rw [hval]
    simp only [RView.ctl, Prod.mk.injEq] at hctle
    rw [hctle.2.1]; rfl
  have hlen' : (newEff st x).2.2.rs.nodes.length = st.rs.nodes.length + 1 := by
    rw [run.acts.len]; exact hl1
  refine ⟨he, hv, ?_, hprog, ?_, ?_, ?_, rfl, rfl, rfl, rfl, rfl, rfl⟩
  · -- RInv
    refine ⟨by rw [hprog, hlen']; simp [hlen], ?_, by rw [hprog]; simp; have := h.kle; omega, ?_, ?_, ?_, ?_, ?_, ?_⟩
    · rw [run.acts.obs, ← hs1]; show s0.obs = none; rw [← hs0]; exact h.obs
    · intro i hi
      have hne : i ≠ st.prog.length := by have := h.kle; omega
      have := run.acts.ctl i hne
      simp only [RView.ctl, Prod.mk.injEq] at this
      rw [this.1, g1lt i (by have := h.kle; omega)]; exact h.sigs i hi
    · intro i hi
      obtain ⟨v, hv⟩ := h.sigp i hi
      exact ⟨v, by rw [hprog, List.getElem?_append_left (by have := h.kle; omega)]; exact hv⟩
    · intro i hki hi
      rw [hprog] at hi ⊢
      simp only [List.length_append, List.length_singleton] at hi
      by_cases hie : i = st.prog.length
      · subst hie
        exact ⟨x, by simp, by simp [sigOnly, hb, hw, ht]⟩
      · have hlt : i < st.prog.length := by omega
        obtain ⟨y, hy⟩ := h.effp i hki hlt
        exact ⟨y, by rw [List.getElem?_append_left hlt]; exact hy.1, hy.2⟩
    · intro i hki hi
      rw [hprog] at hi
      simp only [List.length_append, List.length_singleton] at hi
      by_cases hie : i = st.prog.length
      · subst hie
        have := hctle; simp only [RView.ctl, Prod.mk.injEq] at this
        rw [this.1]; rfl
      · have hlt : i < st.prog.length := by omega
        have := run.acts.ctl i hie
        simp only [RView.ctl, Prod.mk.injEq] at this
        rw [this.1, g1lt i hlt]; exact h.effk i hki hlt
    · intro i hki y hy
      by_cases hie : i = st.prog.length
      · subst hie
        rw [run.srcs_e] at hy
        exact readsU_below x hb y hy
      · rw [run.acts.srcs i hie] at hy
        rcases Nat.lt_or_ge i st.prog.length with hlt | hge
        · rw [g1lt i hlt] at hy; exact h.srcs i hki y hy
        · rw [g1gt i (by omega)] at hy; simp at hy
    · intro i hi y hy
      rw [hprog]; simp only [List.length_append, List.length_singleton]
      by_cases hye : y = st.prog.length
      · subst hye; exact ⟨h.kle, by omega⟩
      · rw [run.acts.subs i y hye, g1lt i (by have := h.kle; omega)] at hy
        have := h.subs i hi y hy
        exact ⟨this.1, by omega⟩
  · -- Ext
    refine ⟨⟨[.eff x], hprog⟩, fun _ hf => hf.elim, ?_, ?_, fun _ ht => ht⟩
    · intro i hi _
      rw [run.acts.ctl i (by omega), g1lt i hi]
    · intro i y hy _
      rw [run.acts.subs i y (by omega)]
      rcases Nat.lt_or_ge i st.prog.length with hlt | hge
      · rw [g1lt i hlt]
      · rcases Nat.lt_or_ge st.prog.length i with hgt | hle
        · rw [g1gt i hgt, State.get_default st.rs (by omega)]
        · have : i = st.prog.length := by omega
          subst this
          rw [g1e, State.get_default st.rs (by omega)]; rfl
  · rw [hv]; exact hctle
  · intro i hi
    exact run.subd i (by rw [hrd]; exact hi)


/-! ## mounted effects are pending or current -/

/-- the effect is marked dirty, notified, and its task is woken -/
def pending (st : St) (e : Nat) : Prop :=
  (st.rs.get e).dirty = true ∧ (st.rs.get e).chan = true ∧ (st.rs.get e).woken = true

/-- a live render effect of the mounted view with body `x`: either it is pending, or what it last
rendered (`cur`) is the current value of its body and it is subscribed to everything the body reads -/
structure EffOK (K : Nat) (st : St) (e : Nat) (x : Expr) (cur : Int → Prop) : Prop where
  ke : K ≤ e
  lt : e < st.prog.length
  prog : st.prog[e]? = some (.eff x)
  alive : (st.rs.get e).alive = true
  done : (st.rs.get e).done = false
  task : e ∈ st.tasks
  ok : pending st e ∨ ((st.rs.get e).dirty = false ∧ cur (evalPure (Reactive.envOf st.rs) x) ∧
        ∀ i ∈ readsU (Reactive.envOf st.rs) x, e ∈ (st.rs.get i).subs)

theorem EffOK.sigOnly {K : Nat} {st : St} {e : Nat} {x : Expr} {cur : Int → Prop}
    (h : EffOK K st e x cur) (hi : RInv K st) : sigOnly K x = true := by
  obtain ⟨y, hy, hs⟩ := hi.effp e h.ke h.lt
  rw [h.prog] at hy
  cases hy
  exact hs

theorem envOf_ext_expr {K : Nat} {A : Nat → Prop} {st st' : St} (hx : Ext K A st st') (hi : RInv K st)
    {x : Expr} (hs : sigOnly K x = true) :
    evalPure (Reactive.envOf st'.rs) x = evalPure (Reactive.envOf st.rs) x ∧
      readsU (Reactive.envOf st'.rs) x = readsU (Reactive.envOf st.rs) x := by
  simp only [sigOnly, Bool.and_eq_true] at hs
  exact reads_determine x hs.1.2 (fun i hr => hx.envOf_sig hi.kle (readsU_below x hs.1.1 i hr))

theorem EffOK.ext {K : Nat} {A : Nat → Prop} {st st' : St} {e : Nat} {x : Expr} {cur : Int → Prop}
    (h : EffOK K st e x cur) (hi : RInv K st) (hx : Ext K A st st') (ha : ¬ A e) : EffOK K st' e x cur := by
  have hc := hx.ctl e h.lt ha
  simp only [RView.ctl, Prod.mk.injEq] at hc
  have hs := h.sigOnly hi
  have henv := envOf_ext_expr hx hi hs
  refine ⟨h.ke, by have := hx.len_le; have := h.lt; omega, by rw [hx.prog_get h.lt]; exact h.prog,
    by rw [hc.2.2.2.2.2.2.2.2.1]; exact h.alive, by rw [hc.2.2.2.2.2.2.2.2.2]; exact h.done,
    hx.tasks e h.task, ?_⟩
  rcases h.ok with hp | hcur
  · left
    exact ⟨by rw [hc.2.2.2.1]; exact hp.1, by rw [hc.2.2.2.2.1]; exact hp.2.1,
      by rw [hc.2.2.2.2.2.1]; exact hp.2.2⟩
  · right
    refine ⟨by rw [hc.2.2.2.1]; exact hcur.1, by rw [henv.1]; exact hcur.2.1, ?_⟩
    intro i hr
    rw [henv.2] at hr
    exact (hx.subs i e h.lt ha).2 (hcur.2.2 i hr)

/-! ## the mounted tree -/

def GoodAttr (K : Nat) (st : St) : Attr → AState → Prop
  | .stat n v, .stat n' v' => n = n' ∧ v = v'
  | .dyn n x, .dyn e n' x' last => n = n' ∧ x = x' ∧ EffOK K st e x (fun v => last = v)
  | .cls n x, .cls e n' x' last => n = n' ∧ x = x' ∧ EffOK K st e x (fun v => last = (v != 0))
  | .sty n x, .sty e n' x' last => n = n' ∧ x = x' ∧ EffOK K st e x (fun v => last = v)
  | _, _ => False

def GoodAttrs (K : Nat) (st : St) : List Attr → List AState → Prop
  | [], [] => True
  | a :: as, s :: ss => GoodAttr K st a s ∧ GoodAttrs K st as ss
  | _, _ => False

/-- the state `t` is a state of the view `v`, and every effect in it is pending or current -/
def Good (K : Nat) (st : St) : View → RState → Prop
  | .text s, .text _ s' => s = s'
  | .unit, .unit _ => True
  | .elem tag attrs kid, .elem _ tag' as k => tag = tag' ∧ GoodAttrs K st attrs as ∧ Good K st kid k
  | .seq a b, .seq sa sb => Good K st a sa ∧ Good K st b sb
  | .dynText x, .dynText e x' _ last => x = x' ∧ EffOK K st e x (fun v => last = v)
  | .either c a b, .either e c' a' b' left inner =>
    c = c' ∧ a = a' ∧ b = b' ∧ EffOK K st e c (fun v => left = (v != 0)) ∧
      (left = true → Good K st a inner) ∧ (left = false → Good K st b inner)
  | _, _ => False

def AState.effs : AState → List Nat
  | .stat _ _ => []
  | .dyn e _ _ _ => [e]
  | .cls e _ _ _ => [e]
  | .sty e _ _ _ => [e]

/-- every render effect in a state tree, nested ones included -/
def effsOf : RState → List Nat
  | .text _ _ => []
  | .unit _ => []
  | .elem _ _ as kid => as.flatMap AState.effs ++ effsOf kid
  | .seq a b => effsOf a ++ effsOf b
  | .dynText e _ _ _ => [e]
  | .either e _ _ _ _ inner => e :: effsOf inner
  | .show e _ _ _ _ _ inner => e :: effsOf inner
  | .forK e _ _ _ _ => [e]

theorem GoodAttr.ext {K : Nat} {A : Nat → Prop} {st st' : St} (hi : RInv K st) (hx : Ext K A st st') :
    ∀ {a : Attr} {s : AState}, GoodAttr K st a s → (∀ e ∈ s.effs, ¬ A e) → GoodAttr K st' a s
  | .stat _ _, .stat _ _, h, _ => h
  | .dyn _ _, .dyn e _ _ _, h, ha => ⟨h.1, h.2.1, h.2.2.ext hi hx (ha e (by simp [AState.effs]))⟩
  | .cls _ _, .cls e _ _ _, h, ha => ⟨h.1, h.2.1, h.2.2.ext hi hx (ha e (by simp [AState.effs]))⟩
  | .sty _ _, .sty e _ _ _, h, ha => ⟨h.1, h.2.1, h.2.2.ext hi hx (ha e (by simp [AState.effs]))⟩
  | .stat _ _, .dyn _ _ _ _, h, _ => h.elim
  | .stat _ _, .cls _ _ _ _, h, _ => h.elim
  | .stat _ _, .sty _ _ _ _, h, _ => h.elim
  | .dyn _ _, .stat _ _, h, _ => h.elim
  | .dyn _ _, .cls _ _ _ _, h, _ => h.elim
  | .dyn _ _, .sty _ _ _ _, h, _ => h.elim
  | .cls _ _, .stat _ _, h, _ => h.elim
  | .cls _ _, .dyn _ _ _ _, h, _ => h.elim
  | .cls _ _, .sty _ _ _ _, h, _ => h.elim
  | .sty _ _, .stat _ _, h, _ => h.elim
  | .sty _ _, .dyn _ _ _ _, h, _ => h.elim
  | .sty _ _, .cls _ _ _ _, h, _ => h.elim

theorem GoodAttrs.ext {K : Nat} {A : Nat → Prop} {st st' : St} (hi : RInv K st) (hx : Ext K A st st') :
    ∀ {as : List Attr} {ss : List AState}, GoodAttrs K st as ss → (∀ e ∈ ss.flatMap AState.effs, ¬ A e) →
      GoodAttrs K st' as ss
  | [], [], _, _ => trivial
  | _ :: _, s :: ss, h, ha =>
    ⟨h.1.ext hi hx (fun e he => ha e (by simp [he])),
     GoodAttrs.ext hi hx h.2 (fun e he => ha e (by
       simp only [List.flatMap_cons, List.mem_append]; exact Or.inr he))⟩
  | [], _ :: _, h, _ => h.elim
  | _ :: _, [], h, _ => h.elim

end Leptos.RView
