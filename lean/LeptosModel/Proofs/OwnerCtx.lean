import LeptosModel.Proofs.OwnerOrder
/-!
# Proofs/OwnerCtx — context lookups walk the chain of live parents (C08)
-/
namespace Leptos.Owner

/-- the owners `use_context` looks at, starting from `o`: `o`, its parent, … while each one can
still be upgraded -/
def chain : Nat → Core → Nat → List Nat
  | 0, _, _ => []
  | fuel + 1, st, o =>
    match st.owners[o]? with
    | none => []
    | some r =>
      if !r.alive then [] else
      o :: (match r.parent with
            | some p => chain fuel st p
            | none => [])

def ctxAt (st : Core) (a : Nat) (ty : Nat) : Option CtxEntry :=
  match st.owners[a]? with
  | some r => ctxFind r.contexts ty
  | none => none

theorem lookup_eq_chain (fuel : Nat) (st : Core) (o ty : Nat) :
    lookup fuel st o ty = (chain fuel st o).findSome? fun a => (ctxAt st a ty).map fun e => (a, e) := by
  induction fuel generalizing o with
  | zero => rfl
  | succ n ih =>
    simp only [lookup, chain]
    cases hr : st.owners[o]? with
    | none => rfl
    | some r =>
      simp only
      by_cases ha : r.alive = true
      · simp only [ha, Bool.not_true, Bool.false_eq_true, if_false, List.findSome?_cons, ctxAt, hr]
        cases hf : ctxFind r.contexts ty with
        | some e => simp
        | none =>
          simp only [Option.map_none]
          cases hp : r.parent with
          | none => simp
          | some p => simp only; exact ih p
      · simp [ha]

/-- extra fuel changes nothing once it exceeds the starting owner's id (parents have smaller ids) -/
theorem lookup_fuel {st : Core} (hwf : TreeWF st) (ty : Nat) (f : Nat) :
    ∀ o, o < f → ∀ k, lookup (f + k) st o ty = lookup f st o ty := by
  induction f with
  | zero => intro o h; omega
  | succ n ih =>
    intro o ho k
    have : n + 1 + k = (n + k) + 1 := by omega
    rw [this]
    simp only [lookup]
    cases hr : st.owners[o]? with
    | none => rfl
    | some r =>
      simp only
      split
      · rfl
      · split
        · rfl
        · cases hp : r.parent with
          | none => rfl
          | some p =>
            simp only
            have hlt : p < o := hwf.parent_lt o p (by simp [parentOf, hr, hp])
            exact ih p (by omega) k

end Leptos.Owner
