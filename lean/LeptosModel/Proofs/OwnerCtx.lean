import LeptosModel.Proofs.OwnerOrder
/-!
# Proofs/OwnerCtx — context lookups walk the chain of live parents (C08)
-/
namespace Leptos.Owner

/-- the owners `use_context` looks at, starting from `o`: `o`, its parent, … while each one can
still be upgraded -/
def chain : Nat → Core → Nat → List Nat
  | 0, _, _ => []
  | fuel + 1, st, o =>
    match st.owners[o]? with
    | none => []
    | some r =>
      if !r.alive then [] else
      o :: (match r.parent with
            | some p => chain fuel st p
            | none => [])

def ctxAt (st : Core) (a : Nat) (ty : Nat) : Option CtxEntry :=
  match st.owners[a]? with
  | some r => ctxFind r.contexts ty
  | none => none

theorem lookup_eq_chain (fuel : Nat) (st : Core) (o ty : Nat) :
    lookup fuel st o ty = (chain fuel st o).findSome? fun a => (ctxAt st a ty).map fun e => (a, e) := by
  induction fuel generalizing o with
  | zero => rfl
  | succ n ih =>
    simp only [lookup, chain]
    cases hr : st.owners[o]? with
    | none => rfl
    | some r =>
      simp only
      by_cases ha : r.alive = true
      · simp only [ha, Bool.not_true, Bool.false_eq_true, if_false, List.findSome?_cons, ctxAt, hr]
        cases hf : ctxFind r.contexts ty with
        | some e => simp
        | none =>
          simp only [Option.map_none]
          cases hp : r.parent with
          | none => simp
          | some p => simp only; exact ih p
      · simp [ha]

/-- extra fuel changes nothing once it exceeds the starting owner's id (parents have smaller ids) -/
theorem lookup_fuel {st : Core} (hwf : TreeWF st) (ty : Nat) (f : Nat) :
    ∀ o, o < f → ∀ k, lookup (f + k) st o ty = lookup f st o ty := by
  induction f with
  | zero => intro o h; omega
  | succ n ih =>
    intro o ho k
    have : n + 1 + k = (n + k) + 1 := by omega
    rw [this]
    simp only [lookup]
    cases hr : st.owners[o]? with
    | none => rfl
    | some r =>
      simp only
      split
      · rfl
      · split
        · rfl
        · cases hp : r.parent with
          | none => rfl
          | some p =>
            simp only
            have hlt : p < o := hwf.parent_lt o p (by simp [parentOf, hr, hp])
            exact ih p (by omega) k

/-! ### `take_context` un-shadows the next provider outward -/

theorem chain_modOwner (fuel : Nat) (st : Core) (a : Nat) (g : OwnerRec → OwnerRec)
    (ha : ∀ r, (g r).alive = r.alive) (hp : ∀ r, (g r).parent = r.parent) (o : Nat) :
    chain fuel (st.modOwner a g) o = chain fuel st o := by
  induction fuel generalizing o with
  | zero => rfl
  | succ n ih =>
    simp only [chain]
    rw [modOwner_get]
    by_cases hoa : o = a
    · simp only [hoa, if_true]
      cases hr : st.owners[a]? with
      | none => rfl
      | some r =>
        simp only [Option.map_some, ha, hp]
        split
        · rfl
        · cases r.parent with
          | none => rfl
          | some p => simp only; rw [ih]
    · simp only [hoa, if_false]
      cases hr : st.owners[o]? with
      | none => rfl
      | some r =>
        simp only
        split
        · rfl
        · cases r.parent with
          | none => rfl
          | some p => simp only; rw [ih]

theorem ctxFind_filter_none (cs : List CtxEntry) (ty : Nat) :
    ctxFind (cs.filter fun x => x.ty != ty) ty = none := by
  unfold ctxFind
  rw [List.find?_eq_none]
  intro x hx
  have := (List.mem_filter.mp hx).2
  simpa using this

theorem ctxAt_after_take (st : Core) (a ty x : Nat) :
    ctxAt (st.modOwner a fun r => { r with contexts := r.contexts.filter fun e => e.ty != ty }) x ty =
      if x = a then none else ctxAt st x ty := by
  unfold ctxAt
  rw [modOwner_get]
  by_cases hxa : x = a
  · simp only [hxa, if_true]
    cases st.owners[a]? with
    | none => rfl
    | some r => simp only [Option.map_some]; exact ctxFind_filter_none _ _
  · simp only [hxa, if_false]

theorem findSome_skip {β : Type} (l : List Nat) (a : Nat) (f : Nat → Option β) :
    l.findSome? (fun x => if x = a then none else f x) = (l.filter (· != a)).findSome? f := by
  induction l with
  | nil => rfl
  | cons y ys ih =>
    by_cases hya : y = a
    · simp [List.findSome?_cons, hya, ih]
    · simp only [List.findSome?_cons, hya, if_false, ih]
      have : (y != a) = true := by simpa using hya
      simp only [List.filter_cons, this, if_true, List.findSome?_cons]

/-- the lookup after the entry of owner `a` has been taken = the lookup before it over the same
chain of owners with `a` left out -/
theorem lookup_after_take (f : Nat) (st : Core) (o ty a : Nat) :
    lookup f (st.modOwner a fun r => { r with contexts := r.contexts.filter fun x => x.ty != ty }) o ty =
      ((chain f st o).filter (· != a)).findSome? fun x => (ctxAt st x ty).map fun e => (x, e) := by
  have hch := chain_modOwner f st a
    (fun r => { r with contexts := r.contexts.filter fun x => x.ty != ty }) (fun _ => rfl) (fun _ => rfl) o
  rw [lookup_eq_chain, hch, ← findSome_skip]
  congr 1
  funext x
  rw [ctxAt_after_take]
  split <;> rfl

theorem lookup_congr (f : Nat) {s1 s2 : Core} (h : s1.owners = s2.owners) (o ty : Nat) :
    lookup f s1 o ty = lookup f s2 o ty := by
  induction f generalizing o with
  | zero => rfl
  | succ n ih =>
    simp only [lookup, h]
    cases s2.owners[o]? with
    | none => rfl
    | some r =>
      simp only
      split
      · rfl
      · split
        · rfl
        · cases r.parent with
          | none => rfl
          | some p => exact ih p

theorem aliveB_modOwner (st : Core) (a : Nat) (g : OwnerRec → OwnerRec) (ha : ∀ r, (g r).alive = r.alive)
    (x : Nat) : (st.modOwner a g).aliveB x = st.aliveB x := by
  unfold Core.aliveB
  rw [modOwner_get]
  by_cases hxa : x = a
  · simp only [hxa, if_true]
    cases st.owners[a]? with
    | none => rfl
    | some r => simp only [Option.map_some, ha]
  · simp only [hxa, if_false]

/-- the owner table after `take_context` has removed the entry of owner `a` -/
def taken (st : Core) (a ty : Nat) : Core :=
  st.modOwner a fun r => { r with contexts := r.contexts.filter fun x => x.ty != ty }

theorem takeCtx_shape {st : Core} {ty a : Nat} {e : CtxEntry} (hl : lookupCur st ty = some (a, e)) :
    (takeCtx st ty).owners = (taken st a ty).owners ∧ (takeCtx st ty).cur = st.cur := by
  unfold takeCtx
  rw [hl]
  exact ⟨rfl, modOwner_cur _ _ _⟩

theorem aliveB_takeCtx {st : Core} {ty a : Nat} {e : CtxEntry} (hl : lookupCur st ty = some (a, e)) (x : Nat) :
    (takeCtx st ty).aliveB x = st.aliveB x := by
  have h1 : (takeCtx st ty).aliveB x = (taken st a ty).aliveB x := by
    unfold Core.aliveB; rw [(takeCtx_shape hl).1]
  rw [h1]
  unfold taken
  exact aliveB_modOwner st a (fun r => { r with contexts := r.contexts.filter fun x => x.ty != ty })
    (fun _ => rfl) x

theorem taken_length (st : Core) (a ty : Nat) : (taken st a ty).owners.length = st.owners.length := by
  unfold taken Core.modOwner
  split
  · simp [Core.setOwner]
  · rfl

end Leptos.Owner
